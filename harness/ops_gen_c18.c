/* C18 operations on a generated module with an open type governed by an information object set.
 *   ioc                 (type = the SEQUENCE holding the open type) dump of the open-type member(s), of the
 *                       member's CHOICE-like elements and of the emitted asn_ioc_set_t table
 *                       (reached through the per-bundle shadow file, see vlib/props/c18.py)
 *   select <val>        load the SEQUENCE value (identifier member set), call the member's generated
 *                       type_selector => "<presence_index> <type name|->"
 *   uperbits <val>      number of bits of the stand-alone UPER encoding (uper_encode's .encoded)
 *   oput <val>          uper_open_type_put of the value => bit string
 *   oget <bits>         uper_open_type_get of the current type from the bit string => "<rc> <bits moved>"
 *   odec <syn> <hex>    like core `dec`, but the decoded structure is printed / validated / re-encoded only after
 *                       RC_OK (a partially decoded structure is just freed) and asn_check_constraints is not
 *                       called: keeps defects of asn_fprint on half-built structures and of the emitted constraint
 *                       checkers (other properties) out of this check; after a failed decode: ` slot=<null|presence>` =
 *                       what is left in the open type member (K: Impl.OpenType.slotAfter)
 */
#include "gen_common.h"
#include <asn_ioc.h>
#include <OPEN_TYPE.h>
#include <constr_CHOICE.h>
#include <NativeInteger.h>
#include <OBJECT_IDENTIFIER.h>
#include <per_opentype.h>
#include <per_encoder.h>

extern const asn_ioc_set_t *verif_ioc_set __attribute__((weak));

struct bitsink { uint8_t *buf; size_t len, cap; };
static int sink_cb(const void *b, size_t n, void *k) {
    struct bitsink *s = k;
    if(s->len + n > s->cap) { s->cap = (s->len + n) * 2 + 64; s->buf = realloc(s->buf, s->cap); }
    memcpy(s->buf + s->len, b, n); s->len += n;
    return 0;
}
static int sink_null(const void *b, size_t n, void *k) { (void)b; (void)n; (void)k; return 0; }
static void print_bits(FILE *out, const uint8_t *b, size_t nbits) {
    if(nbits == 0) { fputc('-', out); return; }
    for(size_t i = 0; i < nbits; i++) fputc((b[i >> 3] >> (7 - (i & 7))) & 1 ? '1' : '0', out);
}

int ops_gen_c18(int argc, char **argv, FILE *out) {
    const char *op = argv[0];
    if(strcmp(op, "ioc") && strcmp(op, "select") && strcmp(op, "uperbits") && strcmp(op, "oput") && strcmp(op, "oget") && strcmp(op, "odec")) return 0;
    if(!cur_td) { fputs("no-type", out); return 1; }
    if(!strcmp(op, "ioc")) {
        const asn_TYPE_member_t *om = 0;
        for(unsigned i = 0; i < cur_td->elements_count; i++) {
            const asn_TYPE_member_t *e = &cur_td->elements[i];
            if(!(e->flags & ATF_OPEN_TYPE)) continue;
            if(!om) om = e;
            fprintf(out, "(member %s idx=%u ptr=%d opt=%u tagged=%d selector=%d kind=%s nelems=%u elems=(", e->name, i, (e->flags & ATF_POINTER) ? 1 : 0,
                    e->optional, e->tag != (ber_tlv_tag_t)-1, e->type_selector ? 1 : 0, rf_kind_name(rf_kind(e->type)), e->type->elements_count);
            for(unsigned j = 0; j < e->type->elements_count; j++)
                fprintf(out, "%s%s:%s", j ? " " : "", e->type->elements[j].name, e->type->elements[j].type->name);
            fputs(")) ", out);
        }
        if(!om) { fputs("no-open-type-member", out); return 1; }
        if(!&verif_ioc_set || !verif_ioc_set) { fputs("(table -)", out); return 1; }
        const asn_ioc_set_t *t = verif_ioc_set;
        fprintf(out, "(table rows=%zu cols=%zu", t->rows_count, t->columns_count);
        for(size_t r = 0; r < t->rows_count; r++) {
            fputs(" (row", out);
            for(size_t c = 0; c < t->columns_count; c++) {
                const asn_ioc_cell_t *cell = &t->rows[r * t->columns_count + c];
                if(cell->cell_kind == aioc__value) {
                    fprintf(out, " (%s value ", cell->field_name);
                    if(cell->type_descriptor) rf_dump(cell->type_descriptor, cell->value_sptr, out); else fputs("-", out);
                    fputc(')', out);
                } else if(cell->cell_kind == aioc__type) {
                    int aligned = r < om->type->elements_count && om->type->elements[r].type == cell->type_descriptor;
                    fprintf(out, " (%s type %s aligned=%d)", cell->field_name, cell->type_descriptor ? cell->type_descriptor->name : "-", aligned);
                } else fprintf(out, " (%s kind=%d)", cell->field_name, (int)cell->cell_kind);
            }
            fputc(')', out);
        }
        fputc(')', out);
        return 1;
    }
    if(!strcmp(op, "select") && argc >= 2) {
        const asn_TYPE_member_t *om = 0;
        for(unsigned i = 0; i < cur_td->elements_count; i++)
            if((cur_td->elements[i].flags & ATF_OPEN_TYPE) && cur_td->elements[i].type_selector) { om = &cur_td->elements[i]; break; }
        if(!om) { fputs("no-selector", out); return 1; }
        char *v = gen_join(argc, argv, 1); const char *p = v;
        void *st = rf_load(cur_td, &p, 0);
        if(!st) { fprintf(out, "load-error %s", rf_errmsg); free(v); return 1; }
        asn_type_selector_result_t r = om->type_selector(cur_td, st);
        fprintf(out, "%u %s", r.presence_index, r.type_descriptor ? r.type_descriptor->name : "-");
        ASN_STRUCT_FREE(*cur_td, st); free(v);
        return 1;
    }
    if((!strcmp(op, "uperbits") || !strcmp(op, "oput")) && argc >= 2) {
        char *v = gen_join(argc, argv, 1); const char *p = v;
        void *st = rf_load(cur_td, &p, 0);
        if(!st) { fprintf(out, "load-error %s", rf_errmsg); free(v); return 1; }
        struct bitsink sk = {0, 0, 0};
        if(!strcmp(op, "uperbits")) {
            asn_enc_rval_t er = uper_encode(cur_td, 0, st, sink_cb, &sk);
            if(er.encoded < 0) fputs("fail", out);
            else { fprintf(out, "ok %zd ", er.encoded); print_bits(out, sk.buf, er.encoded); }
        } else {
            asn_per_outp_t po;
            memset(&po, 0, sizeof po);
            po.buffer = po.tmpspace; po.nboff = 0; po.nbits = 8 * sizeof(po.tmpspace);
            po.output = sink_cb; po.op_key = &sk; po.flushed_bytes = 0;
            int rc = uper_open_type_put(cur_td, 0, st, &po);
            if(rc) fputs("fail", out);
            else {
                size_t bits = (po.flushed_bytes << 3) + ((po.buffer - po.tmpspace) << 3) + po.nboff;
                uint8_t *e = po.buffer + (po.nboff >> 3);
                if(po.nboff & 7) { e[0] &= 0xff << (8 - (po.nboff & 7)); e++; }
                sink_cb(po.tmpspace, e - po.tmpspace, &sk);
                fputs("ok ", out); print_bits(out, sk.buf, bits);
            }
        }
        free(sk.buf);
        ASN_STRUCT_FREE(*cur_td, st); free(v);
        return 1;
    }
    if(!strcmp(op, "odec") && argc == 3) {
        enum asn_transfer_syntax syn = gen_syntax(argv[1], 1);
        size_t len; uint8_t *b = hx_parse_exact(argv[2], &len);
        if(!b) { fputs("bad-op", out); return 1; }
        void *st = 0;
        asn_dec_rval_t rv = asn_decode(0, syn, cur_td, &st, b, len);
        fprintf(out, "%s %zu ", gen_rc_name(rv.code), rv.consumed);
        if(rv.code == RC_OK && st) {
            /* print + DER + BASIC-XER re-encode of the decoded value (asn_check_constraints is left out: the emitted
             * checker of `INTEGER (0..MAX)`-like constraints recurses forever on the unchanged tree, another property) */
            static FILE *devnull;
            if(!devnull) devnull = fopen("/dev/null", "w");
            rf_dump(cur_td, st, out);
            asn_fprint(devnull, cur_td, st);
            asn_encode(0, ATS_DER, cur_td, st, sink_null, 0);
            asn_encode(0, ATS_BASIC_XER, cur_td, st, sink_null, 0);   /* not CANONICAL: SET OF scratch leak on element failure is F21 (C14) */
        } else {
            fputc('-', out);
            /* what the failed decode left in the (first) open type member: NULL pointer or a presence index */
            for(unsigned i = 0; st && i < cur_td->elements_count; i++) {
                const asn_TYPE_member_t *e = &cur_td->elements[i];
                if(!(e->flags & ATF_OPEN_TYPE)) continue;
                const void *ms = (e->flags & ATF_POINTER) ? *(const void *const *)((const char *)st + e->memb_offset)
                                                          : (const void *)((const char *)st + e->memb_offset);
                if(!ms) fputs(" slot=null", out);
                else fprintf(out, " slot=%u", CHOICE_variant_get_presence(e->type, ms));
                break;
            }
        }
        ASN_STRUCT_FREE(*cur_td, st);
        free(b);
        return 1;
    }
    if(!strcmp(op, "oget") && argc == 2) {
        const char *bits = strcmp(argv[1], "-") ? argv[1] : "";
        size_t nbits = strlen(bits);
        uint8_t *b = calloc(1, (nbits + 7) / 8 + 1);
        uint8_t *exact = 0;
        for(size_t i = 0; i < nbits; i++) if(bits[i] == '1') b[i >> 3] |= 0x80 >> (i & 7);
        exact = malloc((nbits + 7) / 8 ? (nbits + 7) / 8 : 1); memcpy(exact, b, (nbits + 7) / 8); free(b);
        asn_per_data_t pd;
        memset(&pd, 0, sizeof pd);
        pd.buffer = exact; pd.nboff = 0; pd.nbits = nbits;
        void *st = 0;
        asn_dec_rval_t rv = uper_open_type_get(0, cur_td, 0, &st, &pd);
        fprintf(out, "%s %zu", gen_rc_name(rv.code), pd.moved);
        if(rv.code == RC_OK && st) { fputc(' ', out); rf_dump(cur_td, st, out); }
        ASN_STRUCT_FREE(*cur_td, st);
        free(exact);
        return 1;
    }
    fputs("bad-op", out);
    return 1;
}
