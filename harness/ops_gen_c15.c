/* C15 operations on a generated module: decode adversarial input and report the peak live heap.
 *
 *   @T decpeak <syn> <hex | @file:path> [maxstack]
 *        -> "<ok|more|fail> <consumed> peak_heap=<bytes> allocs=<n> maxreq=<bytes> failed=<n> live=<bytes>"
 *      decodes with asn_decode(); with `maxstack` an asn_codec_ctx_t { .max_stack_size = maxstack } is
 *      passed (0 is refused: it means "unlimited" and is outside the property).  The ledger
 *      (alloc_peak.c) is on exactly during the decode call; the result is freed afterwards.
 *   @T ssize  -> "struct_size=<n>" for constructed / string types (first field of the specifics)
 */
#include "gen_common.h"
#include <constr_SET_OF.h>

extern size_t ap_live, ap_peak, ap_allocs, ap_maxreq, ap_failed, ap_reqtotal;
void ap_start(void); void ap_stop(void);

static int hexv(int c) {
    if(c >= '0' && c <= '9') return c - '0';
    if(c >= 'a' && c <= 'f') return c - 'a' + 10;
    if(c >= 'A' && c <= 'F') return c - 'A' + 10;
    return -1;
}
/* exact-size buffer (ASan sees over-reads); linear time */
static uint8_t *hex_exact(const char *s, size_t n, size_t *len) {
    if(n == 1 && s[0] == '-') { *len = 0; return malloc(1); }
    if(n % 2) return 0;
    uint8_t *b = malloc(n / 2 ? n / 2 : 1);
    for(size_t i = 0; i < n / 2; i++) {
        int a = hexv(s[2 * i]), c = hexv(s[2 * i + 1]);
        if(a < 0 || c < 0) { free(b); return 0; }
        b[i] = (uint8_t)(a * 16 + c);
    }
    *len = n / 2;
    return b;
}
static uint8_t *load_input(const char *arg, size_t *len) {
    if(!strncmp(arg, "@file:", 6)) {
        FILE *f = fopen(arg + 6, "rb");
        if(!f) return 0;
        fseek(f, 0, SEEK_END); long sz = ftell(f); fseek(f, 0, SEEK_SET);
        char *t = malloc(sz + 1);
        size_t got = fread(t, 1, sz, f); fclose(f);
        while(got && (t[got - 1] == '\n' || t[got - 1] == '\r' || t[got - 1] == ' ')) got--;
        uint8_t *b = hex_exact(t, got, len);
        free(t);
        return b;
    }
    return hex_exact(arg, strlen(arg), len);
}

int ops_gen_c15(int argc, char **argv, FILE *out) {
    const char *op = argv[0];
    if(!strcmp(op, "ssize") && argc == 1) {
        if(!cur_td) { fputs("no-type", out); return 1; }
        if(!cur_td->specifics) { fputs("struct_size=-", out); return 1; }
        fprintf(out, "struct_size=%u", *(const unsigned *)cur_td->specifics);
        return 1;
    }
    if(!strcmp(op, "decpeak") && (argc == 3 || argc == 4)) {
        if(!cur_td) { fputs("no-type", out); return 1; }
        enum asn_transfer_syntax syn = gen_syntax(argv[1], 1);
        size_t len; uint8_t *b = load_input(argv[2], &len);
        if(!b || syn == ATS_INVALID) { fputs("bad-op", out); free(b); return 1; }
        asn_codec_ctx_t cc; asn_codec_ctx_t *ccp = 0;
        if(argc == 4) {
            long ms = atol(argv[3]);
            if(ms <= 0) { fputs("bad-op", out); free(b); return 1; }
            memset(&cc, 0, sizeof cc); cc.max_stack_size = (size_t)ms; ccp = &cc;
        }
        void *st = 0;
        ap_start();
        asn_dec_rval_t rv = asn_decode(ccp, syn, cur_td, &st, b, len);
        ap_stop();
        fprintf(out, "%s %zu peak_heap=%zu allocs=%zu maxreq=%zu failed=%zu live=%zu", gen_rc_name(rv.code), (size_t)rv.consumed,
                ap_peak, ap_allocs, ap_maxreq, ap_failed, ap_live);
        fflush(out);
        if(st) ASN_STRUCT_FREE(*cur_td, st);
        free(b);
        return 1;
    }
    return 0;
}
