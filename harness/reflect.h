/* Reflection over asn_TYPE_descriptor_t: value loader (s-expression -> C structure, independent of
 * every decoder), value dumper (C structure -> s-expression, independent of compare/print/XER),
 * descriptor dumper.  See DESIGN.md Appendix D for the value syntax. */
#ifndef REFLECT_H
#define REFLECT_H
#include "hutil.h"
#include <asn_application.h>
#include <asn_internal.h>

typedef enum {
    K_BOOLEAN, K_NULL, K_NINT, K_INT, K_NENUM, K_ENUM, K_NREAL, K_REAL,
    K_OCTETS, K_BITS, K_PRIM /* OID, RELATIVE-OID: buf+size */,
    K_SEQUENCE, K_SET, K_CHOICE, K_SETOF, K_SEQOF, K_ANY, K_OPEN, K_UNKNOWN
} rf_kind_t;

rf_kind_t rf_kind(const asn_TYPE_descriptor_t *td);
const char *rf_kind_name(rf_kind_t k);

/* Parse one value at *pp for type td into a fresh structure (or into `into` if non-NULL).
 * Returns the structure or NULL on syntax/type error (message in rf_errmsg). */
void *rf_load(const asn_TYPE_descriptor_t *td, const char **pp, void *into);
extern char rf_errmsg[256];

/* Print the value as an s-expression. */
void rf_dump(const asn_TYPE_descriptor_t *td, const void *sptr, FILE *out);

/* Print the descriptor graph reachable from td (one line). */
void rf_dump_descr(const asn_TYPE_descriptor_t *td, FILE *out);

/* The table of types of the generated module (defined in the generated types_table.c). */
extern asn_TYPE_descriptor_t *verif_types[];
extern const char *verif_type_names[];
asn_TYPE_descriptor_t *rf_find_type(const char *name);

#endif
