/* C13 K leg: the representation-dependent codec paths on the real functions.
 *   <sg>  = s | u            (field_unsigned of the descriptor)
 *   <ct>  = - | ext,semi,range_bits,lb,ub
 *   <map> = - | v:name,v:name,...   (value2enum, sorted by value)
 *   n_der <sg> <v> | w_der <hex> | n_dec <sg> <hexcontent>
 *   n_oer <sg> <width> <positive> <v> | w_oer <width> <positive> <hex>
 *   n_uper <sg> <ct> <v> | w_uper <sg> <ct> <hex>
 *   n_xer <sg> <v> | w_xer <sg> <hex>
 *   ne_oer <v> | we_oer <hex> | ne_uper <map> <ext> <ct> <v> | we_uper <map> <ext> <ct> <hex>
 *   ne_xer <map> <v> | we_xer <map> <hex>
 *   ne_uperdec <map> <ext> <ct> <hex> | we_uperdec <map> <ext> <ct> <hex>   (uper_decode of the octets => "ok <number>" | "fail";
 *                                      P leg only, no model op: both representations must return the encoded number)
 */
#include "hutil.h"
#include <asn_application.h>
#include <asn_internal.h>
#include <INTEGER.h>
#include <NativeInteger.h>
#include <ENUMERATED.h>
#include <NativeEnumerated.h>
#include <per_encoder.h>
#include <per_decoder.h>

struct sink { uint8_t buf[8192]; size_t n; int over; };
static int sink_cb(const void *b, size_t n, void *k) {
    struct sink *s = k;
    if(s->n + n > sizeof s->buf) { s->over = 1; return -1; }
    memcpy(s->buf + s->n, b, n); s->n += n;
    return 0;
}

static asn_INTEGER_enum_map_t g_map[64];
static unsigned g_e2v[64];
static char g_names[64][32];
static asn_INTEGER_specifics_t g_specs;

/* builds specifics; returns pointer or NULL when neither unsigned nor a map is asked for */
static const asn_INTEGER_specifics_t *mk_specs(int uns, const char *map, int extension, int strict) {
    memset(&g_specs, 0, sizeof g_specs);
    int n = 0;
    if(map && strcmp(map, "-")) {
        const char *p = map;
        while(*p && n < 64) {
            char *e; long v = strtol(p, &e, 10);
            if(*e != ':') break;
            e++;
            size_t l = strcspn(e, ",");
            if(l >= sizeof g_names[0]) l = sizeof g_names[0] - 1;
            memcpy(g_names[n], e, l); g_names[n][l] = 0;
            g_map[n].nat_value = v; g_map[n].enum_len = l; g_map[n].enum_name = g_names[n];
            g_e2v[n] = n;
            n++;
            p = e + l; if(*p == ',') p++;
        }
    }
    if(!uns && !n && !strict) return NULL;
    g_specs.value2enum = g_map; g_specs.enum2value = g_e2v; g_specs.map_count = n;
    g_specs.extension = extension; g_specs.strict_enumeration = strict;
    g_specs.field_width = sizeof(long); g_specs.field_unsigned = uns;
    return &g_specs;
}

static asn_per_constraints_t g_pc;
static const asn_per_constraints_t *mk_ct(const char *s) {
    if(!strcmp(s, "-")) return NULL;
    int ext, semi, rb; long lb, ub;
    if(sscanf(s, "%d,%d,%d,%ld,%ld", &ext, &semi, &rb, &lb, &ub) != 5) return NULL;
    memset(&g_pc, 0, sizeof g_pc);
    g_pc.value.flags = (ext ? APC_EXTENSIBLE : 0) | (semi ? APC_SEMI_CONSTRAINED : 0) | ((rb >= 0 && !semi) ? APC_CONSTRAINED : 0);
    g_pc.value.range_bits = rb; g_pc.value.effective_bits = rb; g_pc.value.lower_bound = lb; g_pc.value.upper_bound = ub;
    g_pc.size.range_bits = -1; g_pc.size.effective_bits = -1;
    return &g_pc;
}

static long parse_native(const char *sg, const char *v) {
    if(sg[0] == 'u') return (long)strtoul(v, 0, 10);
    return strtol(v, 0, 10);
}

static int load_I(INTEGER_t *st, const char *hex) {
    memset(st, 0, sizeof *st);
    size_t len; st->buf = hx_parse_exact(hex, &len); st->size = len;
    return st->buf ? 0 : -1;
}

static void out_uper(FILE *out, asn_enc_rval_t er, const uint8_t *buf) {
    if(er.encoded < 0) { fputs("fail", out); return; }
    fprintf(out, "ok %zd ", er.encoded);
    hx_print(out, buf, (er.encoded + 7) / 8);
}

int ops_c13(int argc, char **argv, FILE *out) {
    const char *op = argv[0];
    asn_TYPE_descriptor_t ntd = asn_DEF_NativeInteger, wtd = asn_DEF_INTEGER;
    asn_TYPE_descriptor_t netd = asn_DEF_NativeEnumerated, wetd = asn_DEF_ENUMERATED;
    uint8_t buf[4096];

    if(!strcmp(op, "n_der") && argc == 3) {
        ntd.specifics = mk_specs(argv[1][0] == 'u', 0, 0, 0);
        long nat = parse_native(argv[1], argv[2]);
        asn_enc_rval_t er = der_encode_to_buffer(&ntd, &nat, buf, sizeof buf);
        if(er.encoded < 0) fputs("fail", out); else hx_print(out, buf, er.encoded);
        return 1;
    }
    if(!strcmp(op, "w_der") && argc == 2) {
        INTEGER_t st; if(load_I(&st, argv[1])) { fputs("bad-op", out); return 1; }
        asn_enc_rval_t er = der_encode_to_buffer(&wtd, &st, buf, sizeof buf);
        if(er.encoded < 0) fputs("fail", out); else hx_print(out, buf, er.encoded);
        free(st.buf);
        return 1;
    }
    if(!strcmp(op, "n_dec") && argc == 3) {
        ntd.specifics = mk_specs(argv[1][0] == 'u', 0, 0, 0);
        size_t len; uint8_t *c = hx_parse(argv[2], &len);
        if(!c || len > 127) { fputs("bad-op", out); free(c); return 1; }
        uint8_t *tlv = malloc(len + 2);
        tlv[0] = 0x02; tlv[1] = (uint8_t)len; memcpy(tlv + 2, c, len);
        long *nat = 0;
        asn_dec_rval_t rv = ber_decode(0, &ntd, (void **)&nat, tlv, len + 2);
        if(rv.code == RC_OK && nat && rv.consumed == len + 2) {
            if(argv[1][0] == 'u') fprintf(out, "ok %lu", (unsigned long)*nat); else fprintf(out, "ok %ld", *nat);
        } else fputs("fail", out);
        free(nat); free(tlv); free(c);
        return 1;
    }
    if((!strcmp(op, "n_oer") && argc == 5) || (!strcmp(op, "w_oer") && argc == 4)) {
        int nat_side = op[0] == 'n';
        asn_oer_constraints_t oc; memset(&oc, 0, sizeof oc);
        oc.value.width = atoi(argv[nat_side ? 2 : 1]); oc.value.positive = atoi(argv[nat_side ? 3 : 2]); oc.size = -1;
        struct sink s; s.n = 0; s.over = 0;
        asn_enc_rval_t er;
        if(nat_side) {
            ntd.specifics = mk_specs(argv[1][0] == 'u', 0, 0, 0);
            long nat = parse_native(argv[1], argv[4]);
            er = ntd.op->oer_encoder(&ntd, &oc, &nat, sink_cb, &s);
        } else {
            INTEGER_t st; if(load_I(&st, argv[3])) { fputs("bad-op", out); return 1; }
            er = wtd.op->oer_encoder(&wtd, &oc, &st, sink_cb, &s);
            free(st.buf);
        }
        if(er.encoded < 0 || s.over) fputs("fail", out); else hx_print(out, s.buf, s.n);
        return 1;
    }
    if((!strcmp(op, "n_uper") || !strcmp(op, "w_uper")) && argc == 4) {
        int uns = argv[1][0] == 'u';
        const asn_per_constraints_t *pc = mk_ct(argv[2]);
        asn_enc_rval_t er;
        memset(buf, 0, sizeof buf);
        if(op[0] == 'n') {
            ntd.specifics = mk_specs(uns, 0, 0, 0);
            long nat = parse_native(argv[1], argv[3]);
            er = uper_encode_to_buffer(&ntd, pc, &nat, buf, sizeof buf);
        } else {
            wtd.specifics = mk_specs(uns, 0, 0, 0);
            INTEGER_t st; if(load_I(&st, argv[3])) { fputs("bad-op", out); return 1; }
            er = uper_encode_to_buffer(&wtd, pc, &st, buf, sizeof buf);
            free(st.buf);
        }
        out_uper(out, er, buf);
        return 1;
    }
    if((!strcmp(op, "n_xer") || !strcmp(op, "w_xer")) && argc == 3) {
        int uns = argv[1][0] == 'u';
        struct sink s; s.n = 0; s.over = 0;
        asn_enc_rval_t er;
        if(op[0] == 'n') {
            ntd.specifics = mk_specs(uns, 0, 0, 0);
            long nat = parse_native(argv[1], argv[2]);
            er = ntd.op->xer_encoder(&ntd, &nat, 0, XER_F_CANONICAL, sink_cb, &s);
        } else {
            wtd.specifics = mk_specs(uns, 0, 0, 0);
            INTEGER_t st; if(load_I(&st, argv[2])) { fputs("bad-op", out); return 1; }
            er = wtd.op->xer_encoder(&wtd, &st, 0, XER_F_CANONICAL, sink_cb, &s);
            free(st.buf);
        }
        if(er.encoded < 0 || s.over) fputs("fail", out); else hx_print(out, s.buf, s.n);
        return 1;
    }
    if((!strcmp(op, "ne_oer") || !strcmp(op, "we_oer")) && argc == 2) {
        struct sink s; s.n = 0; s.over = 0;
        asn_enc_rval_t er;
        if(op[0] == 'n') {
            long nat = strtol(argv[1], 0, 10);
            er = netd.op->oer_encoder(&netd, 0, &nat, sink_cb, &s);
        } else {
            INTEGER_t st; if(load_I(&st, argv[1])) { fputs("bad-op", out); return 1; }
            er = wetd.op->oer_encoder(&wetd, 0, &st, sink_cb, &s);
            free(st.buf);
        }
        if(er.encoded < 0 || s.over) fputs("fail", out); else hx_print(out, s.buf, s.n);
        return 1;
    }
    if((!strcmp(op, "ne_uper") || !strcmp(op, "we_uper")) && argc == 5) {
        const asn_INTEGER_specifics_t *sp = mk_specs(0, argv[1], atoi(argv[2]), 1);
        const asn_per_constraints_t *pc = mk_ct(argv[3]);
        asn_enc_rval_t er;
        memset(buf, 0, sizeof buf);
        if(op[0] == 'n') {
            netd.specifics = sp;
            long nat = strtol(argv[4], 0, 10);
            er = uper_encode_to_buffer(&netd, pc, &nat, buf, sizeof buf);
        } else {
            wetd.specifics = sp;
            INTEGER_t st; if(load_I(&st, argv[4])) { fputs("bad-op", out); return 1; }
            er = uper_encode_to_buffer(&wetd, pc, &st, buf, sizeof buf);
            free(st.buf);
        }
        out_uper(out, er, buf);
        return 1;
    }
    if((!strcmp(op, "ne_xer") || !strcmp(op, "we_xer")) && argc == 3) {
        const asn_INTEGER_specifics_t *sp = mk_specs(0, argv[1], 0, 1);
        struct sink s; s.n = 0; s.over = 0;
        asn_enc_rval_t er;
        if(op[0] == 'n') {
            netd.specifics = sp;
            long nat = strtol(argv[2], 0, 10);
            er = netd.op->xer_encoder(&netd, &nat, 0, XER_F_CANONICAL, sink_cb, &s);
        } else {
            wetd.specifics = sp;
            INTEGER_t st; if(load_I(&st, argv[2])) { fputs("bad-op", out); return 1; }
            er = wetd.op->xer_encoder(&wetd, &st, 0, XER_F_CANONICAL, sink_cb, &s);
            free(st.buf);
        }
        if(er.encoded < 0 || s.over) fputs("fail", out); else hx_print(out, s.buf, s.n);
        return 1;
    }
    if((!strcmp(op, "ne_uperdec") || !strcmp(op, "we_uperdec")) && argc == 5) {
        const asn_INTEGER_specifics_t *sp = mk_specs(0, argv[1], atoi(argv[2]), 1);
        const asn_per_constraints_t *pc = mk_ct(argv[3]);
        size_t len; uint8_t *b = hx_parse_exact(argv[4], &len);
        if(!b) { fputs("bad-op", out); return 1; }
        asn_TYPE_descriptor_t *td = op[0] == 'n' ? &netd : &wetd;
        td->specifics = sp;
        td->encoding_constraints.per_constraints = pc;
        void *st = 0;
        asn_dec_rval_t rv = uper_decode(0, td, &st, b, len, 0, 0);
        if(rv.code != RC_OK || !st) fputs("fail", out);
        else if(op[0] == 'n') fprintf(out, "ok %ld", *(long *)st);
        else {
            /* the INTEGER_t content octets read as a two's complement number (independent of asn_INTEGER2long) */
            const INTEGER_t *iv = st;
            if(iv->size == 0 || iv->size > 8) { fputs("ok octets:", out); hx_print(out, iv->buf, iv->size); }
            else {
                long v = (iv->buf[0] & 0x80) ? -1L : 0L;
                for(size_t i = 0; i < iv->size; i++) v = (long)(((unsigned long)v << 8) | iv->buf[i]);
                fprintf(out, "ok %ld", v);
            }
        }
        if(st) ASN_STRUCT_FREE(*td, st);
        free(b);
        return 1;
    }
    return 0;
}
