/* Line-protocol driver over the real NativeInteger / INTEGER / NativeEnumerated / ENUMERATED codecs (C13 K leg). */
#include "hutil.h"
int ops_c13(int argc, char **argv, FILE *out);
static op_handler_f handlers[] = { ops_c13, 0 };
#include "driver_main.h"
