/* L1 operations on the real UPER / OER primitives:
 *   skeletons/asn_bit_data.c, per_support.c, oer_support.c (+ the length loops of OCTET_STRING_*_uper).
 * Bit strings are written as 0/1 characters ("-" = empty).  One output line per op. */
#include "hutil.h"
#include <asn_internal.h>
#include <asn_bit_data.h>
#include <per_support.h>
#include <oer_support.h>
#include <OCTET_STRING.h>
#include <INTEGER.h>
#include <limits.h>

/* ---- collecting sink */
typedef struct { uint8_t *b; size_t n, cap; } sink_t;
static int sink_cb(const void *data, size_t size, void *key) {
    sink_t *s = key;
    if(s->n + size + 1 > s->cap) { s->cap = 2 * (s->n + size) + 64; s->b = realloc(s->b, s->cap); }
    if(size) memcpy(s->b + s->n, data, size);
    s->n += size;
    return 0;
}
static void po_init(asn_per_outp_t *po, sink_t *s) {
    memset(po, 0, sizeof *po); memset(s, 0, sizeof *s);
    po->buffer = po->tmpspace; po->nboff = 0; po->nbits = 8 * sizeof(po->tmpspace);
    po->output = sink_cb; po->op_key = s;
}
/* number of bits written so far */
static size_t po_bits(const asn_per_outp_t *po) {
    return 8 * po->flushed_bytes + 8 * (size_t)(po->buffer - po->tmpspace) + po->nboff;
}
/* flush, print the first nbits bits as 0/1 and check that the padding bits are zero */
static void po_finish_print(asn_per_outp_t *po, sink_t *s, FILE *out) {
    size_t nbits = po_bits(po);
    if(asn_put_aligned_flush(po)) { fputs("flush-failed", out); free(s->b); return; }
    if(s->n != (nbits + 7) / 8) { fprintf(out, "flush-size-mismatch(%zu,%zu)", s->n, nbits); free(s->b); return; }
    if(nbits == 0) fputc('-', out);
    for(size_t i = 0; i < nbits; i++) fputc(((s->b[i / 8] >> (7 - i % 8)) & 1) ? '1' : '0', out);
    for(size_t i = nbits; i < 8 * s->n; i++)
        if((s->b[i / 8] >> (7 - i % 8)) & 1) { fputs(" nonzero-padding", out); break; }
    free(s->b); s->b = 0;
}

/* ---- bit source over an exact-size heap buffer (ASan sees any over-read) */
typedef struct { asn_per_data_t pd; uint8_t *base; size_t nbits; } src_t;
static int src_init(src_t *s, const char *bits) {
    size_t n = strcmp(bits, "-") ? strlen(bits) : 0;
    memset(s, 0, sizeof *s);
    s->base = malloc(n ? (n + 7) / 8 : 1);
    if(n) memset(s->base, 0, (n + 7) / 8);
    for(size_t i = 0; i < n; i++) {
        if(bits[i] == '1') s->base[i / 8] |= 0x80 >> (i % 8);
        else if(bits[i] != '0') { free(s->base); return -1; }
    }
    s->pd.buffer = s->base; s->pd.nboff = 0; s->pd.nbits = n; s->nbits = n;
    return 0;
}
static size_t src_consumed(const src_t *s) { return 8 * (size_t)(s->pd.buffer - s->base) + s->pd.nboff; }

static int parse_ll(const char *t, long long *v) { char *e; errno = 0; *v = strtoll(t, &e, 10); return *t && !*e && !errno; }
static int parse_ull(const char *t, unsigned long long *v) { char *e; errno = 0; if(*t == '-') return 0; *v = strtoull(t, &e, 10); return *t && !*e && !errno; }

static int op_bits(int argc, char **argv, FILE *out) {
    /* bits <src-bits> tok... ; tok = p<n>:<v> | pm<hex>:<nbits> | g<n> | gm<n> | gr<n> | x */
    src_t src; asn_per_outp_t po; sink_t sk;
    if(src_init(&src, argv[1])) { fputs("bad-op", out); return 1; }
    po_init(&po, &sk);
    int first = 1;
    for(int i = 2; i < argc; i++) {
        const char *t = argv[i];
        if(!first) fputc(',', out);
        first = 0;
        if(t[0] == 'p' && t[1] == 'm') {
            char hex[4096]; long long nb;
            const char *c = strchr(t, ':');
            if(!c || (size_t)(c - t - 2) >= sizeof hex || !parse_ll(c + 1, &nb) || nb < 0) { fputs("bad-tok", out); break; }
            memcpy(hex, t + 2, c - t - 2); hex[c - t - 2] = 0;
            size_t len; uint8_t *b = hx_parse_exact(hex, &len);
            if(!b || (size_t)nb > 8 * len) { fputs("bad-tok", out); free(b); break; }
            int rc = asn_put_many_bits(&po, b, (int)nb);
            fprintf(out, "%d", rc); free(b);
        } else if(t[0] == 'p') {
            long long n; unsigned long long v;
            const char *c = strchr(t, ':');
            char nbuf[32];
            if(!c || (size_t)(c - t - 1) >= sizeof nbuf) { fputs("bad-tok", out); break; }
            memcpy(nbuf, t + 1, c - t - 1); nbuf[c - t - 1] = 0;
            if(!parse_ll(nbuf, &n) || !parse_ull(c + 1, &v) || n < -64 || n > 64) { fputs("bad-tok", out); break; }
            int rc = asn_put_few_bits(&po, (uint32_t)v, (int)n);
            fprintf(out, "%d", rc);
        } else if(t[0] == 'g' && (t[1] == 'm' || t[1] == 'r')) {
            long long n;
            if(!parse_ll(t + 2, &n) || n < 0 || n > 100000) { fputs("bad-tok", out); break; }
            size_t sz = (n + 7) / 8;
            uint8_t *dst = malloc(sz ? sz : 1);
            int rc = asn_get_many_bits(&src.pd, dst, t[1] == 'r', (int)n);
            if(rc) { fputs("-1", out); free(dst); break; }
            hx_print(out, dst, sz); free(dst);
        } else if(t[0] == 'g') {
            long long n;
            if(!parse_ll(t + 1, &n) || n < -64 || n > 64) { fputs("bad-tok", out); break; }
            int32_t v = asn_get_few_bits(&src.pd, (int)n);
            fprintf(out, "%d", (int)v);
            if(v < 0) break;
            fprintf(out, "@%zu", src_consumed(&src));
        } else if(!strcmp(t, "x")) {
            /* flush what has been written and continue reading from it */
            size_t nbits = po_bits(&po);
            if(asn_put_aligned_flush(&po)) { fputs("flush-failed", out); break; }
            free(src.base);
            memset(&src, 0, sizeof src);
            src.base = malloc(sk.n ? sk.n : 1);
            if(sk.n) memcpy(src.base, sk.b, sk.n);
            src.pd.buffer = src.base; src.pd.nbits = nbits; src.nbits = nbits;
            free(sk.b);
            po_init(&po, &sk);
            fprintf(out, "x%zu", nbits);
        } else { fputs("bad-tok", out); break; }
    }
    fputs(" | ", out);
    po_finish_print(&po, &sk, out);
    free(src.base);
    return 1;
}

/* rawget <hex> <nboff> <nbits> <n>... : asn_get_few_bits on an explicit (buffer, nboff, nbits) position;
 * prints value@<buffer offset>:<nboff>:<nbits> after every read, stops at the first -1.
 * The buffer is an exact-size heap block.  Precondition nboff <= nbits <= 8*size (else "precond"). */
static int op_rawget(int argc, char **argv, FILE *out) {
    size_t len; uint8_t *bf = hx_parse_exact(argv[1], &len);
    long long nboff, nbits;
    if(!bf || !parse_ll(argv[2], &nboff) || !parse_ll(argv[3], &nbits) || nboff < 0 || nbits < 0) { fputs("bad-op", out); free(bf); return 1; }
    if(nboff > nbits || (size_t)nbits > 8 * len) { fputs("precond", out); free(bf); return 1; }
    asn_per_data_t pd; memset(&pd, 0, sizeof pd);
    pd.buffer = bf; pd.nboff = nboff; pd.nbits = nbits;
    for(int i = 4; i < argc; i++) {
        long long n;
        if(!parse_ll(argv[i], &n) || n < 0 || n > 64) { fputs("bad-tok", out); break; }
        int32_t v = asn_get_few_bits(&pd, (int)n);
        if(i > 4) fputc(',', out);
        if(v < 0) { fputs("-1", out); break; }
        fprintf(out, "%d@%zu:%zu:%zu", (int)v, (size_t)(pd.buffer - bf), pd.nboff, pd.nbits);
    }
    free(bf);
    return 1;
}

int ops_per(int argc, char **argv, FILE *out) {
    const char *op = argv[0];
    long long a, b, c; unsigned long long u;
    if(argc >= 2 && !strcmp(op, "bits")) return op_bits(argc, argv, out);
    if(argc >= 4 && !strcmp(op, "rawget")) return op_rawget(argc, argv, out);

    if(argc == 3 && !strcmp(op, "uper_put_length")) {
        if(!parse_ull(argv[1], &u) || !parse_ll(argv[2], &a)) { fputs("bad-op", out); return 1; }
        asn_per_outp_t po; sink_t sk; po_init(&po, &sk);
        int eom = 7;
        ssize_t r = uper_put_length(&po, (size_t)u, a ? &eom : 0);
        po_finish_print(&po, &sk, out);
        if(a) fprintf(out, " %zd %d", r, eom); else fprintf(out, " %zd -", r);
        return 1;
    }
    if(argc == 4 && !strcmp(op, "uper_get_length")) {
        src_t s;
        if(!parse_ll(argv[1], &a) || !parse_ull(argv[2], &u) || a < INT_MIN || a > INT_MAX || src_init(&s, argv[3])) { fputs("bad-op", out); return 1; }
        int repeat = 7;
        ssize_t v = uper_get_length(&s.pd, (int)a, (size_t)u, &repeat);
        if(v < 0) fputs("-1", out); else fprintf(out, "%zd %d %zu", v, repeat, src_consumed(&s));
        free(s.base);
        return 1;
    }
    if(argc == 2 && (!strcmp(op, "nsnnwn_put") || !strcmp(op, "nslength_put"))) {
        asn_per_outp_t po; sink_t sk; po_init(&po, &sk);
        int rc;
        if(!strcmp(op, "nsnnwn_put")) {
            if(!parse_ll(argv[1], &a) || a < INT_MIN || a > INT_MAX) { fputs("bad-op", out); return 1; }
            rc = uper_put_nsnnwn(&po, (int)a);
        } else {
            if(!parse_ull(argv[1], &u)) { fputs("bad-op", out); return 1; }
            rc = uper_put_nslength(&po, (size_t)u);
        }
        if(rc) { fputs("-1", out); asn_put_aligned_flush(&po); free(sk.b); }
        else po_finish_print(&po, &sk, out);
        return 1;
    }
    if(argc == 2 && (!strcmp(op, "nsnnwn_get") || !strcmp(op, "nslength_get"))) {
        src_t s;
        if(src_init(&s, argv[1])) { fputs("bad-op", out); return 1; }
        ssize_t v = !strcmp(op, "nsnnwn_get") ? uper_get_nsnnwn(&s.pd) : uper_get_nslength(&s.pd);
        if(v < 0) fputs("-1", out); else fprintf(out, "%zd %zu", v, src_consumed(&s));
        free(s.base);
        return 1;
    }
    if(argc == 3 && !strcmp(op, "cwn_put")) {
        if(!parse_ll(argv[1], &a) || !parse_ull(argv[2], &u) || a < -100 || a > 200) { fputs("bad-op", out); return 1; }
        asn_per_outp_t po; sink_t sk; po_init(&po, &sk);
        int rc = uper_put_constrained_whole_number_u(&po, (unsigned long)u, (int)a);
        if(rc) { fputs("-1", out); asn_put_aligned_flush(&po); free(sk.b); }
        else po_finish_print(&po, &sk, out);
        return 1;
    }
    if(argc == 3 && !strcmp(op, "cwn_get")) {
        src_t s;
        if(!parse_ll(argv[1], &a) || a < -100 || a > 200 || src_init(&s, argv[2])) { fputs("bad-op", out); return 1; }
        unsigned long v = 0;
        int rc = uper_get_constrained_whole_number(&s.pd, &v, (int)a);
        if(rc) fputs("-1", out); else fprintf(out, "%lu %zu", v, src_consumed(&s));
        free(s.base);
        return 1;
    }
    if(argc == 4 && !strcmp(op, "rebase")) {
        if(!parse_ll(argv[1], &a) || !parse_ll(argv[2], &b) || !parse_ll(argv[3], &c)) { fputs("bad-op", out); return 1; }
        if(b > c) { fputs("precond", out); return 1; }        /* assert(lb <= ub) */
        unsigned long o = 0;
        int rc = per_long_range_rebase((long)a, (long)b, (long)c, &o);
        if(rc) fputs("fail", out); else fprintf(out, "ok %lu", o);
        return 1;
    }
    if(argc == 4 && !strcmp(op, "unrebase")) {
        if(!parse_ull(argv[1], &u) || !parse_ll(argv[2], &b) || !parse_ll(argv[3], &c)) { fputs("bad-op", out); return 1; }
        if(b > c) { fputs("precond", out); return 1; }
        long o = 0;
        int rc = per_long_range_unrebase((unsigned long)u, (long)b, (long)c, &o);
        if(rc) fputs("fail", out); else fprintf(out, "ok %ld", o);
        return 1;
    }
    if(argc == 2 && !strcmp(op, "oer_len_put")) {
        if(!parse_ull(argv[1], &u)) { fputs("bad-op", out); return 1; }
        sink_t sk; memset(&sk, 0, sizeof sk);
        ssize_t r = oer_serialize_length((size_t)u, sink_cb, &sk);
        hx_print(out, sk.b, sk.n); fprintf(out, " %zd", r);
        free(sk.b);
        return 1;
    }
    if(argc == 2 && !strcmp(op, "oer_len_get")) {
        size_t len; uint8_t *bf = hx_parse_exact(argv[1], &len);
        if(!bf) { fputs("bad-op", out); return 1; }
        size_t v = 12345;
        ssize_t r = oer_fetch_length(bf, len, &v);
        if(r > 0) fprintf(out, "ok %zu %zd", v, r); else if(r == 0) fputs("more", out); else fputs("fail", out);
        free(bf);
        return 1;
    }
    /* INTEGER_oer.c width logic: int_oer_enc <width> <positive> <hex contents of INTEGER_t> */
    if(argc == 4 && !strcmp(op, "int_oer_enc")) {
        size_t len; uint8_t *bf = hx_parse_exact(argv[3], &len);
        if(!bf || !parse_ll(argv[1], &a) || !parse_ll(argv[2], &b) || a < 0 || a > 64) { fputs("bad-op", out); free(bf); return 1; }
        asn_oer_constraints_t ct; memset(&ct, 0, sizeof ct);
        ct.value.width = (unsigned)a; ct.value.positive = b ? 1 : 0; ct.size = -1;
        INTEGER_t st; memset(&st, 0, sizeof st); st.buf = bf; st.size = len;
        sink_t sk; memset(&sk, 0, sizeof sk);
        asn_enc_rval_t er = INTEGER_encode_oer(&asn_DEF_INTEGER, &ct, &st, sink_cb, &sk);
        if(er.encoded < 0) fputs("fail", out);
        else if((size_t)er.encoded != sk.n) fprintf(out, "encoded-mismatch(%zd,%zu)", er.encoded, sk.n);
        else hx_print(out, sk.b, sk.n);
        free(sk.b); free(bf);
        return 1;
    }
    /* int_oer_dec <width> <positive> <hex> */
    if(argc == 4 && !strcmp(op, "int_oer_dec")) {
        size_t len; uint8_t *bf = hx_parse_exact(argv[3], &len);
        if(!bf || !parse_ll(argv[1], &a) || !parse_ll(argv[2], &b) || a < 0 || a > 64) { fputs("bad-op", out); free(bf); return 1; }
        asn_oer_constraints_t ct; memset(&ct, 0, sizeof ct);
        ct.value.width = (unsigned)a; ct.value.positive = b ? 1 : 0; ct.size = -1;
        /* (finding F5 repaired: the zero-length case is executed; an over-read of the exact-size heap copy is an ASan report) */
        void *sp = 0;
        asn_dec_rval_t rv = INTEGER_decode_oer(0, &asn_DEF_INTEGER, &ct, &sp, bf, len);
        if(rv.code == RC_OK) {
            INTEGER_t *st = sp;
            fputs("ok ", out); hx_print(out, st->buf, st->size); fprintf(out, " %zu", rv.consumed);
        } else fputs(rv.code == RC_WMORE ? "more" : "fail", out);
        ASN_STRUCT_FREE(asn_DEF_INTEGER, sp);
        free(bf);
        return 1;
    }
    /* the length loops of the callers, on the real OCTET STRING codec (unconstrained):
     * os_uper_enc <n> <mul> : octet i = (i * mul + 7) % 256 */
    if(argc == 3 && !strcmp(op, "os_uper_enc")) {
        if(!parse_ull(argv[1], &u) || !parse_ll(argv[2], &a) || u > (1u << 22)) { fputs("bad-op", out); return 1; }
        OCTET_STRING_t st; memset(&st, 0, sizeof st);
        st.buf = malloc(u + 1); st.size = u;
        for(size_t i = 0; i < u; i++) st.buf[i] = (uint8_t)((i * (size_t)a + 7) % 256);
        asn_per_outp_t po; sink_t sk; po_init(&po, &sk);
        asn_enc_rval_t er = asn_DEF_OCTET_STRING.op->uper_encoder(&asn_DEF_OCTET_STRING, 0, &st, &po);
        size_t nbits = po_bits(&po);
        if(er.encoded == -1 || asn_put_aligned_flush(&po)) fputs("-1", out);
        else { hx_print(out, sk.b, sk.n); fprintf(out, " %zu", nbits); }
        free(sk.b); free(st.buf);
        return 1;
    }
    /* os_uper_dec <hex> <unused-bits> */
    if(argc == 3 && !strcmp(op, "os_uper_dec")) {
        size_t len; uint8_t *bf = hx_parse_exact(argv[1], &len);
        if(!bf || !parse_ll(argv[2], &a) || a < 0 || a > 7 || (size_t)a > 8 * len) { fputs("bad-op", out); free(bf); return 1; }
        asn_per_data_t pd; memset(&pd, 0, sizeof pd);
        pd.buffer = bf; pd.nbits = 8 * len - a;
        void *sp = 0;
        asn_codec_ctx_t cc; memset(&cc, 0, sizeof cc);
        asn_dec_rval_t rv = asn_DEF_OCTET_STRING.op->uper_decoder(&cc, &asn_DEF_OCTET_STRING, 0, &sp, &pd);
        if(rv.code == RC_OK) {
            OCTET_STRING_t *st = sp;
            fputs("ok ", out); hx_print(out, st->buf, st->size);
            fprintf(out, " %zu", 8 * (size_t)(pd.buffer - bf) + pd.nboff);
        } else fputs("fail", out);
        ASN_STRUCT_FREE(asn_DEF_OCTET_STRING, sp);
        free(bf);
        return 1;
    }
    return 0;
}
