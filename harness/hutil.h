/* Shared helpers for the C side of the correspondence drivers. */
#ifndef HUTIL_H
#define HUTIL_H
#include <stdio.h>
#include <stdlib.h>
#include <string.h>
#include <stdint.h>
#include <inttypes.h>
#include <errno.h>

typedef int (*op_handler_f)(int argc, char **argv, FILE *out);

/* parse hex ("-" = empty); returns malloc'ed buffer (always at least 1 byte, NUL padded), length in *len; NULL on error */
static inline uint8_t *hx_parse(const char *s, size_t *len) {
    size_t n = strlen(s);
    if(strcmp(s, "-") == 0) { *len = 0; uint8_t *b = calloc(1, 2); return b; }
    if(n % 2) return NULL;
    uint8_t *b = calloc(1, n / 2 + 2);
    for(size_t i = 0; i < n / 2; i++) {
        unsigned v;
        if(sscanf(s + 2 * i, "%2x", &v) != 1) { free(b); return NULL; }
        b[i] = (uint8_t)v;
    }
    *len = n / 2;
    return b;
}
/* exact-size copy (no slack) so that ASan sees over-reads */
static inline uint8_t *hx_parse_exact(const char *s, size_t *len) {
    uint8_t *t = hx_parse(s, len);
    if(!t) return NULL;
    uint8_t *b = malloc(*len ? *len : 1);
    memcpy(b, t, *len);
    free(t);
    return b;
}
static inline void hx_print(FILE *out, const uint8_t *b, size_t n) {
    if(n == 0) { fputc('-', out); return; }
    for(size_t i = 0; i < n; i++) fprintf(out, "%02x", b[i]);
}
#endif
