/* Core operations on a generated module: use / descr / enc / dec / rt / decchunks / check / cmp / transcode. */
#include "gen_common.h"

asn_TYPE_descriptor_t *cur_td;
int driver_select(const char *name) { cur_td = rf_find_type(name); return cur_td != 0; }

enum asn_transfer_syntax gen_syntax(const char *s, int decode) {
    if(!strcmp(s, "der")) return decode ? ATS_BER : ATS_DER;
    if(!strcmp(s, "ber")) return ATS_BER;
    if(!strcmp(s, "uper")) return ATS_UNALIGNED_CANONICAL_PER;
    if(!strcmp(s, "oer")) return ATS_CANONICAL_OER;
    if(!strcmp(s, "xer")) return ATS_BASIC_XER;
    if(!strcmp(s, "cxer")) return ATS_CANONICAL_XER;
    return ATS_INVALID;
}
const char *gen_rc_name(enum asn_dec_rval_code_e c) {
    return c == RC_OK ? "ok" : c == RC_WMORE ? "more" : c == RC_FAIL ? "fail" : "badrc";
}
char *gen_join(int argc, char **argv, int from) {
    size_t n = 1;
    for(int i = from; i < argc; i++) n += strlen(argv[i]) + 1;
    char *r = malloc(n); r[0] = 0;
    for(int i = from; i < argc; i++) { if(i > from) strcat(r, " "); strcat(r, argv[i]); }
    return r;
}
static int null_cb(const void *b, size_t n, void *k) { (void)b; (void)n; (void)k; return 0; }

void gen_exercise(const asn_TYPE_descriptor_t *td, const void *st) {
    if(!st) return;
    static FILE *devnull;
    if(!devnull) devnull = fopen("/dev/null", "w");
    asn_fprint(devnull, td, st);
    char eb[128]; size_t el = sizeof eb;
    asn_check_constraints(td, st, eb, &el);
    asn_encode(0, ATS_DER, td, st, null_cb, 0);
    asn_encode(0, ATS_CANONICAL_XER, td, st, null_cb, 0);
}

static const char *errno_name(int e) {
    switch(e) { case 0: return "0"; case EIO: return "EIO"; case EINVAL: return "EINVAL"; case ENOENT: return "ENOENT";
                case EBADF: return "EBADF"; case ERANGE: return "ERANGE"; case ENOMEM: return "ENOMEM"; case EPERM: return "EPERM";
                default: return "Eother"; }
}

int ops_gen_core(int argc, char **argv, FILE *out) {
    const char *op = argv[0];
    if(!strcmp(op, "use") && argc == 2) {
        cur_td = rf_find_type(argv[1]);
        fputs(cur_td ? "ok" : "no-such-type", out);
        return 1;
    }
    if(!cur_td && (!strcmp(op, "descr") || !strcmp(op, "enc") || !strcmp(op, "dec") || !strcmp(op, "rt") || !strcmp(op, "decchunks")
                   || !strcmp(op, "decq") || !strcmp(op, "reenc") || !strcmp(op, "check") || !strcmp(op, "cmp") || !strcmp(op, "transcode") || !strcmp(op, "echo"))) {
        fputs("no-type", out); return 1;
    }
    if(!strcmp(op, "descr")) { rf_dump_descr(cur_td, out); return 1; }
    if(!strcmp(op, "echo") && argc >= 2) {      /* load + dump: tests the reflection itself */
        char *v = gen_join(argc, argv, 1); const char *p = v;
        void *st = rf_load(cur_td, &p, 0);
        if(!st) fprintf(out, "load-error %s", rf_errmsg); else { rf_dump(cur_td, st, out); ASN_STRUCT_FREE(*cur_td, st); }
        free(v); return 1;
    }
    if(!strcmp(op, "enc") && argc >= 3) {
        enum asn_transfer_syntax syn = gen_syntax(argv[1], 0);
        char *v = gen_join(argc, argv, 2); const char *p = v;
        void *st = rf_load(cur_td, &p, 0);
        if(!st) { fprintf(out, "load-error %s", rf_errmsg); free(v); return 1; }
        errno = 0;
        asn_encode_to_new_buffer_result_t r = asn_encode_to_new_buffer(0, syn, cur_td, st);
        if(r.buffer && r.result.encoded >= 0) { fputs("ok ", out); hx_print(out, r.buffer, r.result.encoded); free(r.buffer); }
        else { fprintf(out, "fail %s %s%s", errno_name(errno), r.result.failed_type ? r.result.failed_type->name : "-", r.buffer ? " buffer-not-null" : ""); free(r.buffer); }
        ASN_STRUCT_FREE(*cur_td, st); free(v);
        return 1;
    }
    if((!strcmp(op, "dec") || !strcmp(op, "decq")) && argc == 3) {
        enum asn_transfer_syntax syn = gen_syntax(argv[1], 1);
        size_t len; uint8_t *b = hx_parse_exact(argv[2], &len);
        if(!b) { fputs("bad-op", out); return 1; }
        void *st = 0;
        asn_dec_rval_t rv = asn_decode(0, syn, cur_td, &st, b, len);
        fprintf(out, "%s %zu ", gen_rc_name(rv.code), rv.consumed);
        if(rv.code == RC_OK && st) rf_dump(cur_td, st, out); else fputc('-', out);
        if(strcmp(op, "decq")) gen_exercise(cur_td, st);   /* decq: decode only */
        ASN_STRUCT_FREE(*cur_td, st);
        free(b);
        return 1;
    }
    if(!strcmp(op, "reenc") && argc == 3) {
        /* reenc <syn> <hex>: decode, then DER-encode what was decoded: `<rc> <consumed> <der hex|->` */
        enum asn_transfer_syntax syn = gen_syntax(argv[1], 1);
        size_t len; uint8_t *b = hx_parse_exact(argv[2], &len);
        if(!b) { fputs("bad-op", out); return 1; }
        void *st = 0;
        asn_dec_rval_t rv = asn_decode(0, syn, cur_td, &st, b, len);
        fprintf(out, "%s %zu ", gen_rc_name(rv.code), rv.consumed);
        if(rv.code == RC_OK && st) {
            asn_encode_to_new_buffer_result_t r = asn_encode_to_new_buffer(0, ATS_DER, cur_td, st);
            if(r.buffer && r.result.encoded >= 0) hx_print(out, r.buffer, r.result.encoded); else fputs("encfail", out);
            free(r.buffer);
            fputc(' ', out); rf_dump(cur_td, st, out);
        } else fputs("- -", out);
        ASN_STRUCT_FREE(*cur_td, st);
        free(b);
        return 1;
    }
    if(!strcmp(op, "rt") && argc >= 3) {
        /* property predicate of C01 for one (type, value, syntax): encode, decode, compare, DER re-encode */
        enum asn_transfer_syntax syn = gen_syntax(argv[1], 0), dsyn = gen_syntax(argv[1], 1);
        char *v = gen_join(argc, argv, 2); const char *p = v;
        void *st = rf_load(cur_td, &p, 0);
        if(!st) { fprintf(out, "load-error %s", rf_errmsg); free(v); return 1; }
        asn_encode_to_new_buffer_result_t r = asn_encode_to_new_buffer(0, syn, cur_td, st);
        if(!r.buffer) { fprintf(out, "encfail %s", errno_name(errno)); ASN_STRUCT_FREE(*cur_td, st); free(v); return 1; }
        if(r.result.encoded < 0) { fprintf(out, "encfail-but-buffer %zd", r.result.encoded); free(r.buffer); ASN_STRUCT_FREE(*cur_td, st); free(v); return 1; }
        size_t n = r.result.encoded;
        uint8_t *b = malloc(n ? n : 1); memcpy(b, r.buffer, n);      /* exact size for ASan */
        void *st2 = 0;
        asn_dec_rval_t rv = asn_decode(0, dsyn, cur_td, &st2, b, n);
        fputs("ok ", out); hx_print(out, b, n);
        fprintf(out, " rc=%s consumed=%zu/%zu", gen_rc_name(rv.code), rv.consumed, n);
        if(rv.code == RC_OK && st2) {
            int cmp = cur_td->op->compare_struct(cur_td, st, st2);
            asn_encode_to_new_buffer_result_t d1 = asn_encode_to_new_buffer(0, ATS_DER, cur_td, st);
            asn_encode_to_new_buffer_result_t d2 = asn_encode_to_new_buffer(0, ATS_DER, cur_td, st2);
            int same = d1.buffer && d2.buffer && d1.result.encoded == d2.result.encoded
                       && memcmp(d1.buffer, d2.buffer, d1.result.encoded) == 0;
            fprintf(out, " cmp=%d der_same=%d val=", cmp, same);
            rf_dump(cur_td, st2, out);
            free(d1.buffer); free(d2.buffer);
        }
        ASN_STRUCT_FREE(*cur_td, st2);
        free(b); free(r.buffer);
        ASN_STRUCT_FREE(*cur_td, st); free(v);
        return 1;
    }
    if(!strcmp(op, "transcode") && argc >= 4) {
        /* transcode <n> <syn1> ... <synn> <value>: v -> enc syn1 -> dec -> enc syn2 -> ... ; final DER vs DER of v */
        int ns = atoi(argv[1]);
        if(ns < 1 || argc < 2 + ns + 1) { fputs("bad-op", out); return 1; }
        char *v = gen_join(argc, argv, 2 + ns); const char *p = v;
        void *st = rf_load(cur_td, &p, 0);
        if(!st) { fprintf(out, "load-error %s", rf_errmsg); free(v); return 1; }
        asn_encode_to_new_buffer_result_t d0 = asn_encode_to_new_buffer(0, ATS_DER, cur_td, st);
        void *cur = st; int ok = 1; int step = 0;
        for(; step < ns && ok; step++) {
            asn_encode_to_new_buffer_result_t r = asn_encode_to_new_buffer(0, gen_syntax(argv[2 + step], 0), cur_td, cur);
            if(!r.buffer) { ok = 0; break; }
            size_t n = r.result.encoded; uint8_t *b = malloc(n ? n : 1); memcpy(b, r.buffer, n); free(r.buffer);
            void *nx = 0;
            asn_dec_rval_t rv = asn_decode(0, gen_syntax(argv[2 + step], 1), cur_td, &nx, b, n);
            free(b);
            if(cur != st) ASN_STRUCT_FREE(*cur_td, cur);
            cur = nx;
            if(rv.code != RC_OK) { ok = 0; step++; break; }
        }
        if(!ok) fprintf(out, "chain-broke step=%d", step);
        else {
            asn_encode_to_new_buffer_result_t d1 = asn_encode_to_new_buffer(0, ATS_DER, cur_td, cur);
            int same = d0.buffer && d1.buffer && d0.result.encoded == d1.result.encoded && !memcmp(d0.buffer, d1.buffer, d0.result.encoded);
            fprintf(out, "ok der_same=%d cmp=%d", same, cur_td->op->compare_struct(cur_td, st, cur));
            free(d1.buffer);
        }
        if(cur && cur != st) ASN_STRUCT_FREE(*cur_td, cur);
        free(d0.buffer);
        ASN_STRUCT_FREE(*cur_td, st); free(v);
        return 1;
    }
    if(!strcmp(op, "decchunks") && argc == 4) {
        /* decchunks <syn> <hex> <cut1,cut2,...|->: feed per the manual: re-present unconsumed bytes + next chunk */
        enum asn_transfer_syntax syn = gen_syntax(argv[1], 1);
        size_t len; uint8_t *b = hx_parse_exact(argv[2], &len);
        if(!b) { fputs("bad-op", out); return 1; }
        size_t cuts[4096]; int nc = 0;
        if(strcmp(argv[3], "-")) { char *s = argv[3]; while(*s && nc < 4095) { cuts[nc++] = strtoul(s, &s, 10); if(*s == ',') s++; } }
        cuts[nc++] = len;
        void *st = 0; size_t start = 0; /* first byte not yet consumed */
        asn_dec_rval_t rv = {RC_WMORE, 0};
        size_t total = 0; int calls = 0;
        for(int i = 0; i < nc; i++) {
            size_t upto = cuts[i] > len ? len : cuts[i];
            if(upto < start) continue;
            size_t n = upto - start;
            uint8_t *chunk = malloc(n ? n : 1); memcpy(chunk, b + start, n);
            rv = asn_decode(0, syn, cur_td, &st, chunk, n);
            free(chunk); calls++;
            if(rv.consumed > n) { fprintf(out, "OVERCONSUMED "); break; }
            start += rv.consumed; total += rv.consumed;
            if(rv.code != RC_WMORE) break;
            if(i < nc - 1) fprintf(out, "%s:%zu ", gen_rc_name(rv.code), rv.consumed);
        }
        fprintf(out, "final %s %zu ", gen_rc_name(rv.code), total);
        if(rv.code == RC_OK && st) rf_dump(cur_td, st, out); else fputc('-', out);
        ASN_STRUCT_FREE(*cur_td, st);
        free(b);
        return 1;
    }
    if(!strcmp(op, "check") && argc >= 2) {
        char *v = gen_join(argc, argv, 1); const char *p = v;
        void *st = rf_load(cur_td, &p, 0);
        if(!st) { fprintf(out, "load-error %s", rf_errmsg); free(v); return 1; }
        char eb[256]; memset(eb, 0x7e, sizeof eb); size_t el = 128;
        int r = asn_check_constraints(cur_td, st, eb, &el);
        if(r == 0) fputs("ok", out);
        else {
            int term = (el < 128 && eb[el] == 0 && strlen(eb) == el);
            int clean = 1; for(size_t i = 128; i < sizeof eb; i++) if(eb[i] != 0x7e) clean = 0;
            fprintf(out, "fail rc=%d errlen=%zu terminated=%d nooverrun=%d msg=", r, el, term, clean);
            hx_print(out, (uint8_t *)eb, el < 128 ? el : 0);
        }
        ASN_STRUCT_FREE(*cur_td, st); free(v);
        return 1;
    }
    if(!strcmp(op, "cmp") && argc >= 4) {
        /* cmp <val1> | <val2> */
        int bar = -1; for(int i = 1; i < argc; i++) if(!strcmp(argv[i], "|")) bar = i;
        if(bar < 0) { fputs("bad-op", out); return 1; }
        char *v1 = gen_join(bar, argv, 1), *v2 = gen_join(argc, argv, bar + 1);
        const char *p1 = v1, *p2 = v2;
        void *a = rf_load(cur_td, &p1, 0), *b = a ? rf_load(cur_td, &p2, 0) : 0;
        if(!a || !b) fprintf(out, "load-error %s", rf_errmsg);
        else { int r = cur_td->op->compare_struct(cur_td, a, b); fprintf(out, "%d", r < 0 ? -1 : r > 0 ? 1 : 0); }
        if(a) ASN_STRUCT_FREE(*cur_td, a);
        if(b) ASN_STRUCT_FREE(*cur_td, b);
        free(v1); free(v2);
        return 1;
    }
    return 0;
}
