/* Driver for generated modules: core operations + C08's error-buffer sweep. */
#include "hutil.h"
int ops_gen_core(int argc, char **argv, FILE *out);
int ops_gen_c08(int argc, char **argv, FILE *out);
static op_handler_f handlers[] = { ops_gen_c08, ops_gen_core, 0 };
#include "driver_main.h"
