#include "hutil.h"
#include <INTEGER.h>

static void print_I(FILE *out, INTEGER_t *st) { hx_print(out, st->buf, st->size); }

static const char *strtox_name(enum asn_strtox_result_e r) {
    switch(r) {
    case ASN_STRTOX_OK: return "ok";
    case ASN_STRTOX_EXTRA_DATA: return "extra";
    case ASN_STRTOX_ERROR_RANGE: return "range";
    case ASN_STRTOX_ERROR_INVAL: return "inval";
    case ASN_STRTOX_EXPECT_MORE: return "more";
    }
    return "?";
}

int ops_integer(int argc, char **argv, FILE *out) {
    const char *op = argv[0];
    if(argc == 2 && (!strcmp(op, "imax2I") || !strcmp(op, "umax2I") || !strcmp(op, "ulong2I"))) {
        INTEGER_t st; memset(&st, 0, sizeof st);
        int rc;
        if(!strcmp(op, "imax2I")) rc = asn_imax2INTEGER(&st, strtoimax(argv[1], 0, 10));
        else if(!strcmp(op, "umax2I")) rc = asn_umax2INTEGER(&st, strtoumax(argv[1], 0, 10));
        else rc = asn_ulong2INTEGER(&st, strtoul(argv[1], 0, 10));
        if(rc) fputs("fail", out); else print_I(out, &st);
        free(st.buf);
        return 1;
    }
    if(argc == 2 && (!strcmp(op, "I2imax") || !strcmp(op, "I2long") || !strcmp(op, "I2umax") || !strcmp(op, "I2ulong"))) {
        INTEGER_t st; memset(&st, 0, sizeof st);
        size_t len; st.buf = hx_parse_exact(argv[1], &len); st.size = len;
        if(!st.buf) { fputs("bad-op", out); return 1; }
        int rc; errno = 0;
        if(!strcmp(op, "I2imax")) { intmax_t v = 0; rc = asn_INTEGER2imax(&st, &v); if(!rc) fprintf(out, "ok %jd", v); }
        else if(!strcmp(op, "I2long")) { long v = 0; rc = asn_INTEGER2long(&st, &v); if(!rc) fprintf(out, "ok %ld", v); }
        else if(!strcmp(op, "I2umax")) { uintmax_t v = 0; rc = asn_INTEGER2umax(&st, &v); if(!rc) fprintf(out, "ok %ju", v); }
        else { unsigned long v = 0; rc = asn_INTEGER2ulong(&st, &v); if(!rc) fprintf(out, "ok %lu", v); }
        if(rc) fputs(errno == ERANGE ? "erange" : errno == EINVAL ? "einval" : "fail", out);
        free(st.buf);
        return 1;
    }
    if(argc == 2 && (!strcmp(op, "strtoimax") || !strcmp(op, "strtoumax") || !strcmp(op, "strtol") || !strcmp(op, "strtoul"))) {
        size_t len; uint8_t *b = hx_parse_exact(argv[1], &len);
        if(!b) { fputs("bad-op", out); return 1; }
        const char *str = (const char *)b, *end = str + len;
        enum asn_strtox_result_e r;
        char vbuf[64] = "-";
        if(!strcmp(op, "strtoimax")) { intmax_t v = 0; r = asn_strtoimax_lim(str, &end, &v); snprintf(vbuf, sizeof vbuf, "%jd", v); }
        else if(!strcmp(op, "strtoumax")) { uintmax_t v = 0; r = asn_strtoumax_lim(str, &end, &v); snprintf(vbuf, sizeof vbuf, "%ju", v); }
        else if(!strcmp(op, "strtol")) { long v = 0; r = asn_strtol_lim(str, &end, &v); snprintf(vbuf, sizeof vbuf, "%ld", v); }
        else { unsigned long v = 0; r = asn_strtoul_lim(str, &end, &v); snprintf(vbuf, sizeof vbuf, "%lu", v); }
        switch(r) {
        case ASN_STRTOX_OK: case ASN_STRTOX_EXTRA_DATA:
            fprintf(out, "%s %ld %s", strtox_name(r), (long)(end - str), vbuf); break;
        case ASN_STRTOX_ERROR_RANGE: case ASN_STRTOX_EXPECT_MORE:
            fprintf(out, "%s %ld", strtox_name(r), (long)(end - str)); break;
        default: fputs(strtox_name(r), out);
        }
        free(b);
        return 1;
    }
    if(argc == 2 && !strcmp(op, "I_strip")) {
        /* the octets INTEGER_encode_der puts on the wire (content of the DER TLV) */
        INTEGER_t st; memset(&st, 0, sizeof st);
        size_t len; st.buf = hx_parse_exact(argv[1], &len); st.size = len;
        uint8_t obuf[64 + 1024];
        if(len > 1000) { fputs("bad-op", out); free(st.buf); return 1; }
        asn_enc_rval_t er = der_encode_to_buffer(&asn_DEF_INTEGER, &st, obuf, sizeof obuf);
        if(er.encoded < 2) fputs("fail", out);
        else {
            /* skip tag + length */
            size_t hl = 2; if(obuf[1] & 0x80) hl += obuf[1] & 0x7f;
            hx_print(out, obuf + hl, er.encoded - hl);
        }
        free(st.buf);
        return 1;
    }
    if(argc == 3 && !strcmp(op, "I_cmp")) {
        INTEGER_t a, b; memset(&a, 0, sizeof a); memset(&b, 0, sizeof b);
        size_t la, lb; a.buf = hx_parse_exact(argv[1], &la); b.buf = hx_parse_exact(argv[2], &lb);
        a.size = la; b.size = lb;
        if(la == 0 && lb != 0) { fputs("oob", out); } /* the C code reads a.buf[0] with a.size == 0: do not execute */
        else { int r = INTEGER_compare(&asn_DEF_INTEGER, &a, &b); fprintf(out, "%d", r < 0 ? -1 : r > 0 ? 1 : 0); }
        free(a.buf); free(b.buf);
        return 1;
    }
    return 0;
}
