/* Peak-live-heap ledger for C15 (link with -Wl,--wrap=malloc -Wl,--wrap=calloc -Wl,--wrap=realloc -Wl,--wrap=free).
 *
 * While the ledger is on (ap_start .. ap_stop) every block obtained through malloc/calloc/realloc by the
 * objects of this link (skeletons, generated module, harness) is entered with its *requested* size into a
 * side table (pointer -> size); free/realloc of a block of the table takes it out.  Blocks that are not in
 * the table (allocated before ap_start, or by libc internally) are passed through untouched.
 *   ap_live   bytes currently held,  ap_peak  maximum of ap_live since ap_start,
 *   ap_allocs number of successful allocation requests (realloc counts when it is given a new size),
 *   ap_maxreq the largest single request (also counted when the allocator refused it),
 *   ap_failed number of requests the allocator refused (returned NULL).
 * realloc is accounted as "release old, acquire new" (the transient copy is the allocator's business).
 * No header is added to the blocks, so ASan's redzones stay where they are. */
#include <stddef.h>
#include <stdint.h>
#include <string.h>

void *__real_malloc(size_t);
void *__real_calloc(size_t, size_t);
void *__real_realloc(void *, size_t);
void __real_free(void *);

size_t ap_live, ap_peak, ap_allocs, ap_maxreq, ap_failed, ap_reqtotal;
static int ap_on;

typedef struct { uintptr_t p; size_t sz; } ap_ent;
static ap_ent *tab;
static size_t tab_cap, tab_used;      /* used counts live entries + tombstones */
#define TOMB ((uintptr_t)1)

static size_t ap_hash(uintptr_t p) { p >>= 3; p *= 0x9E3779B97F4A7C15ull; return (size_t)(p >> 17); }

static void tab_put(uintptr_t p, size_t sz);
static void tab_grow(void) {
    size_t ocap = tab_cap; ap_ent *old = tab;
    tab_cap = ocap ? ocap * 2 : 4096;
    tab = (ap_ent *)__real_calloc(tab_cap, sizeof(ap_ent));
    tab_used = 0;
    for(size_t i = 0; i < ocap; i++) if(old[i].p > TOMB) tab_put(old[i].p, old[i].sz);
    if(old) __real_free(old);
}
static void tab_put(uintptr_t p, size_t sz) {
    if((tab_used + 1) * 2 > tab_cap) tab_grow();
    size_t i = ap_hash(p) & (tab_cap - 1);
    while(tab[i].p > TOMB && tab[i].p != p) i = (i + 1) & (tab_cap - 1);
    if(tab[i].p != p) { if(tab[i].p == 0) tab_used++; tab[i].p = p; }
    tab[i].sz = sz;
}
/* returns 1 and the size if p was in the table (and removes it) */
static int tab_take(uintptr_t p, size_t *sz) {
    if(!tab_cap) return 0;
    size_t i = ap_hash(p) & (tab_cap - 1);
    while(tab[i].p) {
        if(tab[i].p == p) { *sz = tab[i].sz; tab[i].p = TOMB; return 1; }
        i = (i + 1) & (tab_cap - 1);
    }
    return 0;
}

static void got(void *p, size_t sz) {
    if(sz > ap_maxreq) ap_maxreq = sz;
    if(!p) { ap_failed++; return; }
    tab_put((uintptr_t)p, sz);
    ap_allocs++; ap_reqtotal += sz;
    ap_live += sz;
    if(ap_live > ap_peak) ap_peak = ap_live;
}
static void gone(void *p) {
    size_t sz;
    if(p && tab_take((uintptr_t)p, &sz)) ap_live -= sz;
}

void ap_start(void) {
    ap_live = ap_peak = ap_allocs = ap_maxreq = ap_failed = ap_reqtotal = 0;
    if(tab) memset(tab, 0, tab_cap * sizeof(ap_ent));
    tab_used = 0;
    ap_on = 1;
}
void ap_stop(void) { ap_on = 0; }

void *__wrap_malloc(size_t n) {
    void *p = __real_malloc(n);
    if(ap_on) got(p, n);
    return p;
}
void *__wrap_calloc(size_t a, size_t b) {
    void *p = __real_calloc(a, b);
    if(ap_on) got(p, a * b);
    return p;
}
void *__wrap_realloc(void *o, size_t n) {
    if(!ap_on) {
        /* a block entered while the ledger was on may be resized/freed later: keep the table consistent */
        size_t sz; if(o && tab_take((uintptr_t)o, &sz)) ap_live -= sz;
        return __real_realloc(o, n);
    }
    size_t osz = 0; int had = o && tab_take((uintptr_t)o, &osz);
    void *p = __real_realloc(o, n);
    if(!p && n) {               /* failed: the old block is still there */
        if(had) tab_put((uintptr_t)o, osz);
        if(n > ap_maxreq) ap_maxreq = n;
        ap_failed++;
        return p;
    }
    if(had) ap_live -= osz;
    if(n) got(p, n);
    return p;
}
void __wrap_free(void *p) {
    gone(p);
    __real_free(p);
}
