#ifndef GEN_COMMON_H
#define GEN_COMMON_H
#include "reflect.h"
extern asn_TYPE_descriptor_t *cur_td;     /* selected by `use <Type>` */
enum asn_transfer_syntax gen_syntax(const char *s, int decode);
/* joins argv[from..argc) with single spaces (values contain spaces) */
char *gen_join(int argc, char **argv, int from);
const char *gen_rc_name(enum asn_dec_rval_code_e c);
/* after a decode attempt: exercise print / constraint check / DER+XER encode on whatever is there */
void gen_exercise(const asn_TYPE_descriptor_t *td, const void *st);
#endif
