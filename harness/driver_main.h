/* Generic line-protocol main loop: include after defining
 *   static op_handler_f handlers[] = { ops_a, ops_b, 0 };
 * One output line per input line; "bad-op" if no handler takes the line. */
#ifndef DRIVER_MAIN_H
#define DRIVER_MAIN_H
#include "hutil.h"
#include <signal.h>
#include <unistd.h>
#include <sys/time.h>
/* per-line hang guard: a line that burns more than VERIF_LINE_TIMEOUT seconds of CPU time (default 10; ITIMER_PROF, so a
 * loaded machine does not turn slow lines into false HANGs) or does not finish within 30x that in wall-clock time (blocked)
 * is reported as HANG and the process exits (the orchestrator restarts after that line) */
static void driver_arm(int secs) {
    struct itimerval it; memset(&it, 0, sizeof it); it.it_value.tv_sec = secs;
    setitimer(ITIMER_PROF, &it, 0);
    alarm(secs ? (secs * 30 < 60 ? 60 : secs * 30) : 0);
}
static void driver_on_alarm(int sig) { (void)sig; static const char m[] = "HANG\n"; fflush(stdout); if(write(1, m, sizeof m - 1)) {} _exit(99); }
/* optional: a leading token "@Name" selects a context (e.g. the current type) for this line only-and-after */
__attribute__((weak)) int driver_select(const char *name);
int main(void) {
    char *line = NULL;
    size_t cap = 0;
    ssize_t n;
    static char obuf[1 << 16];
    setvbuf(stdout, obuf, _IOFBF, sizeof(obuf));
    int line_timeout = getenv("VERIF_LINE_TIMEOUT") ? atoi(getenv("VERIF_LINE_TIMEOUT")) : 10;
    signal(SIGALRM, driver_on_alarm);
    signal(SIGPROF, driver_on_alarm);
    while((n = getline(&line, &cap, stdin)) > 0) {
        driver_arm(line_timeout);
        static char *argv[1 << 16];
        int argc = 0;
        char *save = 0;
        for(char *t = strtok_r(line, " \r\n", &save); t && argc < (1 << 16); t = strtok_r(0, " \r\n", &save))
            argv[argc++] = t;
        int handled = 0;
        char **av = argv;
        if(argc > 0 && av[0][0] == '@' && driver_select) {
            if(!driver_select(av[0] + 1)) { fputs("no-such-type\n", stdout); fflush(stdout); continue; }
            av++; argc--;
        }
        if(argc > 0) {
            for(int i = 0; handlers[i]; i++) {
                if(handlers[i](argc, av, stdout)) { handled = 1; break; }
            }
        }
        if(!handled) fputs("bad-op", stdout);
        fputc('\n', stdout);
        fflush(stdout);
        driver_arm(0);
    }
    free(line);
    return 0;
}
#endif
