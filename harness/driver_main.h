/* Generic line-protocol main loop: include after defining
 *   static op_handler_f handlers[] = { ops_a, ops_b, 0 };
 * One output line per input line; "bad-op" if no handler takes the line. */
#ifndef DRIVER_MAIN_H
#define DRIVER_MAIN_H
#include "hutil.h"
/* optional: a leading token "@Name" selects a context (e.g. the current type) for this line only-and-after */
__attribute__((weak)) int driver_select(const char *name);
int main(void) {
    char *line = NULL;
    size_t cap = 0;
    ssize_t n;
    static char obuf[1 << 16];
    setvbuf(stdout, obuf, _IOFBF, sizeof(obuf));
    while((n = getline(&line, &cap, stdin)) > 0) {
        static char *argv[1 << 16];
        int argc = 0;
        char *save = 0;
        for(char *t = strtok_r(line, " \r\n", &save); t && argc < (1 << 16); t = strtok_r(0, " \r\n", &save))
            argv[argc++] = t;
        int handled = 0;
        char **av = argv;
        if(argc > 0 && av[0][0] == '@' && driver_select) {
            if(!driver_select(av[0] + 1)) { fputs("no-such-type\n", stdout); fflush(stdout); continue; }
            av++; argc--;
        }
        if(argc > 0) {
            for(int i = 0; handlers[i]; i++) {
                if(handlers[i](argc, av, stdout)) { handled = 1; break; }
            }
        }
        if(!handled) fputs("bad-op", stdout);
        fputc('\n', stdout);
        fflush(stdout);
    }
    free(line);
    return 0;
}
#endif
