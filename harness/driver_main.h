/* Generic line-protocol main loop: include after defining
 *   static op_handler_f handlers[] = { ops_a, ops_b, 0 };
 * One output line per input line; "bad-op" if no handler takes the line. */
#ifndef DRIVER_MAIN_H
#define DRIVER_MAIN_H
#include "hutil.h"
int main(void) {
    char *line = NULL;
    size_t cap = 0;
    ssize_t n;
    static char obuf[1 << 16];
    setvbuf(stdout, obuf, _IOFBF, sizeof(obuf));
    while((n = getline(&line, &cap, stdin)) > 0) {
        char *argv[256];
        int argc = 0;
        char *save = 0;
        for(char *t = strtok_r(line, " \r\n", &save); t && argc < 256; t = strtok_r(0, " \r\n", &save))
            argv[argc++] = t;
        int handled = 0;
        if(argc > 0) {
            for(int i = 0; handlers[i]; i++) {
                if(handlers[i](argc, argv, stdout)) { handled = 1; break; }
            }
        }
        if(!handled) fputs("bad-op", stdout);
        fputc('\n', stdout);
        fflush(stdout);
    }
    free(line);
    return 0;
}
#endif
