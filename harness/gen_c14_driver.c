/* Driver for generated modules: C14 lifecycle operations + core operations (link with alloc_wrap.c and --wrap). */
#include "hutil.h"
int ops_gen_core(int argc, char **argv, FILE *out);
int ops_gen_c14(int argc, char **argv, FILE *out);
static op_handler_f handlers[] = { ops_gen_c14, ops_gen_core, 0 };
#include "driver_main.h"
