/* Allocation ledger (see alloc_wrap.c). */
#ifndef ALLOC_WRAP_H
#define ALLOC_WRAP_H
#include <stddef.h>
extern int lg_enabled;                 /* set only around calls into the library */
void lg_reset(void);                   /* forget everything (start of an operation line) */
void lg_set_trace(int on);
void lg_arm(long k);                   /* the k-th allocation attempt from now fails (k >= 1); k <= 0: none */
void lg_disarm(void);
long lg_alloc_count(void);             /* allocation attempts counted so far */
long lg_failed_count(void);
long lg_doublefree_count(void);
long lg_foreign_count(void);
long lg_overflow_count(void);
void lg_live(long *count, size_t *bytes);
long lg_live_ids(long *buf, long cap); /* ids of live blocks, ascending */
long lg_id_of(const void *p);          /* id of the live block starting at p, 0 if none */
long lg_id_containing(const void *p);  /* id of the live block containing p, 0 if none */
const char *lg_trace_text(void);
size_t lg_trace_mark(void);
const char *lg_trace_from(size_t mark);
void lg_release_leaks(void);
#endif
