/* C07 operations on a generated module: the encoder API contract (asn_application.c).
 *
 *   encraw <syn> <k> <val>    the abstract encoder run: der_encode / uper_encode / oer_encode / xer_encode called
 *                             directly with a recording callback that fails (only) at invocation index k (-1: never)
 *                             -> ret=<encoded (bits for uper)> ft=<enc|noenc|null|-> chunks=<hex,hex,...|->
 *                             (every invocation's chunk is listed, the refused one included; `.` = empty chunk)
 *   encbuf <syn> <n> <val>    asn_encode_to_buffer into a buffer of exactly n bytes followed by canary bytes
 *                             -> ret=<encoded> errno=<E> canary=ok|BAD wrote=<hex of the first min(n,encoded) bytes>
 *                             (the buffer is pre-filled with 0xa5, so unwritten octets show as a5)
 *   encnew <syn> <val>        asn_encode_to_new_buffer
 *                             -> buf=null|nonnull encoded=<n> exact=<0|1|-> nul=<0|1|-> errno=<E> alloc=<bytes|->
 *                             (contract: encoded >= 0 <=> buf=nonnull exact=1 nul=1; a failure is `buf=null encoded=-1`,
 *                              `buf=nonnull encoded=-1` is the former F39 and a violation)
 *   enccb <syn> <k> <val>     asn_encode with a callback failing (only) at invocation index k (k = -1: never)
 *                             -> ret=<n> errno=<E> chunks=<s0,s1,...|-> after=<invocations after k> delivered=<hex of the
 *                                bytes accepted before invocation k (all accepted bytes when k = -1)>
 * A callback that has been invoked 2^20 times refuses the data and the op prints `HANG runaway ...` (an encoder looping on
 * its callback would otherwise eat all memory before any timeout fires).
 * Every line is self-contained (run_c_bisect attributes an abort/sanitizer report to its line). */
#include "gen_common.h"
#if defined(__SANITIZE_ADDRESS__)
size_t __sanitizer_get_allocated_size(const volatile void *p);   /* ASan runtime: requested size of a live block */
#endif

static const char *c07_errno(int e) {
    switch(e) { case 0: return "0"; case EIO: return "EIO"; case EINVAL: return "EINVAL"; case ENOENT: return "ENOENT";
                case EBADF: return "EBADF"; case ERANGE: return "ERANGE"; case ENOMEM: return "ENOMEM"; case EPERM: return "EPERM";
                default: return "Eother"; }
}

struct rec {
    uint8_t *bytes; size_t len, cap;      /* accepted bytes */
    size_t *sizes; size_t n, ncap;        /* size of every invocation */
    uint8_t **chunk;                      /* copy of every chunk (encraw only) */
    int keep_chunks;
    long fail_at;                         /* invocation index that returns -1; -1 = never */
    size_t before_len;                    /* accepted bytes before invocation fail_at */
    size_t after;                         /* invocations after fail_at */
    int runaway;                          /* more than RUNAWAY_CALLS invocations: the encoder does not terminate */
    uint8_t last[16]; size_t last_n;      /* head of the most recent chunk */
};
#define RUNAWAY_CALLS (1u << 20)
static int rec_cb(const void *data, size_t size, void *key) {
    struct rec *r = key;
    if(r->n >= RUNAWAY_CALLS) { r->runaway = 1; return -1; }      /* refusing the data is the only way to stop such a loop */
    r->last_n = size < sizeof r->last ? size : sizeof r->last;
    if(r->last_n) memcpy(r->last, data, r->last_n);
    if(r->n == r->ncap) {
        r->ncap = r->ncap ? 2 * r->ncap : 64;
        r->sizes = realloc(r->sizes, r->ncap * sizeof *r->sizes);
        if(r->keep_chunks) r->chunk = realloc(r->chunk, r->ncap * sizeof *r->chunk);
    }
    size_t idx = r->n++;
    r->sizes[idx] = size;
    if(r->keep_chunks) { r->chunk[idx] = malloc(size ? size : 1); if(size) memcpy(r->chunk[idx], data, size); }
    if(r->fail_at >= 0 && (long)idx == r->fail_at) { r->before_len = r->len; return -1; }
    if(r->fail_at >= 0 && (long)idx > r->fail_at) r->after++;
    if(r->len + size > r->cap) { r->cap = 2 * (r->len + size) + 64; r->bytes = realloc(r->bytes, r->cap); }
    if(size) memcpy(r->bytes + r->len, data, size);     /* reads exactly `size` bytes of the encoder's chunk (ASan) */
    r->len += size;
    return 0;
}
static void rec_free(struct rec *r) {
    if(r->keep_chunks) for(size_t i = 0; i < r->n; i++) free(r->chunk[i]);
    free(r->chunk); free(r->sizes); free(r->bytes);
}

int ops_gen_c07(int argc, char **argv, FILE *out) {
    const char *op = argv[0];
    int mine = !strcmp(op, "encraw") || !strcmp(op, "encbuf") || !strcmp(op, "encnew") || !strcmp(op, "enccb");
    if(!mine) return 0;
    if(!cur_td) { fputs("no-type", out); return 1; }
    int valpos = (!strcmp(op, "encbuf") || !strcmp(op, "enccb") || !strcmp(op, "encraw")) ? 3 : 2;
    if(argc <= valpos) { fputs("bad-op", out); return 1; }
    enum asn_transfer_syntax syn = gen_syntax(argv[1], 0);
    if(syn == ATS_INVALID) { fputs("bad-op", out); return 1; }
    char *v = gen_join(argc, argv, valpos); const char *p = v;
    void *st = rf_load(cur_td, &p, 0);
    if(!st) { fprintf(out, "load-error %s", rf_errmsg); free(v); return 1; }

    if(!strcmp(op, "encraw")) {
        struct rec r; memset(&r, 0, sizeof r); r.fail_at = strtol(argv[2], 0, 10); r.keep_chunks = 1;
        asn_enc_rval_t er; int have = 1;
        const asn_TYPE_operation_t *o = cur_td->op;
        const char *s = argv[1];
        if(!strcmp(s, "der")) { if(o->der_encoder) er = der_encode(cur_td, st, rec_cb, &r); else have = 0; }
        else if(!strcmp(s, "uper")) { if(o->uper_encoder) er = uper_encode(cur_td, 0, st, rec_cb, &r); else have = 0; }
        else if(!strcmp(s, "oer")) { if(o->oer_encoder) er = oer_encode(cur_td, st, rec_cb, &r); else have = 0; }
        else if(!strcmp(s, "xer")) { if(o->xer_encoder) er = xer_encode(cur_td, st, XER_F_BASIC, rec_cb, &r); else have = 0; }
        else if(!strcmp(s, "cxer")) { if(o->xer_encoder) er = xer_encode(cur_td, st, XER_F_CANONICAL, rec_cb, &r); else have = 0; }
        else have = -1;
        if(have < 0) fputs("bad-op", out);
        else if(!have) fputs("noencoder", out);
        else if(r.runaway) { fputs("HANG runaway: more than 2^20 callback invocations, last chunk ", out); hx_print(out, r.last, r.last_n); }
        else {
            const char *ft = "null";
            if(er.encoded == -1 && er.failed_type) {
                const asn_TYPE_operation_t *fo = er.failed_type->op;
                int h = !strcmp(s, "der") ? !!fo->der_encoder : !strcmp(s, "uper") ? !!fo->uper_encoder
                      : !strcmp(s, "oer") ? !!fo->oer_encoder : !!fo->xer_encoder;
                ft = h ? "enc" : "noenc";
            } else if(er.encoded != -1) ft = "-";
            fprintf(out, "ret=%zd ft=%s chunks=", er.encoded, ft);
            if(r.n == 0) fputc('-', out);
            for(size_t i = 0; i < r.n; i++) {
                if(i) fputc(',', out);
                if(r.sizes[i] == 0) fputc('.', out); else hx_print(out, r.chunk[i], r.sizes[i]);
            }
        }
        rec_free(&r);
    } else if(!strcmp(op, "encbuf")) {
        size_t n = strtoul(argv[2], 0, 10);
        enum { CAN = 64 };
        uint8_t *buf = malloc(n + CAN);
        memset(buf, 0xa5, n); memset(buf + n, 0xc3, CAN);
        errno = 0;
        asn_enc_rval_t er = asn_encode_to_buffer(0, syn, cur_td, st, buf, n);
        int e = errno;
        int okc = 1; for(int i = 0; i < CAN; i++) if(buf[n + i] != 0xc3) okc = 0;
        size_t w = er.encoded < 0 ? 0 : ((size_t)er.encoded < n ? (size_t)er.encoded : n);
        fprintf(out, "ret=%zd errno=%s canary=%s wrote=", er.encoded, c07_errno(e), okc ? "ok" : "BAD");
        hx_print(out, buf, w);
        free(buf);
    } else if(!strcmp(op, "encnew")) {
        /* reference: what asn_encode delivers to a callback */
        struct rec r; memset(&r, 0, sizeof r); r.fail_at = -1;
        asn_enc_rval_t e0 = asn_encode(0, syn, cur_td, st, rec_cb, &r);
        if(r.runaway) { fputs("HANG runaway: more than 2^20 callback invocations, last chunk ", out); hx_print(out, r.last, r.last_n); rec_free(&r); goto done; }
        errno = 0;
        asn_encode_to_new_buffer_result_t nb = asn_encode_to_new_buffer(0, syn, cur_td, st);
        int e = errno;
        fprintf(out, "buf=%s encoded=%zd", nb.buffer ? "nonnull" : "null", nb.result.encoded);
        if(nb.buffer && nb.result.encoded >= 0) {
            size_t n = nb.result.encoded;
            int exact = e0.encoded == nb.result.encoded && r.len == n && (n == 0 || memcmp(r.bytes, nb.buffer, n) == 0);
            int nul = ((char *)nb.buffer)[n] == 0;          /* ASan reports if the terminator is outside the block */
            fprintf(out, " exact=%d nul=%d", exact, nul);
        } else fputs(" exact=- nul=-", out);
        fprintf(out, " errno=%s", c07_errno(e));
#if defined(__SANITIZE_ADDRESS__)
        if(nb.buffer) fprintf(out, " alloc=%zu", __sanitizer_get_allocated_size(nb.buffer)); else fputs(" alloc=-", out);
#else
        fputs(" alloc=?", out);
#endif
        free(nb.buffer);
        rec_free(&r);
    } else { /* enccb */
        struct rec r; memset(&r, 0, sizeof r); r.fail_at = strtol(argv[2], 0, 10);
        errno = 0;
        asn_enc_rval_t er = asn_encode(0, syn, cur_td, st, rec_cb, &r);
        int e = errno;
        if(r.runaway) { fputs("HANG runaway: more than 2^20 callback invocations, last chunk ", out); hx_print(out, r.last, r.last_n); rec_free(&r); goto done; }
        fprintf(out, "ret=%zd errno=%s chunks=", er.encoded, c07_errno(e));
        if(r.n == 0) fputc('-', out);
        for(size_t i = 0; i < r.n; i++) fprintf(out, i ? ",%zu" : "%zu", r.sizes[i]);
        int failed = r.fail_at >= 0 && r.n > (size_t)r.fail_at;
        fprintf(out, " after=%zu delivered=", r.after);
        hx_print(out, r.bytes, failed ? r.before_len : r.len);
        rec_free(&r);
    }
done:
    ASN_STRUCT_FREE(*cur_td, st); free(v);
    return 1;
}
