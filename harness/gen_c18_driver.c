/* Driver for generated modules: C18 operations (open types / information object sets) + core operations. */
#include "hutil.h"
int ops_gen_core(int argc, char **argv, FILE *out);
int ops_gen_c18(int argc, char **argv, FILE *out);
static op_handler_f handlers[] = { ops_gen_c18, ops_gen_core, 0 };
#include "driver_main.h"
