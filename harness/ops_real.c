#include "hutil.h"
int ops_real(int argc, char **argv, FILE *out) { (void)argc; (void)argv; (void)out; return 0; }
