/* C16 REAL ops on the real functions of skeletons/REAL.c.
 *   d2R <bits64: decimal or 0x-hex>   -> hex content octets ("-" = empty) | fail
 *   R2d <hex>                         -> ok <16 hex digits> | ok nan | erange | einval | fail | decimal-unmodelled
 * The double is passed bit-for-bit (memcpy from/to uint64_t). */
#include "hutil.h"
#include <math.h>
#include <REAL.h>

int ops_real(int argc, char **argv, FILE *out) {
    const char *op = argv[0];
    if(argc == 2 && !strcmp(op, "d2R")) {
        char *endp = 0;
        errno = 0;
        uint64_t bits = strtoull(argv[1], &endp, 0);
        if(errno || !endp || *endp || endp == argv[1] || argv[1][0] == '-') { fputs("bad-op", out); return 1; }
        double d;
        memcpy(&d, &bits, sizeof d);
        REAL_t st; memset(&st, 0, sizeof st);
        int rc = asn_double2REAL(&st, d);
        if(rc) fputs("fail", out); else hx_print(out, st.buf, st.size);
        free(st.buf);
        return 1;
    }
    if(argc == 2 && !strcmp(op, "R2d")) {
        size_t len; uint8_t *t = hx_parse(argv[1], &len);
        if(!t) { fputs("bad-op", out); return 1; }
        /* ISO 6093 decimal forms go through libc strtod: outside the model */
        if(len > 0 && t[0] >= 0x01 && t[0] <= 0x03) { fputs("decimal-unmodelled", out); free(t); return 1; }
        /* exact-size buffer: the binary / special paths must not read past size */
        uint8_t *b = malloc(len ? len : 1);
        memcpy(b, t, len);
        free(t);
        REAL_t st; memset(&st, 0, sizeof st);
        st.buf = b; st.size = len;
        double d = 12345.0;
        errno = 0;
        int rc = asn_REAL2double(&st, &d);
        if(rc) fputs(errno == ERANGE ? "erange" : errno == EINVAL ? "einval" : "fail", out);
        else if(isnan(d)) fputs("ok nan", out);
        else { uint64_t bits; memcpy(&bits, &d, sizeof bits); fprintf(out, "ok %016" PRIx64, bits); }
        free(b);
        return 1;
    }
    return 0;
}
