#define _GNU_SOURCE
/* C14 operations on a generated module: structure lifecycle histories under the allocation ledger.
 *
 *   hist <failk|-1>[t] <step>;<step>;...
 *       executes a history on ONE structure pointer.  Steps:
 *         dec:<syn>:<hex>        asn_decode of the whole buffer into sptr
 *         decp:<syn>:<hex>:<n>   asn_decode of the first n octets (prefix); remembers hex and what was consumed
 *         decr                   asn_decode of the remembered buffer from the first unconsumed octet to its end
 *         reset                  ASN_STRUCT_RESET, then the structure is compared with zeros
 *         free                   ASN_STRUCT_FREE, sptr = NULL
 *         enc:<syn>              asn_encode_to_new_buffer, buffer released
 *         print | check          asn_fprint to /dev/null | asn_check_constraints
 *                                (enc/print/check are executed only while the structure holds a completely decoded
 *                                 value: last decode returned RC_OK and no RESET since; otherwise `skip`;
 *                                 encb:<syn> / printf execute on whatever is there)
 *       A decode step is executed only when the API allows it (structure NULL / just reset, or `decr`
 *       after RC_WMORE of a restartable syntax); otherwise it is reported as `skip`.
 *       A step prefixed by `!` runs with the failk-th allocation (counted from the start of that step) failing.
 *       After the last step an implicit `free` is executed.
 *       Output:  <step> | <step> | ... | end live=<n> bytes=<b> doublefree=<n> foreign=<n> failed=<n> zeroed=<0|1>
 *       per step: `<name> <rc> <consumed> a=<allocations>`; with the `t` flag additionally
 *       `T=<ownership tree after the step> L=<live ids after the step> E=<allocator events of the step>`.
 *   fresh_vs_reset <syn> <hex> <hex2>
 *       decode hex into a fresh structure  vs  decode hex2 (garbage / prefix) first, ASN_STRUCT_RESET, decode hex:
 *       rc, consumed and the value dumps must be equal.
 *
 * Ownership tree syntax (no spaces; id 0 = NULL pointer):
 *   N native | Z null pointer | P(buf) | O(buf,stack,el...) | Q(ctxptr,member...) | S(member...) | C(n,present,member)
 *   | L(array,ctxslot,elem...) | B(id,tree) pointer to a heap block holding tree
 */
#include "gen_common.h"
#include "alloc_wrap.h"
#include <asn_codecs_prim.h>
#include <OCTET_STRING.h>
#include <constr_SEQUENCE.h>
#include <constr_SET.h>
#include <constr_CHOICE.h>
#include <constr_SET_OF.h>
#include <asn_SET_OF.h>
#include <NativeReal.h>
#include <setjmp.h>
#include <signal.h>
#include <unistd.h>
#include <execinfo.h>
#include <dlfcn.h>

/* ------------------------------------------------------------------ hang guard
 * A library call that does not return within C14_HANG_SECS is abandoned by siglongjmp out of the SIGALRM
 * handler; the line reports `HANG step=<i> at=<innermost frames>` (names via dladdr, needs -rdynamic),
 * the ledger releases what the abandoned call held, and the driver goes on with the next line. */
#define C14_HANG_SECS 2
static sigjmp_buf c14_jb;
static volatile sig_atomic_t c14_armed;
static void *c14_bt[24]; static int c14_nbt;
static int c14_cur_step;
static void c14_on_alarm(int sig) {
    (void)sig;
    if(!c14_armed) {       /* the driver's own per-line guard (driver_main.h) fired outside a guarded library call */
        static const char m[] = "HANG\n";
        fflush(stdout); if(write(1, m, sizeof m - 1)) {} _exit(99);
    }
    c14_armed = 0;
    c14_nbt = backtrace(c14_bt, 24);
    siglongjmp(c14_jb, 1);
}
static void c14_guard_init(void) {
    static int done;
    if(done) return;
    done = 1;
    void *tmp[4]; backtrace(tmp, 4);              /* loads libgcc now, not inside the handler */
    struct sigaction sa; memset(&sa, 0, sizeof sa);
    sa.sa_handler = c14_on_alarm; sigemptyset(&sa.sa_mask); sa.sa_flags = SA_NODEFER;
    sigaction(SIGALRM, &sa, 0);
}
static void c14_report_hang(FILE *out) {
    lg_enabled = 0; alarm(0);
    fprintf(out, "HANG step=%d at=", c14_cur_step);
    int shown = 0;
    for(int i = 0; i < c14_nbt && shown < 6; i++) {
        Dl_info di;
        if(dladdr(c14_bt[i], &di) && di.dli_sname) {
            if(!strcmp(di.dli_sname, "c14_on_alarm") || !strncmp(di.dli_sname, "__", 2)) continue;
            fprintf(out, shown ? "<%s" : "%s", di.dli_sname); shown++;
        }
    }
    if(!shown) fputc('?', out);
    lg_release_leaks(); lg_reset();
}
#define LIBCALL(stmt) do { c14_armed = 1; alarm(C14_HANG_SECS); lg_enabled = 1; stmt; lg_enabled = 0; alarm(0); c14_armed = 0; } while(0)

/* copies of the private definitions in OCTET_STRING.c (decode-time stack reachable through _asn_ctx.ptr) */
struct c14_stack_el {
    ber_tlv_len_t left; ber_tlv_len_t got; unsigned cont_level; int want_nulls; int bits_chopped; ber_tlv_tag_t tag;
    struct c14_stack_el *prev; struct c14_stack_el *next;
};
struct c14_stack { struct c14_stack_el *tail; struct c14_stack_el *cur_ptr; };

static size_t c14_struct_size(const asn_TYPE_descriptor_t *td) {
    switch(rf_kind(td)) {
    case K_BOOLEAN: return sizeof(int);
    case K_NULL: return sizeof(int);
    case K_NINT: case K_NENUM: return sizeof(long);
    case K_INT: case K_ENUM: case K_REAL: case K_PRIM: return sizeof(ASN__PRIMITIVE_TYPE_t);
    case K_NREAL: {
        const asn_NativeReal_specifics_t *sp = td->specifics;
        return (sp && sp->float_size == sizeof(float)) ? sizeof(float) : sizeof(double);
    }
    case K_OCTETS: case K_BITS: case K_ANY: {
        const asn_OCTET_STRING_specifics_t *sp = td->specifics;
        return sp ? (size_t)sp->struct_size : sizeof(OCTET_STRING_t);
    }
    case K_SEQUENCE: return ((const asn_SEQUENCE_specifics_t *)td->specifics)->struct_size;
    case K_SET: return ((const asn_SET_specifics_t *)td->specifics)->struct_size;
    case K_CHOICE: case K_OPEN: return ((const asn_CHOICE_specifics_t *)td->specifics)->struct_size;
    case K_SETOF: case K_SEQOF: return ((const asn_SET_OF_specifics_t *)td->specifics)->struct_size;
    default: return 0;
    }
}

/* ------------------------------------------------------------------ ownership tree dump */
static long c14_unknown;          /* pointers that are not the start of a live ledger block */
static long idof(const void *p) {
    if(!p) return 0;
    long id = lg_id_of(p);
    if(!id) { c14_unknown++; return 900000000 + c14_unknown; }
    return id;
}
static void dump_contents(const asn_TYPE_descriptor_t *td, const void *st, FILE *out, int depth);
static void dump_slot(const asn_TYPE_member_t *elm, const void *parent, FILE *out, int depth) {
    if(elm->flags & ATF_POINTER) {
        const void *p = *(const void *const *)((const char *)parent + elm->memb_offset);
        if(!p) { fputc('Z', out); return; }
        fprintf(out, "B(%ld,", idof(p)); dump_contents(elm->type, p, out, depth + 1); fputc(')', out);
    } else {
        dump_contents(elm->type, (const char *)parent + elm->memb_offset, out, depth + 1);
    }
}
static void dump_ptr(const asn_TYPE_descriptor_t *td, const void *p, FILE *out, int depth) {
    if(!p) { fputc('Z', out); return; }
    fprintf(out, "B(%ld,", idof(p)); dump_contents(td, p, out, depth + 1); fputc(')', out);
}
static unsigned fetch_present(const void *st, unsigned off, unsigned size) {
    const void *p = (const char *)st + off;
    switch(size) {
    case sizeof(int): return *(const unsigned int *)p;
    case sizeof(short): return *(const unsigned short *)p;
    case sizeof(char): return *(const unsigned char *)p;
    default: return 0;
    }
}
static void dump_contents(const asn_TYPE_descriptor_t *td, const void *st, FILE *out, int depth) {
    if(depth > 2000) { fputc('N', out); return; }
    switch(rf_kind(td)) {
    case K_INT: case K_ENUM: case K_REAL: case K_PRIM:
        fprintf(out, "P(%ld)", idof(((const ASN__PRIMITIVE_TYPE_t *)st)->buf)); return;
    case K_OCTETS: case K_BITS: case K_ANY: {
        const asn_OCTET_STRING_specifics_t *sp = td->specifics ? td->specifics : &asn_SPC_OCTET_STRING_specs;
        const asn_struct_ctx_t *ctx = (const asn_struct_ctx_t *)((const char *)st + sp->ctx_offset);
        const struct c14_stack *stck = ctx->ptr;
        fprintf(out, "O(%ld,%ld", idof(((const OCTET_STRING_t *)st)->buf), idof(stck));
        if(stck && lg_id_of(stck)) {
            int guard = 0;
            for(const struct c14_stack_el *e = stck->tail; e && guard < 100000; e = e->prev, guard++) fprintf(out, ",%ld", idof(e));
        }
        fputc(')', out); return;
    }
    case K_SEQUENCE: {
        const asn_SEQUENCE_specifics_t *sp = td->specifics;
        const asn_struct_ctx_t *ctx = (const asn_struct_ctx_t *)((const char *)st + sp->ctx_offset);
        fprintf(out, "Q(%ld", idof(ctx->ptr));
        for(size_t i = 0; i < td->elements_count; i++) { fputc(',', out); dump_slot(&td->elements[i], st, out, depth); }
        fputc(')', out); return;
    }
    case K_SET: {
        fputs("S(", out);
        for(size_t i = 0; i < td->elements_count; i++) { if(i) fputc(',', out); dump_slot(&td->elements[i], st, out, depth); }
        fputc(')', out); return;
    }
    case K_CHOICE: {
        const asn_CHOICE_specifics_t *sp = td->specifics;
        unsigned pr = fetch_present(st, sp->pres_offset, sp->pres_size);
        fprintf(out, "C(%u,%u,", (unsigned)td->elements_count, pr);
        if(pr > 0 && pr <= td->elements_count) dump_slot(&td->elements[pr - 1], st, out, depth); else fputc('N', out);
        fputc(')', out); return;
    }
    case K_SETOF: case K_SEQOF: {
        const asn_SET_OF_specifics_t *sp = td->specifics;
        const asn_anonymous_set_ *list = _A_CSET_FROM_VOID(st);
        const asn_struct_ctx_t *ctx = (const asn_struct_ctx_t *)((const char *)st + sp->ctx_offset);
        fprintf(out, "L(%ld,", idof(list->array));
        dump_ptr(td->elements[0].type, ctx->ptr, out, depth);
        for(int i = 0; i < list->count; i++) { fputc(',', out); dump_ptr(td->elements[0].type, list->array[i], out, depth); }
        fputc(')', out); return;
    }
    default: fputc('N', out); return;
    }
}
static void dump_live(FILE *out) {
    /* ids of the live blocks, ascending */
    extern long lg_live_ids(long *buf, long cap);
    static long ids[1 << 17];
    long n = lg_live_ids(ids, 1 << 17);
    if(!n) { fputc('-', out); return; }
    for(long i = 0; i < n; i++) fprintf(out, i ? ",%ld" : "%ld", ids[i]);
}

/* ------------------------------------------------------------------ hist */
enum { ST_CLEAN, ST_MORE, ST_DONE };
static int restartable(const char *syn) { return !strcmp(syn, "ber") || !strcmp(syn, "der") || !strcmp(syn, "xer") || !strcmp(syn, "cxer") || !strcmp(syn, "oer"); }

static int is_zero(const void *p, size_t n) {
    const unsigned char *b = p;
    for(size_t i = 0; i < n; i++) if(b[i]) return 0;
    return 1;
}

static int c14_null_cb(const void *b, size_t n, void *k) { (void)b; (void)n; (void)k; return 0; }

/* buffers owned by the harness; static so that a line abandoned by the hang guard does not leak them */
static uint8_t *c14_rem, *c14_tmp, *c14_b1, *c14_b2;

static int op_hist(int argc, char **argv, FILE *out) {
    if(argc != 3) { fputs("bad-op", out); return 1; }
    int trees = strchr(argv[1], 't') != 0;
    long failk = strtol(argv[1], 0, 10);
    static FILE *devnull;
    if(!devnull) devnull = fopen("/dev/null", "w");
    void *sptr = 0; int state = ST_CLEAN; int partial = 0;
    size_t rem_len = 0, rem_off = 0; char rem_syn[8] = "";
    int zeroed = 1;
    free(c14_rem); c14_rem = 0; free(c14_tmp); c14_tmp = 0;
    lg_reset(); lg_set_trace(trees); c14_unknown = 0;
    c14_guard_init();
    char *stepv[256]; int nsteps = 0; char *save = 0;
    for(char *s = strtok_r(argv[2], ";", &save); s && nsteps < 255; s = strtok_r(0, ";", &save)) stepv[nsteps++] = s;
    char implicit[] = "free";
    stepv[nsteps++] = implicit;
    if(sigsetjmp(c14_jb, 1)) { c14_report_hang(out); return 1; }
    for(int si = 0; si < nsteps; si++) {
        char *s = stepv[si];
        int final = (si == nsteps - 1);
        int armed = 0;
        c14_cur_step = si;
        if(*s == '!') { armed = 1; s++; }
        long a0 = lg_alloc_count(); size_t mark = lg_trace_mark();
        char *f[4] = {0, 0, 0, 0}; int nf = 0; char *sv2 = 0;
        for(char *t = strtok_r(s, ":", &sv2); t && nf < 4; t = strtok_r(0, ":", &sv2)) f[nf++] = t;
        const char *name = f[0] ? f[0] : "?";
        fprintf(out, "%s ", final ? "end" : name);
        if(armed && failk > 0) lg_arm(failk);
        if(!strcmp(name, "dec") || !strcmp(name, "decp") || !strcmp(name, "decr")) {
            size_t len = 0; const char *syn = rem_syn; int ok = 1;
            free(c14_tmp); c14_tmp = 0;
            if(!strcmp(name, "decr")) {
                if(state != ST_MORE || !c14_rem) ok = 0;
                else { len = rem_len - rem_off; c14_tmp = malloc(len ? len : 1); memcpy(c14_tmp, c14_rem + rem_off, len); }
            } else {
                if(state != ST_CLEAN || nf < 3) ok = 0;
                else {
                    free(c14_rem); c14_rem = hx_parse_exact(f[2], &rem_len); rem_off = 0;
                    snprintf(rem_syn, sizeof rem_syn, "%s", f[1]); syn = rem_syn;
                    if(!c14_rem) ok = 0;
                    else {
                        len = rem_len;
                        if(!strcmp(name, "decp")) { size_t n = f[3] ? strtoul(f[3], 0, 10) : 0; if(n < len) len = n; }
                        c14_tmp = malloc(len ? len : 1); memcpy(c14_tmp, c14_rem, len);
                    }
                }
            }
            if(!ok) fputs("skip 0", out);
            else {
                asn_dec_rval_t rv;
                LIBCALL(rv = asn_decode(0, gen_syntax(syn, 1), cur_td, &sptr, c14_tmp, len));
                fprintf(out, "%s %zu", gen_rc_name(rv.code), rv.consumed);
                if(rv.consumed > len) fputs("-OVERCONSUMED", out);
                rem_off += rv.consumed <= len ? rv.consumed : len;
                state = (rv.code == RC_WMORE && restartable(syn)) ? ST_MORE : ST_DONE;
                if(!sptr) state = ST_CLEAN;
                partial = sptr && rv.code != RC_OK;
            }
        } else if(!strcmp(name, "reset")) {
            if(!sptr) fputs("skip 0", out);
            else {
                LIBCALL(ASN_STRUCT_RESET(*cur_td, sptr));
                int z = is_zero(sptr, c14_struct_size(cur_td));
                if(!z) zeroed = 0;
                fprintf(out, "z%d 0", z);
                state = ST_CLEAN; partial = 1;
            }
        } else if(!strcmp(name, "free")) {
            LIBCALL(ASN_STRUCT_FREE(*cur_td, sptr));
            sptr = 0; state = ST_CLEAN; partial = 0;
            fputs("done 0", out);
        } else if((!strcmp(name, "enc") || !strcmp(name, "encb")) && nf >= 2) {
            /* `enc` only on a structure holding a completely decoded value; `encb` on whatever is there
             * (what encoders do with half-built structures belongs to C04: findings F51, F52) */
            if(!sptr || (partial && !strcmp(name, "enc"))) fputs("skip 0", out);
            else {
                asn_encode_to_new_buffer_result_t r; ssize_t n; int hadbuf;
                LIBCALL(r = asn_encode_to_new_buffer(0, gen_syntax(f[1], 0), cur_td, sptr); n = r.result.encoded; hadbuf = r.buffer != 0; free(r.buffer));
                if(n >= 0 && hadbuf) fprintf(out, "ok %zd", n); else fprintf(out, "fail %d", hadbuf);
            }
        } else if(!strcmp(name, "print") || !strcmp(name, "printf")) {
            if(!sptr || (partial && !strcmp(name, "print"))) fputs("skip 0", out);
            else {
                int r;
                LIBCALL(r = asn_fprint(devnull, cur_td, sptr));
                fprintf(out, "%s 0", r == 0 ? "ok" : "fail");
            }
        } else if(!strcmp(name, "check")) {
            if(!sptr || partial) fputs("skip 0", out);
            else {
                char eb[128]; size_t el = sizeof eb; int r;
                LIBCALL(r = asn_check_constraints(cur_td, sptr, eb, &el));
                fprintf(out, "%s 0", r == 0 ? "ok" : "fail");
            }
        } else fputs("badstep 0", out);
        lg_disarm();
        fprintf(out, " a=%ld", lg_alloc_count() - a0);
        if(trees) {
            fputs(" T=", out); dump_ptr(cur_td, sptr, out, 0);
            fputs(" L=", out); dump_live(out);
            fprintf(out, " E=%s", lg_trace_from(mark));
        }
        if(final) {
            long live; size_t bytes; lg_live(&live, &bytes);
            fprintf(out, " live=%ld bytes=%zu doublefree=%ld foreign=%ld failed=%ld zeroed=%d unknown=%ld",
                    live, bytes, lg_doublefree_count(), lg_foreign_count() + lg_overflow_count(), lg_failed_count(), zeroed,
                    c14_unknown);
        } else fputs(" | ", out);
    }
    lg_release_leaks();
    lg_reset();
    return 1;
}

static int op_fresh_vs_reset(int argc, char **argv, FILE *out) {
    if(argc != 4) { fputs("bad-op", out); return 1; }
    enum asn_transfer_syntax syn = gen_syntax(argv[1], 1);
    size_t n1, n2;
    free(c14_b1); free(c14_b2);
    c14_b1 = hx_parse_exact(argv[2], &n1); c14_b2 = hx_parse_exact(argv[3], &n2);
    if(!c14_b1 || !c14_b2) { fputs("bad-op", out); return 1; }
    lg_reset(); lg_set_trace(0);
    c14_guard_init();
    c14_cur_step = 0;
    if(sigsetjmp(c14_jb, 1)) { c14_report_hang(out); return 1; }
    void *a = 0, *b = 0;
    asn_dec_rval_t ra, r0, rb;
    int z = 1;
    LIBCALL(ra = asn_decode(0, syn, cur_td, &a, c14_b1, n1));
    c14_cur_step = 1;
    LIBCALL(r0 = asn_decode(0, syn, cur_td, &b, c14_b2, n2));
    c14_cur_step = 2;
    if(b) { LIBCALL(ASN_STRUCT_RESET(*cur_td, b)); z = is_zero(b, c14_struct_size(cur_td)); }
    c14_cur_step = 3;
    LIBCALL(rb = asn_decode(0, syn, cur_td, &b, c14_b1, n1));
    int same = ra.code == rb.code && ra.consumed == rb.consumed;
    char *da = 0, *db = 0; size_t la = 0, lb = 0;
    if(same && ra.code == RC_OK && a && b) {
        FILE *fa = open_memstream(&da, &la); rf_dump(cur_td, a, fa); fclose(fa);
        FILE *fb = open_memstream(&db, &lb); rf_dump(cur_td, b, fb); fclose(fb);
        if(la != lb || memcmp(da, db, la)) same = 0;
        if(cur_td->op->compare_struct(cur_td, a, b) != 0) same = 0;
    }
    fprintf(out, "%s first=%s:%zu fresh=%s:%zu reset=%s:%zu zeroed=%d", same ? "same" : "differ", gen_rc_name(r0.code), r0.consumed,
            gen_rc_name(ra.code), ra.consumed, gen_rc_name(rb.code), rb.consumed, z);
    if(!same && da && db) fprintf(out, " A=%.200s B=%.200s", da, db);
    free(da); free(db);
    c14_cur_step = 4;
    LIBCALL(ASN_STRUCT_FREE(*cur_td, a); ASN_STRUCT_FREE(*cur_td, b));
    long live; size_t bytes; lg_live(&live, &bytes);
    fprintf(out, " live=%ld doublefree=%ld", live, lg_doublefree_count());
    lg_release_leaks(); lg_reset();
    return 1;
}

int ops_gen_c14(int argc, char **argv, FILE *out) {
    const char *op = argv[0];
    if(strcmp(op, "hist") && strcmp(op, "fresh_vs_reset")) return 0;
    if(!cur_td) { fputs("no-type", out); return 1; }
    if(!strcmp(op, "hist")) return op_hist(argc, argv, out);
    return op_fresh_vs_reset(argc, argv, out);
}
