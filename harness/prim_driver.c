/* Line-protocol driver over the real skeleton functions (L1 operations).
 * One output line per input line; handlers live in ops_*.c. */
#include "hutil.h"

#define DECL(n) int n(int argc, char **argv, FILE *out);
#include "prim_ops.list"
#undef DECL
static op_handler_f handlers[] = {
#define DECL(n) n,
#include "prim_ops.list"
#undef DECL
    0
};

int main(void) {
    char *line = NULL;
    size_t cap = 0;
    ssize_t n;
    static char obuf[1 << 16];
    setvbuf(stdout, obuf, _IOFBF, sizeof(obuf));
    while((n = getline(&line, &cap, stdin)) > 0) {
        char *argv[64];
        int argc = 0;
        char *save = 0;
        for(char *t = strtok_r(line, " \r\n", &save); t && argc < 64; t = strtok_r(0, " \r\n", &save))
            argv[argc++] = t;
        int handled = 0;
        if(argc > 0) {
            for(int i = 0; handlers[i]; i++) {
                if(handlers[i](argc, argv, stdout)) { handled = 1; break; }
            }
        }
        if(!handled) fputs("bad-op", stdout);
        fputc('\n', stdout);
    }
    free(line);
    return 0;
}
