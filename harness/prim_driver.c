/* Line-protocol driver over the real skeleton functions used by C16. */
#include "hutil.h"
int ops_integer(int argc, char **argv, FILE *out);
int ops_real(int argc, char **argv, FILE *out);
static op_handler_f handlers[] = { ops_integer, ops_real, 0 };
#include "driver_main.h"
