/* C17: line-protocol ops over the real GeneralizedTime / UTCTime helper functions.
 * The process's TZ environment variable decides what localtime_r / mktime do; the python
 * check re-runs this driver under several TZ values. */
#define _GNU_SOURCE
#include "hutil.h"
#include <time.h>
#include <GeneralizedTime.h>
#include <UTCTime.h>

static long long argll(const char *s) { return strtoll(s, 0, 10); }

static void print_tm(FILE *out, const struct tm *tm) {
    fprintf(out, " | %d %d %d %d %d %d %ld", tm->tm_year + 1900, tm->tm_mon + 1, tm->tm_mday,
            tm->tm_hour, tm->tm_min, tm->tm_sec, (long)tm->tm_gmtoff);
}

static void print_text(FILE *out, OCTET_STRING_t *st) {
    if(!st) { fputs("fail", out); return; }
    fputs("ok ", out);
    hx_print(out, st->buf, st->size);
    /* the helpers promise a NUL after the text */
    if(st->buf[st->size] != 0) fputs(" no-nul", out);
    free(st->buf); free(st);
}

int ops_time(int argc, char **argv, FILE *out) {
    const char *op = argv[0];
    if(argc == 2 && !strcmp(op, "tzoff")) {
        time_t t = argll(argv[1]);
        struct tm tm;
        if(!localtime_r(&t, &tm)) fputs("nolocaltime", out);
        else fprintf(out, "%ld", (long)tm.tm_gmtoff);
        return 1;
    }
    /* t2GT <t> <gmtoff-as-reported-by-tzoff> <frac_value> <frac_digits> <force_gmt>;  t2UT <t> <gmtoff> <force_gmt> */
    if((argc == 6 && !strcmp(op, "t2GT")) || (argc == 4 && !strcmp(op, "t2UT"))) {
        time_t t = argll(argv[1]);
        struct tm tm;
        if(!localtime_r(&t, &tm)) { fputs("nolocaltime", out); return 1; }
        if((long)tm.tm_gmtoff != argll(argv[2])) { fprintf(out, "tz-mismatch %ld", (long)tm.tm_gmtoff); return 1; }
        if(op[2] == 'G') print_text(out, asn_time2GT_frac(0, &tm, (int)argll(argv[3]), (int)argll(argv[4]), (int)argll(argv[5])));
        else print_text(out, asn_time2UT(0, &tm, (int)argll(argv[3])));
        return 1;
    }
    /* tm2GT <sec> <min> <hour> <mday> <mon0> <year-1900> <gmtoff> <fv> <fd> <force>;  tm2UT ... <gmtoff> <force> */
    if((argc == 11 && !strcmp(op, "tm2GT")) || (argc == 9 && !strcmp(op, "tm2UT"))) {
        struct tm tm; memset(&tm, 0, sizeof tm);
        tm.tm_sec = argll(argv[1]); tm.tm_min = argll(argv[2]); tm.tm_hour = argll(argv[3]);
        tm.tm_mday = argll(argv[4]); tm.tm_mon = argll(argv[5]); tm.tm_year = argll(argv[6]);
        tm.tm_gmtoff = argll(argv[7]);
        if(op[3] == 'G') print_text(out, asn_time2GT_frac(0, &tm, (int)argll(argv[8]), (int)argll(argv[9]), (int)argll(argv[10])));
        else print_text(out, asn_time2UT(0, &tm, (int)argll(argv[8])));
        return 1;
    }
    /* GT2t <hex-of-text> <as_gmt> <local-zone-offset (model only)>;  UT2t likewise */
    if(argc == 4 && (!strcmp(op, "GT2t") || !strcmp(op, "UT2t"))) {
        OCTET_STRING_t st; memset(&st, 0, sizeof st);
        size_t len; st.buf = hx_parse_exact(argv[1], &len); st.size = len;
        if(!st.buf) { fputs("bad-op", out); return 1; }
        int as_gmt = (int)argll(argv[2]);
        struct tm tm; memset(&tm, 0, sizeof tm);
        int fv = -7, fd = -7;
        time_t t;
        errno = EPERM;
        if(op[0] == 'G') t = asn_GT2time_frac(&st, &fv, &fd, &tm, as_gmt);
        else t = asn_UT2time(&st, &tm, as_gmt);
        if(t == -1 && errno != EPERM) fputs(errno == EINVAL ? "einval" : "fail", out);
        else {
            if(op[0] == 'G') fprintf(out, "ok %lld %d %d", (long long)t, fv, fd);
            else fprintf(out, "ok %lld", (long long)t);
            print_tm(out, &tm);
        }
        free(st.buf);
        return 1;
    }
    /* GT2t_prec <hex-of-text> <frac_digits> <local-zone-offset (model only)> */
    if(argc == 4 && !strcmp(op, "GT2t_prec")) {
        OCTET_STRING_t st; memset(&st, 0, sizeof st);
        size_t len; st.buf = hx_parse_exact(argv[1], &len); st.size = len;
        if(!st.buf) { fputs("bad-op", out); return 1; }
        int fv = -7;
        errno = EPERM;
        time_t t = asn_GT2time_prec(&st, &fv, (int)argll(argv[2]), 0, 1);
        if(t == -1 && errno != EPERM) fputs(errno == EINVAL ? "einval" : "fail", out);
        else fprintf(out, "ok %lld %d", (long long)t, fv);
        free(st.buf);
        return 1;
    }
    return 0;
}
