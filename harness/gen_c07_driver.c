/* Driver for generated modules: C07 operations (encoder API contract) + core operations. */
#include "hutil.h"
int ops_gen_core(int argc, char **argv, FILE *out);
int ops_gen_c07(int argc, char **argv, FILE *out);
static op_handler_f handlers[] = { ops_gen_c07, ops_gen_core, 0 };
#include "driver_main.h"
