/* C08 operations on a generated module: error-buffer size sweep of asn_check_constraints.
 *
 *   @Type errsweep <maxlen> <val>
 *      -> "ok"                                   the value passes (nothing to sweep)
 *      -> "sweep full=<hex> null=<rc> <n>:<rc>:<errlen>:<written hex|-> ..."   for n = 0..maxlen
 *         full    = the complete message obtained with a 1024-byte buffer
 *         null    = return code with errbuf == NULL, errlen == NULL
 *         written = the octets the library stored into an errbuf of exactly n octets
 *                   (malloc(n): ASan sees any write beyond it), i.e. errbuf[0 .. errlen] including the NUL;
 *                   "-" when nothing was written; "!<what>" flags a contract breach seen by this harness.
 */
#include "gen_common.h"

int ops_gen_c08(int argc, char **argv, FILE *out) {
    const char *op = argv[0];
    if(strcmp(op, "errsweep") || argc < 3) return 0;
    if(!cur_td) { fputs("no-type", out); return 1; }
    int maxlen = atoi(argv[1]);
    if(maxlen < 0 || maxlen > 4096) { fputs("bad-op", out); return 1; }
    char *v = gen_join(argc, argv, 2); const char *p = v;
    void *st = rf_load(cur_td, &p, 0);
    if(!st) { fprintf(out, "load-error %s", rf_errmsg); free(v); return 1; }
    char full[1024]; size_t fl = sizeof full;
    int r = asn_check_constraints(cur_td, st, full, &fl);
    if(r == 0) { fputs("ok", out); goto done; }
    fputs("sweep full=", out);
    hx_print(out, (uint8_t *)full, fl < sizeof full ? fl : 0);
    fprintf(out, " null=%d", asn_check_constraints(cur_td, st, 0, 0));
    for(int n = 0; n <= maxlen; n++) {
        char *buf = malloc(n ? n : 1);
        memset(buf, 0x7e, n ? n : 1);
        size_t el = n;
        int rc = asn_check_constraints(cur_td, st, n ? buf : buf /* never dereferenced when n == 0 */, &el);
        fprintf(out, " %d:%d:%zu:", n, rc, el);
        if(n == 0) {
            if(buf[0] != 0x7e) fputs("!written-with-errlen-0", out); else fputc('-', out);
        } else if(el >= (size_t)n) {
            fputs("!errlen-not-below-size", out);
        } else if(buf[el] != 0) {
            fputs("!not-terminated", out);
        } else if(strlen(buf) != el) {
            fputs("!embedded-nul", out);
        } else {
            hx_print(out, (uint8_t *)buf, el + 1);
            for(size_t i = el + 1; i < (size_t)n; i++)
                if(buf[i] != 0x7e) { fputs("!wrote-past-nul", out); break; }
        }
        free(buf);
    }
done:
    ASN_STRUCT_FREE(*cur_td, st); free(v);
    return 1;
}
