/* Line-protocol driver over the real UPER/OER primitive functions (L1: asn_bit_data.c, per_support.c, oer_support.c). */
#include "hutil.h"
int ops_per(int argc, char **argv, FILE *out);
static op_handler_f handlers[] = { ops_per, 0 };
#include "driver_main.h"
