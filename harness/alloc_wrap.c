/* Allocation ledger for C14/C15: interposes malloc/calloc/realloc/free of every object linked with
 *   -Wl,--wrap=malloc -Wl,--wrap=calloc -Wl,--wrap=realloc -Wl,--wrap=free
 * (libskel.a, the generated module and the harness itself; libc/ASan internals are not affected).
 *
 * While `lg_enabled` is set (the harness sets it only around calls into the library):
 *   - every allocation gets the next id (1,2,3,...) and is entered into the block table;
 *   - the k-th allocation counted from lg_arm(k) returns NULL (allocation failure), once;
 *   - free() of a block that the table knows as already released is counted as a double free and is
 *     NOT passed on (the process stays alive so that the line can report it);
 *   - free() of a pointer the table has never seen is counted as `foreign`.
 * Blocks known to the table are tracked through free()/realloc() even while the ledger is disabled
 * (the harness releases e.g. the buffer returned by asn_encode_to_new_buffer).
 * Every event is appended to a textual trace: a<id>:<size>  f<id>  r<old>:<new>:<size>  x (failed allocation)
 *   F<id> = double free of block <id>,  U = free of an unknown pointer.
 */
#include "alloc_wrap.h"
#include <string.h>
#include <stdio.h>

void *__real_malloc(size_t);
void *__real_calloc(size_t, size_t);
void *__real_realloc(void *, size_t);
void __real_free(void *);

typedef struct { void *ptr; size_t size; long id; int live; } lg_block_t;

#define LG_MAXBLOCKS (1 << 17)
static lg_block_t lg_tab[LG_MAXBLOCKS];
static int lg_ntab;
int lg_enabled;
static long lg_next_id;            /* ids handed out so far */
static long lg_allocs;             /* allocation attempts counted while enabled (successful or failed) */
static long lg_fail_at = -1;       /* absolute attempt number that must fail, -1 = none */
static long lg_failed;             /* failures injected */
static long lg_doublefree, lg_foreign, lg_overflow;
static char *lg_trace; static size_t lg_tlen, lg_tcap;
static int lg_trace_on = 1;

static void tr(const char *s) {
    if(!lg_trace_on) return;
    size_t n = strlen(s);
    if(lg_tlen + n + 2 > lg_tcap) {
        size_t nc = lg_tcap ? lg_tcap * 2 : 4096;
        while(nc < lg_tlen + n + 2) nc *= 2;
        char *p = __real_realloc(lg_trace, nc);
        if(!p) return;
        lg_trace = p; lg_tcap = nc;
    }
    if(lg_tlen) lg_trace[lg_tlen++] = ',';
    memcpy(lg_trace + lg_tlen, s, n + 1); lg_tlen += n;
}

static lg_block_t *find(void *p) {
    for(int i = lg_ntab - 1; i >= 0; i--) if(lg_tab[i].ptr == p) return &lg_tab[i];
    return 0;
}

void lg_reset(void) {
    lg_ntab = 0; lg_enabled = 0; lg_next_id = 0; lg_allocs = 0; lg_fail_at = -1; lg_failed = 0;
    lg_doublefree = lg_foreign = lg_overflow = 0; lg_tlen = 0;
    if(lg_trace) lg_trace[0] = 0;
}
void lg_set_trace(int on) { lg_trace_on = on; }
void lg_arm(long k) { lg_fail_at = k > 0 ? lg_allocs + k : -1; }
void lg_disarm(void) { lg_fail_at = -1; }
long lg_alloc_count(void) { return lg_allocs; }
long lg_failed_count(void) { return lg_failed; }
long lg_doublefree_count(void) { return lg_doublefree; }
long lg_foreign_count(void) { return lg_foreign; }
long lg_overflow_count(void) { return lg_overflow; }
const char *lg_trace_text(void) { return lg_tlen ? lg_trace : "-"; }
size_t lg_trace_mark(void) { return lg_tlen; }
const char *lg_trace_from(size_t mark) {
    if(mark >= lg_tlen) return "-";
    return lg_trace + mark + (mark ? 1 : 0);
}
void lg_live(long *count, size_t *bytes) {
    long c = 0; size_t b = 0;
    for(int i = 0; i < lg_ntab; i++) if(lg_tab[i].live) { c++; b += lg_tab[i].size; }
    *count = c; *bytes = b;
}
long lg_live_ids(long *buf, long cap) {
    long n = 0;
    for(int i = 0; i < lg_ntab; i++) if(lg_tab[i].live && n < cap) buf[n++] = lg_tab[i].id;
    /* insertion sort: entries are nearly sorted already */
    for(long i = 1; i < n; i++) { long v = buf[i], j = i; while(j > 0 && buf[j - 1] > v) { buf[j] = buf[j - 1]; j--; } buf[j] = v; }
    return n;
}
long lg_id_of(const void *p) {
    lg_block_t *b = find((void *)p);
    return (b && b->live) ? b->id : 0;
}
long lg_id_containing(const void *p) {
    for(int i = lg_ntab - 1; i >= 0; i--)
        if(lg_tab[i].live && (const char *)p >= (const char *)lg_tab[i].ptr
           && (const char *)p < (const char *)lg_tab[i].ptr + (lg_tab[i].size ? lg_tab[i].size : 1))
            return lg_tab[i].id;
    return 0;
}
/* release whatever is still live (after it has been reported) so that LeakSanitizer stays quiet */
void lg_release_leaks(void) {
    for(int i = 0; i < lg_ntab; i++) if(lg_tab[i].live) { lg_tab[i].live = 0; __real_free(lg_tab[i].ptr); }
}

static int must_fail(void) {
    lg_allocs++;
    if(lg_fail_at >= 0 && lg_allocs == lg_fail_at) { lg_fail_at = -1; lg_failed++; tr("x"); return 1; }
    return 0;
}
static void enter(void *p, size_t size, long old_id) {
    char b[64];
    lg_block_t *e = find(p);
    if(!e) {
        if(lg_ntab >= LG_MAXBLOCKS) { lg_overflow++; return; }
        e = &lg_tab[lg_ntab++];
    }
    e->ptr = p; e->size = size; e->id = ++lg_next_id; e->live = 1;
    if(old_id) snprintf(b, sizeof b, "r%ld:%ld:%zu", old_id, e->id, size);
    else snprintf(b, sizeof b, "a%ld:%zu", e->id, size);
    tr(b);
}

void *__wrap_malloc(size_t n) {
    if(!lg_enabled) return __real_malloc(n);
    if(must_fail()) return 0;
    void *p = __real_malloc(n);
    if(p) enter(p, n, 0);
    return p;
}
void *__wrap_calloc(size_t a, size_t b) {
    if(!lg_enabled) return __real_calloc(a, b);
    if(must_fail()) return 0;
    void *p = __real_calloc(a, b);
    if(p) enter(p, a * b, 0);
    return p;
}
void __wrap_free(void *p) {
    char b[32];
    if(!p) return;
    lg_block_t *e = find(p);
    if(e && e->live) {
        e->live = 0;
        snprintf(b, sizeof b, "f%ld", e->id); tr(b);
        __real_free(p);
        return;
    }
    if(e && !e->live && lg_enabled) {      /* released before, address not handed out again since */
        lg_doublefree++;
        snprintf(b, sizeof b, "F%ld", e->id); tr(b);
        return;
    }
    if(lg_enabled) { lg_foreign++; tr("U"); }
    __real_free(p);
}
void *__wrap_realloc(void *old, size_t n) {
    lg_block_t *e = old ? find(old) : 0;
    if(!lg_enabled && !(e && e->live)) return __real_realloc(old, n);
    if(old && n == 0) { __wrap_free(old); return 0; }          /* realloc(p, 0) releases p */
    if(lg_enabled && must_fail()) return 0;
    if(old && !(e && e->live)) {
        if(e) { lg_doublefree++; tr("F0"); return 0; }         /* realloc of a released block */
        lg_foreign++; tr("U");
        return __real_realloc(old, n);
    }
    void *p = __real_realloc(old, n);
    if(!p) return 0;                                           /* old block untouched */
    long old_id = e ? e->id : 0;
    if(e) e->live = 0;            /* the old block is gone whether or not the address changed */
    enter(p, n, old_id);
    return p;
}
