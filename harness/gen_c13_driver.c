/* Driver for generated modules: core operations + C13 operations (xdec, xdescr). */
#include "hutil.h"
int ops_gen_core(int argc, char **argv, FILE *out);
int ops_gen_c13(int argc, char **argv, FILE *out);
static op_handler_f handlers[] = { ops_gen_c13, ops_gen_core, 0 };
#include "driver_main.h"
