#include "reflect.h"
#include <BOOLEAN.h>
#include <NULL.h>
#include <INTEGER.h>
#include <NativeInteger.h>
#include <ENUMERATED.h>
#include <NativeEnumerated.h>
#include <REAL.h>
#include <NativeReal.h>
#include <OCTET_STRING.h>
#include <BIT_STRING.h>
#include <OBJECT_IDENTIFIER.h>
#include <RELATIVE-OID.h>
#include <ANY.h>
#include <OPEN_TYPE.h>
#include <constr_SEQUENCE.h>
#include <constr_SET.h>
#include <constr_CHOICE.h>
#include <constr_SET_OF.h>
#include <constr_SEQUENCE_OF.h>
#include <asn_SET_OF.h>
#include <ctype.h>

char rf_errmsg[256];

rf_kind_t rf_kind(const asn_TYPE_descriptor_t *td) {
    const asn_TYPE_operation_t *op = td->op;
    if(op == &asn_OP_SEQUENCE) return K_SEQUENCE;
    if(op == &asn_OP_SET) return K_SET;
    if(op == &asn_OP_CHOICE) return K_CHOICE;
    if(op == &asn_OP_SET_OF) return K_SETOF;
    if(op == &asn_OP_SEQUENCE_OF) return K_SEQOF;
    if(op == &asn_OP_BOOLEAN) return K_BOOLEAN;
    if(op == &asn_OP_NULL) return K_NULL;
    if(op == &asn_OP_NativeInteger) return K_NINT;
    if(op == &asn_OP_INTEGER) return K_INT;
    if(op == &asn_OP_NativeEnumerated) return K_NENUM;
    if(op == &asn_OP_ENUMERATED) return K_ENUM;
    if(op == &asn_OP_NativeReal) return K_NREAL;
    if(op == &asn_OP_REAL) return K_REAL;
    if(op == &asn_OP_OPEN_TYPE) return K_OPEN;
    if(op == &asn_OP_ANY) return K_ANY;
    if(op == &asn_OP_BIT_STRING) return K_BITS;
    if(op == &asn_OP_OBJECT_IDENTIFIER || op == &asn_OP_RELATIVE_OID) return K_PRIM;
    if(op->free_struct == OCTET_STRING_free) {
        const asn_OCTET_STRING_specifics_t *sp = td->specifics;
        if(sp && sp->subvariant == ASN_OSUBV_BIT) return K_BITS;
        return K_OCTETS;
    }
    return K_UNKNOWN;
}

const char *rf_kind_name(rf_kind_t k) {
    static const char *n[] = {"boolean", "null", "nint", "int", "nenum", "enum", "nreal", "real", "octets",
                              "bits", "prim", "sequence", "set", "choice", "setof", "seqof", "any", "open", "unknown"};
    return n[k];
}

asn_TYPE_descriptor_t *rf_find_type(const char *name) {
    for(int i = 0; verif_types[i]; i++)
        if(strcmp(verif_type_names[i], name) == 0) return verif_types[i];
    return NULL;
}

static size_t rf_struct_size(const asn_TYPE_descriptor_t *td) {
    switch(rf_kind(td)) {
    case K_BOOLEAN: return sizeof(BOOLEAN_t);
    case K_NULL: return sizeof(NULL_t);
    case K_NINT: case K_NENUM: return sizeof(long);
    case K_INT: case K_ENUM: case K_REAL: case K_PRIM: return sizeof(INTEGER_t);
    case K_NREAL: {
        const asn_NativeReal_specifics_t *sp = td->specifics;
        return (sp && sp->float_size == sizeof(float)) ? sizeof(float) : sizeof(double);
    }
    case K_OCTETS: case K_BITS: {
        const asn_OCTET_STRING_specifics_t *sp = td->specifics;
        if(sp) return sp->struct_size;
        return rf_kind(td) == K_BITS ? sizeof(BIT_STRING_t) : sizeof(OCTET_STRING_t);
    }
    case K_ANY: return sizeof(ANY_t);
    case K_SEQUENCE: return ((const asn_SEQUENCE_specifics_t *)td->specifics)->struct_size;
    case K_SET: return ((const asn_SET_specifics_t *)td->specifics)->struct_size;
    case K_CHOICE: case K_OPEN: return ((const asn_CHOICE_specifics_t *)td->specifics)->struct_size;
    case K_SETOF: case K_SEQOF: return ((const asn_SET_OF_specifics_t *)td->specifics)->struct_size;
    default: return 0;
    }
}

/* ------------------------------------------------------------------ tokenizer */
static void skipws(const char **pp) { while(**pp == ' ') (*pp)++; }
static int expect(const char **pp, char c) {
    skipws(pp);
    if(**pp != c) { snprintf(rf_errmsg, sizeof rf_errmsg, "expected '%c' at '%.20s'", c, *pp); return -1; }
    (*pp)++;
    return 0;
}
/* reads an atom (up to space or paren) into buf */
static int atom(const char **pp, char *buf, size_t cap) {
    skipws(pp);
    size_t n = 0;
    while(**pp && **pp != ' ' && **pp != '(' && **pp != ')') {
        if(n + 1 >= cap) { snprintf(rf_errmsg, sizeof rf_errmsg, "atom too long"); return -1; }
        buf[n++] = *(*pp)++;
    }
    buf[n] = 0;
    if(n == 0) { snprintf(rf_errmsg, sizeof rf_errmsg, "expected atom at '%.20s'", *pp); return -1; }
    return 0;
}
/* atom of unbounded length (hex strings): returns malloc'ed copy */
static char *atom_dyn(const char **pp) {
    skipws(pp);
    const char *s = *pp;
    while(**pp && **pp != ' ' && **pp != '(' && **pp != ')') (*pp)++;
    size_t n = *pp - s;
    if(n == 0) { snprintf(rf_errmsg, sizeof rf_errmsg, "expected atom at '%.20s'", s); return NULL; }
    char *r = malloc(n + 1);
    memcpy(r, s, n); r[n] = 0;
    return r;
}

static int set_prim_buf(uint8_t **bufp, size_t *sizep, const char **pp) {
    char *h = atom_dyn(pp);
    if(!h) return -1;
    size_t len; uint8_t *b = hx_parse(h, &len);   /* NUL-terminated like the decoders do */
    free(h);
    if(!b) { snprintf(rf_errmsg, sizeof rf_errmsg, "bad hex"); return -1; }
    *bufp = b; *sizep = len;
    return 0;
}

/* minimal two's complement octets of a 128-bit integer */
static void int_to_octets(__int128 v, uint8_t **bufp, size_t *sizep) {
    uint8_t tmp[17];
    for(int i = 0; i < 16; i++) tmp[i] = (uint8_t)((unsigned __int128)v >> (8 * (15 - i)));
    int s = 0;
    while(s < 15 && ((tmp[s] == 0x00 && !(tmp[s + 1] & 0x80)) || (tmp[s] == 0xff && (tmp[s + 1] & 0x80)))) s++;
    size_t n = 16 - s;
    uint8_t *b = calloc(1, n + 1);
    memcpy(b, tmp + s, n);
    *bufp = b; *sizep = n;
}
static int parse_i128(const char *s, __int128 *out) {
    int neg = 0; __int128 v = 0;
    if(*s == '-') { neg = 1; s++; }
    if(!*s) return -1;
    for(; *s; s++) { if(!isdigit((unsigned char)*s)) return -1; v = v * 10 + (*s - '0'); }
    *out = neg ? -v : v;
    return 0;
}
static void print_i128(FILE *out, __int128 v) {
    if(v < 0) { fputc('-', out); }
    unsigned __int128 u = v < 0 ? -(unsigned __int128)v : (unsigned __int128)v;
    char buf[48]; int n = 0;
    if(u == 0) buf[n++] = '0';
    while(u) { buf[n++] = '0' + (int)(u % 10); u /= 10; }
    while(n) fputc(buf[--n], out);
}

static void *member_slot(const asn_TYPE_member_t *elm, void *st, int create) {
    /* returns pointer to the member structure, allocating it when it is an ATF_POINTER member */
    if(elm->flags & ATF_POINTER) {
        void **pp = (void **)((char *)st + elm->memb_offset);
        if(!*pp && create) *pp = calloc(1, rf_struct_size(elm->type));
        return *pp;
    }
    return (char *)st + elm->memb_offset;
}

static int find_member(const asn_TYPE_descriptor_t *td, const char *name) {
    for(unsigned i = 0; i < td->elements_count; i++)
        if(strcmp(td->elements[i].name, name) == 0) return (int)i;
    return -1;
}

static void choice_set_present(const asn_TYPE_descriptor_t *td, void *st, unsigned present) {
    const asn_CHOICE_specifics_t *sp = td->specifics;
    void *p = (char *)st + sp->pres_offset;
    switch(sp->pres_size) {
    case sizeof(int): *(unsigned int *)p = present; break;
    case sizeof(short): *(unsigned short *)p = present; break;
    case sizeof(char): *(unsigned char *)p = present; break;
    default: abort();
    }
}
static unsigned choice_get_present(const asn_TYPE_descriptor_t *td, const void *st) {
    const asn_CHOICE_specifics_t *sp = td->specifics;
    const void *p = (const char *)st + sp->pres_offset;
    switch(sp->pres_size) {
    case sizeof(int): return *(const unsigned int *)p;
    case sizeof(short): return *(const unsigned short *)p;
    case sizeof(char): return *(const unsigned char *)p;
    default: abort();
    }
}

static int load_into(const asn_TYPE_descriptor_t *td, const char **pp, void *st);

void *rf_load(const asn_TYPE_descriptor_t *td, const char **pp, void *into) {
    size_t sz = rf_struct_size(td);
    if(sz == 0) { snprintf(rf_errmsg, sizeof rf_errmsg, "unsupported kind for %s", td->name); return NULL; }
    void *st = into ? into : calloc(1, sz);
    if(load_into(td, pp, st) != 0) {
        if(!into) ASN_STRUCT_FREE(*td, st);
        return NULL;
    }
    return st;
}

static int load_into(const asn_TYPE_descriptor_t *td, const char **pp, void *st) {
    char head[64], a[128];
    if(expect(pp, '(')) return -1;
    if(atom(pp, head, sizeof head)) return -1;
    rf_kind_t k = rf_kind(td);
#define BADHEAD() do { snprintf(rf_errmsg, sizeof rf_errmsg, "value form '%s' does not fit kind %s of %s", head, rf_kind_name(k), td->name); return -1; } while(0)
    switch(k) {
    case K_BOOLEAN:
        if(strcmp(head, "bool")) BADHEAD();
        if(atom(pp, a, sizeof a)) return -1;
        /* any non-zero int is TRUE in memory; "t" loads 1, a number loads that number */
        *(BOOLEAN_t *)st = !strcmp(a, "t") ? 1 : !strcmp(a, "f") ? 0 : atoi(a);
        break;
    case K_NULL:
        if(strcmp(head, "null")) BADHEAD();
        *(NULL_t *)st = 0;
        break;
    case K_NINT: case K_NENUM: {
        if(strcmp(head, "int") && strcmp(head, "enum")) BADHEAD();
        if(atom(pp, a, sizeof a)) return -1;
        __int128 v; if(parse_i128(a, &v)) { snprintf(rf_errmsg, sizeof rf_errmsg, "bad int"); return -1; }
        const asn_INTEGER_specifics_t *sp = td->specifics;
        if(sp && sp->field_unsigned) *(unsigned long *)st = (unsigned long)v;
        else *(long *)st = (long)v;
        break;
    }
    case K_INT: case K_ENUM: {
        INTEGER_t *i = st;
        if(!strcmp(head, "int-octets")) { if(set_prim_buf(&i->buf, &i->size, pp)) return -1; break; }
        if(strcmp(head, "int") && strcmp(head, "enum")) BADHEAD();
        if(atom(pp, a, sizeof a)) return -1;
        __int128 v; if(parse_i128(a, &v)) { snprintf(rf_errmsg, sizeof rf_errmsg, "bad int"); return -1; }
        int_to_octets(v, &i->buf, &i->size);
        break;
    }
    case K_NREAL: case K_REAL: {
        if(!strcmp(head, "real-octets") && k == K_REAL) { REAL_t *r = st; if(set_prim_buf(&r->buf, &r->size, pp)) return -1; break; }
        if(strcmp(head, "real")) BADHEAD();
        if(atom(pp, a, sizeof a)) return -1;
        uint64_t bits = strtoull(a, 0, 16); double d; memcpy(&d, &bits, 8);
        if(k == K_NREAL) {
            if(rf_struct_size(td) == sizeof(float)) *(float *)st = (float)d; else *(double *)st = d;
        } else {
            if(asn_double2REAL((REAL_t *)st, d)) { snprintf(rf_errmsg, sizeof rf_errmsg, "double2REAL failed"); return -1; }
        }
        break;
    }
    case K_OCTETS: case K_ANY: {
        if(strcmp(head, "os") && strcmp(head, "str") && strcmp(head, "time") && strcmp(head, "any")) BADHEAD();
        OCTET_STRING_t *o = st;
        if(set_prim_buf(&o->buf, &o->size, pp)) return -1;
        break;
    }
    case K_BITS: {
        if(strcmp(head, "bs")) BADHEAD();
        BIT_STRING_t *b = st;
        if(set_prim_buf(&b->buf, &b->size, pp)) return -1;
        if(atom(pp, a, sizeof a)) return -1;
        b->bits_unused = atoi(a);
        break;
    }
    case K_PRIM: {
        if(strcmp(head, "oid") && strcmp(head, "roid")) BADHEAD();
        ASN__PRIMITIVE_TYPE_t *p = st;
        if(set_prim_buf(&p->buf, &p->size, pp)) return -1;
        break;
    }
    case K_SEQUENCE: case K_SET: {
        if(strcmp(head, "seq") && strcmp(head, "set")) BADHEAD();
        for(;;) {
            skipws(pp);
            if(**pp == ')') break;
            if(expect(pp, '(')) return -1;
            if(atom(pp, a, sizeof a)) return -1;
            int idx = find_member(td, a);
            if(idx < 0) { snprintf(rf_errmsg, sizeof rf_errmsg, "no member %s in %s", a, td->name); return -1; }
            const asn_TYPE_member_t *elm = &td->elements[idx];
            void *ms = member_slot(elm, st, 1);
            if(load_into(elm->type, pp, ms)) return -1;
            if(expect(pp, ')')) return -1;
            if(k == K_SET) {
                const asn_SET_specifics_t *sp = td->specifics;
                ASN_SET_MKPRESENT((char *)st + sp->pres_offset, idx);
            }
        }
        break;
    }
    case K_CHOICE: case K_OPEN: {     /* open type member (C18): CHOICE-like storage, form (open <row> <val>) */
        if(strcmp(head, k == K_OPEN ? "open" : "choice")) BADHEAD();
        if(atom(pp, a, sizeof a)) return -1;
        if(!strcmp(a, "-none")) { choice_set_present(td, st, 0); break; }      /* unselected CHOICE */
        if(!strcmp(a, "-bad")) { choice_set_present(td, st, td->elements_count + 5); break; }
        int idx = find_member(td, a);
        if(idx < 0) { snprintf(rf_errmsg, sizeof rf_errmsg, "no alternative %s in %s", a, td->name); return -1; }
        const asn_TYPE_member_t *elm = &td->elements[idx];
        choice_set_present(td, st, idx + 1);
        void *ms = member_slot(elm, st, 1);
        if(load_into(elm->type, pp, ms)) return -1;
        break;
    }
    case K_SETOF: case K_SEQOF: {
        if(strcmp(head, "list")) BADHEAD();
        const asn_TYPE_member_t *elm = &td->elements[0];
        for(;;) {
            skipws(pp);
            if(**pp == ')') break;
            void *es = calloc(1, rf_struct_size(elm->type));
            if(load_into(elm->type, pp, es)) { ASN_STRUCT_FREE(*elm->type, es); return -1; }
            if(ASN_SET_ADD(st, es)) { snprintf(rf_errmsg, sizeof rf_errmsg, "asn_set_add failed"); return -1; }
        }
        break;
    }
    default:
        snprintf(rf_errmsg, sizeof rf_errmsg, "kind %s of %s not loadable", rf_kind_name(k), td->name);
        return -1;
    }
    return expect(pp, ')');
}

/* ------------------------------------------------------------------ dumper */
static __int128 octets_to_i128(const uint8_t *b, size_t n, int *fits) {
    /* strip redundant leading octets first */
    while(n > 1 && ((b[0] == 0 && !(b[1] & 0x80)) || (b[0] == 0xff && (b[1] & 0x80)))) { b++; n--; }
    if(n > 16) { *fits = 0; return 0; }
    *fits = 1;
    if(n == 0) return 0;
    unsigned __int128 u = (b[0] & 0x80) ? ~(unsigned __int128)0 : 0;
    for(size_t i = 0; i < n; i++) u = (u << 8) | b[i];
    return (__int128)u;
}

void rf_dump(const asn_TYPE_descriptor_t *td, const void *st, FILE *out) {
    rf_kind_t k = rf_kind(td);
    if(!st) { fputs("(nullptr)", out); return; }
    switch(k) {
    case K_BOOLEAN: fprintf(out, "(bool %s)", *(const BOOLEAN_t *)st ? "t" : "f"); break;
    case K_NULL: fputs("(null)", out); break;
    case K_NINT: case K_NENUM: {
        const asn_INTEGER_specifics_t *sp = td->specifics;
        if(sp && sp->field_unsigned) fprintf(out, "(%s %lu)", k == K_NINT ? "int" : "enum", *(const unsigned long *)st);
        else fprintf(out, "(%s %ld)", k == K_NINT ? "int" : "enum", *(const long *)st);
        break;
    }
    case K_INT: case K_ENUM: {
        const INTEGER_t *i = st;
        int fits; __int128 v = octets_to_i128(i->buf, i->buf ? i->size : 0, &fits);
        if(!i->buf) { fputs("(int-nobuf)", out); break; }
        if(fits) { fprintf(out, "(%s ", k == K_INT ? "int" : "enum"); print_i128(out, v); fputc(')', out); }
        else { fputs("(int-octets ", out); hx_print(out, i->buf, i->size); fputc(')', out); }
        break;
    }
    case K_NREAL: {
        double d = rf_struct_size(td) == sizeof(float) ? (double)*(const float *)st : *(const double *)st;
        uint64_t bits; memcpy(&bits, &d, 8);
        if(d != d) fputs("(real nan)", out); else fprintf(out, "(real %016" PRIx64 ")", bits);
        break;
    }
    case K_REAL: {
        const REAL_t *r = st; double d;
        if(!r->buf || asn_REAL2double(r, &d)) { fputs("(real-octets ", out); hx_print(out, r->buf, r->buf ? r->size : 0); fputc(')', out); break; }
        uint64_t bits; memcpy(&bits, &d, 8);
        if(d != d) fputs("(real nan)", out); else fprintf(out, "(real %016" PRIx64 ")", bits);
        break;
    }
    case K_OCTETS: case K_ANY: {
        const OCTET_STRING_t *o = st;
        fputs(k == K_ANY ? "(any " : "(os ", out); hx_print(out, o->buf, o->buf ? o->size : 0); fputc(')', out);
        break;
    }
    case K_BITS: {
        const BIT_STRING_t *b = st;
        fputs("(bs ", out); hx_print(out, b->buf, b->buf ? b->size : 0); fprintf(out, " %d)", b->bits_unused);
        break;
    }
    case K_PRIM: {
        const ASN__PRIMITIVE_TYPE_t *p = st;
        fputs("(oid ", out); hx_print(out, p->buf, p->buf ? p->size : 0); fputc(')', out);
        break;
    }
    case K_SEQUENCE: case K_SET: {
        fputs(k == K_SEQUENCE ? "(seq" : "(set", out);
        for(unsigned i = 0; i < td->elements_count; i++) {
            const asn_TYPE_member_t *elm = &td->elements[i];
            const void *ms;
            if(elm->flags & ATF_POINTER) {
                ms = *(const void *const *)((const char *)st + elm->memb_offset);
                if(!ms) continue;
            } else ms = (const char *)st + elm->memb_offset;
            if(k == K_SET) {
                const asn_SET_specifics_t *sp = td->specifics;
                if(!ASN_SET_ISPRESENT2((const char *)st + sp->pres_offset, i)) continue;
            }
            fprintf(out, " (%s ", elm->name);
            rf_dump(elm->type, ms, out);
            fputc(')', out);
        }
        fputc(')', out);
        break;
    }
    case K_CHOICE: case K_OPEN: {
        unsigned present = choice_get_present(td, st);
        if(present == 0 || present > td->elements_count) { fprintf(out, "(%s -none)", k == K_OPEN ? "open" : "choice"); break; }
        const asn_TYPE_member_t *elm = &td->elements[present - 1];
        const void *ms = (elm->flags & ATF_POINTER) ? *(const void *const *)((const char *)st + elm->memb_offset)
                                                    : (const void *)((const char *)st + elm->memb_offset);
        fprintf(out, "(%s %s ", k == K_OPEN ? "open" : "choice", elm->name);
        rf_dump(elm->type, ms, out);
        fputc(')', out);
        break;
    }
    case K_SETOF: case K_SEQOF: {
        const asn_anonymous_set_ *list = _A_CSET_FROM_VOID(st);
        fputs("(list", out);
        for(int i = 0; i < list->count; i++) { fputc(' ', out); rf_dump(td->elements[0].type, list->array[i], out); }
        fputc(')', out);
        break;
    }
    default: fprintf(out, "(unsupported %s)", rf_kind_name(k));
    }
}

/* ------------------------------------------------------------------ descriptor dump */
static void dump_tags(FILE *out, const ber_tlv_tag_t *t, unsigned n) {
    fputc('(', out);
    for(unsigned i = 0; i < n; i++) fprintf(out, "%s%u:%u", i ? " " : "", (unsigned)(t[i] & 3), (unsigned)(t[i] >> 2));
    fputc(')', out);
}
static void dump_per(FILE *out, const asn_per_constraint_t *c) {
    fprintf(out, "(%d %d %d %ld %ld)", (int)c->flags, c->range_bits, c->effective_bits, c->lower_bound, c->upper_bound);
}
static void dump_ec(FILE *out, const asn_encoding_constraints_t *ec) {
    fputs("(per ", out);
    if(ec->per_constraints) { dump_per(out, &ec->per_constraints->value); dump_per(out, &ec->per_constraints->size); } else fputs("-", out);
    fputs(") (oer ", out);
    if(ec->oer_constraints) fprintf(out, "%u %u %ld", ec->oer_constraints->value.width, ec->oer_constraints->value.positive, (long)ec->oer_constraints->size);
    else fputs("-", out);
    fputc(')', out);
}

static const asn_TYPE_descriptor_t *seen[512];
static int nseen;

static void dump_descr1(const asn_TYPE_descriptor_t *td, FILE *out) {
    for(int i = 0; i < nseen; i++) if(seen[i] == td) { fprintf(out, "(ref %s)", td->name); return; }
    if(nseen < 512) seen[nseen++] = td;
    rf_kind_t k = rf_kind(td);
    fprintf(out, "(type %s %s (tags ", td->name[0] ? td->name : "-", rf_kind_name(k));
    dump_tags(out, td->tags, td->tags_count);
    fputs(") (alltags ", out);
    dump_tags(out, td->all_tags, td->all_tags_count);
    fputs(") ", out);
    dump_ec(out, &td->encoding_constraints);
    switch(k) {
    case K_SEQUENCE: {
        const asn_SEQUENCE_specifics_t *sp = td->specifics;
        fprintf(out, " (spec first_ext=%d roms=%u aoms=%u oms=(", sp->first_extension, sp->roms_count, sp->aoms_count);
        for(unsigned i = 0; i < sp->roms_count + sp->aoms_count; i++) fprintf(out, "%s%d", i ? " " : "", sp->oms[i]);
        fputs(") t2e=(", out);
        for(unsigned i = 0; i < sp->tag2el_count; i++)
            fprintf(out, "%s%u:%u>%u/%d/%d", i ? " " : "", (unsigned)(sp->tag2el[i].el_tag & 3), (unsigned)(sp->tag2el[i].el_tag >> 2),
                    sp->tag2el[i].el_no, sp->tag2el[i].toff_first, sp->tag2el[i].toff_last);
        fputs("))", out);
        break;
    }
    case K_SET: {
        const asn_SET_specifics_t *sp = td->specifics;
        fprintf(out, " (spec ext=%d t2e=(", sp->extensible);
        for(unsigned i = 0; i < sp->tag2el_count; i++)
            fprintf(out, "%s%u:%u>%u", i ? " " : "", (unsigned)(sp->tag2el[i].el_tag & 3), (unsigned)(sp->tag2el[i].el_tag >> 2), sp->tag2el[i].el_no);
        fputs("))", out);
        break;
    }
    case K_CHOICE: {
        const asn_CHOICE_specifics_t *sp = td->specifics;
        fprintf(out, " (spec ext_start=%d t2e=(", sp->ext_start);
        for(unsigned i = 0; i < sp->tag2el_count; i++)
            fprintf(out, "%s%u:%u>%u", i ? " " : "", (unsigned)(sp->tag2el[i].el_tag & 3), (unsigned)(sp->tag2el[i].el_tag >> 2), sp->tag2el[i].el_no);
        fputs(") to_canon=(", out);
        if(sp->to_canonical_order) for(unsigned i = 0; i < td->elements_count; i++) fprintf(out, "%s%u", i ? " " : "", sp->to_canonical_order[i]);
        fputs(") from_canon=(", out);
        if(sp->from_canonical_order) for(unsigned i = 0; i < td->elements_count; i++) fprintf(out, "%s%u", i ? " " : "", sp->from_canonical_order[i]);
        fputs("))", out);
        break;
    }
    case K_NINT: case K_INT: case K_NENUM: case K_ENUM: {
        const asn_INTEGER_specifics_t *sp = td->specifics;
        if(sp) {
            fprintf(out, " (spec unsigned=%d strict=%d ext=%d map=(", sp->field_unsigned, sp->strict_enumeration, sp->extension);
            for(int i = 0; i < sp->map_count; i++) fprintf(out, "%s%ld:%s", i ? " " : "", sp->value2enum[i].nat_value, sp->value2enum[i].enum_name);
            fputs("))", out);
        }
        break;
    }
    default: break;
    }
    fputs(" (members", out);
    for(unsigned i = 0; i < td->elements_count; i++) {
        const asn_TYPE_member_t *e = &td->elements[i];
        fprintf(out, " (m %s flags=%d opt=%u tag=%u:%u mode=%d default=%d ", e->name[0] ? e->name : "-", (int)e->flags, e->optional,
                (unsigned)(e->tag & 3), (unsigned)(e->tag >> 2), e->tag_mode, e->default_value_cmp ? 1 : 0);
        dump_ec(out, &e->encoding_constraints);
        fputc(' ', out);
        dump_descr1(e->type, out);
        fputc(')', out);
    }
    fputs("))", out);
}

void rf_dump_descr(const asn_TYPE_descriptor_t *td, FILE *out) {
    nseen = 0;
    dump_descr1(td, out);
}
