/* C19 thread driver (linked into a Bundle built with -fsanitize=thread).
 *
 *   driver <script> <seed> <reps> <N1,N2,...>
 *
 * <script>: one job per line  `<Type> <syntax>[:nocheck] <value-sexp>`  (syntax: der|uper|oer|xer|cxer).
 * A job = load the value (rf_load) -> asn_encode_to_new_buffer -> asn_decode of the produced bytes ->
 * asn_check_constraints -> asn_fprint into an open_memstream -> compare_struct -> re-encode the decoded
 * structure -> free both.  Every return code and every produced byte goes into a 64-bit FNV-1a digest.
 *
 * Phase 0 (main thread, alone): every job twice -> reference digest; a job whose two alone-runs differ is
 *   reported as `nondet` and excluded (its digest is not a function of the job).
 * Phase 1, for every N in the list, `reps` repetitions, all threads released together by a barrier:
 *   even repetition r: the jobs are dealt out, thread i runs the jobs j with (j + r) % N == i;
 *   odd  repetition r: every thread runs ALL jobs (rotated start), i.e. N distinct structures of the very
 *                      same type are encoded/decoded/printed/freed at the same time.
 *   Between library calls each thread consults its own PRNG (seeded from <seed>, N, r, i) and either goes
 *   on, sched_yield()s, nanosleeps 0-40us or spins, so every run explores a different interleaving.
 *
 * Output: `ref job=<j> type=<T> syn=<s> digest=<hex>` for the first two jobs (samples for the evidence file),
 * one line per mismatch (at most 20)
 *   mismatch job=<j> type=<T> syn=<s> threads=<N> rep=<r> thread=<i> got=<hex> want=<hex>
 * then per N:  done jobs=<n> threads=<N> reps=<R> executed=<e> mismatches=<m> nondet=<k> loaderr=<l>
 * ThreadSanitizer reports go to stderr (TSAN_OPTIONS=halt_on_error=0:exitcode=66).
 */
#define _GNU_SOURCE
#include "reflect.h"
#include <pthread.h>
#include <sched.h>
#include <time.h>

typedef struct {
    asn_TYPE_descriptor_t *td;
    char *type, *syn, *val;
    enum asn_transfer_syntax esyn, dsyn;
    uint64_t ref;
    int ok;         /* 1 = usable job */
    int nocheck;    /* `<syntax>:nocheck`: skip asn_check_constraints (known finding F48: self-recursive generated checker) */
} job_t;

static job_t *jobs;
static size_t njobs;

static enum asn_transfer_syntax syntax_of(const char *s, int decode) {
    if(!strcmp(s, "der")) return decode ? ATS_BER : ATS_DER;
    if(!strcmp(s, "uper")) return ATS_UNALIGNED_CANONICAL_PER;
    if(!strcmp(s, "oer")) return ATS_CANONICAL_OER;
    if(!strcmp(s, "xer")) return ATS_BASIC_XER;
    if(!strcmp(s, "cxer")) return ATS_CANONICAL_XER;
    return ATS_INVALID;
}

#define FNV_INIT 1469598103934665603ULL
static inline uint64_t fnv(uint64_t h, const void *p, size_t n) {
    const uint8_t *b = p;
    for(size_t i = 0; i < n; i++) { h ^= b[i]; h *= 1099511628211ULL; }
    return h;
}
static inline uint64_t fnv_i(uint64_t h, long long v) { return fnv(h, &v, sizeof v); }

/* per-thread PRNG driving the yields (xorshift64*) */
typedef struct { uint64_t s; int on; } yield_t;
static inline uint64_t yrand(yield_t *y) {
    y->s ^= y->s >> 12; y->s ^= y->s << 25; y->s ^= y->s >> 27;
    return y->s * 2685821657736338717ULL;
}
static void maybe_yield(yield_t *y) {
    if(!y || !y->on) return;
    uint64_t r = yrand(y);
    switch(r & 7) {
    case 0: case 1: case 2: return;
    case 3: case 4: sched_yield(); return;
    case 5: { struct timespec ts = { 0, (long)((r >> 8) % 40000) }; nanosleep(&ts, 0); return; }
    default: { volatile unsigned spin = (unsigned)((r >> 8) % 2000); while(spin) spin--; return; }
    }
}

/* the job: returns its digest; *loaderr set if the value cannot be loaded */
static uint64_t run_job(const job_t *j, yield_t *y, int *loaderr) {
    const asn_TYPE_descriptor_t *td = j->td;
    uint64_t h = FNV_INIT;
    const char *p = j->val;
    void *st = rf_load(td, &p, 0);
    if(!st) { if(loaderr) *loaderr = 1; return 0; }
    maybe_yield(y);
    asn_encode_to_new_buffer_result_t r = asn_encode_to_new_buffer(0, j->esyn, td, st);
    h = fnv_i(h, r.buffer ? 1 : 0);
    h = fnv_i(h, (long long)r.result.encoded);
    void *st2 = 0;
    if(r.buffer && r.result.encoded >= 0) {
        size_t n = (size_t)r.result.encoded;
        h = fnv(h, r.buffer, n);
        maybe_yield(y);
        asn_dec_rval_t rv = asn_decode(0, j->dsyn, td, &st2, r.buffer, n);
        h = fnv_i(h, rv.code); h = fnv_i(h, (long long)rv.consumed);
        if(rv.code != RC_OK) { ASN_STRUCT_FREE(*td, st2); st2 = 0; }
    }
    maybe_yield(y);
    if(!j->nocheck) {
        char eb[256]; size_t el = sizeof eb; eb[0] = 0;
        int c = asn_check_constraints(td, st, eb, &el);
        h = fnv_i(h, c);
        if(c) h = fnv(h, eb, strnlen(eb, sizeof eb));
    }
    maybe_yield(y);
    {
        char *mb = 0; size_t ml = 0;
        FILE *ms = open_memstream(&mb, &ml);
        int c = asn_fprint(ms, td, st2 ? st2 : st);
        fclose(ms);
        h = fnv_i(h, c); h = fnv(h, mb, ml);
        free(mb);
    }
    if(st2) {
        maybe_yield(y);
        h = fnv_i(h, td->op->compare_struct(td, st, st2));
        maybe_yield(y);
        asn_encode_to_new_buffer_result_t r2 = asn_encode_to_new_buffer(0, j->esyn, td, st2);
        h = fnv_i(h, (long long)r2.result.encoded);
        if(r2.buffer && r2.result.encoded >= 0) h = fnv(h, r2.buffer, (size_t)r2.result.encoded);
        free(r2.buffer);
        maybe_yield(y);
        if(!j->nocheck) {   /* a second validation, this time of the decoded copy, message discarded */
            int c = asn_check_constraints(td, st2, 0, 0);
            h = fnv_i(h, c);
        }
    }
    free(r.buffer);
    maybe_yield(y);
    ASN_STRUCT_FREE(*td, st2);
    maybe_yield(y);
    ASN_STRUCT_FREE(*td, st);
    return h;
}

typedef struct {
    int idx, nthreads, rep;
    uint64_t seed;
    uint64_t *got;          /* njobs entries, 0 = not run */
    char *ran;
    size_t executed;
    pthread_barrier_t *bar;
} targ_t;

static void *worker(void *a) {
    targ_t *t = a;
    yield_t y = { t->seed ^ (0x9e3779b97f4a7c15ULL * (uint64_t)(t->idx + 1)) ^ ((uint64_t)t->rep << 32) ^ ((uint64_t)t->nthreads << 48), 1 };
    if(!y.s) y.s = 1;
    for(int k = 0; k < 4; k++) yrand(&y);
    pthread_barrier_wait(t->bar);
    if(t->rep % 2 == 0) {
        for(size_t j = 0; j < njobs; j++) {
            if(!jobs[j].ok || (int)((j + (size_t)t->rep) % (size_t)t->nthreads) != t->idx) continue;
            t->got[j] = run_job(&jobs[j], &y, 0); t->ran[j] = 1; t->executed++;
        }
    } else {
        size_t start = njobs ? ((size_t)t->idx * 7 + (size_t)t->rep) % njobs : 0;
        for(size_t k = 0; k < njobs; k++) {
            size_t j = (start + k) % njobs;
            if(!jobs[j].ok) continue;
            t->got[j] = run_job(&jobs[j], &y, 0); t->ran[j] = 1; t->executed++;
        }
    }
    return 0;
}

int main(int argc, char **argv) {
    if(argc != 5) { fprintf(stderr, "usage: %s script seed reps N1,N2,..\n", argv[0]); return 2; }
    FILE *f = fopen(argv[1], "r");
    if(!f) { perror(argv[1]); return 2; }
    uint64_t seed = strtoull(argv[2], 0, 10);
    int reps = atoi(argv[3]);
    char *line = 0; size_t cap = 0; ssize_t n;
    size_t jcap = 0;
    while((n = getline(&line, &cap, f)) > 0) {
        while(n > 0 && (line[n - 1] == '\n' || line[n - 1] == '\r')) line[--n] = 0;
        if(!n) continue;
        char *sp1 = strchr(line, ' '); if(!sp1) continue;
        char *sp2 = strchr(sp1 + 1, ' '); if(!sp2) continue;
        *sp1 = 0; *sp2 = 0;
        if(njobs == jcap) { jcap = jcap ? 2 * jcap : 256; jobs = realloc(jobs, jcap * sizeof *jobs); }
        job_t *j = &jobs[njobs++];
        memset(j, 0, sizeof *j);
        j->type = strdup(line); j->syn = strdup(sp1 + 1); j->val = strdup(sp2 + 1);
        char *fl = strchr(j->syn, ':');
        if(fl) { *fl = 0; j->nocheck = strstr(fl + 1, "nocheck") != 0; }
        j->td = rf_find_type(j->type);
        j->esyn = syntax_of(j->syn, 0); j->dsyn = syntax_of(j->syn, 1);
        j->ok = j->td && j->esyn != ATS_INVALID;
    }
    free(line); fclose(f);

    /* phase 0: alone, twice */
    size_t nondet = 0, loaderr = 0, usable = 0;
    for(size_t j = 0; j < njobs; j++) {
        if(!jobs[j].ok) { loaderr++; continue; }
        int le = 0;
        uint64_t a = run_job(&jobs[j], 0, &le);
        if(le) { jobs[j].ok = 0; loaderr++; continue; }
        uint64_t b = run_job(&jobs[j], 0, &le);
        if(a != b) {
            jobs[j].ok = 0; nondet++;
            if(nondet <= 5) printf("nondet job=%zu type=%s syn=%s a=%016" PRIx64 " b=%016" PRIx64 "\n", j, jobs[j].type, jobs[j].syn, a, b);
            continue;
        }
        jobs[j].ref = a; usable++;
        if(usable <= 2) printf("ref job=%zu type=%s syn=%s digest=%016" PRIx64 "\n", j, jobs[j].type, jobs[j].syn, a);
    }

    /* phase 1 */
    size_t printed = 0;
    char *ns = strdup(argv[4]), *save = 0;
    for(char *tok = strtok_r(ns, ",", &save); tok; tok = strtok_r(0, ",", &save)) {
        int N = atoi(tok);
        if(N < 1 || N > 64) continue;
        size_t mism = 0, executed = 0;
        for(int r = 0; r < reps; r++) {
            pthread_t th[64]; targ_t ta[64];
            pthread_barrier_t bar;
            pthread_barrier_init(&bar, 0, (unsigned)N);
            for(int i = 0; i < N; i++) {
                memset(&ta[i], 0, sizeof ta[i]);
                ta[i].idx = i; ta[i].nthreads = N; ta[i].rep = r; ta[i].seed = seed; ta[i].bar = &bar;
                ta[i].got = calloc(njobs + 1, sizeof(uint64_t)); ta[i].ran = calloc(njobs + 1, 1);
            }
            for(int i = 0; i < N; i++) pthread_create(&th[i], 0, worker, &ta[i]);
            for(int i = 0; i < N; i++) pthread_join(th[i], 0);
            pthread_barrier_destroy(&bar);
            for(int i = 0; i < N; i++) {
                executed += ta[i].executed;
                for(size_t j = 0; j < njobs; j++) {
                    if(!ta[i].ran[j] || ta[i].got[j] == jobs[j].ref) continue;
                    mism++;
                    if(printed++ < 20)
                        printf("mismatch job=%zu type=%s syn=%s threads=%d rep=%d thread=%d got=%016" PRIx64 " want=%016" PRIx64 "\n",
                               j, jobs[j].type, jobs[j].syn, N, r, i, ta[i].got[j], jobs[j].ref);
                }
                free(ta[i].got); free(ta[i].ran);
            }
        }
        printf("done jobs=%zu threads=%d reps=%d executed=%zu mismatches=%zu nondet=%zu loaderr=%zu\n",
               usable, N, reps, executed, mism, nondet, loaderr);
        fflush(stdout);
    }
    free(ns);
    return 0;
}
