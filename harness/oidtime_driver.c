/* Line-protocol driver over the real skeleton functions used by C17 (OID + time helpers). */
#include "hutil.h"
int ops_oid(int argc, char **argv, FILE *out);
int ops_time(int argc, char **argv, FILE *out);
static op_handler_f handlers[] = { ops_oid, ops_time, 0 };
#include "driver_main.h"
