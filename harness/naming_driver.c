/* C10 correspondence driver: the real asn1c_make_identifier (libasn1compiler/asn1c_misc.c) and the real
 * static construct_base_name (libasn1compiler/asn1c_naming.c, reached by #include of the source file).
 *
 *   mkid <flags> N <arg-hex>{1..4}                                   expr == NULL
 *   mkid <flags> E <ident-hex|NULL> <clash> <module-hex> <line> <spec_index> <arg-hex>{0..3}
 *        -> ok <hex>  |  null
 *   cbn <compound> <avoid_keywords> <ident-hex>{1..}                 chain top-level type ... expression
 *        -> ok <hex>
 */
#include "hutil.h"
#include REPO_NAMING_C          /* "/repo/libasn1compiler/asn1c_naming.c" */

static char *hs(const char *h) { size_t n; return (char *)hx_parse(h, &n); }

static int ops_naming(int argc, char **argv, FILE *out) {
    if(!strcmp(argv[0], "mkid") && argc >= 4) {
        int flags = atoi(argv[1]);
        asn1p_expr_t *e = 0;
        asn1p_module_t mod; memset(&mod, 0, sizeof mod);
        int ai = 3;
        if(argv[2][0] == 'E') {
            if(argc < 8) return 0;
            e = asn1p_expr_new(atoi(argv[6]), &mod);
            e->Identifier = strcmp(argv[3], "NULL") ? hs(argv[3]) : 0;
            if(atoi(argv[4])) e->_mark |= TM_NAMECLASH;
            mod.ModuleName = hs(argv[5]);
            e->spec_index = atoi(argv[7]);
            ai = 8;
        }
        char *a[4] = {0, 0, 0, 0};
        int na = argc - ai;
        if(na > 4) return 0;
        for(int i = 0; i < na; i++) a[i] = hs(argv[ai + i]);
        const char *r;
        switch(na) {
        case 0: r = asn1c_make_identifier(flags, e, (char *)0); break;
        case 1: r = asn1c_make_identifier(flags, e, a[0], (char *)0); break;
        case 2: r = asn1c_make_identifier(flags, e, a[0], a[1], (char *)0); break;
        case 3: r = asn1c_make_identifier(flags, e, a[0], a[1], a[2], (char *)0); break;
        default: r = asn1c_make_identifier(flags, e, a[0], a[1], a[2], a[3], (char *)0); break;
        }
        if(!r) fputs("null", out);
        else { fputs("ok ", out); hx_print(out, (const uint8_t *)r, strlen(r)); }
        for(int i = 0; i < na; i++) free(a[i]);
        if(e) { free(e->Identifier); free(mod.ModuleName); free(e); }
        return 1;
    }
    if(!strcmp(argv[0], "cbn") && argc >= 4) {
        asn1p_module_t mod; memset(&mod, 0, sizeof mod);
        mod.ModuleName = "M";
        asn1p_expr_t *parent = 0, *e = 0;
        asn1p_expr_t *all[64]; int n = 0;
        for(int i = 3; i < argc && n < 64; i++) {
            e = asn1p_expr_new(1, &mod);
            e->Identifier = hs(argv[i]);
            e->parent_expr = parent;
            parent = e;
            all[n++] = e;
        }
        abuf *b = abuf_new();
        construct_base_name(b, e, atoi(argv[1]), atoi(argv[2]));
        fputs("ok ", out); hx_print(out, (const uint8_t *)b->buffer, b->length);
        abuf_free(b);
        for(int i = 0; i < n; i++) { free(all[i]->Identifier); free(all[i]); }
        return 1;
    }
    return 0;
}
static op_handler_f handlers[] = { ops_naming, 0 };
#include "driver_main.h"
