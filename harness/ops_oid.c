/* C17: line-protocol ops over the real OBJECT IDENTIFIER / RELATIVE-OID helper functions. */
#include "hutil.h"
#include <OBJECT_IDENTIFIER.h>
#include <RELATIVE-OID.h>

static const char *errname(int e) { return e == ERANGE ? "erange" : e == EINVAL ? "einval" : "fail"; }

/* parse decimal arcs argv[1..]; returns count or -1 */
static int parse_arcs_args(int argc, char **argv, asn_oid_arc_t *arcs, int max) {
    int n = 0;
    for(int i = 1; i < argc; i++) {
        char *e = 0;
        errno = 0;
        unsigned long long v = strtoull(argv[i], &e, 10);
        if(errno || *e || v > 0xffffffffULL || n >= max) return -1;
        arcs[n++] = (asn_oid_arc_t)v;
    }
    return n;
}

int ops_oid(int argc, char **argv, FILE *out) {
    const char *op = argv[0];
    if(!strcmp(op, "oid_set") || !strcmp(op, "roid_set")) {
        asn_oid_arc_t arcs[256];
        int n = parse_arcs_args(argc, argv, arcs, 256);
        if(n < 0) { fputs("bad-op", out); return 1; }
        /* exact-size heap copy so ASan sees over-reads of the arc vector */
        asn_oid_arc_t *h = malloc(n ? n * sizeof(*h) : 1);
        memcpy(h, arcs, n * sizeof(*h));
        OBJECT_IDENTIFIER_t st; memset(&st, 0, sizeof st);
        errno = 0;
        int rc = !strcmp(op, "oid_set") ? OBJECT_IDENTIFIER_set_arcs(&st, h, n)
                                         : RELATIVE_OID_set_arcs((RELATIVE_OID_t *)&st, h, n);
        if(rc) fputs(errname(errno), out);
        else { fputs("ok ", out); hx_print(out, st.buf, st.size); }
        free(st.buf); free(h);
        return 1;
    }
    if(argc == 3 && (!strcmp(op, "oid_get") || !strcmp(op, "roid_get"))) {
        OBJECT_IDENTIFIER_t st; memset(&st, 0, sizeof st);
        size_t len; st.buf = hx_parse_exact(argv[1], &len); st.size = len;
        long slots = strtol(argv[2], 0, 10);
        if(!st.buf || slots < 0 || slots > 4096) { fputs("bad-op", out); free(st.buf); return 1; }
        asn_oid_arc_t *arcs = malloc(slots ? slots * sizeof(*arcs) : 1);
        errno = 0;
        ssize_t r = !strcmp(op, "oid_get") ? OBJECT_IDENTIFIER_get_arcs(&st, arcs, slots)
                                           : RELATIVE_OID_get_arcs((RELATIVE_OID_t *)&st, arcs, slots);
        if(r < 0) fputs(errname(errno), out);
        else {
            fprintf(out, "ok %zd", r);
            for(ssize_t i = 0; i < r && i < slots; i++) fprintf(out, " %" PRIu32, arcs[i]);
        }
        free(arcs); free(st.buf);
        return 1;
    }
    if(argc == 2 && !strcmp(op, "oid_get1")) {
        size_t len; uint8_t *b = hx_parse_exact(argv[1], &len);
        if(!b) { fputs("bad-op", out); return 1; }
        asn_oid_arc_t v = 0;
        errno = 0;
        ssize_t r = OBJECT_IDENTIFIER_get_single_arc(b, len, &v);
        if(r < 0) fputs(errname(errno), out);
        else if(r == 0) fputs("none", out);
        else fprintf(out, "ok %" PRIu32 " %zd", v, r);
        free(b);
        return 1;
    }
    if(argc == 3 && !strcmp(op, "oid_set1")) {
        unsigned long long v = strtoull(argv[1], 0, 10);
        long blen = strtol(argv[2], 0, 10);
        if(v > 0xffffffffULL || blen < 0 || blen > 64) { fputs("bad-op", out); return 1; }
        uint8_t *b = malloc(blen ? blen : 1);
        ssize_t r = OBJECT_IDENTIFIER_set_single_arc(b, blen, (asn_oid_arc_t)v);
        if(r < 0) fputs("fail", out);
        else { fputs("ok ", out); hx_print(out, b, r); }
        free(b);
        return 1;
    }
    if(argc == 3 && !strcmp(op, "oid_parse")) {
        size_t len; uint8_t *b = hx_parse_exact(argv[1], &len);
        long slots = strtol(argv[2], 0, 10);
        if(!b || slots < 0 || slots > 4096) { fputs("bad-op", out); free(b); return 1; }
        asn_oid_arc_t *arcs = malloc(slots ? slots * sizeof(*arcs) : 1);
        const char *end = 0;
        errno = 0;
        ssize_t r = OBJECT_IDENTIFIER_parse_arcs((const char *)b, len, arcs, slots, &end);
        long endoff = end ? (long)(end - (const char *)b) : -1;
        if(r < 0) fprintf(out, "%s %ld", errname(errno), endoff);
        else {
            fprintf(out, "ok %zd %ld", r, endoff);
            for(ssize_t i = 0; i < r && i < slots; i++) fprintf(out, " %" PRIu32, arcs[i]);
        }
        free(arcs); free(b);
        return 1;
    }
    return 0;
}
