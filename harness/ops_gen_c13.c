/* C13 operations on a generated module:
 *   xdec <syn> <hex>   -> <ok|more|fail> <consumed> <val|->      decode + dump only (no constraint check,
 *                         no re-encoding: C13 is about the wire format; -fno-constraints builds have no checkers)
 *   xdescr             -> descriptor dump like `descr`, but shared descriptors are expanded at every use
 *                         ((ref NAME) only for a descriptor that is on the current path, i.e. recursion),
 *                         so that the dump does not depend on which descriptors the compiler chose to share.
 */
#include "gen_common.h"
#include <constr_SEQUENCE.h>
#include <constr_SET.h>
#include <constr_CHOICE.h>
#include <INTEGER.h>

static void x_tags(FILE *out, const ber_tlv_tag_t *t, unsigned n) {
    fputc('(', out);
    for(unsigned i = 0; i < n; i++) fprintf(out, "%s%u:%u", i ? " " : "", (unsigned)(t[i] & 3), (unsigned)(t[i] >> 2));
    fputc(')', out);
}
static void x_per(FILE *out, const asn_per_constraint_t *c) {
    fprintf(out, "(%d %d %d %ld %ld)", (int)c->flags, c->range_bits, c->effective_bits, c->lower_bound, c->upper_bound);
}
static void x_ec(FILE *out, const asn_encoding_constraints_t *ec) {
    fputs("(per ", out);
    if(ec->per_constraints) {
        x_per(out, &ec->per_constraints->value); x_per(out, &ec->per_constraints->size);
        fprintf(out, " maps=%d%d", ec->per_constraints->value2code ? 1 : 0, ec->per_constraints->code2value ? 1 : 0);
    } else fputs("-", out);
    fputs(") (oer ", out);
    if(ec->oer_constraints) fprintf(out, "%u %u %ld", ec->oer_constraints->value.width, ec->oer_constraints->value.positive, (long)ec->oer_constraints->size);
    else fputs("-", out);
    fputc(')', out);
}

static const asn_TYPE_descriptor_t *path[64];
static int npath;

static void x_descr(const asn_TYPE_descriptor_t *td, FILE *out) {
    for(int i = 0; i < npath; i++) if(path[i] == td) { fprintf(out, "(ref %s)", td->name); return; }
    if(npath >= 64) { fputs("(too-deep)", out); return; }
    path[npath++] = td;
    rf_kind_t k = rf_kind(td);
    fprintf(out, "(type %s xml=%s %s (tags ", td->name[0] ? td->name : "-", td->xml_tag[0] ? td->xml_tag : "-", rf_kind_name(k));
    x_tags(out, td->tags, td->tags_count);
    fputs(") (alltags ", out);
    x_tags(out, td->all_tags, td->all_tags_count);
    fputs(") ", out);
    x_ec(out, &td->encoding_constraints);
    switch(k) {
    case K_SEQUENCE: {
        const asn_SEQUENCE_specifics_t *sp = td->specifics;
        fprintf(out, " (spec first_ext=%d (omsinfo roms=%u aoms=%u oms=(", sp->first_extension, sp->roms_count, sp->aoms_count);
        for(unsigned i = 0; i < sp->roms_count + sp->aoms_count; i++) fprintf(out, "%s%d", i ? " " : "", sp->oms[i]);
        fputs(")) t2e=(", out);
        for(unsigned i = 0; i < sp->tag2el_count; i++)
            fprintf(out, "%s%u:%u>%u/%d/%d", i ? " " : "", (unsigned)(sp->tag2el[i].el_tag & 3), (unsigned)(sp->tag2el[i].el_tag >> 2),
                    sp->tag2el[i].el_no, sp->tag2el[i].toff_first, sp->tag2el[i].toff_last);
        fputs("))", out);
        break;
    }
    case K_SET: {
        const asn_SET_specifics_t *sp = td->specifics;
        fprintf(out, " (spec ext=%d t2e=(", sp->extensible);
        for(unsigned i = 0; i < sp->tag2el_count; i++)
            fprintf(out, "%s%u:%u>%u", i ? " " : "", (unsigned)(sp->tag2el[i].el_tag & 3), (unsigned)(sp->tag2el[i].el_tag >> 2), sp->tag2el[i].el_no);
        fputs(") t2e_cxer=(", out);
        for(unsigned i = 0; i < sp->tag2el_cxer_count; i++)
            fprintf(out, "%s%u:%u>%u", i ? " " : "", (unsigned)(sp->tag2el_cxer[i].el_tag & 3), (unsigned)(sp->tag2el_cxer[i].el_tag >> 2), sp->tag2el_cxer[i].el_no);
        fputs("))", out);
        break;
    }
    case K_CHOICE: {
        const asn_CHOICE_specifics_t *sp = td->specifics;
        fprintf(out, " (spec ext_start=%d t2e=(", sp->ext_start);
        for(unsigned i = 0; i < sp->tag2el_count; i++)
            fprintf(out, "%s%u:%u>%u", i ? " " : "", (unsigned)(sp->tag2el[i].el_tag & 3), (unsigned)(sp->tag2el[i].el_tag >> 2), sp->tag2el[i].el_no);
        fputs(") (canon to=(", out);
        if(sp->to_canonical_order) for(unsigned i = 0; i < td->elements_count; i++) fprintf(out, "%s%u", i ? " " : "", sp->to_canonical_order[i]);
        fputs(") from=(", out);
        if(sp->from_canonical_order) for(unsigned i = 0; i < td->elements_count; i++) fprintf(out, "%s%u", i ? " " : "", sp->from_canonical_order[i]);
        fputs(")))", out);
        break;
    }
    case K_NINT: case K_INT: case K_NENUM: case K_ENUM: {
        const asn_INTEGER_specifics_t *sp = td->specifics;
        if(sp) {
            fprintf(out, " (spec unsigned=%d strict=%d ext=%d map=(", sp->field_unsigned, sp->strict_enumeration, sp->extension);
            for(int i = 0; i < sp->map_count; i++) fprintf(out, "%s%ld:%s", i ? " " : "", sp->value2enum[i].nat_value, sp->value2enum[i].enum_name);
            fputs("))", out);
        }
        break;
    }
    default: break;
    }
    fputs(" (members", out);
    for(unsigned i = 0; i < td->elements_count; i++) {
        const asn_TYPE_member_t *e = &td->elements[i];
        fprintf(out, " (m %s flags=%d opt=%u tag=%u:%u mode=%d default=%d ", e->name[0] ? e->name : "-", (int)e->flags, e->optional,
                (unsigned)(e->tag & 3), (unsigned)(e->tag >> 2), e->tag_mode, e->default_value_cmp ? 1 : 0);
        x_ec(out, &e->encoding_constraints);
        fputc(' ', out);
        x_descr(e->type, out);
        fputc(')', out);
    }
    fputs("))", out);
    npath--;
}

int ops_gen_c13(int argc, char **argv, FILE *out) {
    const char *op = argv[0];
    if(!cur_td && (!strcmp(op, "xdec") || !strcmp(op, "xdescr"))) { fputs("no-type", out); return 1; }
    if(!strcmp(op, "xdescr")) { npath = 0; x_descr(cur_td, out); return 1; }
    if(!strcmp(op, "xdec") && argc == 3) {
        enum asn_transfer_syntax syn = gen_syntax(argv[1], 1);
        size_t len; uint8_t *b = hx_parse_exact(argv[2], &len);
        if(!b) { fputs("bad-op", out); return 1; }
        void *st = 0;
        asn_dec_rval_t rv = asn_decode(0, syn, cur_td, &st, b, len);
        fprintf(out, "%s %zu ", gen_rc_name(rv.code), rv.consumed);
        if(rv.code == RC_OK && st) rf_dump(cur_td, st, out); else fputc('-', out);
        ASN_STRUCT_FREE(*cur_td, st);
        free(b);
        return 1;
    }
    return 0;
}
