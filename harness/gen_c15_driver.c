/* Driver for generated modules: C15 (stack / heap bounds) operations + the core operations. */
#include "hutil.h"
int ops_gen_core(int, char **, FILE *); int ops_gen_c15(int, char **, FILE *);
static op_handler_f handlers[] = { ops_gen_c15, ops_gen_core, 0 };
#include "driver_main.h"
