#!/bin/sh
# Offline setup after a fresh restore: regenerate the translator-produced Lean files from /repo,
# then build the Lean project (model, proofs, driver).
# C drivers are (re)built by every check from /repo's current working tree.
set -e
cd "$(dirname "$0")"
python3 tools/regen.py
cd lean
lake build 2>&1 | tail -5
test -x .lake/build/bin/a1model
