namespace Nest
inductive Ty where
  | prim (tag : Nat)
  | seq (tag : Nat) (ms : List Ty)
  | seqOf (tag : Nat) (e : Ty)
inductive Val where
  | bytes (b : List Nat)
  | seq (vs : List Val)
  | list (vs : List Val)

def tlv (tag : Nat) (c : List Nat) : List Nat := tag :: c.length :: c   -- toy: len < 256

mutual
def enc : Ty → Val → Option (List Nat)
  | .prim t, .bytes b => some (tlv t b)
  | .seq t ms, .seq vs => (encSeq ms vs).map (tlv t)
  | .seqOf t e, .list vs => (encList e vs).map (tlv t)
  | _, _ => none
def encSeq : List Ty → List Val → Option (List Nat)
  | [], [] => some []
  | m :: ms, v :: vs => do let a ← enc m v; let b ← encSeq ms vs; pure (a ++ b)
  | _, _ => none
def encList (e : Ty) : List Val → Option (List Nat)
  | [] => some []
  | v :: vs => do let a ← enc e v; let b ← encList e vs; pure (a ++ b)
end

-- decoder with fuel
mutual
def dec (fuel : Nat) : Ty → List Nat → Option (Val × List Nat)
  | .prim t, tag :: len :: rest => if tag = t ∧ len ≤ rest.length then some (.bytes (rest.take len), rest.drop len) else none
  | .seq t ms, tag :: len :: rest =>
      match fuel with
      | 0 => none
      | f+1 => if tag = t ∧ len ≤ rest.length then
                 match decSeq f ms (rest.take len) with
                 | some (vs, []) => some (.seq vs, rest.drop len)
                 | _ => none
               else none
  | .seqOf t e, tag :: len :: rest =>
      match fuel with
      | 0 => none
      | f+1 => if tag = t ∧ len ≤ rest.length then
                 match decList f e (rest.take len) (rest.take len).length with
                 | some vs => some (.list vs, rest.drop len)
                 | _ => none
               else none
  | _, _ => none
def decSeq (fuel : Nat) : List Ty → List Nat → Option (List Val × List Nat)
  | [], bs => some ([], bs)
  | m :: ms, bs => do let (v, r) ← dec fuel m bs; let (vs, r') ← decSeq fuel ms r; pure (v :: vs, r')
def decList (fuel : Nat) (e : Ty) (bs : List Nat) : Nat → Option (List Val)
  | 0 => if bs = [] then some [] else none
  | n+1 => if bs = [] then some [] else
      match dec fuel e bs with
      | some (v, r) => (decList fuel e r n).map (v :: ·)
      | none => none
end
end Nest

namespace Nest
open List

theorem tlv_length (t : Nat) (c : List Nat) : (tlv t c).length = c.length + 2 := by simp [tlv]

/-- depth of a type (fuel needed) -/
def Ty.depth : Ty → Nat
  | .prim _ => 0
  | .seq _ ms => 1 + (ms.attach.map fun ⟨m, _⟩ => m.depth).foldr max 0
  | .seqOf _ e => 1 + e.depth

end Nest

namespace Nest


theorem dec_mono_stub : True := trivial

/-- well-sizedness: toy length octet < 256 is ignored here; tlv uses raw length -/
theorem take_append_len (a b : List Nat) : (a ++ b).take a.length = a := by simp
theorem drop_append_len (a b : List Nat) : (a ++ b).drop a.length = b := by simp

theorem roundtrip :
    (∀ (t : Ty) (v : Val), ∀ bs, enc t v = some bs →
        ∃ N, ∀ fuel, N ≤ fuel → ∀ rest, dec fuel t (bs ++ rest) = some (v, rest)) ∧
    (∀ (e : Ty) (vs : List Val), ∀ bs, encList e vs = some bs →
        ∃ N, ∀ fuel, N ≤ fuel → ∀ n, bs.length ≤ n → decList fuel e bs n = some vs) ∧
    (∀ (ms : List Ty) (vs : List Val), ∀ bs, encSeq ms vs = some bs →
        ∃ N, ∀ fuel, N ≤ fuel → ∀ rest, decSeq fuel ms (bs ++ rest) = some (vs, rest)) := by
  apply enc.mutual_induct
  · -- prim
    intro t b bs h
    simp [enc] at h; subst h
    refine ⟨0, fun fuel _ rest => ?_⟩
    simp [tlv, dec]
  · -- seq
    intro t ms vs ih bs h
    simp only [enc, Option.map_eq_some_iff] at h
    obtain ⟨c, hc, rfl⟩ := h
    obtain ⟨N, hN⟩ := ih c hc
    refine ⟨N + 1, fun fuel hf rest => ?_⟩
    obtain ⟨f, rfl⟩ : ∃ f, fuel = f + 1 := ⟨fuel - 1, by omega⟩
    have := hN f (by omega) []
    simp only [List.append_nil] at this
    simp [tlv, dec, this]
  · -- seqOf
    intro t e vs ih bs h
    simp only [enc, Option.map_eq_some_iff] at h
    obtain ⟨c, hc, rfl⟩ := h
    obtain ⟨N, hN⟩ := ih c hc
    refine ⟨N + 1, fun fuel hf rest => ?_⟩
    obtain ⟨f, rfl⟩ : ∃ f, fuel = f + 1 := ⟨fuel - 1, by omega⟩
    have := hN f (by omega) c.length (Nat.le_refl _)
    simp [tlv, dec, this]
  · -- mismatch
    intro v t h1 h2 h3 bs h
    unfold enc at h
    split at h <;> simp_all
  · -- encList nil
    intro e bs h
    simp [encList] at h; subst h
    refine ⟨0, fun fuel _ n _ => ?_⟩
    cases n <;> simp [decList]
  · -- encList cons
    intro e v vs ih1 ih2 bs h
    simp only [encList, bind, Option.bind_eq_some_iff, pure, Option.some.injEq] at h
    obtain ⟨a, ha, b, hb, rfl⟩ := h
    obtain ⟨N1, h1⟩ := ih1 a ha
    obtain ⟨N2, h2⟩ := ih2 b hb
    refine ⟨max N1 N2, fun fuel hf n hn => ?_⟩
    have hane : a ≠ [] := by
      intro h0; subst h0
      have := h1 fuel (by omega) []
      cases e <;> simp [dec] at this
    obtain ⟨m, rfl⟩ : ∃ m, n = m + 1 := by
      refine ⟨n - 1, ?_⟩
      have : 0 < a.length := List.length_pos_iff.mpr hane
      simp at hn; omega
    have hab : a ++ b ≠ [] := by simp [hane]
    simp only [decList, hab, if_false, h1 fuel (by omega) b]
    rw [h2 fuel (by omega) m (by simp at hn; have : 0 < a.length := List.length_pos_iff.mpr hane; omega)]
    rfl
  · -- encSeq nil
    intro bs h
    simp [encSeq] at h; subst h
    exact ⟨0, fun fuel _ rest => by simp [decSeq]⟩
  · -- encSeq cons
    intro m ms v vs ih1 ih2 bs h
    simp only [encSeq, bind, Option.bind_eq_some_iff, pure, Option.some.injEq] at h
    obtain ⟨a, ha, b, hb, rfl⟩ := h
    obtain ⟨N1, h1⟩ := ih1 a ha
    obtain ⟨N2, h2⟩ := ih2 b hb
    refine ⟨max N1 N2, fun fuel hf rest => ?_⟩
    simp [decSeq, List.append_assoc, h1 fuel (by omega), h2 fuel (by omega), bind]
  · -- encSeq mismatch
    intro vs ms h1 h2 bs h
    unfold encSeq at h
    split at h
    · exact (h1 rfl rfl).elim
    · exact (h2 _ _ _ _ rfl rfl).elim
    · simp at h
end Nest
