namespace Proto

/-- big-endian base-256 digits, minimal, [] for 0 -/
def toBE (n : Nat) : List Nat :=
  if h : n = 0 then [] else toBE (n / 256) ++ [n % 256]
termination_by n
decreasing_by omega

def ofBE (acc : Nat) : List Nat → Nat
  | [] => acc
  | b :: bs => ofBE (acc * 256 + b) bs

/-- spec: X.690 8.1.3 definite form, minimal (DER 10.1) -/
def derLen (n : Nat) : List Nat :=
  if n ≤ 127 then [n] else (0x80 + (toBE n).length) :: toBE n

inductive Res where
  | ok (len : Int) (used : Nat)
  | more
  | fail
deriving DecidableEq, Repr

/-- code-shaped model of ber_fetch_length (64-bit ssize_t len) -/
def fetchLoop (len : Nat) (skipped : Nat) : Nat → List Nat → Res
  | 0, _ => if len > 0x7fffffffffffffff / 2 then .fail else .ok len skipped   -- RSSIZE_MAX
  | _ + 1, [] => .more
  | oct + 1, b :: bs =>
      if len / 2^55 ≠ 0 then .fail else fetchLoop (len * 256 + b) (skipped + 1) oct bs

def fetchLen (constructed : Bool) : List Nat → Res
  | [] => .more
  | oct :: bs =>
    if oct < 0x80 then .ok oct 1
    else if constructed && oct == 0x80 then .ok (-1) 1
    else if oct == 0xff then .fail
    else fetchLoop 0 1 (oct - 0x80) bs

theorem ofBE_append (acc : Nat) (xs ys : List Nat) : ofBE acc (xs ++ ys) = ofBE (ofBE acc xs) ys := by
  induction xs generalizing acc with
  | nil => rfl
  | cons x xs ih => simp [ofBE, ih]

theorem ofBE_toBE (n : Nat) : ofBE 0 (toBE n) = n := by
  induction n using Nat.strongRecOn with
  | _ n ih =>
    unfold toBE
    split
    · simp [ofBE, *]
    · rename_i h
      rw [ofBE_append, ih (n / 256) (by omega)]
      simp [ofBE]; omega

theorem toBE_lt (n : Nat) : ∀ b ∈ toBE n, b < 256 := by
  induction n using Nat.strongRecOn with
  | _ n ih =>
    unfold toBE
    split
    · simp
    · intro b hb
      simp at hb
      rcases hb with hb | hb
      · exact ih (n/256) (by omega) b hb
      · omega

theorem toBE_length_le (n k : Nat) (h : n < 256 ^ k) : (toBE n).length ≤ k := by
  induction k generalizing n with
  | zero => simp at h; subst h; unfold toBE; simp
  | succ k ih =>
    unfold toBE
    split
    · simp
    · simp
      apply ih
      rw [Nat.pow_succ] at h
      omega

end Proto

namespace Proto

theorem fetchLoop_append (ds rest : List Nat) (len sk : Nat)
    (hsmall : ∀ (pre : List Nat), pre <+: ds → pre ≠ ds → ofBE len pre / 2^55 = 0) :
    fetchLoop len sk ds.length (ds ++ rest) =
      (if ofBE len ds > 0x7fffffffffffffff / 2 then .fail else .ok (ofBE len ds) (sk + ds.length)) := by
  induction ds generalizing len sk with
  | nil => simp [fetchLoop, ofBE]
  | cons d ds ih =>
    have h0 := hsmall [] (by simp) (by simp)
    simp [ofBE] at h0
    simp only [List.length_cons, List.cons_append, fetchLoop, ofBE]
    rw [if_neg (by omega)]
    rw [ih]
    · congr 2; omega
    · intro pre hp hne
      have := hsmall (d :: pre) (by simpa using hp) (by simpa using hne)
      simpa [ofBE] using this

end Proto
