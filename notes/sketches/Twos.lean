import Mathlib.Tactic.Ring
import Mathlib.Tactic.Linarith
namespace Twos

def ofBE (acc : Nat) : List Nat → Nat
  | [] => acc
  | b :: bs => ofBE (acc * 256 + b) bs

theorem ofBE_eq (acc : Nat) (bs : List Nat) : ofBE acc bs = acc * 256 ^ bs.length + ofBE 0 bs := by
  induction bs generalizing acc with
  | nil => simp [ofBE]
  | cons b bs ih =>
    simp only [ofBE, List.length_cons]
    rw [ih, ih (0 * 256 + b)]
    rw [Nat.pow_succ]
    simp [Nat.add_mul, Nat.mul_assoc, Nat.mul_comm 256, Nat.add_assoc]

/-- two's complement value of a non-empty big-endian octet string -/
def twosVal : List Nat → Int
  | [] => 0
  | b :: bs => if b < 128 then (ofBE 0 (b :: bs) : Int) else (ofBE 0 (b :: bs) : Int) - 256 ^ (bs.length + 1)

/-- the strip loop of INTEGER_encode_der / asn_imax2INTEGER -/
def strip : List Nat → List Nat
  | 0 :: b :: bs => if b < 128 then strip (b :: bs) else 0 :: b :: bs
  | 255 :: b :: bs => if b ≥ 128 then strip (b :: bs) else 255 :: b :: bs
  | bs => bs

def wf (bs : List Nat) : Prop := ∀ b ∈ bs, b < 256

def minimal : List Nat → Prop
  | 0 :: b :: _ => ¬ b < 128
  | 255 :: b :: _ => ¬ b ≥ 128
  | _ => True

theorem strip_minimal (bs : List Nat) : minimal (strip bs) := by
  fun_induction strip bs <;> simp_all [minimal]

theorem strip_val (bs : List Nat) (h : wf bs) : twosVal (strip bs) = twosVal bs := by
  fun_induction strip bs
  · rename_i b bs hb ih
    rw [ih (by intro x hx; exact h x (List.mem_cons_of_mem _ hx))]
    simp [twosVal, hb, ofBE]
  · rfl
  · rename_i b bs hb ih
    have hb256 : b < 256 := h b (by simp)
    rw [ih (by intro x hx; exact h x (List.mem_cons_of_mem _ hx))]
    have hb' : ¬ b < 128 := by omega
    simp only [twosVal, hb', ofBE, if_false, show ¬ (255 < 128) by omega, List.length_cons]
    rw [ofBE_eq (0*256+255*256 + b) bs, ofBE_eq (0 * 256 + b) bs]
    push_cast
    ring
  · rfl
  · rfl
end Twos
