import Proto
open Proto
def hexOf (l : List Nat) : String := String.join (l.map fun b => (if b < 16 then "0" else "") ++ String.mk (Nat.toDigits 16 b))
def step (line : String) : String :=
  match line.trimAscii.toString.splitOn " " with
  | ["derlen", n] => match n.toNat? with
      | some k => hexOf (derLen k)
      | none => "bad-op"
  | _ => "bad-op"
partial def loop (h : IO.FS.Stream) : IO Unit := do
  let line ← h.getLine
  if line.isEmpty then return ()
  IO.println (step line)
  loop h
def main : IO Unit := do loop (← IO.getStdin)
