namespace CR

inductive Edge where
  | min | val (z : Int) | max
deriving DecidableEq, Repr

def Edge.le : Edge → Edge → Bool
  | .min, _ => true
  | _, .max => true
  | .val a, .val b => a ≤ b
  | .val _, .min => false
  | .max, .min => false
  | .max, .val _ => false

/-- x lies at or above the edge (edge used as a left bound) -/
def Edge.leInt : Edge → Int → Bool
  | .min, _ => true
  | .val a, x => a ≤ x
  | .max, _ => false     -- a left edge MAX contains no finite integer
def Edge.geInt : Edge → Int → Bool
  | .max, _ => true
  | .val a, x => x ≤ a
  | .min, _ => false

structure Iv where
  lo : Edge
  hi : Edge
deriving DecidableEq, Repr

def Iv.mem (i : Iv) (x : Int) : Bool := i.lo.leInt x && i.hi.geInt x
def den (l : List Iv) (x : Int) : Bool := l.any (·.mem x)

def Edge.maxE (a b : Edge) : Edge := if a.le b then b else a
def Edge.minE (a b : Edge) : Edge := if a.le b then a else b

def Iv.inter (a b : Iv) : Iv := ⟨a.lo.maxE b.lo, a.hi.minE b.hi⟩
def Iv.nonempty (a : Iv) : Bool := a.lo.le a.hi && a.lo != .max && a.hi != .min

/-- intersection of interval lists: all pairwise intersections that are non-empty -/
def inter (as bs : List Iv) : List Iv :=
  as.flatMap fun a => (bs.map (a.inter ·)).filter Iv.nonempty

theorem Edge.leInt_maxE (a b : Edge) (x : Int) : (a.maxE b).leInt x = (a.leInt x && b.leInt x) := by
  cases a <;> cases b <;> simp [Edge.maxE, Edge.le, Edge.leInt]
  rename_i p q
  by_cases h : p ≤ q <;> simp only [h, if_true, if_false, Edge.leInt] <;> rw [Bool.eq_iff_iff] <;> simp <;> omega

theorem Edge.geInt_minE (a b : Edge) (x : Int) : (a.minE b).geInt x = (a.geInt x && b.geInt x) := by
  cases a <;> cases b <;> simp [Edge.minE, Edge.le, Edge.geInt]
  rename_i p q
  by_cases h : p ≤ q <;> simp only [h, if_true, if_false, Edge.geInt] <;> rw [Bool.eq_iff_iff] <;> simp <;> omega

theorem Iv.mem_inter (a b : Iv) (x : Int) : (a.inter b).mem x = (a.mem x && b.mem x) := by
  simp only [Iv.inter, Iv.mem, Edge.leInt_maxE, Edge.geInt_minE]
  cases a.lo.leInt x <;> cases b.lo.leInt x <;> cases a.hi.geInt x <;> cases b.hi.geInt x <;> rfl

theorem Iv.mem_nonempty (a : Iv) (x : Int) (h : a.mem x = true) : a.nonempty = true := by
  cases a with | mk al ah =>
  cases al <;> cases ah <;> simp_all [Iv.mem, Iv.nonempty, Edge.le, Edge.leInt, Edge.geInt] <;> omega

theorem den_inter (as bs : List Iv) (x : Int) : den (inter as bs) x = (den as x && den bs x) := by
  simp only [den, inter]
  rw [Bool.eq_iff_iff]
  simp only [List.any_eq_true, List.mem_flatMap, List.mem_filter, List.mem_map, Bool.and_eq_true]
  constructor
  · rintro ⟨i, ⟨a, ha, ⟨⟨b, hb, rfl⟩, _⟩⟩, hx⟩
    rw [Iv.mem_inter] at hx
    simp at hx
    exact ⟨⟨a, ha, hx.1⟩, ⟨b, hb, hx.2⟩⟩
  · rintro ⟨⟨a, ha, hax⟩, ⟨b, hb, hbx⟩⟩
    have hm : (a.inter b).mem x = true := by rw [Iv.mem_inter]; simp [hax, hbx]
    exact ⟨a.inter b, ⟨a, ha, ⟨⟨b, hb, rfl⟩, Iv.mem_nonempty _ x hm⟩⟩, hm⟩

theorem den_union (as bs : List Iv) (x : Int) : den (as ++ bs) x = (den as x || den bs x) := by
  simp [den]

end CR
