#!/bin/sh
# Creates a buildable scratch git worktree of /repo at $1 (configure + make), for mutation experiments.
# Remove with: git -C /repo worktree remove --force $1
set -e
d="$1"
git -C /repo worktree add --detach "$d" >/dev/null 2>&1
cd /repo
rsync -a --exclude .git --exclude '*.o' --exclude '*.lo' --exclude '*.la' --exclude '.libs' --exclude '.deps' \
  --exclude 'autom4te.cache' --exclude '*.log' --exclude '*.trs' --include '*/' --include 'configure' \
  --include 'Makefile.in' --include 'config.h.in' --include 'aclocal.m4' --include 'config/**' --include 'm4/**' \
  --exclude '*' ./ "$d"/
cd "$d"
./configure >/dev/null 2>&1
make -j8 >/dev/null 2>&1
test -x asn1c/asn1c && echo "worktree ready: $d"
