#!/usr/bin/env python3
"""finalize_seed.py <seed id> <property> <detected_by comma list or -> <note>: writes seeded/<id>/meta.json"""
import json, os, sys
sid, prop, det, note = sys.argv[1], sys.argv[2], sys.argv[3], sys.argv[4]
d = os.path.join(os.path.dirname(os.path.dirname(os.path.abspath(__file__))), "seeded", sid)
agent = json.load(open(os.path.join(d, "meta.agent.json"))) if os.path.exists(os.path.join(d, "meta.agent.json")) else {}
conf = open(os.path.join(d, "confirm.log")).read().strip() if os.path.exists(os.path.join(d, "confirm.log")) else ""
meta = {"id": sid, "property": prop,
        "breaks": agent.get("what_breaks") or agent.get("summary"),
        "summary": agent.get("summary"),
        "needs_to_manifest": agent.get("needs_to_manifest"),
        "files_changed": agent.get("files_changed"),
        "origin": "independent sub-agent given only the property text and a scratch worktree",
        "confirmed_by_coordinator": {"how": "tools/confirm_seed.sh in a scratch worktree: git apply, make, demo/run.sh (must fail), make check -k (82 PASS + expected check-parsing.sh FAIL), revert, demo/run.sh (must pass)", "result": conf},
        "detected_by": [] if det == "-" else det.split(","),
        "detection_note": note,
        "how_to_rerun": f"git -C /repo apply /verif/seeded/{sid}/patch.diff && (cd /verif && ./check {prop}); git -C /repo checkout -- ."}
json.dump(meta, open(os.path.join(d, "meta.json"), "w"), indent=1)
print(sid, meta["detected_by"])
