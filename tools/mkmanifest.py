#!/usr/bin/env python3
"""Regenerates /verif/MANIFEST.json from the table below (kept in one place so it stays valid)."""
import json, os
V = os.path.dirname(os.path.dirname(os.path.abspath(__file__)))
props = [json.loads(l) for l in open(os.path.join(V, "properties.jsonl"))]
ids = [p["id"] for p in props]

CLAIMS = {f[:-5]: json.load(open(os.path.join(V, "claims", f))) for f in sorted(os.listdir(os.path.join(V, "claims"))) if f.endswith(".json") and f[:-5] in open(os.path.join(V, "claims", "READY")).read().split()}
NA_REASON = "check not built yet in this round (planned, see DESIGN.md §10); nothing is claimed"

checks = []
for i in ids:
    if i in CLAIMS:
        c = CLAIMS[i]
        checks.append({
            "property_id": i,
            "quick_cmd": f"./check {i} --tier quick",
            "thorough_cmd": f"./check {i} --tier thorough",
            "evidence_file": f"/verif/evidence/{i}.json",
            "replay_cmd_template": f"./check {i} --replay {{path}}",
            "engine": "lean-correspondence",
            "level_claimed": {"category": "proof", "text": c["text"], "design_ref": c["design"]},
            "level_note": c["note"],
            "technique": c["technique"],
        })
m = {
 "version": 1,
 "setup_cmd": "./setup.sh",
 "hooks": {"guard": "VLM_ASN1C_VERIF",
           "enable": "checks compile /repo sources themselves with -DVLM_ASN1C_VERIF (no hook is currently needed; source_commits is empty)",
           "baseline_off_cmd": "cd /repo && make check -j8 -k",
           "source_commits": [], "add_only": True},
 "engines": [{"name": "lean-correspondence", "path": "/verif/check",
              "serves_properties": sorted(CLAIMS),
              "kind_free_text": "Lean 4 theorems over hand-written Impl/Spec models (lake project /verif/lean) + line-protocol differential correspondence between C drivers (/verif/harness, built from /repo's working tree with ASan/UBSan) and the compiled Lean driver a1model + property predicate evaluated on C"}],
 "checks": checks,
 "not_applicable": [{"property_id": i, "reason": NA_REASON} for i in ids if i not in CLAIMS],
 "notes": "See DESIGN.md. KNOWN_FINDINGS.json lists genuine defects of the unchanged tree (printed as KNOWN-FINDING lines).",
}
json.dump(m, open(os.path.join(V, "MANIFEST.json"), "w"), indent=1)
print("claimed:", sorted(CLAIMS), "not_applicable:", len(m["not_applicable"]))
