#!/usr/bin/env python3
"""revert_sweep.py <repo worktree at /repo's HEAD> <lean copy>: for every `fix:` commit recorded in KNOWN_FINDINGS.json
(status fixed), reverse-apply that commit alone in the worktree and run the checks of the finding's properties:
the defect must be reported again (a fixed entry suppresses nothing).  Prints one line per commit."""
import json, os, subprocess, sys
wt, lean = sys.argv[1], sys.argv[2]
V = os.path.dirname(os.path.dirname(os.path.abspath(__file__)))
K = json.load(open(os.path.join(V, "KNOWN_FINDINGS.json")))["findings"]
by_commit = {}
for f in K:
    if f.get("status") != "fixed": continue
    props = list(dict.fromkeys(([f["property"]] if f.get("property") else []) + list(f.get("properties", []))))
    for h in str(f.get("commit", "")).split(","):
        h = h.strip()
        if h: by_commit.setdefault(h, {"ids": [], "props": []}); by_commit[h]["ids"].append(f["id"]); by_commit[h]["props"] += [p for p in props if p not in by_commit[h]["props"]]
def sh(*a, **kw): return subprocess.run(a, capture_output=True, text=True, **kw)
only = sys.argv[3:]
for h, info in by_commit.items():
    if only and h not in only: continue
    sh("git", "-C", wt, "reset", "-q", "--hard"); sh("git", "-C", wt, "clean", "-fdq")
    patch = sh("git", "-C", "/repo", "show", "--format=", h).stdout
    r = subprocess.run(["git", "-C", wt, "apply", "-R", "--3way"], input=patch, capture_output=True, text=True)
    if r.returncode != 0 or "conflict" in (r.stderr or "").lower():
        print(h, ",".join(info["ids"]), "NOREVERT (later commits changed the same lines)", flush=True); continue
    res = "NOT-REPORTED"
    for p in info["props"][:3]:
        env = dict(os.environ, VERIF_REPO=wt, VERIF_LEAN=lean, VERIF_SEED=os.environ.get("VERIF_SEED", "1"))
        c = subprocess.run(["./check", p], cwd=V, capture_output=True, text=True, env=env)
        n = c.stdout.count("\nVIOLATION ") + (1 if c.stdout.startswith("VIOLATION ") else 0)
        if c.returncode != 0 and n:
            res = f"REPORTED({p}:{n})"; break
    print(h, ",".join(info["ids"]), res, flush=True)
sh("git", "-C", wt, "checkout", "-q", "--", "."); sh("git", "-C", wt, "reset", "-q", "--hard")
sh("git", "-C", V, "checkout", "-q", "--", "evidence")
