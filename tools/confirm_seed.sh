#!/bin/sh
# confirm_seed.sh <worktree> <mutation dir (contains patch.diff, demo/run.sh, meta.json)> <seed id>
# Confirms independently: patch applies, tree builds, demo fails with / passes without the patch,
# the repo's test suite still gives 82 PASS + the one expected FAIL.  Copies the result to /verif/seeded/<id>/.
wt="$1"; md="$2"; id="$3"
out=/verif/seeded/$id
mkdir -p "$out"
cd "$wt" || exit 1
git checkout -- . >/dev/null 2>&1
git apply "$md/patch.diff" || { echo "patch does not apply" > "$out/confirm.log"; exit 1; }
make -j8 >/dev/null 2>&1 || { echo "build failed" > "$out/confirm.log"; git checkout -- .; exit 1; }
( cd "$md/demo" && sh ./run.sh "$wt" ) > "$out/demo-mutated.log" 2>&1; dm=$?
make check -j4 -k > "$out/suite.log" 2>&1
pass=$(grep -c '^PASS' "$out/suite.log"); fail=$(grep '^FAIL' "$out/suite.log" | tr '\n' ' ')
git checkout -- . >/dev/null 2>&1
make -j8 >/dev/null 2>&1
( cd "$md/demo" && sh ./run.sh "$wt" ) > "$out/demo-pristine.log" 2>&1; dp=$?
cp "$md/patch.diff" "$out/patch.diff"; rm -rf "$out/demo"; cp -r "$md/demo" "$out/demo"; cp "$md/meta.json" "$out/meta.agent.json"
tail -c 3000 "$out/suite.log" > "$out/suite.tail.log"; rm -f "$out/suite.log"
echo "demo_mutated_exit=$dm demo_pristine_exit=$dp suite_pass=$pass suite_fail=$fail" > "$out/confirm.log"
cat "$out/confirm.log"
