#!/bin/sh
# seed_sweep.sh <repo worktree at /repo's HEAD> <lean copy> [seed ids...]: re-runs every finalized seed against the current checks.
# Prints one line per seed: DETECTED / MISSED / NOAPPLY (the patch no longer applies to HEAD, e.g. after a repair of the same lines).
wt="$1"; lean="$2"; shift 2
cd /verif
ids="$*"; [ -z "$ids" ] && ids=$(ls seeded)
for id in $ids; do
  m=seeded/$id/meta.json; [ -f $m ] || continue
  prop=$(python3 -c "import json;print(json.load(open('$m'))['property'])")
  dets=$(python3 -c "import json;print(' '.join(json.load(open('$m')).get('detected_by') or ['$prop']))")
  git -C $wt checkout -q -- . ; git -C $wt clean -fdq >/dev/null 2>&1
  if grep -q '"status": "retired"' $m; then echo "$id RETIRED"; continue; fi
  if ! git -C $wt apply /verif/seeded/$id/patch.diff 2>/dev/null; then
    # a repair in /repo touched the same lines: use the seed re-based onto the repaired code, when there is one
    if [ -f seeded/$id/patch.rebased.diff ] && git -C $wt apply /verif/seeded/$id/patch.rebased.diff 2>/dev/null; then :; else echo "$id NOAPPLY"; continue; fi
  fi
  res=MISSED
  for c in $dets; do
    VERIF_LEAN=$lean VERIF_REPO=$wt VERIF_SEED=${VERIF_SEED:-1} ./check $c > /tmp/sweep_$id.$c.log 2>&1
    if [ $? -ne 0 ] && grep -q '^VIOLATION' /tmp/sweep_$id.$c.log; then res="DETECTED($c:$(grep -c '^VIOLATION' /tmp/sweep_$id.$c.log))"; break; fi
  done
  echo "$id $res"
done
git -C $wt checkout -q -- .
git checkout -q -- evidence
