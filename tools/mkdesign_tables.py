#!/usr/bin/env python3
"""Regenerates the tables of DESIGN.md Part II.3 (findings) and II.6 (seeded changes) from
KNOWN_FINDINGS.json and seeded/*/meta.json.  The hand-written text around the tables is kept."""
import json, os, re, glob
V = os.path.dirname(os.path.dirname(os.path.abspath(__file__)))
D = os.path.join(V, "DESIGN.md")
s = open(D).read()

def cell(x, n):
    x = re.sub(r"\s+", " ", str(x or "")).replace("|", "\\|")
    return x[:n] + ("…" if len(x) > n else "")

K = json.load(open(os.path.join(V, "KNOWN_FINDINGS.json")))["findings"]
def fkey(f):
    m = re.match(r"F(\d+)", f["id"]); return (f.get("property") or (f.get("properties") or ["?"])[0], int(m.group(1)) if m else 0)
rows = ["| id | property | status | what (abridged) |", "|----|----------|--------|-----------------|"]
for f in sorted(K, key=fkey):
    props = ",".join(dict.fromkeys([f.get("property")] + list(f.get("properties", [])))) if f.get("property") else ",".join(f.get("properties", []))
    st = f["status"] + (" " + str(f.get("commit", "")) if f["status"] == "fixed" else "")
    what = f.get("what") or f.get("fixed", "")
    rows.append(f"| {f['id']} | {props} | {st} | {cell(what, 230)} |")
nk = sum(1 for f in K if f["status"] == "known"); nf = sum(1 for f in K if f["status"] == "fixed")
t3 = (f"{nk} entries with status `known` and {nf} with status `fixed` (a `fix:` commit in /repo; a fixed entry suppresses nothing).\n\n"
      + "\n".join(rows) + "\n")

rows = ["| seed | property | change | caught by | note |", "|------|----------|--------|-----------|------|"]
n = miss = 0
for p in sorted(glob.glob(os.path.join(V, "seeded", "*", "meta.json"))):
    m = json.load(open(p)); n += 1
    det = ", ".join(m.get("detected_by") or []) or "MISSED"
    if m.get("status") == "retired": det += " (retired)"
    if det == "MISSED": miss += 1
    rows.append(f"| {m['id']} | {m['property']} | {cell(m.get('summary') or m.get('breaks'), 200)} | {det} | {cell(m.get('detection_note'), 260)} |")
t6 = f"{n} seeded changes, {n - miss} detected.\n\n" + "\n".join(rows) + "\n"

def put(s, name, body):
    a, b = f"<!-- BEGIN {name} -->", f"<!-- END {name} -->"
    if a in s:
        return re.sub(re.escape(a) + r".*?" + re.escape(b), lambda _: a + "\n" + body + b, s, flags=re.S)
    raise SystemExit(f"marker {a} missing in DESIGN.md")
s = put(s, "FINDINGS-TABLE", t3)
s = put(s, "SEEDS-TABLE", t6)
open(D, "w").write(s)
print("findings:", len(K), "seeds:", n, "missed:", miss)
