#!/usr/bin/env python3
"""Regenerates every translator-produced Lean file (lean/Asn1cModel/Generated/*.lean) from /repo's
current working tree.  Called by setup.sh so that a stale committed copy can never break the build;
each check that depends on one of them regenerates it again on every run."""
import os, sys
sys.path.insert(0, os.path.dirname(os.path.dirname(os.path.abspath(__file__))))
from vlib import trans_globals, trans_reswords
from vlib.props import c15_translate, c08_tables
for name, fn in (("StackGuard", c15_translate.write), ("ReservedWords", trans_reswords.translate),
                 ("AlphabetTables", getattr(c08_tables, "translate", None) or getattr(c08_tables, "write", None)),
                 ("Globals", trans_globals.translate)):
    try:
        fn(); print("regenerated", name)
    except Exception as e:
        print("regen", name, "failed:", repr(e)[:200]); sys.exit(1)
