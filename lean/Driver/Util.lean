import Asn1cModel.Base
namespace Driver
open Asn1c

/-- An op handler: `none` = "not my op". -/
abbrev Handler := List String → Option String

def showOptInt : Option Int → String
  | some v => toString v
  | none => "-"

def bad : String := "bad-op"

end Driver
