import Driver.Util
import Driver.Ops.Integer
import Driver.Ops.Real
import Driver.Ops.OidTime
import Driver.Ops.Fixer
open Driver

def handlers : List Handler := [
  Driver.Ops.Integer.run,
  Driver.Ops.Real.run,
  Driver.Ops.OidTime.run,
  Driver.Ops.Fixer.run
]

def step (line : String) : String :=
  let toks := (line.trimAscii.toString.splitOn " ").filter (· ≠ "")
  match handlers.findSome? (fun h => h toks) with
  | some out => out
  | none => bad

partial def loop (h : IO.FS.Stream) (out : IO.FS.Stream) : IO Unit := do
  let line ← h.getLine
  if line.isEmpty then return ()
  out.putStrLn (step line)
  loop h out

def main : IO Unit := do
  let stdin ← IO.getStdin
  let stdout ← IO.getStdout
  loop stdin stdout
