import Driver.Util
import Driver.Ops.Integer
import Driver.Ops.L2
import Driver.Ops.L2Oer
import Driver.Ops.L2Uper
import Driver.Ops.L2Xer
import Driver.Ops.BerStream
import Driver.Ops.Real
import Driver.Ops.OidTime
import Driver.Ops.Fixer
import Driver.Ops.CRange
import Driver.Ops.Unber
import Driver.Ops.StackGuard
import Driver.Ops.Native
import Driver.Ops.C10
import Driver.Ops.C12
import Driver.Ops.Lifecycle
import Driver.Ops.ConstraintCheck
import Driver.Ops.PerL1
import Driver.Ops.OpenType
import Driver.Ops.Application
import Driver.Ops.CompileDescr
open Driver

def handlers : List Handler := [
  Driver.Ops.Integer.run,
  Driver.Ops.Real.run,
  Driver.Ops.OidTime.run,
  Driver.Ops.Fixer.run,
  Driver.Ops.CRange.run,
  Driver.Ops.Unber.run,
  Driver.Ops.StackGuard.run,
  Driver.Ops.Native.run,
  Driver.Ops.C10.run,
  Driver.Ops.C12.run,
  Driver.Ops.Lifecycle.run,
  Driver.Ops.ConstraintCheck.run,
  Driver.Ops.PerL1.run,
  Driver.Ops.OpenType.run,
  Driver.Ops.Application.run
]

def step (line : String) : String :=
  let toks := (line.trimAscii.toString.splitOn " ").filter (· ≠ "")
  match handlers.findSome? (fun h => h toks) with
  | some out => out
  | none => bad

/-- L2 sub-handlers (one per transfer syntax) -/
def l2handlers : List Driver.Ops.L2.SubHandler := [
  Driver.Ops.L2.derHandler,
  Driver.Ops.L2Oer.oerHandler,
  Driver.Ops.L2Uper.uperHandler,
  Driver.Ops.CompileDescr.handler,
  Driver.Ops.L2Xer.xerHandler,
  Driver.Ops.BerStream.handler
]

/-- L2 lines carry state (the current module): `l2mod <module-sexp>` selects it,
    `@Type <op> ...` runs an L2 op on one of its types. -/
def stepL2 (st : Option Asn1c.L2.ModCtx) (toks : List String) : Option (Option Asn1c.L2.ModCtx × String) :=
  match toks with
  | "l2mod" :: ws =>
    match (Asn1c.Sexp.parseWords ws).bind Asn1c.L2.parseModule with
    | some m => some (some m, "ok")
    | none => some (st, "bad-module")
  | t :: rest =>
    if t.startsWith "@" then
      match st with
      | some m => some (st, (l2handlers.findSome? (fun h => h m (t.drop 1).toString rest)).getD bad)
      | none => some (st, "no-module")
    else none
  | [] => none

partial def loop (h : IO.FS.Stream) (out : IO.FS.Stream) (st : Option Asn1c.L2.ModCtx) : IO Unit := do
  let line ← h.getLine
  if line.isEmpty then return ()
  let toks := (line.trimAscii.toString.splitOn " ").filter (· ≠ "")
  match stepL2 st toks with
  | some (st', o) => out.putStrLn o; loop h out st'
  | none => out.putStrLn (step line); loop h out st

def main : IO Unit := do
  let stdin ← IO.getStdin
  let stdout ← IO.getStdout
  loop stdin stdout none
