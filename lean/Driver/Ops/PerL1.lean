import Driver.Util
import Asn1cModel.Impl.BitData
import Asn1cModel.Impl.PerSupport
import Asn1cModel.Impl.OerSupport
/- Line-protocol ops of the UPER / OER primitive layer (C side: harness/ops_per.c). -/
namespace Driver.Ops.PerL1
open Asn1c Asn1c.Impl.BitData Asn1c.Impl.PerSupport Asn1c.Impl.OerSupport Driver

structure St where
  src : Bits
  srcLen : Nat
  out : Bits

def splitColon (s : String) : Option (String × String) :=
  match s.splitOn ":" with
  | [a, b] => some (a, b)
  | _ => none

/-- one token of a `bits` script: `some (text, state, continue?)` -/
def tok (st : St) (t : String) : String × St × Bool :=
  let cs := t.toList
  match cs with
  | 'p' :: 'm' :: rest =>
    match splitColon (String.ofList rest) with
    | some (h, nb) =>
      match parseHex h, parseNat nb with
      | some bytes, some n =>
        if n > 8 * bytes.length then ("bad-tok", st, false)
        else ("0", { st with out := st.out ++ putManyBits bytes n }, true)
      | _, _ => ("bad-tok", st, false)
    | none => ("bad-tok", st, false)
  | 'p' :: rest =>
    match splitColon (String.ofList rest) with
    | some (ns, vs) =>
      match parseInt ns, parseNat vs with
      | some n, some v =>
        if n < -64 ∨ n > 64 ∨ v ≥ 2 ^ 64 then ("bad-tok", st, false)
        else match putFewBitsI n (v % 2 ^ 32) with
          | some b => ("0", { st with out := st.out ++ b }, true)
          | none => ("-1", st, true)
      | _, _ => ("bad-tok", st, false)
    | none => ("bad-tok", st, false)
  | 'g' :: 'm' :: rest | 'g' :: 'r' :: rest =>
    match parseNat (String.ofList rest) with
    | some n =>
      if n > 100000 then ("bad-tok", st, false)
      else match getManyBits (cs.getD 1 'm' == 'r') n st.src with
        | some (bytes, r) => (toHex bytes, { st with src := r }, true)
        | none => ("-1", st, false)
    | none => ("bad-tok", st, false)
  | 'g' :: rest =>
    match parseInt (String.ofList rest) with
    | some n =>
      if n < -64 ∨ n > 64 then ("bad-tok", st, false)
      else match getFewBitsI n st.src with
        | some (v, r) => (s!"{v}@{st.srcLen - r.length}", { st with src := r }, true)
        | none => ("-1", st, false)
    | none => ("bad-tok", st, false)
  | ['x'] => (s!"x{st.out.length}", { src := st.out, srcLen := st.out.length, out := [] }, true)
  | _ => ("bad-tok", st, false)

def script : St → List String → List String → List String × St
  | st, [], acc => (acc.reverse, st)
  | st, t :: ts, acc =>
    let (s, st', go) := tok st t
    if go then script st' ts (s :: acc) else ((s :: acc).reverse, st')

def showGet (total : Nat) : Option (Nat × Bits) → String
  | some (v, r) => s!"{v} {total - r.length}"
  | none => "-1"

def showBitsOpt : Option Bits → String
  | some b => bitsToString b
  | none => "-1"

def osBytes (n mul : Nat) : Bytes := (List.range n).map fun i => (i * mul + 7) % 256

/-- `rawget`: sequential `asn_get_few_bits` on the byte-level position -/
def rawScript (total : Nat) : Src → List String → List String → List String
  | _, [], acc => acc.reverse
  | s, t :: ts, acc =>
    match parseNat t with
    | none => ("bad-tok" :: acc).reverse
    | some n =>
      if n > 64 then ("bad-tok" :: acc).reverse else
      match getFewRaw s n with
      | .ok v s' => rawScript total s' ts (s!"{v}@{total - s'.buf.length}:{s'.nboff}:{s'.nbits}" :: acc)
      | .fail => ("-1" :: acc).reverse
      | .oob => ("oob" :: acc).reverse

def run : Handler
  | "rawget" :: h :: nboff :: nbits :: toks => some <| match parseHex h, parseNat nboff, parseNat nbits with
      | some buf, some nboff, some nbits =>
        if nboff > nbits ∨ nbits > 8 * buf.length then "precond"
        else ",".intercalate (rawScript buf.length ⟨buf, nboff, nbits⟩ toks [])
      | _, _, _ => bad
  | "bits" :: src :: toks => some <| match parseBits src with
      | some b =>
        let (outs, st) := script { src := b, srcLen := b.length, out := [] } toks []
        -- the flush: zero padded octets; printed as the written bits (the C side checks the padding)
        ",".intercalate outs ++ " | " ++ bitsToString ((bytesToBits (alignedFlush st.out)).take st.out.length)
      | none => bad
  | ["uper_put_length", n, e] => some <| match parseNat n, parseInt e with
      | some n, some e =>
        if n ≥ 2 ^ 64 then bad else
        let (b, r, eom) := putLength n
        bitsToString b ++ s!" {r} " ++ (if e ≠ 0 then (if eom then "1" else "0") else "-")
      | _, _ => bad
  | ["uper_get_length", eb, lb, bits] => some <| match parseInt eb, parseNat lb, parseBits bits with
      | some eb, some lb, some b =>
        if eb < -(2 ^ 31) ∨ eb ≥ 2 ^ 31 ∨ lb ≥ 2 ^ 64 then bad else
        match getLength eb lb b with
        | some (v, rep, r) => s!"{v} {if rep then 1 else 0} {b.length - r.length}"
        | none => "-1"
      | _, _, _ => bad
  | ["nsnnwn_put", n] => some <| match parseInt n with
      | some n => if n < -(2 ^ 31) ∨ n ≥ 2 ^ 31 then bad else showBitsOpt (putNsnnwn n)
      | none => bad
  | ["nslength_put", n] => some <| match parseNat n with
      | some n => if n ≥ 2 ^ 64 then bad else showBitsOpt (putNslength n)
      | none => bad
  | ["nsnnwn_get", bits] => some <| match parseBits bits with
      | some b => showGet b.length (getNsnnwn b)
      | none => bad
  | ["nslength_get", bits] => some <| match parseBits bits with
      | some b => showGet b.length (getNslength b)
      | none => bad
  | ["cwn_put", nb, v] => some <| match parseInt nb, parseNat v with
      | some nb, some v => if nb < -100 ∨ nb > 200 ∨ v ≥ 2 ^ 64 then bad else showBitsOpt (putCwnUI v nb)
      | _, _ => bad
  | ["cwn_get", nb, bits] => some <| match parseInt nb, parseBits bits with
      | some nb, some b => if nb < -100 ∨ nb > 200 then bad else showGet b.length (getCwnI nb b)
      | _, _ => bad
  | ["rebase", v, lb, ub] => some <| match parseInt v, parseInt lb, parseInt ub with
      | some v, some lb, some ub =>
        if ¬ (isLong v ∧ isLong lb ∧ isLong ub) then bad
        else if lb > ub then "precond"
        else match rebase v lb ub with | some o => s!"ok {o}" | none => "fail"
      | _, _, _ => bad
  | ["unrebase", inp, lb, ub] => some <| match parseNat inp, parseInt lb, parseInt ub with
      | some inp, some lb, some ub =>
        if ¬ (inp < 2 ^ 64 ∧ isLong lb ∧ isLong ub) then bad
        else if lb > ub then "precond"
        else match unrebase inp lb ub with | some o => s!"ok {o}" | none => "fail"
      | _, _, _ => bad
  | ["oer_len_put", n] => some <| match parseNat n with
      | some n => if n ≥ 2 ^ 64 then bad else
          let b := serializeLength n
          toHex b ++ s!" {b.length}"
      | none => bad
  | ["oer_len_get", h] => some <| match parseHex h with
      | some b => (match fetchLength b with
          | .ok len used => s!"ok {len} {used}"
          | .more => "more"
          | .fail => "fail"
          | .oob => "oob")
      | none => bad
  | ["int_oer_enc", w, pos, h] => some <| match parseNat w, parseInt pos, parseHex h with
      | some w, some pos, some st =>
        if w > 64 then bad else
        (match intEncodeOer w (pos ≠ 0) st with | some b => toHex b | none => "fail")
      | _, _, _ => bad
  | ["int_oer_dec", w, pos, h] => some <| match parseNat w, parseInt pos, parseHex h with
      | some w, some pos, some buf =>
        if w > 64 then bad else
        (match intDecodeOer w (pos ≠ 0) buf with
          | .ok c used => s!"ok {toHex c} {used}"
          | .more => "more"
          | .fail => "fail"
          | .oob => "oob")
      | _, _, _ => bad
  | ["os_uper_enc", n, mul] => some <| match parseNat n, parseInt mul with
      | some n, some mul =>
        if n > 2 ^ 22 then bad else
        let mulN := (mul % 2 ^ 64).toNat
        let bits := putLoop ((List.range n).map fun i => natBits 8 ((i * mulN) % 2 ^ 64 + 7))
        toHex (alignedFlush bits) ++ s!" {bits.length}"
      | _, _ => bad
  | ["os_uper_dec", h, unused] => some <| match parseHex h, parseNat unused with
      | some bytes, some u =>
        if u > 7 ∨ u > 8 * bytes.length then bad else
        let all := bytesToBits bytes
        let bits := all.take (all.length - u)
        match getLoop (getFewBits 8) bits with
        | some (os, r) => s!"ok {toHex os} {bits.length - r.length}"
        | none => "fail"
      | _, _ => bad
  | _ => none

end Driver.Ops.PerL1
