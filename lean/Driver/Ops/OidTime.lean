import Driver.Ops.Oid
import Driver.Ops.Time
/- C17: the OID and time ops behind one handler -/
namespace Driver.Ops.OidTime
open Driver

def run : Handler := fun toks =>
  match Driver.Ops.Oid.run toks with
  | some r => some r
  | none => Driver.Ops.Time.run toks

end Driver.Ops.OidTime
