import Driver.Util
import Asn1cModel.Impl.Naming
import Asn1cModel.Impl.WfDescr
import Asn1cModel.Impl.CompilerMain
/-
  Line-protocol ops for C10 (same lines as harness/naming_driver.c):

    mkid <flags> N <arg-hex>{1..4}
    mkid <flags> E <ident-hex|NULL> <clash> <module-hex> <line> <spec_index> <arg-hex>{0..3}
         → ok <hex> | null
    cbn <compound> <avoid_keywords> <ident-hex>{1..}        → ok <hex>
    wfdescr <oms-required 0|1> <descriptor dump …>           → ok | bad <reason>
    exitstatus <E> <F> <Werror> <parse-ok 0|1>… | <fixRet> <compileRet>   → <status>
-/
namespace Driver.Ops.C10
open Asn1c Asn1c.Impl.Naming Driver

def hexStr (h : String) : Option String :=
  (parseHex h).map (fun bs => String.ofList (bs.map Char.ofNat))

def outHex (cs : List Char) : String := "ok " ++ toHex (cs.map Char.toNat)

def flagsOf (n : Nat) : Flags :=
  { maskOnlySpaces := n % 2 == 1, checkReserved := n / 2 % 2 == 1, noDelimiter := n / 4 % 2 == 1 }

def run : Handler
  | "mkid" :: fl :: "N" :: args =>
    match fl.toNat?, args.mapM hexStr with
    | some f, some as =>
      some (match makeIdentifier (flagsOf f) none as with
            | some r => outHex r
            | none => "null")
    | _, _ => some bad
  | "mkid" :: fl :: "E" :: ident :: clash :: modh :: line :: spec :: args =>
    match fl.toNat?, (if ident == "NULL" then some none else (hexStr ident).map some), clash.toNat?,
          hexStr modh, line.toInt?, spec.toInt?, args.mapM hexStr with
    | some f, some id?, some cl, some md, some ln, some sp, some as =>
      let e : ExprName := { identifier := id?, nameClash := cl != 0, moduleName := md,
                            specIndex := if sp == -1 then none else some (ln, sp) }
      some (match makeIdentifier (flagsOf f) (some e) as with
            | some r => outHex r
            | none => "null")
    | _, _, _, _, _, _, _ => some bad
  | "cbn" :: comp :: avoid :: chain =>
    match comp.toNat?, avoid.toNat?, chain.mapM hexStr with
    | some c, some a, some ch => some (outHex (constructBaseName (c != 0) (a != 0) ch))
    | _, _, _ => some bad
  | "wfdescr" :: req :: rest =>
    some (match Asn1c.Impl.WfDescr.dumpVerdict (req != "0") (String.intercalate " " rest) with
          | none => "ok"
          | some r => "bad " ++ r)
  | "exitstatus" :: e :: f :: w :: rest =>
    let (ps, tl) := rest.span (· != "|")
    match tl with
    | [_, fr, cr] =>
      match fr.toInt?, cr.toInt? with
      | some fr, some cr =>
        some (toString (Asn1c.Impl.CompilerMain.mainStatus
          { printOut := e != "0", fixAndPrint := f != "0", werror := w != "0",
            parse := ps.map (· != "0"), fixRet := fr, compileRet := cr }))
      | _, _ => some bad
    | _ => some bad
  | _ => none

end Driver.Ops.C10
