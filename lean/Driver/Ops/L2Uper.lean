import Driver.Util
import Driver.Ops.L2
import Asn1cModel.L2.Uper
import Asn1cModel.L2.UperVariants
import Driver.Ops.L2Oer
namespace Driver.Ops.L2Uper
open Asn1c Asn1c.L2 Driver

/-- `@Type l2enc uper <positional val>` → `ok <hex>` | `fail`;
    `@Type l2dec uper <hex>` → `ok <consumed octets> <val>` | `fail`;
    `@Type l2pty` prints the resolved PER view of the type
    `@Type l2encvar uper <kind>[:<param>] <index>[+] <val>` → `ok <hex>` | `same` | `fail`: the complete encoding with the
      version-skew variation `older:<n>` / `newer:<-|e|hex,…>` (or `none`) applied at the `index`-th applicable
      extensible SEQUENCE (`+`: and at all later ones), see `L2/UperVariants.lean` -/
def run (ctx : ModCtx) (tyName : String) : List String → String
  | "l2enc" :: "uper" :: vwords =>
    match resolveNamedP ctx tyName, (Sexp.parseWords vwords).bind parseVal with
    | some t, some v =>
      match encUPERbytes t v with
      | some bs => "ok " ++ toHex bs
      | none => "fail"
    | none, _ => "unsupported-type"
    | _, none => "bad-value"
  | "l2encvar" :: "uper" :: kind :: idx :: vwords =>
    match resolveNamedP ctx tyName, (Sexp.parseWords vwords).bind parseVal, Driver.Ops.L2Oer.parseVar kind idx with
    | some t, some v, some (s, false) =>
      match Asn1c.L2.UperVar.encUV t v {}, Asn1c.L2.UperVar.encUV t v s with
      | some (base, _), some (bits, s') =>
        if s'.hits = 0 || (bits == base && kind != "none") then "same" else "ok " ++ toHex (Asn1c.Spec.Per.complete bits)
      | _, _ => "fail"
    | none, _, _ => "unsupported-type"
    | _, none, _ => "bad-value"
    | _, _, _ => "bad-variant"
  | ["l2dec", "uper", h] =>
    match resolveNamedP ctx tyName, parseHex h with
    | some t, some bs =>
      let bits := bytesToBits bs
      match decUPER t bits with
      | some (v, rest) => s!"ok {consumedOctets bits.length rest.length} " ++ showVal v
      | none => "fail"
    | none, _ => "unsupported-type"
    | _, none => "bad-hex"
  | ["l2pty"] =>
    match resolveNamedP ctx tyName with
    | some t => reprStr t
    | none => "unsupported-type"
  | _ => bad

def uperHandler : Driver.Ops.L2.SubHandler := fun ctx ty toks =>
  match toks with
  | "l2enc" :: "uper" :: _ => some (run ctx ty toks)
  | ["l2dec", "uper", _] => some (run ctx ty toks)
  | "l2encvar" :: "uper" :: _ :: _ :: _ => some (run ctx ty toks)
  | ["l2pty"] => some (run ctx ty toks)
  | _ => none

end Driver.Ops.L2Uper
