import Driver.Util
import Asn1cModel.Impl.Fixer
import Asn1cModel.Spec.TagRules
/-
  Line-protocol ops for the fixer model (C11).

    fix     <module>   →  accept | reject <reason>… | loop          (+ ` dom=0|1`)
    fixdump <module>   →  the tags / enumeration values of the fixed tree in textual order,
                          as `asn1c -E -F` prints them, e.g. `[0]I [APPLICATION 3]E a=0 b=5`

  <module> ::= DFLT ( {NAME TY} )            DFLT ::= E | I | A
  TY       ::= TAG bool|int|null|oct
             | TAG enum ( {NAME VAL} ) EXTI        VAL ::= - | digits
             | TAG seq|set|cho ( {NAME TY OPT} ) EXTC   OPT ::= m | o | d
             | TAG sof TY
             | TAG ref NAME
  TAG      ::= - | <U|A|C|P><digits><d|i|e>        e.g. C3i = [3] IMPLICIT
  EXTI     ::= - | x ( {NAME VAL} )          EXTC ::= - | x ( {NAME TY OPT} )
-/
namespace Driver.Ops.Fixer
open Asn1c.Fix Asn1c.Impl.Fixer Driver

abbrev P (α : Type) := List String → Option (α × List String)

def pTag : P (Option Tag)
  | "-" :: r => some (none, r)
  | s :: r =>
    let cs := s.toList
    match cs with
    | c :: rest =>
      match rest.reverse with
      | m :: digs =>
        let cls? : Option TagClass := match c with
          | 'U' => some .universal | 'A' => some .application
          | 'C' => some .context | 'P' => some .private_ | _ => none
        let mode? : Option TagMode := match m with
          | 'd' => some .default_ | 'i' => some .implicit | 'e' => some .explicit | _ => none
        match cls?, mode?, (String.ofList digs.reverse).toNat? with
        | some cl, some mo, some n => some (some ⟨cl, n, mo⟩, r)
        | _, _, _ => none
      | [] => none
    | [] => none
  | [] => none

partial def pItems : P (List EnumItem)
  | ")" :: r => some ([], r)
  | n :: v :: r =>
    let val? : Option (Option Nat) := if v == "-" then some none else (v.toNat?).map some
    match val? with
    | some val =>
      match pItems r with
      | some (its, r') => some (⟨n, val⟩ :: its, r')
      | none => none
    | none => none
  | _ => none

def pOpt : P Opt
  | "m" :: r => some (.mandatory, r)
  | "o" :: r => some (.optional, r)
  | "d" :: r => some (.default_, r)
  | _ => none

mutual
partial def pTy : P Ty := fun toks =>
  match pTag toks with
  | none => none
  | some (tag, r) =>
    match r with
    | "bool" :: r => some (.prim tag .boolean, r)
    | "int" :: r => some (.prim tag .integer, r)
    | "null" :: r => some (.prim tag .null, r)
    | "oct" :: r => some (.prim tag .octetString, r)
    | "enum" :: "(" :: r =>
      match pItems r with
      | some (root, "-" :: r') => some (.enum tag root false [], r')
      | some (root, "x" :: "(" :: r') =>
        match pItems r' with
        | some (adds, r'') => some (.enum tag root true adds, r'')
        | none => none
      | _ => none
    | "sof" :: r =>
      match pTy r with
      | some (e, r') => some (.seqOf tag e, r')
      | none => none
    | "ref" :: n :: r => some (.ref tag n, r)
    | k :: "(" :: r =>
      let kind? : Option CKind := match k with
        | "seq" => some .sequence | "set" => some .set | "cho" => some .choice | _ => none
      match kind? with
      | none => none
      | some kind =>
        match pComps r with
        | some (root, "-" :: r') => some (.constr tag kind root false [], r')
        | some (root, "x" :: "(" :: r') =>
          match pComps r' with
          | some (adds, r'') => some (.constr tag kind root true adds, r'')
          | none => none
        | _ => none
    | _ => none
partial def pComps : P (List Comp) := fun toks =>
  match toks with
  | ")" :: r => some ([], r)
  | n :: r =>
    match pTy r with
    | some (t, r') =>
      match pOpt r' with
      | some (o, r'') =>
        match pComps r'' with
        | some (cs, r''') => some (.mk n t o :: cs, r''')
        | none => none
      | none => none
    | none => none
  | [] => none
end

partial def pTypes : P (List TypeAssign)
  | ")" :: r => some ([], r)
  | n :: r =>
    match pTy r with
    | some (t, r') =>
      match pTypes r' with
      | some (ts, r'') => some (⟨n, t⟩ :: ts, r'')
      | none => none
    | none => none
  | [] => none

def pModule (toks : List String) : Option Module :=
  match toks with
  | d :: "(" :: r =>
    let d? : Option TagDefault := match d with
      | "E" => some .explicit | "I" => some .implicit | "A" => some .automatic | _ => none
    match d?, pTypes r with
    | some dv, some (ts, []) => some ⟨dv, ts⟩
    | _, _ => none
  | _ => none

/-! ### reasons (for the log only; the verdict is `fixerVerdict`) -/

def optTrue : Option Bool → Bool
  | some true => true
  | _ => false

def nodeReasons (M : Module) (t : Ty) : List String :=
  match t with
  | .ref _ _ => if optTrue (derefFatal M t) then ["unknown-type"] else []
  | .enum _ r _ a => if (fixEnum r a).2 then ["enum"] else []
  | .constr _ k r h a =>
    (if dupNames [] ((r ++ a).map Comp.name) then ["dup-identifier"] else []) ++
    (match comps M r h a with
     | some ss => if optTrue (checkDistinct M (k == .sequence) ss) then ["tag-clash"] else []
     | none => []) ++
    (match fixConstr M r a with
     | some fc => (if fc.fImplicit then ["implicit-choice"] else []) ++
                  (if fc.fExt then ["ext-tagged"] else [])
     | none => [])
  | _ => []

def reasons (M : Module) : List String :=
  let rs := (if dupTypeNames M then ["dup-type"] else []) ++
    (M.types.foldr (fun a acc => (if optTrue (topOther M a) then ["implicit-choice"] else []) ++ acc) []) ++
    (M.nodes.foldr (fun t acc => nodeReasons M t ++ acc) [])
  rs.eraseDups

/-- `Dom_C11` as evaluated by the driver (same definition as Props/C11.lean, restated here
    because the driver cannot import the proof files): no fuel exhaustion, enumeration
    numbering of the code = X.680 numbering -/
def enumAgrees : Ty → Bool
  | .enum _ r _ a => (fixEnum r a).1 == Asn1c.Spec.Fix.enumVals r a
  | _ => true

def domC11 (M : Module) : Bool := (fixerRun M).isSome && M.nodes.all enumAgrees

/-- `WfModule` of Props/C11.lean -/
def wfModule (M : Module) : Bool :=
  match otherFatal M with
  | some false => true
  | _ => false

/-! ### dump of the fixed tree -/

def clsStr : TagClass → String
  | .universal => "UNIVERSAL " | .application => "APPLICATION "
  | .context => "" | .private_ => "PRIVATE "

def modeStr : TagMode → String
  | .default_ => "" | .implicit => "I" | .explicit => "E"

def tagStr : Option Tag → List String
  | none => []
  | some g => [s!"[{clsStr g.cls}{g.num}]{modeStr g.mode}"]

def enumStr (r a : List EnumItem) : List String :=
  let vs := (fixEnum r a).1
  ((r ++ a).zip vs).map (fun (it, v) => s!"{it.name}={v}")

mutual
/-- `t` has already been through the tag fix of its parent (its own tag is final) -/
partial def dumpTy (M : Module) (t : Ty) : List String :=
  tagStr t.tag ++
  match t with
  | .enum _ r _ a => enumStr r a
  | .constr _ _ r _ a =>
    match fixConstr M r a with
    | some fc => dumpComps M fc.root ++ dumpComps M fc.adds
    | none => ["loop"]
  | .seqOf _ e =>
    match fixTypeTag M e with
    | some (e', _) => dumpTy M e'
    | none => ["loop"]
  | _ => []
partial def dumpComps (M : Module) : List Comp → List String
  | [] => []
  | c :: rest => dumpTy M c.ty ++ dumpComps M rest
end

def dumpModule (M : Module) : List String :=
  M.types.foldr (fun a acc =>
    (match fixTypeTag M a.ty with
     | some (t', _) => dumpTy M t'
     | none => ["loop"]) ++ acc) []

def run : Handler
  | "fix" :: toks => some <|
    match pModule toks with
    | none => bad
    | some M =>
      let dom := (if domC11 M then " dom=1" else " dom=0") ++ (if wfModule M then " wf=1" else " wf=0")
      match fixerRun M with
      | none => "loop" ++ dom
      | some r =>
        if r then "reject " ++ " ".intercalate (reasons M) ++ dom
        else "accept" ++ dom
  | "fixdump" :: toks => some <|
    match pModule toks with
    | none => bad
    | some M => let l := dumpModule M; if l.isEmpty then "-" else " ".intercalate l
  | _ => none

end Driver.Ops.Fixer
