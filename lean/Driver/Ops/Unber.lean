import Driver.Util
import Asn1cModel.Impl.Unber
import Asn1cModel.Impl.Enber
/-
  C20 ops (all texts are passed as hex of their bytes; `-` = empty):
    unber <hex input>        → `<status> <hex text>`   status = ok | fail:<diag> | oob | assertion | nofuel
    unber_st <hex input>     → `<status> <number of print events>` (no text: for deeply nested input, whose text is quadratic)
    unber_maxlevel           → the model's `UNBER_MAX_NESTING_LEVEL`
    enber <hex text>         → `ok <hex octets>` | `err:<diag> <hex octets>`
    enber_unber <hex input>  → enber applied to the text of unber (model only composition)
    tagfetch <hex> / lenfetch <0|1> <hex> : the TL primitives on a buffer with size = length
-/
namespace Driver.Ops.Unber
open Asn1c Driver Asn1c.Impl.Unber Asn1c.Impl.Enber Asn1c.Impl.UnberTlv

def errName : Err → String
  | .tooLongLimit => "tooLongLimit" | .tooLongBuf => "tooLongBuf" | .eofTL => "eofTL"
  | .badTag => "badTag" | .badLen => "badLen" | .tlMismatch => "tlMismatch"
  | .lenExceeds => "lenExceeds" | .eofV => "eofV" | .tooDeep => "tooDeep"

def statusName : Status → String
  | .ok => "ok" | .failed e => "fail:" ++ errName e | .oob => "oob" | .assertion => "assertion"
  | .nofuel => "nofuel"

def eerrName : EErr → String
  | .missingOpen => "missingOpen" | .charset => "charset" | .missingClose => "missingClose"
  | .multipleTags => "multipleTags" | .badForm => "badForm" | .pretty => "pretty"
  | .noAttr => "noAttr" | .badTLV => "badTLV" | .badClass => "badClass"
  | .badTagValue => "badTagValue" | .cannotEncodeTL => "cannotEncodeTL"
  | .badEntity => "badEntity" | .valueLength => "valueLength" | .overread => "overread"

def showLineRes (r : LineRes) : String :=
  match r.err with
  | none => s!"ok {toHex r.out}"
  | some e => s!"err:{eerrName e} {toHex r.out}"

def showFetchN : Fetch Nat → String
  | .ok v n => s!"ok {v} {n}" | .more => "more" | .fail => "fail" | .oob => "oob"
def showFetchI : Fetch Int → String
  | .ok v n => s!"ok {v} {n}" | .more => "more" | .fail => "fail" | .oob => "oob"

def run : Handler
  | ["unber", h] => some <| match parseHex h with
      | some bs => let (s, t) := unber bs; s!"{statusName s} {toHex t}"
      | none => bad
  | ["unber_st", h] => some <| match parseHex h with
      | some bs => let (s, o) := unberOuts bs; s!"{statusName s} {o.length}"
      | none => bad
  | ["unber_maxlevel"] => some s!"{maxLevel}"
  | ["enber", h] => some <| match parseHex h with
      | some t => showLineRes (enber t)
      | none => bad
  | ["enber_unber", h] => some <| match parseHex h with
      | some bs => let (s, t) := unber bs; s!"{statusName s} {showLineRes (enber t)}"
      | none => bad
  | ["tagfetch", h] => some <| match parseHex h with
      | some bs => showFetchN (fetchTag bs bs.length) | none => bad
  | ["lenfetch", c, h] => some <| match parseHex h with
      | some bs => showFetchI (fetchLength (c == "1") bs bs.length) | none => bad
  | _ => none

end Driver.Ops.Unber
