import Driver.Util
import Asn1cModel.Impl.Print
/-
  Line-protocol ops for C12 (printer model):

    print <module>        → the token text of `print m` (tokens separated by blanks)
    printrt <module>      → `ok` if parse (print m) succeeds and prints to the same token list, else `fail`

  <module> ::= NAME TD N {NAME TAG TY}            TD ::= - | E | I | A
  TAG ::= - | <c|a|p|u><number><d|i|e>
  TY  ::= P <builtin> CONS | I N {NAME INT} CONS | E N {ENTRY} | R NAME | C <s|t|c> {COMP} ; | L <0|1> SIZE TAG TY
  ENTRY ::= . | i NAME <-|INT>          COMP ::= x | m ID TAG TY MARKER        MARKER ::= n | o | d VAL
  CONS ::= - | v ESET | s ESET | a ESET | sa ESET ESET        SIZE ::= - | ESET
  ESET ::= N {ELEM} <0|1>     ELEM ::= 1 VAL | 2 VAL VAL     VAL ::= i<int> | min | max | s<hex> | d<ident> | T | F
-/
namespace Driver.Ops.C12
open Asn1c Asn1c.Print Driver

abbrev Q (α : Type) := List String → Option (α × List String)

def qTag : Q (Option Tag)
  | "-" :: r => some (none, r)
  | s :: r =>
    match s.toList with
    | c :: rest =>
      match rest.reverse with
      | m :: digs =>
        let cls? : Option TagClass := match c with
          | 'c' => some .ctx | 'a' => some .app | 'p' => some .priv | 'u' => some .univ | _ => none
        let mode? : Option TagMode := match m with
          | 'd' => some .dflt | 'i' => some .implicit | 'e' => some .explicit | _ => none
        match cls?, mode?, (String.ofList digs.reverse).toInt? with
        | some cl, some mo, some n => some (some ⟨cl, n, mo⟩, r)
        | _, _, _ => none
      | [] => none
    | [] => none
  | [] => none

def qVal : Q Val
  | "min" :: r => some (.min, r)
  | "max" :: r => some (.max, r)
  | "T" :: r => some (.tru, r)
  | "F" :: r => some (.fls, r)
  | s :: r =>
    match s.toList with
    | 'i' :: ds => (String.ofList ds).toInt?.map (fun i => (.int i, r))
    | 'd' :: ds => some (.ident (String.ofList ds), r)
    | 's' :: hs => (parseHex (String.ofList hs)).map (fun bs => (.str (String.ofList (bs.map Char.ofNat)), r))
    | _ => none
  | [] => none

def qElem : Q Elem
  | "1" :: r => (qVal r).map (fun (v, r) => (.single v, r))
  | "2" :: r =>
    match qVal r with
    | some (a, r1) => (qVal r1).map (fun (b, r2) => (.range a b, r2))
    | none => none
  | _ => none

def qRep {α} (q : Q α) : Nat → Q (List α)
  | 0, r => some ([], r)
  | n + 1, r =>
    match q r with
    | some (x, r1) => (qRep q n r1).map (fun (xs, r2) => (x :: xs, r2))
    | none => none

def qESet : Q ESet
  | n :: r =>
    match n.toNat? with
    | some (k + 1) =>
      match qRep qElem (k + 1) r with
      | some (e :: es, x :: r1) => some (⟨e, es, x != "0"⟩, r1)
      | _ => none
    | _ => none
  | [] => none

def qCons : Q (Option Cons)
  | "-" :: r => some (none, r)
  | "v" :: r => (qESet r).map (fun (s, r) => (some (.value s), r))
  | "s" :: r => (qESet r).map (fun (s, r) => (some (.size s), r))
  | "a" :: r => (qESet r).map (fun (s, r) => (some (.alpha s), r))
  | "sa" :: r =>
    match qESet r with
    | some (s, r1) => (qESet r1).map (fun (a, r2) => (some (.sizeAlpha s a), r2))
    | none => none
  | _ => none

def qBuiltin : String → Option Builtin
  | "BOOLEAN" => some .boolean | "NULL" => some .null | "REAL" => some .real | "OID" => some .oid
  | "RELOID" => some .reloid | "UTCTime" => some .utctime | "GeneralizedTime" => some .gentime
  | "BITSTRING" => some .bitstring | "OCTETSTRING" => some .octetstring | "IA5String" => some .ia5
  | "VisibleString" => some .visible | "PrintableString" => some .printable | "NumericString" => some .numeric
  | "UTF8String" => some .utf8 | "BMPString" => some .bmp | "UniversalString" => some .universal
  | _ => none

def qNamedItem : Q (String × Int)
  | n :: v :: r => v.toInt?.map (fun i => ((n, i), r))
  | _ => none

def qEntry : Q EEntry
  | "." :: r => some (.dots, r)
  | "i" :: n :: "-" :: r => some (.item n none, r)
  | "i" :: n :: v :: r => v.toInt?.map (fun i => (.item n (some i), r))
  | _ => none

def qMarker : Q Marker
  | "n" :: r => some (.none, r)
  | "o" :: r => some (.optional, r)
  | "d" :: r => (qVal r).map (fun (v, r) => (.dflt v, r))
  | _ => none

mutual
partial def qTy : Q Ty
  | "P" :: b :: r =>
    match qBuiltin b with
    | some b => (qCons r).map (fun (c, r) => (.prim b c, r))
    | none => none
  | "I" :: n :: r =>
    match n.toNat? with
    | some k =>
      match qRep qNamedItem k r with
      | some (items, r1) => (qCons r1).map (fun (c, r2) => (.integer items c, r2))
      | none => none
    | none => none
  | "E" :: n :: r =>
    match n.toNat? with
    | some k => (qRep qEntry k r).map (fun (es, r1) => (.enumerated es, r1))
    | none => none
  | "R" :: n :: r => some (.ref n, r)
  | "C" :: k :: r =>
    let kind? : Option CKind := match k with
      | "s" => some .sequence | "t" => some .set | "c" => some .choice | _ => none
    match kind?, qComps r with
    | some kd, some (cs, r1) => some (.constr kd cs, r1)
    | _, _ => none
  | "L" :: s :: r =>
    let sz? : Option (Option ESet × List String) := match r with
      | "-" :: r1 => some (none, r1)
      | _ => (qESet r).map (fun (e, r1) => (some e, r1))
    match sz? with
    | some (sz, r1) =>
      match qTag r1 with
      | some (tag, r2) => (qTy r2).map (fun (t, r3) => (.listOf (s != "0") sz tag t, r3))
      | none => none
    | none => none
  | _ => none
partial def qComps : Q Comps
  | ";" :: r => some (.nil, r)
  | "x" :: r => (qComps r).map (fun (rest, r1) => (.ext rest, r1))
  | "m" :: id :: r =>
    match qTag r with
    | some (tag, r1) =>
      match qTy r1 with
      | some (t, r2) =>
        match qMarker r2 with
        | some (m, r3) => (qComps r3).map (fun (rest, r4) => (.comp id tag t m rest, r4))
        | none => none
      | none => none
    | none => none
  | _ => none
end

def qAssignment : Q Assignment
  | n :: r =>
    match qTag r with
    | some (tag, r1) => (qTy r1).map (fun (t, r2) => (⟨n, tag, t⟩, r2))
    | none => none
  | [] => none

def qModule : List String → Option Module
  | name :: td :: n :: r =>
    let td? : Option (Option TagDefault) := match td with
      | "-" => some none | "E" => some (some .explicit) | "I" => some (some .implicit)
      | "A" => some (some .automatic) | _ => none
    match td?, n.toNat? with
    | some td, some k =>
      match qRep qAssignment k r with
      | some (as, []) => some ⟨name, td, as⟩
      | _ => none
    | _, _ => none
  | _ => none

def run : Handler
  | "print" :: r =>
    some (match qModule r with
          | some m => render (print m)
          | none => bad)
  | "printrt" :: r =>
    some (match qModule r with
          | some m =>
            (match parse (print m) with
             | some m' => if print m' == print m then "ok" else "fail reprint"
             | none => "fail parse")
          | none => bad)
  | _ => none

end Driver.Ops.C12
