import Driver.Util
import Asn1cModel.L2.Resolve
import Asn1cModel.L2.Der
namespace Driver.Ops.L2
open Asn1c Asn1c.L2 Driver

/-- ops on the current module: `@Type l2enc der <val>` / `@Type l2dec ber <hex>` / `@Type l2ty` -/
def runDer (ctx : ModCtx) (tyName : String) : List String → String
  | "l2enc" :: "der" :: vwords =>
    match resolveNamed ctx tyName, (Sexp.parseWords vwords).bind parseVal with
    | some t, some v =>
      match encDER t v with
      | some bs => "ok " ++ toHex bs
      | none => "fail"
    | none, _ => "unsupported-type"
    | _, none => "bad-value"
  | ["l2dec", "ber", h] =>
    match resolveNamed ctx tyName, parseHex h with
    | some t, some bs =>
      match decBER (bs.length + 2) t bs with
      | .ok v rest => s!"ok {bs.length - rest.length} " ++ showVal v
      | .more => "more"
      | .fail => "fail"
    | none, _ => "unsupported-type"
    | _, none => "bad-hex"
  | ["l2ty"] =>
    match resolveNamed ctx tyName with
    | some t => reprStr t
    | none => "unsupported-type"
  | _ => bad

/-- sub-handlers for further syntaxes: `none` = not mine -/
abbrev SubHandler := ModCtx → String → List String → Option String

def derHandler : SubHandler := fun ctx ty toks =>
  match toks with
  | "l2enc" :: "der" :: _ => some (runDer ctx ty toks)
  | ["l2dec", "ber", _] => some (runDer ctx ty toks)
  | ["l2ty"] => some (runDer ctx ty toks)
  | _ => none

end Driver.Ops.L2
