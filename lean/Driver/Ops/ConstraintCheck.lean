import Driver.Util
import Asn1cModel.Sexp
import Asn1cModel.Impl.ConstraintCheckDom
/-! Line-protocol ops of C08.

  `c08 <Name> <type> | <value>`      → `ok` | `fail <why> <td-name>`   (Impl.check)
  `c08sat <type> | <value>`          → `sat` | `unsat`                              (Spec.satisfies)
  `c08dom <Name> <type> | <value>`   → `in` | `out`                                 (guard domain of the theorem)
  `c08errbuf <errlen> <msg hex>`     → `<octets written, hex> <errlen afterwards>`  (Impl.ctfail)
  `c08emit <ns|-> <ne|-> <cons>`     → the emitted comparison text

  type  ::= (bool) | (null) | (enum) | (int C) | (str K C C) | (seq M*) | (set M*) | (choice M*)
          | (listof set|seq C type) | (named Name type)
  M     ::= (m id 0|1 type)
  C     ::= - | (c (lo hi)*)        lo ::= int | min      hi ::= int | max
  K     ::= octet | bit | ia5 | visible | printable | numeric | utf8 | bmp | universal
  value ::= the s-expressions of harness/reflect.c
-/
namespace Driver.Ops.ConstraintCheck
open Asn1c Asn1c.Spec.ConstraintCheck Asn1c.Impl.ConstraintCheck Driver

def parseBound (s : String) : Option (Option Int) :=
  if s == "min" || s == "max" || s == "-" then some none else (parseInt s).map some

def parseRange : Sexp → Option Range
  | .list [.atom a, .atom b] => do
      let lo ← parseBound a; let hi ← parseBound b; pure ⟨lo, hi⟩
  | _ => none

def parseCons : Sexp → Option (Option Cons)
  | .atom "-" => some none
  | .list (.atom "c" :: rs) => (rs.mapM parseRange).map some
  | _ => none

def parseKind : String → Option StrKind
  | "octet" => some .octet | "bit" => some .bit | "ia5" => some .ia5 | "visible" => some .visible
  | "printable" => some .printable | "numeric" => some .numeric | "utf8" => some .utf8
  | "bmp" => some .bmp | "universal" => some .universal | _ => none

mutual
partial def parseTy : Sexp → Option Ty
  | .list [.atom "bool"] => some .bool
  | .list [.atom "null"] => some .null
  | .list [.atom "enum"] => some .enumerated
  | .list [.atom "int", c] => (parseCons c).map .int
  | .list [.atom "str", .atom k, s, a] => do
      let k ← parseKind k; let s ← parseCons s; let a ← parseCons a; pure (.str k s a)
  | .list (.atom "seq" :: ms) => (parseMembers ms).map .seq
  | .list (.atom "set" :: ms) => (parseMembers ms).map .set
  | .list (.atom "choice" :: ms) => (parseMembers ms).map .choice
  | .list [.atom "listof", .atom w, s, e] => do
      let s ← parseCons s; let e ← parseTy e; pure (.listOf (w == "set") s e)
  | .list [.atom "named", .atom n, t] => (parseTy t).map (.named n)
  | _ => none
partial def parseMembers : List Sexp → Option Members
  | [] => some .nil
  | .list [.atom "m", .atom id, .atom o, t] :: rest => do
      let t ← parseTy t; let r ← parseMembers rest; pure (.cons id (o == "1") t r)
  | _ => none
end

partial def parseVal : Sexp → Option Val
  | .list [.atom "bool", .atom b] => some (.bool (b != "f" && b != "0"))
  | .list [.atom "null"] => some .null
  | .list [.atom "int", .atom i] => (parseInt i).map .int
  | .list [.atom "enum", .atom i] => (parseInt i).map .enum
  | .list [.atom "os", .atom h] => (parseHex h).map .octets
  | .list [.atom "bs", .atom h, .atom u] => do
      let bs ← parseHex h; let u ← parseNat u; pure (.bits bs u)
  | .list (.atom "seq" :: fs) => (fs.mapM parseField).map .struct
  | .list (.atom "set" :: fs) => (fs.mapM parseField).map .struct
  | .list [.atom "choice", .atom "-none"] => some .choiceNone
  | .list [.atom "choice", .atom "-bad"] => some .choiceNone
  | .list [.atom "choice", .atom id, v] => (parseVal v).map (.choice id)
  | .list (.atom "list" :: vs) => (vs.mapM parseVal).map .list
  | _ => none
where
  parseField : Sexp → Option (String × Val)
    | .list [.atom id, v] => (parseVal v).map (id, ·)
    | _ => none

def splitBar (ws : List String) : Option (List String × List String) :=
  match ws.span (· != "|") with
  | (a, _ :: b) => some (a, b)
  | _ => none

def showWhy : Why → String
  | .constraintFailed => "constraint" | .valueTooLarge => "toolarge" | .utf8Broken => "utf8"
  | .alphabet => "alphabet" | .badSize => "badsize" | .padding => "padding" | .absent => "absent"
  | .noChoice => "nochoice" | .illTyped => "illtyped"

def showVerdict : Verdict → String
  | .ok => "ok"
  | .fail n w => s!"fail {showWhy w} {n}"

def showCmp : Cmp → String
  | .le c => s!"(x <= {c})" | .ge c => s!"(x >= {c})" | .eq c => s!"(x == {c})"
  | .between a b => s!"(x >= {a} && x <= {b})"

def parseTV (ws : List String) : Option (Ty × Val) := do
  let (a, b) ← splitBar ws
  let t ← (Sexp.parseWords a).bind parseTy
  let v ← (Sexp.parseWords b).bind parseVal
  pure (t, v)

def run : Handler
  | "c08" :: name :: ws => some <| match parseTV ws with
      | some (t, v) => showVerdict (check name t v)
      | none => bad
  | "c08sat" :: ws => some <| match parseTV ws with
      | some (t, v) => if satisfies t v then "sat" else "unsat"
      | none => bad
  | "c08dom" :: name :: ws => some <| match parseTV ws with
      | some (t, v) => if dom name t v then "in" else "out"
      | none => bad
  | ["c08errbuf", n, h] => some <| match parseNat n, parseHex h with
      | some n, some msg => let (w, e) := ctfail n msg; s!"{toHex w} {e}"
      | _, _ => bad
  | "c08emit" :: ns :: ne :: ws => some <| match parseBound ns, parseBound ne, (Sexp.parseWords ws).bind parseCons with
      | some ns, some ne, some (some rs) =>
          let code := emitRange rs ns ne
          if code.isEmpty then "empty" else String.intercalate " || " (code.map showCmp)
      | _, _, _ => bad
  | _ => none

end Driver.Ops.ConstraintCheck
