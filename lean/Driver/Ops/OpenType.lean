import Driver.Util
import Asn1cModel.Impl.OpenType
/-
  Line-protocol ops for Impl.OpenType (property C18).
    c18tbl <items>                      items ';'-separated: `e` | `u:<id>:<ty>,<id>:<ty>…`
    c18sel <tbl> <id>                   tbl: `<id>:<ty>,…` | `-`
    c18get <ber|uper|xer> <tbl> <nelems> <ptr 0|1> <id> <outcomes>
                                        outcomes: one of o|m|f per type index
                                        => `ok <presence>` | `<fail|more|crash> <null|presence>` (member storage afterwards)
    c18oput <bits>                      uper_open_type_put of a stand-alone encoding
    c18oget <k> <bits>                  uper_open_type_get with a row decoder that needs exactly k bits
-/
namespace Driver.Ops.OpenType
open Asn1c Asn1c.Impl.OpenType Driver

def parseRow (s : String) : Option (Row Int) :=
  match s.splitOn ":" with
  | [a, b] => do let i ← parseInt a; let t ← parseNat b; pure ⟨i, t⟩
  | _ => none

def parseRows (s : String) : Option (List (Row Int)) :=
  if s == "-" then some [] else (s.splitOn ",").mapM parseRow

def parseItem (s : String) : Option (SetItem Int) :=
  if s == "e" then some .ext
  else if s.startsWith "u:" then (parseRows (s.drop 2).toString).map .union
  else none

def showRows (t : Table Int) : String :=
  if t.isEmpty then "-" else ",".intercalate (t.map fun r => s!"{r.id}:{r.ty}")

def outcomeOf (s : String) (ty : Nat) : Char := (s.toList[ty]?).getD 'f'

def showRes : DecRes (OpenVal Unit) → String
  | .ok ov _ => s!"ok {ov.present}"
  | .more => "more"
  | .fail => "fail"
  | .crash => "crash"

/-- outcome + the member's storage after the call (`slotAfter`): `ok 2` | `fail null` | `fail 0` | … -/
def showGet (m : Member) (r : DecRes (OpenVal Unit)) : String :=
  match r with
  | .ok _ _ => showRes r
  | _ => showRes r ++ " " ++ (match slotAfter m r with | none => "null" | some p => toString p)

def run : Handler
  | ["c18tbl", items] => some <|
      match (items.splitOn ";").mapM parseItem with
      | some its =>
        let b := buildTable its
        s!"ext={if b.extensible then 1 else 0} n={b.rows.length} rows={showRows b.rows}"
      | none => bad
  | ["c18sel", tbl, id] => some <|
      match parseRows tbl, parseInt id with
      | some t, some i =>
        let s := select t i
        s!"{s.presence} {match s.ty with | some ty => toString ty | none => "-"}"
      | _, _ => bad
  | ["c18get", syn, tbl, nelems, ptr, id, outs] => some <|
      match parseRows tbl, parseNat nelems, parseInt id with
      | some t, some n, some i =>
        let m : Member := ⟨n, ptr == "1"⟩
        match syn with
        | "ber" =>
          showGet m (berGet t m (fun ty (_ : Bytes) =>
            match outcomeOf outs ty with | 'o' => .ok () 1 | 'm' => .more | _ => .fail) i [0])
        | "uper" =>
          showGet m (otGet t m false (fun ty (_ : Bits) =>
            match outcomeOf outs ty with | 'o' => .ok () 1 | 'm' => .more | _ => .fail) i [false])
        | "xer" =>
          showGet m (xerGet t m "value" (fun ty _ =>
            match outcomeOf outs ty with | 'o' => .ok () 1 | 'm' => .more | _ => .fail) i
            [.text, .opening "value", .body 0, .text, .closing "value"])
        | _ => bad
      | _, _, _ => bad
  | ["c18oput", bits] => some <|
      match parseBits bits with
      | some b => bitsToString (openPut b)
      | none => bad
  | ["c18oget", k, bits] => some <|
      match parseNat k, parseBits bits with
      | some k, some b =>
        match openGet (fun buf => if buf.length ≥ k then PerRes.ok () k else PerRes.more) b with
        | .ok _ c => s!"ok {c}"
        | .more => "more"
        | .fail => "fail"
        | .crash => "crash"
      | _, _ => bad
  | _ => none

end Driver.Ops.OpenType
