import Driver.Util
import Asn1cModel.Impl.StackGuard
/-! Line-protocol ops of the C15 model (stack guard, heap ledger). -/
namespace Driver.Ops.StackGuard
open Asn1c Asn1c.Impl.StackGuard Asn1c.Impl.BerTlv Driver

def optNat (s : String) : Option (Option Nat) :=
  if s == "-" then some none else (parseNat s).map some

def showHeap (rc : Outcome) (consumed : Nat) (h : Heap) : String :=
  s!"{rc.name} {consumed} allocs={h.allocs} peak={h.peak} live={h.live}"

def run : Handler
  | ["c15nest", g, mx, phys, first, d, depth] => some <|
      -- `first` = stack used when the outermost decoder runs its check, `d` = cost of every further level
      match parseNat mx, parseNat phys, parseNat first, parseNat d, parseNat depth with
      | some mx, some phys, some first, some d, some depth =>
        let frames := match depth with
          | 0 => []
          | k + 1 => first :: List.replicate k d
        let r := nestL (g == "1") mx phys 0 frames
        s!"{r.1.name} started={r.2}"
      | _, _, _, _, _ => bad
  | ["c15guarded", name] => some (if isGuarded name then "guarded" else "unguarded")
  | ["c15berprim", chk, cls, num, hex] => some <|
      match parseNat cls, parseNat num, parseHex hex with
      | some cls, some num, some bs =>
        let r := berPrimitive (chk == "1") ⟨cls, num⟩ bs
        showHeap r.rc r.consumed r.heap
      | _, _, _ => bad
  | ["c15osoer", ssz, ct, unit, hex] => some <|
      match parseNat ssz, optNat ct, parseNat unit, parseHex hex with
      | some ssz, some ct, some unit, some bs =>
        let r := osOer ssz ct unit bs
        showHeap r.rc r.consumed r.heap
      | _, _, _, _ => bad
  | ["c15setofuper", ssz, esz, w, rep0, eb, lb, hex] => some <|
      match parseNat ssz, parseNat esz, parseNat w, optNat eb, parseNat lb, parseHex hex with
      | some ssz, some esz, some w, some eb, some lb, some bs =>
        let c : SetOfCfg := ⟨ssz, esz, w, rep0 == "1", Generated.StackGuard.zeroWidthLimitUper⟩
        let bits := bytesToBits bs
        let r := setOfUper c (eb.map (fun e => (e, lb))) bits
        let fin := uperComplete bs.length (bs.headD 0) r.1 (bits.length - r.2.1.length)
        showHeap fin.1 fin.2 r.2.2.h
      | _, _, _, _, _, _ => bad
  | ["c15setofoer", ssz, esz, w, rep0, hex] => some <|
      match parseNat ssz, parseNat esz, parseNat w, parseHex hex with
      | some ssz, some esz, some w, some bs =>
        let c : SetOfCfg := ⟨ssz, esz, w, rep0 == "1", Generated.StackGuard.zeroWidthLimitOer⟩
        let r := setOfOer c bs
        let consumed := match r.1 with
          | .ok => bs.length - r.2.1.length
          | .more => bs.length - r.2.1.length
          | _ => 0
        showHeap r.1 consumed r.2.2.h
      | _, _, _, _ => bad
  | ["c15osuper", ssz, bpc, u, eb, lb, ub, hex] => some <|
      match parseNat ssz, parseNat bpc, parseNat u, optNat eb, parseNat lb, parseNat ub, parseHex hex with
      | some ssz, some bpc, some u, some eb, some lb, some ub, some bs =>
        let bits := bytesToBits bs
        let r := osUper ssz bpc u (eb.map (fun e => (e, lb, ub))) bits
        let fin := uperComplete bs.length (bs.headD 0) r.rc (bits.length - r.rest.length)
        showHeap fin.1 fin.2 r.h ++ s!" rounds={r.rounds}"
      | _, _, _, _, _, _, _ => bad
  | ["c15osber", ssz, depth, len] => some <|
      match parseNat ssz, parseNat depth, parseNat len with
      | some ssz, some depth, some len => s!"peak={osBerPeak ssz depth len}"
      | _, _, _ => bad
  | ["c15appendcap", ns, es] => some <|
      match parseNat ns, parseNat es with
      | some ns, some es => toString (appendCap ns es)
      | _, _ => bad
  | _ => none

end Driver.Ops.StackGuard
