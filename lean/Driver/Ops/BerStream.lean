import Driver.Util
import Driver.Ops.L2
import Asn1cModel.Impl.BerStream
/-
  Ops for the streaming BER decoder model (C05 / C04 K leg).
  The descriptor of a type is the C driver's `@Type descr` dump (harness/reflect.c: rf_dump_descr), passed as
  the "definition" of the type in the `l2mod` line:   l2mod (module none (T <descr of T>) (U <descr of U>) …)
    @T l2chunks ber <hex> <cut1,cut2,…|->   →  exactly what the C op `decchunks ber` prints
    @T l2sdescr                             →  ok <in-theorem-domain 0|1> | not-modelled <why>
-/
namespace Driver.Ops.BerStream
open Asn1c Asn1c.Impl.BerTlv Asn1c.Impl.Restart Asn1c.Impl.BerStream Driver

/-- names / print kinds parallel to a `TD` (driver side only) -/
inductive NT where
  | leaf (kind : String)
  | node (names : List String) (kids : List NT)
deriving Inhabited

def kv (xs : List Sexp) (key : String) : Option String :=
  xs.findSome? fun
    | .atom a => if a.startsWith (key ++ "=") then some (a.drop (key.length + 1)).toString else none
    | _ => none

/-- the list following the atom `key=` -/
def listAfter : List Sexp → String → Option (List Sexp)
  | .atom a :: .list l :: rest, key => if a == key ++ "=" then some l else listAfter (.list l :: rest) key
  | _ :: rest, key => listAfter rest key
  | [], _ => none

def parseTag (s : String) : Option Tag :=
  match s.splitOn ":" with
  | [c, n] => match c.toNat?, n.toNat? with
    | some c, some n => some ⟨c, n⟩
    | _, _ => none
  | _ => none

def parseTags : Sexp → Option (List Tag)
  | .list xs => xs.mapM fun | .atom a => parseTag a | _ => none
  | _ => none

def parseT2M (s : String) : Option T2M :=
  match s.splitOn ">" with
  | [t, r] =>
    match parseTag t, (r.splitOn "/").map String.toInt? with
    | some tag, [some n] => some ⟨tag, n.toNat, 0, 0⟩
    | some tag, [some n, some f, some l] => some ⟨tag, n.toNat, f, l⟩
    | _, _ => none
  | _ => none

def parseT2E (xs : List Sexp) : Option (List T2M) :=
  (listAfter xs "t2e").bind fun l => l.mapM fun | .atom a => parseT2M a | _ => none

structure PEnv where
  done : List (String × TD × NT) := []
  dup : List String := []

abbrev PR := Except String ((TD × NT) × PEnv)

def findSub (xs : List Sexp) (head : String) : Option (List Sexp) :=
  xs.findSome? fun
    | .list (.atom h :: rest) => if h == head then some rest else none
    | _ => none

mutual
partial def parseType (env : PEnv) : Sexp → PR
  | .list (.atom "ref" :: nameAtoms) =>
    let name := String.intercalate " " (nameAtoms.filterMap fun | .atom a => some a | _ => none)
    if env.dup.contains name then .error s!"ambiguous-ref {name}"
    else match env.done.lookup name with
      | some r => .ok (r, env)
      | none => .error s!"recursive {name}"
  | .list (.atom "type" :: rest0) =>
    -- td->name may contain spaces ("OCTET STRING"): the kind is the last atom before the first list
    let heads := (rest0.takeWhile fun | .atom _ => true | _ => false).filterMap fun | .atom a => some a | _ => none
    let rest := rest0.dropWhile fun | .atom _ => true | _ => false
    let name := String.intercalate " " heads.dropLast
    let kind := heads.getLastD ""
    match (findSub rest "tags").bind (·.head?) |>.bind parseTags, (findSub rest "alltags").bind (·.head?) |>.bind parseTags with
    | some tags, some allTags =>
      let spec := (findSub rest "spec").getD []
      let finish (r : TD × NT) (env : PEnv) : PR :=
        let env' : PEnv := if env.done.any (·.1 == name) then { env with dup := name :: env.dup }
                           else { env with done := (name, r) :: env.done }
        .ok (r, env')
      let leaf (k : PKind) (pk : String) := finish (.prim tags allTags k, .leaf pk) env
      match kind with
      | "boolean" => leaf .boolean "bool"
      | "null" => leaf .null "null"
      | "nint" => leaf (.nint (kv spec "unsigned" == some "1")) "int"
      | "nenum" => leaf (.nint (kv spec "unsigned" == some "1")) "enum"
      | "int" => leaf (.prim true) "wint"
      | "enum" => leaf (.prim true) "wenum"
      | "prim" => leaf (.prim false) "oid"
      | "octets" => leaf (.ostr false) "os"
      | "bits" => leaf (.ostr true) "bs"
      | "sequence" | "choice" | "setof" | "seqof" =>
        match parseMembers env ((findSub rest "members").getD []) with
        | .error e => .error e
        | .ok (ms, env1) =>
          let tds := ms.map (·.2.2.1)
          let es := ms.map (·.2.1)
          let nt := NT.node (ms.map (·.1)) (ms.map (·.2.2.2))
          if kind == "sequence" then
            match (kv spec "first_ext").bind String.toInt?, parseT2E spec with
            | some fe, some t2e => finish (.seq tags tds es fe t2e, nt) env1
            | _, _ => .error "bad-seq-spec"
          else if kind == "choice" then
            match (kv spec "ext_start").bind String.toInt?, parseT2E spec with
            | some xs, some t2e => finish (.choice tags tds es xs t2e, nt) env1
            | _, _ => .error "bad-choice-spec"
          else
            match tds, es with
            | [e], [el] => finish (.setOf tags e el, nt) env1
            | _, _ => .error "bad-setof"
      | k => .error s!"kind {k}"
    | _, _ => .error "bad-tags"
  | _ => .error "bad-descr"
partial def parseMembers (env : PEnv) : List Sexp → Except String (List (String × Elem × TD × NT) × PEnv)
  | [] => .ok ([], env)
  | .list (.atom "m" :: .atom name :: rest) :: more =>
    match kv rest "flags" |>.bind String.toNat?, kv rest "opt" |>.bind String.toNat?,
          kv rest "tag" |>.bind parseTag, kv rest "mode" |>.bind String.toInt?, rest.getLast? with
    | some flags, some opt, some tag, some mode, some ty =>
      if flags / 2 % 2 == 1 then .error "open-type-member"
      else
        match parseType env ty with
        | .error e => .error e
        | .ok ((td, nt), env1) =>
          match parseMembers env1 more with
          | .error e => .error e
          | .ok (ms, env2) => .ok ((name, ⟨tag, mode, opt, flags / 4 % 2 == 1⟩, td, nt) :: ms, env2)
    | _, _, _, _, _ => .error "bad-member"
  | _ => .error "bad-member"
end

def loadTD (ctx : Asn1c.L2.ModCtx) (name : String) : Except String (TD × NT) :=
  match ctx.env.lookup name with
  | none => .error "no-such-type"
  | some sx => (parseType {} sx).map (·.1)

/-! ### value printing in the format of harness/reflect.c rf_dump -/

def hexOrDash (bs : Bytes) : String := toHex bs

def twos (bs : Bytes) : Int :=
  match bs with
  | [] => 0
  | b :: _ => if b < 128 then (ofBE 0 bs : Int) else (ofBE 0 bs : Int) - 256 ^ bs.length

mutual
partial def showNode : TD → NT → Node → String
  | .prim _ _ _, .leaf k, .prim (some v) =>
    match k, v with
    | "bool", .bool b => if b ≠ 0 then "(bool t)" else "(bool f)"
    | "null", _ => "(null)"
    | "int", .int z => s!"(int {z})"
    | "enum", .int z => s!"(enum {z})"
    | "wint", .bytes bs =>
      let s := Asn1c.Impl.Integer.strip bs
      if s.length > 16 then "(int-octets " ++ hexOrDash bs ++ ")" else s!"(int {twos s})"
    | "wenum", .bytes bs =>
      let s := Asn1c.Impl.Integer.strip bs
      if s.length > 16 then "(int-octets " ++ hexOrDash bs ++ ")" else s!"(enum {twos s})"
    | "oid", .bytes bs => "(oid " ++ hexOrDash bs ++ ")"
    | _, _ => "(?)"
  | .prim _ _ _, .leaf "null", .prim none => "(null)"
  | .prim _ _ _, .leaf "os", .ostr _ _ buf _ _ => "(os " ++ hexOrDash buf ++ ")"
  | .prim _ _ _, .leaf "bs", .ostr _ _ buf u _ => "(bs " ++ hexOrDash buf ++ s!" {u})"
  | .seq _ ms es _ _, .node names kids, .seq _ ns _ =>
    "(seq" ++ showMembers ms es names kids ns ++ ")"
  | .setOf _ e _, .node _ [k], .setOf _ elems _ =>
    "(list" ++ String.join (elems.map fun n => " " ++ showNode e k n) ++ ")"
  | .choice _ ms _ _ _, .node names kids, .choice _ present m =>
    if present == 0 || present > ms.length then "(choice -none)"
    else "(choice " ++ names.getD (present - 1) "?" ++ " " ++
      showNode (ms.getD (present - 1) default) (kids.getD (present - 1) default) m ++ ")"
  | _, _, .none => "(nullptr)"
  | _, _, _ => "(?)"
partial def showMembers : List TD → List Elem → List String → List NT → List Node → String
  | m :: ms, _ :: es, nm :: names, k :: kids, n :: ns =>
    (match n with
     | .none => ""
     | n => " (" ++ nm ++ " " ++ showNode m k n ++ ")") ++ showMembers ms es names kids ns
  | _, _, _, _, _ => ""
end

/-! ### the manual's restart protocol, as coded in harness/ops_gen_core.c `decchunks` -/

def rcName : Rc → String
  | .ok => "ok" | .more => "more" | .fail => "fail"

/-- returns (per-step text, final rc, total, final node) -/
partial def chunkLoop (td : TD) (b : Bytes) (len : Nat) : List Nat → Node → Nat → Nat → Rc → String → String × Rc × Nat × Node
  | [], st, _, total, rc, acc => (acc, rc, total, st)
  | c :: cs, st, start, total, rc, acc =>
    let upto := min c len
    if upto < start then chunkLoop td b len cs st start total rc acc
    else
      let chunk := (b.drop start).take (upto - start)
      let r := dec td 0 st chunk
      if r.2.2 > chunk.length then (acc ++ "OVERCONSUMED ", r.2.1, total, r.1)
      else
        let start' := start + r.2.2
        let total' := total + r.2.2
        if r.2.1 != .more then (acc, r.2.1, total', r.1)
        else
          let acc' := if cs.isEmpty then acc else acc ++ s!"{rcName r.2.1}:{r.2.2} "
          chunkLoop td b len cs r.1 start' total' r.2.1 acc'

def parseCuts (s : String) : Option (List Nat) :=
  if s == "-" then some [] else (s.splitOn ",").mapM String.toNat?

def run (ctx : Asn1c.L2.ModCtx) (tyName : String) : List String → Option String
  | ["l2chunks", "ber", h, cutS] =>
    match loadTD ctx tyName with
    | .error e => some ("not-modelled " ++ e)
    | .ok (td, nt) =>
      match parseHex h, parseCuts cutS with
      | some b, some cuts =>
        let len := b.length
        let (acc, rc, total, st) := chunkLoop td b len (cuts ++ [len]) .none 0 0 .more ""
        let v := if rc == .ok then (match st with | .none => "-" | n => showNode td nt n) else "-"
        some (acc ++ s!"final {rcName rc} {total} " ++ v)
      | _, _ => some bad
  | ["l2sdescr"] =>
    match loadTD ctx tyName with
    | .error e => some ("not-modelled " ++ e)
    | .ok (td, _) => some (s!"ok {if inDomain td then 1 else 0}")
  | _ => none

def handler : Driver.Ops.L2.SubHandler := fun ctx ty toks => run ctx ty toks

end Driver.Ops.BerStream
