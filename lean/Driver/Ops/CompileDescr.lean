import Driver.Util
import Asn1cModel.L2.Resolve
import Asn1cModel.Impl.CompileDescr
import Asn1cModel.Impl.CompileDescrL2
/-
  Driver op of the compiler model (C10 "compile" leg).  Stateful L2 handler: after `l2mod <module-sexp>`,

    @Type l2descr <opts> <names-sexp>

  prints the descriptor graph the model assigns to the top-level type, in the format of `rf_dump_descr`
  (skeleton descriptors as `(skel NAME kind)`).
    <opts>  = `-` or a comma separated subset of wide,indirect,noper,nooer
    <names> = `((path id id …) …)`: identifiers of the items of every ENUMERATED, keyed by the path of the type
              expression (`T`, `T.member`, `T.member.@` for the element of SET OF / SEQUENCE OF).
-/
namespace Driver.Ops.CompileDescr
open Asn1c Asn1c.L2 Driver Asn1c.Impl.CompileDescr

def parseOpts (s : String) : Opts :=
  let ws := s.splitOn ","
  { wide := ws.contains "wide", indirectChoice := ws.contains "indirect",
    genPER := !ws.contains "noper", genOER := !ws.contains "nooer" }

def parseNames : Sexp → Names
  | .list xs => xs.filterMap fun
    | .list (.atom p :: ids) => some (p, ids.filterMap fun | .atom a => some a | _ => none)
    | _ => none
  | _ => []

def moduleOf (ctx : ModCtx) : Option Module :=
  (ctx.env.mapM fun (ne : String × Sexp) => (parseTy 64 ne.2).map fun t => (ne.1, t)).map fun ts => ⟨ctx.tagDefault, ts⟩

def handler : ModCtx → String → List String → Option String
  | ctx, ty, "l2descr" :: optS :: nameWords =>
    match moduleOf ctx with
    | none => some "unsupported-module"
    | some M =>
      let nm := match Sexp.parseWords nameWords with | some sx => parseNames sx | none => []
      match compileDescr M (parseOpts optS) nm ty with
      | some d => some (showDescr d)
      | none => some "unknown-type"
  /- `@Type l2same`: does the total restatement `toL2` agree with `L2.resolveNamed` on this type? -/
  | ctx, ty, ["l2same"] =>
    match moduleOf ctx with
    | none => some "unsupported-module"
    | some M =>
      let a := toL2Named M ty
      let b := resolveNamed ctx ty
      if reprStr a == reprStr b then some (if a.isSome then "same" else "same-none") else some "differ"
  | _, _, _ => none

end Driver.Ops.CompileDescr
