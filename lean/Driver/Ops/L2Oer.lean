import Driver.Util
import Driver.Ops.L2
import Asn1cModel.L2.Oer
namespace Driver.Ops.L2Oer
open Asn1c Asn1c.L2 Asn1c.L2.Oer Driver

/-- `@Type l2enc oer <val>` → `ok <hex>` | `fail`   (canonical OER, X.696)
    `@Type l2enc oer-unsorted <val>`               (SET OF elements in the given order: classifies F55)
    `@Type l2dec oer <hex>` → `ok <consumed> <val>` | `more` | `fail`
    `@Type l2oty` → the OER view of the type -/
def run (ctx : ModCtx) (tyName : String) : List String → String
  | "l2enc" :: syn :: vwords =>
    match resolveONamed ctx tyName, (Sexp.parseWords vwords).bind parseVal with
    | some t, some v =>
      match encOER (if syn == "oer-unsorted" then unsortTy t else t) v with
      | some bs => "ok " ++ toHex bs
      | none => "fail"
    | none, _ => "unsupported-type"
    | _, none => "bad-value"
  | ["l2dec", _, h] =>
    match resolveONamed ctx tyName, parseHex h with
    | some t, some bs =>
      match decOER t bs with
      | .ok v rest => s!"ok {bs.length - rest.length} " ++ showVal v
      | .more => "more"
      | .fail => "fail"
    | none, _ => "unsupported-type"
    | _, none => "bad-hex"
  | ["l2oty"] =>
    match resolveONamed ctx tyName with
    | some t => reprStr t
    | none => "unsupported-type"
  | _ => bad

def oerHandler : Driver.Ops.L2.SubHandler := fun ctx ty toks =>
  match toks with
  | "l2enc" :: "oer" :: _ => some (run ctx ty toks)
  | "l2enc" :: "oer-unsorted" :: _ => some (run ctx ty toks)
  | ["l2dec", "oer", _] => some (run ctx ty toks)
  | ["l2oty"] => some (run ctx ty toks)
  | _ => none

end Driver.Ops.L2Oer
