import Driver.Util
import Driver.Ops.L2
import Asn1cModel.L2.Oer
import Asn1cModel.L2.OerVariants
namespace Driver.Ops.L2Oer
open Asn1c Asn1c.L2 Asn1c.L2.Oer Driver
open Asn1c.L2.OerVar (VSt Kind encV permSetOf)


/-- `-` = absent, `e` = present with empty contents, `<hex>` = present with these contents -/
def parseExtra (s : String) : Option (List (Option Bytes)) :=
  (s.splitOn ",").mapM fun w =>
    if w == "-" then some none else if w == "e" then some (some []) else (parseHex w).map some

/-- `<kind>[:<param>]` and `<index>[+]` → the variant selector (`setof` is a value permutation, not a `Kind`) -/
def parseVar (kind idx : String) : Option (VSt × Bool) :=
  let (k, p) := match kind.splitOn ":" with
    | [k] => (k, "0")
    | [k, p] => (k, p)
    | _ => ("?", "0")
  let (all, istr) := if idx.endsWith "+" then (true, (idx.dropEnd 1).toString) else (false, idx)
  match istr.toNat? with
  | none => none
  | some i =>
    let mk (kd : Kind) : Option (VSt × Bool) := p.toNat?.map fun n => ({ kind := kd, skip := i, all := all, param := n }, false)
    if k == "none" then some ({}, false)
    else if k == "bool" then mk .boolTrue
    else if k == "enum" then mk .enumLong
    else if k == "len" then mk .lenLong
    else if k == "older" then mk .older
    else if k == "newer" then (parseExtra p).map fun ex => ({ kind := .newer, skip := i, all := all, extra := ex }, false)
    else if k == "setof" then p.toNat?.map fun n => ({ kind := .none, skip := i, all := all, param := n }, true)
    else none

/-- `@Type l2enc oer <val>` → `ok <hex>` | `fail`   (canonical OER, X.696)
    `@Type l2dec oer <hex>` → `ok <consumed> <val>` | `more` | `fail`
    `@Type l2oty` → the OER view of the type
    `@Type l2encvar oer <kind>[:<param>] <index>[+] <val>` → `ok <hex>` | `same` | `fail`: the BASIC-OER encoding with
      the variation `kind` ∈ none | bool:<n> | enum | len:<pad> | older:<n> | newer:<-|e|hex,…> | setof:<rot> applied at the
      `index`-th applicable position (`+`: and at all later ones); `same` = no applicable position / nothing changed -/
def run (ctx : ModCtx) (tyName : String) : List String → String
  | "l2enc" :: _ :: vwords =>
    match resolveONamed ctx tyName, (Sexp.parseWords vwords).bind parseVal with
    | some t, some v =>
      match encOER t v with
      | some bs => "ok " ++ toHex bs
      | none => "fail"
    | none, _ => "unsupported-type"
    | _, none => "bad-value"
  | ["l2dec", _, h] =>
    match resolveONamed ctx tyName, parseHex h with
    | some t, some bs =>
      match decOER t bs with
      | .ok v rest => s!"ok {bs.length - rest.length} " ++ showVal v
      | .more => "more"
      | .fail => "fail"
    | none, _ => "unsupported-type"
    | _, none => "bad-hex"
  | "l2encvar" :: _ :: kind :: idx :: vwords =>
    match resolveONamed ctx tyName, (Sexp.parseWords vwords).bind parseVal, parseVar kind idx with
    | some t, some v, some (s, perm) =>
      let v' := if perm then (permSetOf t v (s.skip, s.all, s.param)).1 else v
      match encV t v {}, encV t v' s with
      | some (base, _), some (bs, s') =>
        if (s'.hits = 0 && !perm) || (bs == base && kind != "none") then "same" else "ok " ++ toHex bs
      | _, _ => "fail"
    | none, _, _ => "unsupported-type"
    | _, none, _ => "bad-value"
    | _, _, none => "bad-variant"
  | ["l2oty"] =>
    match resolveONamed ctx tyName with
    | some t => reprStr t
    | none => "unsupported-type"
  | _ => bad

def oerHandler : Driver.Ops.L2.SubHandler := fun ctx ty toks =>
  match toks with
  | "l2enc" :: "oer" :: _ => some (run ctx ty toks)
  | ["l2dec", "oer", _] => some (run ctx ty toks)
  | "l2encvar" :: "oer" :: _ :: _ :: _ => some (run ctx ty toks)
  | ["l2oty"] => some (run ctx ty toks)
  | _ => none

end Driver.Ops.L2Oer
