import Driver.Util
import Asn1cModel.Impl.CRange
import Asn1cModel.Impl.CTables
import Asn1cModel.Impl.ConsParse
/-
  Line-protocol ops for C09 (constraint ranges, PER/OER constraint tables).

    crange   <prac|oer|per> <int|size> <TY> <ct>   → what `asn1c -E -F -print-constraints` prints for that
                                                  request type ("-" = nothing), or abort/fuel
    pertable <int|size> <TY> <ct>                → `<flags> <range_bits> <effective_bits> <lb> <ub>`
    oertable <TY> <ct>                           → `<width> <positive> <size>`
    accepts  <TY> <ct>                           → ok | eperm | abort | fuel  (asn1f_check_constraints)
    toct     <cons>                              → the <ct> of `combined_constraints` for a constraint expression
                                                  (single N) (range LO HI) (union a b) (inter a b) (except a b) (paren a)
                                                  (size a) (ext a) (exta a b) (serial a b) (refine a b)

  TY ∈ INTEGER | OCTET | BITSTR | SEQOF | SETOF | UTF8 (expression type of the terminal type);
  <ct> is `null` or an s-expression of the asn1p_constraint_t tree:
    (v N) (r LO HI) ext (size ct) (set ct…) (int ct…) (csv ct…) (uni ct…) (exc ct…);  N, LO, HI ∈ integer | MIN | MAX
-/
namespace Driver.Ops.CRange
open Asn1c Asn1c.Impl.CRange Asn1c.Impl.CTables Driver

def tokenize (s : String) : List String :=
  let rec go (cs : List Char) (cur : List Char) (acc : List String) : List String :=
    let flush := if cur.isEmpty then acc else String.ofList cur.reverse :: acc
    match cs with
    | [] => flush.reverse
    | c :: rest =>
      if c == '(' || c == ')' then go rest [] (String.singleton c :: flush)
      else if c == ' ' then go rest [] flush
      else go rest (c :: cur) acc
  go s.toList [] []

def parseV (s : String) : Option V :=
  if s == "MIN" then some .min else if s == "MAX" then some .max else (s.toInt?).map V.num

mutual
partial def parseCT : List String → Option (CT × List String)
  | "ext" :: rest => some (.ext, rest)
  | "(" :: "v" :: n :: ")" :: rest => (parseV n).map fun v => (.value v, rest)
  | "(" :: "r" :: a :: b :: ")" :: rest =>
    match parseV a, parseV b with
    | some x, some y => some (.range x y, rest)
    | _, _ => none
  | "(" :: "size" :: rest =>
    match parseCT rest with
    | some (c, ")" :: rest') => some (.size c, rest')
    | _ => none
  | "(" :: "set" :: rest => (parseList rest []).map fun (l, r) => (.set l, r)
  | "(" :: "int" :: rest => (parseList rest []).map fun (l, r) => (.int l, r)
  | "(" :: "csv" :: rest => (parseList rest []).map fun (l, r) => (.csv l, r)
  | "(" :: "uni" :: rest => (parseList rest []).map fun (l, r) => (.uni l, r)
  | "(" :: "exc" :: rest => (parseList rest []).map fun (l, r) => (.exc l, r)
  | _ => none
partial def parseList : List String → List CT → Option (List CT × List String)
  | ")" :: rest, acc => some (acc.reverse, rest)
  | toks, acc =>
    match parseCT toks with
    | some (c, rest) => parseList rest (c :: acc)
    | none => none
end

open Asn1c.Spec.Constraint in
def parseEnd (s : String) : Option End :=
  if s == "MIN" then some .min else if s == "MAX" then some .max else (s.toInt?).map End.val

open Asn1c.Spec.Constraint in
partial def parseCons : List String → Option (Cons × List String)
  | "(" :: "single" :: n :: ")" :: rest => (n.toInt?).map fun v => (.single v, rest)
  | "(" :: "range" :: a :: b :: ")" :: rest =>
    match parseEnd a, parseEnd b with
    | some x, some y => some (.range x y, rest)
    | _, _ => none
  | "(" :: op :: rest =>
    let un (f : Cons → Cons) : Option (Cons × List String) :=
      match parseCons rest with
      | some (a, ")" :: r) => some (f a, r)
      | _ => none
    let bin (f : Cons → Cons → Cons) : Option (Cons × List String) :=
      match parseCons rest with
      | some (a, r1) =>
        match parseCons r1 with
        | some (b, ")" :: r2) => some (f a b, r2)
        | _ => none
      | none => none
    match op with
    | "union" => bin .union
    | "inter" => bin .inter
    | "except" => bin .except
    | "serial" => bin .serial
    | "refine" => bin .refine
    | "exta" => bin .exta
    | "ext" => un .ext
    | "paren" => un .paren
    | "size" => un .size
    | _ => none
  | _ => none

def showV : V → String
  | .num z => toString z
  | .min => "MIN"
  | .max => "MAX"

partial def showCT : CT → String
  | .value v => s!"(v {showV v})"
  | .range a b => s!"(r {showV a} {showV b})"
  | .ext => "ext"
  | .size c => s!"(size {showCT c})"
  | .set l => showL "set" l
  | .int l => showL "int" l
  | .csv l => showL "csv" l
  | .uni l => showL "uni" l
  | .exc l => showL "exc" l
where showL (k : String) (l : List CT) : String :=
  if l.isEmpty then s!"({k})" else s!"({k} {" ".intercalate (l.map showCT)})"

/-- `some none` = null constraint -/
def parseTop (toks : List String) : Option (Option CT) :=
  match tokenize (" ".intercalate toks) with
  | ["null"] => some none
  | ts => match parseCT ts with
    | some (c, []) => some (some c)
    | _ => none

structure Ty where
  valueCompat : Bool
  sizeCompat : Bool
  nkm : Bool

def parseTy : String → Option Ty
  | "INTEGER" => some ⟨true, false, false⟩
  | "OCTET" => some ⟨false, true, false⟩
  | "BITSTR" => some ⟨false, true, false⟩
  | "SEQOF" => some ⟨false, true, false⟩
  | "SETOF" => some ⟨false, true, false⟩
  | "UTF8" => some ⟨true, true, true⟩
  | _ => none

def parseReq : String → Option Req
  | "int" => some .value
  | "size" => some .size
  | _ => none

def mkParams (ty : Ty) (req : Req) (mode : String) : Option Params :=
  let compat := match req with | .value => ty.valueCompat | .size => ty.sizeCompat
  match mode with
  | "prac" => some { req, compat, nkm := ty.nkm }
  | "oer" => some { req, compat, nkm := ty.nkm, strictOER := true }
  | "per" => some { req, compat, nkm := ty.nkm, strictPER := true }
  | "table" => some { req, compat, nkm := ty.nkm, rootOnly := true }     -- the PER tables: emit_member_PER_constraints
  | _ => none

def showRes (p : Params) (r : Res) : String :=
  match r with
  | .abort => "abort"
  | .fuel => "fuel"
  | _ => let s := explain p r; if s.isEmpty then "-" else s

def showPerC (c : PerC) : String :=
  let k := match c.kind with
    | .unconstrained => "APC_UNCONSTRAINED"
    | .semi => "APC_SEMI_CONSTRAINED"
    | .constrained => "APC_CONSTRAINED"
  let k := if c.ext then k ++ "|APC_EXTENSIBLE" else k
  s!"{k} {c.rangeBits} {c.effBits} {c.lb} {c.ub}"

/-- the emitters and the printer treat every NULL range alike; only the model's own
    abort / fuel outcomes are reported -/
def hardErr : Res → Option String
  | .abort => some "abort"
  | .fuel => some "fuel"
  | _ => none

/-- `asn1f_check_constraints`: only `errno == EPERM` is fatal -/
def acceptErr : Res → Option String
  | .eperm => some "eperm"
  | .abort => some "abort"
  | .fuel => some "fuel"
  | _ => none

def run : Handler
  | "crange" :: mode :: req :: ty :: rest => some <|
    match parseTy ty, parseReq req, parseTop rest with
    | some ty, some req, some ct =>
      match mkParams ty req mode with
      | some p => showRes p (computeTop p ct)
      | none => bad
    | _, _, _ => bad
  | "pertable" :: req :: ty :: rest => some <|
    match parseTy ty, parseReq req, parseTop rest with
    | some ty, some req, some ct =>
      match mkParams ty req "table" with
      | some p =>
        (match hardErr (computeTop p ct) with
         | some e => e
         | none =>
           let t := emitTables ty.valueCompat ty.sizeCompat ty.nkm ct
           showPerC (match req with | .value => t.perValue | .size => t.perSize))
      | none => bad
    | _, _, _ => bad
  | "oertable" :: ty :: rest => some <|
    match parseTy ty, parseTop rest with
    | some ty, some ct =>
      match mkParams ty .value "oer", mkParams ty .size "oer" with
      | some pv, some ps =>
        (match hardErr (computeTop pv ct), hardErr (computeTop ps ct) with
         | some e, _ => e
         | _, some e => e
         | none, none =>
           let t := emitTables ty.valueCompat ty.sizeCompat ty.nkm ct
           s!"{t.oerValue.width} {t.oerValue.positive} {t.oerSize}")
      | _, _ => bad
    | _, _ => bad
  | "toct" :: rest => some <|
    match parseCons (tokenize (" ".intercalate rest)) with
    | some (c, []) => showCT (Asn1c.Impl.ConsParse.combined c)
    | _ => bad
  | "accepts" :: ty :: rest => some <|
    match parseTy ty, parseTop rest with
    | some ty, some ct =>
      match mkParams ty .value "prac", mkParams ty .size "prac" with
      | some pv, some ps =>
        (match acceptErr (computeTop pv ct), acceptErr (computeTop ps ct) with
         | some e, _ => e
         | _, some e => e
         | none, none => "ok")
      | _, _ => bad
    | _, _ => bad
  | _ => none

end Driver.Ops.CRange
