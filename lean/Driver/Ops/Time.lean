import Driver.Util
import Asn1cModel.Impl.Time
namespace Driver.Ops.Time
open Asn1c Asn1c.Impl.Time Driver

def showText : Option Bytes → String
  | some bs => s!"ok {toHex bs}"
  | none => "fail"

def showTm (tm : Tm) : String :=
  s!" | {tm.year + 1900} {tm.mon + 1} {tm.mday} {tm.hour} {tm.min} {tm.sec} {tm.gmtoff}"

def ints (xs : List String) : Option (List Int) := xs.mapM parseInt

def run : Handler
  | ["t2GT", t, off, fv, fd, force] => some <| match ints [t, off, fv, fd, force] with
      | some [t, off, fv, fd, force] => showText (time2GTfrac (localtime t off) fv fd (force != 0))
      | _ => bad
  | ["t2UT", t, off, force] => some <| match ints [t, off, force] with
      | some [t, off, force] => showText (time2UT (localtime t off) (force != 0))
      | _ => bad
  | ["tm2GT", s, mi, h, d, mo, y, off, fv, fd, force] => some <| match ints [s, mi, h, d, mo, y, off, fv, fd, force] with
      | some [s, mi, h, d, mo, y, off, fv, fd, force] => showText (time2GTfrac ⟨s, mi, h, d, mo, y, off⟩ fv fd (force != 0))
      | _ => bad
  | ["tm2UT", s, mi, h, d, mo, y, off, force] => some <| match ints [s, mi, h, d, mo, y, off, force] with
      | some [s, mi, h, d, mo, y, off, force] => showText (time2UT ⟨s, mi, h, d, mo, y, off⟩ (force != 0))
      | _ => bad
  | ["GT2t", h, g, lo] => some <| match parseHex h, ints [g, lo] with
      | some bs, some [g, lo] => (match GT2timeFrac lo bs (g != 0) with
          | .ok t fv fd tm => s!"ok {t} {fv} {fd}{showTm tm}"
          | .einval => "einval")
      | _, _ => bad
  | ["UT2t", h, g, lo] => some <| match parseHex h, ints [g, lo] with
      | some bs, some [g, lo] => (match UT2time lo bs (g != 0) with
          | .ok t _ _ tm => s!"ok {t}{showTm tm}"
          | .einval => "einval")
      | _, _ => bad
  | ["GT2t_prec", h, n, lo] => some <| match parseHex h, ints [n, lo] with
      | some bs, some [n, lo] => (match GT2timePrec lo bs n true with
          | some (t, fv) => s!"ok {t} {fv}"
          | none => "einval")
      | _, _ => bad
  | _ => none

end Driver.Ops.Time
