import Driver.Util
import Driver.Ops.L2
import Asn1cModel.L2.Xer
namespace Driver.Ops.L2Xer
open Asn1c Asn1c.L2 Asn1c.L2.Xer Driver

/-- `@Type l2enc xer|cxer <positional val>` → `ok <hex>` | `fail`   (BASIC-XER / CANONICAL-XER as asn1c writes it);
    `@Type l2dec xer <hex>` → `ok <consumed octets> <val>` | `fail`  (`fail` = RC_FAIL or RC_WMORE);
    `@Type l2xty` prints the resolved XER view of the type.
    The module line must be the name-carrying variant written by `vlib/c01_xer.py: xer_module_sexp`. -/
def run (ctx : ModCtx) (tyName : String) : List String → String
  | "l2enc" :: syn :: vwords =>
    match resolveXNamed ctx tyName, (Sexp.parseWords vwords).bind parseVal with
    | some t, some v =>
      match encXER (syn == "cxer") t v with
      | some bs => "ok " ++ toHex bs
      | none => "fail"
    | none, _ => "unsupported-type"
    | _, none => "bad-value"
  | ["l2dec", _, h] =>
    match resolveXNamed ctx tyName, parseHex h with
    | some t, some bs =>
      match decXERc t bs with
      | some (v, n) => s!"ok {n} " ++ showVal v
      | none => "fail"
    | none, _ => "unsupported-type"
    | _, none => "bad-hex"
  | ["l2xty"] =>
    match resolveXNamed ctx tyName with
    | some t => reprStr t
    | none => "unsupported-type"
  | _ => bad

def xerHandler : Driver.Ops.L2.SubHandler := fun ctx ty toks =>
  match toks with
  | "l2enc" :: "xer" :: _ => some (run ctx ty toks)
  | "l2enc" :: "cxer" :: _ => some (run ctx ty toks)
  | ["l2dec", "xer", _] => some (run ctx ty toks)
  | ["l2dec", "cxer", _] => some (run ctx ty toks)
  | ["l2xty"] => some (run ctx ty toks)
  | _ => none

end Driver.Ops.L2Xer
