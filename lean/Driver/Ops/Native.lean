import Driver.Util
import Asn1cModel.Impl.Native
/- Line-protocol ops for Impl/Native.lean (C13 K leg); the C side is harness/ops_c13.c. -/
namespace Driver.Ops.Native
open Asn1c Asn1c.Impl.Integer Asn1c.Impl.BerTlv Asn1c.Impl.Native Driver

def showEnc : Option Bytes → String
  | some bs => toHex bs
  | none => "fail"

def showBits : Option Bits → String
  | some b => s!"ok {b.length} {toHex (bitsToBytes b)}"
  | none => "fail"

/-- the native cell from `<sg> <v>` -/
def parseNative (sg v : String) : Option Nat :=
  if sg == "u" then (match parseNat v with | some n => if n < 2 ^ 64 then some n else none | none => none)
  else if sg == "s" then (match parseInt v with
    | some z => if -(2 ^ 63) ≤ z ∧ z < 2 ^ 63 then some (wordOfLong z) else none
    | none => none)
  else none

def parseSg (sg : String) : Option Bool :=
  if sg == "u" then some true else if sg == "s" then some false else none

/-- `-` | `ext,semi,range_bits,lb,ub`; outer `none` = parse error -/
def parseCt (s : String) : Option (Option PerCt) :=
  if s == "-" then some none else
  match s.splitOn "," with
  | [e, sm, rb, lb, ub] =>
    match parseNat e, parseNat sm, parseInt rb, parseInt lb, parseInt ub with
    | some e, some sm, some rb, some lb, some ub => some (some ⟨e != 0, sm != 0, rb, lb, ub⟩)
    | _, _, _, _, _ => none
  | _ => none

def parseMap (s : String) : Option (List (Int × String)) :=
  if s == "-" then some [] else
  (s.splitOn ",").mapM fun item =>
    match item.splitOn ":" with
    | [v, n] => (parseInt v).map (fun z => (z, n))
    | _ => none

def intSpecs (uns : Bool) : Option IntSpecs := if uns then some ⟨[], 0, false, true⟩ else none

def tagInteger : Tag := ⟨0, 2⟩

def run : Handler
  | ["n_der", sg, v] => some <| match parseSg sg, parseNative sg v with
      | some uns, some w => toHex (NativeInteger_encode_der uns tagInteger w) | _, _ => bad
  | ["w_der", h] => some <| match parseHex h with
      | some bs => toHex (INTEGER_encode_der tagInteger bs) | none => bad
  | ["n_dec", sg, h] => some <| match parseSg sg, parseHex h with
      | some uns, some c => (match NativeInteger_decode_ber_content uns c with
          | .ok w => s!"ok {nativeValue uns w}" | _ => "fail")
      | _, _ => bad
  | ["n_oer", sg, width, pos, v] => some <| match parseSg sg, parseNative sg v, parseNat width, parseNat pos with
      | some uns, some w, some wd, some p => showEnc (NativeInteger_encode_oer wd (p != 0) uns w)
      | _, _, _, _ => bad
  | ["w_oer", width, pos, h] => some <| match parseNat width, parseNat pos, parseHex h with
      | some wd, some p, some bs => showEnc (INTEGER_encode_oer wd (p != 0) bs)
      | _, _, _ => bad
  | ["n_uper", sg, ct, v] => some <| match parseSg sg, parseCt ct, parseNative sg v with
      | some uns, some c, some w => showBits (NativeInteger_encode_uper uns c w)
      | _, _, _ => bad
  | ["w_uper", sg, ct, h] => some <| match parseSg sg, parseCt ct, parseHex h with
      | some uns, some c, some bs => showBits (INTEGER_encode_uper uns c bs)
      | _, _, _ => bad
  | ["n_xer", sg, v] => some <| match parseSg sg, parseNative sg v with
      | some uns, some w => showEnc (NativeInteger_encode_xer (intSpecs uns) w)
      | _, _ => bad
  | ["w_xer", sg, h] => some <| match parseSg sg, parseHex h with
      | some uns, some bs => showEnc (INTEGER_encode_xer (intSpecs uns) bs)
      | _, _ => bad
  | ["ne_oer", v] => some <| match parseNative "s" v with
      | some w => showEnc (NativeEnumerated_encode_oer w) | none => bad
  | ["we_oer", h] => some <| match parseHex h with
      | some bs => showEnc (ENUMERATED_encode_oer bs) | none => bad
  | ["ne_uper", m, ext, ct, v] => some <| match parseMap m, parseNat ext, parseCt ct, parseNative "s" v with
      | some mp, some e, some c, some w => showBits (NativeEnumerated_encode_uper (some ⟨mp, e, true, false⟩) c w)
      | _, _, _, _ => bad
  | ["we_uper", m, ext, ct, h] => some <| match parseMap m, parseNat ext, parseCt ct, parseHex h with
      | some mp, some e, some c, some bs => showBits (ENUMERATED_encode_uper (some ⟨mp, e, true, false⟩) c bs)
      | _, _, _, _ => bad
  | ["ne_xer", m, v] => some <| match parseMap m, parseNative "s" v with
      | some mp, some w => showEnc (NativeEnumerated_encode_xer (some ⟨mp, 0, true, false⟩) w)
      | _, _ => bad
  | ["we_xer", m, h] => some <| match parseMap m, parseHex h with
      | some mp, some bs => showEnc (INTEGER_encode_xer (some ⟨mp, 0, true, false⟩) bs)
      | _, _ => bad
  | _ => none

end Driver.Ops.Native
