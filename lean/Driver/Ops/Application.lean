import Driver.Util
import Asn1cModel.Impl.Application
/-
  C07 driver ops: the wrappers of asn_application.c evaluated on an encoder run observed on C.

    c07.tobuf <syn> <n> <run>     asn_encode_to_buffer, buffer of n octets (0xa5) followed by 64 canary octets (0xc3)
    c07.tonew <syn> <run>         asn_encode_to_new_buffer (all allocations succeed)
    c07.cb    <syn> <k> <run>     asn_encode, application callback failing at invocation k (-1 = never); <run> is the
                                  raw encoder run observed with the same failure injected (`encraw <syn> <k>`)

  <run> = `noencoder` | `<ret>:<ft>:<chunks>`  with ret = encoded of the raw encoder (bits for uper; -1 = failed),
  ft = enc|noenc|null|- , chunks = `-` | hex,hex,… (`.` = empty chunk).
  The encoder is `Enc.ofRun chunks outcome`: the model is parametric in the chunk list.
-/
namespace Driver.Ops.Application
open Asn1c Asn1c.Impl.Application Driver

def parseSyntax : String → Option Syntax
  | "der" => some .der | "ber" => some .ber | "uper" => some .canonicalUper | "oer" => some .canonicalOer
  | "xer" => some .basicXer | "cxer" => some .canonicalXer | "text" => some .plaintext
  | "cer" => some .cer | "random" => some .random | "invalid" => some .invalid
  | _ => none

def parseChunks (s : String) : Option (List Bytes) :=
  if s == "-" then some [] else
  (s.splitOn ",").mapM fun h => if h == "." then some [] else parseHex h

/-- `none` = malformed; `some none` = the type has no encoder for the syntax -/
def parseRun (s : String) (k : Option Nat := none) : Option (Option Enc) :=
  if s == "noencoder" then some none else
  match s.splitOn ":" with
  | [ret, ft, chunks] =>
    match parseInt ret, parseChunks chunks with
    | some r, some cs =>
      let out : Option Outcome :=
        if r ≥ 0 then some (.ok r.toNat)
        else if ft == "enc" then some (.fail .hasEnc)
        else if ft == "noenc" || ft == "null" then some (.fail .noEnc)
        else none
      out.map fun o => some (match k with | none => Enc.ofRun cs o | some k => Enc.ofObserved k cs o)
    | _, _ => none
  | _ => none

def opsOf (e : Option Enc) : TypeOps :=
  match e with
  | none => {}
  | some e => TypeOps.all e

def showErrno : Option Errno → String
  | none => "0"
  | some .EINVAL => "EINVAL" | some .ENOENT => "ENOENT" | some .EBADF => "EBADF"
  | some .EIO => "EIO" | some .ENOMEM => "ENOMEM"

def canaryLen : Nat := 64

def showToBuf (n : Nat) : Api (OverrunKey × Rval) → String
  | .abort => "abort"
  | .done (key, er) =>
    let canaryOk := key.mem.drop n == List.replicate canaryLen 0xc3
    let w := if er.encoded < 0 then 0 else min n er.encoded.toNat
    s!"ret={er.encoded} errno={showErrno er.errno} canary={if canaryOk then "ok" else "BAD"} wrote={toHex (key.mem.take w)}"

def showToNew (reference : Api (RecState × Rval)) : Api NewBuffer → String
  | .abort => "abort"
  | .done nb =>
    let head := s!"buf={if nb.buffer.isSome then "nonnull" else "null"} encoded={nb.result.encoded}"
    let mid :=
      match nb.buffer with
      | some b =>
        if nb.result.encoded ≥ 0 then
          let n := nb.result.encoded.toNat
          let exact := match reference with
            | .done (st, er) => er.encoded == nb.result.encoded && st.accepted.flatten == b.take n
            | .abort => false
          s!" exact={if exact then 1 else 0} nul={if b.drop n |>.head? |> (· == some 0) then 1 else 0}"
        else " exact=- nul=-"
      | none => " exact=- nul=-"
    let alloc := match nb.buffer with | some b => toString b.length | none => "-"
    head ++ mid ++ s!" errno={showErrno nb.result.errno} alloc={alloc}"

def showCb (k : Option Nat) : Api (RecState × Rval) → String
  | .abort => "abort"
  | .done (st, er) =>
    let sizes := if st.sizes.isEmpty then "-" else ",".intercalate (st.sizes.map toString)
    let (failed, after, delivered) :=
      match k with
      | some k => if st.calls > k then (true, st.calls - (k + 1), (st.accepted.take k).flatten)
                  else (false, 0, st.accepted.flatten)
      | none => (false, 0, st.accepted.flatten)
    let _ := failed
    s!"ret={er.encoded} errno={showErrno er.errno} chunks={sizes} after={after} delivered={toHex delivered}"

def run : Handler
  | ["c07.tobuf", syn, n, r] => some <|
    match parseSyntax syn, parseNat n, parseRun r with
    | some sy, some n, some e =>
      let mem := List.replicate n 0xa5 ++ List.replicate canaryLen 0xc3
      showToBuf n (asnEncodeToBuffer sy (some (opsOf e)) (some mem) n)
    | _, _, _ => bad
  | ["c07.tonew", syn, r] => some <|
    match parseSyntax syn, parseRun r with
    | some sy, some e =>
      let reference := asnEncode sy (some (opsOf e)) (some (failAtCb none)) {}
      showToNew reference (asnEncodeToNewBuffer sy (some (opsOf e)) true (fun _ => true) 0xbe)
    | _, _ => bad
  | ["c07.cb", syn, k, r] => some <|
    match parseSyntax syn, parseInt k with
    | some sy, some k =>
      let ko := if k < 0 then none else some k.toNat
      match parseRun r ko with
      | none => bad
      | some e =>
      showCb ko (asnEncode sy (some (opsOf e)) (some (failAtCb ko)) {})
    | _, _ => bad
  | _ => none

end Driver.Ops.Application
