import Driver.Util
import Asn1cModel.Impl.Real
namespace Driver.Ops.Real
open Asn1c Asn1c.Impl.Real Driver

def hex16 (n : Nat) : String :=
  String.join ((toBEn 8 n).map hexByte)

/-- decimal or `0x`-prefixed hexadecimal, `< 2^64` -/
def parseBits (s : String) : Option Nat :=
  let cs := s.toList
  match cs with
  | '0' :: 'x' :: rest | '0' :: 'X' :: rest =>
    if rest.isEmpty then none else
    rest.foldlM (fun acc c => (hexVal c).map (acc * 16 + ·)) 0
  | _ => parseNat s

def showR2D : R2D → String
  | .ok b => if classify b = .nan then "ok nan" else s!"ok {hex16 b}"
  | .erange => "erange"
  | .einval => "einval"
  | .decimal => "decimal-unmodelled"

def run : Handler
  | ["d2R", v] => some <| match parseBits v with
      | some n => if n < 2^64 then toHex (double2REAL n) else bad
      | none => bad
  | ["R2d", h] => some <| match parseHex h with
      | some bs => showR2D (REAL2double bs) | none => bad
  | _ => none

end Driver.Ops.Real
