import Driver.Util
import Asn1cModel.Impl.Integer
namespace Driver.Ops.Integer
open Asn1c Asn1c.Impl.Integer Driver

def showConvI : Conv Int → String
  | .ok v => s!"ok {v}"
  | .erange => "erange"
  | .einval => "einval"
def showConvN : Conv Nat → String
  | .ok v => s!"ok {v}"
  | .erange => "erange"
  | .einval => "einval"

def showStrtox (r : StrtoxOut) : String :=
  match r.res with
  | .ok => s!"ok {r.endPos} {showOptInt r.val}"
  | .extra => s!"extra {r.endPos} {showOptInt r.val}"
  | .range => s!"range {r.endPos}"
  | .inval => "inval"
  | .more => s!"more {r.endPos}"

def run : Handler
  | ["imax2I", v] => some <| match parseInt v with
      | some z => if -(2^63) ≤ z ∧ z < 2^63 then toHex (imax2INTEGER z) else bad
      | none => bad
  | ["umax2I", v] => some <| match parseNat v with
      | some n => if n < 2^64 then toHex (umax2INTEGER n) else bad
      | none => bad
  | ["ulong2I", v] => some <| match parseNat v with
      | some n => if n < 2^64 then toHex (ulong2INTEGER n) else bad
      | none => bad
  | ["I2imax", h] => some <| match parseHex h with
      | some bs => showConvI (INTEGER2imax bs) | none => bad
  | ["I2long", h] => some <| match parseHex h with
      | some bs => showConvI (INTEGER2long bs) | none => bad
  | ["I2umax", h] => some <| match parseHex h with
      | some bs => showConvN (INTEGER2umax bs) | none => bad
  | ["I2ulong", h] => some <| match parseHex h with
      | some bs => showConvN (INTEGER2ulong bs) | none => bad
  | ["strtoimax", h] => some <| match parseHex h with
      | some bs => showStrtox (strtoimax bs) | none => bad
  | ["strtoumax", h] => some <| match parseHex h with
      | some bs => showStrtox (strtoumax bs) | none => bad
  | ["strtol", h] => some <| match parseHex h with
      | some bs => showStrtox (strtol bs) | none => bad
  | ["strtoul", h] => some <| match parseHex h with
      | some bs => showStrtox (strtoul bs) | none => bad
  | ["I_strip", h] => some <| match parseHex h with
      | some bs => toHex (strip bs) | none => bad
  | ["I_cmp", a, b] => some <| match parseHex a, parseHex b with
      | some x, some y => (match Asn1c.Impl.Integer.compare x y with | some r => s!"{if r < 0 then -1 else if r > 0 then 1 else (0:Int)}" | none => "oob")
      | _, _ => bad
  | _ => none

end Driver.Ops.Integer
