import Driver.Util
import Asn1cModel.Impl.Lifecycle
/-!
  Line-protocol ops of the ownership model (C14):
    lc_free <e|u|r> <tree>      → `<FREEMEM ids in order|-> <slot afterwards>`   (ASN_STRUCT_FREE / _CONTENTS_ONLY / _RESET)
    lc_inv <tree> <live ids|->  → `ok` | `bad:<dup|dangling|leak|wf>…`            (closed-world invariant `Exact`)
    lc_ledger <events|->        → `live=<n> bytes=<b> viol=<n>`                   (allocator events replayed on the model heap)
  Tree syntax = the dump of harness/ops_gen_c14.c:
    N | Z | P(buf) | O(buf,stack,el…) | Q(ctx,member…) | S(member…) | C(n,present,member) | L(array,ctxslot,elem…) | B(id,tree)
-/
namespace Driver.Ops.Lifecycle
open Asn1c.Impl.Lifecycle Asn1c.Impl.Lifecycle.Tree Driver

def optId (n : Nat) : Option Id := if n = 0 then none else some n

def parseNatC : List Char → Nat → Bool → Option (Nat × List Char)
  | c :: r, acc, seen =>
    if c.isDigit then parseNatC r (acc * 10 + (c.toNat - 48)) true
    else if seen then some (acc, c :: r) else none
  | [], acc, seen => if seen then some (acc, []) else none

mutual
partial def parseTree : List Char → Option (Tree × List Char)
  | 'N' :: r => some (.native, r)
  | 'Z' :: r => some (.null, r)
  | 'P' :: '(' :: r => do
    let (b, r) ← parseNatC r 0 false
    match r with
    | ')' :: r => some (.prim (optId b), r)
    | _ => none
  | 'O' :: '(' :: r => do
    let (b, r) ← parseNatC r 0 false
    match r with
    | ',' :: r =>
      let (s, r) ← parseNatC r 0 false
      let (els, r) ← parseIds r []
      some (.ostr (optId b) (optId s) els, r)
    | _ => none
  | 'Q' :: '(' :: r => do
    let (c, r) ← parseNatC r 0 false
    let (ms, r) ← parseTrees r []
    some (.seq (optId c) ms, r)
  | 'S' :: '(' :: ')' :: r => some (.set [], r)
  | 'S' :: '(' :: r => do
    let (t, r) ← parseTree r
    let (ms, r) ← parseTrees r []
    some (.set (t :: ms), r)
  | 'C' :: '(' :: r => do
    let (n, r) ← parseNatC r 0 false
    match r with
    | ',' :: r =>
      let (p, r) ← parseNatC r 0 false
      match r with
      | ',' :: r =>
        let (m, r) ← parseTree r
        match r with
        | ')' :: r => some (.choice n p m, r)
        | _ => none
      | _ => none
    | _ => none
  | 'L' :: '(' :: r => do
    let (a, r) ← parseNatC r 0 false
    match r with
    | ',' :: r =>
      let (cx, r) ← parseTree r
      let (es, r) ← parseTrees r []
      some (.setof (optId a) cx es, r)
    | _ => none
  | 'B' :: '(' :: r => do
    let (b, r) ← parseNatC r 0 false
    match r with
    | ',' :: r =>
      let (t, r) ← parseTree r
      match r with
      | ')' :: r => some (.boxed b t, r)
      | _ => none
    | _ => none
  | _ => none
/-- `(',' tree)* ')'` -/
partial def parseTrees : List Char → List Tree → Option (List Tree × List Char)
  | ')' :: r, acc => some (acc.reverse, r)
  | ',' :: r, acc => do
    let (t, r) ← parseTree r
    parseTrees r (t :: acc)
  | _, _ => none
/-- `(',' id)* ')'` -/
partial def parseIds : List Char → List Id → Option (List Id × List Char)
  | ')' :: r, acc => some (acc.reverse, r)
  | ',' :: r, acc => do
    let (n, r) ← parseNatC r 0 false
    parseIds r (n :: acc)
  | _, _ => none
end

def parseTreeStr (s : String) : Option Tree :=
  match parseTree s.toList with
  | some (t, []) => some t
  | _ => none

def showOpt (o : Option Id) : String := match o with | some i => toString i | none => "0"

mutual
partial def showTree : Tree → String
  | .native => "N"
  | .null => "Z"
  | .prim b => s!"P({showOpt b})"
  | .ostr b s els => s!"O({showOpt b},{showOpt s}" ++ String.join (els.map (fun i => s!",{i}")) ++ ")"
  | .seq c ms => s!"Q({showOpt c}" ++ String.join (ms.map (fun t => "," ++ showTree t)) ++ ")"
  | .set ms => "S(" ++ ",".intercalate (ms.map showTree) ++ ")"
  | .choice n p m => s!"C({n},{p},{showTree m})"
  | .setof a cx es => s!"L({showOpt a},{showTree cx}" ++ String.join (es.map (fun t => "," ++ showTree t)) ++ ")"
  | .boxed b t => s!"B({b},{showTree t})"
end

def showIds (l : List Id) : String := if l.isEmpty then "-" else ",".intercalate (l.map toString)

def parseIdList (s : String) : Option (List Id) :=
  if s == "-" then some [] else (s.splitOn ",").mapM (·.toNat?)

def parseEv (s : String) : Option (Option Ev) :=
  match s.toList with
  | ['x'] => some none                                   -- injected allocation failure: no heap effect
  | ['U'] => some (some (.free 0))                       -- free of a pointer the C ledger never saw
  | 'a' :: r => match (String.ofList r).splitOn ":" with
    | [i, z] => do some (some (.alloc (← i.toNat?) (← z.toNat?)))
    | _ => none
  | 'f' :: r => do some (some (.free (← (String.ofList r).toNat?)))
  | 'F' :: r => do some (some (.free (← (String.ofList r).toNat?)))   -- C saw a double free: replay it
  | 'r' :: r => match (String.ofList r).splitOn ":" with
    | [o, n, z] => do some (some (.realloc (← o.toNat?) (← n.toNat?) (← z.toNat?)))
    | _ => none
  | _ => none

def parseEvs (s : String) : Option (List Ev) :=
  if s == "-" then some [] else do
    let l ← (s.splitOn ",").mapM parseEv
    some (l.filterMap id)

def hasDup : List Id → Bool
  | [] => false
  | a :: r => r.contains a || hasDup r

def invReport (t : Tree) (live : List Id) : String :=
  let ow := owned t
  let probs := (if hasDup ow then [":dup"] else []) ++
               (if ow.any (fun i => !live.contains i) then [":dangling"] else []) ++
               (if live.any (fun i => !ow.contains i) then [":leak"] else []) ++
               (if wf t then [] else [":wf"]) ++
               (if hasDup live then [":livedup"] else [])
  if probs.isEmpty then "ok" else "bad" ++ String.join probs

def run : Handler
  | ["lc_free", m, t] => some <|
    match parseTreeStr t, (match m with | "e" => some Method.everything | "u" => some Method.underlying | "r" => some Method.reset | _ => none) with
    | some tr, some meth =>
      match freeStruct meth tr with
      | some (ids, r) => s!"{showIds ids} {showTree r}"
      | none => "misuse"
    | _, _ => bad
  | ["lc_inv", t, l] => some <|
    match parseTreeStr t, parseIdList l with
    | some tr, some live => invReport tr live
    | _, _ => bad
  | ["lc_ledger", e] => some <|
    match parseEvs e with
    | some evs =>
      let (h, v) := Heap.empty.runCount 0 evs
      s!"live={h.live.length} bytes={h.bytes} viol={v}"
    | none => bad
  | _ => none

end Driver.Ops.Lifecycle
