import Driver.Util
import Asn1cModel.Impl.Oid
namespace Driver.Ops.Oid
open Asn1c Asn1c.Impl.Oid Driver

def parseArcArgs (xs : List String) : Option (List Nat) :=
  xs.mapM fun s => match parseNat s with
    | some n => if n < 4294967296 then some n else none
    | none => none

def showArcs (xs : List Nat) : String := String.join (xs.map fun a => s!" {a}")

def showSet : SetRes → String
  | .ok bs => s!"ok {toHex bs}"
  | .einval => "einval"
  | .erange => "erange"
  | .fail => "fail"

def showGet (slots : Nat) : GetRes → String
  | .ok arcs => s!"ok {arcs.length}{showArcs (arcs.take slots)}"
  | .fail => "fail"
  | .einval => "einval"
  | .erange => "erange"

def run : Handler
  | "oid_set" :: xs => some <| match parseArcArgs xs with
      | some arcs => showSet (setArcs arcs) | none => bad
  | "roid_set" :: xs => some <| match parseArcArgs xs with
      | some arcs => showSet (roidSetArcs arcs) | none => bad
  | ["oid_get", h, s] => some <| match parseHex h, parseNat s with
      | some bs, some slots => showGet slots (getArcs bs) | _, _ => bad
  | ["roid_get", h, s] => some <| match parseHex h, parseNat s with
      | some bs, some slots => showGet slots (roidGetArcs bs) | _, _ => bad
  | ["oid_get1", h] => some <| match parseHex h with
      | some bs => (match getSingleArc bs with
          | .none => "none" | .ok v rd => s!"ok {v} {rd}" | .einval => "einval" | .erange => "erange")
      | none => bad
  | ["oid_set1", v, l] => some <| match parseNat v, parseNat l with
      | some v, some l => if v < 4294967296 then
          (match setSingleArc l v with | some bs => s!"ok {toHex bs}" | none => "fail") else bad
      | _, _ => bad
  | ["oid_parse", h, s] => some <| match parseHex h, parseNat s with
      | some txt, some slots => (match parseArcs txt with
          | .ok arcs e => s!"ok {arcs.length} {e}{showArcs (arcs.take slots)}"
          | .einval e => s!"einval {e}"
          | .erange e => s!"erange {e}")
      | _, _ => bad
  | _ => none

end Driver.Ops.Oid
