import Asn1cModel.Base
import Asn1cModel.Impl.Integer
import Asn1cModel.Spec.Twos
import Asn1cModel.Proofs.Integer
import Asn1cModel.Props.C16
import Asn1cModel.Impl.BerTlv
import Asn1cModel.Spec.Ber
import Asn1cModel.Proofs.BerTlv
