import Asn1cModel.Base
import Asn1cModel.Spec.Twos
/-
  Spec: X.690 §8.5 (REAL contents) + §11.3 (DER/CER restrictions) for IEEE-754 binary64 values.
  A double is its 64-bit pattern `b` (bit 63 sign, bits 62..52 exponent field, bits 51..0 fraction).
-/
namespace Asn1c.Spec
open Asn1c

def f64Sign (b : Nat) : Nat := b / 2 ^ 63 % 2
def f64Exp (b : Nat) : Nat := b / 2 ^ 52 % 2048
def f64Frac (b : Nat) : Nat := b % 2 ^ 52

def f64IsNaN (b : Nat) : Prop := f64Exp b = 2047 ∧ f64Frac b ≠ 0
def f64IsInf (b : Nat) : Prop := f64Exp b = 2047 ∧ f64Frac b = 0
def f64IsZero (b : Nat) : Prop := f64Exp b = 0 ∧ f64Frac b = 0
def f64IsSubnormal (b : Nat) : Prop := f64Exp b = 0 ∧ f64Frac b ≠ 0
def f64IsNormal (b : Nat) : Prop := 1 ≤ f64Exp b ∧ f64Exp b ≤ 2046
instance (b : Nat) : Decidable (f64IsNaN b) := by unfold f64IsNaN; infer_instance
instance (b : Nat) : Decidable (f64IsInf b) := by unfold f64IsInf; infer_instance
instance (b : Nat) : Decidable (f64IsZero b) := by unfold f64IsZero; infer_instance
instance (b : Nat) : Decidable (f64IsSubnormal b) := by unfold f64IsSubnormal; infer_instance
instance (b : Nat) : Decidable (f64IsNormal b) := by unfold f64IsNormal; infer_instance

/-- IEEE-754: a finite double has magnitude `f64Mant b * 2 ^ f64Pow b`
    (hidden bit for normal numbers, fixed exponent −1074 for subnormals and zero) -/
def f64Mant (b : Nat) : Nat := if f64Exp b = 0 then f64Frac b else 2 ^ 52 + f64Frac b
def f64Pow (b : Nat) : Int := if f64Exp b = 0 then -1074 else (f64Exp b : Int) - 1075

/-- number of trailing zero bits of `n` (0 for `n = 0`); the first argument is fuel -/
def ctzAux : Nat → Nat → Nat
  | 0, _ => 0
  | fuel + 1, n => if n ≠ 0 ∧ n % 2 = 0 then ctzAux fuel (n / 2) + 1 else 0
def ctz (n : Nat) : Nat := ctzAux n n

/-- `k` octets of the two's-complement image of `v` -/
def twosOctets (k : Nat) (v : Int) : Bytes := toBEn k (v % 256 ^ k).toNat

/-- X.690 §8.5.7.4 a)–c) + §11.3.1 "E represented in the fewest octets necessary":
    the exponent as a two's-complement number in 1, 2 or 3 octets
    (exponents of doubles lie in −1126 … 1023, so at most two octets are ever needed). -/
def realExpOctets (e : Int) : Bytes :=
  if -128 ≤ e ∧ e < 128 then twosOctets 1 e
  else if -32768 ≤ e ∧ e < 32768 then twosOctets 2 e
  else twosOctets 3 e

/-- **DER contents octets of a REAL holding the double `b`** (X.690 §8.5.2/8.5.3: +0 ↦ no contents,
    §8.5.9: PLUS-INFINITY 40, MINUS-INFINITY 41, NOT-A-NUMBER 42, minus zero 43;
    otherwise §8.5.7 binary encoding with, by §11.3.1, base 2, scaling factor F = 0, mantissa N odd,
    exponent and mantissa each in the fewest octets: first octet `1 S 00 00 ee`, `ee` = number of
    exponent octets − 1, then the exponent, then N as an unsigned big-endian number). -/
def derReal (b : Nat) : Bytes :=
  if f64Exp b = 2047 then
    if f64Frac b ≠ 0 then [0x42] else if f64Sign b = 1 then [0x41] else [0x40]
  else if f64Mant b = 0 then
    if f64Sign b = 1 then [0x43] else []
  else
    let t := ctz (f64Mant b)
    let n := f64Mant b / 2 ^ t          -- odd
    let e := f64Pow b + t               -- |x| = n * 2^e
    let eo := realExpOctets e
    (0x80 + 0x40 * f64Sign b + (eo.length - 1)) :: (eo ++ toBE n)

end Asn1c.Spec
