import Asn1cModel.Base
/-
  Spec: the proleptic Gregorian calendar as it is defined (leap rule, month lengths, counting days),
  POSIX seconds-since-the-Epoch, and the canonical (DER, X.690 §11.7/§11.8) text of GeneralizedTime /
  UTCTime in forced-UTC form: "YYYYMMDDHHMMSSZ" / "YYMMDDHHMMSSZ".  Core Lean only.
-/
namespace Asn1c.Spec.Time
open Asn1c

def leapYear (y : Nat) : Bool := y % 4 = 0 && (y % 100 ≠ 0 || y % 400 = 0)

def yearLen (y : Nat) : Nat := if leapYear y then 366 else 365

/-- lengths of the months January … December of year `y` -/
def monthLens (y : Nat) : List Nat :=
  [31, if leapYear y then 29 else 28, 31, 30, 31, 30, 31, 31, 30, 31, 30, 31]

/-- days from 0000-01-01 to `y`-01-01 (years counted one by one) -/
def daysBeforeYear : Nat → Nat
  | 0 => 0
  | y + 1 => daysBeforeYear y + yearLen y

/-- days from 0000-01-01 to the date Y-M-D (M = 1..12, D = 1..) -/
def dayNumber (Y M D : Nat) : Nat := daysBeforeYear Y + ((monthLens Y).take (M - 1)).sum + (D - 1)

/-- 1970-01-01 has day number 719528 (`dayNumber_epoch` in Proofs/Time.lean) -/
def epochDayNumber : Nat := 719528

/-- seconds since 1970-01-01T00:00:00Z of the UTC date-time Y-M-D h:m:s (POSIX: every day has 86400 s) -/
def epochSeconds (Y M D h m s : Nat) : Int :=
  86400 * ((dayNumber Y M D : Int) - 719528) + 3600 * h + 60 * m + s

/-- a calendar date-time with a four-digit year -/
def ValidDateTime (Y M D h m s : Nat) : Prop :=
  Y ≤ 9999 ∧ 1 ≤ M ∧ M ≤ 12 ∧ 1 ≤ D ∧ D ≤ (monthLens Y).getD (M - 1) 0 ∧ h ≤ 23 ∧ m ≤ 59 ∧ s ≤ 59

instance (Y M D h m s : Nat) : Decidable (ValidDateTime Y M D h m s) := by
  unfold ValidDateTime; infer_instance

/-- two decimal digits (ASCII) of `n % 100` -/
def digits2 (n : Nat) : Bytes := [48 + n / 10 % 10, 48 + n % 10]
/-- four decimal digits (ASCII) of `n % 10000` -/
def digits4 (n : Nat) : Bytes := [48 + n / 1000 % 10, 48 + n / 100 % 10, 48 + n / 10 % 10, 48 + n % 10]

/-- canonical GeneralizedTime without fraction: YYYYMMDDHHMMSSZ -/
def gtCanon (Y M D h m s : Nat) : Bytes :=
  digits4 Y ++ digits2 M ++ digits2 D ++ digits2 h ++ digits2 m ++ digits2 s ++ [0x5a]

/-- the fourteen digits "YYYYMMDDHHMMSS" (`gtCanon` without the final 'Z') -/
def gtDigits14 (Y M D h m s : Nat) : Bytes :=
  digits4 Y ++ digits2 M ++ digits2 D ++ digits2 h ++ digits2 m ++ digits2 s

/-- big-endian decimal value of a list of ASCII digits, continuing from `acc` -/
def digitsValAcc (acc : Nat) (ds : List Nat) : Nat := ds.foldl (fun a c => a * 10 + (c - 48)) acc

/-- big-endian decimal value of a list of ASCII digits -/
def digitsVal (ds : List Nat) : Nat := digitsValAcc 0 ds

/-- canonical UTCTime: YYMMDDHHMMSSZ -/
def utCanon (Y M D h m s : Nat) : Bytes :=
  digits2 Y ++ digits2 M ++ digits2 D ++ digits2 h ++ digits2 m ++ digits2 s ++ [0x5a]

/-- the digits of the fraction `fv / 10^fd` (`fv < 10^fd`): `fd` digits, most significant first -/
def fracDigits : Nat → Nat → List Nat
  | 0, _ => []
  | fd + 1, fv => (48 + fv / 10 ^ fd % 10) :: fracDigits fd fv

/-- canonical fraction (X.690 §11.7.3): no trailing zeros, no decimal point if the fraction is zero -/
def fracCanon (fv fd : Nat) : List Nat :=
  let ds := ((fracDigits fd fv).reverse.dropWhile (· = 48)).reverse
  if ds = [] then [] else 0x2e :: ds

/-- the year a two-digit UTCTime year is read as by `asn_UT2time` (first digit > '5' → 19xx): 1960..2059 -/
def utWindow (Y : Nat) : Nat := if Y % 100 ≥ 60 then 1900 + Y % 100 else 2000 + Y % 100

/-- first instant of year 0000 and of year 10000, first instants of 1960 and 2060 -/
def t0000 : Int := -62167219200
def t10000 : Int := 253402300800
def t1960 : Int := -315619200
def t2060 : Int := 2840140800

end Asn1c.Spec.Time
