import Asn1cModel.Base
/-
  Spec: X.690 §8.3 two's-complement INTEGER contents.
-/
namespace Asn1c.Spec
open Asn1c

/-- two's complement value of a big-endian octet string (X.690 §8.3.3); `[]` ↦ 0 -/
def twosVal : Bytes → Int
  | [] => 0
  | b :: bs => if b < 128 then (ofBE 0 (b :: bs) : Int) else (ofBE 0 (b :: bs) : Int) - 256 ^ (bs.length + 1)

/-- X.690 §8.3.2: if there is more than one octet, the first nine bits are neither all 0 nor all 1 -/
def MinimalTwos : Bytes → Prop
  | 0 :: b :: _ => ¬ b < 128
  | 255 :: b :: _ => ¬ b ≥ 128
  | _ => True

instance : (bs : Bytes) → Decidable (MinimalTwos bs)
  | [] => isTrue trivial
  | [_] => by unfold MinimalTwos; split <;> infer_instance
  | _ :: _ :: _ => by unfold MinimalTwos; split <;> infer_instance

/-- unsigned big-endian value -/
def unsVal (bs : Bytes) : Nat := ofBE 0 bs

def fitsS64 (v : Int) : Prop := -(2 ^ 63) ≤ v ∧ v < 2 ^ 63
def fitsU64 (v : Int) : Prop := 0 ≤ v ∧ v < 2 ^ 64
instance (v : Int) : Decidable (fitsS64 v) := by unfold fitsS64; infer_instance
instance (v : Int) : Decidable (fitsU64 v) := by unfold fitsU64; infer_instance

/-- Decimal numeral value of a digit string (ASCII codes), most significant first -/
def digitsVal (acc : Nat) : List Nat → Nat
  | [] => acc
  | c :: cs => digitsVal (acc * 10 + (c - 0x30)) cs

def allDigits (cs : List Nat) : Prop := ∀ c ∈ cs, 0x30 ≤ c ∧ c ≤ 0x39
instance (cs : List Nat) : Decidable (allDigits cs) := by unfold allDigits; infer_instance

end Asn1c.Spec
