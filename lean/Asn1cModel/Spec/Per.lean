import Asn1cModel.Base
/-
  Spec: the UNALIGNED PER building blocks of ITU-T X.691 (§10.5–§10.9), written from the standard.
  Bits are `List Bool`, most significant first.  Core Lean only.
-/
namespace Asn1c.Spec.Per
open Asn1c

/-- least `w` with `2^w ≥ r` (number of bits of a constrained whole number with range `r ≥ 1`), X.691 §10.5.4 -/
def bitWidth (r : Nat) : Nat := if r ≤ 1 then 0 else Nat.log2 (r - 1) + 1

/-- §10.3 / §10.5: non-negative-binary-integer in exactly `w` bits -/
def nnbi (w n : Nat) : Bits := natBits w n

/-- §10.5 constrained whole number `lb ≤ n ≤ ub` (UNALIGNED variant, §10.5.6) -/
def constrainedWholeNumber (lb ub n : Int) : Bits :=
  nnbi (bitWidth (ub - lb + 1).toNat) (n - lb).toNat

/-- minimal octets of a non-negative integer, at least one octet (§10.3.6) -/
def nnOctets (n : Nat) : Bytes := if n = 0 then [0] else toBE n

/-- §10.9.3.5–10.9.3.7 single length determinant, `n < 16384` -/
def lengthDetSmall (n : Nat) : Bits :=
  if n ≤ 127 then false :: nnbi 7 n else true :: false :: nnbi 14 n

/-- §10.9.3.8 fragment header for `m` blocks of 16K items (1 ≤ m ≤ 4) -/
def fragHeader (m : Nat) : Bits := true :: true :: nnbi 6 m

/-- §10.9.3.8: items (each already encoded) preceded by an unconstrained length determinant,
    fragmented into 64K/48K/32K/16K blocks; `fuel` bounds the recursion (`items.length + 1` suffices) -/
def lengthPrefixed : Nat → List Bits → Bits
  | 0, _ => []
  | fuel + 1, items =>
    let n := items.length
    if n < 16384 then lengthDetSmall n ++ items.flatten
    else
      let m := min (n / 16384) 4
      fragHeader m ++ (items.take (m * 16384)).flatten ++ lengthPrefixed fuel (items.drop (m * 16384))

/-- §10.7 semi-constrained whole number `n ≥ lb`: length (in octets) + minimal non-negative octets -/
def semiConstrainedWholeNumber (lb n : Int) : Bits :=
  let os := nnOctets (n - lb).toNat
  lengthPrefixed (os.length + 1) (os.map fun b => nnbi 8 b)

/-- minimal two's complement octets (§10.4), at least one octet -/
def twosOctets (z : Int) : Bytes :=
  let pos (n : Nat) : Bytes := match toBE n with
    | [] => [0]
    | b :: bs => if b ≥ 128 then 0 :: b :: bs else b :: bs
  if z ≥ 0 then pos z.toNat else (pos (-z - 1).toNat).map (255 - ·)

/-- §10.8 unconstrained whole number: length + minimal two's complement octets -/
def unconstrainedWholeNumber (z : Int) : Bits :=
  let os := twosOctets z
  lengthPrefixed (os.length + 1) (os.map fun b => nnbi 8 b)

/-- §10.6 normally small non-negative whole number -/
def normallySmall (n : Nat) : Bits :=
  if n ≤ 63 then false :: nnbi 6 n else true :: semiConstrainedWholeNumber 0 n

/-- §10.9.4.1 constrained length `lb ≤ n ≤ ub < 64K` -/
def constrainedLength (lb ub n : Nat) : Bits := constrainedWholeNumber lb ub n

/-- §10.9.3.4 normally small length (used for extension addition bitmaps), `n ≥ 1` -/
def normallySmallLength (n : Nat) : Bits :=
  if n ≤ 64 then false :: nnbi 6 (n - 1) else true :: lengthDetSmall n

/-- complete encoding: pad with zero bits to an octet boundary; an empty bit string is one zero octet (§11.1) -/
def complete (bs : Bits) : Bytes := if bs.isEmpty then [0] else bitsToBytes bs

end Asn1c.Spec.Per
