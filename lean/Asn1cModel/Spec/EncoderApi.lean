import Asn1cModel.Impl.Application
/-
  Spec vocabulary of C07 (encoder API contract), written from the property text and asn_application.h:
  what "delivered to the callback", "reported size", "the part that fits" and the encoder obligations mean.
  Core Lean only.
-/
namespace Asn1c.Spec.EncoderApi
open Asn1c Asn1c.Impl.Application

/-- the application callback that accepts and records everything -/
def recordCb : Callback (List Bytes) := fun acc c => (acc ++ [c], true)

/-- the chunks `asn_encode_internal` hands to a callback that accepts everything (the encoder's own chunks plus
    what the wrapper adds: UPER's single zero octet, the plain-text newline) -/
def delivered (syn : Syntax) (ops : Option TypeOps) : List Bytes := (asnEncodeInternal syn ops recordCb []).1

/-- what `asn_encode_internal` returns then (`.encoded`, errno assignment) -/
def reported (syn : Syntax) (ops : Option TypeOps) : Rval := (asnEncodeInternal syn ops recordCb []).2

/-- size accounting of the selected encoder is exact: a non-negative reported size is the number of octets delivered
    (for UPER this says `(bits + 7) / 8` = octets flushed, and 0 bits = nothing flushed) -/
def Accurate (syn : Syntax) (ops : Option TypeOps) : Prop :=
  0 ≤ (reported syn ops).encoded → (reported syn ops).encoded = (total (delivered syn ops) : Int)

/-- the negation seen from the wrappers: the encoder claims a non-negative size different from what it delivered; this is
    exactly when `assert(er.encoded < 0 || er.encoded == computed_size)` of the two buffer wrappers fires -/
def BadAccounting (syn : Syntax) (ops : Option TypeOps) : Prop :=
  0 ≤ (reported syn ops).encoded ∧ (reported syn ops).encoded ≠ (total (delivered syn ops) : Int)

instance (syn : Syntax) (ops : Option TypeOps) : Decidable (BadAccounting syn ops) := by
  unfold BadAccounting; infer_instance

theorem accurate_iff_not_bad (syn : Syntax) (ops : Option TypeOps) : Accurate syn ops ↔ ¬ BadAccounting syn ops := by
  unfold Accurate BadAccounting
  constructor
  · intro h ⟨h0, hne⟩; exact hne (h h0)
  · intro h h0
    exact Decidable.byContradiction fun hne => h ⟨h0, hne⟩

/-- the maximal prefix of the chunk list that fits into `n` octets when `acc` are already used
    (what `overrun_encoder_cb` copies) -/
def fitChunks (n : Nat) : Nat → List Bytes → List Bytes
  | _, [] => []
  | acc, c :: cs => if acc + c.length ≤ n then c :: fitChunks n (acc + c.length) cs else []

/-- whatever the callback answers from here on, the encoder returns -1 and blames a type that has the encoder -/
def FailsEventually : Enc → Prop
  | .ret o => o = .fail .hasEnc
  | .emit _ k f => FailsEventually k ∧ FailsEventually f

/-- **the encoder obligation**: "if the callback returns < 0 the encoder returns -1" (with `failed_type` set to
    a type that has an encoder for the syntax, which is what `ASN__ENCODE_FAILED` does) -/
def Propagates : Enc → Prop
  | .ret _ => True
  | .emit _ k f => FailsEventually f ∧ Propagates k

/-- the encoder `asn_encode_internal` selects for a syntax (none: no encoder / syntax not supported) -/
def selected (syn : Syntax) (ops : TypeOps) : Option Enc :=
  match syn with
  | .plaintext => ops.print
  | .ber | .der => ops.der
  | .basicOer | .canonicalOer => ops.oer
  | .basicUper | .canonicalUper => ops.uper
  | .basicXer | .canonicalXer => ops.xer.map (· (xerFlags syn))
  | _ => none

/-- the transfer syntaxes with an encoder behind them ("all five encoders": BER/DER, OER, UPER, BASIC-XER, CANONICAL-XER) -/
def Standard : Syntax → Prop
  | .ber | .der | .basicOer | .canonicalOer | .basicUper | .canonicalUper | .basicXer | .canonicalXer => True
  | _ => False

instance : DecidablePred Standard := fun s => by unfold Standard; cases s <;> infer_instance

/-- "the allocation failed": the initial MALLOC failed, or one of the first `n` REALLOCs did
    (`n` = number of REALLOC calls `dynamic_encoder_cb` made during the run) -/
def AllocFailed (mallocOk : Bool) (allocOk : Nat → Bool) (n : Nat) : Prop :=
  mallocOk = false ∨ ∃ i, i < n ∧ allocOk i = false

/-- smallest `b * 2^j` (j ≥ 0) that is `> t`, by doubling; fuel-free via well-founded recursion -/
def minDouble (b t : Nat) : Nat :=
  if _h0 : b = 0 then 0 else if _h : b ≤ t then minDouble (2 * b) t else b
termination_by t + 1 - b
decreasing_by omega

end Asn1c.Spec.EncoderApi
