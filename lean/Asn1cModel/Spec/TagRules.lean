import Asn1cModel.Spec.ModuleAst
/-
  Spec for C11, written from X.680 (clause numbers of the 2008/2015 editions):
    §8   tags, Table 1 (universal class numbers)
    §31.2 tagged types (the outermost tag of `[c n] T` is (c,n) whatever IMPLICIT/EXPLICIT says)
    §25.3/25.8, §27.2, §29.2/29.5  automatic tagging: selected iff the module says AUTOMATIC TAGS
          and no component of the extension root is a TaggedType; components are numbered
          0,1,2,… in context class, root first, then the extension additions
    §25.6 SEQUENCE, §27.3 SET, §29.3 CHOICE  distinct tags
    §29.4-ish "the tags of an untagged CHOICE are those of its alternatives"
    §52.7.1 (51.7.1 / 48.7.1 in other editions): for the distinctness rules a conceptual
          element is added at every extension insertion point, whose tag differs from every
          real tag and equals the tag of every other such element
    §20  ENUMERATED numbering (20.3, 20.6) and distinctness (20.2, 20.4, 20.5)
  Core Lean only.
-/
namespace Asn1c.Spec.Fix
open Asn1c.Fix

/-- X.680 Table 1.  CHOICE and a type reference have no tag of their own. -/
def univTag : Ty → Option Nat
  | .prim _ .boolean => some 1
  | .prim _ .integer => some 2
  | .prim _ .octetString => some 4
  | .prim _ .null => some 5
  | .enum _ _ _ _ => some 10
  | .constr _ .sequence _ _ _ => some 16
  | .constr _ .set _ _ _ => some 17
  | .constr _ .choice _ _ _ => none
  | .seqOf _ _ => some 16
  | .ref _ _ => none

/-- automatic tagging is selected for a component list: AUTOMATIC TAGS and no TaggedType among
    the components of the extension root.  (If the root is untagged the additions shall not
    be tagged either — X.680 25.3 NOTE / the code's "extensions are tagged but root components
    are not"; for such an illegal list the rules below see the components as written.) -/
def autoSelected (M : Module) (root adds : List Comp) : Bool :=
  M.dflt == .automatic && root.all (fun c => c.ty.tag.isNone) && adds.all (fun c => c.ty.tag.isNone)

/-- the automatic tagging transformation: `[i]`, `[i+1]`, … in context class.  The mode
    (IMPLICIT unless the type is an untagged CHOICE) does not influence the outermost tag. -/
def number : Nat → List Comp → List Comp
  | _, [] => []
  | i, c :: rest => c.withTag (some ⟨.context, i, .default_⟩) :: number (i + 1) rest

/-- the members of a constructed type as the distinctness rules see them, after the tagging
    environment has been applied; the marker stands for the conceptual extension element -/
def comps (M : Module) (root : List Comp) (hasExt : Bool) (adds : List Comp) : List Slot :=
  if autoSelected M root adds then slotsOf (number 0 root) hasExt (number root.length adds)
  else slotsOf root hasExt adds

/-- `HasOuter M x g`: g is one of the possible outermost tags of x — own tag if tagged,
    else the universal tag, else (reference) those of the referenced type, else (untagged
    CHOICE) those of any alternative.  Least fixed point, so a type that only refers to
    itself has no tags. -/
inductive HasOuter (M : Module) : Ex → OTag → Prop
  | ext : HasOuter M .ext .extp
  | tagged {t : Ty} {g : Tag} : t.tag = some g → HasOuter M (.ty t) (.key g.cls g.num)
  | univ {t : Ty} {n : Nat} : t.tag = none → univTag t = some n →
      HasOuter M (.ty t) (.key .universal n)
  | ref {n : String} {t' : Ty} {g : OTag} : M.lookup n = some t' → HasOuter M (.ty t') g →
      HasOuter M (.ty (.ref none n)) g
  | choice {root : List Comp} {hasExt : Bool} {adds : List Comp} {s : Slot} {g : OTag} :
      s ∈ comps M root hasExt adds → HasOuter M s.ex g →
      HasOuter M (.ty (.constr none .choice root hasExt adds)) g

/-- "Type is an untagged choice type" (X.680 §31.2.7 c): an untagged CHOICE or an untagged
    reference to one.  Such a type is tagged EXPLICIT whatever the module default says. -/
inductive IsUntaggedChoice (M : Module) : Ty → Prop
  | choice {r : List Comp} {h : Bool} {a : List Comp} : IsUntaggedChoice M (.constr none .choice r h a)
  | ref {n : String} {t' : Ty} : M.lookup n = some t' → IsUntaggedChoice M t' →
      IsUntaggedChoice M (.ref none n)

/-- the set of possible outermost tags -/
def outerTags (M : Module) (x : Ex) : OTag → Prop := fun g => HasOuter M x g

/-- two members do not have distinct tags -/
def Clash (M : Module) (a b : Ex) : Prop := ∃ g, outerTags M a g ∧ outerTags M b g

/-- SET (§27.3) and CHOICE (§29.3): all members pairwise distinct -/
def allDistinct (M : Module) (ss : List Slot) : Prop :=
  ss.Pairwise (fun a b => ¬ Clash M a.ex b.ex)

/-- SEQUENCE (§25.6): a component a marked OPTIONAL/DEFAULT, any further OPTIONAL/DEFAULT
    components, then b: a and b have distinct tags.  (The marker is not optional, so a run
    ends at the extension insertion point, whose conceptual element is the "following
    component"; additions form their own runs.) -/
def runsDistinct (M : Module) (ss : List Slot) : Prop :=
  ∀ pre a mid b post, ss = pre ++ a :: (mid ++ b :: post) →
    a.opt = true → (∀ m ∈ mid, m.opt = true) → ¬ Clash M a.ex b.ex

def tagsDistinct (M : Module) : CKind → List Slot → Prop
  | .sequence, ss => runsDistinct M ss
  | _, ss => allDistinct M ss

/-! ### ENUMERATED (§20) -/

/-- smallest c' ≥ c not in `used` (fuel `used.length + 1` always suffices) -/
def firstFree (used : List Nat) : Nat → Nat → Nat
  | 0, c => c
  | f + 1, c => if c ∈ used then firstFree used f (c + 1) else c

def explicitVals : List EnumItem → List Nat
  | [] => []
  | it :: rest => match it.val with
    | some v => v :: explicitVals rest
    | none => explicitVals rest

/-- §20.3: in the root, identifiers without a number get successive integers from 0, skipping
    those used by the numbered items of the root -/
def rootVals (ev : List Nat) : Nat → List EnumItem → List Nat
  | _, [] => []
  | cur, it :: rest =>
    match it.val with
    | some v => v :: rootVals ev cur rest
    | none =>
      let x := firstFree ev (ev.length + 1) cur
      x :: rootVals ev (x + 1) rest

/-- §20.6: an un-numbered addition gets the smallest value not defined in the root and larger
    than all preceding additions (`lo` = 1 + the largest preceding addition, 0 if none) -/
def addVals (rv : List Nat) : Nat → List EnumItem → List Nat
  | _, [] => []
  | lo, it :: rest =>
    let v := match it.val with
      | some v => v
      | none => firstFree rv (rv.length + 1) lo
    v :: addVals rv (max lo (v + 1)) rest

def enumRootVals (root : List EnumItem) : List Nat := rootVals (explicitVals root) 0 root
def enumAddVals (root adds : List EnumItem) : List Nat := addVals (enumRootVals root) 0 adds
def enumVals (root adds : List EnumItem) : List Nat := enumRootVals root ++ enumAddVals root adds

/-- §20.2/20.5 names and values distinct; §20.4 additions strictly increasing -/
def enumOk (root adds : List EnumItem) : Prop :=
  ((root ++ adds).map EnumItem.name).Nodup ∧ (enumVals root adds).Nodup ∧
  (enumAddVals root adds).Pairwise (· < ·)

/-! ### the whole module -/

/-- what the property demands of one type expression -/
def NodeOk (M : Module) : Ty → Prop
  | .ref _ n => (M.lookup n).isSome = true
  | .enum _ r _ a => enumOk r a
  | .constr _ k r h a => ((r ++ a).map Comp.name).Nodup ∧ tagsDistinct M k (comps M r h a)
  | _ => True

/-- the module is unambiguous and consistent in the sense of property C11 -/
def consistent (M : Module) : Prop := ∀ t ∈ M.nodes, NodeOk M t

end Asn1c.Spec.Fix
