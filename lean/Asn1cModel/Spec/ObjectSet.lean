import Asn1cModel.Impl.OpenType
/-
  Spec.ObjectSet — what X.681 / X.682 / X.691 say about object sets and open types, written from the
  standards and from the text of property C18 (short, to be read in minutes).  Core Lean only.
  (The syntax types `Row`, `SetItem` are shared with Impl.OpenType; they carry no behaviour.)
-/
namespace Asn1c.Spec.ObjectSet
open Asn1c Asn1c.Impl.OpenType

variable {ι : Type}

/-- X.681 §12: the objects of an object set are all objects written in it — the root ones and the
    ones after the extension marker, whether written alone or joined by `|`. -/
def allObjects : List (SetItem ι) → List (Row ι)
  | [] => []
  | .union os :: r => os ++ allObjects r
  | .ext :: r => allObjects r

/-- no comma-separated item consists of exactly one object -/
def NoSingleton : List (SetItem ι) → Prop
  | [] => True
  | .union os :: r => os.length ≠ 1 ∧ NoSingleton r
  | .ext :: r => NoSingleton r

/-- X.682 §10 (component relation constraint `({Set}{@id})`): the open type is the `&Type` of
    an object of the set whose `&id` equals the identifier component. -/
def Paired (objs : List (Row ι)) (id : ι) (ty : Nat) : Prop := (⟨id, ty⟩ : Row ι) ∈ objs

/-- the `&id` field is declared UNIQUE (X.681 §9.10): no two objects of the set share an `&id`. -/
def UniqueIds (objs : List (Row ι)) : Prop := (objs.map (·.id)).Nodup

/-- X.691 §10.9.3.6/7: unconstrained length determinant below 16K: one octet `0xxxxxxx` up to
    127, two octets `10xxxxxx xxxxxxxx` up to 16383. -/
def lenDet (n : Nat) : Bits := if n ≤ 127 then natBits 8 n else natBits 16 (n + 32768)

/-- X.691 §10.2: an open type field is the complete encoding of the value (at least one octet,
    padded with zero bits to an octet boundary) preceded by its length in octets. -/
def openTypeField (inner : Bits) : Bits :=
  let padded := if inner.length = 0 then List.replicate 8 false
                else inner ++ List.replicate ((8 - inner.length % 8) % 8) false
  lenDet (padded.length / 8) ++ padded

end Asn1c.Spec.ObjectSet
