import Asn1cModel.Spec.Twos
/-
  Spec: decimal numerals as accepted by the `asn_strto*_lim` family:
  an optional sign followed by one or more ASCII digits 0x30..0x39 (leading zeros allowed).
-/
namespace Asn1c.Spec
open Asn1c

/-- value of an unsigned decimal numeral: one or more ASCII digits, nothing else -/
def digits? (ds : List Nat) : Option Nat :=
  if ds ≠ [] ∧ allDigits ds then some (digitsVal 0 ds) else none

/-- value of a decimal numeral `['+' | '-'] digit+`, the whole byte string being the numeral.
    `signed = false` (the unsigned parsers): a leading '+' is allowed, a leading '-' is not. -/
def numeral? (signed : Bool) : List Nat → Option Int
  | [] => none
  | c :: cs =>
    if c = 0x2d then
      if signed then (digits? cs).map (fun (n : Nat) => -(n : Int)) else none
    else if c = 0x2b then (digits? cs).map (fun (n : Nat) => (n : Int))
    else (digits? (c :: cs)).map (fun (n : Nat) => (n : Int))

end Asn1c.Spec
