import Asn1cModel.Base
/-
  Spec: X.690 §8.19 OBJECT IDENTIFIER contents octets (and §8.20 RELATIVE-OID), and the dotted
  text form ("1.2.840.113549") of an arc vector.  Core Lean only.
-/
namespace Asn1c.Spec.Oid
open Asn1c

/-- the octets of a sub-identifier before the last one: base-128 digits of `n` (most significant
    first, none for 0), each with bit 8 set (X.690 §8.19.2) -/
def base128hi (n : Nat) : Bytes :=
  if _h : n = 0 then [] else base128hi (n / 128) ++ [128 + n % 128]
termination_by n
decreasing_by omega

/-- X.690 §8.19.2: a sub-identifier is encoded base 128, big-endian, in the fewest octets possible;
    bit 8 of every octet but the last is one -/
def base128 (n : Nat) : Bytes := base128hi (n / 128) ++ [n % 128]

/-- value denoted by a series of octets read as a sub-identifier (bits 7..1 concatenated) -/
def subidVal (acc : Nat) : Bytes → Nat
  | [] => acc
  | b :: bs => subidVal (acc * 128 + b % 128) bs

/-- `bs` is one complete sub-identifier: non-empty, bit 8 set on every octet but the last -/
def IsSubid : Bytes → Prop
  | [] => False
  | [b] => b < 128
  | b :: b' :: bs => 128 ≤ b ∧ b < 256 ∧ IsSubid (b' :: bs)

/-- X.690 §8.19.2 "the leading octet of the subidentifier shall not have the value 0x80" -/
def MinimalSubid : Bytes → Prop
  | 128 :: _ => False
  | _ => True

/-- X.690 §8.19.4 / X.660: the first arc is 0, 1 or 2; under 0 and 1 the second arc is at most 39.
    The last conjunct is the `uint32_t` width of the API: the first sub-identifier 40·a₀+a₁ must be
    a 32-bit value. -/
def ValidFirstPair : List Nat → Prop
  | a0 :: a1 :: _ => a0 ≤ 2 ∧ (a0 ≤ 1 → a1 ≤ 39) ∧ 40 * a0 + a1 < 2 ^ 32
  | _ => False

instance : (arcs : List Nat) → Decidable (ValidFirstPair arcs)
  | [] => isFalse (by simp [ValidFirstPair])
  | [_] => isFalse (by simp [ValidFirstPair])
  | _ :: _ :: _ => by unfold ValidFirstPair; infer_instance

/-- every arc fits `asn_oid_arc_t` -/
def Arcs32 (arcs : List Nat) : Prop := ∀ a ∈ arcs, a < 2 ^ 32

/-- X.690 §8.19.3–8.19.5: contents octets of an OBJECT IDENTIFIER value -/
def oidOctets : List Nat → Bytes
  | a0 :: a1 :: rest => base128 (40 * a0 + a1) ++ rest.flatMap base128
  | _ => []

/-- X.690 §8.20: contents octets of a RELATIVE-OID value -/
def roidOctets (arcs : List Nat) : Bytes := arcs.flatMap base128

/-- decimal numeral (ASCII codes) of a natural number, no leading zeros -/
def decimal (n : Nat) : List Nat :=
  if n < 10 then [48 + n] else decimal (n / 10) ++ [48 + n % 10]

/-- the dotted text form of an arc vector: numerals separated by '.' -/
def dotted : List Nat → List Nat
  | [] => []
  | [a] => decimal a
  | a :: b :: rest => decimal a ++ 0x2e :: dotted (b :: rest)

end Asn1c.Spec.Oid
