import Asn1cModel.Base
import Asn1cModel.Impl.Unber
/-
  Spec (C20): BER TLV forests, written from X.690 §8.1 (not from the code).

  * `Tlv` — a tag-length-value element: primitive / constructed with definite length /
    constructed with indefinite length; tag class and number; for definite lengths the
    *form* of the length octets (short, or long with `k` octets — not necessarily minimal).
  * `Tlv.encode` — §8.1.2 identifier octets, §8.1.3 length octets, contents, §8.1.5 EOC.
  * `Tlv.wf` — the well-formedness conditions of §8.1.
  * `expected` — what the property demands `unber` to print for a forest: one opening event
    per TLV with O = offset of its first identifier octet, T = its tag, TL = number of
    identifier+length octets, V = number of contents octets (or indefinite), the contents
    octets of primitive TLVs, and closing events (O = end offset, L = total size; for the
    indefinite form the end-of-contents TLV: tag [UNIVERSAL 0], TL = 2).
  Only the record type `Out` (the printed fields) is shared with the Impl side.
-/
namespace Asn1c.Spec.TlvForest
open Asn1c
open Asn1c.Impl.Unber (Out)

/-- form of a definite length: §8.1.3.4 short form, §8.1.3.5 long form with `k` octets -/
inductive LenForm where
  | short
  | long (k : Nat)
deriving DecidableEq, Repr

inductive Tlv where
  | prim (cls num : Nat) (lf : LenForm) (content : Bytes)
  | cons (cls num : Nat) (lf : LenForm) (children : List Tlv)
  | indef (cls num : Nat) (children : List Tlv)
deriving Repr

/-- §8.1.2.4.2: the octets before the last one of a long-form tag number: base-128 digits of
    `m`, most significant first, no leading zero digit, bit 8 set -/
def contOctets (m : Nat) : Bytes :=
  if _h : m = 0 then [] else contOctets (m / 128) ++ [128 + m % 128]
termination_by m
decreasing_by omega

/-- §8.1.2: identifier octets; `constructed` is bit 6 -/
def identOctets (cls : Nat) (constructed : Bool) (num : Nat) : Bytes :=
  let pc := if constructed then 32 else 0
  if num ≤ 30 then [cls * 64 + pc + num]
  else (cls * 64 + pc + 31) :: (contOctets (num / 128) ++ [num % 128])

/-- §8.1.3.4 / §8.1.3.5: definite length octets in the given form -/
def lenOctets : LenForm → Nat → Bytes
  | .short, n => [n]
  | .long k, n => (128 + k) :: toBEn k n

/-- the form can express `n` (§8.1.3.4: n ≤ 127; §8.1.3.5: 1..126 octets, 0xFF excluded) -/
def LenForm.valid : LenForm → Nat → Bool
  | .short, n => n ≤ 127
  | .long k, n => 1 ≤ k && k ≤ 126 && n < 256 ^ k

/-- the form is the shortest possible one (the DER rule §10.1) -/
def LenForm.minimal : LenForm → Nat → Bool
  | .short, n => n ≤ 127
  | .long k, n => 128 ≤ n && 256 ^ (k - 1) ≤ n && n < 256 ^ k

/-- class is 0..3 and the tag is not [UNIVERSAL 0] (reserved for end-of-contents, §8.1.5) -/
def tagOk (cls num : Nat) : Bool := cls < 4 && !(cls == 0 && num == 0)

mutual
/-- §8.1.1: identifier, length, contents, (end-of-contents) -/
def Tlv.encode : Tlv → Bytes
  | .prim c n lf content => identOctets c false n ++ lenOctets lf content.length ++ content
  | .cons c n lf ch => identOctets c true n ++ lenOctets lf (encodeList ch).length ++ encodeList ch
  | .indef c n ch => identOctets c true n ++ [128] ++ encodeList ch ++ [0, 0]
/-- a forest is the concatenation of its elements -/
def encodeList : List Tlv → Bytes
  | [] => []
  | t :: ts => t.encode ++ encodeList ts
end

mutual
def Tlv.wf : Tlv → Bool
  | .prim c n lf content => tagOk c n && lf.valid content.length && content.all (· < 256)
  | .cons c n lf ch => tagOk c n && lf.valid (encodeList ch).length && wfList ch
  | .indef c n ch => tagOk c n && wfList ch
def wfList : List Tlv → Bool
  | [] => true
  | t :: ts => t.wf && wfList ts
end

mutual
/-- every definite length is in the minimal form -/
def Tlv.minimalLengths : Tlv → Bool
  | .prim _ _ lf content => lf.minimal content.length
  | .cons _ _ lf ch => lf.minimal (encodeList ch).length && minimalList ch
  | .indef _ _ ch => minimalList ch
def minimalList : List Tlv → Bool
  | [] => true
  | t :: ts => t.minimalLengths && minimalList ts
end

/-- number of identifier + length octets -/
def Tlv.headerLen : Tlv → Nat
  | .prim c n lf content => (identOctets c false n).length + (lenOctets lf content.length).length
  | .cons c n lf ch => (identOctets c true n).length + (lenOctets lf (encodeList ch).length).length
  | .indef c n _ => (identOctets c true n).length + 1

mutual
/-- The limits of the two tools (not of BER): tag numbers below 2^30 (`ber_tlv_tag_t` is 32 bits
    wide), at most 32 identifier+length octets (`tagbuf[32]`), contents below 2^62 octets
    (`RSSIZE_MAX`). -/
def Tlv.inDomain : Tlv → Bool
  | .prim c n lf content => n < 2 ^ 30 && (Tlv.prim c n lf content).headerLen ≤ 32 && content.length < 2 ^ 62
  | .cons c n lf ch => n < 2 ^ 30 && (Tlv.cons c n lf ch).headerLen ≤ 32 && (encodeList ch).length < 2 ^ 62
      && inDomainList ch
  | .indef _ n ch => n < 2 ^ 30 && inDomainList ch
def inDomainList : List Tlv → Bool
  | [] => true
  | t :: ts => t.inDomain && inDomainList ts
end

mutual
/-- the part of the tools' limits that does not depend on the length form: tag numbers below
    2^30 and contents below 2^62 octets (for minimal length forms this implies `inDomain`) -/
def Tlv.inRange : Tlv → Bool
  | .prim _ n _ content => n < 2 ^ 30 && content.length < 2 ^ 62
  | .cons _ n _ ch => n < 2 ^ 30 && (encodeList ch).length < 2 ^ 62 && inRangeList ch
  | .indef _ n ch => n < 2 ^ 30 && inRangeList ch
def inRangeList : List Tlv → Bool
  | [] => true
  | t :: ts => t.inRange && inRangeList ts
end

mutual
/-- nesting depth: the number of constructed TLVs on the longest chain of containment (X.690 puts no
    bound on it; `unber` walks at most `UNBER_MAX_NESTING_LEVEL` of them, one C stack frame each) -/
def Tlv.depth : Tlv → Nat
  | .prim _ _ _ _ => 0
  | .cons _ _ _ ch => depthList ch + 1
  | .indef _ _ ch => depthList ch + 1
def depthList : List Tlv → Nat
  | [] => 0
  | t :: ts => max t.depth (depthList ts)
end

/-- the tag as printed in `T="…"`: class and number (`(number << 2) | class`) -/
def tagOf (cls num : Nat) : Nat := num * 4 + cls

mutual
/-- what `unber` has to print for the TLV `t` found at offset `off`, nesting `level` -/
def Tlv.expected (level off : Nat) : Tlv → List Out
  | .prim c n lf content =>
    let tl := (Tlv.prim c n lf content).headerLen
    [ .opn level false off tl (tagOf c n) content.length,
      .val content,
      .cls level false (off + tl + content.length) tl (tagOf c n) content.length (tl + content.length) ]
  | .cons c n lf ch =>
    let tl := (Tlv.cons c n lf ch).headerLen
    let v := (encodeList ch).length
    [ .opn level true off tl (tagOf c n) v, .gt ]
    ++ expectedList (level + 1) (off + tl) ch
    ++ [ .cls level true (off + tl + v) tl (tagOf c n) v (tl + v) ]
  | .indef c n ch =>
    let tl := (Tlv.indef c n ch).headerLen
    let v := (encodeList ch).length
    [ .opn level true off tl (tagOf c n) (-1), .gt ]
    ++ expectedList (level + 1) (off + tl) ch
    ++ [ .cls level true (off + tl + v) 2 0 (-1) (tl + v + 2) ]
def expectedList (level off : Nat) : List Tlv → List Out
  | [] => []
  | t :: ts => t.expected level off ++ expectedList level (off + t.encode.length) ts
end

end Asn1c.Spec.TlvForest
