import Asn1cModel.Base
/-
  Spec: X.690 §8.1.2 identifier octets, §8.1.3 length octets (DER §10.1: minimal definite form).
  Written from the standard, not from the code.
-/
namespace Asn1c.Spec
open Asn1c

/-- minimal base-128 digits, most significant first (no continuation bits) -/
def b128digits (n : Nat) : List Nat :=
  if _h : n < 128 then [n] else b128digits (n / 128) ++ [n % 128]
termination_by n
decreasing_by omega

/-- set bit 8 on all but the last octet -/
def contBits : List Nat → Bytes
  | [] => []
  | [d] => [d]
  | d :: ds => (128 + d) :: contBits ds

/-- X.690 §8.1.2: identifier octets for class `cls` (0..3), P/C bit, tag number -/
def identOctets (cls : Nat) (constructed : Bool) (num : Nat) : Bytes :=
  let c := if constructed then 32 else 0
  if num ≤ 30 then [cls * 64 + c + num]
  else (cls * 64 + c + 31) :: contBits (b128digits num)

/-- X.690 §8.1.3.3–8.1.3.5 with DER §10.1: definite form, fewest octets -/
def derLen (n : Nat) : Bytes :=
  if n ≤ 127 then [n] else (128 + (toBE n).length) :: toBE n

end Asn1c.Spec
