/-
  Spec.Constraint — subtype constraints on INTEGER values / SIZE as sets of integers, their
  PER- and OER-visible parts, the effective constraint and the layouts the codecs must use.
  Written from X.680 (clause 50/51 and Annex G: set semantics, extensibility), X.691 clause
  10.3 (PER-visible constraints; EXCEPT and what follows is ignored; an extensible constraint
  contributes its root only), 10.5 / 10.9 / 12 (constrained, semi-constrained, unconstrained
  whole numbers; length determinants below 64K), X.696 clause 8.2 (extensible constraints are not
  OER-visible) and clause 10 (fixed-width INTEGER encodings).  Core Lean only.
-/
namespace Asn1c.Spec.Constraint

/-- an end point of a value range: `MIN`, `MAX` or a number -/
inductive End where
  | min
  | max
  | val (z : Int)
deriving DecidableEq, Repr, Inhabited

/-- `x` is not below the lower end point `e` -/
def End.below (e : End) (x : Int) : Bool :=
  match e with
  | .min => true
  | .val a => a ≤ x
  | .max => false       -- `MAX..` denotes no number we can name; never written by the grammar
/-- `x` is not above the upper end point `e` -/
def End.above (e : End) (x : Int) : Bool :=
  match e with
  | .max => true
  | .val a => x ≤ a
  | .min => false

/-- constraint expressions (one syntactic class; `Grammatical` in Impl.ConsParse says which
    trees the ASN.1 grammar can write) -/
inductive Cons where
  | single (v : Int)                       -- `5`
  | range (lo hi : End)                    -- `1..5`, `MIN..5`, `1..MAX`
  | union (a b : Cons)                     -- `a | b`
  | inter (a b : Cons)                     -- `a ^ b`
  | except (a b : Cons)                    -- `a EXCEPT b`
  | paren (a : Cons)                       -- `(a)`
  | size (a : Cons)                        -- `SIZE(a)`
  | ext (root : Cons)                      -- `root, ...`
  | exta (root adds : Cons)                -- `root, ..., adds`
  | serial (a b : Cons)                    -- `(a)(b)`: b applied to the type constrained by a
  | refine (a b : Cons)                    -- `T2 ::= T1 (b)` where `T1 ::= … (a)`: a type reference chain
deriving Repr, Inhabited

/-- a set of integers as a decidable predicate -/
abbrev ISet := Int → Bool

def ISet.univ : ISet := fun _ => true
/-- sizes are non-negative -/
def ISet.nat : ISet := fun x => decide (0 ≤ x)

/-- X.680: the set of values of the parent type `P` selected by the root of the constraint.
    `MIN`/`MAX` stand for the least/greatest value of the parent (so `MIN..5` selects every
    parent value ≤ 5); in `(a)(b)` the parent of `b` is the type constrained by `a`;
    extension additions are not in the root. -/
def root (P : ISet) : Cons → ISet
  | .single v => fun x => x == v && P x
  | .range lo hi => fun x => lo.below x && hi.above x && P x
  | .union a b => fun x => root P a x || root P b x
  | .inter a b => fun x => root P a x && root P b x
  | .except a b => fun x => root P a x && !root P b x
  | .paren a => root P a
  | .size a => root P a
  | .ext r => root P r
  | .exta r _ => root P r
  | .serial a b => root (root P a) b
  | .refine a b => root (root P a) b

/-- X.680 46.4 / 50.x: a constraint is extensible iff it carries the marker; in a serial
    application only the last constraint counts (extensibility is not inherited); set
    operations are extensible iff an operand is (G.4.3.8). -/
def extensible : Cons → Bool
  | .ext _ => true
  | .exta _ _ => true
  | .serial _ b => extensible b
  | .refine _ b => extensible b
  | .paren a => extensible a
  | .size a => extensible a
  | .union a b => extensible a || extensible b
  | .inter a b => extensible a || extensible b
  | .except a _ => extensible a
  | _ => false

/-- X.691 10.3 (PER-visible part of the root) = X.696 8.2.6: like `root`, but
    "EXCEPT and the following value set is completely ignored". -/
def visible (P : ISet) : Cons → ISet
  | .single v => fun x => x == v && P x
  | .range lo hi => fun x => lo.below x && hi.above x && P x
  | .union a b => fun x => visible P a x || visible P b x
  | .inter a b => fun x => visible P a x && visible P b x
  | .except a _ => visible P a
  | .paren a => visible P a
  | .size a => visible P a
  | .ext r => visible P r
  | .exta r _ => visible P r
  | .serial a b => visible (visible P a) b
  | .refine a b => visible (visible P a) b

/-- X.696 8.2.4: an extensible constraint is not OER-visible.  In a serial application only the
    last constraint can be extensible (a parent loses its marker when a further constraint is
    applied, X.680 50.x), so everything before it is visible in full and the last one is dropped
    when it carries the marker. -/
def oerVisible (P : ISet) : Cons → ISet
  | .serial a b => if extensible b then visible P a else visible (visible P a) b
  | .refine a b => oerVisible (visible P a) b      -- a type reference: the parent's root, then the own constraints
  | c => if extensible c then P else visible P c

/-- `lb` is the lower bound of the effective constraint: the least element, or `none` when the
    set is unbounded below. -/
def LowerBound (S : ISet) : Option Int → Prop
  | some l => S l = true ∧ ∀ x, S x = true → l ≤ x
  | none => ∀ b : Int, ∃ x, S x = true ∧ x < b
def UpperBound (S : ISet) : Option Int → Prop
  | some u => S u = true ∧ ∀ x, S x = true → x ≤ u
  | none => ∀ b : Int, ∃ x, S x = true ∧ b < x

/-- "the minimum number of bits necessary to represent the range": least `k` with `r ≤ 2^k` -/
def IsRangeBits (r : Int) (k : Nat) : Prop := r ≤ 2 ^ k ∧ ∀ j, j < k → (2:Int) ^ j < r

inductive PerForm where
  | unconstrained                 -- X.691 10.8: no lower bound
  | semi (lb : Int)               -- X.691 10.7: lower bound only
  | constrained (lb ub : Int)     -- X.691 10.5: both bounds, ⌈log2(ub − lb + 1)⌉ bits
deriving DecidableEq, Repr

/-- the PER layout determined by the effective constraint (lb, ub, extensible) -/
def perForm (lb ub : Option Int) : PerForm :=
  match lb, ub with
  | none, _ => .unconstrained
  | some l, none => .semi l
  | some l, some u => .constrained l u

/-- X.691 10.9.4.1 (length determinants): a constrained size with ub < 64K is a constrained whole
    number (the bit count is the `IsRangeBits` one); otherwise the general form is used. -/
def sizeIsConstrainedNumber (ub : Int) : Bool := decide (ub < 65536)

/-- X.696 10.2: width in octets (0 = variable length with a length determinant) and
    whether the number is unsigned. -/
def oerWidth (lb ub : Option Int) : Nat × Bool :=
  match lb, ub with
  | some l, some u =>
    if 0 ≤ l then
      (if u < 2 ^ 8 then 1 else if u < 2 ^ 16 then 2 else if u < 2 ^ 32 then 4 else if u < 2 ^ 64 then 8 else 0, true)
    else
      (if -(2 ^ 7) ≤ l ∧ u < 2 ^ 7 then 1 else if -(2 ^ 15) ≤ l ∧ u < 2 ^ 15 then 2
       else if -(2 ^ 31) ≤ l ∧ u < 2 ^ 31 then 4 else if -(2 ^ 63) ≤ l ∧ u < 2 ^ 63 then 8 else 0, false)
  | some l, none => (0, decide (0 ≤ l))
  | none, _ => (0, false)

/-- X.696 13/14/17: only a fixed size is used by the OER codecs (`none` = length determinant) -/
def oerFixedSize (lb ub : Option Int) : Option Int :=
  match lb, ub with
  | some l, some u => if l = u then some l else none
  | _, _ => none

end Asn1c.Spec.Constraint
