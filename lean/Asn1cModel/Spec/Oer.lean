import Asn1cModel.Base
import Asn1cModel.Spec.Twos
/-
  Spec: the length determinant of ITU-T X.696 (08/2015) §8.6, written from the standard.
  §8.6.3 two forms; §8.6.4 short form: a single octet, bit 8 = 0, bits 7..1 = the length (0..127);
  §8.6.5 long form: first octet bit 8 = 1, bits 7..1 = number k of subsequent octets, which hold the
  length as an unsigned big-endian integer.  Canonical OER (§8.6.3 note / §12): the short form whenever
  the length is below 128, otherwise the long form with the fewest subsequent octets.
  Core Lean only.
-/
namespace Asn1c.Spec.Oer
open Asn1c

/-- the canonical length determinant of `n` -/
def length (n : Nat) : Bytes :=
  if n ≤ 127 then [n] else (128 + (toBE n).length) :: toBE n

/-- `bs` is *a* (basic-OER, not necessarily canonical) length determinant denoting `n` -/
def isLength (bs : Bytes) (n : Nat) : Prop :=
  (n ≤ 127 ∧ bs = [n]) ∨
  (∃ body : Bytes, 1 ≤ body.length ∧ body.length ≤ 127 ∧ body.wf ∧ bs = (128 + body.length) :: body ∧ ofBE 0 body = n)

/-! ### X.696 §10 INTEGER: the four shapes selected by the effective constraint
  §10.2 unsigned fixed size (1, 2, 4, 8 octets), §10.3 signed fixed size (two's complement),
  §10.4 length determinant + (a) minimal unsigned / (b) minimal two's complement octets.
  Written as relations: each determines the octets uniquely. -/

/-- no redundant leading zero octet (at least one octet) -/
def MinimalUns : Bytes → Prop
  | 0 :: _ :: _ => False
  | _ => True

def IsFixedUnsigned (w : Nat) (z : Int) (out : Bytes) : Prop :=
  out.wf ∧ out.length = w ∧ (Spec.unsVal out : Int) = z

def IsFixedSigned (w : Nat) (z : Int) (out : Bytes) : Prop :=
  out.wf ∧ out.length = w ∧ Spec.twosVal out = z

def IsVarUnsigned (z : Int) (out : Bytes) : Prop :=
  ∃ body : Bytes, body.wf ∧ body ≠ [] ∧ MinimalUns body ∧ (Spec.unsVal body : Int) = z ∧ out = length body.length ++ body

def IsVarSigned (z : Int) (out : Bytes) : Prop :=
  ∃ body : Bytes, body.wf ∧ body ≠ [] ∧ Spec.MinimalTwos body ∧ Spec.twosVal body = z ∧ out = length body.length ++ body

end Asn1c.Spec.Oer
