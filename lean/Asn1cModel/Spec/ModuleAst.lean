/-
  Module AST for the compiler-side properties (C11): the image of the parsed ASN.1 module
  (`asn1p_expr_t` tree) for the supported type algebra.  Shared by Spec.TagRules and
  Impl.Fixer; mirrored in python (`vlib/props/c11.py`) with the same s-expression form.
  Core Lean only.
-/
namespace Asn1c.Fix

/-- tag class, in the order of `enum asn1p_tag_class` (TC_UNIVERSAL .. TC_PRIVATE) -/
inductive TagClass | universal | application | context | private_
  deriving DecidableEq, Repr, Inhabited

/-- `[class number]` followed by IMPLICIT / EXPLICIT / nothing -/
inductive TagMode | default_ | implicit | explicit
  deriving DecidableEq, Repr, Inhabited

structure Tag where
  cls : TagClass
  num : Nat
  mode : TagMode
  deriving DecidableEq, Repr, Inhabited

/-- module header: `EXPLICIT TAGS` (or nothing) / `IMPLICIT TAGS` / `AUTOMATIC TAGS` -/
inductive TagDefault | explicit | implicit | automatic
  deriving DecidableEq, Repr, Inhabited

inductive Prim | boolean | integer | null | octetString
  deriving DecidableEq, Repr, Inhabited

inductive CKind | sequence | set | choice
  deriving DecidableEq, Repr, Inhabited

/-- mandatory / OPTIONAL / DEFAULT v -/
inductive Opt | mandatory | optional | default_
  deriving DecidableEq, Repr, Inhabited

/-- `marker.flags != 0` in the C tree -/
def Opt.isOpt : Opt → Bool
  | .mandatory => false
  | _ => true

/-- `name` or `name(value)` -/
structure EnumItem where
  name : String
  val : Option Nat
  deriving DecidableEq, Repr, Inhabited

mutual
/-- a type expression; every form carries its optional tag prefix.
    `hasExt = true` means a `...` follows the root list, `adds` are the extension additions
    written after it (`adds = []` when `hasExt = false`, see `Ty.shapeOk`). -/
inductive Ty
  | prim (tag : Option Tag) (p : Prim)
  | enum (tag : Option Tag) (root : List EnumItem) (hasExt : Bool) (adds : List EnumItem)
  | constr (tag : Option Tag) (k : CKind) (root : List Comp) (hasExt : Bool) (adds : List Comp)
  | seqOf (tag : Option Tag) (elem : Ty)
  | ref (tag : Option Tag) (name : String)
/-- `identifier Type [OPTIONAL | DEFAULT v]` -/
inductive Comp
  | mk (name : String) (ty : Ty) (opt : Opt)
end

instance : Inhabited Ty := ⟨.prim none .null⟩
instance : Inhabited Comp := ⟨.mk "" default .mandatory⟩

def Comp.name : Comp → String | .mk n _ _ => n
def Comp.ty : Comp → Ty | .mk _ t _ => t
def Comp.opt : Comp → Opt | .mk _ _ o => o

def Ty.tag : Ty → Option Tag
  | .prim t _ => t
  | .enum t _ _ _ => t
  | .constr t _ _ _ _ => t
  | .seqOf t _ => t
  | .ref t _ => t

/-- the same type with another tag prefix -/
def Ty.withTag (g : Option Tag) : Ty → Ty
  | .prim _ p => .prim g p
  | .enum _ r h a => .enum g r h a
  | .constr _ k r h a => .constr g k r h a
  | .seqOf _ e => .seqOf g e
  | .ref _ n => .ref g n

def Comp.withTag (g : Option Tag) : Comp → Comp
  | .mk n t o => .mk n (t.withTag g) o

structure TypeAssign where
  name : String
  ty : Ty

structure Module where
  dflt : TagDefault
  types : List TypeAssign

/-- the type assigned to `name`.  (With two assignments of the same name — rejected anyway by
    `asn1f_check_duplicate` — the C hash table returns one of them depending on its internal
    state; the model takes the first.  `WfModule` excludes duplicate names.) -/
def lookupIn : List TypeAssign → String → Option Ty
  | [], _ => none
  | a :: rest, n => if a.name = n then some a.ty else lookupIn rest n

def Module.lookup (M : Module) (n : String) : Option Ty := lookupIn M.types n

/-! ### every type expression occurring in a module (`asn1f_recurse_expr` order: pre-order) -/
mutual
def Ty.nodes : Ty → List Ty
  | .prim t p => [.prim t p]
  | .enum t r h a => [.enum t r h a]
  | .constr t k r h a => .constr t k r h a :: (Comp.nodesL r ++ Comp.nodesL a)
  | .seqOf t e => .seqOf t e :: e.nodes
  | .ref t n => [.ref t n]
def Comp.nodesL : List Comp → List Ty
  | [] => []
  | .mk _ ty _ :: rest => ty.nodes ++ Comp.nodesL rest
end

def nodesOf : List TypeAssign → List Ty
  | [] => []
  | a :: rest => a.ty.nodes ++ nodesOf rest

def Module.nodes (M : Module) : List Ty := nodesOf M.types

/-- number of type expressions (used for the fuel of the reference-following functions) -/
def Module.size (M : Module) : Nat := M.nodes.length

/-- something `_asn1f_compare_tags` / X.680 "distinct tags" looks at: a type, or the extension
    marker `...` (C: a member with `expr_type == A1TC_EXTENSIBLE`; X.680: the conceptual
    element at the extension insertion point) -/
inductive Ex
  | ty (t : Ty)
  | ext

/-- outermost tag values: a real tag (class, number) or the pseudo tag of `...` -/
inductive OTag
  | key (c : TagClass) (n : Nat)
  | extp
  deriving DecidableEq, Repr

/-- a member list entry as the distinctness rules see it: what it is + is it OPTIONAL/DEFAULT -/
structure Slot where
  ex : Ex
  opt : Bool

def Comp.slot (c : Comp) : Slot := ⟨.ty c.ty, c.opt.isOpt⟩
def Slot.marker : Slot := ⟨.ext, false⟩

/-- member list in the order the fixer leaves it: root components, `...`, additions -/
def slotsOf (root : List Comp) (hasExt : Bool) (adds : List Comp) : List Slot :=
  root.map Comp.slot ++ (if hasExt then Slot.marker :: adds.map Comp.slot else adds.map Comp.slot)

end Asn1c.Fix
