/-
  Spec for C08: X.680 constraint semantics on a small type / value algebra (core Lean only).

  * `Ty`      – the generator's ASN.1 type algebra restricted to what `asn_check_constraints`
                can see: BOOLEAN, NULL, ENUMERATED, INTEGER with a value constraint (union of
                ranges with MIN / MAX edges), OCTET STRING / BIT STRING / restricted character
                strings with SIZE and FROM, SEQUENCE / SET / CHOICE, SEQUENCE OF / SET OF with
                SIZE, references to named types (the referenced type is carried in the node).
  * `Val`     – abstract values as they sit in the C structure: integers, octets, bits + unused,
                present members by identifier, selected alternative, element list.
  * `satisfies` – X.680 §49–51: value range (§51.4), SIZE (§51.5; unit = octets, bits,
                characters, elements), permitted alphabet (§51.7), the built-in alphabets of the
                restricted character string types (§41), applied at every depth.
-/
import Asn1cModel.Base
namespace Asn1c.Spec.ConstraintCheck

/-- one range `lo..hi`; `none` is MIN on the left, MAX on the right -/
structure Range where
  lo : Option Int
  hi : Option Int
deriving Repr, DecidableEq, Inhabited

/-- a constraint: union of ranges (`a..b | c | d..MAX`) -/
abbrev Cons := List Range

def Range.mem (r : Range) (x : Int) : Bool :=
  (match r.lo with | none => true | some l => decide (l ≤ x)) &&
  (match r.hi with | none => true | some h => decide (x ≤ h))

/-- membership in a union of ranges -/
def inCons (rs : Cons) (x : Int) : Bool := rs.any (·.mem x)

/-- membership in an optional constraint (absent = unconstrained) -/
def inOpt (c : Option Cons) (x : Int) : Bool :=
  match c with | none => true | some rs => inCons rs x

inductive StrKind where
  | octet | bit | ia5 | visible | printable | numeric | utf8 | bmp | universal
deriving Repr, DecidableEq, Inhabited

mutual
inductive Ty where
  | bool
  | null
  | enumerated
  | int (cons : Option Cons)
  | str (k : StrKind) (size : Option Cons) (alpha : Option Cons)
  | seq (ms : Members)
  | set (ms : Members)
  | choice (ms : Members)
  | listOf (isSet : Bool) (size : Option Cons) (elem : Ty)
  /-- reference to the type assignment `name ::= t` -/
  | named (name : String) (t : Ty)
/-- component list: identifier, OPTIONAL-or-DEFAULT flag, type -/
inductive Members where
  | nil
  | cons (id : String) (opt : Bool) (t : Ty) (rest : Members)
end

inductive Val where
  | bool (b : Bool)
  | null
  | enum (i : Int)
  | int (i : Int)
  /-- every OCTET-STRING-based type: the content octets -/
  | octets (bs : List Nat)
  /-- BIT STRING: octets and the number of unused bits in the last octet -/
  | bits (bs : List Nat) (unused : Nat)
  /-- SEQUENCE / SET: the present components -/
  | struct (fs : List (String × Val))
  | choice (id : String) (v : Val)
  /-- a CHOICE structure with no alternative selected -/
  | choiceNone
  | list (vs : List Val)
deriving Inhabited

/-! ### X.680 §41: built-in alphabets -/

/-- PrintableString (X.680 §41.4 table 10): A–Z a–z 0–9 space ' ( ) + , - . / : = ? -/
def printableChars (c : Nat) : Bool :=
  (65 ≤ c && c ≤ 90) || (97 ≤ c && c ≤ 122) || (48 ≤ c && c ≤ 57) ||
  c == 32 || c == 39 || c == 40 || c == 41 || c == 43 || c == 44 || c == 45 ||
  c == 46 || c == 47 || c == 58 || c == 61 || c == 63

/-- NumericString (X.680 §41.2 table 9): digits and space -/
def numericChars (c : Nat) : Bool := (48 ≤ c && c ≤ 57) || c == 32

/-- VisibleString = ISO 646 graphic characters and space: 0x20 .. 0x7E -/
def visibleChars (c : Nat) : Bool := 32 ≤ c && c ≤ 126

/-- IA5String = ISO 646 (IA5): 0x00 .. 0x7F -/
def ia5Chars (c : Nat) : Bool := c ≤ 127

/-! ### UTF-8 (RFC 3629 / ISO 10646 Annex D as it stands today): shortest form, at most four
    octets, no surrogates, at most U+10FFFF -/

def isCont (b : Nat) : Bool := 128 ≤ b && b ≤ 191

/-- decode one code point from the front; `none` = ill-formed -/
def utf8Step : List Nat → Option (Nat × List Nat)
  | [] => none
  | b0 :: rest =>
    if b0 < 128 then some (b0, rest)
    else if 194 ≤ b0 && b0 ≤ 223 then
      match rest with
      | b1 :: r => if isCont b1 then some ((b0 - 192) * 64 + (b1 - 128), r) else none
      | _ => none
    else if 224 ≤ b0 && b0 ≤ 239 then
      match rest with
      | b1 :: b2 :: r =>
        let cp := (b0 - 224) * 4096 + (b1 - 128) * 64 + (b2 - 128)
        if isCont b1 && isCont b2 && 2048 ≤ cp && !(55296 ≤ cp && cp ≤ 57343) then some (cp, r) else none
      | _ => none
    else if 240 ≤ b0 && b0 ≤ 244 then
      match rest with
      | b1 :: b2 :: b3 :: r =>
        let cp := (b0 - 240) * 262144 + (b1 - 128) * 4096 + (b2 - 128) * 64 + (b3 - 128)
        if isCont b1 && isCont b2 && isCont b3 && 65536 ≤ cp && cp ≤ 1114111 then some (cp, r) else none
      | _ => none
    else none

/-- the code points of a UTF-8 octet string (`fuel` ≥ number of octets) -/
def utf8Decode : Nat → List Nat → Option (List Nat)
  | _, [] => some []
  | 0, _ :: _ => none
  | fuel + 1, bs =>
    match utf8Step bs with
    | none => none
    | some (cp, rest) => (utf8Decode fuel rest).map (cp :: ·)

/-- big-endian groups of `n` octets; `none` when the octet count is not a multiple of `n` -/
def groupsBE (n : Nat) : Nat → List Nat → Option (List Nat)
  | _, [] => some []
  | 0, _ :: _ => none
  | fuel + 1, bs =>
    if bs.length < n || n == 0 then none
    else (groupsBE n fuel (bs.drop n)).map (ofBE 0 (bs.take n) :: ·)

/-- The characters of a string value in the unit SIZE and FROM talk about (X.680 §51.5.3,
    §51.7): octets for OCTET STRING, one / two / four octets per character for the
    8-bit types / BMPString / UniversalString, code points for UTF8String.
    `none`: the octets are not a whole number of well-formed characters. -/
def chars (k : StrKind) (bs : List Nat) : Option (List Nat) :=
  match k with
  | .utf8 => utf8Decode bs.length bs
  | .bmp => groupsBE 2 bs.length bs
  | .universal => groupsBE 4 bs.length bs
  | _ => some bs

/-- built-in alphabet of the type -/
def builtinChar (k : StrKind) (c : Nat) : Bool :=
  match k with
  | .ia5 => ia5Chars c
  | .visible => visibleChars c
  | .printable => printableChars c
  | .numeric => numericChars c
  | _ => true      -- OCTET STRING; UTF8String / BMPString / UniversalString: every well-formed character

/-- number of bits of a BIT STRING value -/
def bitLength (bs : List Nat) (unused : Nat) : Nat :=
  if bs.isEmpty then 0 else 8 * bs.length - unused

/-- a string value satisfies its type: well-formed characters, built-in alphabet, SIZE, FROM -/
def strSatisfies (k : StrKind) (size alpha : Option Cons) (bs : List Nat) : Bool :=
  match chars k bs with
  | none => false
  | some cs =>
    inOpt size cs.length && cs.all (fun c => builtinChar k c && inOpt alpha c)

/-- the payload of a value of string kind `k`: octets and unused-bit count (0 for the
    OCTET-STRING-based types); `none` when the value has the wrong shape -/
def strValue (k : StrKind) (v : Val) : Option (List Nat × Nat) :=
  match v with
  | .bits bs u => if k == .bit then some (bs, u) else none
  | .octets bs => if k == .bit then none else some (bs, 0)
  | _ => none

/-- a BIT STRING / string payload satisfies its type.  BIT STRING: a well-formed unused-bit
    count (0..7, 0 for the empty string) and SIZE counted in bits. -/
def strSat (k : StrKind) (size alpha : Option Cons) (bs : List Nat) (u : Nat) : Bool :=
  if k == .bit then decide (u ≤ 7) && (!bs.isEmpty || u == 0) && inOpt size (bitLength bs u)
  else strSatisfies k size alpha bs

def lookupField (id : String) : List (String × Val) → Option Val
  | [] => none
  | (k, v) :: rest => if k == id then some v else lookupField id rest

mutual
/-- X.680: `v` is a value of `t` that satisfies every constraint written in `t`, at every depth -/
def satisfies : Ty → Val → Bool
  | .bool, .bool _ => true
  | .null, .null => true
  | .enumerated, .enum _ => true
  | .int c, .int i => inOpt c i
  | .str k size alpha, v =>
      (match strValue k v with
       | some (bs, u) => strSat k size alpha bs u
       | none => false)
  | .seq ms, .struct fs => satisfiesMembers ms fs
  | .set ms, .struct fs => satisfiesMembers ms fs
  | .choice ms, .choice id v => satisfiesAlt ms id v
  | .listOf _ size elem, .list vs =>
      inOpt size vs.length && vs.all (fun v => satisfies elem v)
  | .named _ t, v => satisfies t v
  | _, _ => false
/-- every present component satisfies its type, every absent one is OPTIONAL / DEFAULT -/
def satisfiesMembers : Members → List (String × Val) → Bool
  | .nil, _ => true
  | .cons id opt t rest, fs =>
      (match lookupField id fs with
       | none => opt
       | some v => satisfies t v) && satisfiesMembers rest fs
/-- the selected alternative exists and its value satisfies its type -/
def satisfiesAlt : Members → String → Val → Bool
  | .nil, _, _ => false
  | .cons id _ t rest, sel, v => if id == sel then satisfies t v else satisfiesAlt rest sel v
end

end Asn1c.Spec.ConstraintCheck
