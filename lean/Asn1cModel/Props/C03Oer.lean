import Asn1cModel.Proofs.L2OerVariants
import Asn1cModel.Props.C02Oer
/-
  C03 (OER part) — "decoders accept every valid encoding of a value, not only the library's own".

  `L2.OerVar.encV t v s` (L2/OerVariants.lean) enumerates the valid BASIC-OER encodings of `v` that the canonical
  encoder `encOER` does not produce (X.696: (a) extension presence bitmap of an older / newer version of the type,
  unknown additions absent or present with arbitrary open-type contents; (b) long-form and zero-padded length
  determinants, at every length determinant; (c) ENUMERATED long form for 0..127; (d) BOOLEAN TRUE as any of
  0x01..0xFF; (e) SET OF elements in any order), one variation at a chosen position or at all positions,
  selected by the state `s`.

  * `oer_accepts_variant`: the reference decoder `decOER` (the decoder of the C02 OER oracle, tied to the C decoder
    by the K leg of `vlib/c03_oer.py` on the same variants) accepts every `encV` output — for EVERY selector state,
    hence for every position, every combination of positions, every padding width, every TRUE octet, every list
    of unknown additions with arbitrary contents — consumes exactly the encoding and returns exactly `v`.
    Values are taken up to the order of SET OF lists (`UCanon`; `ucanon_of_ocanon`: every canonical value qualifies).
  * `oer_accepts_setOf_any_order`: every permutation of a SET OF list is accepted and decodes to that permutation
    (the same abstract value).
  * building blocks stated on their own: `decLen_long_form` (§8.6.5 with any number of leading zero octets),
    `decEnum_long_form`, `boolean_any_nonzero`, `older_bitmap_accepted`, `newer_bitmap_skipped`.
  * `encV_none`: without a variation `encV` is the canonical encoder `encOER` on canonical values, so the family
    really is "the canonical encoding and its variants".
-/
namespace Asn1c.Props.C03Oer
open Asn1c Asn1c.Impl.BerTlv Asn1c.L2 Asn1c.L2.Oer Asn1c.L2.OerVar Asn1c.Spec
open Asn1c.Proofs.L2Oer Asn1c.Proofs.L2OerVariants Asn1c.Proofs.L2Der

/-- **the OER decoder accepts every valid variant**: RC_OK, exactly the encoding consumed, the value returned —
    whatever variation (`s.kind`), position (`s.skip`, `s.all`), parameter (`s.param`, `s.extra`) was chosen,
    whatever follows the encoding. -/
theorem oer_accepts_variant (t : OTy) (hw : OTyWf t) (v : Val) (hc : UCanon t v) (s s' : VSt) (out rest : Bytes)
    (h : encV t v s = some (out, s')) : decOER t (out ++ rest) = .ok v rest :=
  rtv_all t hw v s s' out rest hc h

/-- the hypotheses are satisfiable and the variants differ from the canonical encoding: an extensible SEQUENCE
    with three additions of which only the first is present — canonical bitmap `100` (02 05 80), an older sender
    that knows one addition sends `1` (02 07 80), a newer one with two more additions, the last present with
    contents AA BB, sends `10001` (02 03 88 … 02 AA BB); all lengths in long form with one zero octet of padding. -/
example :
    let t : OTy := .seq [.integer (.fixedU 1)] [⟨false, none, false⟩] true [.boolean, .octets none, .integer .varS]
                     [⟨true, none, true⟩, ⟨true, none, true⟩, ⟨true, none, true⟩]
    let v : Val := .seq [.int 7, .bool true, .absent, .absent]
    OTyWf t ∧ UCanon t v ∧
      (encV t v {}).map (·.1) = some [0x80, 7, 2, 5, 0x80, 1, 0xff] ∧
      (encV t v { kind := .older }).map (·.1) = some [0x80, 7, 2, 7, 0x80, 1, 0xff] ∧
      (encV t v { kind := .newer, extra := [none, some [0xaa, 0xbb]] }).map (·.1)
        = some [0x80, 7, 2, 3, 0x88, 1, 0xff, 2, 0xaa, 0xbb] ∧
      (encV t v { kind := .lenLong, all := true, param := 1 }).map (·.1)
        = some [0x80, 7, 0x82, 0, 2, 5, 0x80, 0x82, 0, 1, 0xff] ∧
      (encV t v { kind := .boolTrue, param := 0 }).map (·.1) = some [0x80, 7, 2, 5, 0x80, 1, 1] := by
  decide +kernel

/-! ## values -/

theorem ucanonComps_of (ms : List OTy) (ih : ∀ m ∈ ms, ∀ v, OCanon m v → UCanon m v) :
    ∀ (as : List Attr) (vs : List Val), ocanonComps ms as vs = true → ucanonComps ms as vs = true := by
  induction ms with
  | nil => intro as vs _; simp [ucanonComps]
  | cons m ms ihms =>
    intro as vs h
    cases as with
    | nil => simp [ucanonComps]
    | cons a as =>
    cases vs with
    | nil => simp [ucanonComps]
    | cons v vs =>
    simp only [ocanonComps, Bool.and_eq_true] at h
    simp only [ucanonComps, Bool.and_eq_true]
    refine ⟨?_, ihms (fun x hx => ih x (by simp [hx])) as vs h.2⟩
    have h1 := h.1
    by_cases ha : isAbsent v = true
    · simp [ha]
    · simp only [ha, Bool.false_eq_true, if_false, Bool.and_eq_true] at h1 ⊢
      exact ⟨h1.1, ih m (by simp) v h1.2⟩

/-- every canonical value (`OCanon`, the domain of `C02Oer.oer_roundtrip`) is in the domain of `oer_accepts_variant` -/
theorem ucanon_of_ocanon : ∀ (t : OTy) (v : Val), OCanon t v → UCanon t v := by
  apply OTy.induct' (P := fun t => ∀ v, OCanon t v → UCanon t v)
  · intro v _; cases v <;> simp [UCanon, ucanonB]
  · intro v _; cases v <;> simp [UCanon, ucanonB]
  · intro sh v _; cases v <;> simp [UCanon, ucanonB]
  · intro v _; cases v <;> simp [UCanon, ucanonB]
  · intro v h; cases v <;> simp_all [UCanon, OCanon, ucanonB, ocanonB]
  · intro f v _; cases v <;> simp [UCanon, ucanonB]
  · intro f v h; cases v <;> simp_all [UCanon, OCanon, ucanonB, ocanonB]
  · intro root rattrs ext adds aattrs ihr iha v h
    cases v with
    | seq vs =>
      simp only [OCanon, ocanonB, Bool.and_eq_true] at h
      simp only [UCanon, ucanonB, Bool.and_eq_true]
      exact ⟨ucanonComps_of root ihr rattrs _ h.1, ucanonComps_of adds iha aattrs _ h.2⟩
    | _ => simp [UCanon, ucanonB]
  · intro tags alts n ih v h
    cases v with
    | choice i x =>
      simp only [OCanon, ocanonB] at h
      simp only [UCanon, ucanonB]
      clear tags n
      induction alts generalizing i with
      | nil => simp [ucanonAlt]
      | cons a as iha =>
        cases i with
        | zero => simp only [ocanonAlt] at h; simp only [ucanonAlt]; exact ih a (by simp) x h
        | succ i =>
          simp only [ocanonAlt] at h; simp only [ucanonAlt]
          exact iha (fun m hm => ih m (by simp [hm])) i h
    | _ => simp [UCanon, ucanonB]
  · intro e ih v h
    cases v with
    | list vs =>
      simp only [OCanon, ocanonB, List.all_eq_true] at h
      simp only [UCanon, ucanonB, List.all_eq_true]
      exact fun x hx => ih x (h x hx)
    | _ => simp [UCanon, ucanonB]
  · intro e ih v h
    cases v with
    | list vs =>
      simp only [OCanon, ocanonB, Bool.and_eq_true, List.all_eq_true] at h
      simp only [UCanon, ucanonB, List.all_eq_true]
      exact fun x hx => ih x (h.1 x hx)
    | _ => simp [UCanon, ucanonB]

/-- … so the decoder accepts every variant of every canonical value -/
theorem oer_accepts_variant_of_canonical (t : OTy) (hw : OTyWf t) (v : Val) (hc : OCanon t v) (s s' : VSt)
    (out rest : Bytes) (h : encV t v s = some (out, s')) : decOER t (out ++ rest) = .ok v rest :=
  oer_accepts_variant t hw v (ucanon_of_ocanon t v hc) s s' out rest h

/-- **no variation = the canonical encoding**: with a selector that varies nothing, `encV` is the reference
    canonical-OER encoder of C02 (`encOER`, compared byte for byte with the C encoder there) on every canonical value -/
theorem encV_none (t : OTy) (v : Val) (hc : OCanon t v) (s : VSt) (hs : s.kind = .none) :
    encV t v s = (encOER t v).map fun x => (x, s) := nv_all t v s hs hc

/-! ## (e) SET OF: any order -/

/-- the normal form does not depend on the order of a SET OF list -/
theorem ucanon_setOf_perm (e : OTy) (vs vs' : List Val) (hp : vs'.Perm vs) (h : UCanon (.setOf e) (.list vs)) :
    UCanon (.setOf e) (.list vs') := by
  simp only [UCanon, ucanonB, List.all_eq_true] at h ⊢
  exact fun x hx => h x (hp.subset hx)

/-- **SET OF elements in any order**: whatever permutation `vs'` of the elements the sender emits (and whatever
    other variation), the decoder returns the list in wire order — the same SET OF value -/
theorem oer_accepts_setOf_any_order (e : OTy) (hw : OTyWf (.setOf e)) (vs vs' : List Val) (hp : vs'.Perm vs)
    (hc : UCanon (.setOf e) (.list vs)) (s s' : VSt) (out rest : Bytes)
    (h : encV (.setOf e) (.list vs') s = some (out, s')) :
    decOER (.setOf e) (out ++ rest) = .ok (.list vs') rest :=
  oer_accepts_variant _ hw _ (ucanon_setOf_perm e vs vs' hp hc) s s' out rest h

/-! ## the single variations -/

/-- (b) X.696 §8.6.5: the long form — 0x80 | k, then the length in k octets — with any number `pad` of leading
    zero octets is read back as the length -/
theorem decLen_long_form (pad n : Nat) (rest : Bytes) :
    lenLong pad n = (128 + (pad + (unsOctets n).length)) :: (List.replicate pad 0 ++ unsOctets n) ∧
    decLen (lenLong pad n ++ rest) = .ok n rest := by
  refine ⟨by simp [lenLong], decLen_lenLong pad n rest⟩

/-- every length determinant written by `encV` is a short form, a minimal long form or a padded long form of at
    most 127 length octets, and is read back -/
theorem lenV_cases (n : Nat) (s : VSt) (rest : Bytes) :
    ((lenV n s).1 = lenDet n ∨ ((lenV n s).1 = lenLong s.param n ∧ s.param + (unsOctets n).length ≤ 127)) ∧
    decLen ((lenV n s).1 ++ rest) = .ok n rest := by
  refine ⟨?_, decLen_lenV n s rest⟩
  unfold lenV
  simp only []
  split
  · rename_i hs
    right
    refine ⟨rfl, ?_⟩
    unfold VSt.site at hs
    split at hs
    · rename_i hc; have := hc.2; simp only [decide_eq_true_eq] at this; exact this.1
    · simp at hs
  · left; rfl

/-- (c) X.696 §11.3: the long form `81 zz` of an enumeration value 0..127 is accepted -/
theorem decEnum_long_form (z : Int) (hz : 0 ≤ z ∧ z ≤ 127) (rest : Bytes) :
    encEnumV z { kind := .enumLong } = some ([129, z.toNat], { kind := .none, hits := 1 }) ∧
    decEnum ([129, z.toNat] ++ rest) = .ok z rest := by
  have h : encEnumV z { kind := .enumLong } = some ([129, z.toNat], { kind := .none, hits := 1 }) := by
    simp [encEnumV, VSt.site, hz]
  exact ⟨h, decEnum_encEnumV z _ _ _ rest h⟩

/-- (d) X.696 §9.2: every non-zero octet is TRUE; `encV` emits 0xFF or, at a chosen position, any of 0x01..0xFE -/
theorem boolean_any_nonzero (o : Nat) (ho : o ≠ 0) (rest : Bytes) :
    decOER .boolean (o :: rest) = .ok (.bool true) rest ∧
    (1 ≤ o ∧ o ≤ 254 → (encV .boolean (.bool true) { kind := .boolTrue, param := o - 1 }).map (·.1) = some [o]) := by
  refine ⟨by simp [decOER, ho], ?_⟩
  intro h
  have : (o - 1) % 254 = o - 1 := Nat.mod_eq_of_lt (by omega)
  simp only [encV, boolV, VSt.site, if_true, Option.map_some]
  simp [this]; omega

/-- (a) older sender: a bitmap that stops after the last addition the sender knows (only absent additions are cut
    off) is compatible with the receiver's presence bits -/
theorem older_bitmap_accepted (k : Nat) (abits : Bits) :
    Compat abits (shorten k abits) ∧ (shorten k abits).length ≤ abits.length ∧
    ((abits.drop k).all (· == false) = true → shorten k abits = abits.take k) := by
  refine ⟨compat_shorten k abits, ?_, ?_⟩
  · unfold shorten; split <;> simp
  · intro h; unfold shorten; rw [if_pos h]

/-- (a) newer sender: the bits beyond the receiver's additions and the open types they announce — with arbitrary
    contents — are skipped exactly -/
theorem newer_bitmap_skipped (abits : Bits) (extra : List (Option Bytes)) (rest : Bytes) :
    Compat abits (abits ++ extraBits extra) ∧
    skipOpen ((abits ++ extraBits extra).drop abits.length) (extraBody extra ++ rest) = .ok () rest := by
  refine ⟨compat_append _ _, ?_⟩
  rw [List.drop_left]; exact skipOpen_extra extra rest

/-- the receiver decodes its known additions from any compatible bitmap (`Compat`: equal on the common part,
    the additions beyond a shorter bitmap absent) -/
theorem decAdds_compatible (ms : List OTy) (hw : ∀ m ∈ ms, OTyWf m) (as : List Attr) (vs : List Val) (s s' : VSt)
    (bits : Bits) (body : Bytes) (B : Bits) (rest : Bytes) (hc : ucanonComps ms as vs = true)
    (h : encAddsV ms as vs s = some (bits, body, s')) (hB : Compat bits B) :
    decAdds ms as B (body ++ rest) = .ok vs rest :=
  (decAdds_encAddsV ms (fun m _ => rtv_all m) hw as vs s s' bits body B rest hc h hB).1

end Asn1c.Props.C03Oer
