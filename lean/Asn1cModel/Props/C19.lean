/-
C19 — "Codecs are reentrant: concurrent use equals sequential use, without data races".

Part A (abstract non-interference, `Impl/Reentrancy.lean`): for step functions obeying the
footprint discipline `Framed` – write only what the calling thread owns, depend only on what it owns
and on the read-only shared part – EVERY schedule (all interleavings, any granularity, any number of
threads) gives each thread exactly the results, and leaves its private memory exactly as, its own
script run alone; the read-only shared part is never changed.  Without the discipline (one `static`
scratch buffer) the statement is false (`shared_scratch_breaks_sequential`).

Part B (absence of writable shared state on the codec paths): `Generated/Globals.lean` is rewritten by
the translator `vlib/trans_globals.py` on every check run from the *current* skeleton sources
(`nm` on freshly compiled -O0 and -O2 objects + source scan).  The theorems below are closed by `decide`
over the complete generated lists, so a new `static char scratch[]` in a codec, a new call of a debug
helper outside `ASN_DEBUG`, or a new `localtime()`/`setenv()` breaks the build of this file.

What is NOT proved here (level "partial"): that the C functions really obey `Framed` – that is the
tie, observed at run time by the TSan thread driver (`harness/thread_driver.c`): no race report, and
every job's digest equal to the digest of the same job run alone, under many randomised schedules.
-/
import Asn1cModel.Impl.Reentrancy
import Asn1cModel.Generated.Globals

namespace Asn1c.Props.C19
open Asn1c.Impl.Reentrancy

/-! ## Part A — interleaving = sequential -/

theorem agreeOn_refl (L : Layout) (i : Tid) (m : Mem) : AgreeOn L i m m := fun _ _ => rfl

/-- Frame lemma, generalised over the two memories so that the induction goes through. -/
theorem run_frame {In Out : Type} {L : Layout} {f : Step In Out} (hf : Framed L f) (i : Tid) :
    ∀ (s : Schedule In) (m m' : Mem), AgreeOn L i m m' →
      outputsOf i (run f s m).2 = outputsOf i (run f (scriptOf i s) m').2 ∧
      AgreeOn L i (run f s m).1 (run f (scriptOf i s) m').1 := by
  intro s
  induction s with
  | nil => intro m m' h; exact ⟨rfl, h⟩
  | cons e s ih =>
    intro m m' h
    obtain ⟨j, x⟩ := e
    by_cases hji : j = i
    · subst hji
      have hs : scriptOf j ((j, x) :: s) = (j, x) :: scriptOf j s := by
        simp [scriptOf]
      rw [hs]
      have hr := hf.reads_visible j x m m' h
      have hag : AgreeOn L j (f j x m).1 (f j x m').1 := by
        intro l hl
        cases hl with
        | inl hown => exact hr.2 l hown
        | inr hro =>
          have hne : L l ≠ Owner.thread j := by rw [hro]; intro hc; cases hc
          rw [hf.writes_own j x m l hne, hf.writes_own j x m' l hne]
          exact h l (Or.inr hro)
      have ih' := ih (f j x m).1 (f j x m').1 hag
      refine ⟨?_, ih'.2⟩
      simp only [run, outputsOf, List.filter_cons, beq_self_eq_true, if_true, List.map_cons]
      rw [hr.1]
      have := ih'.1
      simp only [outputsOf] at this
      rw [this]
    · have hs : scriptOf i ((j, x) :: s) = scriptOf i s := by
        simp [scriptOf, hji]
      rw [hs]
      have hag : AgreeOn L i (f j x m).1 m' := by
        intro l hl
        have hne : L l ≠ Owner.thread j := by
          cases hl with
          | inl hown => rw [hown]; intro hc; cases hc; exact hji rfl
          | inr hro => rw [hro]; intro hc; cases hc
        rw [hf.writes_own j x m l hne]
        exact h l hl
      have ih' := ih (f j x m).1 m' hag
      refine ⟨?_, ih'.2⟩
      have hb : ((j == i) = false) := by simp [hji]
      simp only [run, outputsOf, List.filter_cons, hb]
      have := ih'.1
      simp only [outputsOf] at this
      simpa using this

/-- **interleaving_eq_sequential.**  For every schedule `s` of any number of threads, every initial
memory and every thread `i`: the results thread `i` observes under `s` are the results of its own
script run alone from the same memory; its private memory ends up the same; the read-only shared part
is unchanged. -/
theorem interleaving_eq_sequential {In Out : Type} {L : Layout} {f : Step In Out} (hf : Framed L f)
    (s : Schedule In) (m0 : Mem) (i : Tid) :
    outputsOf i (run f s m0).2 = outputsOf i (run f (scriptOf i s) m0).2 ∧
    (∀ l, L l = Owner.thread i → (run f s m0).1 l = (run f (scriptOf i s) m0).1 l) ∧
    (∀ l, L l = Owner.sharedRO → (run f s m0).1 l = m0 l) := by
  have h := run_frame hf i s m0 m0 (agreeOn_refl L i m0)
  refine ⟨h.1, fun l hl => h.2 l (Or.inl hl), ?_⟩
  -- the read-only part: by induction on the schedule, nobody owns it
  intro l hl
  have key : ∀ (s : Schedule In) (m : Mem), (run f s m).1 l = m l := by
    intro s
    induction s with
    | nil => intro m; rfl
    | cons e s ih =>
      intro m
      obtain ⟨j, x⟩ := e
      have hne : L l ≠ Owner.thread j := by rw [hl]; intro hc; cases hc
      simp only [run]
      rw [ih, hf.writes_own j x m l hne]
  exact key s m0

/-- the alone-run of a script produces outputs of that thread only, so `outputsOf i` loses nothing -/
theorem outputs_of_own_script {In Out : Type} (f : Step In Out) (i : Tid) :
    ∀ (s : Schedule In) (m : Mem),
      outputsOf i (run f (scriptOf i s) m).2 = (run f (scriptOf i s) m).2.map (·.2) := by
  intro s
  induction s with
  | nil => intro m; rfl
  | cons e s ih =>
    intro m
    obtain ⟨j, x⟩ := e
    by_cases hji : j = i
    · subst hji
      have hs : scriptOf j ((j, x) :: s) = (j, x) :: scriptOf j s := by
        simp [scriptOf]
      rw [hs]
      have := ih (f j x m).1
      simp only [outputsOf] at this
      simp only [run, outputsOf, List.filter_cons, beq_self_eq_true, if_true, List.map_cons]
      rw [this]
    · have hs : scriptOf i ((j, x) :: s) = scriptOf i s := by
        simp [scriptOf, hji]
      rw [hs]; exact ih m

/-- **schedule_independent.**  Two schedules that give every thread the same script are
indistinguishable for every thread: what a job returns is a function of the job alone.  (This is the
statement the thread driver samples: per-job digests are compared across randomised schedules.) -/
theorem schedule_independent {In Out : Type} {L : Layout} {f : Step In Out} (hf : Framed L f)
    (s s' : Schedule In) (m0 : Mem) (i : Tid) (hsame : scriptOf i s = scriptOf i s') :
    outputsOf i (run f s m0).2 = outputsOf i (run f s' m0).2 := by
  rw [(interleaving_eq_sequential hf s m0 i).1, (interleaving_eq_sequential hf s' m0 i).1, hsame]

/-- Non-vacuity: the shape assumed by the design – private states, one read-only shared value,
operations (shared, stateᵢ, input) ↦ (stateᵢ', output) – obeys the discipline, whatever `op` is. -/
theorem shape_is_framed {In Out : Type} (op : Nat → Nat → In → Nat × Out) :
    Framed shapeLayout (shapeStep op) := by
  have hown : ∀ i : Nat, shapeLayout (2 * i + 1) = Owner.thread i := by
    intro i
    have h0 : ¬ (2 * i + 1 = 0) := by omega
    have h1 : (2 * i + 1) % 2 = 1 := by omega
    have h2 : (2 * i + 1) / 2 = i := by omega
    simp [shapeLayout, h1, h2]
  constructor
  · intro i x m l hne
    simp only [shapeStep]
    by_cases hl : l = 2 * i + 1
    · exfalso; apply hne; rw [hl]; exact hown i
    · simp [hl]
  · intro i x m m' h
    have e0 : m 0 = m' 0 := h 0 (Or.inr (by simp [shapeLayout]))
    have e1 : m (2 * i + 1) = m' (2 * i + 1) := h _ (Or.inl (hown i))
    constructor
    · simp only [shapeStep]; rw [e0, e1]
    · intro l hl
      simp only [shapeStep]; rw [e0, e1]
      by_cases hl2 : l = 2 * i + 1
      · simp [hl2]
      · simp only [hl2, if_false]; exact h l (Or.inl hl)

/-- Instance of the main theorem for the design's shape (results of thread `i` = its script alone). -/
theorem shape_interleaving_eq_sequential {In Out : Type} (op : Nat → Nat → In → Nat × Out)
    (s : Schedule In) (m0 : Mem) (i : Tid) :
    outputsOf i (run (shapeStep op) s m0).2 = (run (shapeStep op) (scriptOf i s) m0).2.map (·.2) := by
  rw [(interleaving_eq_sequential (shape_is_framed op) s m0 i).1, outputs_of_own_script]

/-- **Counter-example without the discipline**: with one writable shared scratch location, thread 0
running `put 1; get` obtains 1 alone but 2 under the schedule in which thread 1's `put 2` falls between
its two steps.  Hence `Framed` cannot be dropped, and a `static` scratch buffer on a codec path is a
genuine violation of the property. -/
theorem shared_scratch_breaks_sequential :
    let s : Schedule ScratchIn := [(0, .put 1), (1, .put 2), (0, .get), (1, .get)]
    outputsOf 0 (run scratchStep s (fun _ => 0)).2 = [0, 2] ∧
    outputsOf 0 (run scratchStep (scriptOf 0 s) (fun _ => 0)).2 = [0, 1] := by
  decide

/-- … and the scratch step function is indeed outside `Framed` (it writes a location nobody owns). -/
theorem scratch_not_framed : ¬ Framed scratchLayout scratchStep := by
  intro h
  have := h.writes_own 0 (.put 1) (fun _ => 0) 0 (by decide)
  simp [scratchStep] at this

/-! ## Part B — the writable state of the compiled skeletons (translator output) -/

open Asn1c.Generated

/-- Functions whose static buffers exist for debug output only.  `ber_tlv_tag_string` and
`asn_bit_data_string` format into a `static char buf[]` and return it; every call site in the
skeletons is an argument of `ASN_DEBUG(...)`, which expands to `do{}while(0)` unless the library is
built with `-DASN_EMIT_DEBUG=1` (then the trace output itself is unsynchronised; outside the
property).  That no compiled object references them is `debug_helpers_unreferenced`. -/
def debugOnlyFunctions : List String := ["ber_tlv_tag_string", "asn_bit_data_string"]

/-- mutable statics owned by the debug-only helpers -/
def allowedDebugOnly : List (String × String) := [
  ("ber_tlv_tag.c", "ber_tlv_tag_string::buf"),
  ("asn_bit_data.c", "asn_bit_data_string::buf"),
  ("asn_bit_data.c", "asn_bit_data_string::n")]

/-- mutable-section objects that are on a codec path (or in inactive platform code) but are never
written: * `BIT_STRING_encode_oer::zeros` (`static uint8_t zeros[16]`, .bss, missing `const`): only
`sizeof(zeros)` and `cb(zeros, n, app_key)` – the callback takes `const void *`; it is the zero padding
emitted for a fixed-size BIT STRING shorter than its constraint.  * `real_zero` in REAL.c
(`static volatile double`, only compiled when the platform lacks NAN/INFINITY; not compiled here and
only ever read).  Their use kinds are pinned by `read_only_globals_never_written`. -/
def allowedReadOnly : List (String × String) := [
  ("BIT_STRING_oer.c", "BIT_STRING_encode_oer::zeros"),
  ("REAL.c", "real_zero")]

/-- use kinds that cannot modify the object (`arg0:cb` = first argument of the
`asn_app_consume_bytes_f` callback, declared `const void *buffer`) -/
def readOnlyUseKinds : List String := ["sizeof", "read", "arg0:cb"]

def knownClasses : List String := ["table", "relro", "unwritten", "mutable"]

/-- sanity: the translator produced only classes this file knows about, and found the library at all -/
theorem inventory_wellformed :
    (∀ g ∈ writableGlobals, g.2.2 ∈ knownClasses) ∧ 50 ≤ writableGlobals.length := by
  decide +kernel

/-- **writable_globals_allowed.**  Every object of the compiled skeletons that lives in a writable
section (or is declared `static` non-`const` anywhere in the source) and is not a descriptor/table,
not `const`-after-relocation and not proved store-free by the compiler, is one of the debug-only
buffers or one of the two never-written objects above.  A new scratch buffer, counter or cache in any
skeleton file breaks this theorem at build time. -/
theorem writable_globals_allowed :
    ∀ g ∈ writableGlobals, g.2.2 = "mutable" → (g.1, g.2.1) ∈ allowedDebugOnly ++ allowedReadOnly := by
  decide +kernel

/-- **debug_helpers_unreferenced.**  No compiled skeleton object imports (and no statement outside
`ASN_DEBUG(...)` in the defining file calls) a debug-only helper: their static buffers are unreachable
from encode/decode/validate/print/free in the library as built. -/
theorem debug_helpers_unreferenced :
    ∀ r ∈ mutableOwnerImporters, r.2 ∉ debugOnlyFunctions := by
  decide +kernel

/-- **read_only_globals_never_written.**  The allowed non-debug objects are used only through
`sizeof`, plain reads, or as the `const void *` argument of the output callback. -/
theorem read_only_globals_never_written :
    ∀ u ∈ mutableGlobalUses, (u.1, u.2.1) ∈ allowedReadOnly → ∀ k ∈ u.2.2, k ∈ readOnlyUseKinds := by
  decide +kernel

/-- cross-check of the two methods: an object the compiler proved store-free (`unwritten`) shows no
syntactic write in the source either -/
theorem unwritten_have_no_source_write :
    ∀ u ∈ mutableGlobalUses, (u.1, u.2.1, "unwritten") ∈ writableGlobals → "write" ∉ u.2.2 := by
  decide +kernel

/-- Non-reentrant libc functions *linked* by the skeletons on this platform, with justification:
* `random` (asn_random_fill.c, `asn_random_between`): test-data generator, not one of
  encode/decode/validate/print/free.
* `strerror` (GeneralizedTime.c / UTCTime.c `*_constraint`): formats the message of a FAILED time
  validation.  POSIX does not require `strerror` to be thread-safe; glibc ≥ 2.32 (this platform: 2.36)
  returns a thread-local buffer, so there is no shared state here.  Recorded as a portability remark. -/
def allowedNonReentrantImports : List (String × String) := [
  ("asn_random_fill.c", "random"),
  ("GeneralizedTime.c", "strerror"),
  ("UTCTime.c", "strerror")]

/-- **no_nonreentrant_calls_in_codecs.**  Among `localtime gmtime ctime asctime strtok setenv putenv
unsetenv tzset rand srand random strerror setlocale …` the compiled skeleton objects import nothing
but the entries justified above.  (The `"source"` entries – `localtime`/`gmtime`/`setenv`/`tzset` in
GeneralizedTime.c – sit in the _WIN32 / Cygwin / `_EMULATE_TIMEGM` branches that are not compiled on
this platform.) -/
theorem no_nonreentrant_calls_in_codecs :
    ∀ c ∈ nonReentrantCalls, c.2.2 = "import" → (c.1, c.2.1) ∈ allowedNonReentrantImports := by
  decide +kernel

/-- functions that modify the process environment / time-zone state -/
def tzWriters : List String := ["setenv", "unsetenv", "putenv", "tzset", "localtime", "gmtime"]

/-- **timegm_variant_is_libc.**  Which GeneralizedTime.c variant is compiled here: the object imports
libc's `timegm`, `mktime`, `gmtime_r`, `localtime_r` (all MT-Safe in glibc) and none of
`setenv/unsetenv/putenv/tzset` – the `setenv("TZ")`-based `timegm` emulation is not compiled. -/
theorem timegm_variant_is_libc :
    ("GeneralizedTime.c", "timegm") ∈ timeImports ∧ ("GeneralizedTime.c", "gmtime_r") ∈ timeImports ∧
    ("GeneralizedTime.c", "localtime_r") ∈ timeImports ∧ ∀ t ∈ timeImports, t.2 ∉ tzWriters := by
  decide +kernel

end Asn1c.Props.C19
