import Asn1cModel.Proofs.L2Variants
import Asn1cModel.Props.C01
/-
  C03 (BER part) — "decoders accept every valid encoding, not only the library's own".

  `ValidBER t v x` (Proofs/L2Variants.lean) is the set of all valid BER trees `x` of the canonical
  value `v` of type `t`: the closure of the DER tree `toTlv t v` under
    (a) any length form on any node (the relation never mentions a `form` field),
    (b) constructed, arbitrarily nested OCTET STRING (and other `Prim.octets` kinds),
    (c) constructed, arbitrarily nested BIT STRING; arbitrary unused bits in the last octet,
    (d) SET children in any order,
    (e) SET OF children in any order (`ValidBERo`: in the order of the value's list),
    (f) BOOLEAN TRUE as any non-zero octet,
    (g) explicit tag wrappers in any length form.
  Not covered: the alternative REAL encodings of X.690 §8.5 (base 8/16, decimal, non-minimal
  exponent/mantissa); `ValidPrim.real` only admits the contents written by `asn_double2REAL`.
  Model: `decBER fuel t bs = interp t (parseTlv fuel bs)`; property theorems only.
-/
namespace Asn1c.Props.C03
open Asn1c Asn1c.Impl.BerTlv Asn1c.L2 Asn1c.Spec Asn1c.Proofs.L2Tlv Asn1c.Proofs.L2Der
open Asn1c.Proofs.L2Variants

/-- **the DER tree is one of the valid BER trees** of a canonical value -/
theorem der_is_valid (t : Ty) (v : Val) (x : Tlv) (hc : Canon t v) (h : toTlv t v = some x) :
    ValidBER t v x ∧ ValidBERo t v x := ⟨valid_of_toTlv hc h, valid_of_toTlv hc h⟩

/-- decoding the serialisation of any well-formed tree = interpreting the tree (whatever follows) -/
theorem decBER_enc (t : Ty) (x : Tlv) (hx : x.Wf) (fuel : Nat) (hf : x.size ≤ fuel) (rest : Bytes) :
    decBER fuel t (x.enc ++ rest) = match interp t x with
      | some v => .ok v rest
      | none => .fail := by
  unfold decBER
  rw [Asn1c.Proofs.L2Tlv.parseTlv_enc_any_form x hx fuel hf rest]
  rfl

/-- **interpretation of a valid tree, SET OF children in value order**: exactly the value.
    (`ValidBERo` only relates canonical values, so no `Canon` hypothesis is needed.) -/
theorem interp_valid_ordered (t : Ty) (v : Val) (x : Tlv) (hw : t.Wf) (h : ValidBERo t v x) :
    interp t x = some v := Asn1c.Proofs.L2Variants.interp_valid_ordered hw h

/-- **interpretation of a valid tree**: the value up to the order of its SET OF lists (the decoded
    lists are in wire order; `SetOfPerm t v v'` = `v'` is `v` with SET OF lists permuted) -/
theorem interp_valid (t : Ty) (v : Val) (x : Tlv) (hw : t.Wf) (h : ValidBER t v x) :
    ∃ v', SetOfPerm t v v' ∧ interp t x = some v' := Asn1c.Proofs.L2Variants.interp_valid hw h

/-- for a type without SET OF: exactly the value -/
theorem interp_valid_noSetOf (t : Ty) (v : Val) (x : Tlv) (hw : t.Wf) (hn : NoSetOf t)
    (h : ValidBER t v x) : interp t x = some v := Asn1c.Proofs.L2Variants.interp_valid_noSetOf hw hn h

/-- **the BER decoder accepts every valid encoding** (SET OF children in value order): RC_OK,
    exactly the encoding is consumed, the value is returned -/
theorem ber_accepts_valid_ordered (t : Ty) (v : Val) (x : Tlv) (hw : t.Wf) (h : ValidBERo t v x)
    (hx : x.Wf) (fuel : Nat) (hf : x.size ≤ fuel) (rest : Bytes) :
    decBER fuel t (x.enc ++ rest) = .ok v rest := by
  rw [decBER_enc t x hx fuel hf rest, interp_valid_ordered t v x hw h]

/-- **the BER decoder accepts every valid encoding**: RC_OK, exactly the encoding is consumed, the
    value is returned up to the order of its SET OF lists -/
theorem ber_accepts_valid (t : Ty) (v : Val) (x : Tlv) (hw : t.Wf) (h : ValidBER t v x) (hx : x.Wf) :
    ∃ v', SetOfPerm t v v' ∧
      ∀ fuel, x.size ≤ fuel → ∀ rest, decBER fuel t (x.enc ++ rest) = .ok v' rest := by
  obtain ⟨v', hp, hi⟩ := interp_valid t v x hw h
  exact ⟨v', hp, fun fuel hf rest => by rw [decBER_enc t x hx fuel hf rest, hi]⟩

/-- the same for types without SET OF: exactly the value -/
theorem ber_accepts_valid_noSetOf (t : Ty) (v : Val) (x : Tlv) (hw : t.Wf) (hn : NoSetOf t)
    (h : ValidBER t v x) (hx : x.Wf) (fuel : Nat) (hf : x.size ≤ fuel) (rest : Bytes) :
    decBER fuel t (x.enc ++ rest) = .ok v rest := by
  rw [decBER_enc t x hx fuel hf rest, interp_valid_noSetOf t v x hw hn h]

/-- **length forms never matter**: trees that differ only in how lengths are written are
    interpreted identically — every type, every tree (valid or not) -/
theorem interp_sameShape (t : Ty) (x y : Tlv) (h : sameShape x y) : interp t x = interp t y :=
  Asn1c.Proofs.L2Variants.interp_sameShape t x y h

/-- … hence their serialisations decode to the same result -/
theorem decBER_sameShape (t : Ty) (x y : Tlv) (h : sameShape x y) (hx : x.Wf) (hy : y.Wf)
    (fuel : Nat) (hfx : x.size ≤ fuel) (hfy : y.size ≤ fuel) (rest : Bytes) :
    decBER fuel t (x.enc ++ rest) = decBER fuel t (y.enc ++ rest) := by
  rw [decBER_enc t x hx fuel hfx rest, decBER_enc t y hy fuel hfy rest, interp_sameShape t x y h]

/-! ### concrete valid encodings, decoded by the theorems -/

section Examples
open Asn1c.Props.C01

theorem intOctets_5 : intOctets 5 = [5] := by simp [intOctets, natOctets, toBE_small]
theorem intOctets_9 : intOctets 9 = [9] := by simp [intOctets, natOctets, toBE_small]
theorem intOctets_m129 : intOctets (-129) = [255, 127] := by simp [intOctets, natOctets, toBE_small]
theorem real_1_5 : Asn1c.Impl.Real.double2REAL 0x3ff8000000000000 = [128, 255, 3] := by decide +kernel

/-- value `{ b x : TRUE, c { 5, -129 } }` of `C01.exTy` =
    `SEQUENCE { a [0] INTEGER OPTIONAL, b CHOICE { x BOOLEAN, y OCTET STRING }, c SEQUENCE OF INTEGER }` -/
def exVal1 : Val := .seq [.absent, .choice 0 (.bool true), .list [.int 5, .int (-129)]]

/-- (a), (f): every constructed node indefinite, a long-form length, TRUE written as 01 -/
def exTree1 : Tlv :=
  .cons ⟨0, 16⟩ none
    [.prim ⟨0, 1⟩ 0 [1], .cons ⟨0, 16⟩ none [.prim ⟨0, 2⟩ 0 [5], .prim ⟨0, 2⟩ 1 [255, 127]]]

theorem exTree1_valid : ValidBERo exTy exVal1 exTree1 := by
  refine .seq (outer := []) (inner := ⟨0, 16⟩) rfl ?_ .nil
  refine .absent rfl (.present rfl rfl ?_ (.present rfl rfl ?_ .nil))
  · exact .choice (.here (.prim (outer := []) rfl (.boolean rfl) .nil)) .nil
  · refine .seqOf (outer := []) (inner := ⟨0, 16⟩) rfl (.cons ?_ (.cons ?_ .nil)) .nil
    · refine .prim (outer := []) rfl ?_ .nil
      rw [← intOctets_5]; exact .integer
    · refine .prim (outer := []) rfl ?_ .nil
      rw [← intOctets_m129]; exact .integer

theorem exTree1_wf : exTree1.Wf := by
  simp [exTree1, Tlv.Wf, Wf, wfB, wfListB, isEoc, TagOk, LenFormOk, lenForm, lenSerialize, toBE_small]

theorem exTree1_enc :
    exTree1.enc = [48, 128, 1, 1, 1, 48, 128, 2, 1, 5, 2, 129, 2, 255, 127, 0, 0, 0, 0] := by
  simp [exTree1, Tlv.enc, Tlv.encList, tagOctets, tagSerialize, lenForm, lenSerialize, toBE_small]

/-- `30 80 01 01 01 30 80 02 01 05 02 81 02 FF 7F 00 00 00 00` decodes to the value -/
example (fuel : Nat) (hf : 7 ≤ fuel) (rest : Bytes) :
    decBER fuel exTy ([48, 128, 1, 1, 1, 48, 128, 2, 1, 5, 2, 129, 2, 255, 127, 0, 0, 0, 0] ++ rest)
      = .ok exVal1 rest := by
  rw [← exTree1_enc]
  exact ber_accepts_valid_ordered exTy exVal1 exTree1 (by decide) exTree1_valid exTree1_wf fuel
    (by simpa [exTree1, Tlv.size, Tlv.sizeList] using hf) rest

/-- (b): `C01.exVal` (b = y : '010203'H) with the OCTET STRING constructed and nested:
    `24 80 (04 01 01) (24 81 06 (04 00) (04 02 02 03)) 00 00` -/
def exTree2 : Tlv :=
  .cons ⟨0, 16⟩ (some 0)
    [.cons ⟨0, 4⟩ none
       [.prim ⟨0, 4⟩ 0 [1], .cons ⟨0, 4⟩ (some 1) [.prim ⟨0, 4⟩ 0 [], .prim ⟨0, 4⟩ 0 [2, 3]]],
     .cons ⟨0, 16⟩ (some 0) [.prim ⟨0, 2⟩ 0 [5], .prim ⟨0, 2⟩ 0 [255, 127]]]

theorem exTree2_valid : ValidBERo exTy exVal exTree2 := by
  refine .seq (outer := []) (inner := ⟨0, 16⟩) rfl ?_ .nil
  refine .absent rfl (.present rfl rfl ?_ (.present rfl rfl ?_ .nil))
  · refine .choice (.there (.here (.prim (outer := []) (inner := ⟨0, 4⟩) rfl (.octets rfl ?_) .nil))) .nil
    simp [stringContent, stringContentList]
  · refine .seqOf (outer := []) (inner := ⟨0, 16⟩) rfl (.cons ?_ (.cons ?_ .nil)) .nil
    · refine .prim (outer := []) rfl ?_ .nil
      rw [← intOctets_5]; exact .integer
    · refine .prim (outer := []) rfl ?_ .nil
      rw [← intOctets_m129]; exact .integer

theorem exTree2_wf : exTree2.Wf := by
  simp [exTree2, Tlv.Wf, Wf, wfB, wfListB, isEoc, TagOk, LenFormOk, lenForm, lenSerialize, toBE_small,
    Tlv.encList, Tlv.enc, tagOctets, tagSerialize]

theorem exTree2_enc :
    exTree2.enc = [48, 25, 36, 128, 4, 1, 1, 36, 129, 6, 4, 0, 4, 2, 2, 3, 0, 0, 48, 7, 2, 1, 5, 2, 2,
      255, 127] := by
  simp [exTree2, Tlv.enc, Tlv.encList, tagOctets, tagSerialize, lenForm, lenSerialize, toBE_small]

example (fuel : Nat) (hf : 13 ≤ fuel) (rest : Bytes) :
    decBER fuel exTy ([48, 25, 36, 128, 4, 1, 1, 36, 129, 6, 4, 0, 4, 2, 2, 3, 0, 0, 48, 7, 2, 1, 5, 2, 2,
      255, 127] ++ rest) = .ok exVal rest := by
  rw [← exTree2_enc]
  exact ber_accepts_valid_ordered exTy exVal exTree2 (by decide) exTree2_valid exTree2_wf fuel
    (by simpa [exTree2, Tlv.size, Tlv.sizeList] using hf) rest

/-- value of `C01.exSet` = `SET { p [1] BOOLEAN, q [0] EXPLICIT INTEGER DEFAULT 7,
    r SET OF OCTET STRING, s BIT STRING OPTIONAL, u REAL, ... }` with q = 9, s = '11111111 101'B -/
def exSetVal3 : Val :=
  .seq [.bool true, .int 9, .list [.octets [1], .octets [2], .octets [1, 0]], .bits [0xFF, 0xA0] 5,
    .real 0x3ff8000000000000]

/-- (d), (g), (c), (f), (a): children in the order q, p, r, u, s (DER order: s, u, r, q, p);
    the explicit wrapper of q indefinite; the BIT STRING constructed in two segments, the last
    one with non-zero unused bits (A7); TRUE = 80; non-minimal length on r -/
def exTree3 : Tlv :=
  .cons ⟨0, 17⟩ none
    [.cons ⟨2, 0⟩ none [.prim ⟨0, 2⟩ 0 [9]],
     .prim ⟨2, 1⟩ 0 [0x80],
     .cons ⟨0, 17⟩ (some 2) [.prim ⟨0, 4⟩ 0 [1], .prim ⟨0, 4⟩ 0 [2], .prim ⟨0, 4⟩ 0 [1, 0]],
     .prim ⟨0, 9⟩ 0 [128, 255, 3],
     .cons ⟨0, 3⟩ none [.prim ⟨0, 3⟩ 0 [0, 0xFF], .prim ⟨0, 3⟩ 0 [5, 0xA7]]]

theorem exTree3_valid : ValidBERo exSet exSetVal3 exTree3 := by
  refine .set (outer := []) (inner := ⟨0, 17⟩)
    (cs := [.prim ⟨2, 1⟩ 0 [0x80], .cons ⟨2, 0⟩ none [.prim ⟨0, 2⟩ 0 [9]],
      .cons ⟨0, 17⟩ (some 2) [.prim ⟨0, 4⟩ 0 [1], .prim ⟨0, 4⟩ 0 [2], .prim ⟨0, 4⟩ 0 [1, 0]],
      .cons ⟨0, 3⟩ none [.prim ⟨0, 3⟩ 0 [0, 0xFF], .prim ⟨0, 3⟩ 0 [5, 0xA7]],
      .prim ⟨0, 9⟩ 0 [128, 255, 3]]) rfl ?_ ?_ .nil
  · refine .present rfl rfl ?_ (.present rfl rfl ?_ (.present rfl rfl ?_ (.present rfl rfl ?_
      (.present rfl rfl ?_ .nil))))
    · exact .prim (outer := []) rfl (.boolean rfl) .nil
    · refine .prim (outer := [⟨2, 0⟩]) (inner := ⟨0, 2⟩) rfl ?_ (.cons .nil)
      rw [← intOctets_9]; exact .integer
    · refine .setOf (outer := []) (inner := ⟨0, 17⟩) rfl
        (.cons ?_ (.cons ?_ (.cons ?_ .nil))) (List.Perm.refl _) (fun _ => rfl) .nil
      · exact .prim (outer := []) rfl (.octets rfl rfl) .nil
      · exact .prim (outer := []) rfl (.octets rfl rfl) .nil
      · exact .prim (outer := []) rfl (.octets rfl rfl) .nil
    · refine .prim (outer := []) (inner := ⟨0, 3⟩) rfl (.bitsCons (bs' := [0xFF, 0xA7]) ?_ ?_) .nil
      · simp [bitSegments, bitLeavesList, bitLeaves, combineBits]
      · simp [maskLast]
    · refine .prim (outer := []) rfl ?_ .nil
      rw [← real_1_5]; exact .real (by decide)
  · exact (List.Perm.swap _ _ _).trans
      (List.Perm.cons _ (List.Perm.cons _ (List.Perm.cons _ (List.Perm.swap _ _ _))))

theorem exTree3_wf : exTree3.Wf := by
  simp [exTree3, Tlv.Wf, Wf, wfB, wfListB, isEoc, TagOk, LenFormOk, lenForm, lenSerialize, toBE_small,
    Tlv.encList, Tlv.enc, tagOctets, tagSerialize]

theorem exTree3_enc :
    exTree3.enc = [49, 128, 160, 128, 2, 1, 9, 0, 0, 129, 1, 128, 49, 130, 0, 10, 4, 1, 1, 4, 1, 2, 4, 2, 1, 0,
      9, 3, 128, 255, 3, 35, 128, 3, 2, 0, 255, 3, 2, 5, 167, 0, 0, 0, 0] := by
  simp [exTree3, Tlv.enc, Tlv.encList, tagOctets, tagSerialize, lenForm, lenSerialize, toBE_small]

example (fuel : Nat) (hf : 16 ≤ fuel) (rest : Bytes) :
    decBER fuel exSet ([49, 128, 160, 128, 2, 1, 9, 0, 0, 129, 1, 128, 49, 130, 0, 10, 4, 1, 1, 4, 1, 2, 4, 2,
      1, 0, 9, 3, 128, 255, 3, 35, 128, 3, 2, 0, 255, 3, 2, 5, 167, 0, 0, 0, 0] ++ rest)
      = .ok exSetVal3 rest := by
  rw [← exTree3_enc]
  exact ber_accepts_valid_ordered exSet exSetVal3 exTree3 (by decide) exTree3_valid exTree3_wf fuel
    (by simpa [exTree3, Tlv.size, Tlv.sizeList] using hf) rest

/-- (e): `SET OF INTEGER` value {5, -129} with the children in the non-DER order -129, 5 -/
def exSetOf : Ty := .setOf [⟨0, 17⟩] (.prim [⟨0, 2⟩] .integer)
def exTree4 : Tlv := .cons ⟨0, 17⟩ (some 0) [.prim ⟨0, 2⟩ 0 [255, 127], .prim ⟨0, 2⟩ 0 [5]]

theorem exTree4_valid : ValidBER exSetOf (.list [.int 5, .int (-129)]) exTree4 := by
  refine .setOf (outer := []) (inner := ⟨0, 17⟩)
    (cs := [.prim ⟨0, 2⟩ 0 [5], .prim ⟨0, 2⟩ 0 [255, 127]]) rfl (.cons ?_ (.cons ?_ .nil))
    (List.Perm.swap _ _ _) (fun h => by cases h) .nil
  · refine .prim (outer := []) rfl ?_ .nil
    rw [← intOctets_5]; exact .integer
  · refine .prim (outer := []) rfl ?_ .nil
    rw [← intOctets_m129]; exact .integer

example : ∃ v', SetOfPerm exSetOf (.list [.int 5, .int (-129)]) v' ∧
    ∀ fuel, exTree4.size ≤ fuel → ∀ rest, decBER fuel exSetOf (exTree4.enc ++ rest) = .ok v' rest :=
  ber_accepts_valid exSetOf _ exTree4 (by decide) exTree4_valid
    (by simp [exTree4, Tlv.Wf, Wf, wfB, wfListB, TagOk, LenFormOk, lenForm, lenSerialize, Tlv.encList,
      Tlv.enc, tagOctets, tagSerialize])

/-- `der_is_valid` instantiated: the DER tree of `C01.exVal` is a valid BER tree -/
example : ∃ x, toTlv exTy exVal = some x ∧ ValidBER exTy exVal x := by
  obtain ⟨x, hx⟩ := toTlv_total exTy exVal (by decide) (by decide)
  exact ⟨x, hx, (der_is_valid exTy exVal x (by decide) hx).1⟩

/-- `sameShape`: `exTree1` and its all-definite, all-minimal variant -/
example : sameShape exTree1
    (.cons ⟨0, 16⟩ (some 0)
      [.prim ⟨0, 1⟩ 0 [1], .cons ⟨0, 16⟩ (some 0) [.prim ⟨0, 2⟩ 0 [5], .prim ⟨0, 2⟩ 0 [255, 127]]]) := by
  simp [sameShape, exTree1, eraseForm, eraseFormList]

end Examples

end Asn1c.Props.C03
