import Asn1cModel.Props.C01
import Asn1cModel.Props.L1Per
import Asn1cModel.Proofs.BerTlv
import Asn1cModel.Props.C02Oer
import Asn1cModel.Props.C02Uper
/-
  C02 — encoders emit the byte-exact standard wire format.  The theorems audited for this property
  live in Proofs/BerTlv.lean (identifier / length octets = X.690 §8.1.2/§8.1.3/§10.1),
  Props/L1Per.lean (PER building blocks = X.691 §10.5–§10.9, OER length = X.696 §8.6, OER INTEGER
  = X.696 §10) and Props/C01.lean (`toTlv` is DER; INTEGER contents minimal); the list is
  lean/props/C02.json.  This file only gathers the imports so the check builds exactly this closure.
-/
