import Asn1cModel.Proofs.Integer
/-
  C16 — INTEGER and REAL conversion helpers are exact and produce canonical contents.
  Property theorems only (helper lemmas: Proofs/Integer.lean, Proofs/Real.lean).
  Impl = model of skeletons/INTEGER.c, tied to the C code by the `prim_driver` correspondence.
-/
namespace Asn1c.Props.C16
open Asn1c Asn1c.Impl.Integer Asn1c.Spec Asn1c.Proofs.Integer

theorem toBEn8 (n : Nat) : toBEn 8 n = [n / 72057594037927936 % 256, n / 281474976710656 % 256, n / 1099511627776 % 256,
    n / 4294967296 % 256, n / 16777216 % 256, n / 65536 % 256, n / 256 % 256, n % 256] := by
  simp [toBEn]

theorem imaxOctets_val (v : Int) (h : fitsS64 v) : twosVal (imaxOctets v) = v := by
  unfold fitsS64 at h
  unfold imaxOctets
  rw [toBEn8]
  simp only [twosVal, ofBE, List.length_cons, List.length_nil]
  norm_num
  split <;> omega

theorem imaxOctets_wf (v : Int) : Bytes.wf (imaxOctets v) := by
  unfold imaxOctets; rw [toBEn8]; intro b hb; simp at hb; omega

/-- **asn_imax2INTEGER / asn_long2INTEGER**: for every 64-bit signed v the stored octets are
    non-empty, are octets, satisfy X.690 §8.3.2 (minimal) and denote v. -/
theorem imax2INTEGER_spec (v : Int) (h : fitsS64 v) :
    imax2INTEGER v ≠ [] ∧ Bytes.wf (imax2INTEGER v) ∧ MinimalTwos (imax2INTEGER v) ∧
    twosVal (imax2INTEGER v) = v := by
  unfold imax2INTEGER
  refine ⟨strip_ne_nil _ ?_, strip_wf _ (imaxOctets_wf v), strip_minimal _, ?_⟩
  · unfold imaxOctets; rw [toBEn8]; simp
  · rw [strip_val _ (imaxOctets_wf v)]; exact imaxOctets_val v h

/-- **asn_INTEGER2imax** on any octet string (non-minimal forms of any length included):
    returns the denoted value exactly when it fits `intmax_t`, otherwise ERANGE. -/
theorem INTEGER2imax_spec (bs : Bytes) (h : Bytes.wf bs) :
    INTEGER2imax bs = if fitsS64 (twosVal bs) then .ok (twosVal bs) else .erange := by
  unfold INTEGER2imax
  by_cases hlen : bs.length > 8
  · simp only [hlen, if_true]
    have hne : bs ≠ [] := by intro e; simp [e] at hlen
    have hsw := strip_wf bs h
    have hsv := strip_val bs h
    have hsn := strip_ne_nil bs hne
    have hsm := strip_minimal bs
    by_cases hs : (strip bs).length > 8
    · simp only [hs, if_true]
      -- minimal with ≥ 9 octets: does not fit 8
      match hstr : strip bs, hs, hsm, hsw with
      | a :: b :: rest, hs, hsm, hsw =>
        have hna := minimal_needs_all a b rest hsw hsm
        rw [hstr] at hsv
        rw [← hsv]
        have hl : rest.length + 1 ≥ 8 := by simp at hs; omega
        have hmono : (256:Int) ^ 8 ≤ 256 ^ (rest.length + 1) := by
          apply pow_le_pow_right₀ (by norm_num) hl
        have e : (256 : Int) ^ (rest.length + 1) / 2 ≥ 2 ^ 63 := by
          have : (256:Int)^8 = 18446744073709551616 := by norm_num
          omega
        rw [if_neg]
        intro hf; unfold fitsS64 at hf
        apply hna
        constructor <;> omega
      | [_], hs, _, _ => simp at hs
      | [], hs, _, _ => simp at hs
    · simp only [hs, if_false, hsn]
      have hr := twosVal_range (strip bs) hsw hsn
      have hl : (strip bs).length ≤ 8 := by omega
      have hmono : (256:Int) ^ (strip bs).length ≤ 256 ^ 8 := by
        apply pow_le_pow_right₀ (by norm_num) hl
      have : (256:Int)^8 = 18446744073709551616 := by norm_num
      have hfit : fitsS64 (twosVal bs) := by
        rw [← hsv]; unfold fitsS64; constructor <;> omega
      rw [if_pos hfit, ← hsv]
      rfl
  · simp only [hlen, if_false]
    by_cases hne : bs = []
    · subst hne; simp [twosVal, fitsS64]
    · simp only [hne, if_false]
      have hr := twosVal_range bs h hne
      have hl : bs.length ≤ 8 := by omega
      have hmono : (256:Int) ^ bs.length ≤ 256 ^ 8 := by
        apply pow_le_pow_right₀ (by norm_num) hl
      have : (256:Int)^8 = 18446744073709551616 := by norm_num
      have hfit : fitsS64 (twosVal bs) := by
        unfold fitsS64; constructor <;> omega
      rw [if_pos hfit]; rfl

/-- round trip for every `intmax_t` / `long` -/
theorem INTEGER2imax_imax2INTEGER (v : Int) (h : fitsS64 v) : INTEGER2imax (imax2INTEGER v) = .ok v := by
  obtain ⟨_, hw, _, hv⟩ := imax2INTEGER_spec v h
  rw [INTEGER2imax_spec _ hw, hv, if_pos h]

theorem INTEGER2long_long2INTEGER (v : Int) (h : fitsS64 v) : INTEGER2long (imax2INTEGER v) = .ok v := by
  unfold INTEGER2long; rw [INTEGER2imax_imax2INTEGER v h]
  unfold fitsS64 at h; simp; omega

/-- **asn_umax2INTEGER**: canonical octets for every `uintmax_t` -/
theorem umax2INTEGER_spec (v : Nat) (h : v < 2 ^ 64) :
    umax2INTEGER v ≠ [] ∧ Bytes.wf (umax2INTEGER v) ∧ MinimalTwos (umax2INTEGER v) ∧
    twosVal (umax2INTEGER v) = v := by
  unfold umax2INTEGER
  split
  · rename_i hle
    exact imax2INTEGER_spec v (by unfold fitsS64; omega)
  · rename_i hgt
    rw [toBEn8]
    refine ⟨by simp, ?_, ?_, ?_⟩
    · intro b hb; simp at hb; omega
    · simp only [MinimalTwos]; omega
    · simp only [twosVal, ofBE, List.length_cons, List.length_nil]
      norm_num
      omega

/-- **asn_INTEGER2umax**, partial: correct for every octet string that denotes a non-negative value
    (negative values: finding F3, `INTEGER2umax_negative_cex`). -/
theorem INTEGER2umax_partial (bs : Bytes) (h : Bytes.wf bs) (hnn : 0 ≤ twosVal bs) :
    INTEGER2umax bs = if twosVal bs < 2 ^ 64 then .ok (twosVal bs).toNat else .erange := by
  rw [INTEGER2umax_unsigned_spec bs h, twosVal_nonneg bs h hnn]
  simp only [Int.toNat_natCast]
  by_cases hlt : unsVal bs < 2 ^ 64
  · rw [if_pos hlt, if_pos (by exact_mod_cast hlt)]
  · rw [if_neg hlt, if_neg (by exact_mod_cast hlt)]

/-- round trip for every `uintmax_t` -/
theorem INTEGER2umax_umax2INTEGER (v : Nat) (h : v < 2 ^ 64) : INTEGER2umax (umax2INTEGER v) = .ok v := by
  obtain ⟨_, hw, _, hv⟩ := umax2INTEGER_spec v h
  rw [INTEGER2umax_partial _ hw (by rw [hv]; omega), hv]
  rw [if_pos (by exact_mod_cast h)]; simp

/-- F3: a negative INTEGER is silently read as a large unsigned one (FIXME in the C source). -/
theorem INTEGER2umax_negative_cex : twosVal [255] = -1 ∧ INTEGER2umax [255] = .ok 255 := by decide

/-- **asn_ulong2INTEGER**, partial: correct below 2^63 (finding F2 above). -/
theorem ulong2INTEGER_partial (v : Nat) (h : v < 2 ^ 63) :
    ulong2INTEGER v ≠ [] ∧ Bytes.wf (ulong2INTEGER v) ∧ MinimalTwos (ulong2INTEGER v) ∧
    twosVal (ulong2INTEGER v) = v := by
  unfold ulong2INTEGER
  have : toSigned64 v = v := by unfold toSigned64; split <;> omega
  rw [this]
  exact imax2INTEGER_spec v (by unfold fitsS64; omega)

/-- F2: 2^63 passed through `intmax_t` is stored as a negative INTEGER. -/
theorem ulong2INTEGER_cex : twosVal (ulong2INTEGER (2 ^ 63)) = -(2 ^ 63) := by decide

end Asn1c.Props.C16
