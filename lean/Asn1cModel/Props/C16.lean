import Asn1cModel.Proofs.Integer
import Asn1cModel.Proofs.Strtox
import Asn1cModel.Proofs.Real
/-
  C16 — INTEGER and REAL conversion helpers are exact and produce canonical contents.
  Property theorems only (helper lemmas: Proofs/Integer.lean, Proofs/Real.lean).
  Impl = model of skeletons/INTEGER.c, tied to the C code by the `prim_driver` correspondence.
-/
namespace Asn1c.Props.C16
open Asn1c Asn1c.Impl.Integer Asn1c.Spec Asn1c.Proofs.Integer

theorem toBEn8 (n : Nat) : toBEn 8 n = [n / 72057594037927936 % 256, n / 281474976710656 % 256, n / 1099511627776 % 256,
    n / 4294967296 % 256, n / 16777216 % 256, n / 65536 % 256, n / 256 % 256, n % 256] := by
  simp [toBEn]

theorem imaxOctets_val (v : Int) (h : fitsS64 v) : twosVal (imaxOctets v) = v := by
  unfold fitsS64 at h
  unfold imaxOctets
  rw [toBEn8]
  simp only [twosVal, ofBE, List.length_cons, List.length_nil]
  norm_num
  split <;> omega

theorem imaxOctets_wf (v : Int) : Bytes.wf (imaxOctets v) := by
  unfold imaxOctets; rw [toBEn8]; intro b hb; simp at hb; omega

/-- **asn_imax2INTEGER / asn_long2INTEGER**: for every 64-bit signed v the stored octets are
    non-empty, are octets, satisfy X.690 §8.3.2 (minimal) and denote v. -/
theorem imax2INTEGER_spec (v : Int) (h : fitsS64 v) :
    imax2INTEGER v ≠ [] ∧ Bytes.wf (imax2INTEGER v) ∧ MinimalTwos (imax2INTEGER v) ∧
    twosVal (imax2INTEGER v) = v := by
  unfold imax2INTEGER
  refine ⟨strip_ne_nil _ ?_, strip_wf _ (imaxOctets_wf v), strip_minimal _, ?_⟩
  · unfold imaxOctets; rw [toBEn8]; simp
  · rw [strip_val _ (imaxOctets_wf v)]; exact imaxOctets_val v h

/-- **asn_INTEGER2imax** on any octet string (non-minimal forms of any length included):
    returns the denoted value exactly when it fits `intmax_t`, otherwise ERANGE. -/
theorem INTEGER2imax_spec (bs : Bytes) (h : Bytes.wf bs) :
    INTEGER2imax bs = if fitsS64 (twosVal bs) then .ok (twosVal bs) else .erange := by
  unfold INTEGER2imax
  by_cases hlen : bs.length > 8
  · simp only [hlen, if_true]
    have hne : bs ≠ [] := by intro e; simp [e] at hlen
    have hsw := strip_wf bs h
    have hsv := strip_val bs h
    have hsn := strip_ne_nil bs hne
    have hsm := strip_minimal bs
    by_cases hs : (strip bs).length > 8
    · simp only [hs, if_true]
      -- minimal with ≥ 9 octets: does not fit 8
      match hstr : strip bs, hs, hsm, hsw with
      | a :: b :: rest, hs, hsm, hsw =>
        have hna := minimal_needs_all a b rest hsw hsm
        rw [hstr] at hsv
        rw [← hsv]
        have hl : rest.length + 1 ≥ 8 := by simp at hs; omega
        have hmono : (256:Int) ^ 8 ≤ 256 ^ (rest.length + 1) := by
          apply pow_le_pow_right₀ (by norm_num) hl
        have e : (256 : Int) ^ (rest.length + 1) / 2 ≥ 2 ^ 63 := by
          have : (256:Int)^8 = 18446744073709551616 := by norm_num
          omega
        rw [if_neg]
        intro hf; unfold fitsS64 at hf
        apply hna
        constructor <;> omega
      | [_], hs, _, _ => simp at hs
      | [], hs, _, _ => simp at hs
    · simp only [hs, if_false, hsn]
      have hr := twosVal_range (strip bs) hsw hsn
      have hl : (strip bs).length ≤ 8 := by omega
      have hmono : (256:Int) ^ (strip bs).length ≤ 256 ^ 8 := by
        apply pow_le_pow_right₀ (by norm_num) hl
      have : (256:Int)^8 = 18446744073709551616 := by norm_num
      have hfit : fitsS64 (twosVal bs) := by
        rw [← hsv]; unfold fitsS64; constructor <;> omega
      rw [if_pos hfit, ← hsv]
      rfl
  · simp only [hlen, if_false]
    by_cases hne : bs = []
    · subst hne; simp [twosVal, fitsS64]
    · simp only [hne, if_false]
      have hr := twosVal_range bs h hne
      have hl : bs.length ≤ 8 := by omega
      have hmono : (256:Int) ^ bs.length ≤ 256 ^ 8 := by
        apply pow_le_pow_right₀ (by norm_num) hl
      have : (256:Int)^8 = 18446744073709551616 := by norm_num
      have hfit : fitsS64 (twosVal bs) := by
        unfold fitsS64; constructor <;> omega
      rw [if_pos hfit]; rfl

/-- round trip for every `intmax_t` / `long` -/
theorem INTEGER2imax_imax2INTEGER (v : Int) (h : fitsS64 v) : INTEGER2imax (imax2INTEGER v) = .ok v := by
  obtain ⟨_, hw, _, hv⟩ := imax2INTEGER_spec v h
  rw [INTEGER2imax_spec _ hw, hv, if_pos h]

theorem INTEGER2long_long2INTEGER (v : Int) (h : fitsS64 v) : INTEGER2long (imax2INTEGER v) = .ok v := by
  unfold INTEGER2long; rw [INTEGER2imax_imax2INTEGER v h]
  unfold fitsS64 at h; simp; omega

/-- **asn_umax2INTEGER**: canonical octets for every `uintmax_t` -/
theorem umax2INTEGER_spec (v : Nat) (h : v < 2 ^ 64) :
    umax2INTEGER v ≠ [] ∧ Bytes.wf (umax2INTEGER v) ∧ MinimalTwos (umax2INTEGER v) ∧
    twosVal (umax2INTEGER v) = v := by
  unfold umax2INTEGER
  split
  · rename_i hle
    exact imax2INTEGER_spec v (by unfold fitsS64; omega)
  · rename_i hgt
    rw [toBEn8]
    refine ⟨by simp, ?_, ?_, ?_⟩
    · intro b hb; simp at hb; omega
    · simp only [MinimalTwos]; omega
    · simp only [twosVal, ofBE, List.length_cons, List.length_nil]
      norm_num
      omega

/-- **asn_INTEGER2umax** on any octet string (non-minimal forms of any length included): returns the
    denoted value exactly when it fits `uintmax_t` (0 ≤ value < 2^64), otherwise ERANGE; in particular
    every negative INTEGER is a range error (finding F3 repaired: the former `INTEGER2umax_partial`
    needed `0 ≤ twosVal bs`). -/
theorem INTEGER2umax_spec (bs : Bytes) (h : Bytes.wf bs) :
    INTEGER2umax bs = if fitsU64 (twosVal bs) then .ok (twosVal bs).toNat else .erange := by
  by_cases hneg : isNegative bs = true
  · have hlt := (isNegative_iff bs h).mp hneg
    unfold INTEGER2umax
    rw [hneg, if_pos rfl, if_neg (by unfold fitsU64; omega)]
  · have hn : isNegative bs = false := by simpa using hneg
    have hnn : 0 ≤ twosVal bs := by
      have := (isNegative_iff bs h).not.mp hneg; omega
    rw [INTEGER2umax_unsigned_spec bs h hn, twosVal_nonneg bs h hnn]
    simp only [Int.toNat_natCast]
    by_cases hlt : unsVal bs < 2 ^ 64
    · rw [if_pos hlt, if_pos (by unfold fitsU64; exact ⟨by omega, by exact_mod_cast hlt⟩)]
    · rw [if_neg hlt, if_neg (by unfold fitsU64; intro hf; exact hlt (by exact_mod_cast hf.2))]

/-- **asn_INTEGER2ulong** (`unsigned long` = `uintmax_t` on LP64): likewise -/
theorem INTEGER2ulong_spec (bs : Bytes) (h : Bytes.wf bs) :
    INTEGER2ulong bs = if fitsU64 (twosVal bs) then .ok (twosVal bs).toNat else .erange := by
  unfold INTEGER2ulong
  rw [INTEGER2umax_spec bs h]
  by_cases hf : fitsU64 (twosVal bs)
  · rw [if_pos hf]; unfold fitsU64 at hf; simp only []; rw [if_neg (by omega)]
  · rw [if_neg hf]

/-- round trip for every `uintmax_t` -/
theorem INTEGER2umax_umax2INTEGER (v : Nat) (h : v < 2 ^ 64) : INTEGER2umax (umax2INTEGER v) = .ok v := by
  obtain ⟨_, hw, _, hv⟩ := umax2INTEGER_spec v h
  rw [INTEGER2umax_spec _ hw, hv, if_pos (by unfold fitsU64; omega)]
  simp

/-- the former F3 witness: the INTEGER −1 (`FF`) is now a range error, and so is every negative INTEGER -/
theorem INTEGER2umax_negative_erange (bs : Bytes) (h : Bytes.wf bs) (hneg : twosVal bs < 0) :
    INTEGER2umax bs = .erange ∧ INTEGER2ulong bs = .erange := by
  rw [INTEGER2umax_spec bs h, INTEGER2ulong_spec bs h, if_neg (by unfold fitsU64; omega)]
  exact ⟨rfl, rfl⟩

example : twosVal [255] = -1 ∧ INTEGER2umax [255] = .erange ∧ INTEGER2ulong [255] = .erange := by decide

/-- **asn_ulong2INTEGER**: canonical octets for every `unsigned long` (finding F2 repaired: the value no longer
    passes through `intmax_t`). -/
theorem ulong2INTEGER_spec (v : Nat) (h : v < 2 ^ 64) :
    ulong2INTEGER v ≠ [] ∧ Bytes.wf (ulong2INTEGER v) ∧ MinimalTwos (ulong2INTEGER v) ∧
    twosVal (ulong2INTEGER v) = v := by
  unfold ulong2INTEGER
  exact umax2INTEGER_spec v h

/-- the former F2 witness: 2^63 is stored as the positive INTEGER 00 80 00 00 00 00 00 00 00 -/
example : ulong2INTEGER (2 ^ 63) = [0, 128, 0, 0, 0, 0, 0, 0, 0] := by decide

open Asn1c.Proofs.Strtox

open Asn1c.Proofs.Strtox

/-! ### decimal parsers `asn_strtoimax_lim`, `asn_strtoumax_lim`, `asn_strtol_lim`, `asn_strtoul_lim`

  "The parsers accept exactly the in-range numerals."  `numeral? signed s` (Spec/Numeral.lean) is
  `some v` iff the *whole* byte string `s` is `['+' | '-'] digit+` (ASCII, leading zeros allowed,
  '-' only when `signed`) and denotes `v`.  Bytes are arbitrary `Nat`s.  `.ok` = ASN_STRTOX_OK;
  `endPos` = offset of `*end`, `val` = the value stored through the out-pointer. -/

/-- `numeral?` spelled out: `s = sign ++ digits`, sign empty, "+" or (signed only) "-",
    one or more ASCII digits, value = ± the decimal value of the digits. -/
theorem numeral?_spelled_out (signed : Bool) (s : List Nat) (v : Int) :
    numeral? signed s = some v ↔
      ∃ sign digits, s = sign ++ digits ∧
        (sign = [] ∨ sign = [0x2b] ∨ (signed = true ∧ sign = [0x2d])) ∧
        digits ≠ [] ∧ allDigits digits ∧
        v = (if sign = [0x2d] then -1 else 1) * (digitsVal 0 digits : Int) :=
  numeral?_eq_some_iff signed s v

/-- **asn_strtoimax_lim** returns ASN_STRTOX_OK exactly on the numerals that fit `intmax_t`
    (every other byte string: some other result code). -/
theorem strtoimax_accepts_iff (s : List Nat) :
    (strtoimax s).res = .ok ↔ ∃ v, numeral? true s = some v ∧ fitsS64 v :=
  ⟨(strtoimax_char s).2, fun ⟨v, hv, hf⟩ => by rw [(strtoimax_char s).1 v hv hf]⟩

/-- **asn_strtoimax_lim** on an in-range numeral: OK, `*end` at the end of the input,
    the exact value stored. -/
theorem strtoimax_ok_value (s : List Nat) (v : Int) (hv : numeral? true s = some v) (hf : fitsS64 v) :
    strtoimax s = ⟨.ok, s.length, some v⟩ :=
  (strtoimax_char s).1 v hv hf

/-- `strtoimax_accepts_iff` + `strtoimax_ok_value` in one explicit statement (no `numeral?`). -/
theorem strtoimax_explicit (s : List Nat) :
    (strtoimax s).res = .ok ↔
      ∃ sign digits, s = sign ++ digits ∧ (sign = [] ∨ sign = [0x2b] ∨ sign = [0x2d]) ∧
        digits ≠ [] ∧ allDigits digits ∧
        fitsS64 ((if sign = [0x2d] then -1 else 1) * (digitsVal 0 digits : Int)) ∧
        strtoimax s = ⟨.ok, s.length,
          some ((if sign = [0x2d] then -1 else 1) * (digitsVal 0 digits : Int))⟩ := by
  constructor
  · intro h
    obtain ⟨v, hv, hf⟩ := (strtoimax_accepts_iff s).mp h
    obtain ⟨sign, digits, hs, hsg, hne, hd, rfl⟩ := (numeral?_eq_some_iff true s v).mp hv
    refine ⟨sign, digits, hs, ?_, hne, hd, hf, strtoimax_ok_value s _ hv hf⟩
    rcases hsg with h | h | ⟨_, h⟩ <;> simp [h]
  · rintro ⟨_, _, _, _, _, _, _, h⟩; rw [h]

/-- **asn_strtoumax_lim** returns ASN_STRTOX_OK exactly on the unsigned numerals (optional '+',
    no '-') that fit `uintmax_t`. -/
theorem strtoumax_accepts_iff (s : List Nat) :
    (strtoumax s).res = .ok ↔ ∃ v, numeral? false s = some v ∧ fitsU64 v :=
  ⟨(strtoumax_char s).2, fun ⟨v, hv, hf⟩ => by rw [(strtoumax_char s).1 v hv hf]⟩

/-- **asn_strtoumax_lim** on an in-range numeral: OK, `*end` at the end, the exact value. -/
theorem strtoumax_ok_value (s : List Nat) (v : Int) (hv : numeral? false s = some v) (hf : fitsU64 v) :
    strtoumax s = ⟨.ok, s.length, some v⟩ :=
  (strtoumax_char s).1 v hv hf

/-- explicit form for **asn_strtoumax_lim** (no `numeral?`) -/
theorem strtoumax_explicit (s : List Nat) :
    (strtoumax s).res = .ok ↔
      ∃ sign digits, s = sign ++ digits ∧ (sign = [] ∨ sign = [0x2b]) ∧
        digits ≠ [] ∧ allDigits digits ∧ digitsVal 0 digits < 2 ^ 64 ∧
        strtoumax s = ⟨.ok, s.length, some (digitsVal 0 digits : Int)⟩ := by
  constructor
  · intro h
    obtain ⟨v, hv, hf⟩ := (strtoumax_accepts_iff s).mp h
    have hv' := hv
    obtain ⟨sign, digits, hs, hsg, hne, hd, hval⟩ := (numeral?_eq_some_iff false s v).mp hv'
    have hsg' : sign = [] ∨ sign = [0x2b] := by
      rcases hsg with h | h | ⟨h, _⟩
      · exact Or.inl h
      · exact Or.inr h
      · cases h
    have hv2 : v = (digitsVal 0 digits : Int) := by
      rcases hsg' with h | h <;> simp [h] at hval <;> exact hval
    subst hv2
    refine ⟨sign, digits, hs, hsg', hne, hd, ?_, strtoumax_ok_value s _ hv hf⟩
    have := hf.2
    exact_mod_cast this
  · rintro ⟨_, _, _, _, _, _, _, h⟩; rw [h]

/-- **asn_strtol_lim** (LP64: `long` = 64 bit): OK exactly on the numerals that fit `long`. -/
theorem strtol_accepts_iff (s : List Nat) :
    (strtol s).res = .ok ↔ ∃ v, numeral? true s = some v ∧ fitsS64 v :=
  ⟨(strtol_char s).2, fun ⟨v, hv, hf⟩ => by rw [(strtol_char s).1 v hv hf]⟩

/-- **asn_strtol_lim** on an in-range numeral: OK, `*end` at the end, the exact value. -/
theorem strtol_ok_value (s : List Nat) (v : Int) (hv : numeral? true s = some v) (hf : fitsS64 v) :
    strtol s = ⟨.ok, s.length, some v⟩ :=
  (strtol_char s).1 v hv hf

/-- **asn_strtoul_lim** (LP64): OK exactly on the unsigned numerals that fit `unsigned long`. -/
theorem strtoul_accepts_iff (s : List Nat) :
    (strtoul s).res = .ok ↔ ∃ v, numeral? false s = some v ∧ fitsU64 v :=
  ⟨(strtoul_char s).2, fun ⟨v, hv, hf⟩ => by rw [(strtoul_char s).1 v hv hf]⟩

/-- **asn_strtoul_lim** on an in-range numeral: OK, `*end` at the end, the exact value. -/
theorem strtoul_ok_value (s : List Nat) (v : Int) (hv : numeral? false s = some v) (hf : fitsU64 v) :
    strtoul s = ⟨.ok, s.length, some v⟩ :=
  (strtoul_char s).1 v hv hf

/-- "9223372036854775807" (INTMAX_MAX) is accepted with its value -/
example : strtoimax [0x39,0x32,0x32,0x33,0x33,0x37,0x32,0x30,0x33,0x36,0x38,0x35,0x34,0x37,0x37,0x35,0x38,0x30,0x37]
    = ⟨.ok, 19, some 9223372036854775807⟩ := by decide
/-- "9223372036854775808" is rejected with ASN_STRTOX_ERROR_RANGE -/
example : (strtoimax [0x39,0x32,0x32,0x33,0x33,0x37,0x32,0x30,0x33,0x36,0x38,0x35,0x34,0x37,0x37,0x35,0x38,0x30,0x38]).res
    = .range := by decide
/-- "-9223372036854775808" (INTMAX_MIN) is accepted with its value -/
example : strtoimax [0x2d,0x39,0x32,0x32,0x33,0x33,0x37,0x32,0x30,0x33,0x36,0x38,0x35,0x34,0x37,0x37,0x35,0x38,0x30,0x38]
    = ⟨.ok, 20, some (-9223372036854775808)⟩ := by decide
/-- "+18446744073709551615" (UINTMAX_MAX) accepted, "18446744073709551616" → RANGE, "-1" → INVAL,
    "12x" → EXTRA_DATA (unsigned parser) -/
example : strtoumax [0x2b,0x31,0x38,0x34,0x34,0x36,0x37,0x34,0x34,0x30,0x37,0x33,0x37,0x30,0x39,0x35,0x35,0x31,0x36,0x31,0x35]
      = ⟨.ok, 21, some 18446744073709551615⟩ ∧
    (strtoumax [0x31,0x38,0x34,0x34,0x36,0x37,0x34,0x34,0x30,0x37,0x33,0x37,0x30,0x39,0x35,0x35,0x31,0x36,0x31,0x36]).res
      = .range ∧
    (strtoumax [0x2d,0x31]).res = .inval ∧ (strtoumax [0x31,0x32,0x78]).res = .extra := by decide
/-- the spec side on the same strings -/
example : numeral? true [0x2d,0x30,0x30,0x37] = some (-7) ∧ numeral? false [0x2d,0x37] = none ∧
    numeral? true [0x2b] = none ∧ numeral? true [0x31,0x20] = none := by decide

/-! ### REAL: `asn_double2REAL` / `asn_REAL2double` (Impl/Real.lean, Spec/Real.lean)

  A double is its IEEE-754 bit pattern `b < 2^64`.  `derReal b` is the X.690 §8.5/§11.3 DER
  contents (base 2, odd mantissa, fewest exponent and mantissa octets, specials, +0 = empty).
  `t = ctz (f64Mant b)` is the number of trailing zero bits of the 53-bit significand. -/

section Real
open Asn1c.Impl.Real Asn1c.Proofs.Real

theorem f64_fields (b : Nat) : expField b = f64Exp b ∧ fracField b = f64Frac b ∧ signOf b = f64Sign b :=
  ⟨rfl, rfl, rfl⟩

/-- **asn_double2REAL, special values**: NaN (every payload, either sign), ±∞ and ±0 are stored
    exactly as X.690 §8.5.9 / §8.5.3 prescribe (42, 40/41, empty contents / 43). -/
theorem double2REAL_special_eq_derReal (b : Nat) (h : f64IsNaN b ∨ f64IsInf b ∨ f64IsZero b) :
    double2REAL b = derReal b := by
  unfold double2REAL classify derReal f64Mant
  unfold f64IsNaN f64IsInf f64IsZero at h
  obtain ⟨e1, e2, e3⟩ := f64_fields b
  rw [e1, e2, e3]
  rcases h with ⟨h1, h2⟩ | ⟨h1, h2⟩ | ⟨h1, h2⟩ <;> simp [h1, h2]

/-- the model's IEEE-754 reading of a bit pattern is the Spec's -/
theorem toDyadic_eq (b : Nat) : toDyadic b = (f64Mant b, f64Pow b) := by
  unfold toDyadic f64Mant f64Pow
  rw [(f64_fields b).1, (f64_fields b).2.1]
  split <;> rfl

/-- **asn_double2REAL = DER, every double** (all bit patterns: normal, subnormal, ±0, ±∞, NaN):
    the stored octets are exactly the X.690 DER contents `derReal` (§8.5 + §11.3.1: base 2, odd
    mantissa, exponent and mantissa each in the fewest octets; see `derReal_canonical`).
    Before the repair of F1 (subnormals got a hidden bit) and F31 (a redundant leading 00 mantissa
    octet after a shift by 5..7 bits) this held only for part of the normal doubles. -/
theorem double2REAL_eq_derReal (b : Nat) : double2REAL b = derReal b := by
  by_cases hs : f64IsNaN b ∨ f64IsInf b ∨ f64IsZero b
  · exact double2REAL_special_eq_derReal b hs
  · have hE : f64Exp b ≠ 2047 := by
      intro h; apply hs; unfold f64IsNaN f64IsInf
      by_cases h0 : f64Frac b = 0
      · exact Or.inr (Or.inl ⟨h, h0⟩)
      · exact Or.inl ⟨h, h0⟩
    have hM : f64Mant b ≠ 0 := by
      intro h; apply hs; right; right
      unfold f64IsZero; unfold f64Mant at h; split at h <;> omega
    have hfin : double2REAL b = double2REALfinite b := by
      unfold double2REAL classify
      rw [(f64_fields b).1, (f64_fields b).2.1, if_neg hE]
      by_cases h0 : f64Exp b = 0
      · have : f64Frac b ≠ 0 := by
          intro h; apply hM; unfold f64Mant; rw [if_pos h0]; exact h
        rw [if_pos h0, if_neg this]
      · rw [if_neg h0]
    rw [hfin, double2REALfinite_eq b (by rw [toDyadic_eq]; exact hM), toDyadic_eq]
    simp only []
    have hF : f64Frac b < 2 ^ 52 := Nat.mod_lt _ (by positivity)
    have hEl : f64Exp b < 2048 := Nat.mod_lt _ (by decide)
    have hmlt : f64Mant b < 2 ^ 53 := by unfold f64Mant; split <;> omega
    have ht : ctz (f64Mant b) ≤ 52 := by
      have := ctz_lt_of_mod_ne (f64Mant b) 53 (by rw [Nat.mod_eq_of_lt hmlt]; exact hM); omega
    have hp : -1075 ≤ f64Pow b ∧ f64Pow b ≤ 972 := by unfold f64Pow; split <;> omega
    rw [(f64_fields b).2.2, expHeader_eq _ _ (by omega) (by omega)]
    unfold derReal
    rw [if_neg hE, if_neg hM]
    simp

/-- former F31 witness: `asn_double2REAL(1.0078125)` stored `80 F9 00 81`; it now stores the DER
    contents `80 F9 81` (X.690 §11.3.1: mantissa in the fewest octets). -/
theorem double2REAL_leading_zero_witness :
    f64IsNormal 0x3ff0200000000000 ∧ double2REAL 0x3ff0200000000000 = [0x80, 0xf9, 0x81] ∧
    derReal 0x3ff0200000000000 = [0x80, 0xf9, 0x81] := by decide +kernel

set_option exponentiation.threshold 2000 in
/-- former F1 witness: the subnormal double with bit pattern 3 (3·2^-1074) was stored with a hidden
    bit as (2^52+3)·2^-1125 and decoded back as the bit pattern 2; it is now stored in the DER form
    `81 FB CE 03` and comes back bit for bit (as do the smallest and the largest subnormal). -/
theorem double2REAL_subnormal_witness :
    f64IsSubnormal 3 ∧ double2REAL 3 = [0x81, 0xfb, 0xce, 0x03] ∧
    derReal 3 = [0x81, 0xfb, 0xce, 0x03] ∧ REAL2double (double2REAL 3) = .ok 3 ∧
    double2REAL 1 = [0x81, 0xfb, 0xce, 0x01] ∧
    double2REAL 0x000fffffffffffff = [0x81, 0xfb, 0xce, 0x0f, 0xff, 0xff, 0xff, 0xff, 0xff, 0xff] ∧
    REAL2double (double2REAL 0x800fffffffffffff) = .ok 0x800fffffffffffff := by decide +kernel

theorem bits_decompose (b : Nat) (hb : b < 2 ^ 64) :
    b = f64Sign b * signBit + (f64Exp b * 2 ^ 52 + f64Frac b) := by
  unfold f64Sign f64Exp f64Frac signBit; omega

/-- **round trip, special values**: ±0 and ±∞ come back bit for bit; every NaN comes back as a NaN
    (the C code returns the `NAN` macro, so the payload is not preserved). -/
theorem REAL2double_double2REAL_special (b : Nat) (hb : b < 2 ^ 64) :
    ((f64IsZero b ∨ f64IsInf b) → REAL2double (double2REAL b) = .ok b) ∧
    (f64IsNaN b → ∃ r, REAL2double (double2REAL b) = .ok r ∧ f64IsNaN r) := by
  have hdec := bits_decompose b hb
  have hs : f64Sign b = 0 ∨ f64Sign b = 1 := by unfold f64Sign; omega
  unfold double2REAL classify
  obtain ⟨e1, e2, e3⟩ := f64_fields b
  rw [e1, e2, e3]
  unfold f64IsZero f64IsInf f64IsNaN
  constructor
  · rintro (⟨h1, h2⟩ | ⟨h1, h2⟩) <;> rw [h1, h2] at hdec <;> rcases hs with h | h <;>
      rw [h] at hdec <;> simp [h1, h2, h, REAL2double, signBit, posInf] at hdec ⊢ <;> omega
  · rintro ⟨h1, h2⟩
    refine ⟨nanBits, ?_, by decide⟩
    simp [h1, h2, REAL2double]

/-- **asn_REAL2double decodes the DER contents of every finite or infinite double exactly**
    (subnormals included). -/
theorem REAL2double_derReal (b : Nat) (hb : b < 2 ^ 64) (hnan : ¬ f64IsNaN b) :
    REAL2double (derReal b) = .ok b := by
  have hdec := bits_decompose b hb
  have hs : f64Sign b = 0 ∨ f64Sign b = 1 := by unfold f64Sign; omega
  have hF : f64Frac b < 2 ^ 52 := Nat.mod_lt _ (by positivity)
  have hE : f64Exp b < 2048 := Nat.mod_lt _ (by decide)
  unfold f64IsNaN at hnan
  unfold derReal
  by_cases h1 : f64Exp b = 2047
  · have h2 : f64Frac b = 0 := by
      by_contra h; exact hnan ⟨h1, h⟩
    rw [h1, h2] at hdec
    rcases hs with h | h <;> rw [h] at hdec <;> simp [h1, h2, h, REAL2double, signBit, posInf] at hdec ⊢ <;> omega
  rw [if_neg h1]
  by_cases h0 : f64Mant b = 0
  · rw [if_pos h0]
    have : f64Exp b = 0 ∧ f64Frac b = 0 := by
      unfold f64Mant at h0; split at h0 <;> omega
    rw [this.1, this.2] at hdec
    rcases hs with h | h <;> rw [h] at hdec <;> simp [h, REAL2double, signBit] at hdec ⊢ <;> omega
  rw [if_neg h0]
  simp only []
  have hmlt : f64Mant b < 2 ^ 53 := by unfold f64Mant; split <;> omega
  have ht : ctz (f64Mant b) ≤ 52 := by
    have := ctz_lt_of_mod_ne (f64Mant b) 53 (by rw [Nat.mod_eq_of_lt hmlt]; exact h0); omega
  have hp : -1075 ≤ f64Pow b ∧ f64Pow b ≤ 972 := by unfold f64Pow; split <;> omega
  obtain ⟨p1, p2⟩ := ctz_props (f64Mant b) h0
  obtain ⟨d, hd⟩ := Nat.dvd_of_mod_eq_zero p1
  have hpc : (2:Nat) ^ ctz (f64Mant b) > 0 := by positivity
  have hN : f64Mant b / 2 ^ ctz (f64Mant b) = d := by
    have := Nat.mul_div_cancel_left d hpc; rw [← hd] at this; exact this
  have hdle : d ≤ f64Mant b := by rw [← hN]; exact Nat.div_le_self _ _
  have := REAL2double_base2 (f64Sign b) (by omega) (f64Pow b + (ctz (f64Mant b) : Nat)) (by omega) (by omega)
    [] (Or.inl rfl) (f64Mant b / 2 ^ ctz (f64Mant b)) (by rw [hN]; omega)
    (by rw [hN]; intro h; subst h; simp at hd; omega)
  simp only [List.nil_append] at this
  rw [this]
  have hr : roundToDouble (f64Mant b / 2 ^ ctz (f64Mant b)) (f64Pow b + (ctz (f64Mant b) : Nat))
      = f64Exp b * 2 ^ 52 + f64Frac b := by
    rw [← roundToDouble_mul_pow, hN, Nat.mul_comm, ← hd]
    unfold f64Mant f64Pow
    by_cases hz : f64Exp b = 0
    · rw [if_pos hz, if_pos hz, hz]; simp; exact roundToDouble_subnormal _ hF
    · rw [if_neg hz, if_neg hz]; exact roundToDouble_normal _ _ (by omega) (by omega) hF
  rw [hr, if_neg (by unfold posInf; omega)]
  congr 1
  exact hdec.symm

/-- **round trip, every double**: `asn_REAL2double(asn_double2REAL(d)) = d` bit for bit for every
    double that is not a NaN — normal, subnormal, ±0, ±∞ (a NaN comes back as a NaN:
    `REAL2double_double2REAL_special`). -/
theorem REAL2double_double2REAL (b : Nat) (hb : b < 2 ^ 64) (hnan : ¬ f64IsNaN b) :
    REAL2double (double2REAL b) = .ok b := by
  rw [double2REAL_eq_derReal]
  exact REAL2double_derReal b hb hnan

/-- **the Spec is canonical** (sanity of `derReal`, X.690 §11.3.1): for every finite non-zero double
    the mantissa `n` is odd, `n · 2^e` is exactly the value of the double, the exponent octets are the
    minimal two's-complement form of `e`, and the mantissa octets are the minimal base-256 form of `n`. -/
theorem derReal_canonical (b : Nat) (hf : f64Exp b ≠ 2047) (h0 : f64Mant b ≠ 0) :
    let t := ctz (f64Mant b)
    let n := f64Mant b / 2 ^ t
    let e : Int := f64Pow b + (t : Nat)
    derReal b = (0x80 + 0x40 * f64Sign b + ((realExpOctets e).length - 1)) :: (realExpOctets e ++ toBE n) ∧
    n % 2 = 1 ∧ n * 2 ^ t = f64Mant b ∧
    MinimalTwos (realExpOctets e) ∧ twosVal (realExpOctets e) = e ∧
    ofBE 0 (toBE n) = n ∧ (∀ x l, toBE n = x :: l → x ≠ 0) := by
  intro t n e
  have hF : f64Frac b < 2 ^ 52 := Nat.mod_lt _ (by positivity)
  have hE : f64Exp b < 2048 := Nat.mod_lt _ (by decide)
  have hmlt : f64Mant b < 2 ^ 53 := by unfold f64Mant; split <;> omega
  have ht : t ≤ 52 := by
    have := ctz_lt_of_mod_ne (f64Mant b) 53 (by rw [Nat.mod_eq_of_lt hmlt]; exact h0); omega
  have hp : -1075 ≤ f64Pow b ∧ f64Pow b ≤ 972 := by unfold f64Pow; split <;> omega
  obtain ⟨p1, p2⟩ := ctz_props (f64Mant b) h0
  refine ⟨?_, p2, ?_, ?_, ?_, ofBE_toBE n, toBE_head_ne_zero n⟩
  · unfold derReal; rw [if_neg hf, if_neg h0]
  · exact Nat.div_mul_cancel (Nat.dvd_of_mod_eq_zero p1)
  · have h1 : -1075 ≤ e := by omega
    have h2 : e ≤ 1024 := by omega
    clear_value e
    unfold realExpOctets twosOctets
    by_cases c1 : -128 ≤ e ∧ e < 128
    · rw [if_pos c1]; simp [toBEn, MinimalTwos]
    · have h12 : -32768 ≤ e ∧ e < 32768 := by omega
      rw [if_neg c1, if_pos h12]
      simp only [toBEn]
      norm_num
      unfold MinimalTwos
      split
      · rename_i heq; simp at heq; obtain ⟨q1, q2, _⟩ := heq; omega
      · rename_i heq; simp at heq; obtain ⟨q1, q2, _⟩ := heq; omega
      · trivial
  · have h1 : -1075 ≤ e := by omega
    have h2 : e ≤ 1024 := by omega
    clear_value e
    unfold realExpOctets twosOctets
    by_cases c1 : -128 ≤ e ∧ e < 128
    · rw [if_pos c1]; simp only [toBEn, twosVal, ofBE]; norm_num; split <;> omega
    · have h12 : -32768 ≤ e ∧ e < 32768 := by omega
      rw [if_neg c1, if_pos h12]; simp only [toBEn, twosVal, ofBE]; norm_num; split <;> omega

/-- **asn_REAL2double, reserved forms** (X.690 §8.5.6/§8.5.7.2): first octets 00, 04..3F (reserved
    decimal forms), 44..7F (reserved special values) and binary encodings with base bits 11 are
    rejected with EINVAL, whatever follows. -/
theorem REAL2double_reserved_einval (o : Nat) (ho : o < 256) (tl : Bytes)
    (h : o = 0 ∨ (4 ≤ o ∧ o < 0x40) ∨ (0x44 ≤ o ∧ o < 0x80) ∨ (0x80 ≤ o ∧ o / 16 % 4 = 3)) :
    REAL2double (o :: tl) = .einval := by
  unfold REAL2double
  simp only []
  rcases h with h | h | h | h
  · subst h; simp
  · rw [if_neg (by omega), if_pos (by omega), if_pos (Or.inr (by omega))]
  · rw [if_pos (by omega), if_neg (by omega), if_neg (by omega), if_neg (by omega), if_neg (by omega)]
  · rw [if_neg (by omega), if_neg (by omega), h.2]; rfl

/-- **asn_REAL2double, binary encodings** (X.690 §8.5.7) with base 2, 8 or 16 (`base` = 0, 1, 2),
    scaling factor `F`, sign `s`, the exponent in 1–3 octets (`eo`, any two's-complement octets,
    minimal or not) and a mantissa `N < 2^53` (any octets, leading zeros allowed): the result is
    the correctly rounded (nearest-even) double of `(-1)^s · N · 2^F · B^E`, ERANGE iff that
    rounds to infinity.  (For wider mantissas the C code rounds at every accumulation step.) -/
theorem REAL2double_binary_spec (s base F : Nat) (hs : s ≤ 1) (hb : base ≤ 2) (hF : F ≤ 3)
    (eo : Bytes) (hel : 1 ≤ eo.length ∧ eo.length ≤ 3) (mant : Bytes) (hm : ofBE 0 mant < 2 ^ 53) :
    REAL2double ((128 + 64 * s + 16 * base + 4 * F + (eo.length - 1)) :: (eo ++ mant)) =
      (let r := roundToDouble (ofBE 0 mant)
                  (expValue eo * ((if base = 0 then 1 else if base = 1 then 3 else 4 : Nat) : Int) + (F : Nat))
       if r ≥ posInf then .erange else .ok (s * signBit + r)) := by
  have hmant : mantissaLoop 0 mant = dblOfNat (ofBE 0 mant) := by
    have h0 : (0 : Nat) = dblOfNat 0 := by decide
    conv_lhs => rw [h0]
    exact mantissaLoop_exact _ 0 hm
  have hld := ldexpPos_ofNat (ofBE 0 mant) hm
  generalize ofBE 0 mant = N at *
  obtain ⟨l1, l3⟩ := hel
  generalize hlen : eo.length = len at *
  generalize ho : 128 + 64 * s + 16 * base + 4 * F + (len - 1) = o
  have f1 : o / 64 % 4 ≠ 1 := by omega
  have f2 : o / 64 % 4 ≠ 0 := by omega
  have f3 : o / 16 % 4 = base := by omega
  have f4 : o / 4 % 4 = F := by omega
  have f5 : o % 4 = len - 1 := by omega
  have f6 : o / 64 % 2 = s := by omega
  unfold REAL2double
  simp only [f1, f2, f3, f5, if_false]
  have hb3 : base = 0 ∨ base = 1 ∨ base = 2 := by omega
  match eo, hlen with
  | [a], hlen =>
    simp only [List.length_cons, List.length_nil] at hlen
    subst hlen
    rcases hb3 with rfl | rfl | rfl <;>
      simp [REAL2doubleBin, f4, f6, hmant, hld]
  | [a, a'], hlen =>
    simp only [List.length_cons, List.length_nil] at hlen
    subst hlen
    rcases hb3 with rfl | rfl | rfl <;>
      simp [REAL2doubleBin, f4, f6, hmant, hld]
  | [a, a', a''], hlen =>
    simp only [List.length_cons, List.length_nil] at hlen
    subst hlen
    rcases hb3 with rfl | rfl | rfl <;>
      simp [REAL2doubleBin, f4, f6, hmant, hld]
  | [], hlen => simp at hlen; omega
  | _ :: _ :: _ :: _ :: _, hlen => simp at hlen; omega
/-- instance: base 16, F = 2, negative, E = −1, N = 3: −(3·2²·16⁻¹) = −0.75 -/
example : REAL2double [0xE8, 0xff, 0x03] = .ok 0xBFE8000000000000 := by decide +kernel

end Real

end Asn1c.Props.C16
