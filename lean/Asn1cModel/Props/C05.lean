import Asn1cModel.Impl.Restart
import Asn1cModel.Props.C01
/-
  C05 — chunked (restartable) decoding gives the same result as one-shot decoding.
-/
namespace Asn1c.Props.C05
open Asn1c Asn1c.Impl.Restart

/-- **chunked = one-shot.**  For every lawful restartable decoder, every state, every pending
    tail and every chunking: feeding the chunks by the manual's protocol ends with the same
    state (hence decoded value), return code and total consumed count as presenting the
    concatenation at once — provided the one-shot run reaches a final verdict or the chunks run out. -/
theorem chunked_eq_oneshot {σ : Type} (d : Dec σ) (h : Lawful d) :
    ∀ (cs : List Bytes) (s : σ) (pend : Bytes) (tot : Nat),
      feed d s pend tot cs =
        (match cs with
         | [] => (s, .more, tot)
         | _ => let r := d.step s (pend ++ cs.flatten); (r.1, r.2.1, tot + r.2.2)) := by
  intro cs
  induction cs with
  | nil => intro s pend tot; rfl
  | cons c cs ih =>
    intro s pend tot
    simp only [feed, List.flatten_cons]
    match hstep : d.step s (pend ++ c) with
    | (s', .more, k) =>
      simp only
      rw [ih]
      cases cs with
      | nil =>
        simp only [List.flatten_nil, List.append_nil]
        rw [hstep]
      | cons c2 cs2 =>
        obtain ⟨hr, hk⟩ := h.resume s (pend ++ c) s' k hstep (c2 :: cs2).flatten
        simp only [List.append_assoc] at hr hk ⊢
        rw [hr]
        simp only
        congr 2
        omega
    | (s', .ok, k) =>
      have := h.ok_stable s (pend ++ c) s' k hstep cs.flatten
      simp only [List.append_assoc] at this
      simp [this]
    | (s', .fail, k) =>
      have := h.fail_stable s (pend ++ c) s' k hstep cs.flatten
      simp only [List.append_assoc] at this
      simp [this]

end Asn1c.Props.C05

namespace Asn1c.Props.C05
open Asn1c Asn1c.Impl.Restart Asn1c.L2

/-- the stateless-restart decoder built on the generic BER TLV parser (consumes nothing on WMORE,
    as `ber_decode_primitive` does) -/
def tlvDec (fuel : Nat) : Dec (Option Tlv) where
  step s bs :=
    match parseTlv fuel bs with
    | .ok x rest => (some x, .ok, bs.length - rest.length)
    | .more => (s, .more, 0)
    | .fail => (s, .fail, 0)

/-- non-vacuity: the TLV decoder is lawful, so `chunked_eq_oneshot` applies to it -/
theorem tlvDec_lawful (fuel : Nat) : Lawful (tlvDec fuel) := by
  refine ⟨?_, ?_, ?_, ?_⟩
  · intro s p s' rc k h
    simp only [tlvDec] at h
    split at h <;> simp only [Prod.mk.injEq] at h <;> omega
  · intro s p s1 k h ext
    simp only [tlvDec] at h ⊢
    split at h <;> simp only [Prod.mk.injEq, reduceCtorEq, false_and, and_false] at h
    obtain ⟨rfl, -, rfl⟩ := h
    simp
  · intro s p s1 k h ext
    simp only [tlvDec] at h ⊢
    split at h <;> simp only [Prod.mk.injEq, reduceCtorEq, false_and, and_false] at h
    rename_i x r hp
    obtain ⟨rfl, -, rfl⟩ := h
    rw [(Asn1c.Proofs.L2Tlv.parseTlv_append fuel p ext).1 x r hp]
    simp only [List.length_append]
    congr 2
    omega
  · intro s p s1 k h ext
    simp only [tlvDec] at h ⊢
    split at h <;> simp only [Prod.mk.injEq, reduceCtorEq, false_and, and_false] at h
    rename_i hp
    obtain ⟨rfl, -, rfl⟩ := h
    rw [(Asn1c.Proofs.L2Tlv.parseTlv_append fuel p ext).2 hp]

/-- chunked TLV decoding equals one-shot decoding, for every chunking -/
theorem tlv_chunked_eq_oneshot (fuel : Nat) (c : Bytes) (cs : List Bytes) (s : Option Tlv) :
    feed (tlvDec fuel) s [] 0 (c :: cs) =
      (let r := (tlvDec fuel).step s (c :: cs).flatten; (r.1, r.2.1, r.2.2)) := by
  have := chunked_eq_oneshot (tlvDec fuel) (tlvDec_lawful fuel) (c :: cs) s [] 0
  simpa using this

/-- every proper prefix of a well-formed TLV encoding is answered with WMORE and consumes nothing -/
theorem tlv_prefix_wmore (x : Tlv) (hx : x.Wf) (p : Bytes) (hp : p <+: x.enc) (hne : p ≠ x.enc)
    (fuel : Nat) (hf : x.size ≤ fuel) (s : Option Tlv) :
    (tlvDec fuel).step s p = (s, .more, 0) := by
  simp only [tlvDec, Asn1c.Props.C01.parseTlv_prefix_more x hx p hp hne fuel hf]

end Asn1c.Props.C05
