import Asn1cModel.Proofs.L2Oer
import Asn1cModel.Props.L1Per
import Asn1cModel.Proofs.Native
/-
  C02 (OER leg) — the reference canonical-OER codec `L2.Oer.encOER` / `decOER` (written from ITU-T X.696,
  compared byte for byte with the C encoder by `vlib/props/c02_oer.py`) is not an arbitrary oracle:

  * `oer_roundtrip`: its decoder inverts its encoder on every well-formed type and canonical value,
    whatever follows the encoding; hence `encOER_injective` and `encOER_prefix_free` (a value is
    determined by its encoding, no encoding is a proper prefix of another one of the same type).
  * shape theorems tie the building blocks to the text of X.696: §8.6 length determinant
    (= the L1 model of `oer_serialize_length`), §10 INTEGER (the four shapes, stated with the same
    `Spec.Oer.Is…` relations that the L1 theorems prove for `INTEGER_encode_oer`; the fixed-size
    relations determine the octets uniquely), §11 ENUMERATED, §8.7 tags, §16.2 preamble size,
    §16.4 presence bitmap, §17.2 quantity.
-/
namespace Asn1c.Props.C02Oer
open Asn1c Asn1c.Impl.BerTlv Asn1c.L2 Asn1c.L2.Oer Asn1c.Spec
open Asn1c.Proofs.L2Oer Asn1c.Proofs.L2Der Asn1c.Proofs.L2Tlv Asn1c.Proofs.Integer

/-! ## round trip (C01 for the OER model; makes the C02 oracle injective) -/

/-- **OER round trip**: for every well-formed OER view `t` and canonical value `v` that `t` can encode,
    decoding the encoding followed by arbitrary octets returns `v` and exactly those octets. -/
theorem oer_roundtrip (t : OTy) (hw : OTyWf t) (v : Val) (hc : OCanon t v) (out rest : Bytes)
    (h : encOER t v = some out) : decOER t (out ++ rest) = .ok v rest :=
  rt_all t hw v out rest hc h

/-- the hypotheses are satisfiable: an extensible SEQUENCE with OPTIONAL and DEFAULT components and an
    extension addition that is an extensible CHOICE (preamble 1001 0000: extension bit, absent, default, present) -/
example :
    let t : OTy := .seq [.integer (.fixedU 1), .boolean, .integer .varS, .octets none]
                     [⟨false, none, false⟩, ⟨true, none, false⟩, ⟨true, some (.int 5), false⟩, ⟨true, none, false⟩]
                     true [.choice [⟨2, 0⟩, ⟨2, 200⟩] [.null, .seqOf (.integer .varS)] 1] [⟨true, none, true⟩]
    let v : Val := .seq [.int 7, .absent, .absent, .octets [1, 2], .choice 1 (.list [.int (-129)])]
    OTyWf t ∧ OCanon t v ∧
      encOER t v = some [0x90, 7, 2, 1, 2, 2, 7, 0x80, 9, 0xbf, 0x81, 0x48, 5, 1, 1, 2, 0xff, 0x7f] := by
  decide +kernel

/-- a canonical value is determined by its encoding -/
theorem encOER_injective (t : OTy) (hw : OTyWf t) (v₁ v₂ : Val) (h₁ : OCanon t v₁) (h₂ : OCanon t v₂) (out : Bytes)
    (e₁ : encOER t v₁ = some out) (e₂ : encOER t v₂ = some out) : v₁ = v₂ := by
  have a := oer_roundtrip t hw v₁ h₁ out [] e₁
  have b := oer_roundtrip t hw v₂ h₂ out [] e₂
  rw [a] at b
  injection b

/-- no encoding of a type is a proper prefix of another encoding of the same type (so concatenated
    encodings — SEQUENCE components, SEQUENCE OF elements — parse uniquely) -/
theorem encOER_prefix_free (t : OTy) (hw : OTyWf t) (v₁ v₂ : Val) (h₁ : OCanon t v₁) (h₂ : OCanon t v₂)
    (o₁ o₂ r : Bytes) (e₁ : encOER t v₁ = some o₁) (e₂ : encOER t v₂ = some o₂) (hp : o₂ = o₁ ++ r) :
    v₁ = v₂ ∧ r = [] := by
  have a := oer_roundtrip t hw v₁ h₁ o₁ r e₁
  have b := oer_roundtrip t hw v₂ h₂ o₂ [] e₂
  rw [List.append_nil, hp, a] at b
  injection b with hv hr
  exact ⟨hv, hr⟩

/-! ## §8.6 length determinant -/

/-- the reference length determinant is what `oer_serialize_length` emits (L1 model, every `size_t`) -/
theorem lenDet_eq_oer_serialize_length (n : Nat) (h : n < 2 ^ 64) :
    lenDet n = Asn1c.Impl.OerSupport.serializeLength n :=
  (Asn1c.Props.L1Per.oer_serialize_length_eq_spec n h).symm

/-- short form below 128, otherwise `0x80 | k` and the `k` octets of the minimal big-endian number -/
theorem lenDet_shape (n : Nat) :
    (n ≤ 127 → lenDet n = [n]) ∧
    (127 < n → ∃ body, lenDet n = (128 + body.length) :: body ∧ Bytes.wf body ∧ ofBE 0 body = n ∧ body.head? ≠ some 0 ∧ body ≠ []) := by
  constructor
  · intro h; simp [lenDet, Asn1c.Spec.Oer.length, h]
  · intro h
    refine ⟨toBE n, by simp [lenDet, Asn1c.Spec.Oer.length]; omega, toBE_wf n, ofBE_toBE n, ?_, toBE_ne_nil n (by omega)⟩
    cases hq : toBE n with
    | nil => simp
    | cons b bs => simp only [List.head?_cons, ne_eq, Option.some.injEq]; exact toBE_head_ne_zero n b bs hq

theorem decLen_lenDet (n : Nat) (rest : Bytes) : decLen (lenDet n ++ rest) = .ok n rest :=
  Asn1c.Proofs.L2Oer.decLen_lenDet n rest

/-! ## §10 INTEGER -/

/-- §10.2: a fixed-size unsigned INTEGER is exactly `w` octets holding the value as an unsigned number;
    values outside `0 .. 256^w − 1` are not encodable -/
theorem encInt_fixedU (w : Nat) (z : Int) :
    (0 ≤ z ∧ z < 256 ^ w → ∃ out, encInt (.fixedU w) z = some out ∧ Spec.Oer.IsFixedUnsigned w z out) ∧
    (¬ (0 ≤ z ∧ z < 256 ^ w) → encInt (.fixedU w) z = none) := by
  constructor
  · intro hc
    refine ⟨toBEn w z.toNat, by simp [encInt, hc], toBEn_wf _ _, Asn1c.Proofs.BerTlv.toBEn_length _ _, ?_⟩
    simp only [unsVal, ofBE_toBEn]
    have : z.toNat < 256 ^ w := by
      have h2 : (z.toNat : Int) = z := Int.toNat_of_nonneg hc.1
      have : (z.toNat : Int) < ((256 ^ w : Nat) : Int) := by rw [h2]; push_cast; exact hc.2
      exact_mod_cast this
    rw [Nat.mod_eq_of_lt this, Int.toNat_of_nonneg hc.1]
  · intro hc; simp [encInt, hc]

/-- §10.3: a fixed-size signed INTEGER is exactly `w` octets of two's complement -/
theorem encInt_fixedS (w : Nat) (hw : w ≠ 0) (z : Int) :
    (-(256 ^ w / 2 : Int) ≤ z ∧ z < (256 ^ w / 2 : Int) →
      ∃ out, encInt (.fixedS w) z = some out ∧ Spec.Oer.IsFixedSigned w z out) ∧
    (¬ (-(256 ^ w / 2 : Int) ≤ z ∧ z < (256 ^ w / 2 : Int)) → encInt (.fixedS w) z = none) := by
  constructor
  · intro hc
    refine ⟨_, by simp only [encInt]; rw [if_pos hc], toBEn_wf _ _, Asn1c.Proofs.BerTlv.toBEn_length _ _, ?_⟩
    cases w with
    | zero => exact absurd rfl hw
    | succ w => exact twosVal_toBEn w z hc.1 hc.2
  · intro hc; simp only [encInt]; rw [if_neg hc]

/-- §10.4 a: length determinant + the minimal unsigned octets -/
theorem encInt_varU (z : Int) :
    (0 ≤ z → ∃ out, encInt .varU z = some out ∧ Spec.Oer.IsVarUnsigned z out) ∧ (z < 0 → encInt .varU z = none) := by
  constructor
  · intro hz
    refine ⟨_, by simp only [encInt]; rw [if_pos hz], unsOctets z.toNat, unsOctets_wf _, unsOctets_ne_nil _, ?_, ?_, rfl⟩
    · unfold unsOctets
      by_cases h0 : z.toNat = 0
      · simp [h0, Spec.Oer.MinimalUns]
      · simp only [h0, if_false]
        cases hq : toBE z.toNat with
        | nil => simp [Spec.Oer.MinimalUns]
        | cons b bs =>
          have := toBE_head_ne_zero _ b bs hq
          cases b with
          | zero => exact absurd rfl this
          | succ b => simp [Spec.Oer.MinimalUns]
    · rw [unsVal_unsOctets, Int.toNat_of_nonneg hz]
  · intro hz; simp only [encInt]; rw [if_neg (by omega)]

/-- §10.4 b: length determinant + the minimal two's complement octets -/
theorem encInt_varS (z : Int) : ∃ out, encInt .varS z = some out ∧ Spec.Oer.IsVarSigned z out :=
  ⟨_, rfl, intOctets z, intOctets_wf z, intOctets_ne_nil z, intOctets_minimal z, twosVal_intOctets z, rfl⟩

/-- the §10.2 relation determines the octets: whatever satisfies it (the C encoder by
    `L1Per.INTEGER_encode_oer_unsigned`, the reference by `encInt_fixedU`) is the same octet string -/
theorem isFixedUnsigned_unique (w : Nat) (z : Int) (a b : Bytes)
    (ha : Spec.Oer.IsFixedUnsigned w z a) (hb : Spec.Oer.IsFixedUnsigned w z b) : a = b := by
  obtain ⟨wa, la, va⟩ := ha
  obtain ⟨wb, lb, vb⟩ := hb
  apply Asn1c.Proofs.Native.ofBE_inj a b wa wb (by omega)
  have : (unsVal a : Int) = (unsVal b : Int) := by rw [va, vb]
  exact_mod_cast this

/-- X.696 §10.2–10.4: the shape is selected by the effective bounds exactly as the standard's table says -/
theorem intShape_table (lb ub : Option Int) :
    intShape lb ub =
      match lb, ub with
      | some l, some u =>
        if 0 ≤ l then
          (if u ≤ 255 then .fixedU 1 else if u ≤ 65535 then .fixedU 2 else if u ≤ 4294967295 then .fixedU 4
           else if u ≤ 18446744073709551615 then .fixedU 8 else .varU)
        else
          (if -128 ≤ l ∧ u ≤ 127 then .fixedS 1 else if -32768 ≤ l ∧ u ≤ 32767 then .fixedS 2
           else if -2147483648 ≤ l ∧ u ≤ 2147483647 then .fixedS 4
           else if -9223372036854775808 ≤ l ∧ u ≤ 9223372036854775807 then .fixedS 8 else .varS)
      | some l, none => if 0 ≤ l then .varU else .varS
      | none, _ => .varS := by
  cases lb <;> cases ub <;> simp [intShape]

/-- every shape chosen by `intShape` is well-formed (a signed fixed size is 1, 2, 4 or 8) -/
theorem intShape_wf (lb ub : Option Int) : OTyWf (.integer (intShape lb ub)) := by
  simp only [OTyWf, otyWfB, intShape]
  cases lb <;> cases ub <;> simp only [] <;> (repeat' split) <;> rfl

theorem decInt_encInt (sh : IntShape) (hw : OTyWf (.integer sh)) (z : Int) (out rest : Bytes)
    (h : encInt sh z = some out) : decInt sh (out ++ rest) = .ok z rest := by
  apply Asn1c.Proofs.L2Oer.decInt_encInt sh ?_ z out rest h
  intro w e; subst e
  simpa [OTyWf, otyWfB, shapeOk] using hw

/-! ## §11 ENUMERATED -/

/-- §11.2/§11.3: one octet for 0..127; otherwise `0x80 | n` and `n` octets of minimal two's complement -/
theorem encEnum_shape (z : Int) :
    (0 ≤ z ∧ z ≤ 127 → encEnum z = some [z.toNat]) ∧
    (¬ (0 ≤ z ∧ z ≤ 127) → (intOctets z).length ≤ 127 →
      ∃ body, encEnum z = some ((128 + body.length) :: body) ∧ Bytes.wf body ∧ MinimalTwos body ∧ twosVal body = z ∧ body ≠ []) := by
  constructor
  · intro h; simp [encEnum, h]
  · intro h hl
    exact ⟨intOctets z, by simp [encEnum, h, hl], intOctets_wf z, intOctets_minimal z, twosVal_intOctets z, intOctets_ne_nil z⟩

theorem decEnum_encEnum (z : Int) (out rest : Bytes) (h : encEnum z = some out) : decEnum (out ++ rest) = .ok z rest :=
  Asn1c.Proofs.L2Oer.decEnum_encEnum z out rest h

/-! ## §8.7 tags -/

/-- tag numbers below 63 take one octet: class in bits 8–7, number in bits 6–1 -/
theorem tagOctets_short (t : Tag) (h : t.num < 63) : Oer.tagOctets t = [t.cls * 64 + t.num] := by
  simp [Oer.tagOctets, h]

/-- larger tag numbers: `class·64 + 63`, then base-128 digits, bit 8 set in all but the last octet,
    and the first of them is not 0x80 (fewest octets) -/
theorem tagOctets_long (t : Tag) (h : 63 ≤ t.num) :
    ∃ hi, Oer.tagOctets t = (t.cls * 64 + 63) :: (hi ++ [t.num % 128]) ∧ (∀ b ∈ hi, 128 ≤ b ∧ b < 256) ∧ hi.head? ≠ some 128 := by
  refine ⟨b128hi (t.num / 128), by simp [Oer.tagOctets]; omega, ?_, ?_⟩
  · generalize t.num / 128 = m
    induction m using Nat.strong_induction_on with
    | _ m ih =>
      by_cases h0 : m = 0
      · subst h0; simp [b128hi_zero]
      · rw [b128hi_pos m h0]
        intro b hb
        rcases List.mem_append.mp hb with hb | hb
        · exact ih (m / 128) (by omega) b hb
        · simp only [List.mem_singleton] at hb; omega
  · generalize t.num / 128 = m
    induction m using Nat.strong_induction_on with
    | _ m ih =>
      by_cases h0 : m = 0
      · subst h0; simp [b128hi_zero]
      · rw [b128hi_pos m h0]
        by_cases h1 : m / 128 = 0
        · rw [h1, b128hi_zero]; simp; omega
        · have := ih (m / 128) (by omega)
          rw [b128hi_pos _ h1] at this ⊢
          cases hq : b128hi (m / 128 / 128) with
          | nil => rw [hq] at this; simpa using this
          | cons x xs => rw [hq] at this; simpa using this

theorem decTag_tagOctets (t : Tag) (rest : Bytes) : decTag (Oer.tagOctets t ++ rest) = .ok t rest :=
  Asn1c.Proofs.L2Oer.decTag_tagOctets t rest

/-! ## §16 SEQUENCE -/

theorem encRoot_bits_length (ms : List OTy) : ∀ (as : List Attr) (vs : List Val) (bits : Bits) (body : Bytes),
    encRoot ms as vs = some (bits, body) → bits.length = (as.filter (·.optional)).length := by
  induction ms with
  | nil =>
    intro as vs bits body h
    cases as <;> cases vs <;> simp [encRoot] at h
    simp [h.1]
  | cons m ms ih =>
    intro as vs bits body h
    cases as with
    | nil => cases vs <;> simp [encRoot] at h
    | cons a as =>
    cases vs with
    | nil => simp [encRoot] at h
    | cons v vs =>
    simp only [encRoot] at h
    split at h
    · cases h1 : encOER m v with
      | none => simp [h1] at h
      | some x =>
      cases h2 : encRoot ms as vs with
      | none => simp [h1, h2] at h
      | some p =>
      obtain ⟨bits', body'⟩ := p
      simp only [h1, h2, Option.some.injEq, Prod.mk.injEq] at h
      have := ih as vs bits' body' h2
      by_cases ho : a.optional = true
      · simp only [ho, if_true] at h; rw [← h.1]; simp [List.filter, ho, this]
      · simp only [ho, Bool.false_eq_true, if_false] at h; rw [← h.1]; simp [List.filter, ho, this]
    · split at h
      · rename_i ho
        cases h2 : encRoot ms as vs with
        | none => simp [h2] at h
        | some p =>
        obtain ⟨bits', body'⟩ := p
        simp only [h2, Option.some.injEq, Prod.mk.injEq] at h
        have := ih as vs bits' body' h2
        rw [← h.1]; simp [List.filter, ho, this]
      · exact absurd h (by simp)

/-- §16.2: every SEQUENCE encoding starts with the preamble — the extension bit (if the type is
    extensible; set iff an extension addition is encoded) and one presence bit per OPTIONAL/DEFAULT
    root component, zero-padded to ⌈(ext + #optional) / 8⌉ octets (no preamble octet at all when the
    type is not extensible and has no optional root component) -/
theorem seq_preamble (root : List OTy) (rattrs : List Attr) (ext : Bool) (adds : List OTy) (aattrs : List Attr)
    (vs : List Val) (out : Bytes) (h : encOER (.seq root rattrs ext adds aattrs) (.seq vs) = some out) :
    ∃ (rbits abits : Bits) (rbody abody : Bytes),
      encRoot root rattrs (vs.take root.length) = some (rbits, rbody) ∧
      encAdds adds aattrs (vs.drop root.length) = some (abits, abody) ∧
      rbits.length = (rattrs.filter (·.optional)).length ∧
      out = bitsToBytes ((if ext then [abits.any id] else []) ++ rbits) ++ rbody
              ++ (if abits.any id then bitmapField abits ++ abody else []) ∧
      (bitsToBytes ((if ext then [abits.any id] else []) ++ rbits)).length
        = ((if ext then 1 else 0) + (rattrs.filter (·.optional)).length + 7) / 8 := by
  simp only [encOER] at h
  cases h1 : encRoot root rattrs (vs.take root.length) with
  | none => simp [h1] at h
  | some p1 =>
  obtain ⟨rbits, rbody⟩ := p1
  cases h2 : encAdds adds aattrs (vs.drop root.length) with
  | none => simp [h1, h2] at h
  | some p2 =>
  obtain ⟨abits, abody⟩ := p2
  simp only [h1, h2] at h
  split at h
  · exact absurd h (by simp)
  · injection h with h
    have hl := encRoot_bits_length root rattrs _ rbits rbody h1
    refine ⟨rbits, abits, rbody, abody, rfl, rfl, hl, h.symm, ?_⟩
    rw [bitsToBytes_length]
    cases ext <;> simp [hl, Nat.add_comm]

/-- §16.4: the presence bitmap is a length determinant, the count of unused bits (0..7) and the bits
    themselves padded with zero bits; the bits are recovered exactly -/
theorem bitmapField_shape (bits : Bits) :
    bitmapField bits = lenDet (1 + (bits.length + 7) / 8) ++ [padBits bits.length] ++ bitsToBytes bits ∧
    padBits bits.length ≤ 7 ∧ (bitsToBytes bits).length = (bits.length + 7) / 8 ∧
    bytesToBits (bitsToBytes bits) = bits ++ List.replicate (padBits bits.length) false := by
  refine ⟨by simp [bitmapField, bitsToBytes_length], padBits_le _, bitsToBytes_length _, bytesToBits_bitsToBytes _⟩

/-! ## §17.2 quantity, §30 open type -/

/-- the quantity field is the encoding of the count as an INTEGER (0..MAX) (X.696 §17.2 → §10.4 a) -/
theorem quantity_eq_encInt (n : Nat) : encInt .varU (n : Int) = some (quantity n) := by
  simp [encInt, quantity]

theorem decOpen_openType (d : Bytes → PRes Val) (x : Bytes) (v : Val) (rest : Bytes) (hd : d x = .ok v []) :
    decOpen d (openType x ++ rest) = .ok v rest :=
  Asn1c.Proofs.L2Oer.decOpen_openType d x v rest hd

/-! ## worked examples (X.696 text) -/

example : encOER (.integer (.fixedU 2)) (.int 258) = some [1, 2] := by decide +kernel
example : encOER (.integer (.fixedS 1)) (.int (-128)) = some [0x80] := by decide +kernel
example : encOER (.integer .varS) (.int (-129)) = some [2, 0xff, 0x7f] := by decide +kernel
example : encOER (.integer .varU) (.int 255) = some [1, 0xff] := by decide +kernel
example : encOER .enumerated (.int 128) = some [0x82, 0, 0x80] := by decide +kernel
example : encOER .enumerated (.int (-1)) = some [0x81, 0xff] := by decide +kernel
example : encOER (.choice [⟨2, 128⟩] [.null] 1) (.choice 0 .null) = some [0xbf, 0x81, 0x00] := by decide +kernel
example : encOER (.seqOf .boolean) (.list [.bool true, .bool false]) = some [1, 2, 0xff, 0] := by decide +kernel
example : encOER (.setOf (.integer .varS)) (.list [.int 2, .int 1]) = some [1, 2, 1, 1, 1, 2] := by decide +kernel
example : encOER (.bits (some 9)) (.bits [0xff, 0x80] 7) = some [0xff, 0x80] := by decide +kernel
example : encOER (.seq [] [] true [] []) (.seq []) = some [0] := by decide +kernel

/-! ## SET OF: the canonical order (X.696 §19 = X.690 §11.6) makes the encoding independent of the storage order
    (finding F55, repaired: `SET_OF_encode_oer` sorts the element encodings, so C = this reference on SET OF) -/

theorem mapEnc_some_cons (f : Val → Option Bytes) (v : Val) (vs : List Val) (bs : List Bytes)
    (h : mapEnc f (v :: vs) = some bs) : ∃ b bs', f v = some b ∧ mapEnc f vs = some bs' ∧ bs = b :: bs' := by
  simp only [mapEnc] at h
  cases hb : f v with
  | none => simp [hb] at h
  | some b =>
    cases hr : mapEnc f vs with
    | none => simp [hb, hr] at h
    | some bs' =>
      simp only [hb, hr, Option.some.injEq] at h
      exact ⟨b, bs', rfl, rfl, h.symm⟩

theorem mapEnc_perm (f : Val → Option Bytes) {vs₁ vs₂ : List Val} (hp : vs₁.Perm vs₂) :
    ∀ bs₁, mapEnc f vs₁ = some bs₁ → ∃ bs₂, mapEnc f vs₂ = some bs₂ ∧ bs₁.Perm bs₂ := by
  induction hp with
  | nil => intro bs₁ h; exact ⟨bs₁, h, List.Perm.refl _⟩
  | cons v _ ih =>
    intro bs₁ h
    obtain ⟨b, bs', hb, hbs, rfl⟩ := mapEnc_some_cons f v _ bs₁ h
    obtain ⟨bs₂, h2, hperm⟩ := ih bs' hbs
    exact ⟨b :: bs₂, by simp [mapEnc, hb, h2], List.Perm.cons b hperm⟩
  | swap a b l =>
    intro bs₁ h
    obtain ⟨x, bs', hx, hbs, rfl⟩ := mapEnc_some_cons f b _ bs₁ h
    obtain ⟨y, bs'', hy, hbs', rfl⟩ := mapEnc_some_cons f a _ bs' hbs
    exact ⟨y :: x :: bs'', by simp [mapEnc, hx, hy, hbs'], List.Perm.swap y x bs''⟩
  | trans _ _ ih1 ih2 =>
    intro bs₁ h
    obtain ⟨bs₂, h2, hp2⟩ := ih1 bs₁ h
    obtain ⟨bs₃, h3, hp3⟩ := ih2 bs₂ h2
    exact ⟨bs₃, h3, hp2.trans hp3⟩

/-- **canonical OER SET OF**: the encoding does not depend on the order in which the elements are stored -/
theorem encOER_setOf_perm (e : OTy) (vs₁ vs₂ : List Val) (hp : vs₁.Perm vs₂) :
    encOER (.setOf e) (.list vs₁) = encOER (.setOf e) (.list vs₂) := by
  simp only [encOER]
  cases h1 : mapEnc (encOER e) vs₁ with
  | none =>
    cases h2 : mapEnc (encOER e) vs₂ with
    | none => rfl
    | some bs₂ =>
      obtain ⟨bs₁, h1', _⟩ := mapEnc_perm (encOER e) hp.symm bs₂ h2
      rw [h1] at h1'; cases h1'
  | some bs₁ =>
    obtain ⟨bs₂, h2, hperm⟩ := mapEnc_perm (encOER e) hp bs₁ h1
    rw [h2]
    simp only [hp.length_eq]
    rw [sortBy_perm_eq bytesLe bytesLe_total bytesLe_trans bytesLe_antisymm _ _ hperm]

/-- the former witness of finding F55, `T ::= SET OF INTEGER`: {2, 1} and {1, 2} both encode as 01 02 01 01 01 02 -/
theorem ref_F55_witness :
    encOER (.setOf (.integer .varS)) (.list [.int 2, .int 1]) = some [1, 2, 1, 1, 1, 2] ∧
    encOER (.setOf (.integer .varS)) (.list [.int 1, .int 2]) = some [1, 2, 1, 1, 1, 2] := by
  decide +kernel

end Asn1c.Props.C02Oer
