import Asn1cModel.Proofs.OpenType
/-
  C18 — open types governed by an information object set resolve per the object table.
  Property theorems only (helper lemmas: Proofs/OpenType.lean; Impl = Impl/OpenType.lean, the model
  of the emitted selector, of asn1fix_cws.c's table construction and of skeletons/OPEN_TYPE.c +
  per_opentype.c; Spec = Spec/ObjectSet.lean).  The row types' own codecs are parameters.
  Guarded (`_partial`) statements are paired with counter-example theorems (`_cex`) for the regions
  where the code violates the property (findings F101, F103).  F105 (failure path reading the row
  type's specifics) and F22 (pointer members) are repaired: `mismatch_fails_clean`,
  `inner_failure_never_crashes` and the round trips hold for every row type and for OPTIONAL members;
  the former witnesses are `mismatch_witness_fails_clean` and `pointer_member_witness_decodes`.
-/
namespace Asn1c.Props.C18
open Asn1c Asn1c.Impl.OpenType Asn1c.Spec.ObjectSet Asn1c.Proofs.OpenType

variable {ι : Type} [DecidableEq ι]

/-! ## 1. The generated selector is a first-match table lookup -/

/-- **selector_is_lookup**: the emitted `select_<T>_<member>_type` returns the type cell of the
    first row whose identifier cell equals the sibling identifier (`List.find?`), and
    `presence_index` = that row's index + 1 (0 when there is none). -/
theorem selector_is_lookup (tbl : Table ι) (id : ι) :
    (select tbl id).ty = (tbl.find? (fun r => decide (r.id = id))).map (·.ty) ∧
    (select tbl id).presence =
      (match tbl.findIdx? (fun r => decide (r.id = id)) with | some i => i + 1 | none => 0) := by
  refine ⟨selectGo_ty id tbl 0, ?_⟩
  rw [select, selectGo_presence id tbl 0]
  cases tbl.findIdx? (fun r => decide (r.id = id)) <;> simp

/-- the selected row really is a row of the table with that identifier, and no earlier row matches -/
theorem selector_first_match (tbl : Table ι) (id : ι) (p : Nat) (hp : (select tbl id).presence = p)
    (h0 : p ≠ 0) :
    ∃ r, tbl[p - 1]? = some r ∧ r.id = id ∧ (select tbl id).ty = some r.ty ∧
      ∀ j r', j < p - 1 → tbl[j]? = some r' → r'.id ≠ id := by
  obtain ⟨hty, hpr⟩ := selector_is_lookup tbl id
  rw [hp] at hpr
  cases hf : tbl.findIdx? (fun r => decide (r.id = id)) with
  | none => rw [hf] at hpr; exact absurd hpr h0
  | some i =>
    rw [hf] at hpr
    simp only at hpr
    subst hpr
    simp only [Nat.add_sub_cancel]
    rw [List.findIdx?_eq_some_iff_getElem] at hf
    obtain ⟨hi, hm, hlt⟩ := hf
    refine ⟨tbl[i], by simp [hi], by simpa using hm, ?_, ?_⟩
    · rw [hty]
      have : tbl.find? (fun r => decide (r.id = id)) = some tbl[i] := by
        rw [List.find?_eq_some_iff_getElem]
        refine ⟨by simpa using hm, i, hi, rfl, ?_⟩
        intro j hj; simpa using hlt j hj
      simp [this]
    · intro j r' hj hr' he
      have hj' : j < i := by omega
      have hjl : j < tbl.length := by omega
      have := hlt j hj'
      rw [List.getElem?_eq_getElem hjl] at hr'
      simp at hr'; subst hr'
      simp [he] at this

/-- no row ⇔ presence index 0 -/
theorem selector_none_iff (tbl : Table ι) (id : ι) :
    (select tbl id).presence = 0 ↔ ∀ r ∈ tbl, r.id ≠ id := by
  obtain ⟨_, hpr⟩ := selector_is_lookup tbl id
  rw [hpr]
  cases hf : tbl.findIdx? (fun r => decide (r.id = id)) with
  | none =>
    simp only [true_iff]
    rw [List.findIdx?_eq_none_iff] at hf
    intro r hr; simpa using hf r hr
  | some i =>
    simp only [Nat.succ_ne_zero, false_iff]
    rw [List.findIdx?_eq_some_iff_getElem] at hf
    obtain ⟨hi, hm, _⟩ := hf
    intro h
    exact h tbl[i] (List.getElem_mem hi) (by simpa using hm)

omit [DecidableEq ι] in
/-- **unique_ids_at_most_one_row**: with a UNIQUE `&id` at most one row carries a given identifier. -/
theorem unique_ids_at_most_one_row (tbl : Table ι) (hu : UniqueIds tbl) (r₁ r₂ : Row ι)
    (h₁ : r₁ ∈ tbl) (h₂ : r₂ ∈ tbl) (he : r₁.id = r₂.id) : r₁ = r₂ := by
  unfold UniqueIds at hu
  induction tbl with
  | nil => simp at h₁
  | cons r rs ih =>
    simp only [List.map_cons, List.nodup_cons, List.mem_map, not_exists, not_and] at hu
    obtain ⟨hn, hrs⟩ := hu
    simp only [List.mem_cons] at h₁ h₂
    rcases h₁ with rfl | h₁ <;> rcases h₂ with rfl | h₂
    · rfl
    · exact absurd he.symm (hn r₂ h₂)
    · exact absurd he (hn r₁ h₁)
    · exact ih hrs h₁ h₂

/-- selecting the identifier of row `i` yields row `i` when no earlier row shares its identifier -/
theorem select_row (tbl : Table ι) (i : Nat) (r : Row ι) (hi : tbl[i]? = some r)
    (hfirst : ∀ j r', j < i → tbl[j]? = some r' → r'.id ≠ r.id) :
    select tbl r.id = ⟨some r.ty, i + 1⟩ := by
  have hne : (select tbl r.id).presence ≠ 0 := by
    rw [Ne, selector_none_iff]; intro h
    exact h r (List.mem_of_getElem? hi) rfl
  obtain ⟨r', hr', hid, hty, hlt⟩ := selector_first_match tbl r.id _ rfl hne
  generalize hp : (select tbl r.id).presence = p at *
  have hpi : p - 1 = i := by
    rcases Nat.lt_trichotomy (p - 1) i with h | h | h
    · exact absurd hid (hfirst _ _ h hr')
    · exact h
    · exact absurd rfl (hlt _ _ h hi)
  have : r' = r := by rw [hpi, hi] at hr'; exact (Option.some.inj hr').symm
  subst this
  have hp1 : p = i + 1 := by omega
  cases hs : select tbl r'.id with
  | mk ty pr => rw [hs] at hty hp; simp at hty hp; simp [hty, hp, hp1]

omit [DecidableEq ι] in
/-- with UNIQUE identifiers, the first-match condition of `select_row` holds for every row -/
theorem unique_first (tbl : Table ι) (hu : UniqueIds tbl) (i : Nat) (r : Row ι) (hi : tbl[i]? = some r) :
    ∀ j r', j < i → tbl[j]? = some r' → r'.id ≠ r.id := by
  intro j r' hj hr' he
  have := unique_ids_at_most_one_row tbl hu r' r (List.mem_of_getElem? hr') (List.mem_of_getElem? hi) he
  subst this
  unfold UniqueIds at hu
  have hjl : j < tbl.length := by
    rcases List.getElem?_eq_some_iff.1 hr' with ⟨h, _⟩; exact h
  have hil : i < tbl.length := by
    rcases List.getElem?_eq_some_iff.1 hi with ⟨h, _⟩; exact h
  have e1 : (tbl.map (·.id))[j]'(by simpa using hjl) = r'.id := by
    simp [(List.getElem?_eq_some_iff.1 hr').2]
  have e2 : (tbl.map (·.id))[i]'(by simpa using hil) = r'.id := by
    simp [(List.getElem?_eq_some_iff.1 hi).2]
  have := (List.pairwise_iff_getElem.1 hu) j i (by simpa using hjl) (by simpa using hil) hj
  exact this (e1.trans e2.symm)

/-- **selector_iff_paired** (soundness and completeness against the X.682 relation): with UNIQUE
    identifiers the selector returns type `ty` exactly when the set pairs `id` with `ty`. -/
theorem selector_iff_paired (tbl : Table ι) (hu : UniqueIds tbl) (id : ι) (ty : Nat) :
    (select tbl id).ty = some ty ↔ Paired tbl id ty := by
  constructor
  · intro h
    by_cases h0 : (select tbl id).presence = 0
    · rw [selector_none_iff] at h0
      obtain ⟨hty, _⟩ := selector_is_lookup tbl id
      rw [hty] at h
      cases hf : tbl.find? (fun r => decide (r.id = id)) with
      | none => simp [hf] at h
      | some r =>
        have := List.find?_some hf
        exact absurd (by simpa using this) (h0 r (List.mem_of_find?_eq_some hf))
    · obtain ⟨r, hr, hid, hty, _⟩ := selector_first_match tbl id _ rfl h0
      rw [hty] at h
      have hm := List.mem_of_getElem? hr
      unfold Paired
      cases r with
      | mk rid rty => simp at hid h; subst hid; subst h; exact hm
  · intro h
    unfold Paired at h
    obtain ⟨i, hi⟩ := List.getElem?_of_mem h
    have := select_row tbl i ⟨id, ty⟩ hi (unique_first tbl hu i _ hi)
    simp at this
    simp [this]

/-! ## 2. The object table built by the compiler (asn1fix_cws.c) -/

/-- every row of the emitted table is an object written in the set, and no row is repeated -/
theorem buildTable_sound (items : List (SetItem ι)) (r : Row ι) :
    r ∈ (buildTable items).rows → r ∈ allObjects items := by
  intro h
  rcases foldl_processItem_mem_sound items ⟨[], false⟩ r h with h | h
  · simp at h
  · exact h

theorem buildTable_nodup (items : List (SetItem ι)) : (buildTable items).rows.Nodup :=
  foldl_processItem_nodup items ⟨[], false⟩ (by simp)

/-- **buildTable_complete_partial**: when no comma-separated item of the set consists of a single
    object, the table holds exactly the objects of the set (root and additions). -/
theorem buildTable_complete_partial (items : List (SetItem ι)) (hs : NoSingleton items) (r : Row ι) :
    r ∈ (buildTable items).rows ↔ r ∈ allObjects items :=
  ⟨buildTable_sound items r, fun h => foldl_processItem_mem_complete items _ r hs (Or.inr h)⟩

/-- **F101** counter-example: `{ { T0 IDENTIFIED BY 1 } }` yields an empty table, and
    `{ a | b, ..., c }` loses the addition `c`. -/
theorem buildTable_single_object_cex :
    (buildTable [SetItem.union [(⟨1, 0⟩ : Row Int)]]).rows = [] ∧
    (buildTable [SetItem.union [(⟨1, 0⟩ : Row Int), ⟨7, 1⟩], .ext, .union [⟨9, 2⟩]]).rows = [⟨1, 0⟩, ⟨7, 1⟩] ∧
    (⟨9, 2⟩ : Row Int) ∈ allObjects [SetItem.union [(⟨1, 0⟩ : Row Int), ⟨7, 1⟩], .ext, .union [⟨9, 2⟩]] := by
  decide

/-- non-vacuity of `NoSingleton`: the one-row table is reachable (`{ a | a }`) -/
example : (buildTable [SetItem.union [(⟨1, 0⟩ : Row Int), ⟨1, 0⟩]]).rows = [⟨1, 0⟩] := by decide

/-! ## 3. Decoding an open-type member -/

section decode
variable {α β : Type}

/-- **unknown_id_fails**: an identifier without a row makes `OPEN_TYPE_ber_get`/`_uper_get` return
    RC_FAIL before anything is decoded, allocated or touched (also for pointer members). -/
theorem unknown_id_fails (tbl : Table ι) (m : Member) (ber : Bool) (dec : Nat → α → DecRes β) (id : ι)
    (input : α) (h : ∀ r ∈ tbl, r.id ≠ id) : otGet tbl m ber dec id input = .fail := by
  have := (selector_none_iff tbl id).2 h
  simp [otGet, this]

theorem unknown_id_fails_xer (tbl : Table ι) (m : Member) (name : String)
    (dec : Nat → List XTok → DecRes β) (id : ι) (input : List XTok) (h : ∀ r ∈ tbl, r.id ≠ id) :
    xerGet tbl m name dec id input = .fail := by
  have := (selector_none_iff tbl id).2 h
  simp [xerGet, this]

/-- **decoded_type_is_paired_type**: whatever the input, a successful decode stores presence
    index `p` of a row that carries the decoded identifier (the first such row), and the value is
    what *that row's* decoder returned on the member's input. -/
theorem decoded_type_is_paired_type (tbl : Table ι) (m : Member) (ber : Bool) (dec : Nat → α → DecRes β)
    (id : ι) (input : α) (ov : OpenVal β) (c : Nat) (hn : tbl.length ≤ m.nelems)
    (h : otGet tbl m ber dec id input = .ok ov c) :
    ∃ r, tbl[ov.present - 1]? = some r ∧ ov.present ≠ 0 ∧ r.id = id ∧ Paired tbl id r.ty ∧
      dec r.ty input = .ok ov.val c ∧
      ∀ j r', j < ov.present - 1 → tbl[j]? = some r' → r'.id ≠ id := by
  unfold otGet at h
  by_cases h0 : (select tbl id).presence = 0
  · simp [h0] at h
  · simp only [h0, if_false] at h
    obtain ⟨r, hr, hid, hty, hlt⟩ := selector_first_match tbl id _ rfl h0
    rw [hty] at h
    simp only at h
    have hle : (select tbl id).presence ≤ m.nelems := by
      have : (select tbl id).presence - 1 < tbl.length := (List.getElem?_eq_some_iff.1 hr).1
      omega
    cases hd : dec r.ty input with
    | ok v c' =>
      rw [hd] at h
      simp only [finish, hle, if_true] at h
      injection h with h1 h2
      subst h1; subst h2
      refine ⟨r, hr, h0, hid, ?_, by simpa using hd, hlt⟩
      unfold Paired
      have := List.mem_of_getElem? hr
      cases r; simp at hid; subst hid; exact this
    | more => rw [hd] at h; simp [finish] at h
    | fail => rw [hd] at h; simp [finish] at h
    | crash => rw [hd] at h; simp [finish] at h

/-- **mismatch_fails_clean**: the identifier has a row but the member's input is not a valid
    encoding of the paired type (the row decoder fails): RC_FAIL — for every row type (whatever its
    `specifics`) and for inline and pointer (OPTIONAL) members alike. -/
theorem mismatch_fails_clean (tbl : Table ι) (m : Member) (ber : Bool) (dec : Nat → α → DecRes β)
    (id : ι) (input : α) (ty p : Nat) (hs : select tbl id = ⟨some ty, p⟩) (hp0 : p ≠ 0)
    (hd : dec ty input = .fail) :
    otGet tbl m ber dec id input = .fail := by
  simp [otGet, hs, hp0, hd, finish]

/-- a truncated member (the row decoder wants more data) is reported as such, never as a crash -/
theorem starved_inner_wants_more (tbl : Table ι) (m : Member) (ber : Bool) (dec : Nat → α → DecRes β)
    (id : ι) (input : α) (ty p : Nat) (hs : select tbl id = ⟨some ty, p⟩) (hp0 : p ≠ 0)
    (hd : dec ty input = .more) :
    otGet tbl m ber dec id input = .more := by
  simp [otGet, hs, hp0, hd, finish]

/-- **inner_failure_never_crashes**: `OPEN_TYPE_ber_get`/`_uper_get` add no crash of their own: for
    a table as emitted (every row has a type cell) and row decoders that do not crash on the
    member's input, the outcome is RC_OK, RC_WMORE or RC_FAIL — for every identifier, every input,
    every row type and every kind of member. -/
theorem inner_failure_never_crashes (tbl : Table ι) (m : Member) (ber : Bool) (dec : Nat → α → DecRes β)
    (id : ι) (input : α) (hdec : ∀ ty, dec ty input ≠ .crash) :
    otGet tbl m ber dec id input ≠ .crash := by
  unfold otGet
  by_cases h0 : (select tbl id).presence = 0
  · simp [h0]
  · obtain ⟨r, _, _, hty, _⟩ := selector_first_match tbl id _ rfl h0
    simp only [h0, if_false, hty]
    have := hdec r.ty
    cases hd : dec r.ty input with
    | ok v c =>
      simp only [finish]
      by_cases hle : (select tbl id).presence ≤ m.nelems
      · simp [hle]
      · cases ber <;> simp [hle]
    | more => simp [finish]
    | fail => simp [finish]
    | crash => exact absurd hd this

/-- **failed_get_releases_member**: whenever the getter does not return RC_OK, the member is left
    empty — a pointer (OPTIONAL) member freed and reset to NULL, an inline member zeroed (presence
    index 0): nothing of the partially decoded variant stays behind for the caller's
    `ASN_STRUCT_FREE` to leak or to free a second time. -/
theorem failed_get_releases_member (tbl : Table ι) (m : Member) (ber : Bool) (dec : Nat → α → DecRes β)
    (id : ι) (input : α) (h : ∀ ov c, otGet tbl m ber dec id input ≠ .ok ov c) :
    slotAfter m (otGet tbl m ber dec id input) = if m.pointer then none else some 0 := by
  cases hr : otGet tbl m ber dec id input with
  | ok ov c => exact absurd hr (h ov c)
  | more => rfl
  | fail => rfl
  | crash => rfl

/-- … and after RC_OK it holds the presence index of the row paired with the identifier -/
theorem ok_get_holds_paired_row (tbl : Table ι) (m : Member) (ber : Bool) (dec : Nat → α → DecRes β)
    (id : ι) (input : α) (ov : OpenVal β) (c : Nat) (hn : tbl.length ≤ m.nelems)
    (h : otGet tbl m ber dec id input = .ok ov c) :
    ∃ p r, slotAfter m (otGet tbl m ber dec id input) = some p ∧ tbl[p - 1]? = some r ∧ p ≠ 0 ∧
      Paired tbl id r.ty := by
  obtain ⟨r, hr, h0, _, hp, _, _⟩ := decoded_type_is_paired_type tbl m ber dec id input ov c hn h
  exact ⟨ov.present, r, by rw [h]; rfl, hr, h0, hp⟩

/-- XER variant of `decoded_type_is_paired_type` (`OPEN_TYPE_xer_get`): a successful decode stores
    the first row carrying the decoded identifier, and the value is what that row's decoder
    returned on the tokens following the member's opening tag. -/
theorem decoded_type_is_paired_type_xer (tbl : Table ι) (m : Member) (name : String)
    (dec : Nat → List XTok → DecRes β) (id : ι) (input : List XTok) (ov : OpenVal β) (c : Nat)
    (hn : tbl.length ≤ m.nelems) (h : xerGet tbl m name dec id input = .ok ov c) :
    ∃ r, tbl[ov.present - 1]? = some r ∧ ov.present ≠ 0 ∧ r.id = id ∧ Paired tbl id r.ty ∧
      ∃ toks c', dec r.ty toks = .ok ov.val c' := by
  unfold xerGet at h
  by_cases h0 : (select tbl id).presence = 0
  · simp [h0] at h
  · simp only [h0, if_false] at h
    obtain ⟨r, hr, hid, hty, _⟩ := selector_first_match tbl id _ rfl h0
    rw [hty] at h
    simp only at h
    have hle : (select tbl id).presence ≤ m.nelems := by
      have : (select tbl id).presence - 1 < tbl.length := (List.getElem?_eq_some_iff.1 hr).1
      omega
    have hpaired : Paired tbl id r.ty := by
      unfold Paired
      have := List.mem_of_getElem? hr
      cases r; simp at hid; subst hid; exact this
    cases hsk : skipText input with
    | none => simp [hsk] at h
    | some toks =>
      rw [hsk] at h
      match toks, h with
      | [], h => simp at h
      | .closing _ :: _, h => simp at h
      | .text :: _, h => simp at h
      | .body _ :: _, h => simp at h
      | .opening n :: rest, h =>
        by_cases hname : n = name
        · simp only [hname, ne_eq, not_true_eq_false, if_false] at h
          cases hd : dec r.ty rest with
          | ok v c' =>
            rw [hd] at h
            simp only [finish, hle, if_true] at h
            cases hsk2 : skipText (List.drop c' rest) with
            | none => simp [hsk2] at h
            | some toks2 =>
              rw [hsk2] at h
              match toks2, h with
              | [], h => simp at h
              | .opening _ :: _, h => simp at h
              | .text :: _, h => simp at h
              | .body _ :: _, h => simp at h
              | .closing n' :: r', h =>
                by_cases hn' : n' = name
                · simp only [hn', if_true] at h
                  injection h with h1 _
                  subst h1
                  exact ⟨r, hr, h0, hid, hpaired, rest, c', hd⟩
                · simp [hn'] at h
          | more => rw [hd] at h; simp [finish] at h
          | fail => rw [hd] at h; simp [finish] at h
          | crash => rw [hd] at h; simp [finish] at h
        · simp [hname] at h

/-- XER variant of `mismatch_fails_clean` -/
theorem mismatch_fails_clean_xer (tbl : Table ι) (m : Member) (name : String)
    (dec : Nat → List XTok → DecRes β) (id : ι) (rest : List XTok) (ty p : Nat)
    (hs : select tbl id = ⟨some ty, p⟩) (hp0 : p ≠ 0)
    (hd : dec ty rest = .fail) :
    xerGet tbl m name dec id (XTok.opening name :: rest) = .fail := by
  simp [xerGet, hs, hp0, skipText, hd, finish]

/-- the former **F105** witness (identifier 1 ↦ a row type without `specifics`, member bytes that
    are not an encoding of it): RC_FAIL now, like the mismatch on the SEQUENCE row. -/
theorem mismatch_witness_fails_clean :
    otGet (β := Unit) [(⟨1, 0⟩ : Row Int), ⟨7, 1⟩] ⟨2, false⟩ true
      (fun _ (_ : Bytes) => .fail) 1 [0x30, 0x00] = .fail ∧
    otGet (β := Unit) [(⟨1, 0⟩ : Row Int), ⟨7, 1⟩] ⟨2, false⟩ true
      (fun _ (_ : Bytes) => .fail) 7 [0x02, 0x01, 0x05] = .fail := by
  decide

/-- the former **F22** witness: an OPTIONAL (pointer) open-type member holding a valid encoding
    of the paired type decodes (presence index 1, all three octets consumed) … -/
theorem pointer_member_witness_decodes :
    otGet (β := Unit) [(⟨1, 0⟩ : Row Int), ⟨7, 1⟩] ⟨2, true⟩ true
      (fun _ (bs : Bytes) => .ok () bs.length) 1 [0x02, 0x01, 0x05] = .ok ⟨1, ()⟩ 3 := by
  decide

/-- … and in general the outcome of the three getters does not depend on how the member is
    contained (inline or by pointer). -/
theorem pointer_member_same_outcome (tbl : Table ι) (n : Nat) (ber : Bool) (dec : Nat → α → DecRes β)
    (id : ι) (input : α) :
    otGet tbl ⟨n, true⟩ ber dec id input = otGet tbl ⟨n, false⟩ ber dec id input := rfl

theorem pointer_member_same_outcome_xer (tbl : Table ι) (n : Nat) (name : String)
    (dec : Nat → List XTok → DecRes β) (id : ι) (input : List XTok) :
    xerGet tbl ⟨n, true⟩ name dec id input = xerGet tbl ⟨n, false⟩ name dec id input := rfl

end decode

/-! ## 4. Round trips -/

section roundtrip
variable {β : Type}

omit [DecidableEq ι] in
/-- **BER framing**: the open-type member contributes exactly the row type's own encoding (its TLV,
    inside the member's EXPLICIT tag when it has one) — the element is chosen by presence index. -/
theorem ber_open_is_row_tlv (tbl : Table ι) (i : Nat) (r : Row ι) (hi : tbl[i]? = some r)
    {γ : Type} (enc : Nat → β → Option γ) (v : β) :
    otPut (tbl.map (·.ty)) enc ⟨i + 1, v⟩ = enc r.ty v := by
  have hil : i < tbl.length := (List.getElem?_eq_some_iff.1 hi).1
  have : ¬ (tbl.length < i + 1) := by omega
  simp [otPut, this, hi]

/-- **open_type_roundtrip_ber**: for row `i` of the table (no earlier row sharing its identifier —
    automatic with UNIQUE ids, see `unique_first`) and any row codec that round-trips on this
    value, decoding the encoded member under the row's identifier gives back presence index
    `i + 1` and the value, consuming exactly the member's bytes (inline and OPTIONAL members). -/
theorem open_type_roundtrip_ber (tbl : Table ι) (m : Member) (i : Nat) (r : Row ι)
    (hi : tbl[i]? = some r) (hfirst : ∀ j r', j < i → tbl[j]? = some r' → r'.id ≠ r.id)
    (hn : m.nelems = tbl.length)
    (enc : Nat → β → Option Bytes) (dec : Nat → Bytes → DecRes β) (v : β) (bs rest : Bytes)
    (henc : enc r.ty v = some bs) (hdec : dec r.ty (bs ++ rest) = .ok v bs.length) :
    otPut (tbl.map (·.ty)) enc ⟨i + 1, v⟩ = some bs ∧
    berGet tbl m dec r.id (bs ++ rest) = .ok ⟨i + 1, v⟩ bs.length := by
  refine ⟨by rw [ber_open_is_row_tlv tbl i r hi, henc], ?_⟩
  have hs := select_row tbl i r hi hfirst
  have hil : i < tbl.length := (List.getElem?_eq_some_iff.1 hi).1
  have hle : i + 1 ≤ m.nelems := by omega
  simp [berGet, otGet, hs, hdec, finish, hle]

/-- **UPER framing**: below 16384 octets `uper_open_type_put` emits the X.691 §10.2 open type field. -/
theorem uper_open_framing (inner : Bits) (h : (toOctets inner).length / 8 < 16384) :
    openPut inner = openTypeField inner := by
  rw [openPut_short inner h]
  unfold openTypeField toOctets
  rfl

/-- `uper_open_type_get` rejects non-zero padding bits after the row value -/
theorem uper_nonzero_padding_fails (dec : Bits → PerRes β) (input buf rest : Bits) (v : β) (used : Nat)
    (hc : collect (input.length + 1) input [] = some (buf, rest)) (hd : dec buf = .ok v used)
    (hp : (buf.drop used).all (· == false) = false) :
    openGet dec input = .fail := by
  unfold openGet
  rw [hc]
  simp only [hd, hp]
  simp

/-- **open_type_roundtrip_uper**: as for BER, with the row codec working on bits: the row
    decoder, given the octet-aligned stand-alone encoding, must return the value and report the
    bits the row encoder produced.  Restricted to fields below 16384 octets (no fragmentation). -/
theorem open_type_roundtrip_uper (tbl : Table ι) (m : Member) (i : Nat) (r : Row ι)
    (hi : tbl[i]? = some r) (hfirst : ∀ j r', j < i → tbl[j]? = some r' → r'.id ≠ r.id)
    (hn : m.nelems = tbl.length)
    (enc : Nat → β → Option Bits) (dec : Nat → Bits → PerRes β) (v : β) (inner rest : Bits)
    (henc : enc r.ty v = some inner) (hdec : dec r.ty (toOctets inner) = .ok v inner.length)
    (hshort : (toOctets inner).length / 8 < 16384) :
    uperPut (tbl.map (·.ty)) enc ⟨i + 1, v⟩ = some (openTypeField inner) ∧
    uperGet tbl m dec r.id (openTypeField inner ++ rest)
      = .ok ⟨i + 1, (v, rest)⟩ (openTypeField inner).length := by
  rw [← uper_open_framing inner hshort]
  refine ⟨by rw [uperPut, ber_open_is_row_tlv tbl i r hi, henc]; rfl, ?_⟩
  have hs := select_row tbl i r hi hfirst
  have hil : i < tbl.length := (List.getElem?_eq_some_iff.1 hi).1
  have hle : i + 1 ≤ m.nelems := by omega
  simp [uperGet, otGet, hs, openGet_openPut (dec r.ty) inner rest v hdec hshort, finish, hle]

/-- **open_type_roundtrip_xer**: `<member>` row-XER `</member>`, whitespace (text tokens) allowed
    around the row's element. -/
theorem open_type_roundtrip_xer (tbl : Table ι) (m : Member) (name : String) (i : Nat) (r : Row ι)
    (hi : tbl[i]? = some r) (hfirst : ∀ j r', j < i → tbl[j]? = some r' → r'.id ≠ r.id)
    (hn : m.nelems = tbl.length)
    (dec : Nat → List XTok → DecRes β) (v : β) (body rest : List XTok)
    (hdec : dec r.ty (body ++ XTok.text :: XTok.closing name :: rest) = .ok v body.length) :
    xerGet tbl m name dec r.id (XTok.text :: XTok.opening name :: (body ++ XTok.text :: XTok.closing name :: rest))
      = .ok ⟨i + 1, v⟩ (body.length + 4) := by
  have hs := select_row tbl i r hi hfirst
  have hil : i < tbl.length := (List.getElem?_eq_some_iff.1 hi).1
  have hle : i + 1 ≤ m.nelems := by omega
  simp only [xerGet, hs, skipText, hdec, finish, hle]
  simp [skipText]
  omega

end roundtrip

/-! ## 5. The enclosing SEQUENCE: identifier member and open-type member -/

section frame
variable {β : Type}

/-- **frame_roundtrip_ber**: `dec (enc (id, v)) = (id, v)` for the pair of related members when the
    identifier is declared before the open type, for identifier and row codecs that round-trip. -/
theorem frame_roundtrip_ber (tbl : Table ι) (m : Member) (zero : ι) (i : Nat) (r : Row ι)
    (hi : tbl[i]? = some r) (hu : UniqueIds tbl)
    (hn : m.nelems = tbl.length)
    (encId : ι → Option Bytes) (decId : Bytes → DecRes ι)
    (enc : Nat → β → Option Bytes) (dec : Nat → Bytes → DecRes β) (v : β) (ib bs rest : Bytes)
    (hencId : encId r.id = some ib) (hdecId : decId (ib ++ (bs ++ rest)) = .ok r.id ib.length)
    (henc : enc r.ty v = some bs) (hdec : dec r.ty (bs ++ rest) = .ok v bs.length) :
    frameEnc (tbl.map (·.ty)) true encId enc (r.id, ⟨i + 1, v⟩) = some (ib ++ bs) ∧
    frameDec tbl m true zero decId dec (fun inp c => inp.drop c) (ib ++ bs ++ rest)
      = .ok (r.id, ⟨i + 1, v⟩) (ib.length + bs.length) := by
  have hrt := open_type_roundtrip_ber tbl m i r hi (unique_first tbl hu i r hi) hn enc dec v bs rest henc hdec
  constructor
  · simp [frameEnc, hencId, hrt.1]
  · have h2 := hrt.2
    simp only [berGet] at h2
    simp [frameDec, List.append_assoc, hdecId, h2]

/-- **F103** counter-example: identifier declared *after* the open type.  The selector reads the
    not-yet-decoded (zero) identifier: with rows `0 ↦ T0`, `2 ↦ T1` a frame carrying identifier 2
    and a `T1` value whose bytes also parse as `T0` decodes "successfully" as row 1 (`T0`), i.e. the
    decoded type is not the type paired with the decoded identifier; and when no row has
    identifier 0 every frame fails to decode. -/
theorem ident_after_open_cex :
    frameDec (β := Unit) [(⟨0, 0⟩ : Row Int), ⟨2, 1⟩] ⟨2, false⟩ false 0
      (fun bs => match bs with | [0x81, 0x01, x] => .ok (x : Int) 3 | _ => .fail)
      (fun _ bs => if bs.length ≥ 5 then .ok () 5 else .fail) (fun inp c => inp.drop c)
      [0xa0, 0x03, 0x02, 0x01, 0x03, 0x81, 0x01, 0x02] = .ok (2, ⟨1, ()⟩) 8 ∧
    frameDec (β := Unit) [(⟨1, 0⟩ : Row Int), ⟨2, 1⟩] ⟨2, false⟩ false 0
      (fun bs => match bs with | [0x81, 0x01, x] => .ok (x : Int) 3 | _ => .fail)
      (fun _ bs => if bs.length ≥ 5 then .ok () 5 else .fail) (fun inp c => inp.drop c)
      [0xa0, 0x03, 0x02, 0x01, 0x03, 0x81, 0x01, 0x02] = .fail := by
  decide

end frame

/-! ## non-vacuity -/

/-- a concrete instance of the round-trip hypotheses: two rows, the row codec of type 1 is the
    identity on one octet -/
example :
    berGet [(⟨1, 0⟩ : Row Int), ⟨7, 1⟩] ⟨2, false⟩
      (fun _ bs => match bs with | b :: _ => .ok b 1 | [] => .more) 7 ([5] ++ [9, 9])
      = .ok ⟨2, 5⟩ 1 := by decide

example : UniqueIds [(⟨1, 0⟩ : Row Int), ⟨7, 1⟩] := by unfold UniqueIds; decide

end Asn1c.Props.C18
