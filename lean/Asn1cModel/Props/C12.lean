import Asn1cModel.Impl.Print
import Asn1cModel.Impl.Lookup
import Asn1cModel.Proofs.Print
/-
  C12 — "Compiler output is deterministic and invariant under pretty-print round trip".

  The logic part (DESIGN §9 C12): the printer and the parser are inverse on the printed subset, and name
  resolution does not depend on the order of the module list.  Dependence on ASLR, uninitialised memory
  and hash iteration order is runtime behaviour, observed by vlib/props/c12.py (level: partial proof).
-/
namespace Asn1c.Props.C12
open Asn1c.Print Asn1c.Lookup

/-! ## printer / parser -/

/-- **parse_print**: the text printed for a module of the subset is accepted and yields the same tree. -/
theorem parse_print (m : Module) : parse (print m) = some m := Asn1c.Proofs.Print.parse_print m

/-- **print_fixpoint**: printing, parsing and printing again gives the same text (one application) -/
theorem print_fixpoint (m : Module) : (parse (print m)).map print = some (print m) := by
  rw [parse_print]; rfl

/-- … and so does every further application of the print/parse cycle -/
theorem print_fixpoint_twice (m : Module) :
    ((parse (print m)).bind (fun m' => parse (print m'))).map print = some (print m) := by
  simp [parse_print]

/-- **print_injective**: different trees never print to the same text. -/
theorem print_injective (a b : Module) (h : print a = print b) : a = b := by
  have ha := parse_print a
  rw [h, parse_print b] at ha
  exact (Option.some.inj ha).symm

/-- same statement for a single type (any following context that cannot continue a type) -/
theorem parseTy_print (t : Ty) (rest : List Tok) (h : Asn1c.Proofs.Print.okFollow rest) :
    parseTy ((pTy t).length + 1) (pTy t ++ rest) = some (t, rest) :=
  Asn1c.Proofs.Print.parseTy_print t _ rest (Nat.lt_succ_self _) h

/-- non-vacuity: a module using every construct of the subset -/
def sample : Module :=
  { name := "M", tagDefault := some .automatic,
    types := [
      ⟨"T0", none, .integer [("a", 1), ("b", -2)] (some (.value ⟨.range (.int 0) .max, [.single (.int (-5))], true⟩))⟩,
      ⟨"T1", some ⟨.app, 7, .implicit⟩,
        .constr .sequence (.comp "x" (some ⟨.ctx, 0, .explicit⟩) (.prim .boolean none) (.dflt .tru)
          (.ext (.comp "y" none (.listOf true (some ⟨.single (.int 1), [], false⟩) none (.ref "T0")) .optional .nil)))⟩,
      ⟨"T2", none, .enumerated [.item "r" none, .dots, .item "g" (some 5)]⟩,
      ⟨"T3", none, .prim .ia5 (some (.sizeAlpha ⟨.range (.int 1) (.int 4), [], false⟩ ⟨.range (.str "a") (.str "z"), [.single (.str " ")], false⟩))⟩,
      ⟨"T4", none, .constr .choice (.comp "c" none (.prim .null none) .none .nil)⟩] }

example : parse (print sample) = some sample := parse_print sample
example : render (print sample) =
    "M DEFINITIONS AUTOMATIC TAGS ::= BEGIN T0 ::= INTEGER { a ( 1 ) , b ( -2 ) } ( 0 .. MAX | -5 , ... ) T1 ::= [ APPLICATION 7 ] IMPLICIT SEQUENCE { x [ 0 ] EXPLICIT BOOLEAN DEFAULT TRUE , ... , y SET ( SIZE ( 1 ) ) OF T0 OPTIONAL } T2 ::= ENUMERATED { r , ... , g ( 5 ) } T3 ::= IA5String ( SIZE ( 1 .. 4 ) ^ FROM ( \"a\" .. \"z\" | \" \" ) ) T4 ::= CHOICE { c NULL } END" := by
  decide +kernel

/-! ## module lookup does not depend on the order of the module list -/

theorem find_perm_unique {α} (p : α → Bool) (l₁ l₂ : List α) (hp : l₁.Perm l₂)
    (hu : l₁.Pairwise (fun a b => ¬ (p a = true ∧ p b = true))) : l₁.find? p = l₂.find? p := by
  induction hp with
  | nil => rfl
  | cons x _ ih =>
    simp only [List.find?_cons]
    cases p x with
    | true => rfl
    | false => exact ih (List.Pairwise.of_cons hu)
  | swap x y l =>
    simp only [List.find?_cons]
    have hxy : ¬ (p y = true ∧ p x = true) := List.rel_of_pairwise_cons hu (a' := x) (by simp)
    cases hx : p x <;> cases hy : p y <;> simp_all
  | trans h₁ _ ih₁ ih₂ =>
    rw [ih₁ hu]
    exact ih₂ (h₁.pairwise hu (fun hab hba => hab ⟨hba.2, hba.1⟩))

theorem lookupModule_perm (ms₁ ms₂ : List LModule) (hp : ms₁.Perm ms₂)
    (hd : (ms₁.map (·.name)).Nodup) (n : String) : lookupModule ms₁ n = lookupModule ms₂ n := by
  unfold lookupModule
  apply find_perm_unique _ _ _ hp
  have : ms₁.Pairwise (fun a b => a.name ≠ b.name) := by
    have := List.pairwise_map.mp hd
    exact this
  exact this.imp (fun hne ⟨ha, hb⟩ => hne (by rw [beq_iff_eq.mp ha, beq_iff_eq.mp hb]))

/-- **lookup_perm_invariant**: for a permutation of a module list with pairwise distinct module names
    (the order in which the module files are named on the command line), every reference of every
    module resolves to the same definition. -/
theorem lookup_perm_invariant (ms₁ ms₂ : List LModule) (hp : ms₁.Perm ms₂)
    (hd : (ms₁.map (·.name)).Nodup) (cur : LModule) (r : Ref) :
    lookupSymbol ms₁ cur r = lookupSymbol ms₂ cur r := by
  have h : lookupModule ms₁ = lookupModule ms₂ := funext (lookupModule_perm ms₁ ms₂ hp hd)
  unfold lookupSymbol
  rw [h]

/-- hence the resolution table of a whole module is order independent -/
theorem per_module_resolution_perm_invariant (ms₁ ms₂ : List LModule) (hp : ms₁.Perm ms₂)
    (hd : (ms₁.map (·.name)).Nodup) (refs : LModule → List Ref) (cur : LModule) :
    resolveAll ms₁ refs cur = resolveAll ms₂ refs cur := by
  unfold resolveAll
  apply List.map_congr_left
  intro r _
  exact lookup_perm_invariant ms₁ ms₂ hp hd cur r

/-- the hypothesis matters: with two modules of the same name the first one in list order wins -/
theorem lookup_order_dependent_when_names_clash :
    let a : LModule := ⟨"M", ["T"], []⟩
    let b : LModule := ⟨"M", ["U"], []⟩
    lookupSymbol [a, b] a ⟨some "M", "U"⟩ ≠ lookupSymbol [b, a] a ⟨some "M", "U"⟩ := by decide

end Asn1c.Props.C12
