import Asn1cModel.Proofs.Native
import Asn1cModel.Proofs.NativeSemi
/-
  C13 — code-generation options never change the wire format.
  Property theorems only (helper lemmas: Proofs/Native.lean, Proofs/Integer.lean, Props/C16.lean).

  The only codec code paths that depend on a *representation* option are
  (a) -fwide-types: `long`/`unsigned long` + NativeInteger/NativeEnumerated codecs versus
      `INTEGER_t`/`ENUMERATED_t` + INTEGER/ENUMERATED codecs (Impl/Native.lean, tied to the C code by
      the `c13_driver` correspondence), REAL likewise (not modelled here: observed by the P leg);
  (b) -findirect-choice: the ATF_POINTER flag of CHOICE members (`Slot`);
  (c) -fcompound-names / -fincludes-quoted / -fno-include-deps: C identifiers and #include lines,
      which no codec reads.
  The statements below say: for every value the native representation can hold, (a) gives the
  same octets/bits and the same decoded abstract value, (b) and (c) are invisible to a codec.
  What the *compiler* emits under each option (tags, constraint tables, member order, `optional`
  counts, tag2el) is not modelled: the P leg compares the descriptor dumps of real builds.
-/
namespace Asn1c.Props.C13
open Asn1c Asn1c.Impl.Integer Asn1c.Impl.BerTlv Asn1c.Impl.Native Asn1c.Spec
open Asn1c.Proofs.Integer Asn1c.Proofs.Native Asn1c.Proofs.NativeSemi

/-! ### DER / BER: INTEGER and ENUMERATED (`asn_OP_NativeEnumerated` and `asn_OP_ENUMERATED` use the
    same `NativeInteger_encode_der` / `INTEGER_encode_der` / decoders) -/

/-- **-fwide-types does not change DER**: for every `long` value `v`, the DER encoding produced by
    `NativeInteger_encode_der` from the native cell equals the one `INTEGER_encode_der` produces from
    *any* `INTEGER_t` (minimal or padded, any length) denoting `v`. -/
theorem native_der_eq_wide (t : Tag) (v : Int) (hv : fitsS64 v) (bs : Bytes) (hw : Bytes.wf bs)
    (hne : bs ≠ []) (hbs : twosVal bs = v) :
    NativeInteger_encode_der false t (wordOfLong v) = INTEGER_encode_der t bs := by
  unfold NativeInteger_encode_der INTEGER_encode_der INTEGER_der_content
  rw [nativeFakeINTEGER_signed, nativeOctets_wordOfLong, strip_eq_imax2INTEGER bs hw hne v hbs hv]
  rfl

/-- the contents octets the native encoder emits are the X.690 §8.3 canonical form of `v` -/
theorem native_der_content_canonical (v : Int) (hv : fitsS64 v) :
    NativeInteger_der_content false (wordOfLong v) ≠ [] ∧ Bytes.wf (NativeInteger_der_content false (wordOfLong v)) ∧
    MinimalTwos (NativeInteger_der_content false (wordOfLong v)) ∧
    twosVal (NativeInteger_der_content false (wordOfLong v)) = v := by
  unfold NativeInteger_der_content INTEGER_der_content
  rw [nativeFakeINTEGER_signed, nativeOctets_wordOfLong]
  exact Asn1c.Props.C16.imax2INTEGER_spec v hv

/-- **unsigned native** (`field_unsigned`, e.g. `INTEGER (0..MAX)`): same DER as the wide type for *every*
    `unsigned long` value `u < 2^64` and any `INTEGER_t` denoting `u` (finding F20 repaired: the former
    `native_der_unsigned_eq_wide_partial` needed `u < 2^63`). -/
theorem native_der_unsigned_eq_wide (t : Tag) (u : Nat) (hu : u < 2 ^ 64) (bs : Bytes)
    (hw : Bytes.wf bs) (hne : bs ≠ []) (hbs : twosVal bs = u) :
    NativeInteger_encode_der true t u = INTEGER_encode_der t bs := by
  obtain ⟨n1, n2, n3⟩ := nativeFakeINTEGER_unsigned_spec u hu
  unfold NativeInteger_encode_der INTEGER_encode_der INTEGER_der_content
  rw [strip_eq_of_val _ bs n2 hw n1 hne (by rw [n3, hbs])]

/-- … and its contents octets are the X.690 §8.3 canonical form of `u`, over the whole unsigned range -/
theorem native_der_unsigned_content_canonical (u : Nat) (hu : u < 2 ^ 64) :
    NativeInteger_der_content true u ≠ [] ∧ Bytes.wf (NativeInteger_der_content true u) ∧
    MinimalTwos (NativeInteger_der_content true u) ∧ twosVal (NativeInteger_der_content true u) = u := by
  obtain ⟨n1, n2, n3⟩ := nativeFakeINTEGER_unsigned_spec u hu
  unfold NativeInteger_der_content INTEGER_der_content
  exact ⟨strip_ne_nil _ n1, strip_wf _ n2, strip_minimal _, by rw [strip_val _ n2, n3]⟩

/-- the former F20 witness: the `unsigned long` 2^63 is now DER-encoded by the native type as
    `00 80 00 00 00 00 00 00 00` (= 2^63), exactly what the wide type holding 2^63 emits;
    2^64 − 1 likewise (`00 FF FF FF FF FF FF FF FF`). -/
theorem native_der_unsigned_witness :
    NativeInteger_der_content true (2 ^ 63) = [0, 0x80, 0, 0, 0, 0, 0, 0, 0] ∧
    twosVal (NativeInteger_der_content true (2 ^ 63)) = 2 ^ 63 ∧
    INTEGER_der_content [0, 0x80, 0, 0, 0, 0, 0, 0, 0] = NativeInteger_der_content true (2 ^ 63) ∧
    NativeInteger_der_content true (2 ^ 64 - 1) = [0, 255, 255, 255, 255, 255, 255, 255, 255] := by decide

/-- **decoding the same contents octets gives the same abstract value** when the native type can
    hold it: the native BER decoder succeeds and its cell denotes the value of the octets the wide
    decoder keeps verbatim (any contents octets, minimal or not, any length). -/
theorem native_decode_eq_wide (c : Bytes) (hw : Bytes.wf c) (hf : fitsS64 (twosVal c)) :
    ∃ w, NativeInteger_decode_ber_content false c = .ok w ∧
      nativeValue false w = twosVal (INTEGER_decode_ber_content c) := by
  refine ⟨wordOfLong (twosVal c), ?_, ?_⟩
  · unfold NativeInteger_decode_ber_content
    rw [INTEGER2long_spec c hw, if_pos hf]; rfl
  · unfold nativeValue INTEGER_decode_ber_content
    simp only [Bool.false_eq_true, if_false]
    exact toSigned64_wordOfLong _ hf

/-- … and when it cannot, the native decoder fails (RC_FAIL) instead of storing a wrong value. -/
theorem native_decode_out_of_range_fails (c : Bytes) (hw : Bytes.wf c) (hf : ¬ fitsS64 (twosVal c)) :
    NativeInteger_decode_ber_content false c = .erange := by
  unfold NativeInteger_decode_ber_content
  rw [INTEGER2long_spec c hw, if_neg hf]; rfl

/-- unsigned native decoder: exact for all contents denoting 0 ≤ v < 2^64 (any length, minimal or not) -/
theorem native_decode_unsigned_eq_wide (c : Bytes) (hw : Bytes.wf c) (hf : fitsU64 (twosVal c)) :
    ∃ w, NativeInteger_decode_ber_content true c = .ok w ∧
      nativeValue true w = twosVal (INTEGER_decode_ber_content c) := by
  refine ⟨(twosVal c).toNat, ?_, ?_⟩
  · unfold NativeInteger_decode_ber_content
    simp only [if_true]
    exact INTEGER2ulong_fits c hw hf
  · unfold nativeValue INTEGER_decode_ber_content
    unfold fitsU64 at hf
    simp only [if_true]; omega

/-- … and every other contents, in particular every *negative* INTEGER, makes it fail (RC_FAIL)
    instead of storing a wrapped value (finding F3 repaired on this path: the former
    `native_decode_unsigned_negative_cex` had `FF` decode to 255). -/
theorem native_decode_unsigned_out_of_range_fails (c : Bytes) (hw : Bytes.wf c) (hf : ¬ fitsU64 (twosVal c)) :
    NativeInteger_decode_ber_content true c = .erange := by
  unfold NativeInteger_decode_ber_content
  simp only [if_true]
  rw [Asn1c.Props.C16.INTEGER2ulong_spec c hw, if_neg hf]

/-- the former F3 witness through `NativeInteger_decode_ber`: contents `FF` (−1), and the former F20
    output `80 00 00 00 00 00 00 00` (−2^63), are rejected by an unsigned native. -/
theorem native_decode_unsigned_negative_witness :
    twosVal [255] = -1 ∧ NativeInteger_decode_ber_content true [255] = .erange ∧
    NativeInteger_decode_ber_content true [0x80, 0, 0, 0, 0, 0, 0, 0] = .erange := by decide

/-- **cross decoding, DER**: each representation decodes the other's DER contents to `v`. -/
theorem cross_decode_der (v : Int) (hv : fitsS64 v) (bs : Bytes) (hw : Bytes.wf bs)
    (hbs : twosVal bs = v) :
    (∃ w, NativeInteger_decode_ber_content false (INTEGER_der_content bs) = .ok w ∧ nativeValue false w = v) ∧
    twosVal (INTEGER_decode_ber_content (NativeInteger_der_content false (wordOfLong v))) = v := by
  constructor
  · have hsw := strip_wf bs hw
    have hsv : twosVal (strip bs) = v := by rw [strip_val bs hw, hbs]
    obtain ⟨w, h1, h2⟩ := native_decode_eq_wide (strip bs) hsw (by rw [hsv]; exact hv)
    exact ⟨w, h1, by rw [h2]; exact hsv⟩
  · exact (native_der_content_canonical v hv).2.2.2

/-- **cross decoding, DER, unsigned native**: likewise over the whole `unsigned long` range, and the
    native decoder reads back its own encoder's output (the F20/F3 pair no longer has to cancel). -/
theorem cross_decode_der_unsigned (u : Nat) (hu : u < 2 ^ 64) (bs : Bytes) (hw : Bytes.wf bs)
    (hbs : twosVal bs = u) :
    (∃ w, NativeInteger_decode_ber_content true (INTEGER_der_content bs) = .ok w ∧ nativeValue true w = u) ∧
    twosVal (INTEGER_decode_ber_content (NativeInteger_der_content true u)) = u ∧
    NativeInteger_decode_ber_content true (NativeInteger_der_content true u) = .ok u := by
  obtain ⟨_, c2, _, c4⟩ := native_der_unsigned_content_canonical u hu
  refine ⟨?_, c4, ?_⟩
  · have hsw := strip_wf bs hw
    have hsv : twosVal (strip bs) = u := by rw [strip_val bs hw, hbs]
    obtain ⟨w, h1, h2⟩ := native_decode_unsigned_eq_wide (strip bs) hsw (by rw [hsv]; unfold fitsU64; omega)
    exact ⟨w, h1, by rw [h2]; exact hsv⟩
  · unfold NativeInteger_decode_ber_content
    simp only [if_true]
    rw [INTEGER2ulong_fits _ c2 (by rw [c4]; unfold fitsU64; omega), c4]
    simp

/-! ### OER / UPER / XER of INTEGER: the native codecs build a temporary INTEGER and delegate -/

/-- the temporary INTEGER built by `NativeInteger_encode_oer/_uper` is *the* canonical INTEGER of
    the value: it equals every minimal `INTEGER_t` denoting the same value (a `field_unsigned`
    native cell holds a non-negative value: `hun`). -/
theorem nativeToINTEGER_eq_wide (unsigned : Bool) (v : Int) (hv : fitsS64 v) (bs : Bytes)
    (hw : Bytes.wf bs) (hne : bs ≠ []) (hm : MinimalTwos bs) (hbs : twosVal bs = v)
    (hun : unsigned = true → 0 ≤ v) :
    nativeToINTEGER unsigned (wordOfLong v) = bs := by
  have e : nativeToINTEGER unsigned (wordOfLong v) = imax2INTEGER (toSigned64 (wordOfLong v)) := by
    unfold nativeToINTEGER ulong2INTEGER umax2INTEGER
    cases unsigned with
    | false => rfl
    | true =>
      have h0 := hun rfl
      have hf := hv
      unfold fitsS64 at hf
      have hwv : wordOfLong v = v.toNat := by unfold wordOfLong; omega
      have hts := toSigned64_wordOfLong v hv
      simp only [if_true]
      rw [if_pos (by rw [hwv]; omega), hts, hwv]
      congr 1; omega
  rw [e, toSigned64_wordOfLong v hv]
  exact (minimal_eq_imax2INTEGER bs hw hne hm v hbs hv).symm

/-- … for a `field_unsigned` cell over the whole `unsigned long` range (`asn_ulong2INTEGER`, F2 repaired) -/
theorem nativeToINTEGER_unsigned_eq_wide (u : Nat) (hu : u < 2 ^ 64) (bs : Bytes)
    (hw : Bytes.wf bs) (hne : bs ≠ []) (hm : MinimalTwos bs) (hbs : twosVal bs = u) :
    nativeToINTEGER true u = bs := by
  obtain ⟨n1, n2, n3, n4⟩ := Asn1c.Props.C16.ulong2INTEGER_spec u hu
  unfold nativeToINTEGER
  simp only [if_true]
  exact minimal_unique _ _ n2 hw n1 hne n3 hm (by rw [n4, hbs])

/-- **-fwide-types does not change OER**: same octets (or the same failure) from the native cell and
    from the minimal `INTEGER_t` of the same value, for every OER constraint `{width, positive}`. -/
theorem native_oer_eq_wide (width : Nat) (positive unsigned : Bool) (v : Int) (hv : fitsS64 v) (bs : Bytes)
    (hw : Bytes.wf bs) (hne : bs ≠ []) (hm : MinimalTwos bs) (hbs : twosVal bs = v)
    (hun : unsigned = true → 0 ≤ v) :
    NativeInteger_encode_oer width positive unsigned (wordOfLong v) = INTEGER_encode_oer width positive bs := by
  unfold NativeInteger_encode_oer
  rw [nativeToINTEGER_eq_wide unsigned v hv bs hw hne hm hbs hun]

/-- … unsigned native cell, whole `unsigned long` range -/
theorem native_oer_unsigned_eq_wide (width : Nat) (positive : Bool) (u : Nat) (hu : u < 2 ^ 64) (bs : Bytes)
    (hw : Bytes.wf bs) (hne : bs ≠ []) (hm : MinimalTwos bs) (hbs : twosVal bs = u) :
    NativeInteger_encode_oer width positive true u = INTEGER_encode_oer width positive bs := by
  unfold NativeInteger_encode_oer
  rw [nativeToINTEGER_unsigned_eq_wide u hu bs hw hne hm hbs]

/-- `INTEGER_encode_uper` does not depend on `field_unsigned` for non-negative `long` values and
    non-negative bounds (the wide build of an EXTENSIBLE unsigned range `INTEGER (0..MAX, ...)` has no specifics, the
    native one has `field_unsigned = 1`; for `INTEGER (lb..MAX)` both descriptors have the flag since the repair of
    F172 / F173: `native_uper_unsigned_eq_wide`).  Values in 2^63 .. 2^64-1: `INTEGER_encode_uper_unsigned_relevant_cex`. -/
theorem INTEGER_encode_uper_unsigned_irrelevant (ct : Option PerCt) (bs : Bytes) (hw : Bytes.wf bs)
    (h0 : 0 ≤ twosVal bs) (h1 : twosVal bs < 2 ^ 63)
    (hct : ∀ c, ct = some c → 0 ≤ c.lb ∧ c.lb < 2 ^ 63 ∧ 0 ≤ c.ub ∧ c.ub < 2 ^ 63) :
    INTEGER_encode_uper true ct bs = INTEGER_encode_uper false ct bs := by
  unfold INTEGER_encode_uper
  by_cases hb : bs = []
  · simp [hb]
  · simp only [hb, if_false]
    cases ct with
    | none => rfl
    | some c =>
      obtain ⟨l0, l1, u0, u1⟩ := hct c rfl
      have e1 : INTEGER2ulong bs = .ok (twosVal bs).toNat := INTEGER2ulong_fits bs hw (by unfold fitsU64; omega)
      have e2 : INTEGER2long bs = .ok (twosVal bs) := by
        rw [INTEGER2long_spec bs hw, if_pos (by unfold fitsS64; omega)]
      have e3 : toSigned64 (twosVal bs).toNat = twosVal bs := by
        rw [toSigned64_small _ (by omega)]; omega
      have e4 : wordOfLong c.lb = c.lb.toNat := by unfold wordOfLong; omega
      have e5 : wordOfLong c.ub = c.ub.toNat := by unfold wordOfLong; omega
      simp only [e1, e2, e3, e4, e5, if_true, Bool.false_eq_true, if_false]
      have d1 : decide ((twosVal bs).toNat < c.lb.toNat) = decide (twosVal bs < c.lb) := by
        apply decide_eq_decide.mpr; omega
      have d2 : decide ((twosVal bs).toNat < c.lb.toNat ∨ (twosVal bs).toNat > c.ub.toNat)
          = decide (twosVal bs < c.lb ∨ twosVal bs > c.ub) := by
        apply decide_eq_decide.mpr; omega
      rw [d1, d2]

/-- beyond `LONG_MAX` the `field_unsigned` flag is *not* irrelevant: for a semi-constrained range with lower bound 0
    holding 2^63 a descriptor with `field_unsigned` encodes `08 80 00 …` (X.691 10.7.4, F110 repaired), while a
    descriptor without it goes through `asn_INTEGER2long` and fails.  This was finding F172 - the -fwide-types descriptor
    of `INTEGER (0..MAX)` had no specifics -, repaired: asn1c emits `field_unsigned` for the `INTEGER_t` of a (lb..MAX)
    range as well (`ref_F172_witness`).  It still describes the extensible range `INTEGER (0..MAX, ...)` under
    -fwide-types (proposed finding F174). -/
theorem INTEGER_encode_uper_unsigned_relevant_cex :
    twosVal [0, 0x80, 0, 0, 0, 0, 0, 0, 0] = 2 ^ 63 ∧
    NativeInteger_encode_uper true (some ⟨false, true, -1, 0, 0⟩) (2 ^ 63) =
      some (natBits 8 8 ++ bytesToBits [0x80, 0, 0, 0, 0, 0, 0, 0]) ∧
    INTEGER_encode_uper false (some ⟨false, true, -1, 0, 0⟩) [0, 0x80, 0, 0, 0, 0, 0, 0, 0] = none := by decide

/-- the former witness of finding F172, `U ::= INTEGER (0..MAX)` holding 2^63 (and 2^64-1): with `field_unsigned` in
    the -fwide-types descriptor too, `INTEGER_encode_uper` on the `INTEGER_t` gives the bits of the native encoder,
    `08 80 00 00 00 00 00 00 00` (it was an encoding failure) -/
theorem ref_F172_witness :
    INTEGER_encode_uper true (some ⟨false, true, -1, 0, 0⟩) [0, 0x80, 0, 0, 0, 0, 0, 0, 0] =
      NativeInteger_encode_uper true (some ⟨false, true, -1, 0, 0⟩) (2 ^ 63) ∧
    INTEGER_encode_uper true (some ⟨false, true, -1, 0, 0⟩) [0, 0x80, 0, 0, 0, 0, 0, 0, 0] =
      some (bytesToBits [0x08, 0x80, 0, 0, 0, 0, 0, 0, 0]) ∧
    INTEGER_encode_uper true (some ⟨false, true, -1, 0, 0⟩) [0, 0xff, 0xff, 0xff, 0xff, 0xff, 0xff, 0xff, 0xff] =
      NativeInteger_encode_uper true (some ⟨false, true, -1, 0, 0⟩) (2 ^ 64 - 1) := by decide

/-- C06 (finding F18 repaired): `INTEGER_encode_uper` sees the stored octets only through the leading-octet
    strip loop: redundant leading `00` / `FF` octets never reach the wire.  (`hu` is no longer needed since `asn_INTEGER2ulong` rejects negative INTEGERs — F3 repaired — and is kept for
    the callers' convenience.) -/
theorem INTEGER_encode_uper_strip (uns : Bool) (ct : Option PerCt) (bs : Bytes) (hw : Bytes.wf bs) (hne : bs ≠ [])
    (hu : uns = true → 0 ≤ twosVal bs ∧ twosVal bs < 2 ^ 64) :
    INTEGER_encode_uper uns ct (strip bs) = INTEGER_encode_uper uns ct bs := by
  have hsne := strip_ne_nil bs hne
  have hsw := strip_wf bs hw
  have hsv := strip_val bs hw
  unfold INTEGER_encode_uper
  simp only [hne, hsne, if_false]
  have hbody : ∀ c v, INTEGER_uper_body c v (strip bs) = INTEGER_uper_body c v bs := by
    intro c v; unfold INTEGER_uper_body; rw [strip_idem]
  cases ct with
  | none => exact hbody none 0
  | some c =>
    cases uns with
    | false =>
      simp only [Bool.false_eq_true, if_false]
      rw [INTEGER2long_spec _ hsw, INTEGER2long_spec _ hw, hsv]
      simp only [hbody]
    | true =>
      simp only [if_true]
      rw [Asn1c.Props.C16.INTEGER2ulong_spec _ hsw, Asn1c.Props.C16.INTEGER2ulong_spec _ hw, hsv]
      simp only [hbody]

/-- C06 (finding F18 repaired): two `INTEGER_t` representations of one value (any number of redundant leading
    octets) have the same UPER encoding (or the same failure), under every PER value constraint -/
theorem INTEGER_encode_uper_repr_invariant (uns : Bool) (ct : Option PerCt) (a b : Bytes)
    (ha : Bytes.wf a) (hb : Bytes.wf b) (hane : a ≠ []) (hbne : b ≠ []) (h : twosVal a = twosVal b)
    (hu : uns = true → 0 ≤ twosVal a ∧ twosVal a < 2 ^ 64) :
    INTEGER_encode_uper uns ct a = INTEGER_encode_uper uns ct b := by
  have e : strip a = strip b :=
    minimal_unique _ _ (strip_wf a ha) (strip_wf b hb) (strip_ne_nil a hane) (strip_ne_nil b hbne)
      (strip_minimal a) (strip_minimal b) (by rw [strip_val a ha, strip_val b hb, h])
  rw [← INTEGER_encode_uper_strip uns ct a ha hane hu,
      ← INTEGER_encode_uper_strip uns ct b hb hbne (by rw [← h]; exact hu), e]

/-- the former F18 witness: `00 00 05` of an unconstrained INTEGER is written as `01 05` (was `03 00 00 05`) -/
theorem INTEGER_encode_uper_padded_witness :
    INTEGER_encode_uper false none [0, 0, 5] = some (bytesToBits [0x01, 0x05]) ∧
    INTEGER_encode_uper false none [5] = some (bytesToBits [0x01, 0x05]) := by decide

/-- C02 (findings F42 / F110 repaired): for a semi-constrained `INTEGER (lb..MAX)` (any lower bound, also
    negative or non-zero) and every value `lb ≤ v` of the `long` range, `INTEGER_encode_uper` emits exactly the
    semi-constrained whole number of X.691 §10.7: the length octet and the minimal non-negative octets of `v - lb`
    (no sign octet: 128 of `INTEGER (0..MAX)` is `01 80`) -/
theorem INTEGER_encode_uper_semi_eq_spec (lb ub v : Int) (bs : Bytes) (hw : Bytes.wf bs) (hv : twosVal bs = v)
    (hne : bs ≠ []) (hfv : fitsS64 v) (hfl : fitsS64 lb) (h : lb ≤ v) :
    INTEGER_encode_uper false (some ⟨false, true, -1, lb, ub⟩) bs = some (Spec.Per.semiConstrainedWholeNumber lb v) := by
  unfold fitsS64 at hfv hfl
  unfold INTEGER_encode_uper
  simp only [hne, if_false, Bool.false_eq_true]
  rw [INTEGER2long_spec bs hw, hv, if_pos (by unfold fitsS64; exact hfv)]
  simp only [if_true]
  rw [show decide (v < lb) = false by simp; omega]
  simp only [Bool.false_eq_true, if_false]
  unfold INTEGER_uper_body
  simp only
  rw [if_neg (by omega), if_pos trivial]
  have hmod : ((v - lb) % 2 ^ 64).toNat = (v - lb).toNat := by omega
  rw [hmod, offsetOctets_eq _ (by omega)]
  have hlen : (Spec.Per.nnOctets (v - lb).toNat).length ≤ 8 := by
    rw [← offsetOctets_eq _ (by omega)]; exact offsetOctets_length _
  unfold uperLenOctets Spec.Per.semiConstrainedWholeNumber
  rw [if_pos (by omega)]
  generalize Spec.Per.nnOctets (v - lb).toNat = os at hlen
  simp only [Spec.Per.lengthPrefixed, List.length_map]
  rw [if_pos (by omega)]
  unfold Spec.Per.lengthDetSmall
  rw [if_pos (by omega), bytesToBits_eq_flatten, Asn1c.Proofs.PerSupport.natBits_cons]
  have : (os.length / 2 ^ 7 % 2 == 1) = false := by simp; omega
  rw [this]; rfl

/-- the former witnesses: `INTEGER (5..MAX)`, value 5 → `01 00` (F42: was an encoding failure);
    `INTEGER (0..MAX)`, value 128 → `01 80` (F110: was `02 00 80`) -/
theorem INTEGER_encode_uper_semi_witnesses :
    INTEGER_encode_uper false (some ⟨false, true, -1, 5, 0⟩) [5] = some (bytesToBits [0x01, 0x00]) ∧
    INTEGER_encode_uper false (some ⟨false, true, -1, 0, 0⟩) [0, 128] = some (bytesToBits [0x01, 0x80]) := by decide

/-- **-fwide-types does not change UPER**: same bits (or the same failure) from the native cell and
    from **any** `INTEGER_t` representation of the same value (redundant leading octets included: finding F18
    repaired, the hypothesis `MinimalTwos bs` is gone), for every PER value constraint; `unsN`/`unsW` are
    the `field_unsigned` flags of the two descriptors (they differ for `INTEGER (0..MAX)`), which is
    only allowed for a non-negative value and non-negative bounds. -/
theorem native_uper_eq_wide (unsN unsW : Bool) (ct : Option PerCt) (v : Int) (hv : fitsS64 v) (bs : Bytes)
    (hw : Bytes.wf bs) (hne : bs ≠ []) (hbs : twosVal bs = v)
    (hflag : unsN ≠ unsW → 0 ≤ v ∧ ∀ c, ct = some c → 0 ≤ c.lb ∧ c.lb < 2 ^ 63 ∧ 0 ≤ c.ub ∧ c.ub < 2 ^ 63)
    (hun : unsN = true → 0 ≤ v) :
    NativeInteger_encode_uper unsN ct (wordOfLong v) = INTEGER_encode_uper unsW ct bs := by
  have hv' := hv
  unfold fitsS64 at hv'
  have hnn : unsW = true → 0 ≤ v := by
    intro hW
    by_cases hf : unsN = unsW
    · exact hun (by rw [hf, hW])
    · exact (hflag hf).1
  rw [← INTEGER_encode_uper_strip unsW ct bs hw hne (fun hW => by rw [hbs]; exact ⟨hnn hW, by omega⟩)]
  have hsw := strip_wf bs hw
  have hsne := strip_ne_nil bs hne
  have hsv : twosVal (strip bs) = v := by rw [strip_val bs hw, hbs]
  unfold NativeInteger_encode_uper
  rw [nativeToINTEGER_eq_wide unsN v hv (strip bs) hsw hsne (strip_minimal bs) hsv hun]
  by_cases hf : unsN = unsW
  · rw [hf]
  · obtain ⟨h0, hct⟩ := hflag hf
    have hirr := INTEGER_encode_uper_unsigned_irrelevant ct (strip bs) hsw (by rw [hsv]; exact h0)
      (by rw [hsv]; exact hv.2) hct
    cases unsN <;> cases unsW <;> simp_all

/-- … unsigned native cell against a wide descriptor that also has `field_unsigned`: whole
    `unsigned long` range, every PER value constraint -/
theorem native_uper_unsigned_eq_wide (ct : Option PerCt) (u : Nat) (hu : u < 2 ^ 64) (bs : Bytes)
    (hw : Bytes.wf bs) (hne : bs ≠ []) (hm : MinimalTwos bs) (hbs : twosVal bs = u) :
    NativeInteger_encode_uper true ct u = INTEGER_encode_uper true ct bs := by
  unfold NativeInteger_encode_uper
  rw [nativeToINTEGER_unsigned_eq_wide u hu bs hw hne hm hbs]

/-- **-fwide-types does not change XER** (text between the tags): the native `%ld`/`%lu` text equals
    what `INTEGER__dump` prints for any `INTEGER_t` denoting the same value, when the value has no
    entry in the named-value map (asn1c emits a map only for ENUMERATED) and the descriptor is not
    a strict enumeration; `spN`/`spW` are the specifics of the two descriptors. -/
theorem native_xer_eq_wide (spN spW : Option IntSpecs) (v : Int) (hv : fitsS64 v) (bs : Bytes)
    (hw : Bytes.wf bs) (hbs : twosVal bs = v)
    (hN : ∀ s, spN = some s → s.unsigned = true → 0 ≤ v)
    (hW : spW = none ∨ ∃ s, spW = some s ∧ s.map = [] ∧ s.strict = false ∧ (s.unsigned = true → 0 ≤ v)) :
    NativeInteger_encode_xer spN (wordOfLong v) = INTEGER_encode_xer spW bs := by
  have hf := hv
  unfold fitsS64 at hf
  have e2 : INTEGER2imax bs = .ok v := by
    rw [Asn1c.Props.C16.INTEGER2imax_spec bs hw, hbs, if_pos hv]
  have hts := toSigned64_wordOfLong v hv
  -- left side: decimal text of v
  have hL : NativeInteger_encode_xer spN (wordOfLong v) = some (asciiOf (toString v)) := by
    unfold NativeInteger_encode_xer
    cases spN with
    | none => simp only [Bool.false_eq_true, if_false, hts]
    | some s =>
      simp only []
      by_cases hu : s.unsigned = true
      · have h0 := hN s rfl hu
        simp only [hu, if_true]
        have : wordOfLong v = v.toNat := by unfold wordOfLong; omega
        rw [this]
        obtain ⟨n, rfl⟩ := Int.eq_ofNat_of_zero_le h0
        rfl
      · have : s.unsigned = false := by simpa using hu
        simp only [this, Bool.false_eq_true, if_false, hts]
  rw [hL]
  unfold INTEGER_encode_xer
  rcases hW with rfl | ⟨s, rfl, hmap, hstrict, hun⟩
  · simp only [Bool.false_eq_true, if_false, e2, value2enum]
    simp
  · simp only [hstrict, Bool.false_eq_true, if_false]
    by_cases hu : s.unsigned = true
    · have h0 := hun hu
      have e1 : INTEGER2umax bs = .ok v.toNat := by
        rw [Asn1c.Props.C16.INTEGER2umax_spec bs hw, hbs, if_pos (by unfold fitsU64; omega)]
      have e3 : toSigned64 v.toNat = v := by rw [toSigned64_small _ (by omega)]; omega
      simp only [hu, if_true, e1, e3, value2enum, hmap, List.find?_nil, Option.map_none]
      have : wordOfLong v = v.toNat := by unfold wordOfLong; omega
      rw [this]
      obtain ⟨n, rfl⟩ := Int.eq_ofNat_of_zero_le h0
      simp
      rfl
    · have hu' : s.unsigned = false := by simpa using hu
      simp only [hu', Bool.false_eq_true, if_false, e2, value2enum, hmap, List.find?_nil, Option.map_none]
      simp

/-- … unsigned native cell against a wide descriptor that also has `field_unsigned` (`%lu` versus
    `INTEGER__dump`'s `asn_INTEGER2umax` + `PRIuMAX`): the same decimal text over the whole
    `unsigned long` range -/
theorem native_xer_unsigned_eq_wide (sN sW : IntSpecs) (hN : sN.unsigned = true) (hW : sW.unsigned = true)
    (hmap : sW.map = []) (hstrict : sW.strict = false) (u : Nat) (hu : u < 2 ^ 64) (bs : Bytes)
    (hw : Bytes.wf bs) (hbs : twosVal bs = u) :
    NativeInteger_encode_xer (some sN) u = INTEGER_encode_xer (some sW) bs := by
  have e1 : INTEGER2umax bs = .ok u := by
    rw [Asn1c.Props.C16.INTEGER2umax_spec bs hw, hbs, if_pos (by unfold fitsU64; omega)]; simp
  have e2 : wordOfLong (toSigned64 u) = u := by
    unfold wordOfLong toSigned64
    rw [Nat.mod_eq_of_lt hu]
    split <;> omega
  unfold NativeInteger_encode_xer INTEGER_encode_xer
  simp only [hN, hW, hstrict, if_true, e1, value2enum, hmap, List.find?_nil, Option.map_none, e2,
    Bool.false_eq_true, if_false, ite_self]

/-- the former witness of finding F173, `U ::= INTEGER (0..MAX)` holding 2^63: with `field_unsigned` in the
    -fwide-types descriptor too, `INTEGER__dump` prints the decimal numeral the native `%lu` prints (without the flag
    `asn_INTEGER2imax` fails and the long form `00:80:..` was printed - outside this model: `none`) -/
theorem ref_F173_witness :
    INTEGER_encode_xer (some ⟨[], 0, false, true⟩) [0, 0x80, 0, 0, 0, 0, 0, 0, 0] = some (asciiOf "9223372036854775808") ∧
    NativeInteger_encode_xer (some ⟨[], 0, false, true⟩) (2 ^ 63) = some (asciiOf "9223372036854775808") ∧
    INTEGER_encode_xer none [0, 0x80, 0, 0, 0, 0, 0, 0, 0] = none := by decide

/-! ### ENUMERATED: the wide codecs convert with `asn_INTEGER2long` and call the native ones -/

/-- **ENUMERATED, OER**: the wide encoder on any `ENUMERATED_t` denoting `v` gives exactly what the
    native encoder gives on the cell holding `v`. -/
theorem enum_oer_wide_eq_native (bs : Bytes) (hw : Bytes.wf bs) (hf : fitsS64 (twosVal bs)) :
    ENUMERATED_encode_oer bs = NativeEnumerated_encode_oer (wordOfLong (twosVal bs)) := by
  unfold ENUMERATED_encode_oer
  rw [INTEGER2long_spec bs hw, if_pos hf]

/-- **ENUMERATED, UPER**: likewise, for every enumeration map and PER constraint. -/
theorem enum_uper_wide_eq_native (sp : Option IntSpecs) (ct : Option PerCt) (bs : Bytes) (hw : Bytes.wf bs)
    (hf : fitsS64 (twosVal bs)) :
    ENUMERATED_encode_uper sp ct bs = NativeEnumerated_encode_uper sp ct (wordOfLong (twosVal bs)) := by
  unfold ENUMERATED_encode_uper
  rw [INTEGER2long_spec bs hw, if_pos hf]

/-- **ENUMERATED, XER**: for a strict, signed enumeration descriptor (what asn1c emits for every
    ENUMERATED) `INTEGER_encode_xer` on the wide value and `NativeEnumerated_encode_xer` on the native
    cell print the same `<identifier/>`, or both fail when the value has no identifier. -/
theorem enum_xer_wide_eq_native (s : IntSpecs) (hs : s.strict = true) (hu : s.unsigned = false) (bs : Bytes)
    (hw : Bytes.wf bs) (hf : fitsS64 (twosVal bs)) :
    INTEGER_encode_xer (some s) bs = NativeEnumerated_encode_xer (some s) (wordOfLong (twosVal bs)) := by
  unfold INTEGER_encode_xer NativeEnumerated_encode_xer
  rw [toSigned64_wordOfLong _ hf]
  simp only [hu, hs, Bool.false_eq_true, if_false]
  rw [Asn1c.Props.C16.INTEGER2imax_spec bs hw, if_pos hf]
  simp only [or_true, if_true]

/-! ### -findirect-choice (ATF_POINTER) and the naming options -/

/-- **where a member lives is irrelevant**: the constructed encoders reach a member only through
    `memb_ptr`; two structures whose members have the same `memb_ptr` views (inline `v` versus a
    non-NULL pointer to `v`) encode identically, whatever the member encoders are. -/
theorem pointer_flag_irrelevant {α β : Type} (ms ms' : List (Member α β))
    (h : List.Forall₂ (fun m m' => m.enc = m'.enc ∧ m.optional = m'.optional ∧ m.slot.membPtr = m'.slot.membPtr) ms ms') :
    encodeMembers ms = encodeMembers ms' := by
  induction h with
  | nil => rfl
  | cons hm _ ih =>
    obtain ⟨h1, h2, h3⟩ := hm
    simp only [encodeMembers, encodeMember, h1, h2, h3, ih]

/-- the instance -findirect-choice creates: an inline member and a pointer member holding the same value -/
theorem pointer_flag_irrelevant_single {α β : Type} (enc : α → Option β) (opt : Bool) (v : α) :
    encodeMember ⟨enc, opt, .inline v⟩ = encodeMember ⟨enc, opt, .pointer (some v)⟩ := rfl

/-- **names**: of the three names attached to a generated type only `xml_tag` (the ASN.1 identifier,
    the same under every option) reaches an encoder, and only the XER one; the C identifier that
    -fcompound-names changes is not an input of any modelled codec.  (A structural remark about the
    model: none of the encoders in Impl/Native.lean takes a `TypeNames` except `xerElement`.) -/
theorem names_irrelevant (n n' : TypeNames) (h : n.xmlTag = n'.xmlTag) (body : Bytes) :
    xerElement n body = xerElement n' body := by
  unfold xerElement; rw [h]

/-! ### the hypotheses are satisfiable -/

example : fitsS64 (-129) ∧ Bytes.wf [255, 255, 127] ∧ twosVal [255, 255, 127] = -129 ∧
    NativeInteger_encode_der false ⟨0, 2⟩ (wordOfLong (-129)) = [2, 2, 255, 127] ∧
    INTEGER_encode_der ⟨0, 2⟩ [255, 255, 127] = [2, 2, 255, 127] := by decide
example : NativeInteger_encode_oer 0 false false (wordOfLong (-129)) = some [2, 255, 127] ∧
    INTEGER_encode_oer 0 false [255, 127] = some [2, 255, 127] ∧
    NativeInteger_encode_oer 2 true true 300 = some [1, 44] := by decide
example : NativeInteger_encode_uper true (some ⟨false, true, -1, 0, 0⟩) 5 =
    INTEGER_encode_uper false (some ⟨false, true, -1, 0, 0⟩) [5] := by decide

end Asn1c.Props.C13
