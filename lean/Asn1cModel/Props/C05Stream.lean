import Asn1cModel.Proofs.BerStreamTop
import Asn1cModel.Proofs.BerStreamRefine
import Asn1cModel.Props.C05
/-
  C04 / C05 for the model of the C library's RESTARTABLE BER decoder (Impl/BerStream.lean: ber_check_tags,
  the primitive decoders, OCTET_STRING_decode_ber, SEQUENCE_decode_ber, SET_OF_decode_ber, CHOICE_decode_ber
  with their saved contexts), instead of an abstract TLV parser.

  * C04: every decoder, in every saved state, on every input reports consumed ≤ size
    (`stream_consumed_le`); termination is totality of `dec`; the return code is one of the three `Rc`.
  * C05: for descriptor trees in `inDomain` (`tag2el` points into the member table: what the compiler emits) and
    tag chains of ANY length the decoder obeys the restart laws up to the consumed count reported together with
    RC_FAIL (`stream_lawfulRc`), hence every chunk schedule ends with the same return code and – unless that is
    RC_FAIL – the same structure and total consumed count as one-shot decoding (`stream_chunked_eq_oneshot`).
    The primitive decoders obey the exact laws of Impl/Restart.lean (`prim_lawful`).
  * `ber_check_tags` keeps `expect_00_terminators` and `limit_len` in locals; since the repair of finding F160 it
    reports RC_WMORE with nothing consumed and the saved step untouched, so a chain is consumed whole or not at all
    and a restart re-reads it from its first tag.  The former witnesses of F160 (a chunk boundary between the two
    tags of `[1] EXPLICIT SEQUENCE`) are theorems now: `F160_chunked_eq_oneshot`, `F160_proper_prefix_more`.
  * The consumed count reported with RC_FAIL depends on the chunking (`fail_consumed_depends_on_chunking`), which
    is why the exact `Lawful` does not hold for the constructed decoders (`seq_not_lawful`).
-/
namespace Asn1c.Props.C05Stream
open Asn1c Asn1c.Impl.BerTlv Asn1c.Impl.Restart Asn1c.Impl.BerStream Asn1c.Proofs.BerStream

/-! ### C04 -/

/-- **consumed ≤ size** for every descriptor tree, tag mode, saved state and input -/
theorem stream_consumed_le (td : TD) (tm : Int) (n : Node) (bs : Bytes) : (dec td tm n bs).2.2 ≤ bs.length :=
  dec_le td tm n bs

/-- the top-level decoder `ber_decode` never reports more than it was given, whatever was decoded before -/
theorem berDec_consumed_le (td : TD) (n : Node) (bs : Bytes) : ((berDec td).step n bs).2.2 ≤ bs.length :=
  dec_le td 0 n bs

/-- the return code is RC_OK, RC_WMORE or RC_FAIL (the decoder is a total function into `Rc`) -/
theorem stream_rc_total (td : TD) (n : Node) (bs : Bytes) :
    ((berDec td).step n bs).2.1 = .ok ∨ ((berDec td).step n bs).2.1 = .more ∨ ((berDec td).step n bs).2.1 = .fail := by
  cases ((berDec td).step n bs).2.1 <;> simp

/-- the chunk protocol never over-consumes: total consumed ≤ total presented -/
theorem feed_consumed_le {σ : Type} (d : Dec σ) (hd : ∀ s p, (d.step s p).2.2 ≤ p.length) :
    ∀ (cs : List Bytes) (s : σ) (pend : Bytes) (tot : Nat),
      (feed d s pend tot cs).2.2 ≤ tot + pend.length + cs.flatten.length := by
  intro cs
  induction cs with
  | nil => intro s pend tot; simp [feed]
  | cons c cs ih =>
    intro s pend tot
    have hb := hd s (pend ++ c)
    simp only [feed]
    cases hst : d.step s (pend ++ c) with
    | mk s' r =>
      cases r with
      | mk rc k =>
        rw [hst] at hb
        simp only [List.length_append] at hb
        cases rc with
        | more =>
          simp only
          refine Nat.le_trans (ih s' _ _) ?_
          simp only [List.length_drop, List.length_append, List.flatten_cons]
          omega
        | ok => simp only [List.flatten_cons, List.length_append]; omega
        | fail => simp only [List.flatten_cons, List.length_append]; omega

/-! ### C05: the generic theorem for decoders lawful up to the consumed count of RC_FAIL -/

/-- **chunked = one-shot** for every decoder obeying `LawfulRc`: same return code; same state and same
    total consumed count unless the verdict is RC_FAIL -/
theorem chunked_eq_oneshot_rc {σ : Type} (d : Dec σ) (h : LawfulRc d) :
    ∀ (cs : List Bytes), cs ≠ [] → ∀ (s : σ) (pend : Bytes) (tot : Nat),
      ResEq (feed d s pend tot cs) (shiftR tot (d.step s (pend ++ cs.flatten))) := by
  intro cs
  induction cs with
  | nil => intro hne; exact absurd rfl hne
  | cons c cs ih =>
    intro _ s pend tot
    simp only [feed, List.flatten_cons]
    cases hst : d.step s (pend ++ c) with
    | mk s' r =>
      cases r with
      | mk rc k =>
        cases rc with
        | more =>
          simp only
          cases cs with
          | nil =>
            simp only [feed, List.flatten_nil, List.append_nil, hst, shiftR]
            exact ResEq.refl _
          | cons c2 cs2 =>
            have h1 := ih (by simp) s' ((pend ++ c).drop k) (tot + k)
            have h2 := h.resume s (pend ++ c) s' k hst (c2 :: cs2).flatten
            rw [List.append_assoc] at h2
            refine ResEq.trans h1 ?_
            have h3 := ResEq.shift tot (ResEq.symm h2)
            simpa only [shiftR, Nat.add_assoc] using h3
        | ok =>
          have := h.ok_stable s (pend ++ c) s' k hst cs.flatten
          rw [List.append_assoc] at this
          simp only [this, shiftR]
          exact ResEq.refl _
        | fail =>
          have := h.fail_stable s (pend ++ c) s' k hst cs.flatten
          rw [List.append_assoc] at this
          exact ResEq.of_fail rfl (by simp only [shiftR]; exact this)

/-! ### C05 for the model of the C decoders -/

/-- the primitive decoders (BOOLEAN, NULL, NativeInteger, NativeEnumerated, INTEGER, OBJECT IDENTIFIER, … with any
    tag chain and tag mode) obey the exact laws of `Impl.Restart.Lawful` -/
theorem prim_lawful (tags : List Tag) (k : PKind) (tm : Int) : Lawful (⟨decPrim tags k tm⟩ : Dec Node) :=
  decPrim_lawful tags k tm

/-- hence chunked = one-shot exactly (state, return code and total consumed) for them -/
theorem prim_chunked_eq_oneshot (tags : List Tag) (k : PKind) (tm : Int) (c : Bytes) (cs : List Bytes) (s : Node) :
    feed (⟨decPrim tags k tm⟩ : Dec Node) s [] 0 (c :: cs) =
      (let r := decPrim tags k tm s (c :: cs).flatten; (r.1, r.2.1, r.2.2)) := by
  have := Asn1c.Props.C05.chunked_eq_oneshot _ (prim_lawful tags k tm) (c :: cs) s [] 0
  simpa using this

/-- the restart laws for every decoder of an `inDomain` descriptor tree, from every saved state -/
theorem stream_lawfulRc (td : TD) (tm : Int) (h : inDomain td = true) : LawfulRc (⟨dec td tm⟩ : Dec Node) :=
  dec_lawfulRc td tm h

/-- **C05 for `ber_decode`**: on an `inDomain` descriptor tree every chunk schedule, fed by the manual's
    protocol, ends with the same return code as presenting everything at once, and – unless that is RC_FAIL –
    with the same decoded structure and the same total consumed count -/
theorem stream_chunked_eq_oneshot (td : TD) (h : inDomain td = true) (c : Bytes) (cs : List Bytes) (s : Node) :
    ResEq (feed (berDec td) s [] 0 (c :: cs)) ((berDec td).step s (c :: cs).flatten) := by
  have := chunked_eq_oneshot_rc (berDec td) (stream_lawfulRc td 0 h) (c :: cs) (by simp) s [] 0
  simpa [shiftR] using this

/-- a chunked run that ends with RC_OK decoded what the one-shot run decodes and consumed as much -/
theorem stream_chunked_ok (td : TD) (h : inDomain td = true) (c : Bytes) (cs : List Bytes) (s : Node)
    (hok : ((berDec td).step s (c :: cs).flatten).2.1 = .ok) :
    feed (berDec td) s [] 0 (c :: cs) = (berDec td).step s (c :: cs).flatten := by
  have h1 := stream_chunked_eq_oneshot td h c cs s
  exact h1.2 (by rw [h1.1, hok]; simp)

/-- non-vacuity: a SEQUENCE { a BOOLEAN, b OCTET STRING OPTIONAL } descriptor is in the domain -/
def exSeq : TD :=
  .seq [⟨0, 16⟩] [.prim [⟨0, 1⟩] [⟨0, 1⟩] .boolean, .prim [⟨0, 4⟩] [⟨0, 4⟩] (.ostr false)]
    [⟨⟨0, 1⟩, 0, 0, false⟩, ⟨⟨0, 4⟩, 0, 1, false⟩] (-1) [⟨⟨0, 1⟩, 0, 0, 0⟩, ⟨⟨0, 4⟩, 1, 0, 0⟩]

example : inDomain exSeq = true := by decide

/-! ### refinement of the reference decoder -/

/-- **the streaming decoder refines L2 `decBER` on one-tag primitive types**: whenever the reference BER decoder
    accepts a BOOLEAN / NULL / INTEGER / ENUMERATED value (an integer fitting `long`), the C decoder started on a
    fresh structure answers RC_OK, consumes exactly the same octets and stores the same value -/
theorem prim_refines_decBER (t : Tag) (p : Asn1c.L2.Prim) (k : PKind) (hk : kindOf p = some k) (fuel : Nat)
    (bs : Bytes) (hwf : Bytes.wf bs) (v : Asn1c.L2.Val) (rest : Bytes)
    (h : Asn1c.L2.decBER fuel (.prim [t] p) bs = .ok v rest)
    (hfit : ∀ z, v = .int z → Asn1c.Spec.fitsS64 z) :
    ∃ pv, dec (.prim [t] [t] k) 0 .none bs = (.prim (some pv), .ok, bs.length - rest.length) ∧ pvVal pv = v :=
  Asn1c.Proofs.BerStream.prim_refines_decBER t p k hk fuel bs hwf v rest h hfit

/-! ### the former witnesses of finding F160: a chunk boundary inside a tag chain -/

/-- `T ::= [1] EXPLICIT SEQUENCE { a BOOLEAN }` as compiled by asn1c (tags `[1]`, `[UNIVERSAL 16]`) -/
def tdF160 : TD :=
  .seq [⟨2, 1⟩, ⟨0, 16⟩] [.prim [⟨0, 1⟩] [⟨0, 1⟩] .boolean] [⟨⟨0, 1⟩, 0, 0, false⟩] (-1) [⟨⟨0, 1⟩, 0, 0, 0⟩]

/-- `a1 80 30 80 01 01 00 00 00 00 00`: the value { a FALSE } with both lengths indefinite -/
def encF160 : Bytes := [0xa1, 0x80, 0x30, 0x80, 0x01, 0x01, 0x00, 0, 0, 0, 0]

/-- the two-tag chain is inside the domain of the theorems -/
theorem F160_in_domain : inDomain tdF160 = true := by decide

/-- presenting the valid encoding at once consumes all 11 octets, and so does feeding `a1 80` first and the rest
    afterwards (before the repair the restarted `ber_check_tags` had forgotten the outer indefinite length: RC_OK
    after 9 octets) -/
theorem F160_chunked_eq_oneshot :
    ((berDec tdF160).step .none encF160).2 = (.ok, 11) ∧
    (feed (berDec tdF160) .none [] 0 [encF160.take 2, encF160.drop 2]).2 = (.ok, 11) := by
  decide

/-- … and a PROPER PREFIX of the valid encoding (its first 9 octets) wants more in one piece and in the chunks
    `a1 80 | …` (it was answered RC_OK) -/
theorem F160_proper_prefix_more :
    ((berDec tdF160).step .none (encF160.take 9)).2.1 = .more ∧
    (feed (berDec tdF160) .none [] 0 [encF160.take 2, (encF160.take 9).drop 2]).2.1 = .more := by
  decide

/-- `a1 07 30 03 01 01 00 00 00`: the outer length 7 contradicts the inner TLV (3 + 2 octets); rejected in one piece
    and in the chunks `a1 07 | …` (the restarted call had forgotten `limit_len` and accepted) -/
theorem F160_inconsistent_lengths_rejected :
    ((berDec tdF160).step .none [0xa1, 0x07, 0x30, 0x03, 0x01, 0x01, 0x00, 0, 0]).2.1 = .fail ∧
    (feed (berDec tdF160) .none [] 0 [[0xa1, 0x07], [0x30, 0x03, 0x01, 0x01, 0x00, 0, 0]]).2.1 = .fail := by
  decide

/-! ### constructed strings (finding F58 repaired): segments are universal OCTET STRINGs -/

/-- `G ::= IA5String`, `I ::= [5] IMPLICIT OCTET STRING`, `E ::= [1] EXPLICIT IA5String` as compiled -/
def tdIA5 : TD := .prim [⟨0, 22⟩] [⟨0, 22⟩] (.ostr false)
def tdImpOS : TD := .prim [⟨2, 5⟩] [⟨2, 5⟩, ⟨0, 4⟩] (.ostr false)
def tdExpIA5 : TD := .prim [⟨2, 1⟩, ⟨0, 22⟩] [⟨2, 1⟩, ⟨0, 22⟩] (.ostr false)

/-- the constructed forms X.690 8.7.3.2 / 8.23.6 prescribe (segments tagged UNIVERSAL 4) are accepted, also below an
    explicit tag; the forms accepted before (segments repeating the string's tag) still are; a segment with another
    tag is rejected -/
theorem constructed_string_segments :
    ((berDec tdIA5).step .none [0x36, 6, 4, 1, 0x61, 4, 1, 0x62]).2 = (.ok, 8) ∧
    ((berDec tdIA5).step .none [0x36, 6, 0x16, 1, 0x61, 0x16, 1, 0x62]).2 = (.ok, 8) ∧
    ((berDec tdImpOS).step .none [0xa5, 6, 4, 1, 0x61, 4, 1, 0x62]).2 = (.ok, 8) ∧
    ((berDec tdImpOS).step .none [0xa5, 6, 0x85, 1, 0x61, 0x85, 1, 0x62]).2 = (.ok, 8) ∧
    ((berDec tdExpIA5).step .none [0xa1, 8, 0x36, 6, 4, 1, 0x61, 4, 1, 0x62]).2 = (.ok, 10) ∧
    ((berDec tdIA5).step .none [0x36, 6, 5, 1, 0x61, 4, 1, 0x62]).2.1 = .fail := by
  decide

/-- `S ::= SEQUENCE { a OCTET STRING }` -/
def tdSeqOS : TD :=
  .seq [⟨0, 16⟩] [.prim [⟨0, 4⟩] [⟨0, 4⟩] (.ostr false)] [⟨⟨0, 4⟩, 0, 0, false⟩] (-1) [⟨⟨0, 4⟩, 0, 0, 0⟩]

/-- `30 03 04 05 61`: the inner length 5 does not fit the outer length 3 (invalid) -/
def badSeqOS : Bytes := [0x30, 0x03, 0x04, 0x05, 0x61]

theorem tdSeqOS_in_domain : inDomain tdSeqOS = true := by decide

/-- on an invalid encoding the consumed count reported with RC_FAIL depends on the chunking: 2 when presented
    at once, 4 when the first 4 octets are presented first (the member's RC_WMORE had been ADVANCEd over) -/
theorem fail_consumed_depends_on_chunking :
    ((berDec tdSeqOS).step .none badSeqOS).2 = (.fail, 2) ∧
    (feed (berDec tdSeqOS) .none [] 0 [badSeqOS.take 4, badSeqOS.drop 4]).2 = (.fail, 4) := by
  decide

/-- therefore the exact laws of `Impl.Restart.Lawful` fail for the constructed decoders (inside the domain of
    `stream_chunked_eq_oneshot`): `LawfulRc` is the strongest form that holds -/
theorem seq_not_lawful : ¬ Lawful (berDec tdSeqOS) := by
  intro h
  have h1 : (berDec tdSeqOS).step .none (badSeqOS.take 4) =
      (((berDec tdSeqOS).step .none (badSeqOS.take 4)).1, .more, 4) := by rfl
  have := (h.resume .none (badSeqOS.take 4) _ 4 h1 (badSeqOS.drop 4)).2
  revert this
  decide

end Asn1c.Props.C05Stream
