import Asn1cModel.Proofs.FixerMisc
/-
  C11 — ambiguous or inconsistent specifications are rejected, unambiguous ones accepted.
  Property theorems only (helper lemmas: Proofs/Fixer.lean, Proofs/FixerMisc.lean).

  Impl = `Impl.Fixer` (model of libasn1fix, tied to the C code by running the real asn1c on
  every generated module: exit class and `-E -F` dump of the fixed tree, see vlib/props/c11.py).
  Spec = `Spec.Fix` (X.680 distinct-tag rules over `HasOuter`, ENUMERATED numbering, …).

  Shape of the result: on an explicit decidable domain the fixer's verdict is exactly
  `¬ Spec.consistent`.  The domain excludes one region where asn1c violates the property (with
  counter-example theorems below and witnesses replayed on the real asn1c by the check)
  and the region where the model runs out of fuel:
    * numbering — the code numbers un-numbered enumeration items max+1 instead of X.680 §20.3
                   (`enum_numbering_rejects_valid_cex`, `enum_numbering_accepts_duplicate_cex`)
    * fuel      — a type that contains itself without an intervening tag: the C code's
                   `_asn1f_compare_tags` stops at its depth guard with a FATAL diagnostic, the model
                   runs out of fuel; both report reject (`recursive_untagged_choice_rejected`: the
                   verdict is the right one on the former witness of the stack overflow, and the
                   check demands a rejection by exit status on every such module).  The guard
                   stays in `Dom_C11` because "out of fuel implies inconsistent" is not proved in
                   general.
  A former region is gone with the repair of the code (finding F61): `_asn1f_compare_tags` no
  longer marks the compared members with TM_RECURSION (the marks made `asn1f_fetch_tags_impl` fail
  on the marked reference and a clash was missed): `compare_tags_iff` holds for every answer; the
  former witness is `typeref_then_choice_ref_diagnosed`.
-/
namespace Asn1c.Props.C11
open Asn1c.Fix Asn1c.Impl.Fixer Asn1c.Spec.Fix Asn1c.Proofs.Fixer

/-! ### domain -/

/-- No rejection reason *outside* the property's catalogue applies: type names are distinct
    (a typereference is assigned once), no `IMPLICIT` is written on an untagged choice type
    (X.680 §31.2.9), additions are untagged where the root is (automatic tagging, §25.3).
    Stated with the fixer's own checks for these three reasons (decidable): `asn1f_check_duplicate`,
    "tagged in IMPLICIT mode but must be EXPLICIT", "extensions are tagged but root components
    are not". -/
def WfModule (M : Module) : Prop := otherFatal M = some false

/-- The model's reference following never ran out of fuel (true for every module whose
    look-through graph is acyclic) and the code's numbering of every ENUMERATED is the X.680
    numbering. -/
def Dom_C11 (M : Module) : Prop :=
  (fixerRun M).isSome = true ∧ ∀ t ∈ M.nodes, EnumAgrees t

instance (M : Module) : Decidable (WfModule M) := by unfold WfModule; infer_instance
instance (M : Module) : Decidable (Dom_C11 M) := by unfold Dom_C11; infer_instance

/-! ### tags -/

/-- **asn1f_fetch_outmost_tag**: when it returns a tag, that tag is the only possible
    outermost tag of the expression (X.680 §31.2 / Table 1 / through references). -/
theorem fetch_outmost_tag_spec (M : Module) (f : Nat) (x : Ex) (g : OTag)
    (h : fetchOutmost M f x = .tag g) : ∀ g', outerTags M x g' ↔ g' = g :=
  fetchOutmost_tag M f x g h

/-- **_asn1f_compare_tags**: whenever it answers (without running out of fuel), it reports
    "same tag" iff the sets of possible outermost tags of the two members intersect — looking
    through type references and nested untagged CHOICEs, with the members of those CHOICEs
    tagged as the tagging environment (incl. AUTOMATIC) says. -/
theorem compare_tags_iff (M : Module) (f : Nat) (a b : Ex) (r : Bool)
    (h : compareTags M f a b = some r) :
    r = true ↔ ∃ g, outerTags M a g ∧ outerTags M b g :=
  compareTags_sound M f a b r h

/-- **asn1f_fix_constr_tag + asn1f_fix_constr_autotag** give every member the (class, number)
    the X.680 tagging environment gives it: the fixed member list and `Spec.comps` agree
    position by position on OPTIONAL-ness, (class, number) and the untagged type. -/
theorem autotag_spec (M : Module) (root adds : List Comp) (hasExt : Bool) (ss : List Slot)
    (h : Asn1c.Impl.Fixer.comps M root hasExt adds = some ss) :
    AllRel SlotRel ss (Asn1c.Spec.Fix.comps M root hasExt adds) :=
  comps_rel h

/-- **_asn1f_check_if_tag_must_be_explicit** decides "untagged choice type" (X.680 §31.2.7 c) -/
theorem must_explicit_iff (M : Module) (v : Ty) (b : Bool) (h : mustExplicit M v = some b) :
    b = true ↔ IsUntaggedChoice M (v.withTag none) :=
  mustExplicit_iff h

/-- **asn1f_fix_constr_autotag** is the X.680 automatic tagging transformation (§25.8): under
    AUTOMATIC TAGS, when no component carries a tag, the fixed list is `number 0 (root ++ adds)`
    — context tags 0, 1, 2, … over root then additions, the marker skipped — with the mode
    EXPLICIT exactly for untagged choice types and IMPLICIT otherwise; and no FATAL is raised. -/
theorem autotag_mode_spec (M : Module) (root adds : List Comp) (fc : FixC)
    (hauto : M.dflt = .automatic) (hr : ∀ c ∈ root, c.ty.tag = none) (ha : ∀ c ∈ adds, c.ty.tag = none)
    (h : fixConstr M root adds = some fc) :
    AllRel (AutoRel M) (fc.root ++ fc.adds) (number 0 (root ++ adds)) ∧
    fc.root.length = root.length ∧ fc.fImplicit = false ∧ fc.fExt = false := by
  unfold fixConstr at h
  rw [fixComps_untagged root hr, fixComps_untagged adds ha] at h
  have t1 : anyTagged root = false := by
    rw [anyTagged_false_iff, List.all_eq_true]; intro c hc; rw [hr c hc]; rfl
  have t2 : anyTagged adds = false := by
    rw [anyTagged_false_iff, List.all_eq_true]; intro c hc; rw [ha c hc]; rfl
  simp only [hauto, t1, t2, beq_self_eq_true, Bool.not_false, Bool.and_self, if_true,
    Bool.false_eq_true, if_false] at h
  cases h1 : autoNumber M 0 root with
  | none => rw [h1] at h; simp at h
  | some r2 =>
    cases h2 : autoNumber M root.length adds with
    | none => rw [h1, h2] at h; simp at h
    | some a2 =>
      rw [h1, h2] at h; simp at h; subst h
      have s1 := autoNumber_spec _ _ _ h1
      have s2 := autoNumber_spec _ _ _ h2
      refine ⟨?_, ?_, rfl, rfl⟩
      · rw [number_append, Nat.zero_add]; exact s1.append s2
      · have := s1.length
        rw [this]
        clear s1 s2 h1 h2 this
        generalize (0 : Nat) = i
        induction root generalizing i with
        | nil => rfl
        | cons c rest ih => simp [number, ih (fun c hc => hr c (List.mem_cons_of_mem _ hc))
            (by rw [anyTagged_false_iff, List.all_eq_true]; intro c hc; rw [hr c (List.mem_cons_of_mem _ hc)]; rfl)]

/-- under AUTOMATIC TAGS with no tagged component: context tags 0, 1, 2, … in textual order,
    root first, then the additions; the marker takes no number -/
theorem autotag_numbering (M : Module) (root adds : List Comp) (hasExt : Bool)
    (hauto : M.dflt = .automatic) (hr : ∀ c ∈ root, c.ty.tag = none) (ha : ∀ c ∈ adds, c.ty.tag = none) :
    Asn1c.Spec.Fix.comps M root hasExt adds =
      slotsOf (number 0 root) hasExt (number root.length adds) := by
  unfold Asn1c.Spec.Fix.comps autoSelected
  have h1 : (root.all fun c => c.ty.tag.isNone) = true := by
    rw [List.all_eq_true]; intro c hc; rw [hr c hc]; rfl
  have h2 : (adds.all fun c => c.ty.tag.isNone) = true := by
    rw [List.all_eq_true]; intro c hc; rw [ha c hc]; rfl
  simp [hauto, h1, h2]

/-- **asn1f_check_constr_tags_distinct** on one SEQUENCE/SET/CHOICE: FATAL iff the X.680
    distinctness rule of that kind is violated (SEQUENCE: runs of OPTIONAL/DEFAULT components
    plus the following one; SET/CHOICE: all pairs). -/
theorem tags_distinct_iff (M : Module) (k : CKind) (root adds : List Comp) (hasExt : Bool)
    (ss : List Slot) (c : Bool)
    (hs : Asn1c.Impl.Fixer.comps M root hasExt adds = some ss)
    (hc : checkDistinct M (k == .sequence) ss = some c) :
    c = true ↔ ¬ tagsDistinct M k (Asn1c.Spec.Fix.comps M root hasExt adds) := by
  have h := checkDistinct_spec M _ ss c hc
  rw [allOk_rel (comps_rel hs), allOk_iff_tagsDistinct] at h
  rw [← h]; cases c <;> simp

/-! ### identifiers, enumerations, references -/

/-- **asn1f_check_unique_expr**: FATAL iff a component identifier repeats -/
theorem unique_identifiers_iff (names : List String) : dupNames [] names = true ↔ ¬ names.Nodup := by
  rw [← dupNames_nil_iff]; cases dupNames [] names <;> simp

/-- **asn1f_fix_enum**, with the values *it* assigns: FATAL iff an item name repeats, a value
    repeats, or the additions are not strictly increasing -/
theorem fix_enum_iff (r a : List EnumItem) :
    (fixEnum r a).2 = true ↔
      ¬ (((r ++ a).map EnumItem.name).Nodup ∧ (fixEnum r a).1.Nodup ∧
         ((fixEnum r a).1.drop r.length).Pairwise (· < ·)) := by
  have h := fixEnum_spec r a
  unfold itemNames at h
  rw [← h]; cases (fixEnum r a).2 <;> simp

/-- … hence, where the code's numbering is the X.680 numbering, FATAL iff X.680 §20 is violated -/
theorem fix_enum_iff_partial (r a : List EnumItem) (hag : (fixEnum r a).1 = enumVals r a) :
    (fixEnum r a).2 = true ↔ ¬ enumOk r a := by
  rw [← fixEnum_enumOk hag]; cases (fixEnum r a).2 <;> simp

/-- **asn1f_fix_dereference_types**: a module passes iff every referenced type name is assigned -/
theorem unknown_type_iff (M : Module) (hloop : ∀ t ∈ M.nodes, derefFatal M t ≠ none) :
    (∃ t ∈ M.nodes, derefFatal M t = some true) ↔
      ∃ g n, Ty.ref g n ∈ M.nodes ∧ M.lookup n = none := by
  constructor
  · rintro ⟨t, ht, h⟩
    cases t with
    | ref g n =>
      simp only [derefFatal] at h
      cases hft : findTerminal M (fuel M) (.ref g n) with
      | found t' => rw [hft] at h; simp at h
      | loop => rw [hft] at h; simp at h
      | missing => exact findTerminal_missing M _ _ hft ht
    | _ => simp [derefFatal] at h
  · rintro ⟨g, n, hm, hl⟩
    refine ⟨_, hm, ?_⟩
    cases hd : derefFatal M (.ref g n) with
    | none => exact absurd hd (hloop _ hm)
    | some f =>
      cases f with
      | true => rfl
      | false => have := derefFatal_false_defined hd; rw [hl] at this; cases this

/-! ### the verdict -/

/-- **Main theorem.**  For every module of the algebra in which no rejection reason outside the
    catalogue applies (`WfModule`) and which lies in `Dom_C11`: asn1c's semantic checker
    rejects iff the module is ambiguous or inconsistent — two alternatives of a CHOICE, two
    components of a SET, or a run of OPTIONAL/DEFAULT SEQUENCE components and the component
    following it do not have disjoint sets of outermost tags (through untagged CHOICEs and
    references, after IMPLICIT/EXPLICIT/AUTOMATIC tagging), a component identifier repeats, an
    enumeration name or value repeats (or additions do not increase), or a referenced type is
    undefined. -/
theorem verdict_iff (M : Module) (hwf : WfModule M) (hdom : Dom_C11 M) :
    fixerVerdict M = .reject ↔ ¬ consistent M := by
  obtain ⟨hrun, henum⟩ := hdom
  unfold WfModule at hwf
  cases hcat : catalogueFatal M with
  | none => unfold fixerRun at hrun; rw [hcat] at hrun; simp at hrun
  | some a =>
    have hrun' : fixerRun M = some a := by
      unfold fixerRun; rw [hcat, hwf]; simp
    have h := catalogue_iff hcat henum
    unfold fixerVerdict
    rw [hrun', ← h]
    cases a <;> simp

/-- accept side, spelled out -/
theorem accepts_consistent (M : Module) (hwf : WfModule M) (hdom : Dom_C11 M) (hc : consistent M) :
    fixerVerdict M = .accept := by
  cases hv : fixerVerdict M with
  | accept => rfl
  | reject => exact absurd hc ((verdict_iff M hwf hdom).1 hv)

/-! ### non-vacuity: a module with AUTOMATIC TAGS, references, a nested untagged CHOICE behind a
    reference chain, an extensible SEQUENCE with an OPTIONAL run, an ENUMERATED with mixed
    numbering — lies in the domain and is accepted -/

def P (p : Prim) : Ty := .prim none p

def exampleModule : Module := ⟨.automatic, [
  ⟨"T0", .constr none .choice [.mk "a" (P .integer) .mandatory, .mk "b" (P .boolean) .mandatory] false []⟩,
  ⟨"T1", .ref none "T0"⟩,
  ⟨"T2", .constr none .sequence
      [.mk "x" (.ref (some ⟨.context, 5, .default_⟩) "T1") .optional,
       .mk "y" (.prim (some ⟨.context, 6, .implicit⟩) .octetString) .optional,
       .mk "z" (.ref none "T1") .mandatory] true
      [.mk "w" (.enum none [⟨"r", some 0⟩, ⟨"s", none⟩] true [⟨"t", none⟩]) .optional]⟩,
  ⟨"T3", .constr none .set [.mk "p" (.ref none "T2") .mandatory, .mk "q" (.seqOf none (.ref none "T3")) .mandatory] false []⟩]⟩

example : WfModule exampleModule ∧ Dom_C11 exampleModule ∧ fixerVerdict exampleModule = .accept := by
  decide +kernel

/-- a consistent module of the shape that used to be cut by the TM_RECURSION marks (an untagged type
    reference followed by a reference to an untagged CHOICE, T0 ::= BOOLEAN sharing no tag with it)
    lies in the domain and is accepted -/
def exampleModule2 : Module := ⟨.explicit, [
  ⟨"T0", P .boolean⟩,
  ⟨"T1", .constr none .choice
      [.mk "x" (.ref none "T0") .mandatory, .mk "y" (.ref none "T2") .mandatory] false []⟩,
  ⟨"T2", .constr none .choice
      [.mk "p" (P .integer) .mandatory, .mk "q" (P .null) .mandatory] false []⟩]⟩

example : WfModule exampleModule2 ∧ Dom_C11 exampleModule2 ∧ fixerVerdict exampleModule2 = .accept := by
  decide +kernel

/-! ### a former witness (F61, repaired), counter-examples for the excluded region, a quirk (each replayed on the real asn1c) -/

/-- T1 ::= CHOICE { x T0, y T2 },  T0 ::= INTEGER,  T2 ::= CHOICE { p INTEGER, q NULL } -/
def markModule : Module := ⟨.explicit, [
  ⟨"T0", P .integer⟩,
  ⟨"T1", .constr none .choice
      [.mk "x" (.ref none "T0") .mandatory, .mk "y" (.ref none "T2") .mandatory] false []⟩,
  ⟨"T2", .constr none .choice
      [.mk "p" (P .integer) .mandatory, .mk "q" (P .null) .mandatory] false []⟩]⟩

/-- **Former finding F61 (TM_RECURSION), repaired.**  Alternatives x and y of T1 can both carry
    UNIVERSAL 2.  `_asn1f_compare_tags(x, y)` used to mark x before descending into T2, and
    `asn1f_fetch_tags_impl` refused to follow the marked reference x: accepted.  Without the marks
    the clash p / x is found: the module is in the domain and rejected. -/
theorem typeref_then_choice_ref_diagnosed :
    WfModule markModule ∧ Dom_C11 markModule ∧ fixerVerdict markModule = .reject ∧
    ¬ consistent markModule := by
  refine ⟨by decide +kernel, by decide +kernel, by decide +kernel, ?_⟩
  intro hc
  have hnode := hc (.constr none .choice
      [.mk "x" (.ref none "T0") .mandatory, .mk "y" (.ref none "T2") .mandatory] false [])
    (by simp [markModule, Module.nodes, nodesOf, Ty.nodes, Comp.nodesL, P])
  simp only [NodeOk] at hnode
  have hd := hnode.2
  have hcomps : Asn1c.Spec.Fix.comps markModule
      [.mk "x" (.ref none "T0") .mandatory, .mk "y" (.ref none "T2") .mandatory] false [] =
      [⟨.ty (.ref none "T0"), false⟩, ⟨.ty (.ref none "T2"), false⟩] := rfl
  simp only [tagsDistinct, allDistinct] at hd
  rw [hcomps] at hd
  have hd' := (List.pairwise_cons.1 hd).1 _ List.mem_cons_self
  apply hd'
  refine ⟨.key .universal 2, ?_, ?_⟩
  · exact .ref (t' := P .integer) rfl (.univ rfl rfl)
  · refine .ref (t' := .constr none .choice
        [.mk "p" (P .integer) .mandatory, .mk "q" (P .null) .mandatory] false []) rfl ?_
    have hm : (⟨.ty (P .integer), false⟩ : Slot) ∈ Asn1c.Spec.Fix.comps markModule
        [.mk "p" (P .integer) .mandatory, .mk "q" (P .null) .mandatory] false [] := by
      have e : Asn1c.Spec.Fix.comps markModule
          [.mk "p" (P .integer) .mandatory, .mk "q" (P .null) .mandatory] false [] =
          [⟨.ty (P .integer), false⟩, ⟨.ty (P .null), false⟩] := rfl
      rw [e]; exact List.mem_cons_self
    exact .choice hm (.univ rfl rfl)

/-- T0 ::= ENUMERATED { a, b(0) } -/
def enumModule1 : Module := ⟨.explicit, [⟨"T0", .enum none [⟨"a", none⟩, ⟨"b", some 0⟩] false []⟩]⟩

/-- **Finding (numbering, reject side).**  X.680 §20.3 gives a = 1, b = 0: consistent; the code
    numbers a = 0 and reports a collision. -/
theorem enum_numbering_rejects_valid_cex :
    WfModule enumModule1 ∧ fixerVerdict enumModule1 = .reject ∧ consistent enumModule1 := by
  refine ⟨by decide +kernel, by decide +kernel, ?_⟩
  intro t ht
  have : t = .enum none [⟨"a", none⟩, ⟨"b", some 0⟩] false [] := by
    simpa [enumModule1, Module.nodes, nodesOf, Ty.nodes] using ht
  subst this
  simp only [NodeOk]
  unfold enumOk
  decide +kernel

/-- T0 ::= ENUMERATED { a(1), b, ..., c(0) } -/
def enumModule2 : Module :=
  ⟨.explicit, [⟨"T0", .enum none [⟨"a", some 1⟩, ⟨"b", none⟩] true [⟨"c", some 0⟩]⟩]⟩

/-- **Finding (numbering, accept side).**  X.680 §20.3 gives b = 0, so c(0) repeats a value;
    the code numbers b = 2 and accepts. -/
theorem enum_numbering_accepts_duplicate_cex :
    WfModule enumModule2 ∧ fixerVerdict enumModule2 = .accept ∧ ¬ consistent enumModule2 := by
  refine ⟨by decide +kernel, by decide +kernel, ?_⟩
  intro hc
  have h := hc (.enum none [⟨"a", some 1⟩, ⟨"b", none⟩] true [⟨"c", some 0⟩])
    (by simp [enumModule2, Module.nodes, nodesOf, Ty.nodes])
  simp only [NodeOk] at h
  have hv := h.2.1
  revert hv
  decide +kernel

/-- T0 ::= CHOICE { a T0, b INTEGER } -/
def recModule : Module := ⟨.explicit, [
  ⟨"T0", .constr none .choice
      [.mk "a" (.ref none "T0") .mandatory, .mk "b" (P .integer) .mandatory] false []⟩]⟩

/-- **Former finding (unbounded recursion), repaired.**  Alternative a has every tag of T0, in
    particular that of b, so the module is ambiguous.  The model's tag comparison runs out of
    fuel — the C function now stops at its depth guard with "the type is defined through itself"
    instead of recursing until the stack is exhausted — and the verdict is the one the
    standard demands: reject. -/
theorem recursive_untagged_choice_rejected :
    fixerRun recModule = none ∧ fixerVerdict recModule = .reject ∧ ¬ consistent recModule := by
  refine ⟨by decide +kernel, by decide +kernel, ?_⟩
  intro hc
  have hnode := hc (.constr none .choice
      [.mk "a" (.ref none "T0") .mandatory, .mk "b" (P .integer) .mandatory] false [])
    (by simp [recModule, Module.nodes, nodesOf, Ty.nodes, Comp.nodesL, P])
  simp only [NodeOk] at hnode
  have hd := hnode.2
  have hcomps : Asn1c.Spec.Fix.comps recModule
      [.mk "a" (.ref none "T0") .mandatory, .mk "b" (P .integer) .mandatory] false [] =
      [⟨.ty (.ref none "T0"), false⟩, ⟨.ty (P .integer), false⟩] := rfl
  simp only [tagsDistinct, allDistinct] at hd
  rw [hcomps] at hd
  have hd' := (List.pairwise_cons.1 hd).1 _ List.mem_cons_self
  apply hd'
  refine ⟨.key .universal 2, ?_, .univ rfl rfl⟩
  refine .ref (t' := .constr none .choice
      [.mk "a" (.ref none "T0") .mandatory, .mk "b" (P .integer) .mandatory] false []) rfl ?_
  have hm : (⟨.ty (P .integer), false⟩ : Slot) ∈ Asn1c.Spec.Fix.comps recModule
      [.mk "a" (.ref none "T0") .mandatory, .mk "b" (P .integer) .mandatory] false [] := by
    rw [hcomps]; exact List.mem_cons_of_mem _ List.mem_cons_self
  exact .choice hm (.univ rfl rfl)

/-- T0 ::= SEQUENCE { a INTEGER OPTIONAL, ..., b INTEGER } -/
def acrossMarkerModule : Module := ⟨.explicit, [
  ⟨"T0", .constr none .sequence [.mk "a" (P .integer) .optional] true [.mk "b" (P .integer) .mandatory]⟩]⟩

/-- **Quirk (not a violation of the property text, which speaks of root components).**  The
    marker ends a run: an OPTIONAL root component just before `...` is not compared with the
    additions after it, although both can start with the same tag on the wire. -/
theorem seq_run_across_marker_accepted :
    fixerVerdict acrossMarkerModule = .accept ∧ consistent acrossMarkerModule ∧
    Clash acrossMarkerModule (.ty (P .integer)) (.ty (P .integer)) := by
  refine ⟨by decide +kernel, ?_, ⟨.key .universal 2, .univ rfl rfl, .univ rfl rfl⟩⟩
  apply Classical.byContradiction
  intro hn
  have hv := (verdict_iff acrossMarkerModule (by decide +kernel) (by decide +kernel)).2 hn
  revert hv
  decide +kernel

end Asn1c.Props.C11
