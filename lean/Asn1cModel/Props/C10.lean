import Asn1cModel.Impl.Naming
import Asn1cModel.Impl.WfDescr
import Asn1cModel.Impl.CompilerMain
import Asn1cModel.Proofs.Naming
import Asn1cModel.Proofs.WfDescr
/-
  C10 — "Every accepted specification yields C code that builds; the compiler never dies".

  The part a model can carry (DESIGN §9 C10):
   * the status propagation of `main` (exit 0 iff parse, fix and compile succeeded),
   * identifier generation (`asn1c_make_identifier`, reserved words, `-fcompound-names` joining),
   * the internal consistency of the emitted descriptors (`WfDescr`) and what the codecs get from it.
  That gcc accepts the emitted text and that the compiler's C code has no crash is runtime behaviour,
  observed per generated program by vlib/props/c10.py (level: partial proof).
-/
namespace Asn1c.Props.C10
open Asn1c.Impl.CompilerMain Asn1c.Impl.Naming Asn1c.Generated Asn1c.Proofs.Naming
open Asn1c.Impl.WfDescr Asn1c.Proofs.WfDescr

/-! ## exit status -/

/-- `asn1c` (compile mode, no `-Werror`) exits with status 0 iff every input file parsed, the fixer
    did not report a fatal error and the code generator succeeded. -/
theorem exit_status_spec (i : MainIn) (hE : i.printOut = false) (hD : i.debugTypeNames = false)
    (hW : i.werror = false) :
    mainStatus i = 0 ↔ (∀ p ∈ i.parse, p = true) ∧ i.fixRet ≠ -1 ∧ i.compileRet = 0 := by
  unfold mainStatus
  simp only [hE, hD, hW, Bool.false_and, Bool.and_false, Bool.false_eq_true, if_false]
  have hall : i.parse.all id = true ↔ ∀ p ∈ i.parse, p = true := by simp [List.all_eq_true]
  rw [← hall]
  generalize i.parse.all id = b
  cases b <;> by_cases hf : i.fixRet = -1 <;> by_cases hc : i.compileRet = 0 <;>
    simp [hf, hc, EX_DATAERR, EX_SOFTWARE]

/-- a failure is always reported as EX_DATAERR (65) or EX_SOFTWARE (70): never another status -/
theorem exit_status_codes (i : MainIn) : mainStatus i = 0 ∨ mainStatus i = 65 ∨ mainStatus i = 70 := by
  unfold mainStatus EX_DATAERR EX_SOFTWARE
  repeat' split
  all_goals simp

/-- with `-E` the status does not depend on the code generator; without `-F` not on the fixer either -/
theorem exit_status_print_only (i : MainIn) (hE : i.printOut = true) (hF : i.fixAndPrint = false)
    (hp : i.printRet = 0) : mainStatus i = 0 ↔ ∀ p ∈ i.parse, p = true := by
  unfold mainStatus
  have hall : i.parse.all id = true ↔ ∀ p ∈ i.parse, p = true := by simp [List.all_eq_true]
  rw [← hall]
  generalize i.parse.all id = b
  cases b <;> simp [hE, hF, hp, EX_DATAERR]

example : mainStatus { parse := [true, true], fixRet := 1, compileRet := 0 } = 0 := by decide
example : mainStatus { parse := [true, false], fixRet := 0, compileRet := 0 } = 65 := by decide
example : mainStatus { parse := [true], fixRet := 0, compileRet := -1 } = 70 := by decide

/-! ## identifiers -/

/-- Every character `asn1c_make_identifier(flags, expr, 0)` produces for a plain expression is a C
    identifier character (`[A-Za-z0-9_]`), whatever the name contains (flags without
    AMI_MASK_ONLY_SPACES, name other than the single blank that the function treats as a marker). -/
theorem identifier_chars_are_C (fl : Flags) (hm : fl.maskOnlySpaces = false) (s : String)
    (hs : s.toList ≠ [' ']) : (mkId fl s).all isIdentChar = true := by
  rw [mkId_eq fl s hs]
  exact emitPart_first_all_ident fl hm true false s.toList

/-- **identifier_is_C**: a name that starts with a letter (every ASN.1 identifier and type reference
    does, X.680 12.2/12.3) becomes a C identifier `[A-Za-z_][A-Za-z0-9_]*`. -/
theorem identifier_is_C (fl : Flags) (hm : fl.maskOnlySpaces = false) (s : String)
    (c : Char) (cs : List Char) (hs : s.toList = c :: cs) (hc : isAlpha c = true) :
    isCIdent (mkId fl s) = true := by
  have hne : s.toList ≠ [' '] := by
    rw [hs]; intro h; injection h with h1 _; subst h1; simp [isAlpha] at hc
  rw [mkId_eq fl s hne, hs]
  exact emitPart_first_cident fl hm true false c cs hc

example : isCIdent (mkId { checkReserved := true } "long-name-1") = true := by decide

/-- The code does **not** guarantee a C identifier for arbitrary names: nothing is done about a leading
    digit or an empty name (unreachable from ASN.1 source, reachable through the API). -/
theorem identifier_leading_digit_cex :
    mkId {} "1a" = ['1', 'a'] ∧ isCIdent (mkId {} "1a") = false ∧ isCIdent (mkId {} "") = false := by
  decide

/-- **not_reserved**: with AMI_CHECK_RESERVED the identifier made from a single name is never an entry of
    `res_kwd[]` — for *every* name (hyphens, blanks, any byte) and every combination of the other flags.
    The table is consulted on the escaped text, so a name whose '-' → '_' image is a keyword (`and-eq`,
    `wchar-t`, `static-assert`) is capitalised like the keyword itself.  (Before the repair of finding F80
    this held for purely alphanumeric names only.) -/
theorem not_reserved (fl : Flags) (hr : fl.checkReserved = true) (s : String) :
    reservedKeyword (mkId fl s) = false := by
  by_cases hs : s.toList = [' ']
  · have : mkId fl s = [' '] := by unfold mkId partsLoop; simp [hs, partsLoop]
    rw [this]; decide
  · rw [mkId_eq fl s hs, emitPart_first_eq]
    simp only [hr, Bool.and_self, if_true]
    exact capitaliseIfReserved_not_reserved _

/-- the common call `MKID_safe(expr)` = `asn1c_make_identifier(AMI_CHECK_RESERVED, expr, 0)` -/
theorem not_reserved_safe (s : String) : reservedKeyword (mkId { checkReserved := true } s) = false :=
  not_reserved _ rfl s

/-- reserved words themselves are moved out of the table by capitalising their first letter, the rest
    is kept -/
theorem reserved_word_is_renamed (s : String) (hr : reservedKeyword s.toList = true) :
    reservedKeyword (mkId { checkReserved := true } s) = false ∧
    ∃ c cs, s.toList = c :: cs ∧ (mkId { checkReserved := true } s).head? = some (toUpper c) ∧
      'A' ≤ toUpper c ∧ toUpper c ≤ 'Z' := by
  refine ⟨not_reserved_safe s, ?_⟩
  have hne : s.toList ≠ [' '] := by intro hs; rw [hs] at hr; exact absurd hr (by decide)
  obtain ⟨k, hk, hks⟩ := (reservedKeyword_iff s.toList).mp hr
  have hesc : escapeChars false false s.toList = s.toList := by
    rw [← hks]; exact resKwd_escape_id k hk
  obtain ⟨c, cs, hcs, ha, hz⟩ := reserved_head_lower hr
  refine ⟨c, cs, hcs, ?_, (toUpper_lower c ha hz).2.2⟩
  rw [mkId_eq _ s hne, emitPart_first_eq]
  simp only [Bool.and_self, if_true, hesc]
  unfold capitaliseIfReserved
  rw [hcs] at hr
  simp [hr, hcs]

/-- a name that is not a keyword after escaping is copied unchanged (no capitalisation of innocent names) -/
theorem innocent_name_unchanged (s : String) (hs : s.toList ≠ [' '])
    (h : reservedKeyword (escapeChars false false s.toList) = false) :
    mkId { checkReserved := true } s = mkId {} s := by
  rw [mkId_eq _ s hs, mkId_eq _ s hs, emitPart_first_eq, emitPart_first_eq]
  simp [capitaliseIfReserved_of_not_reserved _ h]

/-- The former witnesses of finding F80 (the table used to be consulted **before** '-' was replaced by
    '_', so these valid ASN.1 identifiers came out as the C++ tokens `and_eq`, `wchar_t`, `static_assert`):
    they are now capitalised. -/
theorem not_reserved_hyphen_fixed :
    String.ofList (mkId { checkReserved := true } "and-eq") = "And_eq" ∧
    String.ofList (mkId { checkReserved := true } "wchar-t") = "Wchar_t" ∧
    String.ofList (mkId { checkReserved := true } "static-assert") = "Static_assert" ∧
    String.ofList (mkId { checkReserved := true } "thread-local") = "Thread_local" ∧
    String.ofList (mkId { checkReserved := true } "and--eq") = "And_eq" ∧
    String.ofList (mkId { checkReserved := true } "and-eq-x") = "and_eq_x" := by decide

/-- the type / member base name `construct_base_name` produces without `-fcompound-names` (the name is
    then the expression's own identifier) is never a reserved word -/
theorem base_name_not_reserved (chain : List String) (hne : chain ≠ []) :
    reservedKeyword (constructBaseName false true chain) = false := by
  unfold constructBaseName
  cases hrev : chain.reverse with
  | nil => exact absurd (List.reverse_eq_nil_iff.mp hrev) hne
  | cons self rest =>
    simp only [Bool.false_eq_true, if_false, List.foldl_nil, List.isEmpty_nil, Bool.and_self,
      if_true, List.nil_append]
    exact not_reserved _ rfl self

/-- the translator-extracted `res_kwd[]` contains every C99 keyword an ASN.1 name can spell and every
    C++14 keyword / alternative token (ISO 9899 6.4.1, ISO 14882 2.12) -/
def specKeywords : List String := [
  "auto", "break", "case", "char", "const", "continue", "default", "do", "double", "else", "enum",
  "extern", "float", "for", "goto", "if", "inline", "int", "long", "register", "restrict", "return",
  "short", "signed", "sizeof", "static", "struct", "switch", "typedef", "union", "unsigned", "void",
  "volatile", "while",
  "alignas", "alignof", "and", "and_eq", "asm", "bitand", "bitor", "bool", "catch", "char16_t",
  "char32_t", "class", "compl", "const_cast", "constexpr", "decltype", "delete", "dynamic_cast",
  "explicit", "export", "false", "friend", "mutable", "namespace", "new", "noexcept", "not", "not_eq",
  "nullptr", "operator", "or", "or_eq", "private", "protected", "public", "reinterpret_cast",
  "static_assert", "static_cast", "template", "this", "thread_local", "throw", "true", "try", "typeid",
  "typename", "using", "virtual", "wchar_t", "xor", "xor_eq"]

theorem reserved_table_complete : ∀ k ∈ specKeywords, k ∈ resKwd := by decide

/-- On ASN.1-shaped names (letters, digits, single hyphens) `asn1c_make_identifier` without the
    reserved-word flag is injective: two different names never collide after escaping. -/
theorem identifier_injective_on_asn1_names (a b : String)
    (ha : asn1Tail false a.toList = true) (hb : asn1Tail false b.toList = true)
    (h : mkId {} a = mkId {} b) : a = b := by
  have hna : a.toList ≠ [' '] := by intro hs; rw [hs] at ha; exact absurd ha (by decide)
  have hnb : b.toList ≠ [' '] := by intro hs; rw [hs] at hb; exact absurd hb (by decide)
  rw [mkId_eq _ a hna, mkId_eq _ b hnb] at h
  unfold emitPart at h
  simp only [Bool.not_true, Bool.false_and, Bool.false_eq_true, if_false, List.nil_append] at h
  rw [escapeChars_asn1 false _ ha, escapeChars_asn1 false _ hb] at h
  have := map_hyphen_injective _ _ (asn1Tail_no_underscore false _ ha) (asn1Tail_no_underscore false _ hb) h
  exact String.ext this

example : asn1Tail false "a-b-c1".toList = true := by decide

/-- `-fcompound-names`: the generated base name of a member type is `Parent__child` (two underscores),
    and a reserved word is capitalised only when it stands alone. -/
theorem compound_name_examples :
    String.ofList (constructBaseName true true ["T", "int", "a-b"]) = "T__int__a_b" ∧
    String.ofList (constructBaseName false true ["T", "int"]) = "Int" ∧
    String.ofList (constructBaseName true true ["int"]) = "Int" ∧
    String.ofList (constructBaseName true false ["int"]) = "int" ∧
    String.ofList (constructBaseName false true ["T", "xor-eq"]) = "Xor_eq" ∧
    String.ofList (constructBaseName true true ["T", "xor-eq"]) = "T__xor_eq" := by decide

/-! ## WfDescr: what the codecs get from a well-formed descriptor -/

/-- BER SEQUENCE decoder: the window of optional members searched from member `edx` stays inside the
    member array (`edx + elements[edx].optional ≤ elements_count`). -/
theorem wf_optional_window_in_bounds (n : Node) (o : Bool) (hk : n.kind = "sequence") (h : WfNode o n)
    (edx : Nat) (hi : edx < n.members.length) :
    edx + (n.members[edx]).optional ≤ n.members.length := by
  unfold WfNode nodeVerdict at h
  have hs : wfSpec o n = true := by
    by_cases hw : wfSpec o n = true
    · exact hw
    · simp [hw] at h
      repeat' split at h
      all_goals first | contradiction | simp at h
  unfold wfSpec at hs
  rw [hk] at hs
  cases hsp : n.spec with
  | seq fe ro ao oms t2e =>
    simp only [hsp, Bool.and_eq_true] at hs
    have hopt : wfOptional n.members = true := hs.1.1.1.1.1
    unfold wfOptional at hopt
    have heq : n.members.map (·.optional) = runLengths (n.members.map (fun m => decide (0 < m.optional))) := by
      simpa using hopt
    have hlen : edx < (runLengths (n.members.map (fun m => decide (0 < m.optional)))).length := by
      rw [runLengths_length]; simpa using hi
    have hb := runLengths_bound _ edx hlen
    have hget : (runLengths (n.members.map (fun m => decide (0 < m.optional))))[edx] = (n.members[edx]).optional := by
      have : (n.members.map (·.optional))[edx]'(by simpa using hi) = (n.members[edx]).optional := by simp
      rw [← this]; congr 1; exact heq.symm
    rw [hget] at hb
    simpa using hb
  | none => simp [hsp] at hs
  | set _ _ => simp [hsp] at hs
  | choice _ _ _ _ => simp [hsp] at hs
  | int _ _ _ _ => simp [hsp] at hs

/-- `tags` / `all_tags`: the effective tag chain is a sub-chain of the full chain with the same
    outermost tag, never longer, and both are empty together (untagged CHOICE) — so the IMPLICIT /
    EXPLICIT chain handed to `ber_check_tags` / `der_write_tags` is well-formed. -/
theorem wf_tags_chain (n : Node) (o : Bool) (h : WfNode o n) :
    n.tags.length ≤ n.allTags.length ∧ (n.tags = [] ↔ n.allTags = []) ∧
    n.tags.Sublist n.allTags ∧ n.tags.head? = n.allTags.head? := by
  unfold WfNode nodeVerdict at h
  have ht : wfTags n.tags n.allTags = true := by
    by_cases hw : wfTags n.tags n.allTags = true
    · exact hw
    · simp [hw] at h
  unfold wfTags at ht
  simp only [Bool.and_eq_true, decide_eq_true_eq, beq_iff_eq] at ht
  obtain ⟨⟨⟨h1, h2⟩, h3⟩, h4⟩ := ht
  refine ⟨h1, ?_, isSubseq_sublist _ _ h3, h4⟩
  cases ht : n.tags <;> cases ha : n.allTags <;> simp [ht, ha] at h2 ⊢

/-- CHOICE under PER: `to_canonical_order` and `from_canonical_order` undo each other on every
    alternative index (when the tables are present). -/
theorem wf_canonical_order_inverse (n : Nat) (es : Int) (to frm : List Nat)
    (h : wfCanon n es to frm = true) (hne : to ≠ []) (i : Nat) (hi : i < n) :
    (∃ j, to[i]? = some j ∧ frm[j]? = some i) ∧ (∃ j, frm[i]? = some j ∧ to[j]? = some i) := by
  unfold wfCanon at h
  have h' : isPermInverse n to frm = true := by
    rcases Bool.or_eq_true _ _ |>.mp h with h | h
    · simp at h; exact absurd h.1 hne
    · simp only [Bool.and_eq_true] at h; exact h.1
  exact isPermInverse_roundtrip n to frm h' i hi

/-- the run-length rule itself, on an example with an extension addition in the middle -/
example : runLengths [false, true, true, false, true] = [0, 2, 1, 0, 1] := by decide

/-- non-vacuity: the descriptor of `SEQUENCE { a [0] BOOLEAN OPTIONAL, ..., b [1] BOOLEAN OPTIONAL }` as asn1c
    emits it satisfies the predicate; the same descriptor with `oms` in the wrong order does not -/
def exampleNode (oms : List Nat) : Node :=
  { name := "T", kind := "sequence", tags := [⟨0, 16⟩], allTags := [⟨0, 16⟩], per := none,
    spec := .seq 1 1 1 oms [⟨⟨2, 0⟩, 0, 0, 0⟩, ⟨⟨2, 1⟩, 1, 0, 0⟩],
    members := [⟨"a", 1, 2, ⟨2, 0⟩, -1, false, none, none⟩, ⟨"b", 1, 1, ⟨2, 1⟩, -1, false, none, none⟩] }

example : WfNode true (exampleNode [0, 1]) := by decide +kernel
example : nodeVerdict true (exampleNode [1, 0]) = some "oms" := by decide +kernel

end Asn1c.Props.C10
