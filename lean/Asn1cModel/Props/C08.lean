/-
  C08 — "Constraint validation accepts exactly the values the specification allows":
  asn_check_constraints returns 0 for a structure iff every component at every nesting depth
  satisfies the value / SIZE / permitted-alphabet constraints of the ASN.1 source (and the built-in
  alphabets of the restricted strings); on failure -1 with a bounded, terminated message naming a
  type; it terminates for every structure.

  Spec  : Spec/ConstraintCheck.lean      (`satisfies`, X.680 §41, §51.4, §51.5, §51.7)
  Impl  : Impl/ConstraintCheck.lean      (generated checker code + skeleton walkers, defects included)
  Guard : Impl/ConstraintCheckDom.lean   (`dom`, the decidable region where the tree is right; it
                                          restricts leaf types only, every SEQUENCE / SET / CHOICE /
                                          SEQUENCE OF shape over admitted leaves is inside)
  Data  : Generated/AlphabetTables.lean (re-extracted from the working tree on every check run)
  Lemmas: Proofs/ConstraintCheck.lean

  The tree violates the property outside `dom`; each excluded region has a counter-example
  theorem below (F84, and the remainders F180 / F181 of the repaired F81 / F83; F182, bounds of 2^64
  or more in magnitude, is a region where the model does not follow the C compiler).  F81 (an INTEGER_t
  with a non-negative range was read through asn_INTEGER2long), F83 (a single-range FROM on
  UTF8String produced no test), F85 (a union with the outer edges MIN and MAX was dropped as a
  whole) and F86 (a constrained BMPString rejected the cells FFFE / FFFF) are repaired; the former
  witnesses are inside `dom` and decided correctly (`wide_unsigned_checked`, `utf8_from_checked`,
  `union_min_max_checked`, `bmp_all_cells_checked`).  F82 (the SIZE constraint of a named SEQUENCE OF / SET OF was never
  tested) is repaired (`named_list_size_checked`).  F26 (`INTEGER (0..4294967295)`: range test compiled away on LP64) is
  repaired (`ulong_full_range_checked`).  F48 (a generated checker with nothing applicable called itself) is
  repaired: the model has no non-returning verdict any more (`check_terminates`,
  `vacuous_constraint_returns`).  F25 (SEQUENCE_constraint / SET_constraint returned before the
  later members were checked) is repaired: `walkSeq` / `walkSet` mirror the repaired loops, the
  former witnesses are now inside `dom` and rejected (`walker_later_member_rejected`,
  `set_walker_later_member_rejected`).
-/
import Asn1cModel.Proofs.ConstraintCheck
namespace Asn1c.Props.C08
open Asn1c Asn1c.Spec.ConstraintCheck Asn1c.Impl.ConstraintCheck Asn1c.Generated.AlphabetTables
open Asn1c.Proofs.ConstraintCheck

/-! ## 1. The alphabet data extracted from the working tree is the X.680 alphabet
    (exhaustive over all 256 octets = proofs; re-checked whenever the source changes) -/

/-- skeletons/PrintableString.c: `_PrintableString_alphabet[c] != 0` iff `c` is one of
    A–Z a–z 0–9 space ' ( ) + , - . / : = ? -/
theorem printable_table_is_X680 :
    ∀ c, c < 256 → (printableTable.getD c 0 ≠ 0 ↔ printableChars c = true) := by
  intro c hc
  have := printable_lookup ⟨c, hc⟩
  simp only at this
  rw [← this]; simp

theorem printable_table_length : printableTable.length = 256 := by decide +kernel

/-- `_PrintableString_code2value` enumerates exactly the table's characters in increasing code order:
    entry `i` is the character whose table value is `i + 1` -/
theorem printable_code2value_is_inverse :
    ∀ i : Fin printableCode2Value.length,
      printableTable.getD (printableCode2Value.getD i.val 0) 0 = i.val + 1 := by decide +kernel

/-- … and every character of the alphabet has a code (74 of them) -/
theorem printable_code2value_complete :
    (List.range 256).countP (fun c => printableChars c) = printableCode2Value.length := by decide +kernel

/-- skeletons/NumericString.c: the `case` labels of NumericString_constraint are digits and space -/
theorem numeric_cases_is_X680 : ∀ c, c < 256 → (numericCases.contains c = true ↔ numericChars c = true) := by
  intro c hc
  have := numeric_lookup ⟨c, hc⟩
  simp only at this
  rw [this]

/-- skeletons/VisibleString.c: `*buf < lo || *buf > hi` rejects exactly the non-VisibleString octets -/
theorem visible_test_is_X680 :
    ∀ c, c < 256 → ((c < visibleLo ∨ c > visibleHi) ↔ visibleChars c = false) := by
  intro c hc
  have := visible_test ⟨c, hc⟩
  simp only at this
  cases hv : visibleChars c <;> simp [hv] at this ⊢ <;> omega

/-- skeletons/IA5String.c: `*buf > hi` rejects exactly the octets above 0x7F -/
theorem ia5_test_is_X680 : ∀ c, c < 256 → (c > ia5Hi ↔ ia5Chars c = false) := by
  intro c hc
  have := ia5_test ⟨c, hc⟩
  simp only at this
  cases hv : ia5Chars c <;> simp [hv] at this ⊢ <;> omega

/-- libasn1fix/asn1fix_constraint_compat.c: the default alphabets the compiler turns into the
    `permitted_alphabet_table_N` / comparison code of constrained strings are the X.680 alphabets -/
theorem compiler_printable_is_X680 :
    ∀ c : Nat, c < 256 → (inCons (toCons compilerPrintable) (c : Int) = printableChars c) :=
  fun c hc => default_printable ⟨c, hc⟩
theorem compiler_numeric_is_X680 :
    ∀ c : Nat, c < 256 → (inCons (toCons compilerNumeric) (c : Int) = numericChars c) :=
  fun c hc => default_numeric ⟨c, hc⟩
theorem compiler_visible_is_X680 :
    ∀ c : Nat, c < 256 → (inCons (toCons compilerVisible) (c : Int) = visibleChars c) :=
  fun c hc => default_visible ⟨c, hc⟩
theorem compiler_ia5_is_X680 :
    ∀ c : Nat, c < 256 → (inCons (toCons compilerIa5) (c : Int) = ia5Chars c) :=
  fun c hc => default_ia5 ⟨c, hc⟩

/-- skeletons/UTF8String.c `UTF8String_ht`: expected sequence length by lead octet
    (the RFC 2279 layout: 1–6 octets; 0x80–0xBF, 0xFE, 0xFF are illegal starts) -/
def leadLength (b : Nat) : Option Nat :=
  if b < 128 then some 1 else if b < 192 then none else if b < 224 then some 2
  else if b < 240 then some 3 else if b < 248 then some 4 else if b < 252 then some 5
  else if b < 254 then some 6 else none

theorem utf8_lead_table_is_RFC2279 : ∀ b : Fin 256, utf8Want b.val = leadLength b.val := by decide +kernel

/-! ## 2. `emit_range_comparison_code` -/

/-- **range_code_iff.**  For a value `x` representable in the C variable (between the natural
    start / stop the emitter was told about), the emitted comparison text — empty text = no test —
    is true iff `x` lies in the union of ranges.  Hypothesis `mixedFree`: in a union of two or more
    ranges every element prints something (true of the disjoint unions asn1fix_crange produces);
    see `range_code_mixed_cex`. -/
theorem range_code_iff (rs : Cons) (ns ne : Option Int) (x : Int)
    (hns : ∀ s, ns = some s → s ≤ x) (hne : ∀ e, ne = some e → x ≤ e)
    (hne0 : rs ≠ []) (hmix : mixedFree rs ns ne = true) :
    (let code := emitRange rs ns ne; code.isEmpty = true ∨ code.eval x = true) ↔ inCons rs x = true := by
  have := emitRange_spec rs ns ne x hns hne hne0 hmix
  simp only [codeAccepts] at this
  simp only [← this, Bool.or_eq_true]

example : mixedFree [⟨some 0, some 5⟩, ⟨some 10, some 20⟩, ⟨some 100, some 100⟩] none none = true := by decide

/-- the shortcuts: a bound that coincides with the natural start / stop is not printed -/
example : emitRange [⟨some 0, some 7⟩] (some 0) none = [.le 7] := by decide
example : emitRange [⟨some 5, none⟩] (some 0) none = [.ge 5] := by decide
example : emitRange [⟨some 0, none⟩] (some 0) none = [] := by decide
example : emitRange [⟨some 5, some 5⟩] none none = [.eq 5] := by decide
example : emitRange [⟨some 97, some 122⟩] (some 0) (some 255) = [.between 97 122] := by decide

/-- why `mixedFree` is needed: an element that prints nothing is *dropped* from the `||` chain, so
    a (non-canonical) union containing an all-covering element would reject members of it -/
theorem range_code_mixed_cex :
    let rs : Cons := [⟨some 0, none⟩, ⟨some 3, some 3⟩]
    inCons rs 7 = true ∧ (emitRange rs (some 0) none).eval 7 = false ∧ mixedFree rs (some 0) none = false := by
  decide

/-! ## 3. The main theorem -/

/-- **check_iff_satisfies_partial.**  On the guard domain, `asn_check_constraints` returns 0
    exactly for the values that satisfy every value / SIZE / FROM constraint of the ASN.1 source
    and the built-in alphabets, at every nesting depth.  `dom` admits every SEQUENCE / SET shape
    (any number of components, with or without constraints of their own, in any order): the
    remaining guards concern leaf types only (F84: UTF-8 forms that are not RFC 3629; F180: an
    INTEGER_t value outside the 64-bit C variable; F181: FROM on UTF8String beyond U+007F; F182:
    bounds of 2^64 or more in magnitude). -/
theorem check_iff_satisfies_partial (name : String) (t : Ty) (v : Val) (h : dom name t v = true) :
    check name t v = .ok ↔ satisfies t v = true :=
  descr_iff t name v h

/-- **Termination.**  `Impl.check` is a total function (structural recursion on the type) whose
    verdict is 0 or -1 for *every* type and value: since the repair of F48 no generated checker
    refers to itself (a type-level function with nothing applicable calls the checker of the
    underlying type by name), so the model has no non-returning pattern left and the former
    `selfloop` verdict is gone.  The K leg ties every C call on the generated cases to this function;
    the former F48 witnesses are `vacuous_constraint_returns` below. -/
theorem check_terminates (name : String) (t : Ty) (v : Val) :
    check name t v = .ok ∨ ∃ n w, check name t v = .fail n w := by
  cases hc : check name t v with
  | ok => exact Or.inl rfl
  | fail n w => exact Or.inr ⟨n, w, rfl⟩

/-! Non-vacuity: a nested type with SIZE, FROM, value ranges, OPTIONAL, CHOICE, SEQUENCE OF and a
    reference lies in the domain; valid and violating values are decided correctly. -/

def exInner : Ty := .seq (.cons "x" false (.int (some [⟨some 0, some 3⟩]))
                    (.cons "y" false (.str .ia5 (some [⟨some 1, some 2⟩]) (some [⟨some 97, some 122⟩])) .nil))
def exTy : Ty :=
  .seq (.cons "a" false (.int (some [⟨some (-5), some 5⟩, ⟨some 10, none⟩]))
       (.cons "b" true (.str .printable (some [⟨some 2, some 2⟩]) none)
       (.cons "l" false (.listOf false (some [⟨some 1, some 2⟩]) (.named "Inner" exInner))
       (.cons "c" false (.choice (.cons "u" false (.str .utf8 (some [⟨some 1, some 3⟩]) none)
                                 (.cons "n" false .null .nil))) .nil))))
def exGood : Val := .struct [("a", .int 12), ("l", .list [.struct [("x", .int 3), ("y", .octets [97, 98])]]),
                             ("c", .choice "u" (.octets [0xC3, 0xA9, 0x41]))]
/-- one violation, deep inside: the second character of `l[0].y` is 'A', outside FROM("a".."z") -/
def exBad : Val := .struct [("a", .int 12), ("l", .list [.struct [("x", .int 3), ("y", .octets [97, 65])]]),
                            ("c", .choice "u" (.octets [0xC3, 0xA9, 0x41]))]

example : dom "T" exTy exGood = true := by decide +kernel
example : check "T" exTy exGood = .ok := by decide +kernel
example : satisfies exTy exGood = true := by decide +kernel
example : dom "T" exTy exBad = true := by decide +kernel
example : check "T" exTy exBad = .fail "IA5String" .constraintFailed := by decide +kernel
example : satisfies exTy exBad = false := by decide +kernel

/-! ## 3b. Repaired defects (F25, F48, F26, F82): the former witnesses -/

/-- **F25 repaired (SEQUENCE), the former witness.**  `SEQUENCE { a BOOLEAN, b INTEGER (0..7) }`:
    `a` has no member-level checker; the walker goes on after its verdict 0 and `b = 9` is rejected.
    The case lies inside the proved domain. -/
theorem walker_later_member_rejected :
    let t : Ty := .seq (.cons "a" false .bool (.cons "b" false (.int (some [⟨some 0, some 7⟩])) .nil))
    let v : Val := .struct [("a", .bool true), ("b", .int 9)]
    check "A" t v = .fail "INTEGER" .constraintFailed ∧ satisfies t v = false ∧ dom "A" t v = true := by
  decide +kernel

/-- **F25 repaired (SET), the former witness.**  `SET { a INTEGER (0..7), b INTEGER (0..7) }`:
    SET_constraint goes on after the first present member, `b = 9` is rejected. -/
theorem set_walker_later_member_rejected :
    let t : Ty := .set (.cons "a" false (.int (some [⟨some 0, some 7⟩])) (.cons "b" false (.int (some [⟨some 0, some 7⟩])) .nil))
    let v : Val := .struct [("a", .int 1), ("b", .int 9)]
    check "J" t v = .fail "INTEGER" .constraintFailed ∧ satisfies t v = false ∧ dom "J" t v = true := by
  decide +kernel

/-- components without constraints of their own (BOOLEAN, a reference, an unconstrained string, a nested
    SET with three components) in front of the violated one, at two levels: inside `dom`, rejected -/
example :
    let inner : Ty := .set (.cons "p" false .bool (.cons "q" true .null (.cons "r" false (.int (some [⟨some 1, some 2⟩])) .nil)))
    let t : Ty := .seq (.cons "a" false .bool (.cons "n" false (.named "I1" (.int (some [⟨some 0, some 7⟩])))
                  (.cons "s" false (.str .printable none none) (.cons "i" false inner (.cons "z" false .bool .nil)))))
    let v : Val := .struct [("a", .bool false), ("n", .int 7), ("s", .octets [65]),
                            ("i", .struct [("p", .bool true), ("r", .int 3)]), ("z", .bool true)]
    dom "T" t v = true ∧ satisfies t v = false ∧ check "T" t v = .fail "INTEGER" .constraintFailed := by
  decide +kernel

/-- **F48 repaired, the former witnesses.**  `A ::= INTEGER (0..MAX)`, `C ::= INTEGER (MIN..MAX)`,
    `O ::= OCTET STRING (SIZE(0..MAX))`, and an inline component `u INTEGER (0..MAX)` (which gets a
    descriptor of its own): nothing applicable is emitted, the generated function calls the checker
    of the underlying type (it used to call itself: unbounded recursion) and returns 0; the values
    satisfy the constraints and the cases lie inside the proved domain. -/
theorem vacuous_constraint_returns :
    check "A" (.int (some [⟨some 0, none⟩])) (.int 5) = .ok ∧
    check "C" (.int (some [⟨none, none⟩])) (.int 5) = .ok ∧
    check "O" (.str .octet (some [⟨some 0, none⟩]) none) (.octets [1]) = .ok ∧
    check "S" (.seq (.cons "u" false (.int (some [⟨some 0, none⟩])) .nil)) (.struct [("u", .int 1)]) = .ok ∧
    dom "A" (.int (some [⟨some 0, none⟩])) (.int 5) = true ∧
    dom "C" (.int (some [⟨none, none⟩])) (.int 5) = true ∧
    dom "O" (.str .octet (some [⟨some 0, none⟩]) none) (.octets [1]) = true ∧
    dom "S" (.seq (.cons "u" false (.int (some [⟨some 0, none⟩])) .nil)) (.struct [("u", .int 1)]) = true := by
  decide +kernel

/-- the fall back is the skeleton checker of the underlying type, not "accept": a named
    `BIT STRING (SIZE(0..MAX))` still rejects an ill-formed unused-bit count, reporting the type's name;
    an alias of a list type with a vacuous SIZE still walks the elements -/
example :
    check "BS" (.str .bit (some [⟨some 0, none⟩]) none) (.bits [] 3) = .fail "BS" .padding ∧
    check "LA" (.named "L" (.listOf true (some [⟨some 0, none⟩]) (.int (some [⟨some 0, some 7⟩])))) (.list [.int 9])
      = .fail "INTEGER" .constraintFailed := by decide +kernel

/-- **F26 repaired, the former witness.**  `INTEGER (0..4294967295)` in a 64-bit `unsigned long`: the
    range test is emitted (`value <= 4294967295`; it used to be compiled away on the assumption of a
    32-bit `unsigned long`), 2^32 is rejected and both bounds are accepted; inside `dom`. -/
theorem ulong_full_range_checked :
    let t : Ty := .int (some [⟨some 0, some 4294967295⟩])
    check "B" t (.int 4294967296) = .fail "B" .constraintFailed ∧ satisfies t (.int 4294967296) = false ∧
    dom "B" t (.int 4294967296) = true ∧
    check "B" t (.int 4294967295) = .ok ∧ check "B" t (.int 0) = .ok ∧
    -- as an inline component (descriptor of its own, member-level checker)
    check "S" (.seq (.cons "b" false t .nil)) (.struct [("b", .int 4294967296)]) = .fail "b" .constraintFailed := by
  decide +kernel

/-- **F82 repaired, the former witness.**  `O ::= SEQUENCE (SIZE(1..2)) OF INTEGER (0..7)`: the named
    type's descriptor carries a generated `O_constraint` that tests SIZE and then walks the elements
    (it used to carry the plain walker): the empty list and a list of three are rejected, naming `O`;
    sizes 1 and 2 are accepted and their elements still checked; a plain reference `m O` inside a
    SEQUENCE gets the same verdicts; the alias `O2 ::= O` behaves as before.  All inside `dom`. -/
theorem named_list_size_checked :
    let o : Ty := .listOf false (some [⟨some 1, some 2⟩]) (.int (some [⟨some 0, some 7⟩]))
    check "O" o (.list []) = .fail "O" .constraintFailed ∧ satisfies o (.list []) = false ∧
    dom "O" o (.list []) = true ∧
    check "O" o (.list [.int 1, .int 2, .int 3]) = .fail "O" .constraintFailed ∧
    check "O" o (.list [.int 1, .int 2]) = .ok ∧
    check "O" o (.list [.int 1, .int 9]) = .fail "INTEGER" .constraintFailed ∧
    check "W" (.seq (.cons "n" false .bool (.cons "m" false (.named "O" o) .nil)))
        (.struct [("n", .bool true), ("m", .list [])]) = .fail "O" .constraintFailed ∧
    check "O2" (.named "O" o) (.list []) = .fail "O2" .constraintFailed := by decide +kernel

/-! ## 4. Repaired defects (F81, F83, F85, F86): the former witnesses; counter-examples for the
    regions that remain excluded (the tree as it is, mirrored by Impl) -/

/-- **F81 repaired, the former witness.**  `INTEGER (0..18446744073709551615)` lives in INTEGER_t; its
    lower edge is ≥ 0, so the generated code declares `unsigned long value` and reads it through
    asn_INTEGER2ulong (it used asn_INTEGER2long: "value too large" from 2^63 on): 2^63 and 2^64-1 are
    accepted, -1 and 2^64 rejected; the same for `(5000000000..MAX)`.  All inside `dom` except 2^64,
    which no `unsigned long` holds. -/
theorem wide_unsigned_checked :
    let t : Ty := .int (some [⟨some 0, some 18446744073709551615⟩])
    let t2 : Ty := .int (some [⟨some 5000000000, none⟩])
    check "Y" t (.int 9223372036854775808) = .ok ∧ satisfies t (.int 9223372036854775808) = true ∧
    dom "Y" t (.int 9223372036854775808) = true ∧
    check "Y" t (.int 18446744073709551615) = .ok ∧ dom "Y" t (.int 18446744073709551615) = true ∧
    check "Y" t (.int 0) = .ok ∧
    check "Y" t (.int 18446744073709551616) = .fail "Y" .valueTooLarge ∧ satisfies t (.int 18446744073709551616) = false ∧
    check "Y2" t2 (.int 9223372036854775808) = .ok ∧ dom "Y2" t2 (.int 9223372036854775808) = true ∧
    check "Y2" t2 (.int 4999999999) = .fail "Y2" .constraintFailed ∧ dom "Y2" t2 (.int 4999999999) = true := by
  decide +kernel

/-- **F180 (what remains of F81).**  The generated code still converts the INTEGER_t into a 64-bit C
    variable before comparing: with a negative lower edge the variable is a `long`, so
    `INTEGER (-1..18446744073709551615)` rejects the valid 2^63, and
    `INTEGER (-18446744073709551615..0)` the valid -2^63-1.  Outside `dom`. -/
theorem wide_integer_cex :
    let t : Ty := .int (some [⟨some (-1), some 18446744073709551615⟩])
    let t2 : Ty := .int (some [⟨some (-18446744073709551615), some 0⟩])
    check "Y3" t (.int 9223372036854775808) = .fail "Y3" .valueTooLarge ∧
    satisfies t (.int 9223372036854775808) = true ∧ dom "Y3" t (.int 9223372036854775808) = false ∧
    check "Y4" t2 (.int (-9223372036854775809)) = .fail "Y4" .valueTooLarge ∧
    satisfies t2 (.int (-9223372036854775809)) = true ∧ dom "Y4" t2 (.int (-9223372036854775809)) = false := by
  decide +kernel

/-- bounds of 2^64 or more in magnitude are outside `dom` (F182: the C compiler truncates the emitted
    constant, which the model does not mirror) -/
example : dom "Y5" (.int (some [⟨some 0, some 1180591620717411303424⟩])) (.int 1) = false := by decide +kernel

/-- **F83 repaired, the former witness.**  `UTF8String (FROM("a".."z"))`: a FROM within 0..127 is tested
    through the 128-entry table also when it is a single range (it produced no test): "A" is rejected,
    "az" accepted, a two-octet character rejected; with a SIZE constraint as well.  Inside `dom`. -/
theorem utf8_from_checked :
    let t : Ty := .str .utf8 none (some [⟨some 97, some 122⟩])
    let t2 : Ty := .str .utf8 (some [⟨some 1, some 3⟩]) (some [⟨some 97, some 122⟩])
    check "R" t (.octets [65]) = .fail "R" .constraintFailed ∧ satisfies t (.octets [65]) = false ∧
    dom "R" t (.octets [65]) = true ∧
    check "R" t (.octets [97, 122]) = .ok ∧ dom "R" t (.octets [97, 122]) = true ∧
    check "R" t (.octets [97, 0xC3, 0xA9]) = .fail "R" .constraintFailed ∧ dom "R" t (.octets [97, 0xC3, 0xA9]) = true ∧
    check "R2" t2 (.octets [97, 65]) = .fail "R2" .constraintFailed ∧ dom "R2" t2 (.octets [97, 65]) = true ∧
    check "R2" t2 (.octets [97, 98, 99, 100]) = .fail "R2" .constraintFailed ∧
    check "R2" t2 (.octets [97, 98, 99]) = .ok := by decide +kernel

/-- **F181 (what remains of F83).**  A FROM on UTF8String that reaches beyond U+007F is still not
    compiled into a test (the generated loop works octet by octet): `UTF8String (FROM("a".."ÿ"))`
    accepts "A".  Outside `dom`. -/
theorem utf8_from_cex :
    let t : Ty := .str .utf8 none (some [⟨some 97, some 255⟩])
    check "R" t (.octets [65]) = .ok ∧ satisfies t (.octets [65]) = false ∧ dom "R" t (.octets [65]) = false := by
  decide +kernel

/-- **F84.**  UTF8String_length accepts an encoded surrogate (ED A0 80) and a 5-octet form, which are
    not UTF-8 (RFC 3629 / ISO 10646); tests-skeletons/check-UTF8String.c pins the 5-octet form. -/
theorem utf8_legacy_forms_cex :
    check "U" (.str .utf8 none none) (.octets [0xED, 0xA0, 0x80]) = .ok ∧
    satisfies (.str .utf8 none none) (.octets [0xED, 0xA0, 0x80]) = false ∧
    check "U" (.str .utf8 none none) (.octets [0xF8, 0x88, 0x80, 0x80, 0x80]) = .ok ∧
    satisfies (.str .utf8 none none) (.octets [0xF8, 0x88, 0x80, 0x80, 0x80]) = false := by decide +kernel

/-- **F85 repaired, the former witnesses.**  A union whose outer edges are MIN and MAX is no longer
    dropped as a whole: the component `a INTEGER (MIN..0 | 5..MAX)` rejects 3 and accepts 0 and 5, the
    named type too, `b OCTET STRING (SIZE(0..2 | 5..MAX))` rejects three octets, a named
    `SEQUENCE (SIZE(0..1 | 3..MAX)) OF` rejects two elements.  Inside `dom`. -/
theorem union_min_max_checked :
    let ti : Ty := .int (some [⟨none, some 0⟩, ⟨some 5, none⟩])
    let t : Ty := .seq (.cons "a" false ti .nil)
    let tb : Ty := .seq (.cons "b" false (.str .octet (some [⟨some 0, some 2⟩, ⟨some 5, none⟩]) none) .nil)
    let tl : Ty := .listOf false (some [⟨some 0, some 1⟩, ⟨some 3, none⟩]) .bool
    check "S" t (.struct [("a", .int 3)]) = .fail "INTEGER" .constraintFailed ∧ satisfies t (.struct [("a", .int 3)]) = false ∧
    dom "S" t (.struct [("a", .int 3)]) = true ∧
    check "S" t (.struct [("a", .int 0)]) = .ok ∧ check "S" t (.struct [("a", .int 5)]) = .ok ∧
    check "N" ti (.int 3) = .fail "N" .constraintFailed ∧ dom "N" ti (.int 3) = true ∧ check "N" ti (.int (-7)) = .ok ∧
    check "S" tb (.struct [("b", .octets [1, 2, 3])]) = .fail "OCTET STRING" .constraintFailed ∧
    dom "S" tb (.struct [("b", .octets [1, 2, 3])]) = true ∧
    check "S" tb (.struct [("b", .octets [1, 2])]) = .ok ∧ check "S" tb (.struct [("b", .octets [1, 2, 3, 4, 5])]) = .ok ∧
    check "L" tl (.list [.bool true, .bool false]) = .fail "L" .constraintFailed ∧
    dom "L" tl (.list [.bool true, .bool false]) = true ∧ check "L" tl (.list [.bool true]) = .ok := by
  decide +kernel

/-- **F86 repaired, the former witness.**  The compiler's default alphabet of BMPString is 0..65535:
    a constrained BMPString accepts the cells FFFE and FFFF like the unconstrained checker does;
    SIZE and FROM are still tested.  Inside `dom`. -/
theorem bmp_all_cells_checked :
    let t : Ty := .str .bmp (some [⟨some 1, some 1⟩]) none
    check "B" t (.octets [0xFF, 0xFF]) = .ok ∧ satisfies t (.octets [0xFF, 0xFF]) = true ∧
    dom "B" t (.octets [0xFF, 0xFF]) = true ∧
    check "B" t (.octets [0xFF, 0xFE]) = .ok ∧
    check "B0" (.str .bmp none none) (.octets [0xFF, 0xFF]) = .ok ∧
    check "B" t (.octets [0xFF, 0xFF, 0, 0x61]) = .fail "B" .constraintFailed ∧
    check "B3" (.str .bmp none (some [⟨some 97, some 122⟩])) (.octets [0xFF, 0xFF]) = .fail "B3" .constraintFailed := by
  decide +kernel

/-! ## 5. The walkers check every component and report the first failing one in member order -/

/-- verdicts of the components in member order (absent OPTIONAL ones contribute nothing, an absent
    mandatory one is a failure of the SEQUENCE / SET itself) -/
def memberVerdicts (nm : String) : Members → List (String × Val) → List Verdict
  | .nil, _ => []
  | .cons id opt t rest, fs =>
      (match lookupField id fs with
       | none => if opt then [] else [.fail nm .absent]
       | some v => [memberChk id t v]) ++ memberVerdicts nm rest fs

/-- **walker_finds_first.**  For every SEQUENCE type and every value, SEQUENCE_constraint returns
    the first non-zero verdict in member order — the message therefore names the first failing
    component's type — and 0 if there is none: no component is skipped. -/
theorem walker_finds_first : ∀ (nm : String) (ms : Members) (fs : List (String × Val)),
    walkSeq nm ms fs = ((memberVerdicts nm ms fs).find? (· ≠ .ok)).getD .ok
  | nm, .nil, fs => by simp [walkSeq, memberVerdicts]
  | nm, .cons id opt t rest, fs => by
    have ih := walker_finds_first nm rest fs
    simp only [walkSeq, memberVerdicts]
    cases hl : lookupField id fs with
    | none => cases opt <;> simp [ih]
    | some v =>
      simp only [memberChk]
      cases hv : memberSel id t v (occChk id t v) <;> simp [ih]

/-- **set_walker_finds_first.**  The same for SET_constraint. -/
theorem set_walker_finds_first : ∀ (nm : String) (ms : Members) (fs : List (String × Val)),
    walkSet nm ms fs = ((memberVerdicts nm ms fs).find? (· ≠ .ok)).getD .ok
  | nm, .nil, fs => by simp [walkSet, memberVerdicts]
  | nm, .cons id opt t rest, fs => by
    have ih := set_walker_finds_first nm rest fs
    simp only [walkSet, memberVerdicts]
    cases hl : lookupField id fs with
    | none => cases opt <;> simp [ih]
    | some v =>
      simp only [memberChk]
      cases hv : memberSel id t v (occChk id t v) <;> simp [ih]

/-- **walker_checks_every_member.**  SEQUENCE_constraint / SET_constraint return 0 exactly when no
    mandatory component is absent and the checker of *every* present component returns 0. -/
theorem walker_checks_every_member (nm : String) (ms : Members) (fs : List (String × Val)) :
    (walkSeq nm ms fs = .ok ↔ ∀ r ∈ memberVerdicts nm ms fs, r = .ok) ∧
    (walkSet nm ms fs = .ok ↔ ∀ r ∈ memberVerdicts nm ms fs, r = .ok) := by
  have key : ∀ l : List Verdict, ((l.find? (· ≠ .ok)).getD .ok = .ok ↔ ∀ r ∈ l, r = .ok) := by
    intro l
    induction l with
    | nil => simp
    | cons a l ih =>
      cases a with
      | ok => simpa [List.find?] using ih
      | fail n w => simp [List.find?]
  rw [walker_finds_first, set_walker_finds_first]
  exact ⟨key _, key _⟩

/-- two failing components: the one that comes first in the type is reported -/
example :
    let t : Ty := .seq (.cons "a" false (.int (some [⟨some 0, some 7⟩]))
                       (.cons "b" false (.str .ia5 (some [⟨some 1, some 1⟩]) none)
                       (.cons "c" false (.int (some [⟨some 0, some 7⟩])) .nil)))
    check "T" t (.struct [("c", .int 9), ("b", .octets []), ("a", .int 1)]) = .fail "IA5String" .constraintFailed := by
  decide +kernel

/-! ## 6. The error buffer (`_asn_i_ctfailcb`, `asn_check_constraints`) -/

/-- **errbuf_bounded.**  With `errlen = 0` the callback stores nothing; with `errlen > 0` it stores
    the first `n = min (errlen - 1) |msg|` octets of the message followed by NUL and leaves `n` in
    `*errlen`. -/
theorem errbuf_bounded (errlen : Nat) (msg : List Nat) :
    (errlen = 0 → ctfail errlen msg = ([], 0)) ∧
    (0 < errlen → ctfail errlen msg =
        (msg.take (min (errlen - 1) msg.length) ++ [0], min (errlen - 1) msg.length)) := by
  unfold ctfail
  constructor
  · intro h; simp [h]
  · intro h
    have h0 : errlen ≠ 0 := by omega
    simp only [h0, if_false]
    by_cases hl : msg.length ≥ errlen
    · have : min (errlen - 1) msg.length = errlen - 1 := by omega
      simp [hl, this]
    · have : min (errlen - 1) msg.length = msg.length := by omega
      simp [hl, this]

/-- … hence the write stays inside `errbuf[0 .. errlen-1]`, ends with NUL, and the reported length
    is below the buffer size -/
theorem errbuf_within (errlen : Nat) (msg : List Nat) (h : 0 < errlen) :
    (ctfail errlen msg).1.length = (ctfail errlen msg).2 + 1 ∧
    (ctfail errlen msg).1.length ≤ errlen ∧ (ctfail errlen msg).2 ≤ errlen - 1 ∧
    (ctfail errlen msg).1.getLast? = some 0 := by
  rw [(errbuf_bounded errlen msg).2 h]
  simp [List.length_take]
  omega

/-- no NUL inside the written text when the message has none -/
theorem errbuf_no_inner_nul (errlen : Nat) (msg : List Nat) (h : 0 < errlen) (hm : ∀ b ∈ msg, b ≠ 0) :
    ∀ b ∈ (ctfail errlen msg).1.take (ctfail errlen msg).2, b ≠ 0 := by
  rw [(errbuf_bounded errlen msg).2 h]
  intro b hb
  simp only at hb
  rw [List.take_append_of_le_length (by simp [List.length_take])] at hb
  exact hm b (List.mem_of_mem_take (List.mem_of_mem_take hb))

/-- `asn_check_constraints`: 0 leaves `*errlen` alone and writes nothing; a failure returns -1 -/
theorem report_contract (errlen : Nat) :
    reportErr none errlen = (0, [], errlen) ∧ ∀ msg, (reportErr (some msg) errlen).1 = -1 := by
  constructor
  · rfl
  · intro msg; simp [reportErr]

end Asn1c.Props.C08
