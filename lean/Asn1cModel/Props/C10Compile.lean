import Asn1cModel.Proofs.CompileDescr
import Asn1cModel.Props.C09
/-
  C10 (compile leg) — the compiler half of asn1c tied to the reference codecs.

  Impl  = Impl.CompileDescr: `compileDescr : Module → Opts → Names → TypeName → Descr`, a model of the translation
          "module AST → descriptor tables" (libasn1fix tag fixing / automatic tagging / tag chains, asn1c_C.c table
          emitters), tied to the C code by the `compile_descr` correspondence of vlib/c10_compile.py: the model's
          descriptor graph is compared field by field with the `descr` dump of the code asn1c really generated.
  Bridge = Impl.CompileDescrL2.`toL2`: the total restatement of the `partial def L2.resolveTy` on the typed AST; the
          driver op `l2same` checks `toL2 = resolveTy` on every type the K leg visits.
  Spec  = the L2 layer (L2/Types, L2/Der `outerTags`, L2/PerTypes attributes) and Spec.Constraint (X.691 layouts).

  (a) the tag chains the generated tables carry are the tags of the resolved L2 types (top level and members,
      written tags IMPLICIT/EXPLICIT/default and AUTOMATIC tagging, through references);
  (b) tag2el is sorted, strictly when the members' tags are pairwise distinct, and binary search with
      `_search4tag` finds exactly the member that carries the tag;
  (c) oms lists exactly the OPTIONAL/DEFAULT root members, ascending, = the L2 attributes;
  (d) the PER record of INTEGER (l..u[,...]) is the X.691 layout the UPER reference codec uses:
      constrained, lb = l, ub = u, range_bits = ⌈log2(u−l+1)⌉, extensible flag as written;
  (e) the element type of SEQUENCE OF / SET OF: a written tag is resolved like a component's tag;
  (f) a type assignment that references (or tags) another type carries the PER records of that type; ENUMERATED,
      CHOICE, known-multiplier string and time types always have them (findings F38 / F123 / F111 repaired).
-/
namespace Asn1c.Props.C10Compile
open Asn1c Asn1c.L2 Asn1c.Impl.BerTlv Asn1c.Impl.CompileDescr

/-! ## (a) tags -/

/-- **top-level types**: `td->tags` of the descriptor generated for a type (the tag chain
    `asn1f_fetch_tags` assembles after `asn1f_fix_constr_tag`) is the tag list of the type the L2 codecs resolve.
    The DER/BER round-trip theorems of C01/C02 therefore speak about the tags the generated tables carry. -/
theorem compiled_tags_eq_resolved (M : Module) (htd : ValidTagDefault M) (t : CTy) (ty : Ty) (k : Nat)
    (hk : k ≤ 64) (h : toL2 M k t = some ty) :
    tagsOf (fixModule M) (fixTop M t) = tyTags ty :=
  tagsOf_chain (fixModule M) (fixTop M t) (tyTags ty)
    (l2_chain M htd k t (tyTags ty) hk (toL2_tags M k t ty h) M.fuel hk)

/-- in particular for a named type resolved the way the reference codecs do (`L2.resolveNamed`, fuel 64) -/
theorem compiled_tags_eq_resolved_named (M : Module) (htd : ValidTagDefault M) (name : String) (t : CTy) (ty : Ty)
    (hl : M.lookup name = some t) (h : toL2Named M name = some ty) :
    (fixModule M).lookup name = some (fixTop M t) ∧ tagsOf (fixModule M) (fixTop M t) = tyTags ty := by
  refine ⟨by rw [lookup_fix, hl]; rfl, ?_⟩
  unfold toL2Named at h
  rw [hl] at h
  exact compiled_tags_eq_resolved M htd t ty 64 (Nat.le_refl _) h

/-- **members** of SEQUENCE / SET / CHOICE: after the fixer (written tags with the module default, or automatic
    tagging when selected) the chain of every component is the tag list of the component as
    `L2.resolveComps` tags it — X.680 §31.2.7 and §25.8/§29.x. -/
theorem compiled_member_tags_eq_resolved (M : Module) (htd : ValidTagDefault M) (k : Nat) (hk : k ≤ 64)
    (tag : Option WTag) (ck : CK) (ext : Option Nat) (comps : List Comp) (ms : List Ty) (as : List Attr)
    (h : l2Comps (toL2 M k) (autoSelected M comps) (ext.getD comps.length) 0 comps = some (ms, as)) :
    ∃ comps', fixTy M (.constr tag ck ext comps) = .constr tag ck ext comps' ∧
      comps'.map (fun c => tagsOf (fixModule M) c.ty) = ms.map tyTags := by
  refine ⟨fixComps M (autoSelected M comps) 0 comps, rfl, ?_⟩
  have hm := members_chain M htd k hk (autoSelected M comps) (ext.getD comps.length) comps 0 ms as
    (autoSelected_untagged M comps) h
  have hlen : (fixComps M (autoSelected M comps) 0 comps).length = ms.length := by
    have := congrArg List.length hm; simpa using this
  apply List.ext_getElem (by simpa using hlen)
  intro i h1 h2
  simp only [List.getElem_map]
  have := congrArg (fun l => l[i]?) hm
  simp only [List.getElem?_map] at this
  rw [List.getElem?_eq_getElem (by simpa using h1), List.getElem?_eq_getElem (by simpa using h2)] at this
  simp only [Option.map_some, Option.some.injEq] at this
  exact tagsOf_chain _ _ _ this

/-- the `tag` of a member (`asn1f_fetch_outmost_tag`) is the first tag of its chain; `none` (the "ambiguous"
    marker −1) exactly for a type without tags of its own, i.e. an untagged CHOICE -/
theorem member_tag_is_chain_head (M : Module) (f : Nat) (t : CTy) (c : List Tag) (h : chain M f t = some c) :
    outmost M f t = c.head? := outmost_eq_chain_head M f t c h

/-- **tag2el carries the outermost tags of the resolved members**: for a SEQUENCE / SET / CHOICE resolved by the L2
    layer into the members `ms`, the (tag, element number) pairs asn1c collects (`_fill_tag2el_map`, untagged
    CHOICE members flattened, through references) are exactly (g, i) with g ∈ `L2.outerTags ms[i]` — the tags the
    reference BER decoder dispatches on -/
theorem tag2el_pairs_are_outerTags (M : Module) (htd : ValidTagDefault M) (k : Nat) (hk : k ≤ 64)
    (ext : Option Nat) (comps : List Comp) (ms : List Ty) (as : List Attr)
    (h : l2Comps (toL2 M k) (autoSelected M comps) (ext.getD comps.length) 0 comps = some (ms, as))
    (g : Tag) (i : Nat) :
    (∃ e ∈ tag2el (fixModule M) (fixComps M (autoSelected M comps) 0 comps), e.tag = g ∧ e.elNo = i) ↔
      ∃ m, ms[i]? = some m ∧ g ∈ outerTags m := by
  rw [tag2el_mem, t2eRaw_eq_pairs M htd k hk _ _ comps 0 ms as (autoSelected_untagged M comps) h, pairsFrom_mem]
  simp

/-- **the generated dispatch table agrees with the reference decoder**: if the outermost tags of the resolved
    members are pairwise distinct (X.680 §27.3 / §29.3; `L2.outerTagsAlts ms` has no duplicates), then for every
    member `i` and every tag `g` a value of that member can start with, `bsearch`/`_search4tag` on the emitted
    `tag2el` returns an entry with `el_no = i` -/
theorem tag2el_dispatch_agrees_with_reference (M : Module) (htd : ValidTagDefault M) (k : Nat) (hk : k ≤ 64)
    (ext : Option Nat) (comps : List Comp) (ms : List Ty) (as : List Attr)
    (h : l2Comps (toL2 M k) (autoSelected M comps) (ext.getD comps.length) 0 comps = some (ms, as))
    (hnd : (outerTagsAlts ms).Nodup) (i : Nat) (m : Ty) (hm : ms[i]? = some m) (g : Tag) (hg : g ∈ outerTags m) :
    ∃ e, bsearchTag g (tag2el (fixModule M) (fixComps M (autoSelected M comps) 0 comps)) = some e ∧
      e.tag = g ∧ e.elNo = i := by
  have hraw := t2eRaw_eq_pairs M htd k hk _ _ comps 0 ms as (autoSelected_untagged M comps) h
  have hnd' : ((t2eRaw (fixModule M) 0 (fixComps M (autoSelected M comps) 0 comps)).map (·.1)).Nodup := by
    rw [hraw, pairsFrom_fst]; exact hnd
  obtain ⟨e, he, h1, h2⟩ := (tag2el_pairs_are_outerTags M htd k hk ext comps ms as h g i).mpr ⟨m, hm, hg⟩
  exact ⟨e, bsearchTag_finds g _ (tag2el_strict _ _ hnd') e he h1, h1, h2⟩

/-! ## (b) tag2el -/

/-- the emitted map is sorted by `_tag2el_cmp` (class, value, element number) — always -/
theorem tag2el_sorted (M : Module) (comps : List Comp) :
    ((tag2el M comps).map fun e => (e.tag, e.elNo)).Pairwise (fun a b => t2eLe a b = true) := by
  rw [tag2el_keys]; exact sortT2E_sorted _

/-- the entries are exactly the outermost tags of the members, each pointing to its member: entry (g, i) exists
    iff member `i` exists and `g` is its outermost tag or — for an untagged CHOICE member, also behind
    references — the outermost tag of one of its alternatives (`_add_tag2el_member`) -/
theorem tag2el_entries (M : Module) (comps : List Comp) (g : Tag) (i : Nat) :
    (∃ e ∈ tag2el M comps, e.tag = g ∧ e.elNo = i) ↔
      ∃ c, comps[i]? = some c ∧ (g, i) ∈ t2eMember M t2eFuel c.ty i := by
  rw [tag2el_mem, t2eRaw_mem]
  simp

/-- when the members' outermost tags are pairwise distinct (the X.680 §27.3 / §29.3 rule for SET and CHOICE that
    Spec/TagRules calls `allDistinct`; in its executable form: the tag column of the unsorted map has no
    duplicates) the map is strictly increasing in the order `_search4tag` searches by: no duplicate tags -/
theorem tag2el_strict_of_distinct (M : Module) (comps : List Comp)
    (hnd : ((t2eRaw M 0 comps).map (·.1)).Nodup) :
    (tag2el M comps).Pairwise (fun a b => tagLt a.tag b.tag = true) := tag2el_strict M comps hnd

/-- **lookup correctness**: binary search (`bsearch` + `_search4tag` of constr_CHOICE.c / constr_SET.c /
    constr_SEQUENCE.c) on the emitted map finds, for every tag a member can start with, the entry of that member -/
theorem tag2el_lookup_finds_member (M : Module) (comps : List Comp)
    (hnd : ((t2eRaw M 0 comps).map (·.1)).Nodup) (c : Comp) (i : Nat) (g : Tag)
    (hc : comps[i]? = some c) (hg : (g, i) ∈ t2eMember M t2eFuel c.ty i) :
    ∃ e, bsearchTag g (tag2el M comps) = some e ∧ e.tag = g ∧ e.elNo = i := by
  obtain ⟨e, he, h1, h2⟩ := (tag2el_entries M comps g i).mpr ⟨c, hc, hg⟩
  exact ⟨e, bsearchTag_finds g _ (tag2el_strict M comps hnd) e he h1, h1, h2⟩

/-- … and whatever it finds is the member that carries the tag; a tag no member carries is not found -/
theorem tag2el_lookup_sound (M : Module) (comps : List Comp) (g : Tag) (e : T2E)
    (h : bsearchTag g (tag2el M comps) = some e) :
    e.tag = g ∧ ∃ c, comps[e.elNo]? = some c ∧ (g, e.elNo) ∈ t2eMember M t2eFuel c.ty e.elNo := by
  obtain ⟨he, hk⟩ := bsearchTag_sound g _ e h
  exact ⟨hk, (tag2el_entries M comps g e.elNo).mp ⟨e, he, hk, rfl⟩⟩

theorem tag2el_lookup_none (M : Module) (comps : List Comp)
    (hnd : ((t2eRaw M 0 comps).map (·.1)).Nodup) (g : Tag)
    (h : bsearchTag g (tag2el M comps) = none) (c : Comp) (i : Nat) (hc : comps[i]? = some c) :
    (g, i) ∉ t2eMember M t2eFuel c.ty i := by
  intro hg
  obtain ⟨e, he, _⟩ := tag2el_lookup_finds_member M comps hnd c i g hc hg
  rw [h] at he; cases he

/-! ## (c) oms -/

/-- **root part of `oms`** of a SEQUENCE: exactly the element numbers of the OPTIONAL / DEFAULT members before the
    extension marker -/
theorem oms_root_spec (ext : Option Nat) (comps : List Comp) (j : Nat) :
    j ∈ (omsOf .sequence ext comps).1 ↔
      j < ext.getD comps.length ∧ ∃ c, comps[j]? = some c ∧ c.opt.isMand = false := by
  simp only [omsOf, omsFrom_mem, Nat.zero_le, Nat.sub_zero, true_and]
  constructor
  · rintro ⟨c, hc, h1, h2⟩
    have hlt : j < ext.getD comps.length := by simpa using h1
    refine ⟨hlt, c, hc, ?_⟩
    simp only [omitable, Bool.or_eq_true] at h2
    rcases h2 with h2 | h2
    · simpa using h2
    · cases ext with
      | none => simp at h2
      | some e => simp only [Option.getD_some] at hlt; simp at h2; omega
  · rintro ⟨hlt, c, hc, hm⟩
    exact ⟨c, hc, by simpa using hlt, by simp [omitable, hm]⟩

/-- **additions part of `oms`**: every member after the marker (asn1c treats all extension additions as omitable:
    `comp_mode == 1` in the type emitter) -/
theorem oms_additions_spec (ext : Option Nat) (comps : List Comp) (j : Nat) :
    j ∈ (omsOf .sequence ext comps).2 ↔ ext.getD comps.length ≤ j ∧ j < comps.length := by
  simp only [omsOf, omsFrom_mem, Nat.zero_le, Nat.sub_zero, true_and]
  constructor
  · rintro ⟨c, hc, h1, _⟩
    have := (List.getElem?_eq_some_iff.mp hc).1
    exact ⟨by simpa using h1, this⟩
  · rintro ⟨hge, hlt⟩
    refine ⟨comps[j], List.getElem?_eq_getElem hlt, by simpa using hge, ?_⟩
    cases ext with
    | none => simp only [Option.getD_none] at hge; omega
    | some e => simp only [Option.getD_some] at hge; simp [omitable, hge]

/-- both parts are strictly ascending ("in order") -/
theorem oms_sorted (k : CK) (ext : Option Nat) (comps : List Comp) :
    (omsOf k ext comps).1.Pairwise (· < ·) ∧ (omsOf k ext comps).2.Pairwise (· < ·) :=
  ⟨omsFrom_sorted _ _ _ _ _ _, omsFrom_sorted _ _ _ _ _ _⟩

/-- **agreement with the reference codecs**: the root part of `oms` enumerates the components whose L2 attribute
    says OPTIONAL/DEFAULT (the presence bitmap of the UPER / OER reference codecs runs over these, in this order) -/
theorem oms_agrees_with_l2_attrs (M : Module) (k : Nat) (ext : Option Nat) (comps : List Comp) (ms : List Ty)
    (as : List Attr)
    (h : l2Comps (toL2 M k) (autoSelected M comps) (ext.getD comps.length) 0 comps = some (ms, as)) (j : Nat) :
    j ∈ (omsOf .sequence ext comps).1 ↔
      j < ext.getD comps.length ∧ (as.map (·.optional))[j]? = some true := by
  rw [oms_root_spec, (l2Comps_attrs _ _ _ comps 0 ms as h).1]
  simp only [List.getElem?_map]
  constructor
  · rintro ⟨h1, c, hc, hm⟩; exact ⟨h1, by simp [hc, hm]⟩
  · rintro ⟨h1, h2⟩
    cases hc : comps[j]? with
    | none => simp [hc] at h2
    | some c => exact ⟨h1, c, rfl, by simpa [hc] using h2⟩

/-! ## (d) PER constraint records -/

section per
open Asn1c.Impl.CRange Asn1c.Impl.CTables Asn1c.Impl.ConsParse Asn1c.Spec.Constraint

/-- the 64-bit bounds the two theorems of this section are stated for (`intmax_t`; the compiler itself
    computes in the 128-bit `asn1c_integer_t`, see C09) -/
def INTMAX_MIN : Int := -9223372036854775808
def INTMAX_MAX : Int := 9223372036854775807

/-- **INTEGER (l..u) / (l..u, ...)**: whenever the compiler's range computation delivers a range (it never failed
    in the correspondence runs; C09 proves what it delivers), the emitted value record is the X.691 10.5 layout of
    the constraint the UPER reference codec works with (`L2.IntC` = the same `lo`, `hi`, `ext`): constrained,
    lower/upper bound as written, `range_bits` = the least n with u − l + 1 ≤ 2^n, `effective_bits` as
    `emit_single_member_PER_constraint` computes it, APC_EXTENSIBLE iff the marker is written. -/
theorem int_per_record (c : Impl.CompileDescr.Cons) (l u : Int) (hlo : c.lo = some l) (hhi : c.hi = some u)
    (hlu : l ≤ u) (hl : INTMAX_MIN < l ∧ l < INTMAX_MAX) (hu : INTMAX_MIN < u ∧ u < INTMAX_MAX) (r : Range)
    (hr : computeTop { req := .value, rootOnly := true } (some (combinedCT (.value c))) = .ok r) :
    ∃ n : Nat, IsRangeBits (u - l + 1) n ∧
      (encTables .integer (some (.value c)) none).1.1 =
        ⟨2 + (if c.ext then 4 else 0), n, effBits (1 + u - l) u, l, u⟩ := by
  have hcomb : combinedCT (.value c) = combined (consExpr c) := rfl
  rw [hcomb] at hr
  -- the constraint expression lies in the guard domain of the C09 theorems
  have hshape : (consExpr c = .single l ∧ l = u ∧ c.ext = false) ∨ (consExpr c = .range (.val l) (.val u) ∧ c.ext = false) ∨
      (consExpr c = .ext (.single l) ∧ l = u ∧ c.ext = true) ∨ (consExpr c = .ext (.range (.val l) (.val u)) ∧ c.ext = true) := by
    unfold consExpr
    simp only [hlo, hhi]
    by_cases hleq : l = u <;> cases hce : c.ext <;> simp [hleq]
  have hvis : ∀ y, visible ISet.univ (consExpr c) y = (decide (l ≤ y) && decide (y ≤ u)) := by
    intro y
    rcases hshape with ⟨h, h2, _⟩ | ⟨h, _⟩ | ⟨h, h2, _⟩ | ⟨h, _⟩ <;> rw [h] <;>
      simp [visible, ISet.univ, End.below, End.above] <;> (try subst h2) <;>
      (by_cases h1 : l ≤ y <;> by_cases h2' : y ≤ l <;> simp [h1, h2'] <;> omega)
  have hext : extensible (consExpr c) = c.ext := by
    rcases hshape with ⟨h, _, h3⟩ | ⟨h, h3⟩ | ⟨h, _, h3⟩ | ⟨h, h3⟩ <;> rw [h, h3] <;> rfl
  have hd : Asn1c.Impl.CRange.DomV (consExpr c) := by
    rcases hshape with ⟨h, _, _⟩ | ⟨h, _⟩ | ⟨h, _, _⟩ | ⟨h, _⟩ <;> rw [h] <;>
      simp [Asn1c.Impl.CRange.DomV, Asn1c.Impl.CRange.IsChainAny, Asn1c.Impl.CRange.IsLevelAny,
        Asn1c.Impl.CRange.IsSpec, Asn1c.Impl.CRange.IsElem]
  have hw : Asn1c.Impl.CRange.Written (consExpr c) := by
    rcases hshape with ⟨h, _, _⟩ | ⟨h, _⟩ | ⟨h, _, _⟩ | ⟨h, _⟩ <;> rw [h] <;> simp [Asn1c.Impl.CRange.Written]
  have hne : ∃ y, visible ISet.univ (consExpr c) y = true := ⟨l, by rw [hvis]; simp [hlu]⟩
  have hlits : Asn1c.Impl.CRange.LitsOK (consExpr c) := by
    simp only [INTMAX_MIN, INTMAX_MAX] at hl hu
    rcases hshape with ⟨h, _, _⟩ | ⟨h, _⟩ | ⟨h, _, _⟩ | ⟨h, _⟩ <;> rw [h] <;>
      simp [Asn1c.Impl.CRange.LitsOK, Asn1c.Impl.CRange.EndOK, ASN_INTEGER_MIN, ASN_INTEGER_MAX] <;> omega
  have heff := Asn1c.Props.C09.crange_effective (p := { req := .value, rootOnly := true }) rfl rfl rfl hd hw hlits hne
    (Or.inl (Or.inr (Or.inl rfl))) hr
  simp only [Bool.false_eq_true, if_false] at heff
  obtain ⟨hrepr, hre, hnp⟩ := heff
  have hrepr' : Asn1c.Impl.CRange.Repr r (fun y => decide (l ≤ y) && decide (y ≤ u)) := hrepr.congr hvis
  have hlb : LowerBound (fun y => decide (l ≤ y) && decide (y ≤ u)) (some l) := by
    refine ⟨by simp [hlu], ?_⟩
    intro x hx; simp at hx; exact hx.1
  have hub : UpperBound (fun y => decide (l ≤ y) && decide (y ≤ u)) (some u) := by
    refine ⟨by simp [hlu], ?_⟩
    intro x hx; simp at hx; exact hx.2
  have hlay := Asn1c.Props.C09.per_table_eq_layout hrepr' hnp hlb hub
  simp only [perForm] at hlay
  obtain ⟨n, hn, htab⟩ := hlay (by
    simp only [INTMAX_MIN, INTMAX_MAX] at hl hu
    have : (2:Int) ^ 126 = 85070591730234615865843651857942052864 := by norm_num
    omega)
  refine ⟨n, hn, ?_⟩
  have hmodel : (encTables .integer (some (.value c)) none).1.1 = perOf (perConstraint (some r)) := by
    simp only [encTables, emitTables, Option.map_some, hcomb, hr, resRange]
  rw [hmodel, htab, hre, hext]
  cases c.ext <;> simp [perOf]

/-- **SIZE (l..u) / SIZE (l..u, ...)** on OCTET STRING-like types (and SEQUENCE OF / SET OF): the size record is the
    X.691 10.9 layout of the effective size constraint; `effective_bits` = `range_bits` when the length is a
    constrained whole number (u < 64K), −1 (general length determinant) otherwise. -/
theorem size_per_record (c : Impl.CompileDescr.Cons) (l u : Int) (hlo : c.lo = some l) (hhi : c.hi = some u)
    (h0 : 0 ≤ l) (hlu : l ≤ u) (hu : u < INTMAX_MAX) (r : Range)
    (hr : computeTop { req := .size, rootOnly := true } (some (combinedCT (.size c))) = .ok r) :
    ∃ n : Nat, IsRangeBits (u - l + 1) n ∧
      (encTables .octets (some (.size c)) none).1.2 =
        ⟨2 + (if c.ext then 4 else 0), n, if sizeIsConstrainedNumber u then rangeBits (1 + u - l) else -1, l, u⟩ := by
  have hcomb : combinedCT (.size c) = combined (.size (consExpr c)) := rfl
  rw [hcomb] at hr
  have hshape : (consExpr c = .single l ∧ l = u ∧ c.ext = false) ∨ (consExpr c = .range (.val l) (.val u) ∧ c.ext = false) ∨
      (consExpr c = .ext (.single l) ∧ l = u ∧ c.ext = true) ∨ (consExpr c = .ext (.range (.val l) (.val u)) ∧ c.ext = true) := by
    unfold consExpr
    simp only [hlo, hhi]
    by_cases hleq : l = u <;> cases hce : c.ext <;> simp [hleq]
  have hvis : ∀ y, visible ISet.nat (.size (consExpr c)) y = (decide (l ≤ y) && decide (y ≤ u)) := by
    intro y
    rcases hshape with ⟨h, h2, _⟩ | ⟨h, _⟩ | ⟨h, h2, _⟩ | ⟨h, _⟩ <;> rw [h] <;>
      simp [visible, ISet.nat, End.below, End.above] <;>
      (by_cases h1 : l ≤ y <;> by_cases h2' : y ≤ u <;> simp [h1, h2'] <;> omega)
  have hext : extensible (.size (consExpr c)) = c.ext := by
    rcases hshape with ⟨h, _, h3⟩ | ⟨h, h3⟩ | ⟨h, _, h3⟩ | ⟨h, h3⟩ <;> rw [h, h3] <;> rfl
  have hs : Asn1c.Impl.CRange.IsSpec (consExpr c) := by
    rcases hshape with ⟨h, _, _⟩ | ⟨h, _⟩ | ⟨h, _, _⟩ | ⟨h, _⟩ <;> rw [h] <;>
      simp [Asn1c.Impl.CRange.IsSpec, Asn1c.Impl.CRange.IsElem]
  have hw : Asn1c.Impl.CRange.Written (consExpr c) := by
    rcases hshape with ⟨h, _, _⟩ | ⟨h, _⟩ | ⟨h, _, _⟩ | ⟨h, _⟩ <;> rw [h] <;> simp [Asn1c.Impl.CRange.Written]
  have hne : ∃ y, visible ISet.nat (consExpr c) y = true := ⟨l, by
    have := hvis l; simp only [visible] at this; rw [this]; simp [hlu]⟩
  have hlits : Asn1c.Impl.CRange.LitsOK (consExpr c) := by
    simp only [INTMAX_MAX] at hu
    rcases hshape with ⟨h, h2, _⟩ | ⟨h, _⟩ | ⟨h, h2, _⟩ | ⟨h, _⟩ <;> rw [h] <;>
      simp [Asn1c.Impl.CRange.LitsOK, Asn1c.Impl.CRange.EndOK, ASN_INTEGER_MIN, ASN_INTEGER_MAX] <;> omega
  have heff := Asn1c.Props.C09.crange_size_effective (p := { req := .size, rootOnly := true }) rfl rfl rfl hs hw hlits hne
    (Or.inl (Or.inr (Or.inl rfl))) hr
  simp only [Bool.false_eq_true, if_false] at heff
  obtain ⟨hrepr, hre, hnp⟩ := heff
  have hrepr' : Asn1c.Impl.CRange.Repr r (fun y => decide (l ≤ y) && decide (y ≤ u)) := hrepr.congr hvis
  have hlb : LowerBound (fun y => decide (l ≤ y) && decide (y ≤ u)) (some l) := by
    refine ⟨by simp [hlu], ?_⟩
    intro x hx; simp at hx; exact hx.1
  have hub : UpperBound (fun y => decide (l ≤ y) && decide (y ≤ u)) (some u) := by
    refine ⟨by simp [hlu], ?_⟩
    intro x hx; simp at hx; exact hx.2
  have hlay := Asn1c.Props.C09.per_table_eq_layout hrepr' hnp hlb hub
  simp only [perForm] at hlay
  obtain ⟨n, hn, htab⟩ := hlay (by
    simp only [INTMAX_MAX] at hu
    have : (2:Int) ^ 126 = 85070591730234615865843651857942052864 := by norm_num
    omega)
  refine ⟨n, hn, ?_⟩
  have hmodel : (encTables .octets (some (.size c)) none).1.2 = perOf (perConstraint (some r)) := by
    simp only [encTables, emitTables, Option.map_some, hcomb, hr, resRange]
  rw [hmodel, htab, hre, hext, Asn1c.Props.C09.per_size_effective_bits h0 hlu hu]
  cases c.ext <;> simp [perOf]

end per

/-! ## (e) the element type of SEQUENCE OF / SET OF -/

/-- **element of SEQUENCE OF / SET OF**: the fixer decides the tag mode of a tag written on the element type like
    that of a component (module default, X.680 §31.2.7), so the chain of the element in the generated tables is the
    tag list of the element as `L2.resolveTy` resolves it (the former finding F122: the tag kept TM_DEFAULT, which
    the emitters read as EXPLICIT whatever the module said) -/
theorem compiled_element_tags_eq_resolved (M : Module) (htd : ValidTagDefault M) (k : Nat) (hk : k ≤ 64)
    (tag : Option WTag) (q : Bool) (sz : Option Cons) (e : CTy) (e' : Ty) (h : toL2 M k e = some e') :
    ∃ e1, fixTy M (.listOf tag q sz e) = .listOf tag q sz e1 ∧ tagsOf (fixModule M) e1 = tyTags e' := by
  refine ⟨fixTop M e, ?_, compiled_tags_eq_resolved M htd e e' k hk h⟩
  simp only [fixTy, fixTop]

/-- the former witness of F122: `L ::= SEQUENCE OF [1] INTEGER` in an IMPLICIT TAGS module -/
def cexModule : Module := ⟨"IMPLICIT", [("L", .listOf none true none (.integer (some ⟨⟨2, 1⟩, .dflt⟩) none))]⟩

/-- … its member table now carries tag_mode −1 and the element's chain is `[1]` alone, the tag list of the resolved
    element (the unrepaired fixer left tag_mode +1 and the chain `[1] [UNIVERSAL 2]`) -/
theorem seqof_element_default_tag :
    (match fixTop cexModule (.listOf none true none (.integer (some ⟨⟨2, 1⟩, .dflt⟩) none)) with
     | .listOf _ _ _ e => (memberMode (fixModule cexModule) {} e, tagsOf (fixModule cexModule) e)
     | _ => (0, [])) = (-1, [⟨2, 1⟩]) ∧
    (toL2 cexModule 64 (.integer (some ⟨⟨2, 1⟩, .dflt⟩) none)).map tyTags = some [⟨2, 1⟩] := by
  constructor <;> decide

/-- the former witness of F49: `[5] EXPLICIT ENUMERATED { x, y }` as a member has a descriptor of its own whose `tags`
    are `[5] [UNIVERSAL 10]`; the member table says tag_mode 0 (it said +1: the explicit tag was written twice).
    With an IMPLICIT tag the descriptor's tags are `[5]` and the member keeps −1 (the first tag replaced by itself). -/
theorem own_descriptor_member_mode :
    let M : Module := ⟨"none", []⟩
    let e : CTy := .enumerated (some ⟨⟨2, 5⟩, .exp⟩) [0, 1] none
    let i : CTy := .enumerated (some ⟨⟨2, 5⟩, .imp⟩) [0, 1] none
    (memberMode M {} e, tagsOf M e, complexContents M {} e) = (0, [⟨2, 5⟩, ⟨0, 10⟩], true) ∧
    (memberMode M {} i, tagsOf M i) = (-1, [⟨2, 5⟩]) := by
  decide

/-! ## `first_extension` of a SEQUENCE (finding F120 repaired) -/

/-- the specifics of a generated descriptor -/
def specOf : Descr → DSpec
  | .node _ _ _ _ _ s _ => s
  | _ => .none

/-- `asn_SEQUENCE_specifics_t.first_extension` -/
def firstExtOf : DSpec → Option Int
  | .seq fe _ _ _ _ => some fe
  | _ => Option.none

/-- **first_extension**: the descriptor generated for a SEQUENCE type carries the position of the extension marker
    (the number of components before `...`) whenever the type has one — also when it has no components at all —
    and -1 exactly when it has none: the codecs' "is extensible" test `first_extension >= 0` agrees with the type
    (X.691 §19.1 extension bit, X.696 §16.2 preamble).  Finding F120 (the field was derived inside the loop over the
    components, so `SEQUENCE { ... }` got -1) is repaired in `asn1c_lang_C_type_SEQUENCE_def`. -/
theorem sequence_first_extension (M : Module) (o : Opts) (nm : Names) (fuel : Nat) (path name : String) (emb : Bool)
    (t : CTy) (seen : List String) (p' : String) (tg : Option WTag) (ext : Option Nat) (comps : List Comp)
    (hs : seen.contains path = false)
    (ht : terminalWithPath M M.fuel path t = some (p', .constr tg .sequence ext comps)) :
    firstExtOf (specOf (compTy M o nm (fuel + 1) path name emb t seen).1) =
      some (match ext with | some e => (e : Int) | Option.none => -1) := by
  rw [compTy]
  simp only [hs, ht]
  · simp only [Bool.false_eq_true, if_false]
    simp only [specOf]
    cases ext <;> (split <;> simp [firstExtOf])
  · intro tag ext' comps' h
    subst h
    cases hf : M.fuel <;> simp [terminalWithPath] at ht

/-- the former F120 witness `A ::= SEQUENCE { ... }` -/
def f120Module : Module := ⟨"AUTOMATIC", [("A", .constr Option.none .sequence (some 0) [])]⟩

/-- … is compiled with `first_extension = 0`, with the default options and without the PER / OER tables -/
theorem empty_extensible_sequence_first_extension :
    (compileDescr f120Module {} [] "A").map (fun d => firstExtOf (specOf d)) = some (some 0) ∧
    (compileDescr f120Module { genPER := false, genOER := false } [] "A").map (fun d => firstExtOf (specOf d)) = some (some 0) := by
  decide

/-! ## (f) PER records of type assignments that reference another type (findings F38 / F123 / F111 repaired) -/

/-- following a reference chain with more fuel gives the same terminal type -/
theorem terminal_mono (M : Module) : ∀ (k : Nat) (t tt : CTy), terminal M k t = some tt → terminal M (k + 1) t = some tt
  | 0, t, tt, h => by
    cases t <;> simp_all [terminal]
  | k + 1, t, tt, h => by
    cases t with
    | ref g n =>
      simp only [terminal] at h ⊢
      cases hl : M.lookup n with
      | none => simp [hl] at h
      | some t' =>
        simp only [hl, Option.bind_some] at h ⊢
        exact terminal_mono M k t' tt h
    | _ => simp_all [terminal]

/-- **a reference carries the PER records of the type it references**: the descriptor generated for `B ::= A` or
    `B ::= [5] A` has exactly the type-level PER constraint records of the descriptor generated for `A` (present or
    absent alike), whatever `A` is — as long as the reference chain ends within the compiler's bound.  Before the repair
    `emit_type_DEF` looked at the syntactic kind of `B` itself (a reference), so `B` had no records when `A` was a CHOICE,
    an ENUMERATED (UPER encoding failed: F38, F123) or an unconstrained known-multiplier string (8-bit characters: F111). -/
theorem reference_carries_per_records (M : Module) (o : Opts) (g : Option WTag) (n : String) (a tt : CTy)
    (hl : M.lookup n = some a) (ht : terminal M 63 a = some tt) :
    (typeEnc M o (.ref g n)).per = (typeEnc M o a).per := by
  have h1 : terminal M M.fuel (.ref g n) = some tt := by
    simp only [Module.fuel, terminal, hl, Option.bind_some, ht]
  have h2 : terminal M M.fuel a = some tt := terminal_mono M 63 a tt ht
  simp only [typeEnc, combinedOf, h1, h2]

/-- **the records are there whenever the PER codecs need them**: with PER generated, the descriptor of every type
    whose terminal type is an ENUMERATED, a CHOICE, a known-multiplier string or a time type (a VisibleString, X.680
    46.3 / 47.3) has PER records, directly or through any chain of references and tags -/
theorem per_records_present (M : Module) (o : Opts) (t tt : CTy) (hg : o.genPER = true)
    (ht : terminal M M.fuel t = some tt)
    (hk : (match tt with
           | .enumerated _ _ _ => true | .constr _ .choice _ _ => true
           | .str _ k _ _ => k != "UTF8String" | .prim _ .utcTime => true | .prim _ .genTime => true
           | _ => false) = true) :
    (typeEnc M o t).per.isSome = true := by
  simp only [typeEnc, ht, hg, Bool.true_and]
  cases tt with
  | enumerated g r e => simp [tkindOf, perKind]
  | constr g k e cs => cases k <;> simp_all [tkindOf, perKind]
  | str g k sz al =>
    by_cases hu : k = "UTF8String"
    · simp [hu] at hk
    · simp [tkindOf, perKind, hu]
  | prim g k => cases k <;> simp_all [perKind]
  | _ => simp at hk

/-- the former witnesses: `A ::= CHOICE { a [0] NULL, b [1] INTEGER }`, `En ::= ENUMERATED { a, b, c }`, `I ::= IA5String`,
    `Bm ::= BMPString`, `N ::= NumericString`, `T ::= GeneralizedTime`, `U ::= UTCTime` -/
def aliasModule : Module := ⟨"none", [
  ("A", .constr none .choice none [.mk "a" (.prim (some ⟨⟨2, 0⟩, .dflt⟩) .null) .mand, .mk "b" (.integer (some ⟨⟨2, 1⟩, .dflt⟩) none) .mand]),
  ("En", .enumerated none [0, 1, 2] none), ("I", .str none "IA5String" none none), ("Bm", .str none "BMPString" none none),
  ("N", .str none "NumericString" none none), ("T", .prim none .genTime), ("U", .prim none .utcTime)]⟩

/-- … `B ::= A` and `E ::= [5] A` get the one-bit index record of the CHOICE (F38), `B ::= En` the two-bit record of the
    ENUMERATED (F123), `B ::= I` / `B ::= Bm` / `B ::= N` the 7 / 16 / 4-bit character records (F111), and the named time
    types the record of VisibleString, 7 bits 32..126 (F111); each had no PER records at all before the repair -/
theorem former_alias_witnesses_have_per_records :
    (typeEnc aliasModule {} (.ref none "A")).per = some (⟨2, 1, 1, 0, 1⟩, ⟨0, -1, -1, 0, 0⟩) ∧
    (typeEnc aliasModule {} (.ref (some ⟨⟨2, 5⟩, .dflt⟩) "A")).per = some (⟨2, 1, 1, 0, 1⟩, ⟨0, -1, -1, 0, 0⟩) ∧
    (typeEnc aliasModule {} (.ref none "En")).per = some (⟨2, 2, 2, 0, 2⟩, ⟨0, -1, -1, 0, 0⟩) ∧
    (typeEnc aliasModule {} (.ref none "I")).per = some (⟨2, 7, 7, 0, 127⟩, ⟨1, -1, -1, 0, 0⟩) ∧
    (typeEnc aliasModule {} (.ref none "Bm")).per = some (⟨2, 16, 16, 0, 65535⟩, ⟨1, -1, -1, 0, 0⟩) ∧
    (typeEnc aliasModule {} (.ref none "N")).per = some (⟨2, 4, 4, 32, 57⟩, ⟨1, -1, -1, 0, 0⟩) ∧
    (typeEnc aliasModule {} (.prim none .genTime)).per = some (⟨2, 7, 7, 32, 126⟩, ⟨1, -1, -1, 0, 0⟩) ∧
    (typeEnc aliasModule {} (.ref none "U")).per = some (⟨2, 7, 7, 32, 126⟩, ⟨1, -1, -1, 0, 0⟩) ∧
    (typeEnc aliasModule { genPER := false } (.ref none "A")).per = Option.none := by
  decide

/-- the hypotheses of `reference_carries_per_records` are satisfiable -/
example : ∃ a tt, aliasModule.lookup "A" = some a ∧ terminal aliasModule 63 a = some tt := ⟨_, _, rfl, rfl⟩

/-- the hypotheses of the tag theorems are satisfiable -/
example : ValidTagDefault cexModule := Or.inr (Or.inr (Or.inl rfl))
example : (toL2Named cexModule "L").isSome = true := by decide

/-- a module with AUTOMATIC TAGS: `S ::= SEQUENCE { a BOOLEAN OPTIONAL, c CHOICE { x NULL, y INTEGER }, ..., d Ref }`,
    `Ref ::= CHOICE { p REAL, q BOOLEAN }` -/
def exModule : Module := ⟨"AUTOMATIC", [
  ("Ref", .constr none .choice none [.mk "p" (.prim none .real) .mand, .mk "q" (.prim none .boolean) .mand]),
  ("S", .constr none .sequence (some 2) [
      .mk "a" (.prim none .boolean) .opt,
      .mk "c" (.constr none .choice none [.mk "x" (.prim none .null) .mand, .mk "y" (.integer none none) .mand]) .mand,
      .mk "d" (.ref none "Ref") .mand])]⟩

def exComps : List Comp := match exModule.lookup "S" with | some (.constr _ _ _ cs) => cs | _ => []

/-- … resolves, has pairwise distinct member tags, and the model's tag2el is [0]→a, [1]→c, [2]→d -/
example : ∃ ms as, l2Comps (toL2 exModule 63) (autoSelected exModule exComps) 2 0 exComps = some (ms, as) ∧
    (outerTagsAlts ms).Nodup ∧
    (tag2el (fixModule exModule) (fixComps exModule (autoSelected exModule exComps) 0 exComps)).map (fun e => (e.tag, e.elNo))
      = [(⟨2, 0⟩, 0), (⟨2, 1⟩, 1), (⟨2, 2⟩, 2)] := by
  refine ⟨_, _, rfl, ?_, ?_⟩ <;> decide

/-- the range computation succeeds on INTEGER (1..65536, ...): the hypothesis `hr` of `int_per_record` -/
example : (Impl.CTables.resRange (Impl.CRange.computeTop { req := .value, rootOnly := true }
    (some (combinedCT (.value ⟨some 1, some 65536, true⟩))))).isSome = true := by decide

end Asn1c.Props.C10Compile

