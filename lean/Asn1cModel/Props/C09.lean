import Asn1cModel.Proofs.CTables
/-
  C09 — PER/OER-visible constraints are the set-theoretic effective constraint.

  Impl  = Impl.CRange (model of libasn1fix/asn1fix_crange.c), Impl.ConsParse (constraint rules of
          asn1p_y.y + asn1constraint_pullup), Impl.CTables (the PER/OER table emitters of asn1c_C.c
          and the -print-constraints printer), tied to the C code by the `asn1c` correspondence
          of vlib/props/c09.py.
  Spec  = Spec.Constraint (X.680 set semantics, X.691 10.3 / X.696 8.2 visibility, layouts).
  Helper lemmas: Proofs/CRange.lean, Proofs/CRangeCompute.lean, Proofs/CRangeChain.lean, Proofs/CTables.lean.

  Domain of the theorems (`DomV`, `Written`, `LitsOK`, non-emptiness):
  * chains of serially applied constraints and type references whose members are built from single
    values, ranges with MIN/MAX, `|`, `^`, `EXCEPT`, parentheses; every member may carry an
    extension marker, with or without extension additions (only the marker of the last one counts:
    the pull-up strips the others, own constraints of a referencing type included);
  * ranges as the grammar writes them (`Written`: lower end a value or MIN, upper end a value or MAX);
  * the constraint as a whole denotes a non-empty set (X.680 forbids the empty one; operands may be
    empty: asn1c's `empty_constraint` flag is then set on the operand and dropped by the union);
  * every literal lies strictly inside the range of the compiler's own 128-bit `asn1c_integer_t`
    (the two limit tests of `_range_split` then never fire), and for the PER table the range is
    narrower than 2^126 (beyond that the emitter's `cover *= 2` loop gives up with FATAL);
  * the model's split loop did not run out of fuel (`computeTop … = .ok r`; never observed).
  Extension additions are invisible to the PER tables (CPR_PER_root_only), to the printed PER-visible
  line (strict PER visibility) and to OER; the flag-less "practical" range that the generated
  validity checker uses keeps them (`AddsInvisible p ∨ NoAdds c`).
-/
namespace Asn1c.Props.C09
open Asn1c.Impl.CRange Asn1c.Impl.CTables Asn1c.Impl.ConsParse Asn1c.Spec.Constraint

/-! ## denotation of the interval algebra -/

/-- **`_range_union`** (sort + merge of overlapping and adjacent leaves) keeps the denoted set and
    yields the canonical form. -/
theorem den_union {l : List Iv} (hg : Good l) (hne : l ≠ []) :
    (∀ y, den (unionIvs l) y = den l y) ∧ Canon (unionIvs l) ∧ Good (unionIvs l) := by
  obtain ⟨h1, h2, h3, _⟩ := unionIvs_spec hg hne
  exact ⟨h1, h3, h2⟩

/-- **`_range_intersection`** (split into pieces, drop the pieces outside `with`) denotes the
    intersection, whatever the strictness / OER flags. -/
theorem den_inter {range wth r : Range} {strict isOer : Bool}
    (hg : Good range.leaves) (hw : Good wth.leaves) (he : range.empty = false) (hwe : wth.empty = false)
    (h : intersection range wth strict isOer = .ok r) :
    (∀ y, den r.els y = (den range.leaves y && den wth.leaves y)) ∧ r.empty = r.els.isEmpty := by
  obtain ⟨h1, _, h3, _⟩ := intersection_spec hg hw he hwe h
  exact ⟨h1, h3⟩

/-- **The canonical form is a normal form**: two sorted, disjoint, non-adjacent lists of
    well-formed leaves with the same denotation are the same list. -/
theorem canonical_is_normal_form (l₁ l₂ : List Iv) (g₁ : Good l₁) (g₂ : Good l₂) (c₁ : Canon l₁) (c₂ : Canon l₂)
    (h : ∀ y, den l₁ y = den l₂ y) : l₁ = l₂ :=
  canon_unique l₁ l₂ g₁ g₂ c₁ c₂ h

/-! ## the computed range is the effective constraint -/

/-- **crange_effective** (INTEGER value constraints).  What
    `asn1constraint_compute_constraint_range` returns for the combined constraints of a type is the
    canonical interval list of the set the standards make visible:
    * PER (tables: CPR_PER_root_only; printed line: strict PER visibility) and, without additions,
      the flag-less "practical" mode: the PER-visible root `Spec.visible`
      (X.691 10.3: EXCEPT ignored, extensible ⇒ root only) and the extensible flag is
      `Spec.extensible` (that of the last serially applied constraint);
    * OER mode: `Spec.oerVisible` (X.696 8.2.4: an extensible constraint is not visible), no flags. -/
theorem crange_effective {p : Params} (hreq : p.req = .value) (hc : p.compat = true) (hn : p.nkm = false)
    {c : Cons} (hd : DomV c) (hw : Written c) (hl : LitsOK c) (hne : ∃ y, visible ISet.univ c y = true)
    (hadd : AddsInvisible p ∨ NoAdds c) {r : Range}
    (h : computeTop p (some (combined c)) = .ok r) :
    if p.strictOER = true then Repr r (oerVisible ISet.univ c) ∧ r.Clean
    else Repr r (visible ISet.univ c) ∧ r.ext = extensible c ∧ r.notPER = false := by
  unfold computeTop at h
  simp only [hc, Bool.not_true, Bool.false_eq_true, if_false, hreq, beq_self_eq_true] at h
  have hm : mmEff p none = none := by unfold mmEff; rw [hreq]
  have hcl : (rangeOf (mmEff p none)).Clean := by rw [hm]; exact repr_new.2
  rw [show combined c = .set (combinedEls c) from rfl, compute_eq_body hc hn _ _ _ hcl, hm] at h
  obtain ⟨res, h1, h2⟩ := chain_top hc hn hd repr_new.1 repr_new.2 hw hl hne hadd none
  have h' : (andLoop p true (combinedEls c) Range.new none true).1 = .ok r := h
  rw [h1] at h'
  simp only at h'
  subst h'
  rcases h2 with h2 | ⟨r', e, h3⟩
  · exact absurd rfl (hard_ne_ok h2 r)
  · cases e; exact h3



/-- **crange_size_effective**: the same for one SIZE constraint `SIZE(root)` / `SIZE(root, ...)` /
    `SIZE(root, ..., additions)` on OCTET STRING-like types (parent set: the naturals). -/
theorem crange_size_effective {p : Params} (hreq : p.req = .size) (hc : p.compat = true) (hn : p.nkm = false)
    {a : Cons} (hs : IsSpec a) (hw : Written a) (hl : LitsOK a) (hne : ∃ y, visible ISet.nat a y = true)
    (hadd : AddsInvisible p ∨ NoAdds a) {r : Range}
    (h : computeTop p (some (combined (.size a))) = .ok r) :
    if p.strictOER = true then Repr r (oerVisible ISet.nat (.size a)) ∧ r.Clean
    else Repr r (visible ISet.nat (.size a)) ∧ r.ext = extensible (.size a) ∧ r.notPER = false := by
  obtain ⟨hd, hsp⟩ := domV_of_spec hs
  have hce : combinedEls a = [lastCT a] := combinedEls_spec hs
  have hcomb : combined (.size a) = .set [.size (.set [lastCT a])] := by
    show CT.set (removeExtTop (setEls (wrapSet (.size (wrapSet (elemCT a)))))) = _
    rw [wrapSet_spec hs]; rfl
  unfold computeTop at h
  simp only [hc, Bool.not_true, Bool.false_eq_true, if_false, hreq] at h
  have hm : mmEff p none = some sizeDefault := by unfold mmEff; rw [hreq]
  have hm2 : mmEff p (some sizeDefault) = some sizeDefault := by unfold mmEff; rw [hreq]
  have hcl : (rangeOf (mmEff p none)).Clean := by rw [hm]; exact repr_sizeDefault.2
  have hcl2 : (rangeOf (mmEff p (some sizeDefault))).Clean := by rw [hm2]; exact repr_sizeDefault.2
  rw [hcomb, compute_eq_body hc hn _ _ _ hcl, hm] at h
  have h' : (andLoop p true [.size (.set [lastCT a])] sizeDefault (some sizeDefault) false).1 = .ok r := h
  -- the SIZE node: `*exmet = 1`, then its ACT_CA_SET
  have hsize : compute p (.size (.set [lastCT a])) (some sizeDefault) false =
      (match andLoop p true (combinedEls a) sizeDefault (some sizeDefault) true with
       | (.ok t, ex') => (.ok t, ex')
       | (.erange, ex') => (.ok { sizeDefault with empty := true, ext := true, notOER := true }, ex')
       | (e, ex') => (e, ex')) := by
    rw [compute_eq_body hc hn _ _ _ hcl2, hm2]
    show (if (p.req == Req.size) = true then _ else _) = _
    simp only [hreq, beq_self_eq_true, if_true]
    rw [compute_eq_body hc hn _ _ _ hcl2, hm2, hce]; rfl
  obtain ⟨res, h1, h2⟩ := chain_top hc hn hd repr_sizeDefault.1 repr_sizeDefault.2 hw hl hne hadd (some sizeDefault)
  rw [h1] at hsize
  rw [andLoop] at h'
  simp only [if_true] at h'
  rw [hsize] at h'
  rcases h2 with h2 | ⟨t, rfl, h3⟩
  · exfalso
    rcases h2 with rfl | rfl | rfl <;> simp at h'
  · simp only at h'
    by_cases hso : p.strictOER = true
    · simp only [hso, if_true] at h3 ⊢
      obtain ⟨ht, hct⟩ := h3
      simp only [ht.incompat, hct.2.1, hct.2.2, Bool.false_and, Bool.false_eq_true, if_false] at h'
      obtain ⟨y0, hy0⟩ := repr_nonempty ht
      have hsub : ∀ y, oerVisible ISet.nat a y = true → ISet.nat y = true := by
        intro y hy
        rw [oerVisible_spec hs] at hy; split at hy
        · exact hy
        · exact visible_sub a _ y hy
      cases hi1 : intersection sizeDefault t true p.strictOER with
      | error e => rw [hi1] at h'; cases e <;> simp [Res.ofIErr] at h'
      | ok r1 =>
        rw [hi1] at h'
        simp only [andLoop_nil] at h'
        cases h'
        obtain ⟨q1, q2, q3, q4⟩ := inter_canon repr_sizeDefault.1 ht ⟨y0, hsub y0 hy0, hy0⟩ hi1
        refine ⟨q1.congr (fun y => ?_), ?_, ?_, ?_⟩
        · rw [oerVisible_size, ← oerVisible_spec hs]
          cases h1 : oerVisible ISet.nat a y with
          | true => simp [hsub y h1]
          | false => simp
        · rw [q2, hct.1]; rfl
        · rw [q4, hct.1]; rfl
        · rw [q3, hct.2.2]; simp [sizeDefault]
    · simp only [hso] at h3 ⊢
      have hso' : p.strictOER = false := by simpa using hso
      obtain ⟨ht, hext, hnp⟩ := h3
      simp only [ht.incompat, hnp, hso', Bool.and_false, Bool.false_and, Bool.false_eq_true, if_false] at h'
      obtain ⟨y0, hy0⟩ := repr_nonempty ht
      cases hi1 : intersection sizeDefault t true false with
      | error e => rw [hi1] at h'; cases e <;> simp [Res.ofIErr] at h'
      | ok r1 =>
        rw [hi1] at h'
        simp only [andLoop_nil] at h'
        cases h'
        obtain ⟨q1, q2, q3, _⟩ := inter_canon repr_sizeDefault.1 ht ⟨y0, visible_sub a _ y0 hy0, hy0⟩ hi1
        refine ⟨q1.congr (fun y => ?_), ?_, ?_⟩
        · show (ISet.nat y && visible ISet.nat a y) = visible ISet.nat a y
          cases h1 : visible ISet.nat a y with
          | true => simp [visible_sub a _ y h1]
          | false => simp
        · rw [q2, hext]; simp [sizeDefault, extensible]
        · rw [q3, hnp]; simp [sizeDefault]



/-- **crange_hull**: `left`/`right` of the computed range are the lower/upper bound of
    the effective constraint (MIN/MAX exactly when the set is unbounded on that side) -/
theorem crange_hull {p : Params} (hreq : p.req = .value) (hc : p.compat = true) (hn : p.nkm = false)
    {c : Cons} (hd : DomV c) (hw : Written c) (hl : LitsOK c) (hne : ∃ y, visible ISet.univ c y = true)
    (hadd : AddsInvisible p ∨ NoAdds c) {r : Range}
    (h : computeTop p (some (combined c)) = .ok r) :
    let S := if p.strictOER = true then oerVisible ISet.univ c else visible ISet.univ c
    LowerBound S r.left.bound ∧ UpperBound S r.right.bound ∧ r.left ≠ .max ∧ r.right ≠ .min := by
  have := crange_effective hreq hc hn hd hw hl hne hadd h
  by_cases hso : p.strictOER = true
  · simp only [hso, if_true] at this ⊢
    exact ⟨this.1.lowerBound.1, this.1.upperBound.1, this.1.lowerBound.2, this.1.upperBound.2⟩
  · simp only [hso] at this ⊢
    exact ⟨this.1.lowerBound.1, this.1.upperBound.1, this.1.lowerBound.2, this.1.upperBound.2⟩

/-! ## tables = layouts of the effective constraint -/


/-- **per_table_eq_layout**: the `asn_per_constraint_t` emitted for a canonical range of the set
    `S` is the X.691 layout of the effective constraint (lb, ub) of `S`:
    no lower bound → unconstrained; lower bound only → semi-constrained at lb; both → constrained
    with `range_bits` = the least n with ub − lb + 1 ≤ 2^n (for ranges narrower than 2^126: the
    emitter computes in the 128-bit `asn1c_integer_t`).  The extensible flag (X.691 12.1: the
    extension bit) is the range's in every form. -/
theorem per_table_eq_layout {r : Range} {S : ISet} (hr : Repr r S) (hnp : r.notPER = false)
    {lb ub : Option Int} (hlb : LowerBound S lb) (hub : UpperBound S ub) :
    match perForm lb ub with
    | .unconstrained => perConstraint (some r) = ⟨.unconstrained, r.ext, -1, -1, 0, 0⟩
    | .semi l => perConstraint (some r) = ⟨.semi, r.ext, -1, -1, l, 0⟩
    | .constrained l u => u - l < 2 ^ 126 →
      ∃ n : Nat, IsRangeBits (u - l + 1) n ∧
        perConstraint (some r) = ⟨.constrained, r.ext, n, effBits (1 + u - l) u, l, u⟩ := by
  obtain ⟨hL, hL'⟩ := hr.lowerBound
  obtain ⟨hU, hU'⟩ := hr.upperBound
  have e1 := lowerBound_unique hlb hL
  have e2 := upperBound_unique hub hU
  subst e1 e2
  unfold perConstraint
  simp only [hr.incompat, hnp, Bool.or_self, Bool.false_eq_true, if_false, hr.empty]
  cases hl : r.left with
  | max => exact absurd hl hL'
  | min => simp [perForm, Edge.bound]
  | val l =>
    cases hu : r.right with
    | min => exact absurd hu hU'
    | max => simp [perForm, Edge.bound]
    | val u =>
      simp only [perForm, Edge.bound]
      intro hwide
      obtain ⟨n, hn1, hn2⟩ := rangeBits_spec (r := 1 + u - l) (by
        have : (2:Int) ^ 126 = 85070591730234615865843651857942052864 := by norm_num
        omega)
      refine ⟨n, ?_, ?_⟩
      · have : u - l + 1 = 1 + u - l := by ring
        rw [this]; exact hn2
      · rw [hn1]

/-- for SIZE constraints (lb ≥ 0) `effective_bits` follows X.691 10.9.4.1: the constrained whole
    number form (same bit count) when ub < 64K, the general length determinant (−1) otherwise -/
theorem per_size_effective_bits {l u : Int} (hl : 0 ≤ l) (hlu : l ≤ u) (hu : u < 9223372036854775807) :
    effBits (1 + u - l) u = if sizeIsConstrainedNumber u then rangeBits (1 + u - l) else -1 := by
  have h64 : u ≤ (2:Int) ^ 64 := by
    have : (2:Int) ^ 64 = 18446744073709551616 := by norm_num
    omega
  rw [effBits_spec hl hlu h64]
  simp [sizeIsConstrainedNumber]



/-- **oer_table_eq_layout**: the `asn_oer_constraints_t` fields emitted for a canonical range
    without OER-invisible parts are the X.696 10.2 width/sign of the effective constraint (bounds
    beyond 64 bits included: variable length), and the fixed size of X.696 13/14/17
    (−1 = length determinant). -/
theorem oer_table_eq_layout {r : Range} {S : ISet} (hr : Repr r S) (hno : r.notOER = false)
    {lb ub : Option Int} (hlb : LowerBound S lb) (hub : UpperBound S ub) :
    oerValue (some r) = ⟨(oerWidth lb ub).1, if (oerWidth lb ub).2 then 1 else 0⟩ ∧
    ((∀ y, S y = true → 0 ≤ y) → oerSize (some r) = (oerFixedSize lb ub).getD (-1)) := by
  obtain ⟨hL, hL'⟩ := hr.lowerBound
  obtain ⟨hU, hU'⟩ := hr.upperBound
  have e1 := lowerBound_unique hlb hL
  have e2 := upperBound_unique hub hU
  subst e1 e2
  unfold oerValue oerSize
  simp only [hr.incompat, hno, Bool.or_self, Bool.false_eq_true, if_false]
  cases hl : r.left with
  | max => exact absurd hl hL'
  | min => simp [oerWidth, oerFixedSize, Edge.bound]
  | val l =>
    cases hu : r.right with
    | min => exact absurd hu hU'
    | max =>
      refine ⟨?_, fun _ => by simp [oerFixedSize, Edge.bound]⟩
      by_cases h0 : 0 ≤ l <;> simp [oerWidth, Edge.bound, h0]
    | val u =>
      have hlu : l ≤ u := by
        rw [hl] at hL; rw [hu] at hU
        exact hL.2 u hU.1
      refine ⟨?_, fun hnat => ?_⟩
      · simp only [oerWidth, Edge.bound]
        by_cases h0 : 0 ≤ l
        · simp only [h0, if_true, ge_iff_le]
          norm_num
          split_ifs <;> first | rfl | omega
        · simp only [h0, if_false, ge_iff_le]
          norm_num
          split_ifs <;> first | rfl | omega
      · have h0 : 0 ≤ l := by rw [hl] at hL; exact hnat l hL.1
        simp only [oerFixedSize, Edge.bound]
        by_cases heq : l = u
        · subst heq; simp [h0]
        · simp [heq]



/-- the parameters of `asn1constraint_compute_PER_range` / `…_OER_range` for an INTEGER value request -/
def perP : Params := { req := .value, rootOnly := true }
def oerP : Params := { req := .value, strictOER := true }

/-- **same_set_same_layout** (INTEGER): two constraints of the domain that asn1c accepts,
    with the same PER-visible root set and the same extensibility, get the same
    `asn_per_constraint_t`; with the same OER-visible set, the same `asn_oer_constraints_t` value
    part — hence (with the codecs reading only these tables) identical encodings of every value.
    For EXCEPT-free constraints the visible root is the root (`visible_eq_root`). -/
theorem same_set_same_layout {c₁ c₂ : Cons} (d₁ : DomV c₁) (d₂ : DomV c₂)
    (w₁ : Written c₁) (w₂ : Written c₂) (l₁ : LitsOK c₁) (l₂ : LitsOK c₂)
    (n₁ : ∃ y, visible ISet.univ c₁ y = true)
    {p₁ p₂ o₁ o₂ : Range}
    (hp₁ : computeTop perP (some (combined c₁)) = .ok p₁) (hp₂ : computeTop perP (some (combined c₂)) = .ok p₂)
    (ho₁ : computeTop oerP (some (combined c₁)) = .ok o₁) (ho₂ : computeTop oerP (some (combined c₂)) = .ok o₂)
    (hvis : ∀ y, visible ISet.univ c₁ y = visible ISet.univ c₂ y) (hext : extensible c₁ = extensible c₂)
    (hoer : ∀ y, oerVisible ISet.univ c₁ y = oerVisible ISet.univ c₂ y) :
    emitTables true false false (some (combined c₁)) = emitTables true false false (some (combined c₂)) := by
  have n₂ : ∃ y, visible ISet.univ c₂ y = true := by
    obtain ⟨y, hy⟩ := n₁; exact ⟨y, by rw [← hvis y]; exact hy⟩
  have aP : AddsInvisible perP := Or.inr (Or.inl rfl)
  have aO : AddsInvisible oerP := Or.inl rfl
  have a₁ := crange_effective (p := perP) rfl rfl rfl d₁ w₁ l₁ n₁ (Or.inl aP) hp₁
  have a₂ := crange_effective (p := perP) rfl rfl rfl d₂ w₂ l₂ n₂ (Or.inl aP) hp₂
  have b₁ := crange_effective (p := oerP) rfl rfl rfl d₁ w₁ l₁ n₁ (Or.inl aO) ho₁
  have b₂ := crange_effective (p := oerP) rfl rfl rfl d₂ w₂ l₂ n₂ (Or.inl aO) ho₂
  simp only [perP, oerP, Bool.false_eq_true, if_false, if_true] at a₁ a₂ b₁ b₂
  obtain ⟨ra₁, ea₁, na₁⟩ := a₁; obtain ⟨ra₂, ea₂, na₂⟩ := a₂
  obtain ⟨rb₁, cb₁⟩ := b₁; obtain ⟨rb₂, cb₂⟩ := b₂
  obtain ⟨_, u1, u2⟩ := ra₁.unique ra₂ hvis
  obtain ⟨_, v1, v2⟩ := rb₁.unique rb₂ hoer
  have hP : perConstraint (some p₁) = perConstraint (some p₂) := by
    simp only [perConstraint, ra₁.incompat, ra₂.incompat, na₁, na₂, u1, u2, ra₁.empty, ra₂.empty, ea₁, ea₂, hext]
  have hO : oerValue (some o₁) = oerValue (some o₂) := by
    simp only [oerValue, rb₁.incompat, rb₂.incompat, cb₁.2.1, cb₂.2.1, v1, v2]
  have hp₁' : computeTop { req := .value, compat := true, nkm := false, rootOnly := true } (some (combined c₁)) = .ok p₁ := hp₁
  have hp₂' : computeTop { req := .value, compat := true, nkm := false, rootOnly := true } (some (combined c₂)) = .ok p₂ := hp₂
  have ho₁' : computeTop { req := .value, compat := true, nkm := false, strictOER := true } (some (combined c₁)) = .ok o₁ := ho₁
  have ho₂' : computeTop { req := .value, compat := true, nkm := false, strictOER := true } (some (combined c₂)) = .ok o₂ := ho₂
  simp only [emitTables, hp₁', hp₂', ho₁', ho₂', resRange, hP, hO]
  rfl

def NoExcept : Cons → Prop
  | .except _ _ => False
  | .union a b => NoExcept a ∧ NoExcept b
  | .inter a b => NoExcept a ∧ NoExcept b
  | .paren a => NoExcept a
  | .size a => NoExcept a
  | .ext r => NoExcept r
  | .exta r _ => NoExcept r
  | .serial a b => NoExcept a ∧ NoExcept b
  | .refine a b => NoExcept a ∧ NoExcept b
  | _ => True

/-- without EXCEPT the PER-visible root is the X.680 root set -/
theorem visible_eq_root : ∀ (c : Cons) (P : ISet), NoExcept c → visible P c = root P c := by
  intro c
  induction c with
  | single v => intro P _; rfl
  | range lo hi => intro P _; rfl
  | union a b iha ihb => intro P h; simp only [visible, root, iha P h.1, ihb P h.2]
  | inter a b iha ihb => intro P h; simp only [visible, root, iha P h.1, ihb P h.2]
  | except a b _ _ => intro P h; exact absurd h (by simp [NoExcept])
  | paren a iha => intro P h; exact iha P h
  | size a iha => intro P h; exact iha P h
  | ext r ih => intro P h; exact ih P h
  | exta r a ih _ => intro P h; exact ih P h
  | serial a b iha ihb => intro P h; simp only [visible, root, iha P h.1, ihb _ h.2]
  | refine a b iha ihb => intro P h; simp only [visible, root, iha P h.1, ihb _ h.2]


/-! ## the former counter-examples (findings F11, F91–F95, repaired), and non-vacuity -/



/-- **F11** (repaired) `INTEGER (1..5, ..., 7..9)`: the extension addition 7..9 no longer ends up in
    the PER root: (1..5,...) / 3 bits, the effective root; the flag-less "practical" range of the
    validity checker still holds the additions (7..9 are values of the type). -/
theorem ext_addition_root_only :
    let c := Cons.exta (.range (.val 1) (.val 5)) (.range (.val 7) (.val 9))
    (emitTables true false false (some (combined c))).perValue = ⟨.constrained, true, 3, 3, 1, 5⟩ ∧
    UpperBound (visible ISet.univ c) (some 5) ∧ IsRangeBits 5 3 ∧
    computeTop { req := .value } (some (combined c)) =
      .ok { left := .val 1, right := .val 9, els := [⟨.val 1, .val 5⟩, ⟨.val 7, .val 9⟩], ext := true, notOER := true } := by
  refine ⟨by decide +kernel, ⟨by decide +kernel, fun x hx => ?_⟩, ⟨by decide +kernel, fun j hj => ?_⟩, by decide +kernel⟩
  · simp [visible, End.below, End.above, ISet.univ] at hx; omega
  · have : j = 0 ∨ j = 1 ∨ j = 2 := by omega
    rcases this with rfl | rfl | rfl <;> decide

/-- **F91** (repaired) `T1 ::= INTEGER (1..5)`, `T2 ::= T1 (1..5, ...)(2..3)`: `_remove_extensions`
    is applied to the own constraints of a referencing type as well, only the last one keeps its
    marker (X.680 50.x): T2 is (2..3), not extensible. -/
theorem own_nonlast_marker_dropped :
    let c := Cons.refine (.range (.val 1) (.val 5)) (.serial (.ext (.range (.val 1) (.val 5))) (.range (.val 2) (.val 3)))
    (emitTables true false false (some (combined c))).perValue = ⟨.constrained, false, 1, 1, 2, 3⟩ ∧
    extensible c = false := by
  exact ⟨by decide +kernel, rfl⟩

/-- **F92** (repaired) `INTEGER (1..5 ^ 7..9 | 12)`: the empty first operand no longer leaves
    `empty_constraint` set on the whole union; the type denotes {12} and is emitted as such. -/
theorem empty_operand_in_union :
    let c := Cons.union (.inter (.range (.val 1) (.val 5)) (.range (.val 7) (.val 9))) (.single 12)
    (emitTables true false false (some (combined c))).perValue = ⟨.constrained, false, 0, 0, 12, 12⟩ ∧
    LowerBound (visible ISet.univ c) (some 12) ∧ UpperBound (visible ISet.univ c) (some 12) := by
  refine ⟨by decide +kernel, ⟨by decide +kernel, fun x hx => ?_⟩, ⟨by decide +kernel, fun x hx => ?_⟩⟩ <;>
  · simp [visible, End.below, End.above, ISet.univ] at hx; omega

/-- **F93** (repaired) `INTEGER (0..18446744073709551616)`: the OER width test no longer casts the
    upper bound to `unsigned long long`; beyond 2^64−1 there is no fixed width (X.696 10.2). -/
theorem oer_width_above_2_64 :
    let c := Cons.range (.val 0) (.val 18446744073709551616)
    (emitTables true false false (some (combined c))).oerValue = ⟨0, 1⟩ ∧
    oerWidth (some 0) (some 18446744073709551616) = (0, true) := by
  exact ⟨by decide +kernel, by decide +kernel⟩

/-- **F94** (repaired) `INTEGER (MIN..5, ...)`: without a lower bound asn1c emits
    APC_UNCONSTRAINED | APC_EXTENSIBLE: the extension bit of X.691 12.1 is produced. -/
theorem unbounded_extensible_keeps_bit :
    let c := Cons.ext (.range .min (.val 5))
    (emitTables true false false (some (combined c))).perValue = ⟨.unconstrained, true, -1, -1, 0, 0⟩ ∧
    extensible c = true := by
  exact ⟨by decide +kernel, rfl⟩

/-- **F95** (repaired) `INTEGER ((2..9223372036854775807 | 9223372036854775809))`: `_range_split`
    stops at the limits of the 128-bit `asn1c_integer_t`, not at INTMAX_MAX: the piece of the parent
    (MIN..MAX) above 2^63−1 is kept and with it the value 2^63+1 of the constraint. -/
theorem split_beyond_intmax :
    let c := Cons.paren (.union (.range (.val 2) (.val 9223372036854775807)) (.single 9223372036854775809))
    computeTop perP (some (combined c)) =
      .ok { left := .val 2, right := .val 9223372036854775809,
            els := [⟨.val 2, .val 9223372036854775807⟩, ⟨.val 9223372036854775809, .val 9223372036854775809⟩] } ∧
    visible ISet.univ c 9223372036854775809 = true := by
  exact ⟨by decide +kernel, by decide +kernel⟩

/-- the hypotheses of the theorems are satisfiable: `T1 ::= INTEGER (1..10 | 20)`,
    `T2 ::= T1 ((2..5) ^ (3..8), ...)` -/
example :
    let c := Cons.refine (.union (.range (.val 1) (.val 10)) (.single 20))
               (.ext (.inter (.paren (.range (.val 2) (.val 5))) (.paren (.range (.val 3) (.val 8)))))
    DomV c ∧ Written c ∧ LitsOK c ∧ visible ISet.univ c 3 = true ∧ NoAdds c ∧
    computeTop perP (some (combined c)) = .ok { left := .val 3, right := .val 5, ext := true, notOER := true } ∧
    computeTop oerP (some (combined c)) = .ok { left := .val 1, right := .val 20, els := [⟨.val 1, .val 10⟩, ⟨.val 20, .val 20⟩] } := by
  refine ⟨?_, ?_, ?_, by decide +kernel, ?_, by decide +kernel, by decide +kernel⟩
  · simp [DomV, IsChainAny, IsLevelAny, IsSpec, IsElem]
  · simp [Written]
  · simp [LitsOK, EndOK, ASN_INTEGER_MIN, ASN_INTEGER_MAX]
  · intro s hs r a; simp [specs] at hs; rcases hs with rfl | rfl <;> simp


/-- … also with markers that the pull-up strips, on own constraints of a referencing type too, with
    an empty operand and with extension additions:
    `T1 ::= INTEGER (1..10, ...)(2..8, ...)`, `T2 ::= T1 (MIN..5, ..., 20)(3..4 ^ 5 | 2..4, ..., 5)` is
    (2..4,...) for PER, (2..5) for OER -/
example :
    let c := Cons.refine (.serial (.ext (.range (.val 1) (.val 10))) (.ext (.range (.val 2) (.val 8))))
               (.serial (.exta (.range .min (.val 5)) (.single 20))
                 (.exta (.union (.inter (.range (.val 3) (.val 4)) (.single 5)) (.range (.val 2) (.val 4))) (.single 5)))
    DomV c ∧ Written c ∧ LitsOK c ∧ extensible c = true ∧ visible ISet.univ c 2 = true ∧
    computeTop perP (some (combined c)) = .ok { left := .val 2, right := .val 4, ext := true, notOER := true } ∧
    computeTop oerP (some (combined c)) = .ok { left := .val 2, right := .val 5 } := by
  refine ⟨?_, ?_, ?_, rfl, by decide +kernel, by decide +kernel, by decide +kernel⟩
  · simp [DomV, IsChainAny, IsLevelAny, IsSpec, IsElem]
  · simp [Written]
  · simp [LitsOK, EndOK, ASN_INTEGER_MIN, ASN_INTEGER_MAX]

end Asn1c.Props.C09
