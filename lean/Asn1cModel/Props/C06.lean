import Asn1cModel.Props.C01
import Asn1cModel.Props.C01Xer
import Asn1cModel.Props.C02Oer
import Asn1cModel.Props.C02Uper
/-
  C06 — canonical encodings depend only on the abstract value, not on its representation.
  The theorems audited for this property (lean/props/C06.json) live with the codec models:

  * DER (Props/C01.lean, L2 DER model): `encDER_canonV`, `encDER_eq_of_canonV_eq`, `encDER_setOf_perm`, the sorting
    lemmas, and the INTEGER strip loop (Proofs/Integer.lean);
  * CANONICAL-XER (Props/C01Xer.lean, the model of asn1c's XER codec): `cxer_setOf_perm`, and - finding F56
    repaired - `cxer_seq_default_indep`, `cxer_set_default_indep`: the text does not depend on whether a component
    holding its DEFAULT value is stored or absent;
  * canonical OER (Props/C02Oer.lean, the X.696 reference, which the C encoder equals on SET OF since the repair of
    finding F55): `encOER_setOf_perm`;
  * canonical PER (Props/C02Uper.lean, the X.691 reference): `seq_default_omitted` for root components and - finding
    F16 repaired - `seq_default_addition_omitted` for extension additions.
  This file only gathers the imports so that the check builds exactly this closure.
-/
