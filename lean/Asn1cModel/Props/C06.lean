import Asn1cModel.Props.C01
import Asn1cModel.Props.C01Xer
import Asn1cModel.Props.C02Oer
import Asn1cModel.Props.C02Uper
/-
  C06 — canonical encodings depend only on the abstract value, not on its representation.
  The theorems audited for this property (lean/props/C06.json) live with the codec models:

  * DER (Props/C01.lean, L2 DER model): `encDER_canonV`, `encDER_eq_of_canonV_eq`, `encDER_setOf_perm`, the sorting
    lemmas, and the INTEGER strip loop (Proofs/Integer.lean);
  * CANONICAL-XER (Props/C01Xer.lean, the model of asn1c's XER codec): `cxer_setOf_perm`, and - finding F56
    repaired - `cxer_seq_default_indep`, `cxer_set_default_indep`: the text does not depend on whether a component
    holding its DEFAULT value is stored or absent; the order in which the components of a SET are written (below,
    finding F65 repaired): `setCxerOrder_perm`, `setCxerOrder_root`, `setCxerOrder_additions`, `setCxerOrder_full`;
  * canonical OER (Props/C02Oer.lean, the X.696 reference, which the C encoder equals on SET OF since the repair of
    finding F55): `encOER_setOf_perm`;
  * canonical PER (Props/C02Uper.lean, the X.691 reference): `seq_default_omitted` for root components and - finding
    F16 repaired - `seq_default_addition_omitted` for extension additions.
  This file gathers the imports so that the check builds exactly this closure, and states the SET order.
-/

namespace Asn1c.Props.C06
open Asn1c Asn1c.L2 Asn1c.L2.Xer Asn1c.Impl.BerTlv

/-! ### the order of the components of a SET in (CANONICAL-)XER (finding F65 repaired)

`SET_encode_xer` walks `tag2el_cxer`, which asn1c now emits for every extensible SET whose order differs from the
table of all tags (the two tables were compared with `memcmp` over `count` BYTES, so the CXER table was mostly dropped
and an extension addition with a small tag was written before the root).  `setCxerOrder keys n total` is that table
for a SET with `total` components whose first `n` form the extension root, `keys` being their (smallest) tags. -/

/-- every component is written exactly once -/
theorem setCxerOrder_perm (keys : List Tag) (n total : Nat) (hn : n ≤ total) (hk : keys.length = total) :
    (setCxerOrder keys n total).Perm (List.range total) := by
  unfold setCxerOrder
  have h1 := Asn1c.Props.C02Uper.canonicalOrder_perm (keys.take n)
  rw [List.length_take, Nat.min_eq_left (by omega)] at h1
  have h2 : List.range total = List.range n ++ (List.range (total - n)).map (· + n) := by
    conv_lhs => rw [show total = n + (total - n) by omega, List.range_add]
    congr 1
    apply List.map_congr_left
    intro a _; omega
  rw [h2]
  exact h1.append_right _

/-- the extension root comes first, in the canonical order of its tags (X.680 §8.6: `canonicalOrder_sorted`) -/
theorem setCxerOrder_root (keys : List Tag) (n total : Nat) (hk : n ≤ keys.length) :
    (setCxerOrder keys n total).take n = canonicalOrder (keys.take n) := by
  unfold setCxerOrder
  have hl : (canonicalOrder (keys.take n)).length = n := by
    rw [Asn1c.Props.C02Uper.canonicalOrder_length, List.length_take]; omega
  rw [List.take_append_of_le_length (by omega), List.take_of_length_le (by omega)]

/-- the extension additions follow, in textual order, whatever their tags are -/
theorem setCxerOrder_additions (keys : List Tag) (n total : Nat) (hk : n ≤ keys.length) :
    (setCxerOrder keys n total).drop n = (List.range (total - n)).map (· + n) := by
  unfold setCxerOrder
  have hl : (canonicalOrder (keys.take n)).length = n := by
    rw [Asn1c.Props.C02Uper.canonicalOrder_length, List.length_take]; omega
  rw [List.drop_append_of_le_length (by omega), List.drop_of_length_le (by omega)]; rfl

/-- a SET without extension additions: the canonical order of all components -/
theorem setCxerOrder_full (keys : List Tag) : setCxerOrder keys keys.length keys.length = canonicalOrder keys := by
  simp [setCxerOrder]

/-- the former witness of finding F65, `S1 ::= SET { a [5] INTEGER, ..., b [1] BOOLEAN }`: a, then b (it was b, a: the
    order of ALL tags); `S4` with `b [APPLICATION 1]` likewise, while without the extension marker b comes first -/
theorem ref_F65_witness :
    setCxerOrder [⟨2, 5⟩, ⟨2, 1⟩] 1 2 = [0, 1] ∧ setCxerOrder [⟨2, 5⟩, ⟨1, 1⟩] 1 2 = [0, 1] ∧
    setCxerOrder [⟨2, 5⟩, ⟨2, 1⟩] 2 2 = [1, 0] ∧ setCxerOrder [⟨2, 7⟩, ⟨2, 3⟩, ⟨2, 9⟩, ⟨2, 0⟩, ⟨1, 2⟩] 2 5 = [1, 0, 2, 3, 4] := by
  decide

end Asn1c.Props.C06
