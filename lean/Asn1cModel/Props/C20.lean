import Asn1cModel.Impl.Unber
import Asn1cModel.Impl.Enber
import Asn1cModel.Spec.TlvForest
import Asn1cModel.Proofs.Unber
import Asn1cModel.Proofs.UnberSafe
import Asn1cModel.Proofs.UnberDepth
import Asn1cModel.Proofs.Enber
/-
  C20 — "unber and enber are mutually inverse; unber is safe on arbitrary input".

  Objects: `Spec.TlvForest` (X.690 §8.1 TLV forests, their encoding, well-formedness, and what
  unber has to print for them) and the Impl models `Impl.Unber.unber` (= `unber -p file`),
  `Impl.Enber.enber` (= `enber file`), both tied to the real tools on every run of the check.

  Guards.  `inDomainList` and `depthList x ≤ maxLevel` are the limits of the tools, not of BER (tag
  numbers < 2^30, at most 32 identifier+length octets, contents < 2^62 octets; at most
  `UNBER_MAX_NESTING_LEVEL` = 2048 constructed TLVs inside one another — beyond that unber stops with a
  diagnostic instead of exhausting the C stack: F41 repaired, `unber_nesting_limit`).  `minimalList` (every definite length
  in its shortest form) is the guard of the round-trip theorem: outside it the unchanged code
  violates the property — finding F8, `enber_unber_nonminimal_cex`.
-/
namespace Asn1c.Props.C20
open Asn1c Asn1c.Impl.Unber Asn1c.Impl.Enber Asn1c.Spec.TlvForest

/-- **Fields agree.**  For every well-formed BER forest `x` (any class, any tag number < 2^30,
    definite lengths in *any* valid form — also non-minimal —, indefinite lengths, any nesting up to
    `UNBER_MAX_NESTING_LEVEL`),
    `unber -p` succeeds on `encode x` and prints, for every TLV and in document order, exactly
    `expected`: O = offset of the TLV, T = its tag, TL = number of identifier+length octets,
    V = number of contents octets (or Indefinite), the contents octets of primitive TLVs,
    and the closing elements with the end offset and L = total size. -/
theorem unber_fields_agree (x : List Tlv) (hwf : wfList x = true) (hdom : inDomainList x = true)
    (hdep : depthList x ≤ maxLevel) :
    unberOuts (encodeList x) = (.ok, expectedList 0 0 x) :=
  Proofs.Unber.unberOuts_forest x hwf hdom hdep

/-- the same on the level of the printed text -/
theorem unber_text (x : List Tlv) (hwf : wfList x = true) (hdom : inDomainList x = true)
    (hdep : depthList x ≤ maxLevel) :
    unber (encodeList x) = (.ok, renderAll (expectedList 0 0 x)) := by
  simp only [unber, unber_fields_agree x hwf hdom hdep]

/-- **enber ∘ unber = id (partial: minimal definite lengths).**  For every well-formed BER forest
    `x` whose definite lengths are in the minimal form (indefinite lengths allowed anywhere),
    `unber -p` accepts `encode x` and `enber` applied to the text it printed exits normally and
    writes exactly `encode x`.
    Missing for the full property: non-minimal length forms (F8, next theorem). -/
theorem enber_unber_partial (x : List Tlv) (hwf : wfList x = true) (hdom : inDomainList x = true)
    (hdep : depthList x ≤ maxLevel) (hmin : minimalList x = true) :
    (unber (encodeList x)).1 = .ok ∧ enber (unber (encodeList x)).2 = ⟨encodeList x, none⟩ := by
  rw [unber_text x hwf hdom hdep]
  exact ⟨rfl, Proofs.Enber.enber_forest x hwf hdom hmin⟩

/-- The same with the tools' limits spelled out: tag numbers < 2^30, contents < 2^62 octets, nesting
    ≤ 2048 (with minimal lengths the 32-octet `tagbuf` is never a restriction). -/
theorem enber_unber_minimal (x : List Tlv) (hwf : wfList x = true) (hr : inRangeList x = true)
    (hdep : depthList x ≤ 2048) (hmin : minimalList x = true) :
    (unber (encodeList x)).1 = .ok ∧ enber (unber (encodeList x)).2 = ⟨encodeList x, none⟩ :=
  enber_unber_partial x hwf (Proofs.Enber.inDomainList_of_minimal x hr hmin) hdep hmin

/-- the sample forest `30 80 04 02 61 62 bf 1f 03 02 01 05 00 00  05 00` used for non-vacuity -/
def sample : List Tlv :=
  [ .indef 0 16 [ .prim 0 4 .short [0x61, 0x62], .cons 2 30 .short [ .prim 0 2 .short [5] ] ],
    .prim 0 5 .short [] ]

example : wfList sample = true ∧ inDomainList sample = true ∧ minimalList sample = true := by decide
example : depthList sample = 2 ∧ depthList sample ≤ maxLevel := by decide
example : (enber (unber (encodeList sample)).2).out = encodeList sample := by decide

/-- a well-formed forest with a non-minimal length: `04 81 02 61 62` -/
def sampleF8 : List Tlv := [ .prim 0 4 (.long 1) [0x61, 0x62] ]

example : encodeList sampleF8 = [0x04, 0x81, 0x02, 0x61, 0x62] := by decide
example : wfList sampleF8 = true ∧ inDomainList sampleF8 = true ∧ minimalList sampleF8 = false
    ∧ depthList sampleF8 ≤ maxLevel := by decide

/-- **F8 (counter-example for the unguarded round trip).**  `04 81 02 61 62` is well-formed BER
    within the tools' limits, unber accepts it (and the fields agree: TL="3"), but enber
    re-encodes the length minimally, finds 2 ≠ 3 and exits with "Cannot encode TL": nothing is
    written.  So `minimalList` cannot be dropped from `enber_unber_partial`. -/
theorem enber_unber_nonminimal_cex :
    wfList sampleF8 = true ∧ inDomainList sampleF8 = true ∧
    (unber (encodeList sampleF8)).1 = .ok ∧
    enber (unber (encodeList sampleF8)).2 = ⟨[], some .cannotEncodeTL⟩ := by
  decide

/-- **unber is total and safe on arbitrary bytes.**  For every byte string the model of
    `unber -p` (run with fuel `length + 1`) ends in `ok` or in one of the nine diagnostics;
    the outcomes `nofuel` (non-termination), `oob` (a read of `tagbuf` outside the octets stored
    so far / a store at index ≥ 32) and `assertion` (one of the five `assert()`s of
    `process_deeper`) are unreachable. -/
theorem unber_total (inp : Bytes) :
    (unber inp).1 = .ok ∨ ∃ e, (unber inp).1 = .failed e :=
  Proofs.UnberSafe.unber_total inp

theorem unber_no_oob (inp : Bytes) :
    (unber inp).1 ≠ .oob ∧ (unber inp).1 ≠ .assertion ∧ (unber inp).1 ≠ .nofuel := by
  rcases unber_total inp with h | ⟨e, h⟩ <;> rw [h] <;> simp

/-- **Bounded recursion on arbitrary bytes (F41 repaired).**  `process_deeper` runs one C stack frame
    per nesting level; every element `unber -p` prints — on any input whatsoever — was printed by an
    activation at a level ≤ `UNBER_MAX_NESTING_LEVEL` = 2048, i.e. at most 2049 frames of
    `process_deeper` are ever live, whatever the input nests. -/
theorem unber_levels_bounded (inp : Bytes) : ∀ o ∈ (unberOuts inp).2, o.level ≤ 2048 :=
  Proofs.UnberDepth.unberOuts_levels inp

/-- **Beyond the limit unber exits with the nesting diagnostic.**  Every well-formed BER forest (within
    the other limits of the tool) that nests constructed TLVs more than `UNBER_MAX_NESTING_LEVEL` deep is
    answered with "Too deep nesting" (exit EX_DATAERR) — together with `unber_fields_agree` this decides
    every well-formed in-domain input: accepted with the right fields iff the nesting is within the limit. -/
theorem unber_nesting_limit (x : List Tlv) (hwf : wfList x = true) (hdom : inDomainList x = true)
    (hdeep : depthList x > maxLevel) : (unber (encodeList x)).1 = .failed .tooDeep := by
  have := Proofs.UnberDepth.unberOuts_deep x hwf hdom hdeep
  simpa [unber] using this

/-- **F41 witness, repaired.**  `30 80` repeated `n > 2048` times (the former witness: n = 100000, which
    killed unber with a stack overflow), followed by anything: unber stops with the nesting diagnostic. -/
theorem unber_nesting_witness (n : Nat) (rest : Bytes) (h : 2048 < n) :
    (unber ((List.replicate n [0x30, 0x80]).flatten ++ rest)).1 = .failed .tooDeep := by
  rw [← Proofs.UnberDepth.nest_eq_replicate]
  have h1 := Proofs.UnberDepth.unberOuts_nest n rest h
  simpa [unber] using h1

/-- the former witness itself -/
theorem unber_nesting_witness_100000 :
    (unber (List.replicate 100000 [0x30, 0x80]).flatten).1 = .failed .tooDeep := by
  have := unber_nesting_witness 100000 [] (by decide)
  rwa [List.append_nil] at this

/-- **Accounting of one `process_deeper` activation on arbitrary input** (`limit ≥ -1`,
    fuel > remaining input): it never ends in `oob`/`assertion`/`nofuel`; when it returns, the
    input it leaves is a suffix of the input it got, `bytesRead` advanced by exactly the number of
    octets taken, and what it added to `*frame_size` does not exceed its `limit` — the fact that
    makes every `assert(limit >= …)` of the C code unreachable. -/
theorem pd_accounting (fuel level : Nat) (eoc : Bool) (tagbuf : Bytes) (limit : Int) (esize : Nat)
    (pdc : Pdc) (inp : Bytes) (off : Nat) (hlim : -1 ≤ limit) (hf : inp.length < fuel) :
    match pd fuel level eoc tagbuf limit esize pdc inp off with
    | .done _ frame inp' off' _ =>
        (limit ≠ -1 → (frame : Int) ≤ limit) ∧ ∃ consumed, inp = consumed ++ inp' ∧ off' = off + consumed.length
    | .failed _ _ => True
    | .oob _ => False
    | .assertion _ => False
    | .nofuel => False := by
  have := Proofs.UnberSafe.pd_safe fuel level eoc tagbuf limit esize pdc inp off hlim hf
  cases h : pd fuel level eoc tagbuf limit esize pdc inp off <;> rw [h] at this <;> exact this

/-- the TL decoders never read outside `buf[0..size)` when `size` is the number of octets
    stored, and report a consumed count within `1..size` -/
theorem fetch_in_bounds (constr : Bool) (buf : Bytes) :
    Impl.UnberTlv.fetchTag buf buf.length ≠ .oob ∧ Impl.UnberTlv.fetchLength constr buf buf.length ≠ .oob ∧
    (∀ t n, Impl.UnberTlv.fetchTag buf buf.length = .ok t n → 1 ≤ n ∧ n ≤ buf.length) ∧
    (∀ l n, Impl.UnberTlv.fetchLength constr buf buf.length = .ok l n → 1 ≤ n ∧ n ≤ buf.length) :=
  ⟨(Proofs.UnberSafe.fetchTag_safe buf).1, (Proofs.UnberSafe.fetchLength_safe constr buf).1,
   (Proofs.UnberSafe.fetchTag_safe buf).2,
   fun l n h => ⟨((Proofs.UnberSafe.fetchLength_safe constr buf).2 l n h).1,
                 ((Proofs.UnberSafe.fetchLength_safe constr buf).2 l n h).2.1⟩⟩

/-- **render / parse.**  What `process_line` reads back from an opening tag printed by
    `print_TL` for a definite-length TLV are the printed TL, V and tag (`parseLine ∘ render = id`
    on the attributes enber uses). -/
theorem parse_render_open (level : Nat) (constr : Bool) (off tl tag v : Nat)
    (htl : 2 ≤ tl ∧ tl < 2 ^ 63) (hv : v < 2 ^ 63) (htag : tag / 4 < 2 ^ 30) :
    ∃ tagPart, render (.opn level constr off tl tag (Int.ofNat v)) = indent level ++ tagPart ∧
      parseAttrs (if constr then 1 else 0) tagPart = .ok (tl, v, tag) := by
  refine ⟨_, Proofs.Enber.render_opn level constr off tl tag (Int.ofNat v), ?_⟩
  cases constr
  · exact Proofs.Enber.parseAttrs_open_def 0 _ off tl tag v (by omega) (by simp [formLetter]) htl hv htag
  · have : formLetter true (Int.ofNat v) = 67 := by simp [formLetter]
    rw [this]
    exact Proofs.Enber.parseAttrs_open_def 1 67 off tl tag v (by omega) (by omega) htl hv htag

/-- the TL primitives invert each other: `ber_fetch_tag` reads back what `ber_tlv_tag_serialize`
    wrote, `ber_fetch_length` what `der_tlv_length_serialize` wrote (whatever follows) -/
theorem fetch_serialize (c n len : Nat) (constr : Bool) (rest : Bytes) (hc : c < 4) (hn : n < 2 ^ 30)
    (hl : len < 2 ^ 62) :
    Impl.UnberTlv.fetchTag ((Impl.UnberTlv.tagSerialize (n * 4 + c) 32).1 ++ rest)
        ((Impl.UnberTlv.tagSerialize (n * 4 + c) 32).1 ++ rest).length
      = .ok (n * 4 + c) (Impl.UnberTlv.tagSerialize (n * 4 + c) 32).2 ∧
    Impl.UnberTlv.fetchLength constr ((Impl.UnberTlv.lenSerialize len 32).1 ++ rest)
        ((Impl.UnberTlv.lenSerialize len 32).1 ++ rest).length
      = .ok (Int.ofNat len) (Impl.UnberTlv.lenSerialize len 32).2 := by
  constructor
  · rw [Proofs.UnberTlv.tagSerialize_ident c n hc hn]
    exact Proofs.UnberTlv.fetchTag_ident c false n rest _ hc hn (by simp)
  · rw [Proofs.UnberTlv.lenSerialize_minimal (Proofs.UnberTlv.minForm len) len 32
      (Proofs.UnberTlv.minForm_minimal len hl) hl (by omega)]
    exact Proofs.UnberTlv.fetchLength_lenOctets _ len constr rest _ (Proofs.UnberTlv.minForm_valid len hl) hl (by simp)

end Asn1c.Props.C20
