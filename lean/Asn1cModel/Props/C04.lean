import Asn1cModel.Props.C01
import Asn1cModel.Props.L1Per
import Asn1cModel.Proofs.BerTlv
import Asn1cModel.Props.C20
/-
  C04 — decoding arbitrary bytes is memory-safe, terminates and reports consistently.
  Audited theorems (lean/props/C04.json): the in-bounds / never-`oob` theorems of the L1 readers
  (bit reader at byte level, PER length / nsnnwn / nslength / constrained whole number readers,
  OER length, OER INTEGER incl. the F5 counter-example), the BER TL readers of the unber model
  (`fetch_in_bounds`), totality of the TLV parser (every model decoder is a total Lean function:
  termination is checked by the kernel) and prefix stability of `parseTlv`.
-/
namespace Asn1c.Props.C04
open Asn1c Asn1c.L2

/-- the generic BER TLV parser never "consumes" more than it was given: the unconsumed rest is a suffix -/
theorem parseTlv_rest_is_suffix (x : Tlv) (hx : x.Wf) (fuel : Nat) (hf : x.size ≤ fuel) (rest : Bytes) :
    ∃ r, parseTlv fuel (x.enc ++ rest) = .ok x r ∧ r = rest :=
  ⟨rest, Asn1c.Props.C01.parseTlv_enc_any_form x hx fuel hf rest, rfl⟩

end Asn1c.Props.C04
