import Asn1cModel.Proofs.Oid
import Asn1cModel.Proofs.Time
import Asn1cModel.Proofs.TimeFrac
/-
  C17 — OBJECT IDENTIFIER and time helper APIs round-trip and match X.690.
  Property theorems only (helper lemmas: Proofs/Oid.lean, Proofs/Time.lean).

  Part A: Impl.Oid = model of skeletons/OBJECT_IDENTIFIER.c and RELATIVE-OID.c (`asn_oid_arc_t` = `uint32_t`)
          against Spec.Oid (X.690 §8.19 / §8.20, dotted text form).
  Part B: Impl.Time = model of skeletons/GeneralizedTime.c and UTCTime.c, with libc's timegm / gmtime_r /
          localtime_r replaced by a proleptic-Gregorian calendar model, against Spec.Time (the calendar counted
          year by year and month by month, POSIX seconds, canonical YYYYMMDDHHMMSSZ text).
  Both models are tied to the C code by the `oidtime_driver` correspondence (time ops under several TZ settings).
-/
namespace Asn1c.Props.C17
open Asn1c Asn1c.Impl.Oid Asn1c.Spec.Oid Asn1c.Proofs.Oid

/-! ## Part A — OBJECT IDENTIFIER / RELATIVE-OID -/

/-! ### (1) the specification encoder -/

/-- Spec sanity: `base128 n` is one complete sub-identifier, has no 0x80 leading octet and denotes `n`
    (the declarative reading of X.690 §8.19.2). -/
theorem base128_spec (n : Nat) :
    IsSubid (base128 n) ∧ MinimalSubid (base128 n) ∧ subidVal 0 (base128 n) = n :=
  ⟨base128_isSubid n, base128_minimal n, subidVal_base128 n⟩

/-- Spec sanity: a `uint32_t` arc needs at most five octets (the C code's per-arc buffer estimate). -/
theorem base128_length_le (n : Nat) (h : n < 2 ^ 32) : (base128 n).length ≤ 5 :=
  base128_length_le5 n (by have e : (2 : Nat) ^ 32 = 4294967296 := by decide
                           omega)

/-- Spec sanity: `base128 n` consists of octets. -/
theorem base128_wf (n : Nat) : Bytes.wf (base128 n) := Asn1c.Proofs.Oid.base128_wf n

/-! ### (2) OBJECT_IDENTIFIER_set_single_arc -/

/-- **OBJECT_IDENTIFIER_set_single_arc** writes exactly the X.690 §8.19.2 octets of `v` when they fit
    the buffer and returns -1 (nothing written) otherwise. -/
theorem setSingleArc_spec (buflen v : Nat) :
    setSingleArc buflen v = if (base128 v).length ≤ buflen then some (base128 v) else none :=
  setSingleArc_eq buflen v

/-! ### (3) OBJECT_IDENTIFIER_set_arcs -/

/-- **OBJECT_IDENTIFIER_set_arcs** stores exactly the X.690 §8.19 contents octets for every arc vector
    with a valid first pair; the internal buffer-size test never fires. -/
theorem setArcs_eq_spec (arcs : List Nat) (hv : ValidFirstPair arcs) (h32 : Arcs32 arcs) :
    setArcs arcs = .ok (oidOctets arcs) := by
  match arcs, hv, h32 with
  | a0 :: a1 :: rest, hv, h32 =>
    simp only [ValidFirstPair] at hv
    obtain ⟨h0, h1, h2⟩ := hv
    have e : (2 : Nat) ^ 32 = 4294967296 := by decide
    rw [e] at h2
    unfold setArcs
    simp only [arcMax_eq, List.length_cons]
    rw [if_neg (by omega), if_neg (by omega), if_neg (by omega)]
    have hm : (a0 * 40 + a1) % 4294967296 = 40 * a0 + a1 := by omega
    rw [hm, setSingleArc_fits _ _ h2 (by omega)]
    simp only
    have hl := base128_length_le5 _ h2
    rw [setArcsLoop_eq _ _ rest (arcs32_tail (arcs32_tail h32)) (by omega)]
    rfl

/-- **OBJECT_IDENTIFIER_set_arcs** fails with EINVAL for fewer than two arcs and with ERANGE for every
    other vector whose first pair is not valid. -/
theorem setArcs_error_kind (arcs : List Nat) (h32 : Arcs32 arcs) (hn : ¬ ValidFirstPair arcs) :
    setArcs arcs = if arcs.length < 2 then .einval else .erange := by
  match arcs, hn, h32 with
  | [], _, _ => rfl
  | [_], _, _ => rfl
  | a0 :: a1 :: rest, hn, _ =>
    simp only [ValidFirstPair] at hn
    have e : (2 : Nat) ^ 32 = 4294967296 := by decide
    rw [e] at hn
    unfold setArcs
    simp only [arcMax_eq, List.length_cons]
    rw [if_neg (c := rest.length + 1 + 1 < 2) (by omega)]
    by_cases c1 : a0 ≤ 1 ∧ a1 ≥ 40
    · rw [if_pos c1]
    · rw [if_neg c1]
      by_cases c2 : a0 = 2 ∧ a1 > 4294967295 - 80
      · rw [if_pos c2]
      · rw [if_neg c2]
        by_cases c3 : a0 > 2
        · rw [if_pos c3]
        · exfalso; apply hn
          refine ⟨by omega, by omega, by omega⟩

/-- **OBJECT_IDENTIFIER_set_arcs** succeeds exactly on the arc vectors with a valid first pair. -/
theorem setArcs_rejects_iff (arcs : List Nat) (h32 : Arcs32 arcs) :
    (∃ bs, setArcs arcs = .ok bs) ↔ ValidFirstPair arcs := by
  constructor
  · rintro ⟨bs, h⟩
    by_cases hv : ValidFirstPair arcs
    · exact hv
    · rw [setArcs_error_kind arcs h32 hv] at h
      split at h <;> simp at h
  · intro hv; exact ⟨_, setArcs_eq_spec arcs hv h32⟩

/-- **OBJECT_IDENTIFIER_set_arcs** never takes the bare `return -1` of the buffer-size test. -/
theorem setArcs_never_fail (arcs : List Nat) (h32 : Arcs32 arcs) : setArcs arcs ≠ .fail := by
  by_cases hv : ValidFirstPair arcs
  · rw [setArcs_eq_spec arcs hv h32]; simp
  · rw [setArcs_error_kind arcs h32 hv]; split <;> simp

/-! ### (4) OBJECT_IDENTIFIER_get_single_arc -/

/-- **OBJECT_IDENTIFIER_get_single_arc** on any complete sub-identifier (minimal or not, any length,
    whatever follows it) consumes it and returns its value iff that value fits `asn_oid_arc_t`;
    otherwise it reports ERANGE (no wrap-around: F6 repaired). -/
theorem getSingleArc_iff_fits (bs rest : Bytes) (h : IsSubid bs) :
    getSingleArc (bs ++ rest) =
      if subidVal 0 bs < 2 ^ 32 then .ok (subidVal 0 bs) bs.length else .erange :=
  getSingleArc_subid bs rest h

/-- **OBJECT_IDENTIFIER_get_single_arc** returns the exact value of every sub-identifier below 2^32. -/
theorem getSingleArc_spec (bs rest : Bytes) (h : IsSubid bs) (hv : subidVal 0 bs < 2 ^ 32) :
    getSingleArc (bs ++ rest) = .ok (subidVal 0 bs) bs.length := by
  rw [getSingleArc_iff_fits bs rest h, if_pos hv]

/-- **OBJECT_IDENTIFIER_get_single_arc** reports ERANGE for every sub-identifier of 2^32 or more. -/
theorem getSingleArc_overflow (bs rest : Bytes) (h : IsSubid bs) (hv : 2 ^ 32 ≤ subidVal 0 bs) :
    getSingleArc (bs ++ rest) = .erange := by
  rw [getSingleArc_iff_fits bs rest h, if_neg (by omega)]

/-- **OBJECT_IDENTIFIER_get_single_arc** accepts non-minimal sub-identifiers (any number of leading
    0x80 octets, forbidden by X.690 §8.19.2) and returns the same arc. -/
theorem getSingleArc_nonminimal (k n : Nat) (rest : Bytes) (h : n < 2 ^ 32) :
    getSingleArc (List.replicate k 128 ++ base128 n ++ rest) = .ok n (k + (base128 n).length) := by
  have hs : IsSubid (List.replicate k 128 ++ base128 n) :=
    isSubid_hi_append _ _ (allHi_replicate k) (base128_isSubid n)
  have hval : subidVal 0 (List.replicate k 128 ++ base128 n) = n := by
    rw [subidVal_append, subidVal_replicate, subidVal_base128]
  rw [getSingleArc_iff_fits _ rest hs, hval, if_pos h]
  simp

/-- **OBJECT_IDENTIFIER_get_single_arc is sound on arbitrary octets**: whenever it returns an arc, the
    `rd` octets it consumed are one complete sub-identifier, the arc is the value they denote and it
    fits 32 bits (nothing is returned modulo 2^32). -/
theorem getSingleArc_ok_sound (bs : Bytes) (hwf : Bytes.wf bs) (v rd : Nat)
    (h : getSingleArc bs = .ok v rd) :
    ∃ sub rest, bs = sub ++ rest ∧ IsSubid sub ∧ rd = sub.length ∧ v = subidVal 0 sub ∧ v < 2 ^ 32 := by
  rcases subid_prefix_or_allHi bs hwf with ⟨sub, rest, e, hs⟩ | hall
  · refine ⟨sub, rest, e, hs, ?_⟩
    rw [e, getSingleArc_iff_fits sub rest hs] at h
    split at h
    · rename_i hv
      injection h with h1 h2
      exact ⟨h2.symm, h1.symm, by rw [← h1]; exact hv⟩
    · cases h
  · exfalso
    unfold getSingleArc at h
    split at h
    · cases h
    · rcases getSingleLoop_allHi 0 0 bs hall with e | e <;> rw [e] at h <;> cases h

/-- **OBJECT_IDENTIFIER_get_single_arc reports ERANGE only for an overflow**: on arbitrary octets the
    answer ERANGE means that the octets read so far already denote a value of 2^32 or more. -/
theorem getSingleArc_erange_sound (bs : Bytes) (hwf : Bytes.wf bs) (h : getSingleArc bs = .erange) :
    (∃ sub rest, bs = sub ++ rest ∧ IsSubid sub ∧ 2 ^ 32 ≤ subidVal 0 sub) ∨
    ((∀ b ∈ bs, 128 ≤ b ∧ b < 256) ∧ 2 ^ 32 ≤ subidVal 0 bs) := by
  rcases subid_prefix_or_allHi bs hwf with ⟨sub, rest, e, hs⟩ | hall
  · left
    refine ⟨sub, rest, e, hs, ?_⟩
    rw [e, getSingleArc_iff_fits sub rest hs] at h
    split at h
    · cases h
    · omega
  · right
    refine ⟨hall, ?_⟩
    by_cases hv : subidVal 0 bs < 4294967296
    · exfalso
      unfold getSingleArc at h
      split at h
      · cases h
      · rw [getSingleLoop_allHi_small 0 0 bs hall hv] at h; cases h
    · omega

/-- F6 witness, repaired: the five-octet sub-identifier of 2^32 (formerly read back as arc 0) is
    answered with ERANGE; 2^32 - 1 is still read exactly. -/
theorem getSingleArc_overflow_witness :
    IsSubid [0x90, 0x80, 0x80, 0x80, 0x00] ∧ subidVal 0 [0x90, 0x80, 0x80, 0x80, 0x00] = 2 ^ 32 ∧
    getSingleArc [0x90, 0x80, 0x80, 0x80, 0x00] = .erange ∧
    getSingleArc [0x8f, 0xff, 0xff, 0xff, 0x7f] = .ok 4294967295 5 := by
  refine ⟨?_, by decide, by decide, by decide⟩
  simp [IsSubid]

/-- **OBJECT_IDENTIFIER_get_single_arc** when the buffer ends inside a sub-identifier: EINVAL — unless
    the octets read so far already overflow 32 bits, which is reported (as ERANGE) first. -/
theorem getSingleArc_truncated (bs : Bytes) (hne : bs ≠ []) (h : ∀ b ∈ bs, 128 ≤ b ∧ b < 256) :
    (subidVal 0 bs < 2 ^ 32 → getSingleArc bs = .einval) ∧
    (getSingleArc bs = .einval ∨ getSingleArc bs = .erange) := by
  unfold getSingleArc
  rw [if_neg hne]
  exact ⟨fun hv => getSingleLoop_allHi_small 0 0 bs h hv, getSingleLoop_allHi 0 0 bs h⟩

/-! ### (5) get_arcs ∘ set_arcs -/

/-- **OBJECT_IDENTIFIER_get_arcs** reads back exactly the arc vector whose X.690 contents octets it is
    given (valid first pair, 32-bit arcs). -/
theorem getArcs_setArcs (arcs : List Nat) (hv : ValidFirstPair arcs) (h32 : Arcs32 arcs) :
    getArcs (oidOctets arcs) = .ok arcs := by
  match arcs, hv, h32 with
  | a0 :: a1 :: rest, hv, h32 =>
    simp only [ValidFirstPair] at hv
    obtain ⟨h0, h1, h2⟩ := hv
    have e : (2 : Nat) ^ 32 = 4294967296 := by decide
    rw [e] at h2
    unfold getArcs oidOctets
    rw [getSingleArc_base128 _ _ h2]
    simp only [splitFirst_pair a0 a1 h0 h1, List.drop_left]
    rw [getArcsLoop_flatMap _ rest (arcs32_tail (arcs32_tail h32))
      (by have := length_le_flatMap_base128 rest
          simp only [List.length_append]; omega)]

/-- **OBJECT_IDENTIFIER_get_arcs ∘ OBJECT_IDENTIFIER_set_arcs** is the identity on every accepted
    arc vector. -/
theorem getArcs_of_setArcs (arcs : List Nat) (bs : Bytes) (h32 : Arcs32 arcs)
    (h : setArcs arcs = .ok bs) : getArcs bs = .ok arcs := by
  have hv : ValidFirstPair arcs := (setArcs_rejects_iff arcs h32).mp ⟨bs, h⟩
  rw [setArcs_eq_spec arcs hv h32] at h
  injection h with h
  rw [← h]; exact getArcs_setArcs arcs hv h32

/-- **RELATIVE_OID_set_arcs** stores exactly the X.690 §8.20 contents octets; the buffer-size test
    never fires. -/
theorem roidSetArcs_eq_spec (arcs : List Nat) (h32 : Arcs32 arcs) :
    roidSetArcs arcs = .ok (roidOctets arcs) := by
  unfold roidSetArcs roidOctets
  rw [setArcsLoop_eq _ _ arcs h32 (Nat.le_refl _)]; rfl

/-- **RELATIVE_OID_get_arcs** reads back exactly the arc vector whose contents octets it is given. -/
theorem roidGetArcs_roidSetArcs (arcs : List Nat) (h32 : Arcs32 arcs) :
    roidGetArcs (roidOctets arcs) = .ok arcs := by
  unfold roidGetArcs roidOctets
  exact getArcsLoop_flatMap _ arcs h32 (by have := length_le_flatMap_base128 arcs; omega)

/-- **RELATIVE_OID_get_arcs on any series of complete sub-identifiers** (minimal or not): the values
    they denote if every one fits `asn_oid_arc_t`, ERANGE otherwise. -/
theorem roidGetArcs_iff_fit (subs : List Bytes) (h : ∀ s ∈ subs, IsSubid s) :
    roidGetArcs subs.flatten =
      if allFit subs = true then .ok (subs.map (subidVal 0)) else .erange := by
  unfold roidGetArcs
  exact getArcsLoop_subids _ subs h (by have := length_le_flatten_subids subs h; omega)

/-- **OBJECT_IDENTIFIER_get_arcs on any series of complete sub-identifiers**: the first one split
    into the arc pair (X.690 §8.19.4), then the values of the others, if every sub-identifier fits
    `asn_oid_arc_t`; ERANGE otherwise. -/
theorem getArcs_iff_fit (s0 : Bytes) (subs : List Bytes) (h0 : IsSubid s0) (h : ∀ s ∈ subs, IsSubid s) :
    getArcs (s0 ++ subs.flatten) =
      if allFit (s0 :: subs) = true then
        .ok ((splitFirst (subidVal 0 s0)).1 :: (splitFirst (subidVal 0 s0)).2 :: subs.map (subidVal 0))
      else .erange := by
  unfold getArcs
  rw [getSingleArc_iff_fits s0 _ h0, allFit_cons]
  by_cases hv : subidVal 0 s0 < 2 ^ 32
  · rw [if_pos hv]
    simp only [List.drop_left]
    rw [getArcsLoop_subids _ subs h (by
      have := length_le_flatten_subids subs h
      simp only [List.length_append]; omega)]
    have hv' : subidVal 0 s0 < 4294967296 := hv
    by_cases ha : allFit subs = true
    · simp [hv', ha]
    · simp [ha]
  · rw [if_neg hv]
    have hv' : ¬ subidVal 0 s0 < 4294967296 := hv
    simp [hv']

/-! ### (6) OBJECT_IDENTIFIER_parse_arcs -/

/-- **OBJECT_IDENTIFIER_parse_arcs** on the dotted text of any non-empty vector of 32-bit arcs returns
    exactly that vector and sets the end pointer to the end of the text. -/
theorem parseArcs_dotted (arcs : List Nat) (hne : arcs ≠ []) (h32 : Arcs32 arcs) :
    parseArcs (dotted arcs) = .ok arcs (dotted arcs).length :=
  parseArcs_dotted_eq arcs hne h32

/-- **OBJECT_IDENTIFIER_parse_arcs** rejections: "1. 1", ".1", "1.", "1..2" are EINVAL and
    "1.4294967296" is ERANGE, with the end pointer at the offending position. -/
theorem parseArcs_rejects :
    parseArcs [0x31, 0x2e, 0x20, 0x31] = .einval 2 ∧
    parseArcs [0x2e, 0x31] = .einval 0 ∧
    parseArcs [0x31, 0x2e] = .einval 2 ∧
    parseArcs [0x31, 0x2e, 0x2e, 0x32] = .einval 2 ∧
    parseArcs [0x31, 0x2e, 0x34, 0x32, 0x39, 0x34, 0x39, 0x36, 0x37, 0x32, 0x39, 0x36] = .erange 2 := by
  refine ⟨by decide, by decide, by decide, by decide, by decide⟩

/-- **OBJECT_IDENTIFIER_parse_arcs** on blank text returns 0 arcs with the end pointer at the end. -/
theorem parseArcs_blank : parseArcs [0x20, 0x09] = .ok [] 2 := by decide


/-! non-vacuity: a valid vector at the edge of the 32-bit range, and a complete non-minimal sub-identifier -/
example : ValidFirstPair [2, 4294967215, 4294967295] ∧ Arcs32 [2, 4294967215, 4294967295] := by
  constructor
  · decide
  · intro a ha; simp at ha; rcases ha with h | h | h <;> subst h <;> decide
example : IsSubid [0x80, 0x80, 0x01] ∧ subidVal 0 [0x80, 0x80, 0x01] < 2 ^ 32 := by
  refine ⟨by simp [IsSubid], by decide⟩

/-! ## Part B — GeneralizedTime / UTCTime -/

section TimePart
open Asn1c.Impl.Time Asn1c.Spec.Time Asn1c.Proofs.Time

/-! ### the calendar model (stands in for libc) -/

/-- **calendar model = Gregorian calendar**: the closed-form day count used by the `timegm` model equals the
    day number obtained by counting years (leap rule) and months (length table) one by one. -/
theorem calendar_eq_spec (Y M D : Nat) (h1 : 1 ≤ M) (h2 : M ≤ 12) (hd : 1 ≤ D) :
    daysFromCivil (Y : Int) (M - 1) (D : Int) = (dayNumber Y M D : Int) - 719528 :=
  daysFromCivil_eq_spec Y M D h1 h2 hd

/-- **daysFromCivil ∘ civilFromDays = id** on every day number (negative ones included) -/
theorem daysFromCivil_civilFromDays (z : Int) :
    daysFromCivil (civilFromDays z).1 (civilFromDays z).2.1 (civilFromDays z).2.2 = z :=
  Asn1c.Proofs.Time.daysFromCivil_civilFromDays z

/-- **civilFromDays ∘ daysFromCivil = id** on every valid date (any year, month 0..11, day within the month) -/
theorem civilFromDays_daysFromCivil (y : Int) (m d : Nat) (hm : m < 12) (hd1 : 1 ≤ d)
    (hd2 : d ≤ monthLen (isLeap (y % 400).toNat) m) : civilFromDays (daysFromCivil y m d) = (y, m, d) :=
  Asn1c.Proofs.Time.civilFromDays_daysFromCivil y m d hm hd1 hd2

/-- `civilFromDays` always yields a valid date -/
theorem civilFromDays_valid (z : Int) :
    (civilFromDays z).2.1 < 12 ∧ 1 ≤ (civilFromDays z).2.2 ∧
    (civilFromDays z).2.2 ≤ monthLen (isLeap ((civilFromDays z).1 % 400).toNat) (civilFromDays z).2.1 :=
  Asn1c.Proofs.Time.civilFromDays_valid z

/-- **timegm (gmtime t) = t** for every `time_t` -/
theorem timegm_gmtime (t : Int) : timegm (gmtime t) = t := Asn1c.Proofs.Time.timegm_gmtime t

/-! ### asn_time2GT / asn_GT2time -/

/-- **forced-GMT output does not depend on the time zone**: whatever UTC offset `off` the `struct tm` was
    produced with (`localtime_r` in any zone), `asn_time2GT_frac(.., force_gmt = 1)` yields the text obtained
    from the UTC broken-down time; fractions included. -/
theorem time2GT_zone_independent (t off fv fd : Int) :
    time2GTfrac (localtime t off) fv fd true = time2GTfrac (gmtime t) fv fd true :=
  time2GTfrac_zone_independent t off fv fd

/-- **canonical text**: for every instant `t` in the years 0000..9999 and every zone offset, `asn_time2GT`
    in forced-GMT form succeeds and produces "YYYYMMDDHHMMSSZ" for a valid calendar date-time that denotes
    `t` (POSIX seconds over the Gregorian calendar). -/
theorem time2GT_canonical (t off : Int) (h0 : t0000 ≤ t) (h1 : t < t10000) :
    ∃ Y M D h m s, ValidDateTime Y M D h m s ∧ epochSeconds Y M D h m s = t ∧
      time2GT (localtime t off) true = some (gtCanon Y M D h m s) :=
  time2GT_canon t off h0 h1

/-- **asn_GT2time on canonical text**: every "YYYYMMDDHHMMSSZ" of a valid date-time converts to the instant
    it denotes (and the `struct tm` handed back is that instant's), in every local zone — the instant -1
    (1969-12-31T23:59:59Z) included (F60 repaired). -/
theorem GT2time_canonical (lo : Int) (g : Bool) (Y M D h m s : Nat) (hv : ValidDateTime Y M D h m s) :
    GT2time lo (gtCanon Y M D h m s) g = .ok (epochSeconds Y M D h m s) 0 0
      (if g then gmtime (epochSeconds Y M D h m s) else localtime (epochSeconds Y M D h m s) lo) := by
  unfold GT2time
  rw [GT2timeFrac_canon lo g Y M D h m s hv]

/-- **round trip**: for every `time_t` t in the years 0000..9999, every zone offset of the input
    and every local zone / `as_gmt` choice of the reader:  GT2time (time2GT (localtime t)) = t. -/
theorem GT2time_time2GT (t off lo : Int) (g : Bool) (h0 : t0000 ≤ t) (h1 : t < t10000) :
    ∃ txt, time2GT (localtime t off) true = some txt ∧
      GT2time lo txt g = .ok t 0 0 (if g then gmtime t else localtime t lo) := by
  obtain ⟨Y, M, D, h, m, s, hv, he, ht⟩ := time2GT_canonical t off h0 h1
  refine ⟨_, ht, ?_⟩
  have := GT2time_canonical lo g Y M D h m s hv
  rw [he] at this; exact this

/-- F60 witness, repaired: the instant -1 (1969-12-31T23:59:59Z) is a valid `time_t`; `asn_GT2time`
    converts what `asn_time2GT` prints for it back to -1, and the text "19691231235959Z" of the former
    witness is read as -1 (formerly: -1/EINVAL). -/
theorem GT2time_minus_one_witness (off lo : Int) (g : Bool) :
    (∃ txt, time2GT (localtime (-1) off) true = some txt ∧
      GT2time lo txt g = .ok (-1) 0 0 (if g then gmtime (-1) else localtime (-1) lo)) ∧
    gtCanon 1969 12 31 23 59 59 =
      [0x31, 0x39, 0x36, 0x39, 0x31, 0x32, 0x33, 0x31, 0x32, 0x33, 0x35, 0x39, 0x35, 0x39, 0x5a] ∧
    GT2time lo (gtCanon 1969 12 31 23 59 59) g = .ok (-1) 0 0 (if g then gmtime (-1) else localtime (-1) lo) := by
  have he : epochSeconds 1969 12 31 23 59 59 = -1 := by
    have hd : dayNumber 1969 12 31 = 719527 := by
      simp only [dayNumber]; rw [← eraForm_eq_spec]; decide
    simp only [epochSeconds, hd]; decide
  have hc := GT2time_canonical lo g 1969 12 31 23 59 59 (by decide)
  rw [he] at hc
  exact ⟨GT2time_time2GT (-1) off lo g (by decide) (by decide), by decide, hc⟩

/-! ### fractions: the "Deal with fractions" block of asn_time2GT_frac -/

/-- **asn_time2GT_frac, fraction block**: for 1..9 `frac_digits` and a `frac_value` that fits them, the block
    prints the fraction n/10^d canonically: all d digits, trailing zeros stripped, '.' only if a digit remains. -/
theorem fracText_canonical (n d : Nat) (hd1 : 1 ≤ d) (hd9 : d ≤ 9) (hn0 : 0 < n) (hn : n < 10 ^ d) :
    fracText (n : Int) (d : Int) = fracCanon n d :=
  have _ := hd1
  have _ := hn0
  fracText_eq_fracCanon n d hd9 hn

/-- **asn_time2GT_frac, fraction block**: a `frac_value` that does not fit `frac_digits` (1..9) digits is
    silently dropped — the `digit > 9` abort prints no fraction at all. -/
theorem fracText_too_big (n d : Nat) (hd1 : 1 ≤ d) (hd9 : d ≤ 9) (hn : 10 ^ d ≤ n) :
    fracText (n : Int) (d : Int) = [] :=
  fracText_overflow n d hd1 hd9 hn

/-! ### asn_time2GT_frac, forced GMT, with a fraction -/

/-- **asn_time2GT_frac(localtime(t), n, d, force_gmt = 1)** for t in the years 0000..9999 and a fraction n/10^d
    (1 ≤ d ≤ 9): the text is the 14 canonical digits of a valid UTC date-time denoting t, the canonical
    fraction, 'Z' — in every zone. -/
theorem time2GTfrac_canonical (t off : Int) (n d : Nat) (h0 : t0000 ≤ t) (h1 : t < t10000)
    (hd1 : 1 ≤ d) (hd9 : d ≤ 9) (hn0 : 0 < n) (hn : n < 10 ^ d) :
    ∃ Y M D h m s, ValidDateTime Y M D h m s ∧ epochSeconds Y M D h m s = t ∧
      time2GTfrac (localtime t off) n d true =
        some ((gtCanon Y M D h m s).dropLast ++ fracCanon n d ++ [0x5a]) := by
  obtain ⟨Y, M, D, h, m, s, hv, he, ht⟩ := time2GTfrac_head t off n d h0 h1
  refine ⟨Y, M, D, h, m, s, hv, he, ?_⟩
  rw [ht, gtCanon_dropLast, fracText_canonical n d hd1 hd9 hn0 hn]

/-! ### asn_GT2time_frac reads the fraction back -/

/-- **asn_GT2time_frac on "YYYYMMDDHHMMSS.f…fZ"** (valid date-time, at most nine fraction digits): the instant
    the text denotes, `*frac_value` = the decimal value of the digits, `*frac_digits` = their number (the instant -1 is no
    exception: F60 repaired). -/
theorem GT2timeFrac_canon_frac (lo : Int) (g : Bool) (Y M D h m s : Nat) (hv : ValidDateTime Y M D h m s)
    (ds : List Nat) (hds : ∀ c ∈ ds, 48 ≤ c ∧ c ≤ 57) (hlen : ds.length ≤ 9) (hne : ds ≠ []) :
    GT2timeFrac lo (gtDigits14 Y M D h m s ++ 0x2e :: ds ++ [0x5a]) g =
      .ok (epochSeconds Y M D h m s) (digitsVal ds : Nat) ds.length
        (if g then gmtime (epochSeconds Y M D h m s) else localtime (epochSeconds Y M D h m s) lo) :=
  have _ := hne
  Asn1c.Proofs.Time.GT2timeFrac_canon_frac lo g Y M D h m s hv ds hds hlen

/-- Spec sanity: the canonical fraction of n/10^d (0 < n < 10^d) is '.' followed by 1..d digits, the last one
    non-redundant in the sense that their value scaled back to d digits is n. -/
theorem fracCanon_denotes (n d : Nat) (hn0 : 0 < n) (hn : n < 10 ^ d) :
    ∃ ds : List Nat, fracCanon n d = 0x2e :: ds ∧ (∀ c ∈ ds, 48 ≤ c ∧ c ≤ 57) ∧ ds ≠ [] ∧ ds.length ≤ d ∧
      digitsVal ds * 10 ^ (d - ds.length) = n :=
  Asn1c.Proofs.Time.fracCanon_denotes n d hn0 hn

/-- **fraction round trip**: for t in the years 0000..9999, every zone offset, and a fraction
    n/10^d (d ≤ 9, 0 < n < 10^d): `asn_GT2time_frac` applied to the forced-GMT text of `asn_time2GT_frac`
    returns t and a fraction fv/10^fd equal to n/10^d (1 ≤ fd ≤ d: trailing zeros are gone). -/
theorem GT2timeFrac_time2GTfrac (t off lo : Int) (g : Bool) (n d : Nat) (h0 : t0000 ≤ t) (h1 : t < t10000)
    (hd9 : d ≤ 9) (hn0 : 0 < n) (hn : n < 10 ^ d) :
    ∃ (txt : Bytes) (fv fd : Nat), time2GTfrac (localtime t off) n d true = some txt ∧
      GT2timeFrac lo txt g = .ok t fv fd (if g then gmtime t else localtime t lo) ∧
      1 ≤ fd ∧ fd ≤ d ∧ fv * 10 ^ (d - fd) = n :=
  Asn1c.Proofs.Time.GT2timeFrac_time2GTfrac t off lo g n d h0 h1 hd9 hn0 hn

/-- Observations on foreign input (closed instances; none contradicts C17, which is about the helpers' own
    output): `asn_GT2time` (a) ignores anything after 'Z' ("19700101000000Zjunk" = 0), (b) does not range-check
    minutes ("19700101009900Z" = 99 min = 5940 s), (c) accepts day 31 in any month and lets `timegm` normalise
    ("20230231000000Z" = 2023-03-03), (d) rejects the X.680 fraction-of-an-hour form "2024010112.5Z". -/
theorem GT2time_reader_quirks :
    (GT2time 0 [0x31,0x39,0x37,0x30,0x30,0x31,0x30,0x31,0x30,0x30,0x30,0x30,0x30,0x30,0x5a,0x6a,0x75,0x6e,0x6b] true).time = some 0 ∧
    (GT2time 0 [0x31,0x39,0x37,0x30,0x30,0x31,0x30,0x31,0x30,0x30,0x39,0x39,0x30,0x30,0x5a] true).time = some 5940 ∧
    (GT2time 0 [0x32,0x30,0x32,0x33,0x30,0x32,0x33,0x31,0x30,0x30,0x30,0x30,0x30,0x30,0x5a] true).time = some 1677801600 ∧
    GT2time 0 [0x32,0x30,0x32,0x34,0x30,0x31,0x30,0x31,0x31,0x32,0x2e,0x35,0x5a] true = .einval := by decide

/-! ### asn_time2UT / asn_UT2time -/

/-- `asn_time2UT` drops the century: for t in 0000..9999 the text is "YYMMDDHHMMSSZ" of the date-time denoting t -/
theorem time2UT_canonical (t off : Int) (h0 : t0000 ≤ t) (h1 : t < t10000) :
    ∃ Y M D h m s, ValidDateTime Y M D h m s ∧ epochSeconds Y M D h m s = t ∧
      time2UT (localtime t off) true = some (utCanon Y M D h m s) := by
  obtain ⟨Y, M, D, h, m, s, hv, he, ht⟩ := time2GT_canonical t off h0 h1
  refine ⟨Y, M, D, h, m, s, hv, he, ?_⟩
  unfold time2UT; rw [ht, utCanon_eq_drop]; rfl

/-- **asn_UT2time window**: a canonical UTCTime text is read as the GeneralizedTime text whose year is the
    image of the two-digit year in 1960..2059 (first digit > '5' → 19xx, else 20xx). -/
theorem UT2time_window (lo : Int) (g : Bool) (Y M D h m s : Nat) :
    UT2time lo (utCanon Y M D h m s) g = GT2time lo (gtCanon (utWindow Y) M D h m s) g :=
  UT2time_canon lo g Y M D h m s

/-- **UTCTime round trip inside the window**: for every t in [1960-01-01, 2060-01-01), -1 included -/
theorem UT2time_time2UT (t off lo : Int) (g : Bool) (h0 : t1960 ≤ t) (h1 : t < t2060) :
    ∃ txt, time2UT (localtime t off) true = some txt ∧
      UT2time lo txt g = .ok t 0 0 (if g then gmtime t else localtime t lo) := by
  obtain ⟨Y, M, D, h, m, s, hv, he, ht⟩ := time2UT_canonical t off
    (by unfold t1960 at h0; unfold t0000; omega) (by unfold t2060 at h1; unfold t10000; omega)
  refine ⟨_, ht, ?_⟩
  obtain ⟨w1, w2⟩ := year_in_window Y M D h m s hv (by rw [he]; exact h0) (by rw [he]; exact h1)
  rw [UT2time_window, utWindow_id Y w1 w2]
  have := GT2time_canonical lo g Y M D h m s hv
  rw [he] at this; exact this

/-- outside the window the century is lost: 1959-12-31T23:59:59Z comes back as 2059-12-31T23:59:59Z -/
theorem UT2time_outside_window_cex (lo : Int) :
    UT2time lo (utCanon 1959 12 31 23 59 59) true =
      .ok (epochSeconds 2059 12 31 23 59 59) 0 0 (gmtime (epochSeconds 2059 12 31 23 59 59)) ∧
    epochSeconds 2059 12 31 23 59 59 ≠ epochSeconds 1959 12 31 23 59 59 := by
  have hd1 : dayNumber 2059 12 31 = 752399 := by
    simp only [dayNumber]; rw [← eraForm_eq_spec]; decide
  have hd2 : dayNumber 1959 12 31 = 715874 := by
    simp only [dayNumber]; rw [← eraForm_eq_spec]; decide
  have e1 : epochSeconds 2059 12 31 23 59 59 = 2840140799 := by simp only [epochSeconds, hd1]; decide
  have e2 : epochSeconds 1959 12 31 23 59 59 = -315619201 := by simp only [epochSeconds, hd2]; decide
  constructor
  · rw [UT2time_window]
    have hw : utWindow 1959 = 2059 := by decide
    rw [hw, GT2time_canonical lo true 2059 12 31 23 59 59 (by decide)]
    rfl
  · rw [e1, e2]; decide

/-! ### non-vacuity of the hypotheses used above -/

example : ValidDateTime 2024 2 29 23 59 59 := by decide
example : t0000 ≤ (1709251199 : Int) ∧ (1709251199 : Int) < t10000 := by decide
example : t0000 ≤ (-1 : Int) ∧ (-1 : Int) < t10000 ∧ t1960 ≤ (-1 : Int) ∧ (-1 : Int) < t2060 := by decide
example : t1960 ≤ (0 : Int) ∧ (0 : Int) < t2060 := by decide
example : (1 : Nat) ≤ 3 ∧ 3 ≤ 9 ∧ 0 < 250 ∧ 250 < 10 ^ 3 := by decide

end TimePart

end Asn1c.Props.C17
