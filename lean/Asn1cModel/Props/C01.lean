import Asn1cModel.Proofs.L2Tlv
import Asn1cModel.Proofs.L2Der
/-
  C01 (DER part) — "for every type and every value, encoding with DER succeeds and decoding the
  produced bytes returns RC_OK, consumes exactly the bytes that were produced, and yields the
  same abstract value".

  Model: `encDER t v = (toTlv t v).map Tlv.enc`, `decBER fuel t bs = interp t (parseTlv fuel bs)`
  (L2/Der.lean, L2/Tlv.lean; tied to the C skeletons by the differential test of the L2 driver).
  `t.Wf` (= `TyWf`) and `Canon t v` are defined in Proofs/L2Der.lean, `Tlv.Wf` in Proofs/L2Tlv.lean.
  Property theorems only; helper lemmas live in Proofs/L2Tlv.lean and Proofs/L2Der.lean.
-/
namespace Asn1c.Props.C01
open Asn1c Asn1c.Impl.BerTlv Asn1c.L2 Asn1c.Spec Asn1c.Proofs.L2Tlv Asn1c.Proofs.L2Der

/-- **DER encoding succeeds** for every canonical value of every well-formed type. -/
theorem encDER_total (t : Ty) (v : Val) (hw : t.Wf) (hc : Canon t v) : ∃ bs, encDER t v = some bs := by
  obtain ⟨x, hx⟩ := toTlv_total t v hw hc
  exact ⟨x.enc, by simp [encDER, hx]⟩

/-- **DER round trip**: decoding the bytes produced by the DER encoder — followed by arbitrary
    further input `rest` — succeeds (RC_OK) for every sufficiently large recursion budget, yields
    the encoded value, and leaves exactly `rest` unconsumed (i.e. consumes exactly the bytes that
    were produced).  `2^62-1` = RSSIZE_MAX is the largest length `ber_fetch_length` accepts. -/
theorem der_roundtrip (t : Ty) (v : Val) (bs : Bytes) (hw : t.Wf) (hc : Canon t v)
    (h : encDER t v = some bs) (hl : bs.length ≤ 2 ^ 62 - 1) :
    ∃ N, ∀ fuel, N ≤ fuel → ∀ rest, decBER fuel t (bs ++ rest) = .ok v rest := by
  simp only [encDER, Option.map_eq_some_iff] at h
  obtain ⟨x, hx, rfl⟩ := h
  have hwf : Asn1c.Proofs.L2Tlv.Wf x := isDer_wf x (toTlv_isDer t hw v x hx) hl
  refine ⟨x.size, fun fuel hf rest => ?_⟩
  unfold decBER
  rw [parseTlv_enc x hwf fuel hf rest]
  simp only [interp_toTlv t v x hw hc hx]

/-- the same with nothing following the encoding: the whole input is consumed -/
theorem der_roundtrip_exact (t : Ty) (v : Val) (bs : Bytes) (hw : t.Wf) (hc : Canon t v)
    (h : encDER t v = some bs) (hl : bs.length ≤ 2 ^ 62 - 1) :
    ∃ N, ∀ fuel, N ≤ fuel → decBER fuel t bs = .ok v [] := by
  obtain ⟨N, hN⟩ := der_roundtrip t v bs hw hc h hl
  exact ⟨N, fun fuel hf => by simpa using hN fuel hf []⟩

/-- **a truncated DER encoding is answered with "want more"** (RC_WMORE), never with a value or
    an error (used by C05) -/
theorem der_truncated_more (t : Ty) (v : Val) (bs p : Bytes) (hw : t.Wf)
    (h : encDER t v = some bs) (hl : bs.length ≤ 2 ^ 62 - 1) (hp : p <+: bs) (hne : p ≠ bs) :
    ∃ N, ∀ fuel, N ≤ fuel → decBER fuel t p = .more := by
  simp only [encDER, Option.map_eq_some_iff] at h
  obtain ⟨x, hx, rfl⟩ := h
  have hwf : Asn1c.Proofs.L2Tlv.Wf x := isDer_wf x (toTlv_isDer t hw v x hx) hl
  refine ⟨x.size, fun fuel hf => ?_⟩
  unfold decBER
  rw [parseTlv_prefix_more x hwf p hp hne fuel hf]

/-! ### the generic TLV layer (also C03 / C05) -/

/-- `parseTlv` inverts `Tlv.enc` for every well-formed tree in **every length form**
    (non-minimal definite, indefinite), whatever follows -/
theorem parseTlv_enc_any_form (x : Tlv) (hx : x.Wf) (fuel : Nat) (hf : x.size ≤ fuel) (rest : Bytes) :
    parseTlv fuel (x.enc ++ rest) = .ok x rest :=
  Asn1c.Proofs.L2Tlv.parseTlv_enc_any_form x hx fuel hf rest

/-- a proper prefix of a valid encoding (any form) makes the parser ask for more -/
theorem parseTlv_prefix_more (x : Tlv) (hx : x.Wf) (p : Bytes) (hp : p <+: x.enc) (hne : p ≠ x.enc)
    (fuel : Nat) (hf : x.size ≤ fuel) : parseTlv fuel p = .more :=
  Asn1c.Proofs.L2Tlv.parseTlv_prefix_more x hx p hp hne fuel hf

/-- interpretation inverts the DER tree builder -/
theorem interp_toTlv (t : Ty) (v : Val) (x : Tlv) (hw : t.Wf) (hc : Canon t v)
    (h : toTlv t v = some x) : interp t x = some v :=
  Asn1c.Proofs.L2Der.interp_toTlv t v x hw hc h

/-! ### INTEGER contents octets (X.690 §8.3) -/

theorem twosVal_intOctets (z : Int) : twosVal (intOctets z) = z := Asn1c.Proofs.L2Der.twosVal_intOctets z
theorem intOctets_ne_nil (z : Int) : intOctets z ≠ [] := Asn1c.Proofs.L2Der.intOctets_ne_nil z
theorem intOctets_minimal (z : Int) : MinimalTwos (intOctets z) := Asn1c.Proofs.L2Der.intOctets_minimal z
theorem intOctets_wf (z : Int) : Bytes.wf (intOctets z) := Asn1c.Proofs.L2Der.intOctets_wf z

/-! ### canonical-form independence of the DER encoder (support for C06) -/

/-- a value and its canonical representative (`canonV`: DEFAULT-valued components dropped, SET OF
    lists sorted by element encoding, recursively) have the same DER encoding — no hypothesis -/
theorem encDER_canonV (t : Ty) (v : Val) : encDER t (canonV t v) = encDER t v := by
  simp only [encDER, toTlv_canonV]

/-- the DER encoding depends only on the canonical representative -/
theorem encDER_eq_of_canonV_eq (t : Ty) (v₁ v₂ : Val) (h : canonV t v₁ = canonV t v₂) :
    encDER t v₁ = encDER t v₂ := by
  rw [← encDER_canonV t v₁, ← encDER_canonV t v₂, h]

/-- SET OF: the DER encoding does not depend on the order in which the elements are given -/
theorem encDER_setOf_perm (tags : List Tag) (e : Ty) (vs₁ vs₂ : List Val) (hp : vs₁.Perm vs₂) :
    encDER (.setOf tags e) (.list vs₁) = encDER (.setOf tags e) (.list vs₂) :=
  Asn1c.Proofs.L2Der.encDER_setOf_perm tags e vs₁ vs₂ hp

/-- the canonical orders are produced by an idempotent sort (total order suffices) … -/
theorem sortBy_idem {α : Type} (le : α → α → Bool) (htot : ∀ a b, le a b = true ∨ le b a = true)
    (l : List α) : sortBy le (sortBy le l) = sortBy le l :=
  Asn1c.Proofs.L2Der.sortBy_idem le htot l

/-- … whose output depends only on the multiset of its input (total, transitive, antisymmetric) -/
theorem sortBy_perm_eq {α : Type} (le : α → α → Bool) (htot : ∀ a b, le a b = true ∨ le b a = true)
    (htr : ∀ a b c, le a b = true → le b c = true → le a c = true)
    (hanti : ∀ a b, le a b = true → le b a = true → a = b)
    (l₁ l₂ : List α) (hp : l₁.Perm l₂) : sortBy le l₁ = sortBy le l₂ :=
  Asn1c.Proofs.L2Der.sortBy_perm_eq le htot htr hanti l₁ l₂ hp

/-- `bytesLe` (C: `_el_buf_cmp`) is such an order on octet strings -/
theorem bytesLe_order :
    (∀ a b, bytesLe a b = true ∨ bytesLe b a = true) ∧
    (∀ a b c, bytesLe a b = true → bytesLe b c = true → bytesLe a c = true) ∧
    (∀ a b, bytesLe a b = true → bytesLe b a = true → a = b) :=
  ⟨bytesLe_total, bytesLe_trans, bytesLe_antisymm⟩

/-! ### the hypotheses are satisfiable on non-trivial types -/

/-- `SEQUENCE { a [0] INTEGER OPTIONAL, b CHOICE { x BOOLEAN, y OCTET STRING }, c SEQUENCE OF INTEGER }` -/
def exTy : Ty :=
  .seq [⟨0, 16⟩]
    [.prim [⟨2, 0⟩] .integer,
     .choice [] [.prim [⟨0, 1⟩] .boolean, .prim [⟨0, 4⟩] .octets] false,
     .seqOf [⟨0, 16⟩] (.prim [⟨0, 2⟩] .integer)]
    [⟨true, none, false⟩, ⟨false, none, false⟩, ⟨false, none, false⟩] false
/-- `{ b y : '010203'H, c { 5, -129 } }` (a absent) -/
def exVal : Val := .seq [.absent, .choice 1 (.octets [1, 2, 3]), .list [.int 5, .int (-129)]]

example : exTy.Wf := by decide
example : Canon exTy exVal := by decide
theorem exTy_encDER : encDER exTy exVal = some [48, 14, 4, 3, 1, 2, 3, 48, 7, 2, 1, 5, 2, 2, 255, 127] := by
  simp [encDER, exTy, exVal, toTlv, toTlvs, toTlvAlt, toTlvList, primContent, wrapTags, wrapAround,
    isDefault, intOctets, natOctets, toBE_small, Tlv.enc, Tlv.encList, tagOctets, tagSerialize, lenForm,
    lenSerialize]
/-- `der_roundtrip` and `encDER_total` instantiated -/
example : ∃ N, ∀ fuel, N ≤ fuel → ∀ rest,
    decBER fuel exTy ([48, 14, 4, 3, 1, 2, 3, 48, 7, 2, 1, 5, 2, 2, 255, 127] ++ rest) = .ok exVal rest :=
  der_roundtrip exTy exVal _ (by decide) (by decide) exTy_encDER (by decide)
example : ∃ bs, encDER exTy exVal = some bs := encDER_total exTy exVal (by decide) (by decide)
example : ∃ N, ∀ fuel, N ≤ fuel → decBER fuel exTy [48, 14, 4, 3, 1, 2, 3, 48, 7] = .more :=
  der_truncated_more exTy exVal _ _ (by decide) exTy_encDER (by decide) (by decide) (by decide)

/-- `SET { p [1] BOOLEAN, q [0] EXPLICIT INTEGER DEFAULT 7, r SET OF OCTET STRING,
          s BIT STRING OPTIONAL, u REAL, ... }` -/
def exSet : Ty :=
  .set [⟨0, 17⟩]
    [.prim [⟨2, 1⟩] .boolean, .prim [⟨2, 0⟩, ⟨0, 2⟩] .integer,
     .setOf [⟨0, 17⟩] (.prim [⟨0, 4⟩] .octets), .prim [⟨0, 3⟩] .bits, .prim [⟨0, 9⟩] .real]
    [⟨false, none, false⟩, ⟨true, some (.int 7), false⟩, ⟨false, none, false⟩,
     ⟨true, none, false⟩, ⟨false, none, false⟩] true
/-- q takes its DEFAULT (so it is `absent` in the canonical value), the SET OF elements are in
    DER order, the BIT STRING has 5 unused (zero) bits, u = 1.5 -/
def exSetVal : Val :=
  .seq [.bool true, .absent, .list [.octets [1], .octets [2], .octets [1, 0]], .bits [0xA0] 5,
    .real 0x3ff8000000000000]

example : exSet.Wf := by decide
example : Canon exSet exSetVal := by
  simp [Canon, canonB, canonSeq, exSet, exSetVal, isAbsent, isDefault, canonPrim, sortedEnc, toTlvList, toTlv,
    primContent, wrapTags, wrapAround, chainB, Tlv.enc, tagOctets, tagSerialize, lenForm, lenSerialize, bytesLe,
    maskLast]
  decide

/-- a BER tree with an indefinite-length node, a non-minimal definite length (`02 82 00 01 05`),
    a long-form length for an empty body and a multi-octet tag -/
def exTlv : Tlv :=
  .cons ⟨0, 16⟩ none [.prim ⟨0, 2⟩ 2 [5], .cons ⟨2, 1000⟩ (some 1) [], .prim ⟨1, 31⟩ 0 [1, 2, 3]]
example : exTlv.Wf := by
  simp [exTlv, Tlv.Wf, Wf, wfB, wfListB, isEoc, TagOk, LenFormOk, lenForm, lenSerialize, toBE_small,
    Tlv.encList]
example : twosVal (intOctets (-129)) = -129 ∧ intOctets (-129) ≠ [] ∧ MinimalTwos (intOctets (-129)) :=
  ⟨twosVal_intOctets _, intOctets_ne_nil _, intOctets_minimal _⟩

end Asn1c.Props.C01
