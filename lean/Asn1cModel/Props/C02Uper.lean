import Asn1cModel.Proofs.L2Uper
import Asn1cModel.Impl.PerSizeAlpha
/-
  C02 (UPER part) / C01: property theorems about the reference UNALIGNED PER codec `L2.encUPER` / `L2.decUPER`
  (`L2/Uper.lean`, written from ITU-T X.691), the oracle the C encoder's bytes are compared with.

  * round trip: for every well-formed type (`wfP`) and canonical value (`canonV`: the values the decoder
    returns — DEFAULT-valued components absent, SET OF elements in canonical order, BIT STRING unused bits zero,
    octets < 256, REAL in the C16 domain), decoding the encoding followed by ANY bits returns the value and
    exactly those bits (`uper_roundtrip`); hence the encoding is injective and prefix-free;
  * spec shape: the encoder's output for the primitive kinds IS the X.691 §10 building block of `Spec.Per`
    (constrained / semi-constrained / unconstrained whole number, length forms), the SEQUENCE preamble has one bit
    per OPTIONAL/DEFAULT root component, the CHOICE index is the position in the canonical tag order, which is a
    sorted permutation of the alternatives.
  Every statement is fully proved; axioms: propext, Quot.sound, Classical.choice.
-/
namespace Asn1c.Props.C02Uper
open Asn1c Asn1c.L2 Asn1c.Spec.Per Asn1c.Proofs.L2Uper
open Asn1c.Proofs.L2Der (isAbsent RealOk)

/-! ## round trip -/

/-- **UPER round trip** (all kinds: BOOLEAN, NULL, INTEGER with every constraint shape, ENUMERATED, REAL,
    BIT STRING / OCTET STRING / known-multiplier strings with every size form incl. 16K fragmentation,
    SEQUENCE with OPTIONAL/DEFAULT and extension additions, CHOICE with extension alternatives,
    SEQUENCE OF / SET OF): the decoder returns the encoded value and leaves exactly the bits that followed -/
theorem uper_roundtrip (t : PTy) (v : Val) (bits rest : Bits) (hw : wfP t = true) (hc : canonV t v = true)
    (h : encUPER t v = some bits) : decUPER t (bits ++ rest) = some (v, rest) :=
  rt_all t hw v bits rest hc h

/-- the same for the complete encoding (§11.1): the octets decode to the value, what is left is the padding -/
theorem uper_roundtrip_bytes (t : PTy) (v : Val) (bytes : Bytes) (hw : wfP t = true) (hc : canonV t v = true)
    (h : encUPERbytes t v = some bytes) :
    ∃ pad, decUPER t (bytesToBits bytes) = some (v, pad) ∧ bytes.wf := by
  simp only [encUPERbytes, Option.map_eq_some_iff] at h
  obtain ⟨bits, hb, rfl⟩ := h
  obtain ⟨pad, hp, hwf⟩ := complete_spec bits
  exact ⟨pad, by rw [hp]; exact uper_roundtrip t v bits pad hw hc hb, hwf⟩

/-- distinct canonical values have distinct encodings -/
theorem uper_injective (t : PTy) (v1 v2 : Val) (bits : Bits) (hw : wfP t = true)
    (h1 : canonV t v1 = true) (h2 : canonV t v2 = true)
    (e1 : encUPER t v1 = some bits) (e2 : encUPER t v2 = some bits) : v1 = v2 := by
  have a := uper_roundtrip t v1 bits [] hw h1 e1
  have b := uper_roundtrip t v2 bits [] hw h2 e2
  rw [a] at b
  simpa using b

/-- no encoding is a proper prefix of another encoding of the same type (self-delimiting) -/
theorem uper_prefix_free (t : PTy) (v1 v2 : Val) (b1 s : Bits) (hw : wfP t = true)
    (h1 : canonV t v1 = true) (h2 : canonV t v2 = true)
    (e1 : encUPER t v1 = some b1) (e2 : encUPER t v2 = some (b1 ++ s)) : v1 = v2 ∧ s = [] := by
  have a := uper_roundtrip t v1 b1 s hw h1 e1
  have b := uper_roundtrip t v2 (b1 ++ s) [] hw h2 e2
  rw [List.append_nil, a] at b
  simp only [Option.some.injEq, Prod.mk.injEq] at b
  exact b

/-! ### the primitive kinds on their own (no side conditions beyond "the encoder succeeded") -/

theorem boolean_roundtrip (b : Bool) (rest : Bits) : decUPER .boolean ([b] ++ rest) = some (.bool b, rest) := by
  simp [decUPER]

theorem null_roundtrip (rest : Bits) : decUPER .null rest = some (.null, rest) := by simp [decUPER]

/-- INTEGER, every PER-visible constraint shape: constrained (§10.5), semi-constrained (§10.7), unconstrained
    (§10.8), extensible with the value inside or outside the root (§13.1) -/
theorem integer_roundtrip (c : IntC) (z : Int) (bits rest : Bits) (h : encUPER (.integer c) (.int z) = some bits) :
    decUPER (.integer c) (bits ++ rest) = some (.int z, rest) :=
  rt_integer c (.int z) bits rest (by simp [canonV]) h

theorem enumerated_roundtrip (root : List Int) (ext : Option (List Int)) (z : Int) (bits rest : Bits)
    (h : encUPER (.enumerated root ext) (.int z) = some bits) :
    decUPER (.enumerated root ext) (bits ++ rest) = some (.int z, rest) :=
  rt_enumerated root ext (.int z) bits rest (by simp [canonV]) h

/-- OCTET STRING with every length form: fixed size (no length), constrained length, extensible size (in /
    out of the root), unconstrained length below 128, below 16K and fragmented in 16K blocks (any number of
    octets: `lengthLoop_roundtrip`) -/
theorem octet_string_roundtrip (sz : SizeC) (os : Bytes) (hos : os.wf) (bits rest : Bits)
    (h : encUPER (.octstr sz) (.octets os) = some bits) :
    decUPER (.octstr sz) (bits ++ rest) = some (.octets os, rest) :=
  rt_octstr sz (.octets os) bits rest (by simpa [canonV] using hos) h

theorem length_prefixed_roundtrip {α : Type} (rd : Bits → Option (α × Bits)) (enc : α → Bits) (xs : List α)
    (rest : Bits) (hrd : ∀ a ∈ xs, ∀ r, rd (enc a ++ r) = some (a, r)) :
    rdLengthPrefixed rd (lengthPrefixed ((xs.map enc).length + 1) (xs.map enc) ++ rest) = some (xs, rest) :=
  rdLengthPrefixed_enc rd enc xs rest hrd

/-! ## spec shape: the encoder's output is the X.691 building block -/

theorem encUPER_boolean (b : Bool) : encUPER .boolean (.bool b) = some [b] := by simp [encUPER]

theorem encUPER_null : encUPER .null .null = some [] := by simp [encUPER]

/-- §13.2.5 + §10.5.6: a constrained INTEGER is the constrained whole number in `bitWidth (ub − lb + 1)` bits -/
theorem encUPER_integer_constrained (lb ub z : Int) (h1 : lb ≤ z) (h2 : z ≤ ub) :
    encUPER (.integer ⟨some lb, some ub, false⟩) (.int z) = some (constrainedWholeNumber lb ub z) := by
  simp [encUPER, encInt, intInRoot, encIntRoot, h1, h2]

theorem encUPER_integer_constrained_length (lb ub z : Int) (h1 : lb ≤ z) (h2 : z ≤ ub) (bits : Bits)
    (h : encUPER (.integer ⟨some lb, some ub, false⟩) (.int z) = some bits) :
    bits.length = bitWidth (ub - lb + 1).toNat := by
  rw [encUPER_integer_constrained lb ub z h1 h2] at h
  simp only [Option.some.injEq] at h
  subst h
  simp [constrainedWholeNumber, nnbi, Asn1c.Proofs.PerSupport.natBits_length]

/-- §13.2.3 + §10.7: semi-constrained -/
theorem encUPER_integer_semi (lb z : Int) (h1 : lb ≤ z) :
    encUPER (.integer ⟨some lb, none, false⟩) (.int z) = some (semiConstrainedWholeNumber lb z) := by
  simp [encUPER, encInt, intInRoot, encIntRoot, h1]

/-- §13.2.4 + §10.8: unconstrained (also `(MIN..ub)`: no lower bound) -/
theorem encUPER_integer_unconstrained (ub : Option Int) (z : Int) (h : ∀ u, ub = some u → z ≤ u) :
    encUPER (.integer ⟨none, ub, false⟩) (.int z) = some (unconstrainedWholeNumber z) := by
  cases ub with
  | none => simp [encUPER, encInt, intInRoot, encIntRoot]
  | some u => simp [encUPER, encInt, intInRoot, encIntRoot, h u rfl]

/-- §13.1: extensible constraint, value in the root: bit 0 + the root encoding -/
theorem encUPER_integer_ext_root (lb ub z : Int) (h1 : lb ≤ z) (h2 : z ≤ ub) :
    encUPER (.integer ⟨some lb, some ub, true⟩) (.int z) = some (false :: constrainedWholeNumber lb ub z) := by
  simp [encUPER, encInt, intInRoot, encIntRoot, h1, h2]

/-- §13.1: value outside the root: bit 1 + unconstrained whole number -/
theorem encUPER_integer_ext_out (lb ub z : Int) (h : z < lb ∨ ub < z) :
    encUPER (.integer ⟨some lb, some ub, true⟩) (.int z) = some (true :: unconstrainedWholeNumber z) := by
  have : ¬ (lb ≤ z ∧ z ≤ ub) := by omega
  simp [encUPER, encInt, intInRoot, this]

/-- a value outside a non-extensible constraint has no encoding -/
theorem encUPER_integer_out_of_range (lb ub z : Int) (h : z < lb ∨ ub < z) :
    encUPER (.integer ⟨some lb, some ub, false⟩) (.int z) = none := by
  have : ¬ (lb ≤ z ∧ z ≤ ub) := by omega
  simp [encUPER, encInt, intInRoot, this]

/-- §14.2: a root enumeration is the constrained whole number `index ∈ 0..n−1`, the index being the position
    in the list of root values sorted ascending (as `resolvePTy` builds it) -/
theorem encUPER_enumerated_root (root : List Int) (z : Int) (h : z ∈ root) :
    encUPER (.enumerated root none) (.int z) =
      some (constrainedWholeNumber 0 ((root.length : Int) - 1) (root.idxOf z)) := by
  simp [encUPER, encEnum, h]

/-- §14.3: an extension addition is bit 1 + its index as a normally small number -/
theorem encUPER_enumerated_ext (root adds : List Int) (z : Int) (h : z ∉ root) (ha : z ∈ adds) :
    encUPER (.enumerated root (some adds)) (.int z) = some (true :: normallySmall (adds.idxOf z)) := by
  simp [encUPER, encEnum, h, ha]

/-- §17.6 / §17.7: fixed size below 64K: the octets and nothing else -/
theorem encUPER_octstr_fixed (n : Nat) (os : Bytes) (hl : os.length = n) (hn : n < 65536) :
    encUPER (.octstr ⟨n, some n, false⟩) (.octets os) = some (octetItems os).flatten := by
  have hi : (octetItems os).length = n := by simp [octetItems, hl]
  simp only [encUPER, encSized, sizeInRoot, hi, Bool.and_self, if_true, Bool.false_eq_true, if_false,
    List.nil_append, encCounted, hn, constrainedLength, constrainedWholeNumber]
  have : bitWidth ((n : Int) - n + 1).toNat = 0 := by
    have : ((n : Int) - n + 1).toNat = 1 := by omega
    rw [this]; rfl
  rw [this]
  simp [nnbi, natBits]

/-- §17.8 with `ub < 64K`: constrained length + octets -/
theorem encUPER_octstr_constrained (lb ub : Nat) (os : Bytes) (h1 : lb ≤ os.length) (h2 : os.length ≤ ub)
    (hn : ub < 65536) :
    encUPER (.octstr ⟨lb, some ub, false⟩) (.octets os) =
      some (constrainedLength lb ub os.length ++ (octetItems os).flatten) := by
  have hi : (octetItems os).length = os.length := by simp [octetItems]
  simp [encUPER, encSized, sizeInRoot, hi, h1, h2, encCounted, hn]

/-- §17.8 without upper bound (or `ub ≥ 64K`): unconstrained length with 16K fragmentation -/
theorem encUPER_octstr_unconstrained (os : Bytes) :
    encUPER (.octstr ⟨0, none, false⟩) (.octets os) = some (lengthPrefixed (os.length + 1) (octetItems os)) := by
  have hi : (octetItems os).length = os.length := by simp [octetItems]
  simp [encUPER, encSized, sizeInRoot, hi, encCounted]

/-- §19.2/19.3: the preamble of a SEQUENCE has exactly one bit per OPTIONAL / DEFAULT root component
    (`optCount`; a component with a DEFAULT value is flagged `optional` by the resolver) -/
theorem seq_preamble_length (root : List PTy) : ∀ (rattrs : List Attr) (vs : List Val) (p b : Bits) (r : List Val),
    rattrs.length = root.length → (∀ a ∈ rattrs, a.dflt.isSome = true → a.optional = true) →
    encRoot root rattrs vs = some (p, b, r) → p.length = optCount rattrs := by
  induction root with
  | nil =>
    intro rattrs vs p b r hl _ he
    rw [encRoot_nil] at he
    have : rattrs = [] := by cases rattrs <;> simp_all
    simp only [Option.some.injEq, Prod.mk.injEq] at he
    simp [this, optCount, ← he.1]
  | cons m ms ih =>
    intro rattrs vs p b r hl hattr he
    cases rattrs with
    | nil => simp at hl
    | cons a as =>
      have hl' : as.length = ms.length := by simpa using hl
      have hattr' : ∀ x ∈ as, x.dflt.isSome = true → x.optional = true := fun x hx => hattr x (by simp [hx])
      cases vs with
      | nil => simp [encRoot] at he
      | cons v vs =>
        by_cases hab : isAbsent v = true
        · have := isAbsent_eq v hab; subst this
          rw [encRoot_absent] at he
          by_cases ho : a.optional = true
          · rw [if_pos ho] at he
            cases h2 : encRoot ms as vs with
            | none => simp [h2] at he
            | some res =>
              obtain ⟨p', b', r'⟩ := res
              simp only [h2, Option.some.injEq, Prod.mk.injEq] at he
              have := ih as vs p' b' r' hl' hattr' h2
              simp [optCount, ho, ← he.1, this]; omega
          · rw [if_neg ho] at he; simp at he
        · have hab' : isAbsent v = false := by simpa using hab
          rw [encRoot_present m ms a as v vs hab'] at he
          by_cases hd : isDefault a v = true
          · rw [if_pos hd] at he
            have ho : a.optional = true := by
              apply hattr a (by simp)
              unfold isDefault at hd
              cases hdf : a.dflt with
              | none => simp [hdf] at hd
              | some d => rfl
            cases h2 : encRoot ms as vs with
            | none => simp [h2] at he
            | some res =>
              obtain ⟨p', b', r'⟩ := res
              simp only [h2, Option.some.injEq, Prod.mk.injEq] at he
              have := ih as vs p' b' r' hl' hattr' h2
              simp [optCount, ho, ← he.1, this]; omega
          · rw [if_neg hd] at he
            cases h1 : encUPER m v with
            | none => simp [h1] at he
            | some x =>
              cases h2 : encRoot ms as vs with
              | none => simp [h1, h2] at he
              | some res =>
                obtain ⟨p', b', r'⟩ := res
                simp only [h1, h2, Option.some.injEq, Prod.mk.injEq] at he
                have := ih as vs p' b' r' hl' hattr' h2
                by_cases ho : a.optional = true
                · simp [optCount, ho, ← he.1, this]; omega
                · simp [optCount, ho, ← he.1, this]

open Asn1c.Impl.BerTlv (Tag)

/-- CANONICAL-PER §19.5: a component that equals its DEFAULT value is encoded exactly like an absent one -/
theorem seq_default_omitted (m : PTy) (ms : List PTy) (a : Attr) (as : List Attr) (v : Val) (vs : List Val)
    (ho : a.optional = true) (hv : isAbsent v = false) (hd : isDefault a v = true) :
    encRoot (m :: ms) (a :: as) (v :: vs) = encRoot (m :: ms) (a :: as) (.absent :: vs) := by
  rw [encRoot_present m ms a as v vs hv, if_pos hd, encRoot_absent, if_pos ho]

/-- §19 without extension marker: preamble, then the root components -/
theorem encUPER_seq_plain (root : List PTy) (rattrs : List Attr) (vs : List Val) (p b : Bits)
    (h : encRoot root rattrs vs = some (p, b, [])) :
    encUPER (.seq root rattrs false [] []) (.seq vs) = some (p ++ b) := by
  simp [encUPER, h, encAdds]

/-- CANONICAL-PER §19.5 among the extension additions: an addition that equals its DEFAULT value is encoded
    exactly like an absent one - no presence bit, no open type (finding F16, repaired: `SEQUENCE__handle_extensions`
    now eliminates default values like the root loops of `SEQUENCE_encode_uper`) -/
theorem seq_default_addition_omitted (m : PTy) (ms : List PTy) (a : Attr) (as : List Attr) (v : Val) (vs : List Val)
    (hd : isDefault a v = true) :
    encAdds (m :: ms) (a :: as) (v :: vs) = encAdds (m :: ms) (a :: as) (.absent :: vs) :=
  encAdds_default m ms a as v vs hd

/-- ... hence a SEQUENCE whose only stored addition holds its DEFAULT value is encoded without the extension bit
    set; the former witness of F16, `T ::= SEQUENCE { a INTEGER, ..., b INTEGER DEFAULT 5 }`: { a 1, b 5 } and
    { a 1 } both encode as 00 80 80 (unpatched C: 80 80 80 81 00 82 80 for the first) -/
def exF16 : PTy :=
  .seq [.integer ⟨none, none, false⟩] [⟨false, none, false⟩] true [.integer ⟨none, none, false⟩] [⟨true, some (.int 5), true⟩]

theorem ref_F16_witness :
    encUPERbytes exF16 (.seq [.int 1, .int 5]) = some [0x00, 0x80, 0x80] ∧
    encUPERbytes exF16 (.seq [.int 1, .absent]) = some [0x00, 0x80, 0x80] ∧
    encUPERbytes exF16 (.seq [.int 1, .int 6]) = some [0x80, 0x80, 0x80, 0x81, 0x00, 0x83, 0x00] := by
  have h1 : ∀ v, encRoot [.integer ⟨none, none, false⟩] [⟨false, none, false⟩] [.int 1, v]
      = some ([], unconstrainedWholeNumber 1, [v]) := by
    intro v; simp [encRoot, encUPER, isDefault, encInt, intInRoot, encIntRoot]
  have h5 : encAdds [.integer ⟨none, none, false⟩] [⟨true, some (.int 5), true⟩] [.int 5] = some ([false], []) := by
    simp [encAdds, isDefault]
  have ha : encAdds [.integer ⟨none, none, false⟩] [⟨true, some (.int 5), true⟩] [.absent] = some ([false], []) := by
    simp [encAdds]
  have h6 : encAdds [.integer ⟨none, none, false⟩] [⟨true, some (.int 5), true⟩] [.int 6]
      = some ([true], openType (unconstrainedWholeNumber 6)) := by
    simp [encAdds, isDefault, encUPER, encInt, intInRoot, encIntRoot]
  refine ⟨?_, ?_, ?_⟩
  · simp only [exF16, encUPERbytes, encUPER, h1, h5]; decide +kernel
  · simp only [exF16, encUPERbytes, encUPER, h1, ha]; decide +kernel
  · simp only [exF16, encUPERbytes, encUPER, h1, h6]; decide +kernel

/-- §19.1 / §19.7–19.9 with extension marker: extension bit; when an addition is present: normally small
    length of the bitmap, the bitmap, then one open type per present addition -/
theorem encUPER_seq_ext (root : List PTy) (rattrs : List Attr) (adds : List PTy) (vs rest : List Val)
    (p b ab : Bits) (bm : List Bool)
    (aattrs : List Attr)
    (h1 : encRoot root rattrs vs = some (p, b, rest)) (h2 : encAdds adds aattrs rest = some (bm, ab)) :
    encUPER (.seq root rattrs true adds aattrs) (.seq vs) =
      some (if bm.any id then true :: (p ++ b ++ normallySmallLength bm.length ++ bm ++ ab)
            else false :: (p ++ b)) := by
  simp only [encUPER, h1, h2, if_true]
  split <;> rfl

/-- §23.2/§23.6: a root alternative is encoded as its index — the position of the alternative in the canonical
    order — as a constrained whole number `0..n−1`, followed by the encoding of the alternative -/
theorem encUPER_choice_root (root : List PTy) (order : List Nat) (adds : List PTy) (i : Nat) (v : Val) (x : Bits)
    (hi : i < root.length) (ho : i ∈ order) (hx : encAlt root i v = some x) :
    encUPER (.choice root order false adds) (.choice i v) =
      some (constrainedWholeNumber 0 ((root.length : Int) - 1) (order.idxOf i) ++ x) := by
  simp [encUPER, hi, hx, ho]

/-- §23.5/§23.8: an extension alternative is bit 1, its index among the additions as a normally small number,
    and the alternative as an open type -/
theorem encUPER_choice_ext (root : List PTy) (order : List Nat) (adds : List PTy) (i : Nat) (v : Val) (x : Bits)
    (hi : root.length ≤ i) (hx : encAlt adds (i - root.length) v = some x) :
    encUPER (.choice root order true adds) (.choice i v) =
      some (true :: (normallySmall (i - root.length) ++ openType x)) := by
  have : ¬ i < root.length := by omega
  simp [encUPER, this, hx]

/-- §11.1: a complete encoding has at least one octet -/
theorem encUPERbytes_ne_nil (t : PTy) (v : Val) (bytes : Bytes) (h : encUPERbytes t v = some bytes) : bytes ≠ [] := by
  simp only [encUPERbytes, Option.map_eq_some_iff] at h
  obtain ⟨bits, _, rfl⟩ := h
  unfold complete
  split
  · simp
  · rename_i hne
    rw [bitsToBytes]
    have : bits ≠ [] := by simpa using hne
    simp [this]

/-! ### the canonical order of CHOICE alternatives (X.680 §8.6) -/

theorem tagLe_total (a b : Tag) : tagLe a b = true ∨ tagLe b a = true := by
  unfold tagLe
  by_cases h1 : a.cls < b.cls
  · simp [h1]
  · by_cases h2 : b.cls < a.cls
    · simp [h2]
    · have : a.cls = b.cls := by omega
      simp [this]
      omega

theorem tagLe_trans (a b c : Tag) (h1 : tagLe a b = true) (h2 : tagLe b c = true) : tagLe a c = true := by
  unfold tagLe at *
  simp only [Bool.or_eq_true, decide_eq_true_eq, Bool.and_eq_true, beq_iff_eq] at *
  omega

/-- the canonical order lists every root alternative exactly once -/
theorem canonicalOrder_perm (keys : List Tag) : (canonicalOrder keys).Perm (List.range keys.length) := by
  unfold canonicalOrder
  have h := (Asn1c.Proofs.L2Der.perm_sortBy (fun (a b : Tag × Nat) => tagLe a.1 b.1)
    (keys.zip (List.range keys.length))).map (·.2)
  have e : (keys.zip (List.range keys.length)).map (·.2) = List.range keys.length := by
    apply List.map_snd_zip
    simp
  rw [e] at h
  exact h

theorem canonicalOrder_length (keys : List Tag) : (canonicalOrder keys).length = keys.length := by
  have := (canonicalOrder_perm keys).length_eq
  simpa using this

theorem mem_canonicalOrder (keys : List Tag) (i : Nat) : i ∈ canonicalOrder keys ↔ i < keys.length := by
  rw [(canonicalOrder_perm keys).mem_iff]
  simp

/-- … and the (key, declaration index) pairs are in ascending tag order: class first, then number -/
theorem canonicalOrder_sorted (keys : List Tag) :
    (Asn1c.L2.sortBy (fun (a b : Tag × Nat) => tagLe a.1 b.1) (keys.zip (List.range keys.length))).Pairwise
      (fun a b => tagLe a.1 b.1 = true) :=
  Asn1c.Proofs.L2Der.pairwise_of_chain _ (fun a b c => tagLe_trans a.1 b.1 c.1) _
    (Asn1c.Proofs.L2Der.chain_sortBy _ (fun a b => tagLe_total a.1 b.1) _)

/-- the types built by `resolvePTy` for a CHOICE satisfy the side condition of the round-trip theorem -/
theorem canonicalOrder_wf (keys : List Tag) (root adds : List PTy) (ext : Bool) (h : keys.length = root.length)
    (hr : wfPs root = true) (ha : wfPs adds = true) : wfP (.choice root (canonicalOrder keys) ext adds) = true := by
  simp [wfP, hr, ha, canonicalOrder_length, h]

/-- the hypotheses of `uper_roundtrip` are satisfiable on a type with every structural feature:
    `SEQUENCE { a BOOLEAN, b INTEGER (0..7) OPTIONAL, ..., c NULL, d SEQUENCE OF CHOICE { x BOOLEAN, y NULL } }` -/
example :
    let t := PTy.seq [.boolean, .integer ⟨some 0, some 7, false⟩] [⟨false, none, false⟩, ⟨true, none, false⟩] true
               [.null, .seqOf ⟨0, none, false⟩ (.choice [.boolean, .null] (canonicalOrder [⟨0, 1⟩, ⟨0, 5⟩]) false [])]
               [⟨false, none, true⟩, ⟨false, none, true⟩]
    let v := Val.seq [.bool true, .absent, .null, .list [.choice 1 .null, .choice 0 (.bool false)]]
    wfP t = true ∧ canonV t v = true ∧ (encUPER t v).isSome = true := by
  refine ⟨?_, ?_, ?_⟩
  · simp [wfP, wfPs, canonicalOrder_length]
  · simp [canonV, canonRoot, canonAdds, canonAlt, isAbsent, isDefault]
  · simp [encUPER, encRoot, encAdds, encList, encAlt, isDefault, encSized, sizeInRoot,
      show canonicalOrder [⟨0, 1⟩, ⟨0, 5⟩] = [0, 1] from by decide]

/-! ### the reference on the witnesses of the findings (what X.691 prescribes where asn1c deviates) -/

/-- F28 witness `CHOICE { a [2] NULL, b [0] NULL, c [1] NULL }`: canonical order b, c, a; a ↦ index 2 -/
example : canonicalOrder [⟨2, 2⟩, ⟨2, 0⟩, ⟨2, 1⟩] = [1, 2, 0] := by decide
/-- the missed mutant's demo: `CHOICE { y [APPLICATION 7], inner (smallest root tag [APPLICATION 5]), z [1] }` -/
example : canonicalOrder [⟨1, 7⟩, ⟨1, 5⟩, ⟨2, 1⟩] = [1, 0, 2] := by decide
example : minTag [⟨1, 5⟩, ⟨2, 0⟩] = some ⟨1, 5⟩ := by decide

/-- F110 witness: `INTEGER (0..MAX)`, value 128: X.691 §10.7 → `01 80` (asn1c wrote `02 00 80` before the repair of F110) -/
theorem ref_F110_witness : encUPERbytes (.integer ⟨some 0, none, false⟩) (.int 128) = some [0x01, 0x80] := by
  simp only [encUPERbytes, encUPER]; decide +kernel
/-- F111 witness: `GeneralizedTime` "19700101000000Z" is a VisibleString: 7 bits per character (the named type
    `T ::= GeneralizedTime` was written with 8-bit characters before the repair of F111) -/
theorem ref_F111_witness :
    encUPERbytes (.kmstr 1 [(32, 126)] [(32, 126)] ⟨0, none, false⟩)
      (.octets [0x31,0x39,0x37,0x30,0x30,0x31,0x30,0x31,0x30,0x30,0x30,0x30,0x30,0x30,0x5a]) =
    some [0x0f,0x62,0xe5,0xbb,0x06,0x0c,0x58,0x31,0x60,0xc1,0x83,0x06,0x0c,0x2d,0x00] := by
  simp only [encUPERbytes, encUPER]; decide +kernel
/-- F112 witnesses: `SEQUENCE (SIZE(2..MAX,...)) OF BOOLEAN` with 2 elements is in the root (bit 0);
    `OCTET STRING (SIZE(2..MAX,...))` with one octet is outside (bit 1) -/
theorem ref_F112_witness :
    encUPERbytes (.seqOf ⟨2, none, true⟩ .boolean) (.list [.bool true, .bool true]) = some [0x01, 0x60] ∧
    encUPERbytes (.octstr ⟨2, none, true⟩) (.octets [0x61]) = some [0x80, 0xb0, 0x80] := by
  constructor
  · simp only [encUPERbytes, encUPER, encList]; decide +kernel
  · simp only [encUPERbytes, encUPER]; decide +kernel
/-- F113 witness: `IA5String (SIZE(1..2,...))`, "abc" (outside the root): 7-bit characters (§30.4) -/
theorem ref_F113_witness :
    encUPERbytes (.kmstr 1 [(0, 127)] [(0, 127)] ⟨1, some 2, true⟩) (.octets [0x61, 0x62, 0x63]) =
      some [0x81, 0xe1, 0xc5, 0x8c] := by
  simp only [encUPERbytes, encUPER]; decide +kernel
/-- F114 witness: `IA5String (FROM(" ".."@"))`: N = 33, b = 6, ub = 64 > 2^6 − 1 → characters by index (§30.5.4) -/
theorem ref_F114_witness :
    encUPERbytes (.kmstr 1 [(32, 64)] [(0, 127)] ⟨0, none, false⟩) (.octets [0x20, 0x40]) = some [0x02, 0x02, 0x00] := by
  simp only [encUPERbytes, encUPER]; decide +kernel
/-- F28 witness: `CHOICE { a [2] NULL, b [0] NULL, c [1] NULL }`: a, b, c ↦ 2, 0, 1 -/
theorem ref_F28_witness :
    let t := PTy.choice [.null, .null, .null] (canonicalOrder [⟨2, 2⟩, ⟨2, 0⟩, ⟨2, 1⟩]) false []
    encUPERbytes t (.choice 0 .null) = some [0x80] ∧ encUPERbytes t (.choice 1 .null) = some [0x00] ∧
      encUPERbytes t (.choice 2 .null) = some [0x40] := by
  refine ⟨?_, ?_, ?_⟩ <;> (simp only [encUPERbytes, encUPER, encAlt]; decide +kernel)

/-! ## the size / alphabet decisions of the C encoders (`Impl.PerSizeAlpha`) are those of the reference

  F112 and F114 are repaired: the guarded regions of the K leg (types with `SIZE(lb..MAX,...)`, permitted alphabets
  whose largest value is exactly `2^b`) are gone, and the decisions the repaired C expressions take are proved to be
  the reference's for every constraint and every count / alphabet. -/
section ImplDecisions
open Asn1c.Impl.PerSizeAlpha

/-- the table row asn1c emits for an effective size constraint (`emit_single_member_PER_constraint`, the subject
    of C09): semi-constrained rows carry `effective_bits = -1` and `upper_bound = 0` -/
def ctOfSize (sz : SizeC) : Ct :=
  match sz.ub with
  | none => ⟨true, sz.ext, -1, sz.lb, 0⟩
  | some u => ⟨false, sz.ext, if u < 65536 then (bitWidth (u + 1 - sz.lb) : Nat) else -1, sz.lb, u⟩

/-- X.691 §10.9.4.1: the count is a constrained whole number iff there is an upper bound below 64K -/
def countConstrained (sz : SizeC) : Bool :=
  match sz.ub with
  | some u => decide (u < 65536)
  | none => false

theorem notInRoot_eq_spec (sz : SizeC) (n : Nat) : notInRoot (ctOfSize sz) n = !sizeInRoot sz n := by
  rw [Bool.eq_iff_iff]
  cases hu : sz.ub with
  | none => simp [notInRoot, ctOfSize, sizeInRoot, hu]
  | some u => simp [notInRoot, ctOfSize, sizeInRoot, hu]

theorem ebits_eq_spec (sz : SizeC) : decide (0 ≤ (ctOfSize sz).ebits) = countConstrained sz := by
  cases hu : sz.ub with
  | none => simp [ctOfSize, countConstrained, hu]
  | some u =>
    by_cases h : u < 65536
    · simp [ctOfSize, countConstrained, hu, h]
    · simp [ctOfSize, countConstrained, hu, h]

theorem size_head_eq_spec (sz : SizeC) (n : Nat) (hext : sz.ext = true) :
    setOfHead (ctOfSize sz) n = some ([!sizeInRoot sz n], sizeInRoot sz n && countConstrained sz) ∧
    octetStringHead (ctOfSize sz) n = some ([!sizeInRoot sz n], countConstrained sz && sizeInRoot sz n) := by
  have he : (ctOfSize sz).ext = true := by unfold ctOfSize; split <;> exact hext
  simp only [setOfHead, octetStringHead, he, notInRoot_eq_spec, ebits_eq_spec, if_true, Bool.not_not,
    Bool.or_true, Bool.true_and, Bool.not_true, Bool.and_false, Bool.false_eq_true, if_false]
  exact ⟨trivial, trivial⟩

theorem size_head_nonext_root (sz : SizeC) (n : Nat) (hext : sz.ext = false) (hr : sizeInRoot sz n = true) :
    setOfHead (ctOfSize sz) n = some ([], countConstrained sz) ∧
    octetStringHead (ctOfSize sz) n = some ([], countConstrained sz) := by
  have he : (ctOfSize sz).ext = false := by unfold ctOfSize; split <;> exact hext
  simp [setOfHead, octetStringHead, he, notInRoot_eq_spec, ebits_eq_spec, hr]

/-- a count outside a non-extensible size constraint with a constrained count is refused (as the reference does) -/
theorem size_head_nonext_out (sz : SizeC) (n : Nat) (hext : sz.ext = false) (hr : sizeInRoot sz n = false)
    (hc : countConstrained sz = true) :
    setOfHead (ctOfSize sz) n = none ∧ octetStringHead (ctOfSize sz) n = none := by
  have he : (ctOfSize sz).ext = false := by unfold ctOfSize; split <;> exact hext
  simp [setOfHead, octetStringHead, he, notInRoot_eq_spec, ebits_eq_spec, hr, hc]

/-- **The extension bit of an extensible SIZE constraint is the X.691 bit** (§16.6 / §17.3 / §20.4 / §30.5.7 →
    `L2.encSized`), for every constraint shape — `SIZE(lb..ub,...)`, `SIZE(lb..MAX,...)` (finding F112 repaired), an
    upper bound of 64K and more — and every count: the first bit of the reference encoding is the bit
    `SET_OF_encode_uper` / `SEQUENCE_OF_encode_uper` / `OCTET_STRING_encode_uper` write, and the count follows as a
    constrained whole number exactly when the reference writes one. -/
theorem size_extension_bit_eq_spec (sz : SizeC) (items : List Bits) (bits : Bits) (hext : sz.ext = true)
    (h : encSized sz items = some bits) :
    ∃ b tail, bits = b :: tail ∧
      setOfHead (ctOfSize sz) items.length = some ([b], !b && countConstrained sz) ∧
      octetStringHead (ctOfSize sz) items.length = some ([b], countConstrained sz && !b) ∧
      tail = (if b then lengthPrefixed (items.length + 1) items else encCounted sz.lb sz.ub items) := by
  obtain ⟨h1, h2⟩ := size_head_eq_spec sz items.length hext
  unfold encSized at h
  by_cases hr : sizeInRoot sz items.length = true
  · simp only [hr, if_true, hext, Option.some.injEq] at h
    refine ⟨false, encCounted sz.lb sz.ub items, by simpa using h.symm, ?_, ?_, by simp⟩
    · rw [h1, hr]; rfl
    · rw [h2, hr]; simp
  · have hr2 : sizeInRoot sz items.length = false := by simpa using hr
    simp only [hr2, hext, if_true, Bool.false_eq_true, if_false, Option.some.injEq] at h
    refine ⟨true, lengthPrefixed (items.length + 1) items, by simpa using h.symm, ?_, ?_, by simp⟩
    · rw [h1, hr2]; rfl
    · rw [h2, hr2]; simp

/-- the former F112 witnesses: 2 elements of `SEQUENCE (SIZE(2..MAX,...)) OF` are in the root (bit 0; the
    expression before the repair said "not in root": bit 1 for EVERY count ≥ lb), one octet of
    `OCTET STRING (SIZE(2..MAX,...))` is not (bit 1) -/
theorem former_F112_witness :
    setOfHead (ctOfSize ⟨2, none, true⟩) 2 = some ([false], false) ∧
    octetStringHead (ctOfSize ⟨2, none, true⟩) 1 = some ([true], false) ∧
    notInRootF112 (ctOfSize ⟨2, none, true⟩) 2 = true := by decide

/-! ### characters by value or by index -/

/-- **§30.5.4: by value iff the largest character value fits in `b` bits** (`ub ≤ 2^b − 1`; finding F114
    repaired: the code tested `ub ≤ 2^b`) -/
theorem chars_by_value_eq_spec (alpha : Alpha) (h0 : 0 < charWidth alpha) (hw : charWidth alpha ≤ 63)
    (hub : alphaMax alpha < 2 ^ 64) :
    charsByValue (charWidth alpha) (alphaMax alpha) = byValue alpha := by
  have h2 : 2 * 2 ^ (charWidth alpha - 1) = 2 ^ charWidth alpha := by
    rw [← Nat.pow_succ']; congr 1; omega
  have hlt : 2 ^ charWidth alpha < 2 ^ 64 := Nat.pow_lt_pow_right (by decide) (by omega)
  simp only [charsByValue, byValue, h2, Nat.mod_eq_of_lt hub, Nat.mod_eq_of_lt hlt, h0, decide_true, Bool.true_and]

/-- a permitted alphabet that is one range `lo..hi` (no generated map): the code written for a character of the
    alphabet is the reference's — the value, or the index `c − lo` when `hi > 2^b − 1` -/
theorem put_char_code_eq_spec (lo hi c : Nat) (hlo : lo ≤ c) (hhi : c ≤ hi)
    (h0 : 0 < charWidth [(lo, hi)]) (hw : charWidth [(lo, hi)] ≤ 63) (hub : hi < 2 ^ 64) :
    (putCharCode (charWidth [(lo, hi)]) lo hi c).map (nnbi (charWidth [(lo, hi)])) = encChar [(lo, hi)] c := by
  have hmax : alphaMax [(lo, hi)] = hi := by simp [alphaMax]
  have hbv := chars_by_value_eq_spec [(lo, hi)] h0 hw (by rw [hmax]; exact hub)
  rw [hmax] at hbv
  have hidx : alphaIndex c [(lo, hi)] = some (c - lo) := by simp [alphaIndex, hlo, hhi]
  unfold putCharCode encChar
  rw [hbv, hidx]
  cases byValue [(lo, hi)] with
  | true => simp [hhi]
  | false =>
    have : ¬ (c < lo ∨ c > hi) := by omega
    simp [this]

/-- what is written is read back -/
theorem char_code_roundtrip (w lb ub v code : Nat) (h : putCharCode w lb ub v = some code) :
    getCharValue w lb ub code = some v := by
  unfold putCharCode at h
  unfold getCharValue
  by_cases hb : charsByValue w ub = true
  · simp only [hb, if_true] at h ⊢
    by_cases hv : v ≤ ub
    · simp only [hv, if_true, Option.some.injEq] at h; subst h; simp [hv]
    · simp [hv] at h
  · simp only [hb, Bool.false_eq_true, if_false] at h ⊢
    by_cases hv : v < lb ∨ v > ub
    · simp [hv] at h
    · simp only [hv, if_false, Option.some.injEq] at h; subst h
      have : ¬ (v - lb + lb > ub) := by omega
      simp only [this, if_false]; congr 1; omega

/-- the former F114 witness `IA5String (FROM(" ".."@"))`: N = 33, b = 6, ub = 64 = 2^6: by index — '@' is written
    as 32 and read back, ' ' as 0 (before the repair: by value, '@' = 64 truncated to 000000 and read back as NUL) -/
theorem former_F114_witness :
    charWidth [(32, 64)] = 6 ∧ charsByValue 6 64 = false ∧ charsByValueF114 6 64 = true ∧
    putCharCode 6 32 64 0x40 = some 32 ∧ getCharValue 6 32 64 32 = some 0x40 ∧ putCharCode 6 32 64 0x20 = some 0 := by
  decide

end ImplDecisions

end Asn1c.Props.C02Uper
