import Asn1cModel.Proofs.L2UperVariants
import Asn1cModel.Props.C03Oer
import Asn1cModel.Props.C02Uper
/-
  C03 (UPER part) — "decoders accept every valid encoding of a value, not only the library's own".

  In UNALIGNED PER the sender has no freedom of form (see the header of L2/UperVariants.lean for the clauses);
  the valid encodings of a value that the library's own encoder never emits come from *version skew* of extensible
  SEQUENCEs (X.691 §19.7–§19.9): the presence bitmap of an older version is shorter, that of a newer version is
  longer and may announce open types unknown to the receiver, which must be skipped.  `L2.UperVar.encUV t v s`
  produces these encodings (variation and position selected by `s`).

  * `uper_accepts_variant`: the reference decoder `decUPER` (the decoder of the C02 UPER oracle, tied to the C
    decoder by the K leg of `vlib/c03_oer.py` on the same variants) accepts every `encUV` output, for every
    selector state, and returns exactly the value and the bits that follow.
  * `uper_accepts_variant_bytes`: the same for the complete encoding (§11.1: padded to octets).
  Values: `ucanonP` = `canonV` (the domain of `C02Uper.uper_roundtrip`) without the requirement that SET OF lists
  are sorted — `encUV` emits SET OF elements in list order, as BASIC-PER allows (`ucanonP_of_canonV`).
-/
namespace Asn1c.Props.C03Uper
open Asn1c Asn1c.L2 Asn1c.Spec.Per Asn1c.L2.UperVar
open Asn1c.L2.OerVar (VSt Kind)
open Asn1c.Proofs.L2Uper Asn1c.Proofs.L2UperVariants

/-- **the UPER decoder accepts every version-skew variant**: the value is returned and exactly the encoding is
    consumed — whatever variation (`older` / `newer`), position, number of bits kept, list of unknown additions
    (absent, or present with arbitrary octets) was chosen, whatever follows the encoding. -/
theorem uper_accepts_variant (t : PTy) (hw : wfP t = true) (v : Val) (hc : ucanonP t v = true) (s s' : VSt)
    (bits rest : Bits) (h : encUV t v s = some (bits, s')) : decUPER t (bits ++ rest) = some (v, rest) :=
  rtu_all t hw v s s' bits rest hc h

/-- … and so is the complete encoding (zero-padded to octets): decoded from its octets, with the padding left over -/
theorem uper_accepts_variant_bytes (t : PTy) (hw : wfP t = true) (v : Val) (hc : ucanonP t v = true) (s s' : VSt)
    (bits : Bits) (h : encUV t v s = some (bits, s')) :
    ∃ pad, bytesToBits (complete bits) = bits ++ pad ∧ decUPER t (bytesToBits (complete bits)) = some (v, pad) := by
  obtain ⟨pad, hp, _⟩ := complete_spec bits
  exact ⟨pad, hp, by rw [hp]; exact uper_accepts_variant t hw v hc s s' bits pad h⟩

/-- the hypotheses are satisfiable and the variants differ from the encoder's own form: an extensible SEQUENCE with
    three additions, only the first present.  Own form: `1 1 0000010 100` + open type `00000001 00000000`; an older
    sender that knows one addition: bitmap length 0000000, bitmap `1`; a newer one with two more additions, the last
    present with contents AA BB 01: bitmap length 0000100, bitmap `10001`, and one more open type `03 AA BB 01`. -/
example :
    let t : PTy := .seq [.boolean] [⟨false, none, false⟩] true [.boolean, .octstr ⟨0, none, false⟩, .null]
      [⟨false, none, true⟩, ⟨true, none, true⟩, ⟨true, none, true⟩]
    let v : Val := .seq [.bool true, .bool false, .absent, .absent]
    wfP t = true ∧ ucanonP t v = true ∧
      (encUV t v {}).map (fun p => complete p.1) = some [0xc1, 0x40, 0x10, 0x00] ∧
      (encUV t v { kind := .older }).map (fun p => complete p.1) = some [0xc0, 0x40, 0x40, 0x00] ∧
      (encUV t v { kind := .newer, extra := [none, some [0xaa, 0xbb, 0x01]] }).map (fun p => complete p.1)
        = some [0xc2, 0x44, 0x04, 0x00, 0x0e, 0xaa, 0xec, 0x04] := by
  decide +kernel


/-! ## values -/

theorem ucanonRootP_of (ms : List PTy) (ih : ∀ m ∈ ms, ∀ v, canonV m v = true → ucanonP m v = true) :
    ∀ (as : List Attr) (vs : List Val), canonRoot ms as vs = true → ucanonRootP ms as vs = true := by
  induction ms with
  | nil => intro as vs _; simp [ucanonRootP]
  | cons m ms ihms =>
    intro as vs h
    cases as with
    | nil => simp [canonRoot] at h
    | cons a as =>
    cases vs with
    | nil => simp [canonRoot] at h
    | cons v vs =>
    simp only [canonRoot, Bool.and_eq_true, Bool.or_eq_true, Bool.not_eq_true'] at h
    simp only [ucanonRootP, Bool.and_eq_true, Bool.or_eq_true, Bool.not_eq_true']
    refine ⟨?_, ihms (fun x hx => ih x (by simp [hx])) as vs h.2⟩
    rcases h.1 with h1 | h1
    · exact Or.inl h1
    · exact Or.inr ⟨h1.1, ih m (by simp) v h1.2⟩

theorem ucanonAddsP_of (ms : List PTy) (ih : ∀ m ∈ ms, ∀ v, canonV m v = true → ucanonP m v = true) :
    ∀ (as : List Attr) (vs : List Val), canonAdds ms as vs = true → ucanonAddsP ms vs = true := by
  induction ms with
  | nil => intro as vs _; simp [ucanonAddsP]
  | cons m ms ihms =>
    intro as vs h
    cases as with
    | nil => simp [canonAdds] at h
    | cons a as =>
    cases vs with
    | nil => simp [canonAdds] at h
    | cons v vs =>
    simp only [canonAdds, Bool.and_eq_true, Bool.or_eq_true] at h
    simp only [ucanonAddsP, Bool.and_eq_true, Bool.or_eq_true]
    refine ⟨?_, ihms (fun x hx => ih x (by simp [hx])) as vs h.2⟩
    rcases h.1 with h1 | h1
    · exact Or.inl h1
    · exact Or.inr (ih m (by simp) v h1.2)

theorem ucanonAltP_of (ms : List PTy) (ih : ∀ m ∈ ms, ∀ v, canonV m v = true → ucanonP m v = true) :
    ∀ (i : Nat) (v : Val), canonAlt ms i v = true → ucanonAltP ms i v = true := by
  induction ms with
  | nil => intro i v h; simp [canonAlt] at h
  | cons m ms ihms =>
    intro i v h
    cases i with
    | zero => simp only [canonAlt] at h; simp only [ucanonAltP]; exact ih m (by simp) v h
    | succ i =>
      simp only [canonAlt] at h; simp only [ucanonAltP]
      exact ihms (fun x hx => ih x (by simp [hx])) i v h

/-- every canonical value (`canonV`, the domain of `C02Uper.uper_roundtrip`) is in the domain of `uper_accepts_variant` -/
theorem ucanonP_of_canonV : ∀ (t : PTy) (v : Val), canonV t v = true → ucanonP t v = true := by
  apply PTy.induct' (fun t => ∀ v, canonV t v = true → ucanonP t v = true)
  · intro v h; simpa [ucanonP] using h
  · intro v h; simpa [ucanonP] using h
  · intro c v h; simpa [ucanonP] using h
  · intro r e v h; simpa [ucanonP] using h
  · intro v h; simpa [ucanonP] using h
  · intro sz v h; simpa [ucanonP] using h
  · intro sz v h; simpa [ucanonP] using h
  · intro cw a b sz v h; simpa [ucanonP] using h
  · intro v h; simpa [ucanonP] using h
  · intro root rattrs ext adds aattrs ihr iha v h
    cases v with
    | seq vs =>
      simp only [canonV, Bool.and_eq_true] at h
      simp only [ucanonP, Bool.and_eq_true]
      exact ⟨ucanonRootP_of root ihr rattrs vs h.1, ucanonAddsP_of adds iha aattrs _ h.2⟩
    | _ => simp [canonV] at h
  · intro root order ext adds ihr iha v h
    cases v with
    | choice i x =>
      simp only [canonV] at h
      simp only [ucanonP]
      split at h
      · rename_i hi; rw [if_pos hi]; exact ucanonAltP_of root ihr i x h
      · rename_i hi; rw [if_neg hi]; exact ucanonAltP_of adds iha _ x h
    | _ => simp [canonV] at h
  · intro sz e ih v h
    cases v with
    | list vs =>
      simp only [canonV, List.all_eq_true] at h
      simp only [ucanonP, List.all_eq_true]
      exact fun x hx => ih x (h x hx)
    | _ => simp [canonV] at h
  · intro sz e ih v h
    cases v with
    | list vs =>
      simp only [canonV, Bool.and_eq_true, List.all_eq_true] at h
      simp only [ucanonP, List.all_eq_true]
      exact fun x hx => ih x (h.1 x hx)
    | _ => simp [canonV] at h

/-- … so the decoder accepts every version-skew variant of every canonical value -/
theorem uper_accepts_variant_of_canonical (t : PTy) (hw : wfP t = true) (v : Val) (hc : canonV t v = true) (s s' : VSt)
    (bits rest : Bits) (h : encUV t v s = some (bits, s')) : decUPER t (bits ++ rest) = some (v, rest) :=
  uper_accepts_variant t hw v (ucanonP_of_canonV t v hc) s s' bits rest h

/-- the former F171 witness: `T ::= SEQUENCE { a INTEGER (0..255), ..., b BOOLEAN OPTIONAL }` receives
    `83 81 40 80 40 80` from a newer version of the type: extension bit, a = 7, a bitmap of 2 additions `01` (b absent,
    one unknown addition present), the unknown addition as an open type of TWO octets `02 01 02` — a length that is
    neither a multiple of 3 octets nor the single octet 00, which `uper_open_type_skip` could not skip before the
    repair.  It is a valid encoding of { a 7 } and the decoder returns that value (C: `ok 6 (seq (a (int 7)))`). -/
theorem ref_F171_witness :
    let t : PTy := .seq [.integer ⟨some 0, some 255, false⟩] [⟨false, none, false⟩] true [.boolean] [⟨true, none, true⟩]
    let v : Val := .seq [.int 7, .absent]
    (encUV t v { kind := .newer, extra := [some [0x01, 0x02]] }).map (fun p => complete p.1)
      = some [0x83, 0x81, 0x40, 0x80, 0x40, 0x80] ∧
    ∃ pad, decUPER t (bytesToBits [0x83, 0x81, 0x40, 0x80, 0x40, 0x80]) = some (v, pad) := by
  intro t v
  have h1 : (encUV t v { kind := .newer, extra := [some [0x01, 0x02]] }).map (fun p => complete p.1)
      = some [0x83, 0x81, 0x40, 0x80, 0x40, 0x80] := by decide +kernel
  refine ⟨h1, ?_⟩
  cases h : encUV t v { kind := .newer, extra := [some [0x01, 0x02]] } with
  | none => rw [h] at h1; cases h1
  | some p =>
    obtain ⟨bits, s'⟩ := p
    rw [h] at h1
    simp only [Option.map_some, Option.some.injEq] at h1
    obtain ⟨pad, _, hd⟩ := uper_accepts_variant_bytes t (by decide +kernel) v (by decide +kernel) _ s' bits h
    rw [h1] at hd
    exact ⟨pad, hd⟩

end Asn1c.Props.C03Uper
