import Asn1cModel.L2.Xer
import Asn1cModel.Proofs.L2Xer
/-
  C01 (XER part) — encode-then-decode returns the same value in BASIC-XER and CANONICAL-XER.

  Subject: `L2.Xer.encXER` / `L2.Xer.decXER`, the Lean model of asn1c's XER codec
  (xer_encoder.c / xer_decoder.c / xer_support.c and the `*_encode_xer` / `*_decode_xer` functions of the
  skeletons), tied to the C code by the K leg `vlib/c01_xer.py` (same bytes out of the encoder, same
  acceptance / value / consumed count out of the decoder on the C encodings and on thousands of variants).

  * `xer_roundtrip` (+ `_consumed`): for the types of `rtTy` - BOOLEAN, NULL, INTEGER, ENUMERATED, OCTET STRING,
    BIT STRING, the UTF-8 written character strings (UTF8String, IA5String, VisibleString, PrintableString,
    NumericString, GeneralizedTime, UTCTime: escaping of & < > and of the control characters), BMPString and
    UniversalString (finding F150 repaired: the same escaping; code points below 2^31), SEQUENCE (OPTIONAL /
    DEFAULT / extension components), CHOICE, SEQUENCE OF with tag-wrapped elements, with a BOOLEAN / ENUMERATED /
    NULL value list or with unwrapped CHOICE elements, nested arbitrarily - and the values of `rtVal`, decoding
    what the encoder wrote returns the value, in both variants.  The identifiers of the components are arbitrary
    tag names (finding F153 repaired: a component may be called like a value tag of its type, `<red><red/></red>`).
    Outside: REAL, OBJECT IDENTIFIER, SET, SET OF (CANONICAL-XER reorders the elements).  BASIC-XER leaves the
    final newline unconsumed (finding F30), CANONICAL-XER consumes everything.
  * `xer_basic_canonical_same_value`: the BASIC and the CANONICAL rendering of a value decode alike.
  * `cxer_setOf_perm`: the CANONICAL-XER encoding of a SET OF does not depend on the order of the elements.
  * `cxer_seq_default_indep` / `cxer_set_default_indep` (finding F56, repaired): the CANONICAL-XER encoding of a
    SEQUENCE / SET does not depend on whether a component that holds its DEFAULT value is stored or left absent
    (`dropDefaults` = every such component made absent); `ref_F56_witness` is the former witness.  The domain
    of the round trip (`rtVal c`) follows: BASIC-XER writes the default value of an absent DEFAULT component,
    so it returns the value with that component stored; CANONICAL-XER writes neither form, so it returns the
    value with that component absent.
  * `tokens_render`: the tokenizer (model of `pxml_parse` / `xer_next_token`) inverts the rendering of
    well-formed token lists.
  * repaired findings, each with a general statement and its former witness: `xer_value_tag_named_like_element`
    / `ref_F153_witness` (F153), `xer_boolean_white_space` / `ref_F59_witness` (F59: white space between the tags
    of a BOOLEAN element and its value), `xer_roundtrip_bmpstring` / `xer_roundtrip_universalstring` /
    `ref_F150_witness` (F150), `ref_F152_witness` (F152: `&#;` `&#x;` `&#0;` are a decoding error).
-/
namespace Asn1c.Props.C01Xer
open Asn1c Asn1c.L2 Asn1c.L2.Xer Asn1c.Proofs.L2Xer

/-- the XER-relevant well-formedness of a top-level type: its name is a tag name and the type is in the supported
    subset -/
def topOk (t : XTop) : Bool := nameOk t.name && rtTy t.ty

/-- **C01 for XER**: decoding the BASIC-XER / CANONICAL-XER encoding of a value returns the value;
    the decoder consumes everything but the final newline of BASIC-XER (finding F30) -/
theorem xer_roundtrip_consumed (c : Bool) (t : XTop) (v : Val) (bs : Bytes) (ht : topOk t = true)
    (hv : rtVal c t.ty v = true) (he : encXER c t v = some bs) :
    decXERc t bs = some (v, if c then bs.length else bs.length - 1) := by
  simp only [topOk, Bool.and_eq_true] at ht
  obtain ⟨hn, hty⟩ := ht
  unfold encXER at he
  cases hb : encTy c t.ty 1 v with
  | none => simp [hb] at he
  | some body =>
    simp only [hb, Option.map_some, Option.some.injEq] at he
    subst he
    have h := rt_all t.ty hty c t.name 1 v body (if c = true then [] else [10])
      ((openTag t.name ++ body ++ closeTag t.name ++ if c = true then [] else [10]).length + 2) hn hv hb
      (by simp only [List.length_append, openTag_length, closeTag_length]; omega)
    unfold decXERc
    rw [h]
    cases c <;> simp

theorem xer_roundtrip (c : Bool) (t : XTop) (v : Val) (bs : Bytes) (ht : topOk t = true)
    (hv : rtVal c t.ty v = true) (he : encXER c t v = some bs) : decXER t bs = some v := by
  unfold decXER
  rw [xer_roundtrip_consumed c t v bs ht hv he]; rfl

/-- the same statement for a component / element decoder in its context: arbitrary bytes may follow -/
theorem xer_roundtrip_member (c : Bool) (t : XTy) (name : Bytes) (il : Nat) (v : Val) (body rest : Bytes)
    (ht : rtTy t = true) (hn : nameOk name = true) (hv : rtVal c t v = true)
    (he : encTy c t il v = some body) :
    decTy (body.length + 4) t name (openTag name ++ body ++ closeTag name ++ rest) = some (v, rest) :=
  rt_all t ht c name il v body rest _ hn hv he (Nat.le_refl _)

/-- BASIC-XER and CANONICAL-XER are two renderings of one value: both decode to it (for a value in the domain
    of both round trips: a DEFAULT component, if stored, holds another value than the default - the two
    variants return the two representations of a default-valued component, see `rtVal`) -/
theorem xer_basic_canonical_same_value (t : XTop) (v : Val) (b₁ b₂ : Bytes) (ht : topOk t = true)
    (hv₁ : rtVal false t.ty v = true) (hv₂ : rtVal true t.ty v = true)
    (h₁ : encXER false t v = some b₁) (h₂ : encXER true t v = some b₂) :
    decXER t b₁ = decXER t b₂ := by
  rw [xer_roundtrip false t v b₁ ht hv₁ h₁, xer_roundtrip true t v b₂ ht hv₂ h₂]

/-- **CANONICAL-XER SET OF**: the encoding does not depend on the order in which the elements are stored
    (SET_OF_encode_xer sorts the element encodings) -/
theorem cxer_setOf_perm (name : Bytes) (mode : Nat) (en : Bytes) (e : XTy) (vs₁ vs₂ : List Val) (hp : vs₁.Perm vs₂) :
    encXER true ⟨name, .setOf mode en e⟩ (.list vs₁) = encXER true ⟨name, .setOf mode en e⟩ (.list vs₂) := by
  unfold encXER
  rw [encTy_setOf_perm mode en e 1 vs₁ vs₂ hp]

/-- ... also as a component at any depth of indentation -/
theorem cxer_setOf_perm_member (mode : Nat) (en : Bytes) (e : XTy) (il : Nat) (vs₁ vs₂ : List Val) (hp : vs₁.Perm vs₂) :
    encTy true (.setOf mode en e) il (.list vs₁) = encTy true (.setOf mode en e) il (.list vs₂) :=
  encTy_setOf_perm mode en e il vs₁ vs₂ hp

/-! ### shapes of the encodings -/

theorem encXER_boolean (c : Bool) (n : Bytes) (b : Bool) :
    encXER c ⟨n, .boolean⟩ (.bool b) =
      some (openTag n ++ (if b then litTrueTag else litFalseTag) ++ closeTag n ++ if c then [] else [10]) := rfl

theorem encXER_null (c : Bool) (n : Bytes) :
    encXER c ⟨n, .null⟩ .null = some (openTag n ++ closeTag n ++ if c then [] else [10]) := by
  simp [encXER, encTy]

/-- INTEGER: `%ld` -/
theorem encXER_integer (c : Bool) (n : Bytes) (z : Int) (hz : -(2 ^ 63) ≤ z ∧ z < 2 ^ 63) :
    encXER c ⟨n, .integer .long⟩ (.int z) = some (openTag n ++ intDec z ++ closeTag n ++ if c then [] else [10]) := by
  simp only [encXER, encTy, encInt]
  rw [if_pos hz]; rfl

/-- INTEGER stored as `unsigned long` (`INTEGER (0..MAX)`): `%lu`, a decimal numeral over the whole range -/
theorem encXER_integer_unsigned (c : Bool) (n : Bytes) (z : Int) (hz : 0 ≤ z ∧ z < 2 ^ 64) :
    encXER c ⟨n, .integer .ulong⟩ (.int z) = some (openTag n ++ intDec z ++ closeTag n ++ if c then [] else [10]) := by
  simp only [encXER, encTy, encInt]
  rw [if_pos hz]; rfl

/-- **F125 (repaired)**: an `unsigned long` INTEGER round-trips over its whole range 0 .. 2^64-1 (the XER body
    parser read the numeral with asn_strtoimax_lim only: 2^63 and above were encoded but did not decode) -/
theorem xer_roundtrip_unsigned_long (c : Bool) (n : Bytes) (z : Int) (hn : nameOk n = true) (hz : 0 ≤ z ∧ z < 2 ^ 64) :
    ∃ bs, encXER c ⟨n, .integer .ulong⟩ (.int z) = some bs ∧ decXER ⟨n, .integer .ulong⟩ bs = some (.int z) := by
  refine ⟨_, encXER_integer_unsigned c n z hz, ?_⟩
  apply xer_roundtrip c ⟨n, .integer .ulong⟩ (.int z) _ _ _ (encXER_integer_unsigned c n z hz)
  · simp [topOk, hn, rtTy]
  · simp only [rtVal, decide_eq_true_eq]
    unfold intRange
    by_cases h : z < 2 ^ 63
    · exact Or.inl ⟨by omega, h, fun _ => hz.1⟩
    · exact Or.inr ⟨rfl, by omega, hz.2⟩

/-- the INTEGER a decoder result holds (`Val` has no decidable equality) -/
def intOfResult : Option Val → Option Int
  | some (.int z) => some z
  | _ => none

/-- the former witness of finding F125, `T ::= INTEGER (0..MAX)` holding 2^63: written as
    `<T>9223372036854775808</T>`, which now decodes to 2^63 (it was RC_FAIL, consumed 0); so does 2^64-1; 2^64 is
    beyond `unsigned long`, and a signed `long` still ends at 2^63-1 -/
theorem ref_F125_witness :
    encXER true ⟨[84], .integer .ulong⟩ (.int (2 ^ 63)) = some (Xer.strBytes "<T>9223372036854775808</T>") ∧
    intOfResult (decXER ⟨[84], .integer .ulong⟩ (Xer.strBytes "<T>9223372036854775808</T>")) = some (2 ^ 63) ∧
    intOfResult (decXER ⟨[84], .integer .ulong⟩ (Xer.strBytes "<T>18446744073709551615</T>")) = some (2 ^ 64 - 1) ∧
    (decXER ⟨[84], .integer .ulong⟩ (Xer.strBytes "<T>18446744073709551616</T>")).isNone = true ∧
    (decXER ⟨[84], .integer .long⟩ (Xer.strBytes "<T>9223372036854775808</T>")).isNone = true := by
  refine ⟨by decide +kernel, by decide +kernel, by decide +kernel, by decide +kernel, by decide +kernel⟩

/-- the decimal numeral written for an INTEGER reads back as the number -/
theorem numeral_roundtrip (z : Int) : numeralVal (intDec z) = z := numeralVal_intDec z

/-- ENUMERATED: the identifier as an empty-element tag -/
theorem encXER_enumerated (c : Bool) (n : Bytes) (ns : List Bytes) (vs : List Int) (z : Int) (x : Bytes)
    (h : lookupName ns vs z = some x) :
    encXER c ⟨n, .enumerated ns vs⟩ (.int z) = some (openTag n ++ emptyTag x ++ closeTag n ++ if c then [] else [10]) := by
  simp [encXER, encTy, h]

/-- CANONICAL-XER of a SEQUENCE is the concatenation of its present components that do not hold their DEFAULT
    value, each wrapped in its identifier -/
theorem encCXER_seq_cons (n : Bytes) (ns : List Bytes) (m : XTy) (ms : List XTy) (a : Attr) (as : List Attr) (il : Nat)
    (v : Val) (vs : List Val) (b r : Bytes) (hv : rtVal true m v = true) (hd : isDefault a v = false)
    (hb : encTy true m (il + 1) v = some b) (hr : encMembers true ns ms as il vs = some r) :
    encMembers true (n :: ns) (m :: ms) (a :: as) il (v :: vs) = some (openTag n ++ b ++ closeTag n ++ r) := by
  cases v with
  | absent => simp [rtVal_absent] at hv
  | _ => simp [encMembers, hb, hr, hd]

/-- BASIC-XER: an absent DEFAULT component is written with its default value (the SEQUENCE encoder materialises
    the default: an encoder's option of X.693 8) -/
theorem encMembers_default_absent (n : Bytes) (ns : List Bytes) (m : XTy) (ms : List XTy) (a : Attr)
    (as : List Attr) (il : Nat) (vs : List Val) (d : Val) (hd : dfltVal a = some d) (hne : rtVal false m d = true) :
    encMembers false (n :: ns) (m :: ms) (a :: as) il (.absent :: vs) =
      encMembers false (n :: ns) (m :: ms) (a :: as) il (d :: vs) := by
  cases d with
  | absent => simp [rtVal_absent] at hne
  | _ => simp [encMembers, hd]

/-! ### CANONICAL-XER does not encode default values (finding F56, repaired) -/

/-- every component that is stored with its DEFAULT value made absent -/
def dropDefaults : List Attr → List Val → List Val
  | a :: as, v :: vs => (if isDefault a v then .absent else v) :: dropDefaults as vs
  | _, vs => vs

/-- a component with a DEFAULT value may be omitted (`elements[i].optional` counts it; the resolver flags it) -/
def dfltOmitable (attrs : List Attr) : Prop := ∀ a ∈ attrs, a.dflt.isSome = true → omitable a = true

theorem isDefault_dflt (a : Attr) (v : Val) (h : isDefault a v = true) : a.dflt.isSome = true := by
  unfold isDefault at h
  cases hd : a.dflt with
  | none => simp [hd] at h
  | some d => rfl

theorem isDefault_absent (a : Attr) : isDefault a .absent = false := by
  unfold isDefault
  cases a.dflt with
  | none => rfl
  | some d => cases d <;> rfl

/-- CANONICAL-XER, SEQUENCE: a component holding its DEFAULT value is written like an absent one: not at all -/
theorem encCXER_default_omitted (n : Bytes) (ns : List Bytes) (m : XTy) (ms : List XTy) (a : Attr) (as : List Attr)
    (il : Nat) (v : Val) (vs : List Val) (hd : isDefault a v = true) (ho : omitable a = true) :
    encMembers true (n :: ns) (m :: ms) (a :: as) il (v :: vs) =
      encMembers true (n :: ns) (m :: ms) (a :: as) il (.absent :: vs) := by
  cases v with
  | absent => rfl
  | _ => simp [encMembers, hd, ho]

theorem encMembers_dropDefaults : ∀ (ns : List Bytes) (ms : List XTy) (as : List Attr) (il : Nat) (vs : List Val),
    dfltOmitable as → encMembers true ns ms as il (dropDefaults as vs) = encMembers true ns ms as il vs := by
  intro ns
  induction ns with
  | nil => intro ms as il vs _; cases as <;> cases vs <;> cases ms <;> simp [dropDefaults, encMembers]
  | cons n ns ih =>
    intro ms as il vs ho
    cases as with
    | nil => rfl
    | cons a as =>
      cases vs with
      | nil => rfl
      | cons v vs =>
        cases ms with
        | nil => simp [dropDefaults, encMembers]
        | cons m ms =>
          have ih' := ih ms as il vs (fun x hx => ho x (by simp [hx]))
          by_cases hd : isDefault a v = true
          · have hoa := ho a (by simp) (isDefault_dflt a v hd)
            rw [encCXER_default_omitted n ns m ms a as il v vs hd hoa]
            simp only [dropDefaults, hd, if_true]
            simp only [encMembers, hoa, if_true, ih']
          · simp only [Bool.not_eq_true] at hd
            simp only [dropDefaults, hd, Bool.false_eq_true, if_false]
            cases v <;> simp only [encMembers, hd, Bool.and_false, Bool.false_eq_true, if_false, ih']

theorem encNth_dropDefaults : ∀ (ns : List Bytes) (ms : List XTy) (as : List Attr) (il : Nat) (vs : List Val) (k : Nat),
    dfltOmitable as → encNth true ns ms as il (dropDefaults as vs) k = encNth true ns ms as il vs k := by
  intro ns
  induction ns with
  | nil => intro ms as il vs k _; cases as <;> cases vs <;> cases ms <;> cases k <;> simp [dropDefaults, encNth]
  | cons n ns ih =>
    intro ms as il vs k ho
    cases as with
    | nil => rfl
    | cons a as =>
      cases vs with
      | nil => rfl
      | cons v vs =>
        cases ms with
        | nil => cases k <;> simp [dropDefaults, encNth]
        | cons m ms =>
          cases k with
          | succ k =>
            simp only [dropDefaults, encNth]
            exact ih ms as il vs k (fun x hx => ho x (by simp [hx]))
          | zero =>
            by_cases hd : isDefault a v = true
            · have hoa := ho a (by simp) (isDefault_dflt a v hd)
              simp only [dropDefaults, hd, if_true]
              cases v with
              | absent => rfl
              | _ => simp [encNth, hd, hoa]
            · simp only [Bool.not_eq_true] at hd
              simp only [dropDefaults, hd, Bool.false_eq_true, if_false]
              cases v <;> rfl

/-- **CANONICAL-XER SEQUENCE** (C06 for default materialisation): the encoding does not depend on whether the
    components that hold their DEFAULT value are stored or absent -/
theorem cxer_seq_default_indep (name : Bytes) (names : List Bytes) (ms : List XTy) (attrs : List Attr) (fe : Option Nat)
    (vs : List Val) (ho : dfltOmitable attrs) :
    encXER true ⟨name, .seq names ms attrs fe⟩ (.seq (dropDefaults attrs vs)) =
      encXER true ⟨name, .seq names ms attrs fe⟩ (.seq vs) := by
  simp only [encXER, encTy, encMembers_dropDefaults names ms attrs 1 vs ho]

/-- **CANONICAL-XER SET**: likewise (SET_encode_xer) -/
theorem cxer_set_default_indep (name : Bytes) (names : List Bytes) (ms : List XTy) (attrs : List Attr) (order : List Nat)
    (fe : Bool) (vs : List Val) (ho : dfltOmitable attrs) :
    encXER true ⟨name, .set names ms attrs order fe⟩ (.seq (dropDefaults attrs vs)) =
      encXER true ⟨name, .set names ms attrs order fe⟩ (.seq vs) := by
  simp only [encXER, encTy, encNth_dropDefaults names ms attrs 1 vs _ ho]

/-- ... also as a component at any depth of indentation -/
theorem cxer_seq_default_indep_member (names : List Bytes) (ms : List XTy) (attrs : List Attr) (fe : Option Nat) (il : Nat)
    (vs : List Val) (ho : dfltOmitable attrs) :
    encTy true (.seq names ms attrs fe) il (.seq (dropDefaults attrs vs)) = encTy true (.seq names ms attrs fe) il (.seq vs) := by
  simp only [encTy, encMembers_dropDefaults names ms attrs il vs ho]

/-! ### BASIC-XER of a SET treats an absent DEFAULT component like a SEQUENCE does (finding F76, repaired) -/

/-- every absent component for which BASIC-XER substitutes the default value (`default_value_set`) made explicit -/
def fillDefaults : List Attr → List Val → List Val
  | a :: as, v :: vs =>
    (match v, dfltVal a with
     | .absent, some d => d
     | v, _ => v) :: fillDefaults as vs
  | _, vs => vs

theorem encNth_fillDefaults : ∀ (ns : List Bytes) (ms : List XTy) (as : List Attr) (il : Nat) (vs : List Val) (k : Nat),
    encNth false ns ms as il (fillDefaults as vs) k = encNth false ns ms as il vs k := by
  intro ns
  induction ns with
  | nil => intro ms as il vs k; cases as <;> cases vs <;> cases ms <;> cases k <;> simp [fillDefaults, encNth]
  | cons n ns ih =>
    intro ms as il vs k
    cases as with
    | nil => rfl
    | cons a as =>
      cases vs with
      | nil => rfl
      | cons v vs =>
        cases ms with
        | nil => cases k <;> simp [fillDefaults, encNth]
        | cons m ms =>
          cases k with
          | succ k => simp only [fillDefaults, encNth]; exact ih ms as il vs k
          | zero =>
            cases v with
            | absent =>
              cases hd : dfltVal a with
              | none => simp [fillDefaults, encNth, hd]
              | some d =>
                have hne : d ≠ .absent := by
                  unfold dfltVal at hd
                  cases hq : a.dflt with
                  | none => simp [hq] at hd
                  | some q => cases q <;> simp [hq] at hd <;> (subst hd; simp)
                cases d with
                | absent => exact absurd rfl hne
                | _ => simp [fillDefaults, encNth, hd]
            | _ => simp [fillDefaults, encNth]

/-- **BASIC-XER SET** (C13 for DEFAULT members, F76 repaired): the encoding does not depend on whether a DEFAULT
    component is absent - a NULL pointer, the -fwide-types representation of `DEFAULT 0` - or stored with its default
    value - the inline native representation -: SET_encode_xer writes the default value in both cases, like
    SEQUENCE_encode_xer (`encMembers_default_absent`) -/
theorem xer_set_default_indep (name : Bytes) (names : List Bytes) (ms : List XTy) (attrs : List Attr) (order : List Nat)
    (fe : Bool) (vs : List Val) :
    encXER false ⟨name, .set names ms attrs order fe⟩ (.seq (fillDefaults attrs vs)) =
      encXER false ⟨name, .set names ms attrs order fe⟩ (.seq vs) := by
  simp only [encXER, encTy, encNth_fillDefaults names ms attrs 1 vs _]

/-- the former witness of finding F76, `T ::= SET { i INTEGER, e ENUMERATED { m, n } DEFAULT m }`: { i 1 } with `e`
    absent (the -fwide-types structure) and with `e` holding `m` (the native structure) have one BASIC-XER encoding,
    the one with `<e><m/></e>` (the absent form used to be written without it) -/
def exF76 : XTop :=
  ⟨[84], .set [[105], [101]] [.integer .long, .enumerated [[109], [110]] [0, 1]]
    [⟨false, none, false⟩, ⟨true, some (.int 0), false⟩] [0, 1] false⟩

theorem ref_F76_witness :
    encXER false exF76 (.seq [.int 1, .absent]) = some (Xer.strBytes "<T>\n    <i>1</i>\n    <e><m/></e>\n</T>\n") ∧
    encXER false exF76 (.seq [.int 1, .int 0]) = some (Xer.strBytes "<T>\n    <i>1</i>\n    <e><m/></e>\n</T>\n") ∧
    encXER true exF76 (.seq [.int 1, .absent]) = some (Xer.strBytes "<T><i>1</i></T>") ∧
    encXER true exF76 (.seq [.int 1, .int 0]) = some (Xer.strBytes "<T><i>1</i></T>") := by
  refine ⟨by decide +kernel, by decide +kernel, by decide +kernel, by decide +kernel⟩

/-- the former witness of finding F56, `T ::= SEQUENCE { a INTEGER DEFAULT 5, b BOOLEAN }`: { a 5, b TRUE } and
    { b TRUE } have one CANONICAL-XER encoding, `<T><b><true/></b></T>`; BASIC-XER writes `<a>5</a>` for both -/
def exF56 : XTop := ⟨[84], .seq [[97], [98]] [.integer .long, .boolean] [⟨true, some (.int 5), false⟩, ⟨false, none, false⟩] none⟩

theorem ref_F56_witness :
    encXER true exF56 (.seq [.int 5, .bool true]) = some (Xer.strBytes "<T><b><true/></b></T>") ∧
    encXER true exF56 (.seq [.absent, .bool true]) = some (Xer.strBytes "<T><b><true/></b></T>") ∧
    encXER false exF56 (.seq [.int 5, .bool true]) = encXER false exF56 (.seq [.absent, .bool true]) ∧
    decXER exF56 [60, 84, 62, 60, 98, 62, 60, 116, 114, 117, 101, 47, 62, 60, 47, 98, 62, 60, 47, 84, 62] = some (.seq [.absent, .bool true]) := by
  refine ⟨by decide +kernel, by decide +kernel, by decide +kernel, rfl⟩

/-! ### the tokenizer -/

/-- rendered XML tokens: character data and the three tag forms the encoder writes -/
inductive Tok where
  | text (bs : Bytes)
  | opening (n : Bytes)
  | closing (n : Bytes)
  | empty (n : Bytes)

def Tok.render : Tok → Bytes
  | .text bs => bs
  | .opening n => openTag n
  | .closing n => closeTag n
  | .empty n => emptyTag n

def Tok.kind : Tok → TK
  | .text _ => .text
  | _ => .tag

/-- character data is not empty and has no '<'; names are tag names -/
def Tok.wf : Tok → Prop
  | .text bs => bs ≠ [] ∧ ∀ c ∈ bs, c ≠ cLT
  | .opening n | .closing n | .empty n => nameOk n = true

def Tok.isText : Tok → Bool
  | .text _ => true
  | _ => false

/-- no two adjacent pieces of character data, and the list ends with a tag -/
def chainOk : List Tok → Prop
  | [] => True
  | [t] => t.isText = false
  | t :: u :: r => (t.isText = true → u.isText = false) ∧ chainOk (u :: r)

def renderAll (ts : List Tok) : Bytes := (ts.map Tok.render).flatten

/-- repeated `xer_next_token` -/
def tokens : Nat → Bytes → List (TK × Bytes)
  | 0, _ => []
  | f + 1, bs =>
    match nextTok bs with
    | some (k, chunk, rest) => (k, chunk) :: tokens f rest
    | none => []

theorem render_tag_head (t : Tok) (ht : t.isText = false) : ∃ r, t.render = cLT :: r := by
  cases t with
  | text _ => cases ht
  | opening n => exact ⟨_, rfl⟩
  | closing n => exact ⟨_, rfl⟩
  | empty n => exact ⟨_, rfl⟩

theorem nextTok_render (t : Tok) (hw : t.wf) (r : Bytes) (hr : t.isText = true → ∃ r', r = cLT :: r') :
    nextTok (t.render ++ r) = some (t.kind, t.render, r) := by
  cases t with
  | text bs =>
    obtain ⟨r', rfl⟩ := hr rfl
    exact nextTok_text bs hw.1 hw.2 r'
  | opening n => exact nextTok_openTag n hw r
  | closing n => exact nextTok_closeTag n hw r
  | empty n => exact nextTok_emptyTag n hw r

/-- **tokenizer round trip**: tokenizing the rendering of a well-formed token list gives back the tokens -/
theorem tokens_render : ∀ (ts : List Tok) (f : Nat), (∀ t ∈ ts, t.wf) → chainOk ts → ts.length ≤ f →
    tokens f (renderAll ts) = ts.map fun t => (t.kind, t.render) := by
  intro ts
  induction ts with
  | nil => intro f _ _ _; cases f <;> simp [tokens, renderAll, nextTok, scan]
  | cons t ts ih =>
    intro f hw hc hf
    obtain ⟨f', rfl⟩ : ∃ f', f = f' + 1 := ⟨f - 1, by simp at hf; omega⟩
    have hwt := hw t (by simp)
    have hnext : t.isText = true → ∃ r', renderAll ts = cLT :: r' := by
      intro htx
      cases ts with
      | nil => simp [chainOk, htx] at hc
      | cons u us =>
        obtain ⟨r, hr⟩ := render_tag_head u (hc.1 htx)
        exact ⟨r ++ renderAll us, by simp [renderAll, hr]⟩
    have hc' : chainOk ts := by
      cases ts with
      | nil => trivial
      | cons u us => exact hc.2
    have e : renderAll (t :: ts) = t.render ++ renderAll ts := by simp [renderAll]
    rw [e]
    simp only [tokens, nextTok_render t hwt _ hnext, List.map_cons]
    rw [ih f' (fun x hx => hw x (by simp [hx])) hc' (by simp at hf; omega)]

/-! ### repaired findings: general statements and the former witnesses -/

/-- **F153 (repaired)**: a value tag may be called like the element that carries it - for every tag name `name`,
    also `true` / `false`, `<name><true/></name>` decodes to TRUE and `<name><false/></name>` to FALSE ... -/
theorem xer_value_tag_named_like_element_boolean (name rest : Bytes) (b : Bool) (hn : nameOk name = true) :
    decTy 12 .boolean name (openTag name ++ (if b then litTrueTag else litFalseTag) ++ closeTag name ++ rest) =
      some (.bool b, rest) := by
  have h := rt_all .boolean rfl true name 1 (.bool b) _ rest 12 hn rfl rfl (by cases b <;> decide)
  exact h

/-- ... and an ENUMERATED element called like one of its items decodes to that item -/
theorem xer_value_tag_named_like_element (ns : List Bytes) (vs : List Int) (z : Int) (x rest : Bytes)
    (hok : rtTy (.enumerated ns vs) = true) (hx : lookupName ns vs z = some x) :
    decTy ((emptyTag x).length + 4) (.enumerated ns vs) x (openTag x ++ emptyTag x ++ closeTag x ++ rest) =
      some (.int z, rest) := by
  have hok' : enumOkB ns vs = true := by simpa [rtTy] using hok
  have hxn : nameOk x = true := (enumOk_of_B hok').2.2.1 x (lookupName_mem ns vs z x hx).1
  exact rt_all _ hok true x 1 (.int z) (emptyTag x) rest _ hxn (by simp [rtVal, hx]) (by simp [encTy, hx]) (Nat.le_refl _)

/-- `S ::= SEQUENCE { red ENUMERATED { red, green } }` -/
def exEnumClash : XTop :=
  ⟨[83], .seq [[114, 101, 100]] [.enumerated [[114, 101, 100], [103, 114, 101, 101, 110]] [0, 1]] [⟨false, none, false⟩] none⟩

/-- `S ::= SEQUENCE { true BOOLEAN, false BOOLEAN }` -/
def exBoolClash : XTop :=
  ⟨[83], .seq [[116, 114, 117, 101], [102, 97, 108, 115, 101]] [.boolean, .boolean] [⟨false, none, false⟩, ⟨false, none, false⟩] none⟩

example : topOk exEnumClash = true := by decide
example : topOk exBoolClash = true := by decide

/-- the former witness of finding F153: the value `{ red red }` is written as `<S><red><red/></red></S>` and
    decodes to itself (it was rejected: `<red/>` inside `<red>` was taken for the empty element `red`);
    likewise `{ true TRUE, false FALSE }`; the empty element `<red/>` alone remains an error -/
theorem ref_F153_witness :
    Xer.strBytes "<S><red><red/></red></S>" = [60, 83, 62, 60, 114, 101, 100, 62, 60, 114, 101, 100, 47, 62, 60, 47, 114, 101, 100, 62, 60, 47, 83, 62] ∧
    encXER true exEnumClash (.seq [.int 0]) = some [60, 83, 62, 60, 114, 101, 100, 62, 60, 114, 101, 100, 47, 62, 60, 47, 114, 101, 100, 62, 60, 47, 83, 62] ∧
    decXER exEnumClash [60, 83, 62, 60, 114, 101, 100, 62, 60, 114, 101, 100, 47, 62, 60, 47, 114, 101, 100, 62, 60, 47, 83, 62] = some (.seq [.int 0]) ∧
    -- `<S><red><green/></red></S>`, `<S><red/></S>`
    decXER exEnumClash [60, 83, 62, 60, 114, 101, 100, 62, 60, 103, 114, 101, 101, 110, 47, 62, 60, 47, 114, 101, 100, 62, 60, 47, 83, 62] = some (.seq [.int 1]) ∧
    decXER exEnumClash [60, 83, 62, 60, 114, 101, 100, 47, 62, 60, 47, 83, 62] = none ∧
    Xer.strBytes "<S><true><true/></true><false><false/></false></S>" = [60, 83, 62, 60, 116, 114, 117, 101, 62, 60, 116, 114, 117, 101, 47, 62, 60, 47, 116, 114, 117, 101, 62, 60, 102, 97, 108, 115, 101, 62, 60, 102, 97, 108, 115, 101, 47, 62, 60, 47, 102, 97, 108, 115, 101, 62, 60, 47, 83, 62] ∧
    encXER true exBoolClash (.seq [.bool true, .bool false]) = some [60, 83, 62, 60, 116, 114, 117, 101, 62, 60, 116, 114, 117, 101, 47, 62, 60, 47, 116, 114, 117, 101, 62, 60, 102, 97, 108, 115, 101, 62, 60, 102, 97, 108, 115, 101, 47, 62, 60, 47, 102, 97, 108, 115, 101, 62, 60, 47, 83, 62] ∧
    decXER exBoolClash [60, 83, 62, 60, 116, 114, 117, 101, 62, 60, 116, 114, 117, 101, 47, 62, 60, 47, 116, 114, 117, 101, 62, 60, 102, 97, 108, 115, 101, 62, 60, 102, 97, 108, 115, 101, 47, 62, 60, 47, 102, 97, 108, 115, 101, 62, 60, 47, 83, 62] = some (.seq [.bool true, .bool false]) := by
  have e0 : encXER true exEnumClash (.seq [.int 0]) =
      some [60, 83, 62, 60, 114, 101, 100, 62, 60, 114, 101, 100, 47, 62, 60, 47, 114, 101, 100, 62, 60, 47, 83, 62] := rfl
  have e1 : encXER true exEnumClash (.seq [.int 1]) =
      some [60, 83, 62, 60, 114, 101, 100, 62, 60, 103, 114, 101, 101, 110, 47, 62, 60, 47, 114, 101, 100, 62, 60, 47, 83, 62] := rfl
  refine ⟨by decide +kernel, e0, xer_roundtrip true exEnumClash _ _ (by decide) (by decide) e0,
    xer_roundtrip true exEnumClash _ _ (by decide) (by decide) e1, rfl, by decide +kernel, rfl, rfl⟩

/-- white space in the sense of `xer_whitespace_span` (HT, LF, CR, SPACE) -/
def wsOnly (w : Bytes) : Bool := w.all isWsP

theorem wsOnly_noLT {w : Bytes} (h : wsOnly w = true) : ∀ c ∈ w, c ≠ cLT := by
  intro c hc e
  have := List.all_eq_true.mp h c hc
  subst e
  revert this; decide

theorem dropWhile_wsOnly {w : Bytes} (h : wsOnly w = true) : w.dropWhile isWsP = [] := by
  induction w with
  | nil => rfl
  | cons c r ih =>
    simp only [wsOnly, List.all_cons, Bool.and_eq_true] at h
    simp only [List.dropWhile_cons, h.1, if_true]
    exact ih h.2

/-- **F59 (repaired)**: white space between the tags of a BOOLEAN element and its `<true/>` / `<false/>` is
    insignificant: `<b> <true/> </b>` decodes like `<b><true/></b>`, for any white space before and after -/
theorem xer_boolean_white_space (name w₁ w₂ rest : Bytes) (b : Bool) (hn : nameOk name = true)
    (h₁ : wsOnly w₁ = true) (h₂ : wsOnly w₂ = true) :
    decPrim boolBody name (openTag name ++ w₁ ++ (if b then litTrueTag else litFalseTag) ++ w₂ ++ closeTag name ++ rest) =
      some (.bool b, rest) := by
  have hx : ∃ x, nameOk x = true ∧ (if b then litTrueTag else litFalseTag) = emptyTag x ∧ boolBody (emptyTag x) = .consumed (.bool b) := by
    cases b
    · exact ⟨litFalse, nameOk_false, rfl, boolBody_false⟩
    · exact ⟨litTrue, nameOk_true, rfl, boolBody_true⟩
  obtain ⟨x, hxn, hxe, hxb⟩ := hx
  rw [hxe]
  unfold Xer.decPrim
  obtain ⟨f, hf⟩ : ∃ f, (openTag name ++ w₁ ++ emptyTag x ++ w₂ ++ closeTag name ++ rest).length + 1 = f + 5 :=
    ⟨(openTag name ++ w₁ ++ emptyTag x ++ w₂ ++ closeTag name ++ rest).length - 4, by
      simp only [List.length_append, openTag_length, closeTag_length, emptyTag_length]; omega⟩
  rw [hf]
  simp only [List.append_assoc]
  rw [dg_open _ _ hn]
  -- the white space before the value: an empty chunk is XPBD_NOT_BODY_IGNORE
  have step1 : ∀ (g : Nat) (r : Bytes), decGeneral (primCb boolBody) name (g + 2) true none (w₁ ++ (emptyTag x ++ r)) =
      decGeneral (primCb boolBody) name g true (some (.bool b)) r ∨
      decGeneral (primCb boolBody) name (g + 2) true none (w₁ ++ (emptyTag x ++ r)) =
      decGeneral (primCb boolBody) name (g + 1) true (some (.bool b)) r := by
    intro g r
    by_cases hw : w₁ = []
    · subst hw
      right
      rw [List.nil_append, dg_unexp _ _ hn _ _ _ _ hxn]
      simp [primCb, hxb]
    · left
      rw [emptyTag_eq, dg_text _ _ _ _ _ _ hw (wsOnly_noLT h₁)]
      have hign : boolBody [] = .ignore := rfl
      simp only [primCb, dropWhile_wsOnly h₁, hign, Option.bind_some]
      rw [← emptyTag_eq, dg_unexp _ _ hn _ _ _ _ hxn]
      simp [primCb, hxb]
  -- the white space after the value
  have step2 : ∀ (g : Nat), decGeneral (primCb boolBody) name (g + 2) true (some (.bool b)) (w₂ ++ (closeTag name ++ rest)) =
      some (some (.bool b), rest) := by
    intro g
    by_cases hw : w₂ = []
    · subst hw
      rw [List.nil_append, dg_close _ _ hn]
    · rw [closeTag_eq, dg_text _ _ _ _ _ _ hw (wsOnly_noLT h₂)]
      have : w₂.all isWsP = true := h₂
      simp only [primCb, this, if_true, Option.bind_some]
      rw [← closeTag_eq, dg_close _ _ hn]
  rcases step1 (f + 2) (w₂ ++ (closeTag name ++ rest)) with h | h
  · rw [h, step2 f]
  · rw [h, step2 (f + 1)]

/-- `S ::= SEQUENCE { b BOOLEAN }` -/
def exBoolSeq : XTop := ⟨[83], .seq [[98]] [.boolean] [⟨false, none, false⟩] none⟩

/-- the former witness of finding F59: `<S><b> <true/> </b></S>` is accepted (it was rejected) like
    `<S> <b><true/></b> </S>`; an element without a value remains an error -/
theorem ref_F59_witness :
    Xer.strBytes "<S><b> <true/> </b></S>" = [60, 83, 62, 60, 98, 62, 32, 60, 116, 114, 117, 101, 47, 62, 32, 60, 47, 98, 62, 60, 47, 83, 62] ∧
    decXER exBoolSeq [60, 83, 62, 60, 98, 62, 32, 60, 116, 114, 117, 101, 47, 62, 32, 60, 47, 98, 62, 60, 47, 83, 62] = some (.seq [.bool true]) ∧
    -- `<S> <b><true/></b> </S>`, `<S><b> </b></S>`, `<S><b/></S>`
    decXER exBoolSeq [60, 83, 62, 32, 60, 98, 62, 60, 116, 114, 117, 101, 47, 62, 60, 47, 98, 62, 32, 60, 47, 83, 62] = some (.seq [.bool true]) ∧
    decXER exBoolSeq [60, 83, 62, 60, 98, 62, 32, 60, 47, 98, 62, 60, 47, 83, 62] = none ∧
    decXER exBoolSeq [60, 83, 62, 60, 98, 47, 62, 60, 47, 83, 62] = none := by
  refine ⟨by decide +kernel, rfl, rfl, rfl, rfl⟩

/-- **F150 (repaired)**: BMPString round-trips, whatever characters it holds -/
theorem xer_roundtrip_bmpstring (c : Bool) (name bs enc : Bytes) (hn : nameOk name = true) (hb : bmpOk bs = true)
    (he : encXER c ⟨name, .bmpstr⟩ (.octets bs) = some enc) : decXER ⟨name, .bmpstr⟩ enc = some (.octets bs) :=
  xer_roundtrip c ⟨name, .bmpstr⟩ (.octets bs) enc (by simp [topOk, hn, rtTy]) (by simpa [rtVal] using hb) he

/-- ... and so does UniversalString (code points below 2^31: the UTF-8 form of `UniversalString__dump` has 31 bits) -/
theorem xer_roundtrip_universalstring (c : Bool) (name bs enc : Bytes) (hn : nameOk name = true) (hb : uniOk bs = true)
    (he : encXER c ⟨name, .unistr⟩ (.octets bs) = some enc) : decXER ⟨name, .unistr⟩ enc = some (.octets bs) :=
  xer_roundtrip c ⟨name, .unistr⟩ (.octets bs) enc (by simp [topOk, hn, rtTy]) (by simpa [rtVal] using hb) he

/-- the former witness of finding F150: BMPString "a<b" is written as `<T>a&lt;b</T>` (it was `<T>a<b</T>`, which does
    not decode) like the UTF8String "a<b", and decodes to itself; so does the BMPString `&amp;` -/
theorem ref_F150_witness :
    Xer.strBytes "<T>a&lt;b</T>" = [60, 84, 62, 97, 38, 108, 116, 59, 98, 60, 47, 84, 62] ∧
    encXER true ⟨[84], .bmpstr⟩ (.octets [0, 97, 0, 60, 0, 98]) = some [60, 84, 62, 97, 38, 108, 116, 59, 98, 60, 47, 84, 62] ∧
    decXER ⟨[84], .bmpstr⟩ [60, 84, 62, 97, 38, 108, 116, 59, 98, 60, 47, 84, 62] = some (.octets [0, 97, 0, 60, 0, 98]) ∧
    -- the former encoding `<T>a<b</T>`
    decXER ⟨[84], .bmpstr⟩ [60, 84, 62, 97, 60, 98, 60, 47, 84, 62] = none ∧
    encXER true ⟨[84], .utf8str⟩ (.octets [97, 60, 98]) = some [60, 84, 62, 97, 38, 108, 116, 59, 98, 60, 47, 84, 62] ∧
    Xer.strBytes "<T>&amp;amp;<nul/></T>" = [60, 84, 62, 38, 97, 109, 112, 59, 97, 109, 112, 59, 60, 110, 117, 108, 47, 62, 60, 47, 84, 62] ∧
    encXER true ⟨[84], .bmpstr⟩ (.octets [0, 38, 0, 97, 0, 109, 0, 112, 0, 59, 0, 0]) = some [60, 84, 62, 38, 97, 109, 112, 59, 97, 109, 112, 59, 60, 110, 117, 108, 47, 62, 60, 47, 84, 62] ∧
    decXER ⟨[84], .bmpstr⟩ [60, 84, 62, 38, 97, 109, 112, 59, 97, 109, 112, 59, 60, 110, 117, 108, 47, 62, 60, 47, 84, 62] = some (.octets [0, 38, 0, 97, 0, 109, 0, 112, 0, 59, 0, 0]) := by
  refine ⟨by decide +kernel, rfl, rfl, rfl, rfl, by decide +kernel, rfl, rfl⟩

/-- the former witness of finding F152: a numeric character reference without digits or of value zero is a decoding
    error (the C code aborted on `assert(val > 0)`); references to characters are expanded -/
theorem ref_F152_witness :
    Xer.strBytes "<T>&#x;</T>" = [60, 84, 62, 38, 35, 120, 59, 60, 47, 84, 62] ∧
    decXER ⟨[84], .utf8str⟩ [60, 84, 62, 38, 35, 120, 59, 60, 47, 84, 62] = none ∧
    -- `<T>&#;</T>`, `<T>a&#0;</T>`, `<T>&#x41;&#66;</T>`
    decXER ⟨[84], .utf8str⟩ [60, 84, 62, 38, 35, 59, 60, 47, 84, 62] = none ∧
    decXER ⟨[84], .utf8str⟩ [60, 84, 62, 97, 38, 35, 48, 59, 60, 47, 84, 62] = none ∧
    decXER ⟨[84], .utf8str⟩ [60, 84, 62, 38, 35, 120, 52, 49, 59, 38, 35, 54, 54, 59, 60, 47, 84, 62] = some (.octets [65, 66]) := by
  refine ⟨by decide +kernel, rfl, rfl, rfl, rfl⟩

/-- finding F30 on a concrete value: `<T>5</T>\n` is 9 octets, 8 are consumed -/
theorem ref_F30_witness :
    encXER false ⟨[84], .integer .long⟩ (.int 5) = some [60, 84, 62, 53, 60, 47, 84, 62, 10] ∧
    (decXERc ⟨[84], .integer .long⟩ [60, 84, 62, 53, 60, 47, 84, 62, 10]).map (·.2) = some 8 := by
  refine ⟨rfl, by decide +kernel⟩

/-! ### the hypotheses are satisfiable on a non-trivial type -/

/-- `T ::= SEQUENCE { a INTEGER OPTIONAL, c CHOICE { x BOOLEAN, y NULL }, l SEQUENCE OF INTEGER,
      e ENUMERATED { r, g } DEFAULT r, o OCTET STRING, b BIT STRING, u UTF8String, f SEQUENCE OF BOOLEAN,
      k SEQUENCE OF CHOICE { p INTEGER, q NULL } }` -/
def exTy : XTop :=
  ⟨[84], .seq [[97], [99], [108], [101], [111], [98], [117], [102], [107]]
    [.integer .long, .choice [[120], [121]] [.boolean, .null] false, .seqOf 0 [73, 78, 84, 69, 71, 69, 82] (.integer .long),
     .enumerated [[114], [103]] [0, 1], .hexstr, .bitstr, .utf8str, .seqOf 1 [66, 79, 79, 76, 69, 65, 78] .boolean,
     .seqOf 2 [] (.choice [[112], [113]] [.integer .long, .null] false)]
    [⟨true, none, false⟩, ⟨false, none, false⟩, ⟨false, none, false⟩, ⟨true, some (.int 0), false⟩,
     ⟨false, none, false⟩, ⟨false, none, false⟩, ⟨false, none, false⟩, ⟨false, none, false⟩, ⟨false, none, false⟩] none⟩

def exVal : Val :=
  .seq [.absent, .choice 1 .null, .list [.int 1, .int (-2)], .int 1, .octets [1, 255], .bits [160] 4, .octets [97, 60, 0, 38],
        .list [.bool true, .bool false], .list [.choice 0 (.int 7), .choice 1 .null]]

example : topOk exTy = true := by decide
example : rtVal true exTy.ty exVal = true := by decide
example : rtVal false exTy.ty exVal = true := by decide
theorem exTy_encCXER :
    encXER true exTy exVal = some (Xer.strBytes
      "<T><c><y></y></c><l><INTEGER>1</INTEGER><INTEGER>-2</INTEGER></l><e><g/></e><o>01FF</o><b>1010</b><u>a&lt;<nul/>&amp;</u><f><true/><false/></f><k><p>7</p><q></q></k></T>") := by
  decide +kernel

end Asn1c.Props.C01Xer
