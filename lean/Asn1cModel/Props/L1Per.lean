import Asn1cModel.Proofs.PerSupport
import Asn1cModel.Proofs.PerSmall
import Asn1cModel.Proofs.OerSupport
import Asn1cModel.Proofs.Native
/-
  L1 (UPER / OER primitive layer) property theorems, feeding C01 (round trip), C02 (byte-exact
  standard wire format) and C04 (decoders never read out of bounds).

  Impl  : Impl.BitData (asn_bit_data.c), Impl.PerSupport (per_support.c), Impl.OerSupport (oer_support.c)
  Spec  : Spec.Per (X.691 §10.5–10.9), Spec.Oer (X.696 §8.6)
  Every statement is unbounded (all values / all following bits), no sample-based `decide`.
  Findings F29 (`uper_put_nsnnwn(n ≥ 64)` omitted the marker bit `1` of X.691 §10.6.2; the reader stopped at
  two octets) and F64 (`uper_put_nslength(n > 64)` omitted the bit `1` of X.691 §10.9.3.4) are repaired: the
  statements about the normally small number / length hold on the whole domain of the writers.
-/
namespace Asn1c.Props.L1Per
open Asn1c Asn1c.Impl.BitData Asn1c.Impl.PerSupport Asn1c.Impl.OerSupport
open Asn1c.Proofs.PerSupport Asn1c.Proofs.PerSmall Asn1c.Proofs.OerSupport

/-! ## asn_bit_data.c -/

/-- C01: `asn_get_few_bits` inverts `asn_put_few_bits`, whatever follows on the wire -/
theorem getFewBits_putFewBits (n v : Nat) (rest : Bits) (hn : n ≤ 31) (hv : v < 2 ^ n) :
    (putFewBits n v).bind (fun b => getFewBits n (b ++ rest)) = some (v, rest) := by
  rw [putFewBits_eq n v hn]
  simp only [Option.bind_some]
  rw [getFewBits_natBits n v rest hn, Nat.mod_eq_of_lt hv]

/-- C02: `asn_put_few_bits` writes the non-negative-binary-integer of X.691 §10.3 in `n` bits;
    bits of the value above `n` are masked off (`bits &= (1 << obits) - 1`) -/
theorem putFewBits_spec (n v : Nat) (hn : n ≤ 31) :
    putFewBits n v = some (Spec.Per.nnbi n v) ∧ putFewBits n v = putFewBits n (v % 2 ^ n) := by
  rw [putFewBits_eq n v hn, putFewBits_eq n _ hn, natBits_mod]
  exact ⟨rfl, rfl⟩

/-- `asn_put_few_bits` refuses 32 bits and more -/
theorem putFewBits_fails (n v : Nat) (hn : 32 ≤ n) : putFewBits n v = none := by
  unfold putFewBits; rw [if_pos hn]

/-- C04: a successful `asn_get_few_bits` consumed exactly `n ≤ 31` bits, all of them inside the data:
    the input is `n` bits (the binary digits of the value) followed by the untouched rest -/
theorem getFewBits_in_bounds (n : Nat) (bs r : Bits) (v : Nat) (h : getFewBits n bs = some (v, r)) :
    n ≤ 31 ∧ v < 2 ^ n ∧ bs = Spec.Per.nnbi n v ++ r ∧ r.length + n = bs.length := by
  obtain ⟨h1, h2, h3⟩ := getFewBits_some h
  refine ⟨h1, h2, h3, ?_⟩
  rw [h3]; simp [natBits_length]; omega

/-- C04: -1 exactly when more than 31 bits are requested or fewer than `n` bits are left -/
theorem getFewBits_fails_iff (n : Nat) (bs : Bits) : getFewBits n bs = none ↔ n > 31 ∨ bs.length < n :=
  getFewBits_none_iff n bs

/-- C02: `asn_put_many_bits(src, n)` writes the first `n` bits of the `src` octets -/
theorem putManyBits_spec (src : Bytes) (n : Nat) (hw : src.wf) (hn : n ≤ 8 * src.length) :
    putManyBits src n = (bytesToBits src).take n :=
  putManyBits_eq src n hw hn

/-- C01/C04: `asn_get_many_bits(pd, dst, 0, n)` fails iff fewer than `n` bits are left; otherwise it consumes
    exactly `n` bits and stores `⌈n/8⌉` octets: those bits, left-aligned, zero-padded (no 31-bit limit here:
    the 24-bit rounds and the tail are invisible) -/
theorem getManyBits_spec (n : Nat) (bs : Bits) :
    (bs.length < n → getManyBits false n bs = none) ∧
    (n ≤ bs.length → ∃ out, getManyBits false n bs = some (out, bs.drop n) ∧ out.length = (n + 7) / 8 ∧ Bytes.wf out ∧
      bytesToBits out = bs.take n ++ List.replicate (8 * ((n + 7) / 8) - n) false) :=
  getManyBits_left n bs

/-- C01: octets written by `asn_put_many_bits` are read back by `asn_get_many_bits`, whatever follows -/
theorem getManyBits_putManyBits_octets (src : Bytes) (rest : Bits) (hw : src.wf) :
    getManyBits false (8 * src.length) (putManyBits src (8 * src.length) ++ rest) = some (src, rest) :=
  getManyBits_putManyBits src rest hw

/-! ## asn_bit_data.c at byte level: the C04 statement for `asn_get_few_bits`

`Src` = (octets from `pd->buffer` to the end of the buffer, `nboff`, `nbits`); every `buf[i]` of the C code is a
partial lookup in the model (`getFewRaw`), with the distinguished outcome `oob`.
`SrcInv s` : `nboff ≤ nbits ≤ 8 * buf.length` (what `uper_decode` / `asn_bit_data_new_contiguous` establish). -/

/-- C04: on a position satisfying the invariant, `asn_get_few_bits` never indexes outside the buffer
    (also not in the 4-octet window of the `off ≤ 31` case, nor in the 24-bit split), leaves a position
    satisfying the invariant again, and consumes exactly `n` of the remaining bits -/
theorem asn_get_few_bits_no_oob (s : Src) (n : Nat) (h : SrcInv s) :
    getFewRaw s n ≠ .oob ∧
    ∀ v s', getFewRaw s n = .ok v s' →
      SrcInv s' ∧ v < 2 ^ n ∧ n ≤ 31 ∧ (s'.nbits : Int) - s'.nboff + n = (s.nbits : Int) - s.nboff :=
  getFewRaw_safe s n h

/-- the byte-level reader (pointer / nboff / nbits arithmetic, shifts and masks) computes exactly the
    bit-list reader `getFewBits` that all other theorems are about -/
theorem asn_get_few_bits_refines (s : Src) (n : Nat) (h : SrcInv s) (hw : s.buf.wf) :
    match getFewBits n (srcBits s) with
    | none => getFewRaw s n = .fail
    | some (v, r) => ∃ s', getFewRaw s n = .ok v s' ∧ srcBits s' = r ∧ SrcInv s' ∧ s'.buf.wf :=
  getFewRaw_refines s n h hw

/-! ## per_support.c: length determinants -/

/-- C02: what one call of `uper_put_length(n)` writes and returns (X.691 §10.9.3.5–10.9.3.8) -/
theorem putLength_spec (n : Nat) :
    (n < 16384 → putLength n = (Spec.Per.lengthDetSmall n, n, false)) ∧
    (16384 ≤ n → putLength n =
      (Spec.Per.fragHeader (min (n / 16384) 4), min (n / 16384) 4 * 16384, decide (n = min (n / 16384) 4 * 16384))) := by
  constructor
  · intro h
    have h1 := putLength_hdr_small n h
    have h2 := putLength_cover n
    have h3 := putLength_eom n
    rw [if_pos h] at h2
    have h4 : (putLength n).2.2 = false := by rw [h3]; simp; omega
    exact Prod.ext h1 (Prod.ext h2 h4)
  · intro h
    have h1 := putLength_hdr_frag n h
    have h2 := putLength_cover n
    have h3 := putLength_eom n
    rw [if_neg (by omega)] at h2
    have h4 : (putLength n).2.2 = decide (n = min (n / 16384) 4 * 16384) := by
      rw [h3]
      by_cases c : n = min (n / 16384) 4 * 16384
      · rw [decide_eq_true c]
        have c1 : 16384 ≤ n := h
        have c2 : n / 16384 ≤ 4 := by omega
        have c3 : n % 16384 = 0 := by omega
        simp [c1, c2, c3]
      · rw [decide_eq_false c]
        by_cases c2 : n / 16384 ≤ 4
        · have c3 : ¬ n % 16384 = 0 := by omega
          simp [c3]
        · simp [c2]
    exact Prod.ext h1 (Prod.ext h2 h4)

/-- C01: `uper_get_length` reads back what one `uper_put_length` wrote: the length itself below 16K
    (incl. 127/128 and 16383), otherwise the size of the fragment with `repeat` set -/
theorem getLength_putLength (n : Nat) (rest : Bits) :
    getLength (-1) 0 ((putLength n).1 ++ rest) =
      if n < 16384 then some (n, false, rest) else some (min (n / 16384) 4 * 16384, true, rest) := by
  by_cases h : n < 16384
  · rw [if_pos h, getLength_putLength_small n rest h]
  · rw [if_neg h, getLength_putLength_frag n rest (by omega)]
    have := putLength_cover n
    rw [if_neg h] at this
    rw [this]

/-- C01: a constrained length (`0 ≤ ebits ≤ 16`, written by the callers with `per_put_few_bits(n - lb, ebits)`)
    is read back by `uper_get_length` -/
theorem getLength_constrained (ebits lb n : Nat) (rest : Bits) (he : ebits ≤ 16) (h1 : lb ≤ n) (h2 : n - lb < 2 ^ ebits) :
    (putFewBits ebits (n - lb)).bind (fun b => getLength ebits lb (b ++ rest)) = some (n, false, rest) := by
  rw [putFewBits_eq _ _ (by omega)]
  simp only [Option.bind_some, getLength]
  rw [if_pos (by omega)]
  simp only [Int.toNat_natCast]
  rw [getFewBits_natBits _ _ _ (by omega), Nat.mod_eq_of_lt h2]
  simp only
  congr 2; omega

/-- C02: the length loop of `OCTET_STRING_encode_uper` / `SET_OF_encode_uper` / `SEQUENCE_OF_encode_uper` /
    `INTEGER_encode_uper` / `uper_open_type_put` emits exactly the length-prefixed, fragmented form of
    X.691 §10.9.3.5–10.9.3.8, for every number of items -/
theorem putLength_eq_spec (items : List Bits) :
    putLoop items = Spec.Per.lengthPrefixed (items.length + 1) items :=
  (lengthPrefixed_eq_putLoop (items.length + 1) items (by omega)).symm

/-- C01: decoding with the get loop (`do { n = uper_get_length(); read n items } while(repeat)`) what the put
    loop wrote returns exactly the items and leaves exactly the following bits – for **every** item count
    (0, 127/128, 16383/16384, exact multiples of 16K with the end-of-message determinant, > 64K in several rounds),
    for any item codec whose reader inverts its writer -/
theorem lengthLoop_roundtrip {α : Type} (rd : Bits → Option (α × Bits)) (enc : α → Bits) (xs : List α) (rest : Bits)
    (hrd : ∀ a ∈ xs, ∀ r, rd (enc a ++ r) = some (a, r)) :
    getLoop rd (putLoop (xs.map enc) ++ rest) = some (xs, rest) :=
  getLoop_putLoop rd enc xs rest hrd

/-- instance: `n` octets (OCTET STRING without constraints) -/
example (os : List Nat) (h : ∀ b ∈ os, b < 256) (rest : Bits) :
    getLoop (getFewBits 8) (putLoop (os.map (natBits 8)) ++ rest) = some (os, rest) :=
  lengthLoop_roundtrip _ _ os rest (fun a ha r => by
    rw [getFewBits_natBits 8 a r (by omega), Nat.mod_eq_of_lt (h a ha)])

/-- C04: an unconstrained `uper_get_length` consumes at least 8 bits, never announces more than 64K
    items, `repeat` only with exactly 16K·m (1 ≤ m ≤ 4), and the remaining bits are a suffix of the input -/
theorem getLength_in_bounds (e : Int) (lb : Nat) (bs r : Bits) (v : Nat) (rep : Bool)
    (h : getLength e lb bs = some (v, rep, r)) :
    r <:+ bs ∧ ((e < 0 ∨ 16 < e) → r.length + 8 ≤ bs.length ∧
      ((rep = false ∧ v < 16384) ∨ (rep = true ∧ (v = 16384 ∨ v = 32768 ∨ v = 49152 ∨ v = 65536)))) :=
  ⟨getLength_suffix h, fun he => getLength_unconstrained he h⟩

/-- C04: the whole get loop stays inside the input as long as the item reader does -/
theorem getLoop_in_bounds {α : Type} (rd : Bits → Option (α × Bits))
    (hrd : ∀ bs a r, rd bs = some (a, r) → r <:+ bs) (bs : Bits) (xs : List α) (r : Bits)
    (h : getLoop rd bs = some (xs, r)) : r <:+ bs :=
  getLoopF_suffix rd hrd _ bs xs r h

/-! ## per_support.c: normally small non-negative whole number (X.691 §10.6) -/

/-- C02 (finding F29 repaired): `uper_put_nsnnwn` writes exactly X.691 §10.6 for every `n < 2^24`:
    §10.6.1 (`0` + 6 bits) up to 63, §10.6.2 (the bit `1`, then the semi-constrained whole number
    with its length octet) from 64 on -/
theorem putNsnnwn_eq_spec (n : Nat) (h : n < 2 ^ 24) : putNsnnwn n = some (Spec.Per.normallySmall n) := by
  by_cases h63 : n ≤ 63
  · rw [putNsnnwn_small n h63]
    unfold Spec.Per.normallySmall Spec.Per.nnbi
    rw [if_pos h63, natBits_cons]
    congr 2
    simp; omega
  · obtain ⟨hb, hlo, hhi⟩ := nsBytes_spec n (by omega) h
    rw [putNsnnwn_large n _ hb (by omega) hlo hhi, normallySmall_large n _ hb (by omega) hlo hhi]

/-- `uper_put_nsnnwn` refuses negative numbers and everything from 2^24 on ("not a normally small value") -/
theorem putNsnnwn_rejects (n : Int) (h : n < 0 ∨ 2 ^ 24 ≤ n) : putNsnnwn n = none := by
  unfold putNsnnwn
  norm_num at h
  rcases h with h | h
  · rw [if_pos (by omega), if_pos h]
  · rw [if_neg (by omega), if_neg (by omega), if_neg (by omega), if_neg (by omega)]

/-- C01 (finding F29 repaired): `uper_get_nsnnwn` inverts `uper_put_nsnnwn` for every number the writer
    accepts (`n < 2^24`), whatever follows on the wire -/
theorem getNsnnwn_putNsnnwn (n : Nat) (rest : Bits) (h : n < 2 ^ 24) :
    (putNsnnwn n).bind (fun b => getNsnnwn (b ++ rest)) = some (n, rest) := by
  by_cases h63 : n ≤ 63
  · rw [putNsnnwn_small n h63]
    simp only [Option.bind_some]
    exact getNsnnwn_small n rest h63
  · obtain ⟨hb, hlo, hhi⟩ := nsBytes_spec n (by omega) h
    rw [putNsnnwn_large n _ hb (by omega) hlo hhi]
    simp only [Option.bind_some]
    rw [getNsnnwn_large _ n rest hb, Nat.mod_eq_of_lt]
    rw [show (2 : Nat) ^ (8 * nsBytes n) = 256 ^ nsBytes n by rw [Nat.pow_mul]]
    exact hhi

/-- the former F29 witness: 64 is now written as `1 00000001 01000000` (X.691 §10.6.2) and read back as 64
    (the unrepaired code wrote `01 40` and read 0) -/
theorem putNsnnwn_64_repaired :
    putNsnnwn 64 = some (true :: bytesToBits [0x01, 0x40]) ∧
    Spec.Per.normallySmall 64 = true :: bytesToBits [0x01, 0x40] ∧
    getNsnnwn (true :: bytesToBits [0x01, 0x40]) = some (64, []) := by
  have hp : putNsnnwn ((64 : Nat) : Int) = some (true :: bytesToBits [0x01, 0x40]) := by decide
  refine ⟨hp, ?_, by decide⟩
  have := putNsnnwn_eq_spec 64 (by norm_num)
  rw [hp] at this
  exact (Option.some.inj this).symm

/-- C03/C02: the reader accepts the X.691 §10.6 encoding of every `n < 2^24` -/
theorem getNsnnwn_spec (n : Nat) (rest : Bits) (h : n < 2 ^ 24) :
    getNsnnwn (Spec.Per.normallySmall n ++ rest) = some (n, rest) := by
  have h1 := putNsnnwn_eq_spec n h
  have h2 := getNsnnwn_putNsnnwn n rest h
  rw [h1] at h2
  simpa using h2

/-- C04: `uper_get_nsnnwn` stays inside its input -/
theorem getNsnnwn_in_bounds (bs r : Bits) (v : Nat) (h : getNsnnwn bs = some (v, r)) : r <:+ bs :=
  getNsnnwn_suffix h

/-! ## per_support.c: normally small length (X.691 §10.9.3.4) -/

/-- C02 (finding F64 repaired): `uper_put_nslength` writes exactly X.691 §10.9.3.4 for every `1 ≤ n < 16384`:
    `0` + 6 bits of `n - 1` up to 64, the bit `1` followed by the general length determinant above -/
theorem putNslength_eq_spec (n : Nat) (h1 : 1 ≤ n) (h : n < 16384) :
    putNslength n = some (Spec.Per.normallySmallLength n) := by
  by_cases h64 : n ≤ 64
  · rw [putNslength_small n h1 h64]
    unfold Spec.Per.normallySmallLength Spec.Per.nnbi
    rw [if_pos h64, natBits_cons]
    congr 2
    simp; omega
  · rw [putNslength_large n (by omega) h, putLength_hdr_small n h]
    unfold Spec.Per.normallySmallLength; rw [if_neg h64]

/-- `uper_put_nslength` rejects 0 and everything from 16K on -/
theorem putNslength_rejects (n : Nat) (h : n = 0 ∨ 16384 ≤ n) : putNslength n = none := by
  rcases h with rfl | h
  · rfl
  · exact putNslength_fails n h

/-- the reader accepts the X.691 §10.9.3.4 encoding of every `1 ≤ n < 16384` -/
theorem getNslength_spec (n : Nat) (rest : Bits) (h1 : 1 ≤ n) (h : n < 16384) :
    getNslength (Spec.Per.normallySmallLength n ++ rest) = some (n, rest) := by
  by_cases h64 : n ≤ 64
  · have := putNslength_eq_spec n h1 h
    rw [putNslength_small n h1 h64] at this
    simp only [Option.some.injEq] at this
    rw [← this]; exact getNslength_small n rest h1 h64
  · unfold Spec.Per.normallySmallLength
    rw [if_neg h64, ← putLength_hdr_small n h]
    unfold getNslength
    have e : true :: (putLength n).1 ++ rest = natBits 1 1 ++ ((putLength n).1 ++ rest) := rfl
    rw [e, getFewBits_natBits 1 1 _ (by omega)]
    simp only
    rw [if_neg (by decide), getLength_putLength_small n rest h]

/-- C01 (finding F64 repaired): `uper_get_nslength` inverts `uper_put_nslength` for every length the writer
    accepts (`1 ≤ n < 16384`), whatever follows on the wire -/
theorem getNslength_putNslength (n : Nat) (rest : Bits) (h1 : 1 ≤ n) (h : n < 16384) :
    (putNslength n).bind (fun b => getNslength (b ++ rest)) = some (n, rest) := by
  rw [putNslength_eq_spec n h1 h]
  simp only [Option.bind_some]
  exact getNslength_spec n rest h1 h

/-- the former F64 witness: 65 is now written as `1 01000001` (X.691 §10.9.3.4) and read back as 65
    (the unrepaired code wrote `01000001`, read back as 33) -/
theorem putNslength_65_repaired :
    putNslength 65 = some [true, false, true, false, false, false, false, false, true] ∧
    Spec.Per.normallySmallLength 65 = [true, false, true, false, false, false, false, false, true] ∧
    getNslength [true, false, true, false, false, false, false, false, true] = some (65, []) := by
  decide

theorem getNslength_in_bounds (bs r : Bits) (v : Nat) (h : getNslength bs = some (v, r)) : r <:+ bs :=
  getNslength_suffix h

/-! ## per_support.c: constrained whole numbers (X.691 §10.5) -/

/-- C02: `uper_put_constrained_whole_number_u(v, nbits)` writes the `nbits`-bit non-negative-binary-integer
    of `v` for every width (the 31-bit split of values wider than 31 bits is invisible on the wire) -/
theorem putCwnU_spec (v nbits : Nat) : putCwnU v nbits = some (Spec.Per.nnbi nbits v) :=
  putCwnU_eq v nbits

/-- C01: `uper_get_constrained_whole_number` inverts `uper_put_constrained_whole_number_u` for every
    width up to 64 bits, including the 31/32-bit split and the 62/63-bit double split -/
theorem getCwn_putCwnU (nbits v : Nat) (rest : Bits) (hn : nbits ≤ 64) (hv : v < 2 ^ nbits) :
    (putCwnU v nbits).bind (fun b => getCwn nbits (b ++ rest)) = some (v, rest) := by
  rw [putCwnU_eq]
  simp only [Option.bind_some]
  rw [getCwn_natBits nbits v rest hn, Nat.mod_eq_of_lt hv]

/-- the reader refuses more than 64 bits -/
theorem getCwn_wide (nbits : Nat) (bs : Bits) (h : 64 < nbits) : getCwn nbits bs = none := by
  rw [getCwn, if_neg (by omega), if_pos h]

/-- C04: a successful `uper_get_constrained_whole_number` consumed exactly `nbits ≤ 64` bits of the input -/
theorem getCwn_in_bounds (nbits : Nat) (bs r : Bits) (v : Nat) (h : getCwn nbits bs = some (v, r)) :
    nbits ≤ 64 ∧ v < 2 ^ nbits ∧ bs = Spec.Per.nnbi nbits v ++ r :=
  getCwn_some h

/-- C02: the constrained INTEGER path `per_long_range_rebase` + `uper_put_constrained_whole_number_u` with
    `range_bits` = the X.691 §10.5.7.1 width of the range emits exactly X.691 §10.5.6, on the full `long` range -/
theorem rebase_putCwnU_eq_spec (v lb ub : Int) (hl : isLong lb) (hu : isLong ub) (h1 : lb ≤ v) (h2 : v ≤ ub) :
    (rebase v lb ub).bind (fun u => putCwnU u (Spec.Per.bitWidth (ub - lb + 1).toNat))
      = some (Spec.Per.constrainedWholeNumber lb ub v) := by
  rw [rebase_eq v lb ub hl hu h1 h2]
  simp only [Option.bind_some]
  rw [putCwnU_eq]
  rfl

/-- the value always fits the X.691 width: `v - lb < 2 ^ bitWidth (ub - lb + 1)` -/
theorem lt_two_pow_bitWidth (r x : Nat) (h : x < r) : x < 2 ^ Spec.Per.bitWidth r := by
  unfold Spec.Per.bitWidth
  split
  · omega
  · rename_i hr
    have := Nat.lt_log2_self (n := r - 1)
    omega

/-- C01: constrained INTEGER round trip through rebase / put / get / unrebase, on the full `long` range
    (`lb = LONG_MIN`, `ub = LONG_MAX` included: 64 bits, split 31 + 31 + 2) -/
theorem constrained_roundtrip (v lb ub : Int) (rest : Bits) (hl : isLong lb) (hu : isLong ub) (h1 : lb ≤ v) (h2 : v ≤ ub) :
    ((rebase v lb ub).bind (fun u => putCwnU u (Spec.Per.bitWidth (ub - lb + 1).toNat))).bind
      (fun b => (getCwn (Spec.Per.bitWidth (ub - lb + 1).toNat) (b ++ rest)).bind
        (fun p => (unrebase p.1 lb ub).map (fun x => (x, p.2)))) = some (v, rest) := by
  have hw : Spec.Per.bitWidth (ub - lb + 1).toNat ≤ 64 := by
    unfold isLong longMin longMax at hl hu
    unfold Spec.Per.bitWidth
    split
    · omega
    · have : (ub - lb + 1).toNat - 1 < 2 ^ 64 := by omega
      have := (Nat.log2_lt (by omega)).2 this
      omega
  have hx : (v - lb).toNat < 2 ^ Spec.Per.bitWidth (ub - lb + 1).toNat :=
    lt_two_pow_bitWidth _ _ (by omega)
  rw [rebase_eq v lb ub hl hu h1 h2]
  simp only [Option.bind_some]
  rw [putCwnU_eq]
  simp only [Option.bind_some]
  rw [getCwn_natBits _ _ _ hw, Nat.mod_eq_of_lt hx]
  simp only [Option.bind_some]
  rw [unrebase_eq _ lb ub hl hu (by omega), if_pos (by omega)]
  simp only [Option.map_some]
  congr 2
  omega

/-- `per_long_range_rebase` is `v - lb` exactly on `lb ≤ v ≤ ub`, an error elsewhere -/
theorem rebase_spec (v lb ub : Int) (hl : isLong lb) (hu : isLong ub) :
    rebase v lb ub = if lb ≤ v ∧ v ≤ ub then some (v - lb).toNat else none := by
  by_cases c : lb ≤ v ∧ v ≤ ub
  · rw [if_pos c, rebase_eq v lb ub hl hu c.1 c.2]
  · rw [if_neg c, rebase_out_of_range]; omega

/-- `per_long_range_unrebase` is `inp + lb` exactly when `inp ≤ ub - lb` (values that fit the bit field but
    exceed the range are rejected), on the full `long` range -/
theorem unrebase_spec (inp : Nat) (lb ub : Int) (hl : isLong lb) (hu : isLong ub) (h : lb ≤ ub) :
    unrebase inp lb ub = if (inp : Int) ≤ ub - lb then some (inp + lb) else none :=
  unrebase_eq inp lb ub hl hu h

/-- rebase and unrebase are mutually inverse -/
theorem unrebase_rebase (v lb ub : Int) (hl : isLong lb) (hu : isLong ub) (h1 : lb ≤ v) (h2 : v ≤ ub) :
    (rebase v lb ub).bind (fun u => unrebase u lb ub) = some v := by
  rw [rebase_eq v lb ub hl hu h1 h2]
  simp only [Option.bind_some]
  rw [unrebase_eq _ lb ub hl hu (by omega), if_pos (by omega)]
  congr 1; omega

/-! ## oer_support.c: length determinant (X.696 §8.6) -/

/-- C02: `oer_serialize_length` emits the canonical X.696 §8.6 length determinant for every `size_t` -/
theorem oer_serialize_length_eq_spec (n : Nat) (h : n < 2 ^ 64) : serializeLength n = Spec.Oer.length n :=
  serializeLength_eq_spec n h

/-- C01: `oer_fetch_length` inverts `oer_serialize_length` (every length up to `RSIZE_MAX`), whatever follows -/
theorem oer_fetch_serialize (n : Nat) (rest : Bytes) (hn : n ≤ 2 ^ 63 - 1) :
    fetchLength (serializeLength n ++ rest) = .ok n (serializeLength n).length :=
  fetchLength_serialize n rest hn

/-- C04: on an arbitrary octet string `oer_fetch_length` returns ok / more / fail, never reads outside the
    `size` octets it was given, and never reports more octets consumed than available -/
theorem oer_fetch_length_in_bounds (buf : Bytes) :
    fetchLength buf ≠ .oob ∧ ∀ len used, fetchLength buf = .ok len used → 1 ≤ used ∧ used ≤ buf.length :=
  ⟨fetchLength_no_oob buf, fun len used h => fetchLength_used_le buf len used h⟩

/-! ## INTEGER_oer.c: the integer width logic (X.696 §10), `(width, positive)` as emitted by the compiler -/

/-- C02: signed shapes.  `width = 0`: length determinant + minimal two's complement octets (§10.4 b);
    `width ∈ {1,2,4,8}`: exactly `width` octets of two's complement (§10.3), or failure when the value does not fit -/
theorem INTEGER_encode_oer_signed (width : Nat) (st : Bytes) (h : st.wf) (hne : st ≠ []) (hlen : st.length < 2 ^ 64) :
    (width = 0 → ∃ out, intEncodeOer 0 false st = some out ∧ Spec.Oer.IsVarSigned (Spec.twosVal st) out) ∧
    (width ≠ 0 → (Asn1c.Impl.Integer.strip st).length ≤ width →
      ∃ out, intEncodeOer width false st = some out ∧ Spec.Oer.IsFixedSigned width (Spec.twosVal st) out) ∧
    (width ≠ 0 → width < (Asn1c.Impl.Integer.strip st).length → intEncodeOer width false st = none) :=
  intEncodeOer_signed width st h hne hlen

/-- C02: unsigned shapes.  A negative value is refused; `width = 0`: length + minimal unsigned octets (§10.4 a);
    fixed `width`: exactly `width` octets (§10.2), or failure when the value does not fit -/
theorem INTEGER_encode_oer_unsigned (width : Nat) (st : Bytes) (h : st.wf) (hne : st ≠ []) (hlen : st.length < 2 ^ 64) :
    (Spec.twosVal st < 0 → intEncodeOer width true st = none) ∧
    (0 ≤ Spec.twosVal st → width = 0 →
      ∃ out, intEncodeOer 0 true st = some out ∧ Spec.Oer.IsVarUnsigned (Spec.twosVal st) out) ∧
    (0 ≤ Spec.twosVal st → width ≠ 0 → (stripZeros st).length ≤ width →
      ∃ out, intEncodeOer width true st = some out ∧ Spec.Oer.IsFixedUnsigned width (Spec.twosVal st) out) ∧
    (0 ≤ Spec.twosVal st → width ≠ 0 → width < (stripZeros st).length → intEncodeOer width true st = none) :=
  intEncodeOer_unsigned width st h hne hlen

/-- C01: `INTEGER_decode_oer` reads back what `INTEGER_encode_oer` wrote under the same `(width, positive)`:
    exactly the produced octets are consumed, whatever follows, and the INTEGER obtained holds the *canonical
    contents* of the encoded one (`strip st`: X.690 §8.3.2 minimal form, same value) — the fixed-width padding /
    sign extension is not kept (finding F36 repaired), so `INTEGER_compare`, which compares minimal forms, sees
    the same INTEGER as after `asn_long2INTEGER` or a DER decode -/
theorem INTEGER_oer_roundtrip (width : Nat) (positive : Bool) (st out rest : Bytes) (h : st.wf)
    (hlen : st.length ≤ 2 ^ 63 - 1) (he : intEncodeOer width positive st = some out) :
    intDecodeOer width positive (out ++ rest) = .ok (Asn1c.Impl.Integer.strip st) out.length ∧
    Spec.MinimalTwos (Asn1c.Impl.Integer.strip st) ∧
    Spec.twosVal (Asn1c.Impl.Integer.strip st) = Spec.twosVal st := by
  obtain ⟨c, hd, hw, hne, hm, hv⟩ := intDecodeOer_intEncodeOer width positive st out rest h hlen he
  have hst : st ≠ [] := by intro e; rw [e] at he; simp [intEncodeOer] at he
  have : c = Asn1c.Impl.Integer.strip st :=
    Asn1c.Proofs.Native.minimal_unique c _ hw (Asn1c.Proofs.Integer.strip_wf st h) hne
      (Asn1c.Proofs.Integer.strip_ne_nil st hst) hm (Asn1c.Proofs.Integer.strip_minimal st)
      (by rw [hv, Asn1c.Proofs.Integer.strip_val st h])
  rw [this] at hd
  exact ⟨hd, Asn1c.Proofs.Integer.strip_minimal st, Asn1c.Proofs.Integer.strip_val st h⟩

/-- C01 (F36 repaired): whatever octets `INTEGER_decode_oer` accepts, canonical or not, the contents it stores are
    non-empty octets in the minimal form of X.690 §8.3.2 -/
theorem INTEGER_decode_oer_minimal (width : Nat) (positive : Bool) (buf c : Bytes) (used : Nat) (hb : buf.wf)
    (h : intDecodeOer width positive buf = .ok c used) : c ≠ [] ∧ Spec.MinimalTwos c ∧ c.wf :=
  intDecodeOer_minimal width positive buf c used hb h

/-- the former F36 witness: `INTEGER (-2147483648..4294967294)` (8 octets, signed) holding -2147483648 is stored as
    `80000000`, the contents `asn_long2INTEGER` produces, and `INTEGER_compare` answers 0 -/
theorem INTEGER_decode_oer_F36_witness :
    intDecodeOer 8 false [0xff, 0xff, 0xff, 0xff, 0x80, 0x00, 0x00, 0x00] = .ok [0x80, 0x00, 0x00, 0x00] 8 ∧
    Asn1c.Impl.Integer.compare [0x80, 0x00, 0x00, 0x00] (Asn1c.Impl.Integer.imax2INTEGER (-2147483648)) = some 0 :=
  intDecodeOer_F36_witness

/-- C04: `INTEGER_decode_oer` never reads outside its input, for every constraint and every octet string
    (finding F5 repaired: the zero length determinant of a variable-size integer is rejected before the `msb`
    probe of `ptr[0]`) -/
theorem INTEGER_decode_oer_no_oob (width : Nat) (positive : Bool) (buf : Bytes) :
    intDecodeOer width positive buf ≠ .oob :=
  intDecodeOer_no_oob width positive buf

/-- the former F5 witness, `INTEGER (0..MAX)` with OER input `00`, is rejected -/
theorem INTEGER_decode_oer_zero_length_fails : intDecodeOer 0 true [0x00] = .fail :=
  intDecodeOer_zero_length_fails

end Asn1c.Props.L1Per
