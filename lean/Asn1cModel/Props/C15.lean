import Asn1cModel.Impl.StackGuard
import Asn1cModel.Proofs.StackGuard
/-
  C15 — "Decoding uses bounded stack and heap proportional to the input."

  Level: partial.  The theorems are about `Impl.StackGuard` (a model of the recursion skeleton with
  `ASN__STACK_OVERFLOW_CHECK`, and of the decoders that allocate from length prefixes).  Frame sizes are
  decided by the C compiler and are *parameters* here (every theorem quantifies over them); that the real
  frames are constant per nesting level and that the real allocations are the modelled ones is observed
  on every run by `vlib/props/c15.py` (K leg), which also evaluates the property directly on C (P leg).

  Part A  which decoders check (regenerated table)              — `decide` over the whole table, no exceptions
  Part B  stack: bounded depth, deep input fails, never overflows — for every syntax; the former F13 witness
  Part C  heap: length checked before allocation
  Part D  heap: collections, zero-width guard, counter-example without the guard
  Part E  heap: UPER strings — SIZE constraint (fixed: allocated up front; variable: what the length says), fragments,
          zero-width characters
  Part F  heap: BER OCTET STRING buffer growth and heap-allocated nesting stack
-/
namespace Asn1c.Props.C15
open Asn1c Asn1c.Impl.StackGuard Asn1c.Impl.BerTlv Asn1c.Proofs.StackGuard
open Asn1c.Generated.StackGuard

/-! ## Part A — the guard inventory of the current source tree -/

/-- **Every constructed decoder entry is guarded, in every syntax.**  Each row of the regenerated table that is
    an entry point of a constructed type — `SEQUENCE/SET/SET_OF/CHOICE_decode_{ber,uper,oer,xer}`, whichever of
    them exist in the source tree — performs an effective `if(ASN__STACK_OVERFLOW_CHECK(..))` on entry (the BER
    ones through `ber_check_tags`).  No exception list: finding F13 (XER constructed decoders and
    `CHOICE_decode_oer` unguarded) is repaired.  Removing the check from any of them, or adding a constructed
    decoder without it, breaks this theorem at build time. -/
theorem all_constructed_decoders_guarded :
    ∀ d ∈ constructedDecoders, isGuarded d = true := by
  decide +kernel

/-- the table has all four syntaxes: 14 constructed entry points (no SET decoder for UPER / OER exists), each
    of them a row of `guardedDecoders` -/
theorem constructed_decoders_inventory :
    constructedDecoders.length = 14 ∧
    (∀ d ∈ constructedDecoders, (guardedDecoders.map (·.1)).contains d = true) := by
  decide +kernel

/-- Every decoder through which a recursive type recurses — BER (through `ber_check_tags`), UPER, OER and XER,
    plus `ber_skip_length` — performs an effective `if(ASN__STACK_OVERFLOW_CHECK(..))`; every constructed entry
    point of the table is in this list. -/
theorem all_recursing_decoders_guarded :
    (∀ d ∈ recursingDecoders, isGuarded d = true) ∧
    (∀ d ∈ constructedDecoders, d ∈ recursingDecoders) := by
  decide +kernel

/-- no decoder calls the check and throws its verdict away (before the repair: the two open-type readers of
    per_opentype.c), and those two now test it -/
theorem no_discarded_checks :
    discardedChecks = [] ∧ (∀ d ∈ formerlyDiscarding, isGuarded d = true) := by
  decide +kernel

/-- the guarded ones, spelled out -/
theorem guarded_decoders_spelled_out :
    isGuarded "SEQUENCE_decode_ber" = true ∧ isGuarded "SET_decode_ber" = true ∧
    isGuarded "CHOICE_decode_ber" = true ∧ isGuarded "SET_OF_decode_ber" = true ∧
    isGuarded "ber_skip_length" = true ∧ isGuarded "ber_check_tags" = true ∧
    isGuarded "SEQUENCE_decode_uper" = true ∧ isGuarded "CHOICE_decode_uper" = true ∧
    isGuarded "SET_OF_decode_uper" = true ∧
    isGuarded "SEQUENCE_decode_oer" = true ∧ isGuarded "CHOICE_decode_oer" = true ∧
    isGuarded "SET_OF_decode_oer" = true ∧
    isGuarded "SEQUENCE_decode_xer" = true ∧ isGuarded "SET_decode_xer" = true ∧
    isGuarded "CHOICE_decode_xer" = true ∧ isGuarded "SET_OF_decode_xer" = true := by
  decide +kernel

/-- the check is what Part B models, a non-zero default limit exists and every top-level wrapper
    (`ber_decode`, `uper_decode`, `oer_decode`, `xer_decode`) installs it when the caller passes no context;
    the default leaves 7 MiB of an 8 MiB stack for the deepest frame -/
theorem default_limit_installed :
    checkComparesUsedWithMax = true ∧
    (∃ m, defaultStackMax = some m ∧ 0 < m ∧ m + 7 * 2 ^ 20 ≤ 8 * 2 ^ 20) ∧
    installsDefaultLimit.all (·.2) = true ∧ installsDefaultLimit.length = 4 := by
  refine ⟨by decide, ⟨30000, by decide, by decide, by decide⟩, by decide, by decide⟩

/-! ## Part B — stack -/

/-- **depth_bounded.**  A guarded recursion with a limit `max ≠ 0` and frames of at least `δ ≥ 1` bytes
    starts at most `max/δ + 1` nested decoder invocations (the last one being the one whose check fails),
    whatever nesting the input asks for. -/
theorem depth_bounded (max phys δ depth : Nat) (hmax : max ≠ 0) (hδ : 1 ≤ δ) :
    maxReachedDepth true max phys δ depth ≤ max / δ + 1 := by
  have h := nestL_started_le max phys δ hmax (List.replicate depth δ) 0
    (by intro f hf; rw [List.eq_of_mem_replicate hf]; exact Nat.le_refl _) (Nat.zero_le _)
  unfold maxReachedDepth decodeNest
  generalize (nestL true max phys 0 (List.replicate depth δ)).2 = r at h ⊢
  simp only [Nat.sub_zero] at h
  have h2 : (r - 1) * δ ≤ max := by
    cases r with
    | zero => simp
    | succ k => simp only [Nat.add_sub_cancel]; rw [Nat.add_mul, Nat.one_mul] at h; omega
  have := (Nat.le_div_iff_mul_le (by omega : 0 < δ)).2 h2
  omega

/-- the same for frames of varying size, each at least `δ` -/
theorem depth_bounded_frames (max phys δ : Nat) (frames : List Nat) (hmax : max ≠ 0) (hδ : 1 ≤ δ)
    (hf : ∀ f ∈ frames, δ ≤ f) : (nestL true max phys 0 frames).2 ≤ max / δ + 1 := by
  have h := nestL_started_le max phys δ hmax frames 0 hf (Nat.zero_le _)
  generalize (nestL true max phys 0 frames).2 = r at h ⊢
  simp only [Nat.sub_zero] at h
  have h2 : (r - 1) * δ ≤ max := by
    cases r with
    | zero => simp
    | succ k => simp only [Nat.add_sub_cancel]; rw [Nat.add_mul, Nat.one_mul] at h; omega
  have := (Nat.le_div_iff_mul_le (by omega : 0 < δ)).2 h2
  omega

/-- **deep_input_fails.**  If the limit leaves room for one more frame below the real stack size
    (`max + δ ≤ phys`), an input nested deeper than `max/δ` is answered with `fail` — not with `ok`, and
    never with a stack overflow. -/
theorem deep_input_fails (max phys δ depth : Nat) (hmax : max ≠ 0) (hδ : 1 ≤ δ)
    (hphys : max + δ ≤ phys) (hdeep : depth > max / δ) :
    (decodeNest true max phys δ depth).1 = .fail := by
  apply nestL_fails max phys δ δ hmax hphys (List.replicate depth δ) 0
  · intro f hf; rw [List.eq_of_mem_replicate hf]; exact ⟨Nat.le_refl _, Nat.le_refl _⟩
  · exact Nat.zero_le _
  · rw [List.length_replicate]
    have := (Nat.div_lt_iff_lt_mul (by omega : 0 < δ)).1 hdeep
    omega

/-- varying frames between `δ` and `Δ` -/
theorem deep_input_fails_frames (max phys δ Δ : Nat) (frames : List Nat) (hmax : max ≠ 0) (hδ : 1 ≤ δ)
    (hphys : max + Δ ≤ phys) (hf : ∀ f ∈ frames, δ ≤ f ∧ f ≤ Δ) (hdeep : frames.length > max / δ) :
    (nestL true max phys 0 frames).1 = .fail := by
  apply nestL_fails max phys δ Δ hmax hphys frames 0 hf (Nat.zero_le _)
  have := (Nat.div_lt_iff_lt_mul (by omega : 0 < δ)).1 hdeep
  omega

/-- a guarded recursion never exhausts the stack, at any depth -/
theorem guarded_never_overflows (max phys Δ : Nat) (frames : List Nat) (hmax : max ≠ 0)
    (hphys : max + Δ ≤ phys) (hf : ∀ f ∈ frames, f ≤ Δ) :
    (nestL true max phys 0 frames).1 ≠ .overflow :=
  nestL_never_overflows max phys Δ hmax hphys frames 0 hf (Nat.zero_le _)

/-- the hypotheses are satisfiable with the real numbers: default limit, 8 MiB stack, 256-byte frames -/
example : (decodeNest true 30000 (8 * 2 ^ 20) 256 100000).1 = .fail :=
  deep_input_fails 30000 (8 * 2 ^ 20) 256 100000 (by decide) (by decide) (by decide) (by decide)

/-- **Why the check is needed** (the mutant without it; also a caller who sets `max_stack_size = 0`, which the
    property excludes): such a decoder follows the input to any depth, and as soon as `depth·δ` exceeds the real
    stack the outcome is `overflow`.  This was finding F13 for the XER constructed decoders and `CHOICE_decode_oer`. -/
theorem unguarded_overflows (g : Bool) (max phys δ depth : Nat) (hg : g = false ∨ max = 0)
    (hdeep : depth * δ > phys) : (decodeNest g max phys δ depth).1 = .overflow := by
  apply nestL_unchecked_overflows g max phys δ hg (List.replicate depth δ) 0
  · intro f hf; rw [List.eq_of_mem_replicate hf]; exact Nat.le_refl _
  · exact Nat.zero_le _
  · rw [List.length_replicate]; omega

/-- **Deep input fails in every syntax.**  For every decoder `d` through which a type can recurse — any
    constructed kind, BER / UPER / OER / XER — with the guard status *read from the source table*: a limit
    `max ≠ 0` that leaves room for one more frame below the real stack, frames of `δ ≥ 1` bytes, input nested
    deeper than `max/δ` ⇒ the verdict is `fail`; and at no depth is it `overflow`. -/
theorem every_recursing_decoder_deep_input_fails (d : String) (hd : d ∈ recursingDecoders)
    (max phys δ depth : Nat) (hmax : max ≠ 0) (hδ : 1 ≤ δ) (hphys : max + δ ≤ phys) :
    (depth > max / δ → (decodeNest (isGuarded d) max phys δ depth).1 = .fail) ∧
    (decodeNest (isGuarded d) max phys δ depth).1 ≠ .overflow := by
  rw [all_recursing_decoders_guarded.1 d hd]
  refine ⟨fun hdeep => deep_input_fails max phys δ depth hmax hδ hphys hdeep, ?_⟩
  apply guarded_never_overflows max phys δ (List.replicate depth δ) hmax hphys
  intro f hf; rw [List.eq_of_mem_replicate hf]; exact Nat.le_refl _

/-- the same for every constructed entry point of the regenerated table -/
theorem every_constructed_decoder_deep_input_fails (d : String) (hd : d ∈ constructedDecoders)
    (max phys δ depth : Nat) (hmax : max ≠ 0) (hδ : 1 ≤ δ) (hphys : max + δ ≤ phys) :
    (depth > max / δ → (decodeNest (isGuarded d) max phys δ depth).1 = .fail) ∧
    (decodeNest (isGuarded d) max phys δ depth).1 ≠ .overflow :=
  every_recursing_decoder_deep_input_fails d (all_recursing_decoders_guarded.2 d hd) max phys δ depth hmax hδ hphys

/-- **F13 repaired — the former witness.**  The decoders of the former exception list are guarded, and the
    former counter-example (XER / OER-CHOICE nesting 10^5, default limit 30000, 8 MiB stack, 96-byte frames:
    `overflow` while the check was missing) now ends in `fail` for each of them. -/
theorem f13_former_witness_fails :
    ∀ d ∈ formerlyUnguarded, isGuarded d = true ∧
      (decodeNest (isGuarded d) 30000 (8 * 2 ^ 20) 96 100000).1 = .fail := by
  intro d hd
  have hg : isGuarded d = true := by revert d; decide +kernel
  refine ⟨hg, ?_⟩
  rw [hg]
  exact deep_input_fails 30000 (8 * 2 ^ 20) 96 100000 (by decide) (by decide) (by decide) (by decide)

/-- what the same input did before the repair (check absent): `overflow` — the guard is the only difference -/
theorem f13_former_witness_unguarded_overflowed : (decodeNest false 30000 (8 * 2 ^ 20) 96 100000).1 = .overflow :=
  unguarded_overflows false 30000 (8 * 2 ^ 20) 96 100000 (Or.inl rfl) (by decide)

/-! ## Part C — a length prefix is compared with the input before it sizes an allocation -/

/-- **length_checked_before_alloc** (`ber_decode_primitive`): the buffer request is at most the remaining
    input + 1, for every input. -/
theorem length_checked_before_alloc (tag : Tag) (bs : Bytes) (r : Nat)
    (h : (berPrimitive true tag bs).bufReq = some r) :
    r ≤ bs.length + 1 ∧ (berPrimitive true tag bs).rc = .ok := by
  unfold berPrimitive at h ⊢
  generalize isConstructed (bs.headD 0) = cb at h ⊢
  cases hft : fetchTag bs with
  | more => rw [hft] at h; simp at h
  | fail => rw [hft] at h; simp at h
  | ok t tl =>
    rw [hft] at h
    simp only at h ⊢
    by_cases h1 : t ≠ tag
    · rw [if_pos h1] at h; simp at h
    · rw [if_neg h1] at h ⊢
      cases cb with
      | true => rw [if_pos rfl] at h; simp at h
      | false =>
        rw [if_neg (by simp)] at h ⊢
        cases hfl : fetchLength false (bs.drop tl) with
        | more => rw [hfl] at h; simp at h
        | fail => rw [hfl] at h; simp at h
        | ok len ll =>
          rw [hfl] at h
          simp only [Bool.true_and, decide_eq_true_eq] at h ⊢
          by_cases h3 : len.toNat > bs.length - (tl + ll)
          · rw [if_pos h3] at h; simp at h
          · rw [if_neg h3] at h ⊢
            by_cases h4 : len.toNat ≥ 2 ^ 31
            · rw [if_pos h4] at h; simp at h
            · rw [if_neg h4] at h ⊢
              simp only [Option.some.injEq] at h
              exact ⟨by omega, rfl⟩

/-- whole-ledger form: the decode holds at most `bs.length + 17` bytes -/
theorem ber_primitive_heap_le_input (tag : Tag) (bs : Bytes) :
    (berPrimitive true tag bs).heap.peak ≤ bs.length + 17 := by
  have hs : (berPrimitive true tag bs).structReq = 16 := by
    unfold berPrimitive
    cases fetchTag bs with
    | more => rfl
    | fail => rfl
    | ok t tl =>
      simp only
      split
      · rfl
      · split
        · rfl
        · cases fetchLength false (bs.drop tl) with
          | more => rfl
          | fail => rfl
          | ok len ll =>
            simp only
            split
            · rfl
            · split <;> rfl
  cases hb : (berPrimitive true tag bs).bufReq with
  | none => simp [PrimResult.heap, hb, hs, Heap.alloc]
  | some r =>
    have := (length_checked_before_alloc tag bs r hb).1
    simp [PrimResult.heap, hb, hs, Heap.alloc]
    omega

/-- counter-example for the mutant without the test: six octets make it ask for 2 GiB -/
theorem length_unchecked_cex :
    (berPrimitive false ⟨0, 6⟩ [0x06, 0x84, 0x7f, 0xff, 0xff, 0xff]).bufReq = some (2 ^ 31) := by
  decide

/-- `OCTET_STRING_decode_oer`: the request is at most the input + 1 -/
theorem os_oer_length_checked (ssz : Nat) (ct : Option Nat) (unit : Nat) (bs : Bytes) (r : Nat)
    (h : (osOer ssz ct unit bs).bufReq = some r) : r ≤ bs.length + 1 := by
  unfold osOer at h
  cases ct with
  | some n =>
    simp only at h
    split at h
    · simp at h
    · simp only [Option.some.injEq] at h; omega
  | none =>
    simp only at h
    cases hf : oerFetchLength bs with
    | more => simp [hf] at h
    | fail => simp [hf] at h
    | ok expected ll =>
      simp only [hf] at h
      split at h
      · simp at h
      · split at h
        · simp at h
        · simp only [Option.some.injEq] at h; omega

/-- the maximal OER length prefix `84 ff ff ff ff` with no data behind it allocates nothing but the structure -/
example : (osOer 40 none 1 [0x84, 0xff, 0xff, 0xff, 0xff]).heap.peak = 40 := by decide

/-- every allocation site of the skeletons that is sized by a length prefix of the input compares the
    length with the remaining input first (translator: regex over the eight function bodies), and the
    length fetchers cap their result at RSSIZE_MAX / RSIZE_MAX as modelled -/
theorem all_length_allocs_checked :
    lengthCheckedSites.all (·.2) = true ∧ lengthCheckedSites.length = 8 ∧
    berLengthLimitedByRssizeMax = true ∧ rssizeMax = some (2 ^ 62 - 1) ∧
    oerLengthLimitedByRsizeMax = true ∧ rsizeMax = some (2 ^ 63 - 1) := by
  decide

/-! ## Part D — collections: heap linear in the input, the zero-width guard -/

/-- the guards are in the source, with the modelled limits -/
theorem zero_width_guard_present :
    zeroWidthLimitUper = some 200 ∧ zeroWidthLimitOer = some 200 := by decide

/-- **zero_width_guard (UPER).**  Elements that consume no bits (NULL, empty SEQUENCE …): whatever counts
    the length determinants announce — 64K·k, fragmented, from a SIZE constraint — at most `max lim 1`
    elements are ever allocated. -/
theorem zero_width_guard (c : SetOfCfg) (lim : Nat) (ct : Option (Nat × Nat)) (bits : Bits)
    (hw : c.w = 0) (hl : c.limit = some lim) (hlim : lim < 16384) :
    (setOfUper c ct bits).2.2.cnt ≤ max lim 1 := by
  unfold setOfUper
  cases ct with
  | none =>
    have := roundsUper_cnt_zero c lim hw hl hlim (bits.length + 1) none bits
      { h := ({} : Heap).alloc c.ssz }
    simpa using this
  | some p =>
    obtain ⟨eb, lb⟩ := p
    simp only
    cases hg : getBits eb bits with
    | none => simp
    | some q =>
      obtain ⟨v, r⟩ := q
      have := roundsUper_cnt_zero c lim hw hl hlim (r.length + 1) (some (v + lb)) r
        { h := ({} : Heap).alloc c.ssz }
      simpa using this

/-- **heap_linear (UPER SET OF / SEQUENCE OF).**  With the guard in place — it compares the stream position
    before and after the element, so nothing is assumed about what the element decoder reports (the former
    hypothesis `c.w = 0 → c.rep0 = true` is gone with the repair of F47) — the peak heap of the decode is at most
    `K·n + F` with `K = esz + 16` per input *bit* and `F = ssz + (esz+16)·max lim 1 + 32 + esz`. -/
theorem heap_linear (c : SetOfCfg) (lim : Nat) (ct : Option (Nat × Nat)) (bits : Bits)
    (hl : c.limit = some lim) (hlim : lim < 16384) :
    (setOfUper c ct bits).2.2.h.peak ≤
      (c.esz + 16) * bits.length + (c.ssz + (c.esz + 16) * max lim 1 + 32 + c.esz) := by
  -- invariant: peak ≤ ssz + cnt·esz + 16·cnt + 32 + esz
  have hinv : Inv c (setOfUper c ct bits).2.2 := by
    unfold setOfUper
    cases ct with
    | none => exact roundsUper_inv c _ _ _ _ (inv_init c)
    | some p =>
      obtain ⟨eb, lb⟩ := p
      simp only
      cases getBits eb bits with
      | none => exact inv_init c
      | some q => exact roundsUper_inv c _ _ _ _ (inv_init c)
  -- count: cnt ≤ bits.length + max lim 1
  have hcnt : (setOfUper c ct bits).2.2.cnt ≤ bits.length + max lim 1 := by
    by_cases hw : c.w = 0
    · have := zero_width_guard c lim ct bits hw hl hlim; omega
    · have hw1 : 1 ≤ c.w := by omega
      have hwide : (setOfUper c ct bits).2.2.cnt * c.w ≤ bits.length := by
        unfold setOfUper
        cases ct with
        | none =>
          have := roundsUper_cnt_wide c (bits.length + 1) none bits { h := ({} : Heap).alloc c.ssz }
          simp only [Nat.zero_mul, Nat.zero_add] at this ⊢; omega
        | some p =>
          obtain ⟨eb, lb⟩ := p
          simp only
          cases hg : getBits eb bits with
          | none => simp
          | some q =>
            obtain ⟨v, r⟩ := q
            have h1 := roundsUper_cnt_wide c (r.length + 1) (some (v + lb)) r { h := ({} : Heap).alloc c.ssz }
            have h2 := getBits_len hg
            simp only [Nat.zero_mul, Nat.zero_add] at h1 ⊢; omega
      have : (setOfUper c ct bits).2.2.cnt * 1 ≤ (setOfUper c ct bits).2.2.cnt * c.w :=
        Nat.mul_le_mul_left _ hw1
      omega
  have hp := hinv.peak
  generalize (setOfUper c ct bits).2.2.cnt = n at hcnt hp
  generalize (setOfUper c ct bits).2.2.h.peak = p at hp ⊢
  have h1 : n * c.esz + 16 * n = (c.esz + 16) * n := by rw [Nat.add_mul, Nat.mul_comm n]
  have h2 : (c.esz + 16) * n ≤ (c.esz + 16) * (bits.length + max lim 1) := Nat.mul_le_mul_left _ hcnt
  rw [Nat.mul_add] at h2
  omega

/-- **The guard refuses zero-width elements only (finding F47 repaired).**  Elements that take bits
    (`c.w > 0`: constrained INTEGER, ENUMERATED, BOOLEAN, SEQUENCE …): whatever the element decoder reports in
    `rv.consumed`, any announced count `n` — above the limit of the guard too — whose elements are in the input
    is decoded: `n` elements, RC_OK, the bits behind them left. -/
theorem wide_elements_not_refused (c : SetOfCfg) (bits rest : Bits) (n : Nat) (hw : 0 < c.w)
    (hlen : uperGetLength none 0 bits = some (n, false, rest)) (hbits : n * c.w ≤ rest.length) :
    (setOfUper c none bits).1 = .ok ∧ (setOfUper c none bits).2.2.cnt = n ∧
    (setOfUper c none bits).2.1 = rest.drop (n * c.w) := by
  obtain ⟨h1, h2, h3⟩ := elemsUper_wide_ok c n hw n rest { h := ({} : Heap).alloc c.ssz } hbits
  unfold setOfUper
  simp only [roundsUper_step, hlen]
  generalize elemsUper c n n rest { h := ({} : Heap).alloc c.ssz } = r at h1 h2 h3
  obtain ⟨o, b, s⟩ := r
  simp only at h1 h2 h3
  subst h1
  simp only [Bool.false_eq_true, if_false]
  exact ⟨trivial, by simpa using h2, h3⟩

/-- the former F47 witness: `SEQUENCE OF INTEGER (0..7)`, 201 elements of 3 bits (`80 c9`, then 603 bits).  The
    element decoder reports `rv.consumed = 0` (`rep0 = true`); before the repair the guard answered RC_FAIL. -/
theorem former_F47_witness_decodes (ssz esz : Nat) :
    (setOfUper ⟨ssz, esz, 3, true, zeroWidthLimitUper⟩ none
      (bytesToBits ([0x80, 0xc9] ++ List.replicate 76 0xb6))).1 = .ok ∧
    (setOfUper ⟨ssz, esz, 3, true, zeroWidthLimitUper⟩ none
      (bytesToBits ([0x80, 0xc9] ++ List.replicate 76 0xb6))).2.2.cnt = 201 := by
  have h := wide_elements_not_refused ⟨ssz, esz, 3, true, zeroWidthLimitUper⟩
    (bytesToBits ([0x80, 0xc9] ++ List.replicate 76 0xb6)) (bytesToBits (List.replicate 76 0xb6)) 201
    (by show 0 < 3; decide) (by decide +kernel)
    (by show 201 * 3 ≤ (bytesToBits (List.replicate 76 0xb6)).length; decide +kernel)
  exact ⟨h.1, h.2.1⟩

/-- the real configuration: SET OF NULL (48-byte set structure, 4-byte elements), limit from the source.
    Peak ≤ 20 bytes per input bit + 4084, for every input. -/
theorem heap_linear_set_of_null (ct : Option (Nat × Nat)) (bits : Bits) :
    (setOfUper ⟨48, 4, 0, true, zeroWidthLimitUper⟩ ct bits).2.2.h.peak ≤ 20 * bits.length + 4084 := by
  have := heap_linear ⟨48, 4, 0, true, zeroWidthLimitUper⟩ 200 ct bits (by decide) (by decide)
  simpa using this

/-- **Counter-example without the guard**: one octet `c4` (a fragment announcing 64K elements) makes the
    unguarded decoder hold 65536 zero-width elements — for any element size. -/
theorem no_guard_bomb_cex (ssz esz : Nat) :
    65536 * esz ≤ (setOfUper ⟨ssz, esz, 0, true, none⟩ none (bytesToBits [0xc4])).2.2.h.live ∧
    (setOfUper ⟨ssz, esz, 0, true, none⟩ none (bytesToBits [0xc4])).2.2.cnt = 65536 :=
  setOfUper_noguard_fragment ssz esz 65536 (bytesToBits [0xc4]) [] (by decide) (by decide)

/-- with the guard the same octet costs three small allocations -/
example : (setOfUper ⟨48, 4, 0, true, some 200⟩ none (bytesToBits [0xc4])).2.2.h.peak = 84 := by decide

/-- **zero_width_guard (OER)**: the quantity field may say 2^63 − 1, at most `lim + 2` zero-width elements
    are allocated -/
theorem zero_width_guard_oer (c : SetOfCfg) (lim : Nat) (bs : Bytes)
    (hw : c.w = 0) (hr : c.rep0 = true) (hl : c.limit = some lim) :
    (setOfOer c bs).2.2.cnt ≤ lim + 2 := by
  unfold setOfOer
  simp only
  cases oerFetchQuantity bs with
  | more => simp
  | fail => simp
  | ok q used =>
    have := elemsOer_cnt_zero c lim hw hr hl q 0 (bs.drop used) { h := ({} : Heap).alloc c.ssz }
    simp only [Nat.sub_zero, Nat.zero_add] at this ⊢
    refine Nat.le_trans this ?_
    omega

/-- **heap_linear (OER SET OF / SEQUENCE OF)**: `K = esz + 16` per input octet,
    `F = ssz + (esz+16)·(lim+2) + 32 + esz` -/
theorem heap_linear_oer (c : SetOfCfg) (lim : Nat) (bs : Bytes)
    (hz : c.w = 0 → c.rep0 = true) (hl : c.limit = some lim) :
    (setOfOer c bs).2.2.h.peak ≤
      (c.esz + 16) * bs.length + (c.ssz + (c.esz + 16) * (lim + 2) + 32 + c.esz) := by
  have hp : (setOfOer c bs).2.2.h.peak ≤
      c.ssz + (setOfOer c bs).2.2.cnt * c.esz + 16 * (setOfOer c bs).2.2.cnt + 32 + c.esz := by
    unfold setOfOer
    simp only
    cases oerFetchQuantity bs with
    | more => exact (inv_init c).peak
    | fail => exact (inv_init c).peak
    | ok q used => exact elemsOer_peak c _ _ _ _ _ (inv_init c)
  have hcnt : (setOfOer c bs).2.2.cnt ≤ bs.length + (lim + 2) := by
    by_cases hw : c.w = 0
    · have := zero_width_guard_oer c lim bs hw (hz hw) hl; omega
    · have hw1 : 1 ≤ c.w := by omega
      have hwide : (setOfOer c bs).2.2.cnt * c.w ≤ bs.length := by
        unfold setOfOer
        simp only
        cases oerFetchQuantity bs with
        | more => simp
        | fail => simp
        | ok q used =>
          have h1 := elemsOer_cnt_wide c q 0 false (bs.drop used) { h := ({} : Heap).alloc c.ssz }
          simp only [Nat.zero_mul, Nat.zero_add, List.length_drop] at h1 ⊢; omega
      have : (setOfOer c bs).2.2.cnt * 1 ≤ (setOfOer c bs).2.2.cnt * c.w := Nat.mul_le_mul_left _ hw1
      omega
  generalize (setOfOer c bs).2.2.cnt = n at hcnt hp
  generalize (setOfOer c bs).2.2.h.peak = p at hp ⊢
  have h1 : n * c.esz + 16 * n = (c.esz + 16) * n := by rw [Nat.add_mul, Nat.mul_comm n]
  have h2 : (c.esz + 16) * n ≤ (c.esz + 16) * (bs.length + (lim + 2)) := Nat.mul_le_mul_left _ hcnt
  rw [Nat.mul_add] at h2
  omega

/-- quantity 2^32−1 of NULLs behind a five-octet prefix: 202 elements, then `fail` -/
example : (setOfOer ⟨48, 4, 0, true, some 200⟩ [0x04, 0xff, 0xff, 0xff, 0xff]).1 = .fail ∧
    (setOfOer ⟨48, 4, 0, true, some 200⟩ [0x04, 0xff, 0xff, 0xff, 0xff]).2.2.cnt = 202 := by decide +kernel

/-! ## Part E — UPER strings: SIZE preallocation and fragments -/

/-- **fragment_progress** (length determinant): "repeat" comes with a multiple of 16K between 16K and 64K
    items and costs exactly one octet of input. -/
theorem fragment_progress (lb : Nat) (bits : Bits) (n : Nat) (r : Bits)
    (h : uperGetLength none lb bits = some (n, true, r)) :
    16384 ≤ n ∧ n ≤ 65536 ∧ n % 16384 = 0 ∧ r.length + 8 = bits.length :=
  uperGetLength_repeat h

/-- **fragment_progress** (string decoder): all rounds but the last have consumed ≥ 16K units of `u` bits
    each, so `k` rounds need `(k−1)·16384·u` bits of input. -/
theorem os_uper_fragment_progress (ssz bpc u : Nat) (bits : Bits) :
    ((osUper ssz bpc u none bits).rounds - 1) * (16384 * u) ≤ bits.length := by
  have := osUperLoop_rounds bpc u 0 (bits.length + 1) bits (({} : Heap).alloc ssz) none 0 0
  unfold osUper
  simp only [Nat.zero_add] at this ⊢
  omega

/-- **heap_linear (UPER strings without size constraint).**  `S` = content octets backed by input that is
    present (`S·u ≤ bpc·bits`): the peak is at most `ssz + S + 65536·bpc + 1` — one fragment (≤ 64K
    characters) may be announced, and allocated, before its data is there, never more. -/
theorem os_uper_heap_linear (ssz bpc u : Nat) (bits : Bits) :
    ∃ S, S * u ≤ bpc * bits.length ∧
      (osUper ssz bpc u none bits).h.peak ≤ ssz + S + 65536 * bpc + 1 := by
  obtain ⟨S, _, h2, h3⟩ := osUperLoop_heap ssz bpc u none 0 65536
    (fun _ _ _ _ h => uperGetLength_le h) (bits.length + 1) bits (({} : Heap).alloc ssz) none 0 0
    (by simp [Heap.alloc])
  refine ⟨S, ?_, ?_⟩
  · simp only [Nat.zero_mul, Nat.zero_add] at h2; omega
  · unfold osUper
    simp only [Heap.alloc] at h3 ⊢
    omega

/-- OCTET STRING (`u = 8`, `bpc = 1`): peak ≤ ssz + n + 65537 for `n` input octets -/
theorem os_uper_heap_linear_octets (ssz : Nat) (bs : Bytes) :
    (osUper ssz 1 8 none (bytesToBits bs)).h.peak ≤ ssz + bs.length + 65537 := by
  obtain ⟨S, h1, h2⟩ := os_uper_heap_linear ssz 1 8 (bytesToBits bs)
  rw [bytesToBits_length] at h1
  omega

/-- the zero-width character guard is in the source (`if(unit_bits == 0 && repeat) RETURN(RC_FAIL)`) -/
theorem zero_width_char_guard_present : zeroWidthCharGuardUper = true := by decide

/-- **zero_width_guard (UPER strings; F71 repaired).**  Characters that occupy no bits (single-character
    permitted alphabet, `u = 0`), no size constraint: `os_uper_heap_linear` says nothing (`S·0 ≤ …`), but a
    fragment is refused, so at most one unfragmented length (< 16K characters) is ever allocated — whatever
    the input. -/
theorem os_uper_zero_width_bounded (ssz bpc : Nat) (bits : Bits) :
    (osUper ssz bpc 0 none bits).h.peak ≤ ssz + (16383 * bpc + 1) ∧
    (osUper ssz bpc 0 none bits).rounds ≤ 1 := by
  unfold osUper
  simp only
  rw [osUperLoop_step]
  split
  · simp [Heap.alloc]
  · rename_i rawLen rep bits1 hg
    simp only [Option.isSome_none, Bool.false_eq_true, and_false, if_false, true_and, Nat.zero_add,
      Nat.mul_zero, Nat.not_lt_zero]
    cases rep with
    | true => simp [Heap.alloc]
    | false =>
      have hlt := uperGetLength_norepeat_lt hg
      have hm : rawLen * bpc ≤ 16383 * bpc := Nat.mul_le_mul_right _ (by omega)
      simp only [Bool.false_eq_true, if_false, Heap.alloc]
      omega

/-- a fragment of zero-width characters is answered with `fail` before anything is allocated for it -/
theorem os_uper_zero_width_fragment_fails (ssz bpc : Nat) (bits : Bits) (n : Nat) (r : Bits)
    (hg : uperGetLength none 0 bits = some (n, true, r)) :
    (osUper ssz bpc 0 none bits).rc = .fail ∧ (osUper ssz bpc 0 none bits).h.peak = ssz := by
  unfold osUper
  simp only
  rw [osUperLoop_step, hg]
  simp [Heap.alloc]

/-- **F71 repaired — the former witness**: `IA5String (FROM ("a"))`, eight octets `c4` (each announcing 64K
    characters that cost no input; 65536 bytes of heap per octet before the repair): `fail`, only the 40-byte
    structure is held -/
theorem f71_former_witness_fails :
    (osUper 40 1 0 none (bytesToBits [0xc4, 0xc4, 0xc4, 0xc4, 0xc4, 0xc4, 0xc4, 0xc4])).rc = .fail ∧
    (osUper 40 1 0 none (bytesToBits [0xc4, 0xc4, 0xc4, 0xc4, 0xc4, 0xc4, 0xc4, 0xc4])).h.peak = 40 :=
  os_uper_zero_width_fragment_fails 40 1 _ 65536 (bytesToBits [0xc4, 0xc4, 0xc4, 0xc4, 0xc4, 0xc4, 0xc4]) (by decide)

/-- **SIZE constraint (F of the property).**  With a PER-visible size constraint (`effective_bits = eb`,
    bounds `lb..ub`) nothing larger than `max ub (lb + 2^eb)·bpc + 1` is ever requested, whatever the input. -/
theorem os_uper_size_prealloc (ssz bpc u eb lb ub : Nat) (bits : Bits) :
    (osUper ssz bpc u (some (eb, lb, ub)) bits).h.peak ≤ ssz + (max ub (lb + 2 ^ eb) * bpc + 1) := by
  have hm1 : ub * bpc ≤ max ub (lb + 2 ^ eb) * bpc := Nat.mul_le_mul_right _ (Nat.le_max_left _ _)
  have hm2 : (lb + 2 ^ eb) * bpc ≤ max ub (lb + 2 ^ eb) * bpc := Nat.mul_le_mul_right _ (Nat.le_max_right _ _)
  generalize max ub (lb + 2 ^ eb) * bpc = M at hm1 hm2 ⊢
  unfold osUper
  simp only
  split
  · split <;> simp only [Heap.alloc] <;> omega
  · rw [osUperLoop_step]
    split
    · simp only [Heap.alloc]; omega
    · rename_i rawLen rep bits1 hg
      have hlt := uperGetLength_constrained_lt hg
      have hrep := uperGetLength_constrained_norepeat hg
      have hm : rawLen * bpc ≤ (lb + 2 ^ eb) * bpc := Nat.mul_le_mul_right _ (by omega)
      subst hrep
      simp only [Option.isSome_none, Bool.false_eq_true, and_false, if_false, Nat.zero_add]
      split <;> simp only [Heap.alloc] <;> omega

/-- **A variable-size string holds what its length says** (F70 repaired).  `SIZE(lb..ub)` with `lb < ub`
    (`eb ≠ 0`): once the length `n` has been read the decoder holds the structure and exactly `n·bpc + 1`
    bytes — nothing is allocated from `ub`. -/
theorem os_uper_variable_size_exact (ssz bpc u eb lb ub : Nat) (bits : Bits) (heb : eb ≠ 0)
    (n : Nat) (rep : Bool) (r : Bits) (hg : uperGetLength (some eb) lb bits = some (n, rep, r)) :
    (osUper ssz bpc u (some (eb, lb, ub)) bits).h.peak = ssz + (n * bpc + 1) := by
  have hrep := uperGetLength_constrained_norepeat hg
  subst hrep
  unfold osUper
  simp only [if_neg heb]
  rw [osUperLoop_step, hg]
  simp only [Option.isSome_none, Bool.false_eq_true, and_false, if_false, Nat.zero_add]
  split <;> simp only [Heap.alloc] <;> omega

/-- before the length is there, only the structure is held -/
theorem os_uper_variable_size_starved (ssz bpc u eb lb ub : Nat) (bits : Bits) (heb : eb ≠ 0)
    (hg : uperGetLength (some eb) lb bits = none) :
    (osUper ssz bpc u (some (eb, lb, ub)) bits).h.peak = ssz ∧
    (osUper ssz bpc u (some (eb, lb, ub)) bits).rc = .more := by
  unfold osUper
  simp only [if_neg heb]
  rw [osUperLoop_step, hg]
  simp [Heap.alloc]

/-- **F70 repaired — the former witness**: an empty `OCTET STRING (SIZE(0..65535))` (length field `00 00`) holds
    the 40-byte structure and one byte, not the 65536-byte preallocation it used to keep
    (`65576` before the repair) -/
theorem f70_former_witness_small :
    (osUper 40 1 8 (some (16, 0, 65535)) (bytesToBits [0x00, 0x00])).h.peak = 41 ∧
    (osUper 40 1 8 (some (16, 0, 65535)) (bytesToBits [0x00, 0x00])).rc = .ok :=
  ⟨os_uper_variable_size_exact 40 1 8 16 0 65535 _ (by decide) 0 false [] (by decide), by decide⟩

/-- `OCTET STRING (SIZE(65535))`, empty input: 65536 bytes are held (the constant of the type), rc = more -/
example : (osUper 40 1 8 (some (0, 65535, 65535)) []).h.peak = 65576 ∧
    (osUper 40 1 8 (some (0, 65535, 65535)) []).rc = .more := by decide

/-! ## Part F — BER OCTET STRING -/

/-- the `APPEND` macro never more than doubles what the data needs (16 bytes minimum), and always fits it -/
theorem append_cap_linear (ns es : Nat) :
    es < appendCap ns es ∧ appendCap ns es ≤ max ns (2 * es + 16) :=
  ⟨appendCap_gt ns es, appendCap_le ns es⟩

/-- **octet_string_nesting_heap_only.**  Constructed OCTET STRINGs nest on a heap-allocated `_stack`
    (48 bytes per level), not on the C stack; each level costs at least two octets of input (tag, length),
    so `depth` levels around one primitive segment (2 more header octets) of `len` content octets, out of `n`
    input octets, cost at most `26·n + ssz + 32`. -/
theorem octet_string_nesting_heap_only (ssz depth len n : Nat) (h : 2 * depth + 2 + len ≤ n) :
    osBerPeak ssz depth len ≤ 26 * n + ssz + 32 := by
  have := appendCap_le 0 len
  unfold osBerPeak osBerHeap
  split
  · omega
  · split <;> omega

end Asn1c.Props.C15
