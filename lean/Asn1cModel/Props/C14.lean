/-
  C14 — structure lifecycle is leak-free and double-free-free after any outcome.

  Theorems about the ownership model `Impl.Lifecycle` (heap ledger + ownership tree mirroring
  SEQUENCE_free / SET_free / CHOICE_free / SET_OF_free / OCTET_STRING_free / ASN__PRIMITIVE_TYPE_free
  and the three `asn_struct_free_method`s), all by induction over trees of unbounded depth and width.

  What is *not* proved here: that the C decoders/encoders perform exactly these steps (allocation
  sites and their order are observed by the allocation ledger of harness/alloc_wrap.c, not verified).
-/
import Asn1cModel.Proofs.Lifecycle

set_option linter.unusedSimpArgs false

namespace Asn1c.Props.C14
open Asn1c.Impl.Lifecycle Asn1c.Impl.Lifecycle.Tree Asn1c.Proofs.Lifecycle
open List

/-! ## 1. the invariant is preserved by every attach / detach / free step -/

/-- **owned_inv.**  `Owned`: live ids are distinct, the structure references pairwise distinct blocks
  (no block has two owners), every referenced block is live (no dangling owner), consistency conditions.
  Any executable step (box a member, set/realloc/free a buf, push decoder scratch, grow the SET OF array,
  move the element under construction into the array, free a member, reset a member, set `present`, …)
  performed at a node the decoder may legitimately be at (`livePath`) preserves it. -/
theorem owned_inv {p : List Nat} {e : Edit} {st st' : State} (I : Owned st)
    (lp : livePath p st.root = true) (lk : ∀ s, subtreeAt p st.root = some s → localOK e s = true)
    (hs : step p e st = some st') : Owned st' :=
  (step_inv I lp lk hs).1

/-- closed-world version: if moreover every live block is referenced by the structure (nothing has
  leaked so far), the same holds after the step: a step cannot lose a block. -/
theorem exact_inv {p : List Nat} {e : Edit} {st st' : State} (E : Exact st)
    (lp : livePath p st.root = true) (lk : ∀ s, subtreeAt p st.root = some s → localOK e s = true)
    (hs : step p e st = some st') : Exact st' :=
  ⟨(step_inv E.1 lp lk hs).1, (step_inv E.1 lp lk hs).2 E.2⟩

/-- the bookkeeping identity behind it, for *every* executable step (no discipline needed):
  referenced-after + released = allocated + referenced-before, as multisets. -/
theorem step_conservation {p : List Nat} {e : Edit} {st : State} {s : Tree} {o : EditOut}
    (w : wf st.root = true) (hsub : subtreeAt p st.root = some s) (ho : applyEdit e s = some o) :
    (owned (replaceAt p o.node st.root) ++ o.rel).Perm (o.allocs.map Prod.fst ++ owned st.root) :=
  step_owned w hsub ho

/-- the invariant after a whole operation -/
theorem run_inv : ∀ (prog : List (List Nat × Edit)) {st st' : State}, Exact st → okProg prog st →
    run prog st = some st' → Exact st'
  | [], st, st', E, _, hr => by simp [run] at hr; subst hr; exact E
  | (p, e) :: r, st, st', E, ok, hr => by
    simp only [run] at hr
    cases hs : step p e st with
    | none => simp [hs] at hr
    | some st1 =>
      simp [hs] at hr
      exact run_inv r (exact_inv E ok.1 ok.2.1 hs) (ok.2.2 st1 hs) hr

/-- … and after **any cut** of it (the k-th allocation fails, input is exhausted, an error is detected:
  the operation stops after some prefix of its steps; clean-up actions of the failure path are steps too) -/
theorem cut_inv (prog : List (List Nat × Edit)) (k : Nat) {st st' : State} (E : Exact st) (ok : okProg prog st)
    (hr : run (prog.take k) st = some st') : Exact st' :=
  run_inv (prog.take k) E (okProg_take prog k st ok) hr

/-! ## 2. the three free methods -/

/-- **free_everything_empties** (open world).  From an `Owned` state `ASN_STRUCT_FREE` succeeds on the ledger
  (no FREEMEM of a block that is not live), releases no id twice, releases exactly the blocks the
  structure references and nothing else. -/
theorem free_everything_releases_owned {h : Heap} {b : Id} {t : Tree} (I : Owned ⟨h, .boxed b t⟩) :
    (frees t ++ [b]).Nodup ∧
    ∃ h', freeState .everything ⟨h, .boxed b t⟩ = some ⟨h', .null⟩ ∧ h'.live.Nodup ∧
      ∀ i, i ∈ h'.live ↔ i ∈ h.live ∧ i ∉ owned (.boxed b t) := by
  obtain ⟨ndl, ndo, sub, w⟩ := I
  have pm : (frees (.boxed b t)).Perm (owned (.boxed b t)) := frees_perm_owned _ w
  obtain ⟨nd, h', e, n', m'⟩ := freeAll_of_perm ndl pm ndo sub
  simp only [frees] at nd e
  exact ⟨nd, h', by simp [freeState, freeStruct, e], n', m'⟩

/-- **free_everything_empties.**  Closed world: afterwards no block is live. -/
theorem free_everything_empties {h : Heap} {b : Id} {t : Tree} (E : Exact ⟨h, .boxed b t⟩) :
    (frees t ++ [b]).Nodup ∧ ∃ h', freeState .everything ⟨h, .boxed b t⟩ = some ⟨h', .null⟩ ∧ h'.live = [] := by
  obtain ⟨nd, h', e, _, m'⟩ := free_everything_releases_owned E.1
  refine ⟨nd, h', e, ?_⟩
  apply List.eq_nil_iff_forall_not_mem.mpr
  intro i hi
  obtain ⟨a, c⟩ := (m' i).mp hi
  exact c (E.2 i a)

/-- a NULL structure pointer: `free_struct` returns immediately -/
theorem free_null (m : Method) (h : Heap) : freeState m ⟨h, .null⟩ = some ⟨h, .null⟩ := by
  cases m <;> simp [freeState, freeStruct, Heap.freeAll]

/-- contents released by ASFM_FREE_UNDERLYING / ASFM_FREE_UNDERLYING_AND_RESET: exactly the outer block stays -/
theorem free_contents_keeps_outer {h : Heap} {b : Id} {t : Tree} (E : Exact ⟨h, .boxed b t⟩) :
    (frees t).Nodup ∧ ∃ h', h.freeAll (frees t) = some h' ∧ h'.live = [b] := by
  obtain ⟨⟨ndl, ndo, sub, w⟩, ex⟩ := E
  simp only [owned] at ndo sub ex
  simp only [wf] at w
  obtain ⟨ndt, _, dj⟩ := List.nodup_append.mp ndo
  obtain ⟨nd, h', e, n', m'⟩ := freeAll_of_perm ndl (frees_perm_owned t w) ndt
    (fun i hi => sub i (List.mem_append_left _ hi))
  refine ⟨nd, h', e, eq_singleton_of_nodup n' (fun i => ?_)⟩
  rw [m' i]
  constructor
  · rintro ⟨a, c⟩
    rcases List.mem_append.mp (ex i a) with hh | hh
    · exact absurd hh c
    · simpa using hh
  · rintro rfl
    exact ⟨sub i (by simp), fun hh => dj i hh i (by simp) rfl⟩

/-- **free_underlying_keeps_outer.**  `ASN_STRUCT_FREE_CONTENTS_ONLY`: exactly the outer block stays live. -/
theorem free_underlying_keeps_outer {h : Heap} {b : Id} {t : Tree} (E : Exact ⟨h, .boxed b t⟩) :
    ∃ h', freeState .underlying ⟨h, .boxed b t⟩ = some ⟨h', .boxed b (afterUnderlying t)⟩ ∧ h'.live = [b] := by
  obtain ⟨_, h', e, l⟩ := free_contents_keeps_outer E
  exact ⟨h', by simp [freeState, freeStruct, e], l⟩

/-- … but it leaves dangling pointers behind (the header says "AVOID using it in the application code"):
  a second FREE_CONTENTS_ONLY of an INTEGER_t releases `buf` again. -/
theorem free_underlying_twice_double_free_cex :
    ∃ st1, freeState .underlying ⟨⟨[1, 2], fun _ => 8⟩, .boxed 1 (.prim (some 2))⟩ = some st1 ∧
      st1.heap.live = [1] ∧ freeState .underlying st1 = none := by
  refine ⟨⟨⟨[1], fun _ => 8⟩, .boxed 1 (.prim (some 2))⟩, ?_, rfl, ?_⟩ <;>
    simp [freeState, freeStruct, frees, afterUnderlying, Heap.freeAll, Heap.free]

/-! ## 3. ASN_STRUCT_RESET -/

/-- **reset_zero.**  `ASN_STRUCT_RESET` releases the contents, leaves an all-zero structure in the same
  outer block, and the state is again a closed-world invariant state whose only live block is the outer one. -/
theorem reset_zero {h : Heap} {b : Id} {t : Tree} (E : Exact ⟨h, .boxed b t⟩) :
    ∃ h', freeState .reset ⟨h, .boxed b t⟩ = some ⟨h', .boxed b (zero t)⟩ ∧
      isZero (zero t) = true ∧ owned (zero t) = [] ∧ h'.live = [b] ∧ Exact ⟨h', .boxed b (zero t)⟩ := by
  obtain ⟨_, h', e, l⟩ := free_contents_keeps_outer E
  refine ⟨h', by simp [freeState, freeStruct, e], isZero_zero t, owned_zero t, l, ?_⟩
  refine ⟨⟨by simp [l], by simp [owned, owned_zero], ?_, by simpa [wf] using wf_zero t⟩, ?_⟩
  · intro i hi; simpa [owned, owned_zero, l] using hi
  · intro i hi; simpa [owned, owned_zero, l] using hi

/-- a structure on the stack / in static storage (no outer block): RESET releases everything it references -/
theorem reset_static_empties {h : Heap} {t : Tree} (E : Exact ⟨h, t⟩) :
    (frees t).Nodup ∧ ∃ h', h.freeAll (frees t) = some h' ∧ h'.live = [] ∧ isZero (zero t) = true := by
  obtain ⟨⟨ndl, ndo, sub, w⟩, ex⟩ := E
  obtain ⟨nd, h', e, _, m'⟩ := freeAll_of_perm ndl (frees_perm_owned t w) ndo sub
  refine ⟨nd, h', e, ?_, isZero_zero t⟩
  apply List.eq_nil_iff_forall_not_mem.mpr
  intro i hi
  obtain ⟨a, c⟩ := (m' i).mp hi
  exact c (ex i a)

/-- **reset_then_free_ok.**  RESET followed by FREE: both succeed on the ledger, nothing is released twice
  across the two calls, nothing stays live. -/
theorem reset_then_free_ok {h : Heap} {b : Id} {t : Tree} (E : Exact ⟨h, .boxed b t⟩) :
    ∃ h1 h2, freeState .reset ⟨h, .boxed b t⟩ = some ⟨h1, .boxed b (zero t)⟩ ∧
      freeState .everything ⟨h1, .boxed b (zero t)⟩ = some ⟨h2, .null⟩ ∧ h2.live = [] ∧
      (frees t ++ (frees (zero t) ++ [b])).Nodup := by
  obtain ⟨h1, e1, _, _, _, E1⟩ := reset_zero E
  obtain ⟨_, h2, e2, l2⟩ := free_everything_empties E1
  refine ⟨h1, h2, e1, e2, l2, ?_⟩
  have hz : frees (zero t) = [] := by
    have := frees_perm_owned (zero t) (wf_zero t)
    rw [owned_zero] at this
    exact this.eq_nil
  rw [hz]
  have pm : (frees (.boxed b t)).Perm (owned (.boxed b t)) := frees_perm_owned _ E.1.2.2.2
  simpa [frees] using (pm.nodup_iff).mpr E.1.2.1

/-- RESET twice is harmless (the second call finds nothing to release) -/
theorem reset_twice_ok {h : Heap} {b : Id} {t : Tree} (E : Exact ⟨h, .boxed b t⟩) :
    ∃ h1, freeState .reset ⟨h, .boxed b t⟩ = some ⟨h1, .boxed b (zero t)⟩ ∧
      freeState .reset ⟨h1, .boxed b (zero t)⟩ = some ⟨h1, .boxed b (zero t)⟩ := by
  obtain ⟨h1, e1, _, _, _, _⟩ := reset_zero E
  refine ⟨h1, e1, ?_⟩
  have hz : frees (zero t) = [] := by
    have := frees_perm_owned (zero t) (wf_zero t)
    rw [owned_zero] at this
    exact this.eq_nil
  simp [freeState, freeStruct, hz, Heap.freeAll, zero_idem]

/-- **reset state = fresh state.**  An all-zero structure (what `calloc` gives a decoder) is a fixed
  point of the memset, so the contents after RESET *are* the fresh contents of the same layout; any function
  of the structure – in particular a later decode – cannot tell them apart. -/
theorem reset_eq_fresh {t f : Tree} (hf : isZero f = true) (layout : zero t = zero f) : zero t = f := by
  rw [layout, zero_of_isZero f hf]

theorem decode_after_reset_eq_fresh {α} (decode : Tree → α) {t f : Tree} (hf : isZero f = true)
    (layout : zero t = zero f) : decode (zero t) = decode f := by
  rw [reset_eq_fresh hf layout]

/-! ## 4. any cut of any operation, then free -/

/-- **alloc_failure_clean.**  Start from a clean state (e.g. `sptr = NULL` and an empty ledger, or a RESET
  structure), run any disciplined operation, cut it after any number `k` of its steps (allocation failure at
  the next allocation, starvation, error); then `ASN_STRUCT_FREE` succeeds on the ledger and nothing stays live. -/
theorem alloc_failure_clean (prog : List (List Nat × Edit)) (k : Nat) {st st' : State} (E : Exact st)
    (hp : isPtr st.root = true) (ok : okProg prog st) (hr : run (prog.take k) st = some st') :
    ∃ h', freeState .everything st' = some ⟨h', .null⟩ ∧ h'.live = [] := by
  have E' := cut_inv prog k E ok hr
  have hp' := run_isPtr _ hp hr
  obtain ⟨h, r⟩ := st'
  cases r <;> simp [isPtr] at hp'
  · refine ⟨h, free_null _ _, ?_⟩
    apply List.eq_nil_iff_forall_not_mem.mpr
    intro i hi
    simpa [owned] using E'.2 i hi
  · obtain ⟨_, h', e, l⟩ := free_everything_empties E'
    exact ⟨h', e, l⟩

/-- the initial state of a decode into `sptr = NULL` with an empty ledger is such a clean state -/
theorem initial_exact : Exact ⟨Heap.empty, .null⟩ := by
  simp [Exact, Owned, Heap.empty, owned, wf]

/-! ## 5. CHOICE: `_set_present_idx` before the member is built -/

/-- **choice_present_before_member.**  Once a valid `present` is recorded, whatever the member decoder
  has built so far (`m` arbitrary – every cut point), CHOICE_free releases exactly what the CHOICE references. -/
theorem choice_present_before_member {n k : Nat} {m : Tree} (h0 : 0 < k) (hn : k ≤ n) (wm : wf m = true) :
    wf (.choice n k m) = true ∧ (frees (.choice n k m)).Perm (owned (.choice n k m)) := by
  have w : wf (.choice n k m) = true := by simp [wf, wm, h0, hn]
  exact ⟨w, frees_perm_owned _ w⟩

/-- after `setPresent k` (valid k) the decoder may descend into the member: paths through the CHOICE are live,
  so `owned_inv` / `alloc_failure_clean` cover every step of the member decoder -/
theorem choice_member_path_live {n pr k i : Nat} {m : Tree} (h0 : 0 < k) (hn : k ≤ n) (q : List Nat)
    (hq : livePath q m = true) :
    ∃ o, applyEdit (.setPresent k) (.choice n pr m) = some o ∧ livePath (i :: q) o.node = true := by
  refine ⟨⟨[], [], .choice n k m⟩, by simp [applyEdit], ?_⟩
  simp [livePath, choiceLive, child?, h0, hn, hq]

/-- the wrong order is *not* covered: with `present = 0` no path into the member is live … -/
theorem choice_member_path_dead (n i : Nat) (m : Tree) (q : List Nat) :
    livePath (i :: q) (.choice n 0 m) = false := by
  simp [livePath, choiceLive]

/-- … and it does leak (**counter-example for the wrong order**): CHOICE holding a pointer member, member
  allocated (block `x`) while `present` is still 0, operation cut right there (e.g. the next allocation
  fails): every step executes, `ASN_STRUCT_FREE` succeeds, and block `x` stays live forever. -/
theorem choice_present_after_member_leaks (n b x sz : Nat) (hne : x ≠ b) :
    ∃ st' h', run [([0, 0], .box x sz .native)] ⟨⟨[b], fun _ => 0⟩, .boxed b (.choice n 0 .null)⟩ = some st' ∧
      freeState .everything st' = some ⟨h', .null⟩ ∧ h'.live = [x] := by
  have hne' : b ≠ x := fun h => hne h.symm
  refine ⟨⟨⟨[x, b], fun j => if j = x then sz else 0⟩, .boxed b (.choice n 0 (.boxed x .native))⟩,
          ⟨[x], fun j => if j = x then sz else 0⟩, ?_, ?_, rfl⟩
  · simp [run, step, subtreeAt, child?, applyEdit, owned, wf, Heap.allocAll, Heap.alloc, Heap.freeAll,
          replaceAt, setChild, hne]
  · simp [freeState, freeStruct, frees, Heap.freeAll, Heap.free, hne, hne', List.erase_cons]

/-- the right order on the same example: `present` first, then the member; cut anywhere, free: nothing live -/
theorem choice_present_first_clean (n b x sz : Nat) (hn : 0 < n) (hne : x ≠ b) (k : Nat) :
    ∃ st' h', run ([([0], .setPresent 1), ([0, 0], .box x sz .native)].take k)
        ⟨⟨[b], fun _ => 0⟩, .boxed b (.choice n 0 .null)⟩ = some st' ∧
      freeState .everything st' = some ⟨h', .null⟩ ∧ h'.live = [] := by
  have hne' : b ≠ x := fun h => hne h.symm
  have hn1 : 1 ≤ n := hn
  match k with
  | 0 =>
    exact ⟨_, ⟨[], fun _ => 0⟩, rfl, by simp [freeState, freeStruct, frees, Heap.freeAll, Heap.free], rfl⟩
  | 1 =>
    refine ⟨⟨⟨[b], fun _ => 0⟩, .boxed b (.choice n 1 .null)⟩, ⟨[], fun _ => 0⟩, ?_, ?_, rfl⟩
    · simp [run, step, subtreeAt, child?, applyEdit, Heap.allocAll, Heap.freeAll, replaceAt, setChild]
    · simp [freeState, freeStruct, frees, Heap.freeAll, Heap.free, hn1]
  | k + 2 =>
    refine ⟨⟨⟨[x, b], fun j => if j = x then sz else 0⟩, .boxed b (.choice n 1 (.boxed x .native))⟩,
            ⟨[], fun j => if j = x then sz else 0⟩, ?_, ?_, rfl⟩
    · simp [run, step, subtreeAt, child?, applyEdit, owned, wf, Heap.allocAll, Heap.alloc, Heap.freeAll,
            replaceAt, setChild, hne]
    · simp [freeState, freeStruct, frees, Heap.freeAll, Heap.free, hn1, hne, hne', List.erase_cons]

/-! ## 6. the ledger itself (what the K leg evaluates on the allocator events observed from C) -/

/-- conservation: after a trace that respects the heap discipline, live + released = allocated + live-before -/
theorem ledger_conservation (evs : List Ev) {h h' : Heap} (r : h.run evs = some h') :
    (h'.live ++ evs.flatMap Ev.freed).Perm (evs.flatMap Ev.allocd ++ h.live) :=
  run_conservation evs r

/-- the ledger rejects a second release of the same block -/
theorem ledger_detects_double_free {h h1 : Heap} {i : Id} (nd : h.live.Nodup) (e : h.free i = some h1) :
    h1.free i = none :=
  free_twice nd e

/-- a balanced trace (everything allocated is released, nothing else) starting from an empty ledger ends empty:
  what "encode scratch is released" means for the events of an encoder call -/
theorem balanced_trace_ends_empty (evs : List Ev) {h' : Heap} (r : Heap.empty.run evs = some h')
    (bal : (evs.flatMap Ev.freed).Perm (evs.flatMap Ev.allocd)) : h'.live = [] := by
  have c := ledger_conservation evs r
  simp only [Heap.empty, List.append_nil] at c
  have := c.length_eq
  have := bal.length_eq
  simp only [List.length_append] at *
  exact List.eq_nil_of_length_eq_zero (by omega)

/-- **F21 counter-example** (allocator events observed from C on the witness of finding F21: BER decode of
  `SEQUENCE { a INTEGER, c SET OF INTEGER, s UTF8String }`, CANONICAL-XER encode with its 4th allocation failing, then
  ASN_STRUCT_FREE): the trace respects the heap discipline but is not balanced – blocks 7 and 8 (the `encs` array of
  SET_OF_encode_xer and the first element buffer) stay live. -/
theorem f21_witness_trace_leaks :
    (Heap.empty.run [.alloc 1 120, .alloc 2 8, .alloc 3 32, .alloc 4 8, .alloc 5 16,      -- decode
                     .alloc 6 16, .alloc 7 48, .alloc 8 1, .free 6,                       -- encode, 4th allocation fails
                     .free 2, .free 4, .free 3, .free 5, .free 1]).map (·.live) = some [8, 7] := by
  decide

/-- non-vacuity: a SEQUENCE { INTEGER_t, SET OF (one element under construction), CHOICE present=2 → OCTET STRING with
  BER stack } in a closed-world invariant state -/
example : Exact ⟨⟨[1, 2, 3, 4, 5, 6, 7, 8, 9], fun _ => 16⟩,
    .boxed 1 (.seq (some 2) [.prim (some 3), .setof (some 4) (.boxed 5 .native) [.boxed 6 (.prim none)],
                             .choice 2 2 (.boxed 7 (.ostr none (some 8) [9]))])⟩ := by
  refine ⟨⟨by decide, by decide, by decide, by decide⟩, by decide⟩

/-- non-vacuity of `okProg`: decoding `SEQUENCE { s OCTET STRING (pointer member), i INTEGER_t }` into `sptr = NULL` -/
example : okProg [([], .box 1 56 (.seq none [.null, .prim none])),
                  ([0, 0], .box 2 40 (.ostr none none [])),
                  ([0, 0, 0], .setBuf 3 16),
                  ([0, 1], .setBuf 4 8)] ⟨Heap.empty, .null⟩ := by
  refine ⟨by decide, by intro s h; cases h; rfl, ?_⟩
  intro st1 h1
  simp [step, subtreeAt, applyEdit, owned, ownedL, wf, wfL, Heap.empty, Heap.allocAll, Heap.alloc, Heap.freeAll, replaceAt] at h1
  subst h1
  refine ⟨by decide, by intro s h; simp [subtreeAt, child?] at h; subst h; rfl, ?_⟩
  intro st2 h2
  simp [step, subtreeAt, child?, applyEdit, owned, ownedL, wf, wfL, Heap.allocAll, Heap.alloc, Heap.freeAll, replaceAt, setChild] at h2
  subst h2
  refine ⟨by decide, by intro s h; simp [subtreeAt, child?] at h; subst h; rfl, ?_⟩
  intro st3 h3
  simp [step, subtreeAt, child?, applyEdit, owned, ownedL, wf, wfL, Heap.allocAll, Heap.alloc, Heap.freeAll, replaceAt, setChild] at h3
  subst h3
  refine ⟨by decide, by intro s h; simp [subtreeAt, child?] at h; subst h; rfl, ?_⟩
  intro st4 h4
  trivial

end Asn1c.Props.C14
