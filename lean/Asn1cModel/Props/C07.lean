import Asn1cModel.Proofs.Application
/-
  C07 — Encoder API contract: exact size accounting, bounded writes, clean failure.
  Property theorems only (helper lemmas: Proofs/Application.lean; vocabulary: Spec/EncoderApi.lean).
  Impl.Application = model of skeletons/asn_application.c, tied to the C code by the generated-module
  correspondence of vlib/props/c07.py (`encraw` run observed on C ↦ predicted wrapper outputs).

  An encoder is an arbitrary interaction tree `Enc` (it emits chunks, sees only whether the callback
  returned < 0, and returns `ok claimed` / `fail`), so every theorem quantifies over all chunk lists of
  all lengths; `Enc.ofRun chunks out` is the well-behaved encoder with a given fault-free run.
-/
namespace Asn1c.Props.C07
open Asn1c Asn1c.Impl.Application Asn1c.Spec.EncoderApi Asn1c.Proofs.Application

/-! ## 0. what reaches the callback, what is reported (ties `delivered`/`reported` to the encoder's chunk list) -/

theorem trace_ofRun (chunks : List Bytes) (out : Outcome) : (Enc.ofRun chunks out).trace = chunks := by
  induction chunks with
  | nil => rfl
  | cons c cs ih => simp [Enc.ofRun, Enc.trace, ih]

theorem result_ofRun (chunks : List Bytes) (out : Outcome) : (Enc.ofRun chunks out).result = out := by
  induction chunks with
  | nil => rfl
  | cons c cs ih => simp [Enc.ofRun, Enc.result, ih]

/-- BER/DER, OER, XER: the callback receives exactly the encoder's chunks; the encoder's count is passed through;
    an encoder failure becomes -1 with EBADF (failed_type has the encoder) or ENOENT. -/
theorem delivered_reported_bytewise (syn : Syntax) (ops : TypeOps) (e : Enc)
    (hs : syn = .ber ∨ syn = .der ∨ syn = .basicOer ∨ syn = .canonicalOer ∨ syn = .basicXer ∨ syn = .canonicalXer)
    (h : selected syn ops = some e) :
    delivered syn (some ops) = e.trace ∧
    reported syn (some ops) = (match e.result with
      | .ok n => ⟨(n : Int), none⟩
      | .fail b => ⟨-1, some (errnoOfBlame b)⟩) := by
  rw [delivered_eq, reported_eq]
  rcases hs with rfl | rfl | rfl | rfl | rfl | rfl <;>
    (simp only [selected] at h; simp only [descr, h, stdDescr]; cases e.result <;> exact ⟨rfl, rfl⟩)

/-- UPER: bits are converted to octets; an encoding of 0 bits is completed by one zero octet (X.691 §11.1). -/
theorem delivered_reported_uper (syn : Syntax) (ops : TypeOps) (e : Enc)
    (hs : syn = .basicUper ∨ syn = .canonicalUper) (h : ops.uper = some e) :
    delivered syn (some ops) = e.trace ++ (if e.result = .ok 0 then [[0]] else []) ∧
    reported syn (some ops) = (match e.result with
      | .ok bits => ⟨if bits = 0 then 1 else (((bits + 7) / 8 : Nat) : Int), none⟩
      | .fail b => ⟨-1, some (errnoOfBlame b)⟩) := by
  rw [delivered_eq, reported_eq]
  rcases hs with rfl | rfl <;>
    (simp only [descr, h]
     cases hr : e.result with
     | fail b => simp
     | ok bits => by_cases hb : bits = 0 <;> simp [hb])

/-- the XER flag mapping of `asn_encode_internal`: BASIC-XER ↦ XER_F_BASIC, CANONICAL-XER ↦ XER_F_CANONICAL -/
theorem xerFlags_spec : xerFlags .basicXer = XER_F_BASIC ∧ xerFlags .canonicalXer = XER_F_CANONICAL := by decide

/-- errno of the calls that cannot encode at all -/
theorem errno_without_encoder :
    reported .der none = ⟨-1, some .EINVAL⟩ ∧                                    -- !td || !sptr
    (∀ ops, reported .cer (some ops) = ⟨-1, some .ENOENT⟩) ∧
    (∀ ops, reported .random (some ops) = ⟨-1, some .ENOENT⟩) ∧
    (∀ ops, reported .invalid (some ops) = ⟨-1, some .ENOENT⟩) ∧
    (∀ syn ops, Standard syn → selected syn ops = none → reported syn (some ops) = ⟨-1, some .ENOENT⟩) := by
  refine ⟨rfl, fun _ => rfl, fun _ => rfl, fun _ => rfl, ?_⟩
  intro syn ops hs h
  rw [reported_eq]
  cases syn <;> simp only [Standard] at hs <;> simp only [selected, Option.map_eq_none_iff] at h <;>
    simp [descr, stdDescr, h]

/-! ## 1. asn_encode_to_buffer: the reported size does not depend on the buffer size -/

/-- what `asn_encode_to_buffer` returns — a function of the syntax and the encoder only, not of the buffer:
    the encoder's (converted) count, or an `assert` abort when the encoder's accounting is wrong -/
def toBufferRet (syn : Syntax) (ops : Option TypeOps) : Api Rval :=
  if BadAccounting syn ops then .abort else .done (reported syn ops)

/-- **size independence**: for every buffer (any size `buf.length`, anything behind it) the call returns the same value -/
theorem to_buffer_size_independent (syn : Syntax) (ops : Option TypeOps) (buf tail : Bytes) :
    (asnEncodeToBuffer syn ops (some (buf ++ tail)) buf.length).map Prod.snd = toBufferRet syn ops := by
  rw [toBuffer_closed]
  unfold toBufferRet
  split <;> rfl

/-- … and that value, when non-negative, is the number of octets handed to the callback: Σ|chunk|, for every n -/
theorem to_buffer_encoded_eq_total (syn : Syntax) (ops : Option TypeOps) (buf tail : Bytes) (key : OverrunKey) (r : Rval)
    (h : asnEncodeToBuffer syn ops (some (buf ++ tail)) buf.length = .done (key, r)) (hr : 0 ≤ r.encoded) :
    r.encoded = (total (delivered syn ops) : Int) ∧ r = reported syn ops := by
  rw [toBuffer_closed] at h
  split at h
  · cases h
  · rename_i hn
    injection h with h; injection h with _ h2
    subst h2
    exact ⟨(accurate_iff_not_bad syn ops).mpr hn hr, rfl⟩

/-- with an encoder whose accounting is exact the accounting `assert` never fires -/
theorem to_buffer_accurate (syn : Syntax) (ops : Option TypeOps) (hA : Accurate syn ops) :
    toBufferRet syn ops = .done (reported syn ops) := by
  unfold toBufferRet
  rw [if_neg ((accurate_iff_not_bad syn ops).mp hA)]

/-- chunk-list form: a DER/OER/XER encoder delivering `chunks` and claiming their total ⇒ `.encoded = Σ|chunk|` for every n -/
theorem to_buffer_size_independent_chunks (chunks : List Bytes) (buf tail : Bytes) :
    (asnEncodeToBuffer .der (some (TypeOps.all (Enc.ofRun chunks (.ok (total chunks))))) (some (buf ++ tail)) buf.length).map Prod.snd
      = .done ⟨(total chunks : Int), none⟩ := by
  rw [to_buffer_size_independent]
  obtain ⟨hd, hr⟩ := delivered_reported_bytewise .der (TypeOps.all (Enc.ofRun chunks (.ok (total chunks)))) _ (by simp) rfl
  rw [trace_ofRun] at hd
  rw [result_ofRun] at hr
  have hnb : ¬ BadAccounting .der (some (TypeOps.all (Enc.ofRun chunks (.ok (total chunks))))) := by
    unfold BadAccounting; rw [hd, hr]; simp
  unfold toBufferRet
  rw [if_neg hnb, hr]

/-! ## 2. asn_encode_to_buffer: no octet outside the buffer is written; what is written is a prefix -/

/-- **bounded writes**: after the call the memory is `fit ++ (rest of the buffer, untouched) ++ (memory behind the buffer,
    untouched)` where `fit` is a prefix of the concatenated output of length ≤ min n total (the chunks that fit);
    every `memcpy` ended at or before `fit.length`; if the output fits, the buffer holds all of it. -/
theorem to_buffer_no_overrun (syn : Syntax) (ops : Option TypeOps) (buf tail : Bytes) (key : OverrunKey) (r : Rval)
    (h : asnEncodeToBuffer syn ops (some (buf ++ tail)) buf.length = .done (key, r)) :
    key.mem = (fitChunks buf.length 0 (delivered syn ops)).flatten
                ++ buf.drop (fitChunks buf.length 0 (delivered syn ops)).flatten.length ++ tail ∧
    (fitChunks buf.length 0 (delivered syn ops)).flatten <+: (delivered syn ops).flatten ∧
    (fitChunks buf.length 0 (delivered syn ops)).flatten.length ≤ min buf.length (total (delivered syn ops)) ∧
    key.hiWater = (fitChunks buf.length 0 (delivered syn ops)).flatten.length ∧
    key.computedSize = total (delivered syn ops) ∧
    (total (delivered syn ops) ≤ buf.length →
      (fitChunks buf.length 0 (delivered syn ops)).flatten = (delivered syn ops).flatten) := by
  rw [toBuffer_closed] at h
  split at h
  · cases h
  · injection h with h; injection h with h1 _
    subst h1
    have hpre : (fitChunks buf.length 0 (delivered syn ops)).flatten <+: (delivered syn ops).flatten :=
      flatten_prefix_of_prefix (fitChunks_prefix _ _ _)
    refine ⟨rfl, hpre, ?_, rfl, rfl, ?_⟩
    · have h1 := fit_length_le buf.length (delivered syn ops)
      have h2 := hpre.length_le
      rw [← total_eq_flatten_length (delivered syn ops)] at h2
      omega
    · intro hfits
      rw [fitChunks_all _ _ _ (by omega)]

/-- in particular the memory behind the buffer is bit-for-bit what it was, and the image did not grow -/
theorem to_buffer_tail_untouched (syn : Syntax) (ops : Option TypeOps) (buf tail : Bytes) (key : OverrunKey) (r : Rval)
    (h : asnEncodeToBuffer syn ops (some (buf ++ tail)) buf.length = .done (key, r)) :
    key.mem.drop buf.length = tail ∧ key.mem.length = (buf ++ tail).length := by
  obtain ⟨hm, _, hl, _, _, _⟩ := to_buffer_no_overrun syn ops buf tail key r h
  have hle : (fitChunks buf.length 0 (delivered syn ops)).flatten.length ≤ buf.length := by omega
  have hlen : ((fitChunks buf.length 0 (delivered syn ops)).flatten
      ++ buf.drop (fitChunks buf.length 0 (delivered syn ops)).flatten.length).length = buf.length := by
    simp only [List.length_append, List.length_drop]; omega
  rw [hm]
  constructor
  · rw [List.drop_append, List.drop_of_length_le (Nat.le_of_eq hlen), hlen, Nat.sub_self]; simp
  · rw [List.length_append, hlen, List.length_append]

/-- NULL buffer with a non-zero size is refused with EINVAL before anything runs -/
theorem to_buffer_null_buffer (syn : Syntax) (ops : Option TypeOps) (n : Nat) (hn : 0 < n) :
    (asnEncodeToBuffer syn ops none n).map Prod.snd = .done ⟨-1, some .EINVAL⟩ := by
  simp [asnEncodeToBuffer, hn, Api.map]

/-! ## 3. asn_encode_to_new_buffer -/

/-- **exact buffer or NULL** (whatever the allocator does): the only `assert` that can fire is the accounting one
    (never `computed_size < buffer_size`, and the doubling loop always terminates).  Otherwise the call returns
    *either NULL or an exact-length, NUL-terminated buffer*, and it is **NULL exactly when the encoder failed
    (`.encoded < 0`) or an allocation failed** (the initial MALLOC or one of the REALLOCs made during the run).
    A returned buffer comes with `.encoded = Σ|chunk|`; it is a live block of `buffer_size` octets, longer than the
    output, starting with exactly the concatenated output, followed by a NUL. -/
theorem to_new_buffer_exact (syn : Syntax) (ops : Option TypeOps) (mallocOk : Bool) (allocOk : Nat → Bool) (junk : Nat) :
    (asnEncodeToNewBuffer syn ops mallocOk allocOk junk = .abort ∧ BadAccounting syn ops) ∨
    ∃ nb, asnEncodeToNewBuffer syn ops mallocOk allocOk junk = .done nb ∧
      nb.result = reported syn ops ∧ nb.key.computedSize = total (delivered syn ops) ∧
      (nb.buffer = none ↔ ((reported syn ops).encoded < 0 ∨ AllocFailed mallocOk allocOk nb.key.allocs)) ∧
      (∀ b, nb.buffer = some b →
        nb.result.encoded = (total (delivered syn ops) : Int) ∧
        b.length = nb.key.bufferSize ∧
        total (delivered syn ops) < b.length ∧
        b.take (total (delivered syn ops)) = (delivered syn ops).flatten ∧
        b[total (delivered syn ops)]? = some 0) := by
  rw [toNewBuffer_closed]
  obtain ⟨_, hc, hl⟩ := dynFinal_inv syn ops mallocOk allocOk junk
  have hN := dynFinal_null_iff syn ops mallocOk allocOk junk
  rw [← total_eq_flatten_length] at hc
  by_cases hbad : BadAccounting syn ops
  · left; rw [if_pos hbad]; exact ⟨rfl, hbad⟩
  · right
    rw [if_neg hbad]
    by_cases hneg : (reported syn ops).encoded < 0
    · rw [if_pos hneg]
      exact ⟨_, rfl, rfl, hc, ⟨fun _ => Or.inl hneg, fun _ => rfl⟩, fun b hb => by cases hb⟩
    · rw [if_neg hneg]
      cases hb : (dynFinal syn ops mallocOk allocOk junk).buffer with
      | none => exact ⟨_, rfl, rfl, hc, ⟨fun _ => Or.inr (hN.mp hb), fun _ => rfl⟩, fun b hb => by cases hb⟩
      | some b =>
        obtain ⟨hlen, hlt, htake⟩ := hl b hb
        rw [hc] at hlt htake
        refine ⟨_, rfl, rfl, hc, ⟨(fun h => by cases h), ?_⟩, ?_⟩
        · rintro (h | h)
          · exact absurd h hneg
          · have := hN.mpr h; rw [hb] at this; cases this
        · intro b' hb'
          injection hb' with hb'
          subst hb'
          refine ⟨(accurate_iff_not_bad syn ops).mpr hbad (by omega), ?_, ?_, ?_, ?_⟩
          · rw [writeAt_length _ _ _ (by simp; omega), hlen]
          · rw [writeAt_length _ _ _ (by simp; omega)]; omega
          · have hl : (b.take (total (delivered syn ops))).length = total (delivered syn ops) := by
              rw [List.length_take]; omega
            have h1 := List.take_left (l₁ := b.take (total (delivered syn ops)))
              (l₂ := [0] ++ b.drop (total (delivered syn ops) + [0].length))
            rw [hl] at h1
            unfold writeAt
            rw [List.append_assoc, h1, htake]
          · have hl : (b.take (total (delivered syn ops))).length = total (delivered syn ops) := by
              rw [List.length_take]; omega
            unfold writeAt
            rw [List.append_assoc, List.getElem?_append_right (Nat.le_of_eq hl), hl, Nat.sub_self]
            rfl

/-- the doubling loop `do new_size *= 2; while(new_size <= computed_size + size);` of `dynamic_encoder_cb` terminates for
    every live buffer (`buffer_size > 0`) with a size that holds the data **and** the terminating NUL -/
theorem doubling_loop_terminates (bufferSize target : Nat) (h : 0 < bufferSize) :
    ∃ newSize, growLoop bufferSize target = some newSize ∧ target < newSize ∧ bufferSize < newSize :=
  growLoop_spec bufferSize target h

/-- when no allocation fails the buffer is non-NULL **exactly when the encoding succeeded** (`.encoded ≥ 0`) -/
theorem to_new_buffer_nonnull (syn : Syntax) (ops : Option TypeOps) (allocOk : Nat → Bool) (junk : Nat)
    (hall : ∀ i, allocOk i = true) (nb : NewBuffer)
    (h : asnEncodeToNewBuffer syn ops true allocOk junk = .done nb) : nb.buffer.isSome ↔ 0 ≤ nb.result.encoded := by
  rcases to_new_buffer_exact syn ops true allocOk junk with ⟨ha, _⟩ | ⟨nb', hres, hr, _, hiff, _⟩
  · rw [ha] at h; cases h
  · rw [h] at hres; injection hres with hres; subst hres
    rw [hr]
    have hnf := not_allocFailed allocOk hall nb.key.allocs
    constructor
    · intro hsome
      apply Decidable.byContradiction
      intro hlt
      have := hiff.mpr (Or.inl (by omega))
      rw [this] at hsome; cases hsome
    · intro h0
      cases hb : nb.buffer with
      | some b => rfl
      | none =>
        rcases hiff.mp hb with hlt | hf
        · omega
        · exact absurd hf hnf

/-- **the documented contract** ("On success, returns a newly allocated (.buffer) containing the whole message, the
    message size is returned in (.result.encoded); on failure (.buffer) is NULL"): allocations succeed and the encoder's
    accounting is exact ⇒ the call returns; if the encoding succeeded the buffer's first `.encoded = total` octets are
    the concatenated output, followed by a NUL; if it failed the buffer is NULL -/
theorem to_new_buffer_success (syn : Syntax) (ops : Option TypeOps) (allocOk : Nat → Bool) (junk : Nat)
    (hall : ∀ i, allocOk i = true) (hA : Accurate syn ops) :
    ∃ nb, asnEncodeToNewBuffer syn ops true allocOk junk = .done nb ∧ nb.result = reported syn ops ∧
      (0 ≤ nb.result.encoded →
        ∃ b, nb.buffer = some b ∧ nb.result.encoded = (total (delivered syn ops) : Int) ∧
             b.take (total (delivered syn ops)) = (delivered syn ops).flatten ∧
             b[total (delivered syn ops)]? = some 0) ∧
      (nb.result.encoded < 0 → nb.buffer = none) := by
  rcases to_new_buffer_exact syn ops true allocOk junk with ⟨_, hbad⟩ | ⟨nb, hres, hr, _, hiff, hb⟩
  · exact absurd hbad ((accurate_iff_not_bad syn ops).mp hA)
  · refine ⟨nb, hres, hr, ?_, ?_⟩
    · intro h0
      have hsome := (to_new_buffer_nonnull syn ops allocOk junk hall nb hres).mpr h0
      cases hbuf : nb.buffer with
      | none => rw [hbuf] at hsome; cases hsome
      | some b =>
        obtain ⟨he, _, _, htake, hnul⟩ := hb b hbuf
        exact ⟨b, rfl, he, htake, hnul⟩
    · intro hlt
      exact hiff.mpr (Or.inl (by rw [← hr]; exact hlt))

/-- **F39 repaired — no buffer on failure**, for every encoder, syntax and allocator behaviour: whenever the call
    returns `.encoded < 0` the buffer is NULL (nothing for the caller to leak) -/
theorem to_new_buffer_failure_null (syn : Syntax) (ops : Option TypeOps) (mallocOk : Bool) (allocOk : Nat → Bool) (junk : Nat)
    (nb : NewBuffer) (h : asnEncodeToNewBuffer syn ops mallocOk allocOk junk = .done nb) (hf : nb.result.encoded < 0) :
    nb.buffer = none := by
  rcases to_new_buffer_exact syn ops mallocOk allocOk junk with ⟨ha, _⟩ | ⟨nb', hres, hr, _, hiff, _⟩
  · rw [ha] at h; cases h
  · rw [h] at hres; injection hres with hres; subst hres
    exact hiff.mpr (Or.inl (by rw [← hr]; exact hf))

/-- the former F39 witness shapes (an encoder that refuses at once; an encoder that refuses after having emitted a
    prefix): `.encoded = -1`, errno EBADF and **no buffer** (formerly: the 16-octet block allocated up front) -/
theorem to_new_buffer_failure_witness :
    (∃ nb, asnEncodeToNewBuffer .der (some (TypeOps.all (.ret (.fail .hasEnc)))) true (fun _ => true) 0 = .done nb ∧
      nb.result = ⟨-1, some .EBADF⟩ ∧ nb.buffer = none) ∧
    (∃ nb, asnEncodeToNewBuffer .canonicalUper
        (some (TypeOps.all (Enc.ofRun [[0x80, 0x01]] (.fail .hasEnc)))) true (fun _ => true) 0 = .done nb ∧
      nb.result = ⟨-1, some .EBADF⟩ ∧ nb.buffer = none ∧ nb.key.computedSize = 2) := by
  refine ⟨⟨_, rfl, ?_, ?_⟩, ⟨_, rfl, ?_, ?_, ?_⟩⟩ <;> decide

/-- a failed initial allocation gives NULL together with the full size (the documented ENOMEM case) -/
theorem to_new_buffer_malloc_failure (syn : Syntax) (ops : Option TypeOps) (allocOk : Nat → Bool) (junk : Nat)
    (hA : Accurate syn ops) :
    ∃ nb, asnEncodeToNewBuffer syn ops false allocOk junk = .done nb ∧ nb.buffer = none ∧ nb.result = reported syn ops := by
  rcases to_new_buffer_exact syn ops false allocOk junk with ⟨_, hbad⟩ | ⟨nb, hres, hr, _, hiff, _⟩
  · exact absurd hbad ((accurate_iff_not_bad syn ops).mp hA)
  · exact ⟨nb, hres, hiff.mpr (Or.inr (Or.inl rfl)), hr⟩

/-! ## 4. a failing output callback ⇒ -1 with errno EIO -/

/-- **failing callback**: if the encoder selected for the syntax meets the obligation `Propagates` ("if the callback
    returns < 0 the encoder returns -1"), then for *every* invocation index k of the fault-free run — including the extra
    zero octet UPER adds — `asn_encode` returns -1 with errno EIO, and the chunks accepted before k are exactly the first k
    chunks of the fault-free output. -/
theorem failing_cb_gives_EIO (syn : Syntax) (hs : Standard syn) (ops : TypeOps) (e : Enc)
    (hsel : selected syn ops = some e) (hP : Propagates e)
    (k : Nat) (hk : k < (delivered syn (some ops)).length) :
    ∃ st, asnEncode syn (some ops) (some (failAtCb (some k))) {} = .done (st, ⟨-1, some .EIO⟩) ∧
      st.accepted.take k = (delivered syn (some ops)).take k := by
  have hrun := run_failAt k e hP {} rfl (Nat.zero_le _)
  simp only [Nat.sub_zero, List.nil_append, Nat.zero_add] at hrun
  have hstd : ∀ (enc : Option Enc), enc = some e → k < e.trace.length →
      ∃ st, stdBranch (cbk k) (({} : RecState), false) enc = ((st, true), ⟨-1, some .EBADF⟩) ∧
        st.accepted.take k = e.trace.take k := by
    intro enc he hlt
    obtain ⟨st', h1, h2⟩ := hrun.1 hlt
    exact ⟨st', by subst he; simp only [stdBranch, h1]; rfl, h2⟩
  have hfin : ∀ (st : RecState) (tr : List Bytes), st.accepted.take k = tr.take k →
      asnEncodeInternal syn (some ops) (cbk k) (({} : RecState), false) = ((st, true), ⟨-1, some .EBADF⟩) →
      delivered syn (some ops) = tr →
      ∃ st, asnEncode syn (some ops) (some (failAtCb (some k))) {} = .done (st, ⟨-1, some .EIO⟩) ∧
        st.accepted.take k = (delivered syn (some ops)).take k := by
    intro st tr h2 h1 hd
    refine ⟨st, ?_, by rw [hd]; exact h2⟩
    simp only [asnEncode]
    rw [show failureCatchCb (failAtCb (some k)) = cbk k from rfl, h1]
    simp
  cases syn <;> simp only [Standard] at hs
  case ber =>
    obtain ⟨hd, _⟩ := delivered_reported_bytewise .ber ops e (by simp) hsel
    rw [hd] at hk
    obtain ⟨st, h1, h2⟩ := hstd ops.der hsel hk
    exact hfin st e.trace h2 h1 hd
  case der =>
    obtain ⟨hd, _⟩ := delivered_reported_bytewise .der ops e (by simp) hsel
    rw [hd] at hk
    obtain ⟨st, h1, h2⟩ := hstd ops.der hsel hk
    exact hfin st e.trace h2 h1 hd
  case basicOer =>
    obtain ⟨hd, _⟩ := delivered_reported_bytewise .basicOer ops e (by simp) hsel
    rw [hd] at hk
    obtain ⟨st, h1, h2⟩ := hstd ops.oer hsel hk
    exact hfin st e.trace h2 h1 hd
  case canonicalOer =>
    obtain ⟨hd, _⟩ := delivered_reported_bytewise .canonicalOer ops e (by simp) hsel
    rw [hd] at hk
    obtain ⟨st, h1, h2⟩ := hstd ops.oer hsel hk
    exact hfin st e.trace h2 h1 hd
  case basicXer =>
    obtain ⟨hd, _⟩ := delivered_reported_bytewise .basicXer ops e (by simp) hsel
    rw [hd] at hk
    obtain ⟨st, h1, h2⟩ := hstd (selected .basicXer ops) hsel hk
    exact hfin st e.trace h2 h1 hd
  case canonicalXer =>
    obtain ⟨hd, _⟩ := delivered_reported_bytewise .canonicalXer ops e (by simp) hsel
    rw [hd] at hk
    obtain ⟨st, h1, h2⟩ := hstd (selected .canonicalXer ops) hsel hk
    exact hfin st e.trace h2 h1 hd
  case basicUper =>
    simp only [selected] at hsel
    obtain ⟨hd, _⟩ := delivered_reported_uper .basicUper ops e (by simp) hsel
    by_cases hlt : k < e.trace.length
    · obtain ⟨st', h1, h2⟩ := hrun.1 hlt
      refine hfin st' _ ?_ (by simp only [asnEncodeInternal, hsel, h1]; rfl) hd
      rw [h2, List.take_append_of_le_length (by omega)]
    · have h1 := hrun.2 hlt
      have hz : e.result = .ok 0 := by
        by_cases hz : e.result = .ok 0
        · exact hz
        · rw [hd, if_neg hz] at hk; simp at hk; omega
      rw [hd, if_pos hz] at hk
      have hkeq : k = e.trace.length := by simp at hk; omega
      refine hfin ⟨e.trace.length + 1, e.trace, e.trace.map List.length ++ [1]⟩ _ ?_ ?_ hd
      · rw [hkeq]; simp
      · simp only [asnEncodeInternal, hsel, h1, hz]
        simp [failureCatchCb, failAtCb, hkeq]
  case canonicalUper =>
    simp only [selected] at hsel
    obtain ⟨hd, _⟩ := delivered_reported_uper .canonicalUper ops e (by simp) hsel
    by_cases hlt : k < e.trace.length
    · obtain ⟨st', h1, h2⟩ := hrun.1 hlt
      refine hfin st' _ ?_ (by simp only [asnEncodeInternal, hsel, h1]; rfl) hd
      rw [h2, List.take_append_of_le_length (by omega)]
    · have h1 := hrun.2 hlt
      have hz : e.result = .ok 0 := by
        by_cases hz : e.result = .ok 0
        · exact hz
        · rw [hd, if_neg hz] at hk; simp at hk; omega
      rw [hd, if_pos hz] at hk
      have hkeq : k = e.trace.length := by simp at hk; omega
      refine hfin ⟨e.trace.length + 1, e.trace, e.trace.map List.length ++ [1]⟩ _ ?_ ?_ hd
      · rw [hkeq]; simp
      · simp only [asnEncodeInternal, hsel, h1, hz]
        simp [failureCatchCb, failAtCb, hkeq]

/-- the obligation is satisfiable for every chunk list: `Enc.ofRun` propagates -/
theorem ofRun_propagates (chunks : List Bytes) (out : Outcome) : Propagates (Enc.ofRun chunks out) := by
  induction chunks with
  | nil => trivial
  | cons c cs ih => exact ⟨rfl, ih⟩

/-- chunk-list form of `failing_cb_gives_EIO` -/
theorem failing_cb_gives_EIO_chunks (chunks : List Bytes) (out : Outcome) (k : Nat) (hk : k < chunks.length) :
    ∃ st, asnEncode .der (some (TypeOps.all (Enc.ofRun chunks out))) (some (failAtCb (some k))) {} = .done (st, ⟨-1, some .EIO⟩) ∧
      st.accepted.take k = chunks.take k := by
  have hd := (delivered_reported_bytewise .der (TypeOps.all (Enc.ofRun chunks out)) _ (by simp) rfl).1
  rw [trace_ofRun] at hd
  have := failing_cb_gives_EIO .der trivial (TypeOps.all (Enc.ofRun chunks out)) _ rfl (ofRun_propagates chunks out) k (by rw [hd]; exact hk)
  rw [hd] at this
  exact this

/-- **F9 / F70 shape (counter-example)**: an encoder that ignores the callback's verdict (e.g. the unchecked
    `asn_put_aligned_flush` of SEQUENCE_encode_oer, the `break` of SET_OF_encode_uper) and reports success makes
    `asn_encode` abort on `assert(er.encoded == -1)` instead of returning -1/EIO. -/
theorem swallowing_encoder_aborts_cex :
    asnEncode .canonicalOer (some (TypeOps.all (.emit [0xc0] (.ret (.ok 1)) (.ret (.ok 1))))) (some (failAtCb (some 0))) {} = .abort := by
  decide

/-- **F71 shape (counter-example)**: an encoder that returns -1 but clears `failed_type` (NULL_encode_der) makes
    `asn_encode_internal` pick ENOENT, and `asn_encode` aborts on `assert(errno == EBADF)`. -/
theorem blame_cleared_aborts_cex :
    asnEncode .der (some (TypeOps.all (.emit [5, 0] (.ret (.ok 2)) (.ret (.fail .noEnc))))) (some (failAtCb (some 0))) {} = .abort := by
  decide

/-- NULL callback: EINVAL -/
theorem encode_null_callback (syn : Syntax) (ops : Option TypeOps) :
    asnEncode (σ := Unit) syn ops none () = .done ((), ⟨-1, some .EINVAL⟩) := rfl

/-! ## 5. reported size = octets delivered -/

/-- **asn_encode** with a callback that accepts everything: the callback receives `delivered`, the call returns `reported`,
    and with exact encoder accounting a non-negative result is the number of octets the callback received. -/
theorem reported_eq_delivered (syn : Syntax) (ops : Option TypeOps) :
    asnEncode syn ops (some (failAtCb none)) {} =
      .done (⟨(delivered syn ops).length, delivered syn ops, (delivered syn ops).map List.length⟩, reported syn ops) ∧
    (Accurate syn ops → 0 ≤ (reported syn ops).encoded → (reported syn ops).encoded = (total (delivered syn ops) : Int)) := by
  refine ⟨?_, fun hA h0 => hA h0⟩
  have hnf : NeverFails (failureCatchCb (failAtCb none)) := by
    intro s c; simp [failureCatchCb, failAtCb]
  simp only [asnEncode]
  rw [internal_neverFails _ hnf]
  have hfold : ∀ (cs : List Bytes) (st : RecState),
      foldCb (failureCatchCb (failAtCb none)) (st, false) cs =
        (⟨st.calls + cs.length, st.accepted ++ cs, st.sizes ++ cs.map List.length⟩, false) := by
    intro cs
    induction cs with
    | nil => intro st; simp
    | cons c cs ih =>
      intro st
      simp only [foldCb_cons]
      have : (failureCatchCb (failAtCb none) (st, false) c).1 = (⟨st.calls + 1, st.accepted ++ [c], st.sizes ++ [c.length]⟩, false) := by
        simp [failureCatchCb, failAtCb]
      rw [this, ih]
      simp [Nat.add_assoc, Nat.add_comm 1]
  rw [hfold]
  simp

/-- the buffer variants enforce the equality themselves: whenever they return a non-negative size it equals the
    octets counted (`computed_size`) — otherwise they `assert` -/
theorem reported_eq_delivered_buffers (syn : Syntax) (ops : Option TypeOps) :
    (∀ buf tail key r, asnEncodeToBuffer syn ops (some (buf ++ tail)) buf.length = .done (key, r) → 0 ≤ r.encoded →
        r.encoded = (key.computedSize : Int) ∧ key.computedSize = total (delivered syn ops)) ∧
    (∀ mallocOk allocOk junk nb, asnEncodeToNewBuffer syn ops mallocOk allocOk junk = .done nb → 0 ≤ nb.result.encoded →
        nb.result.encoded = (nb.key.computedSize : Int) ∧ nb.key.computedSize = total (delivered syn ops)) := by
  constructor
  · intro buf tail key r h h0
    obtain ⟨h1, _⟩ := to_buffer_encoded_eq_total syn ops buf tail key r h h0
    obtain ⟨_, _, _, _, hc, _⟩ := to_buffer_no_overrun syn ops buf tail key r h
    exact ⟨by rw [h1, hc], hc⟩
  · intro mallocOk allocOk junk nb h h0
    rcases to_new_buffer_exact syn ops mallocOk allocOk junk with ⟨ha, _⟩ | ⟨nb', hres, hr, hc, _, _⟩
    · rw [ha] at h; cases h
    · rw [h] at hres; injection hres with hres; subst hres
      refine ⟨?_, hc⟩
      have hnb : ¬ BadAccounting syn ops := by
        intro hbad
        rw [toNewBuffer_closed, if_pos hbad] at h; cases h
      rw [hr, hc]
      rw [hr] at h0
      exact (accurate_iff_not_bad syn ops).mpr hnb h0

/-- exact accounting in terms of the encoder: byte-oriented syntaxes need `claimed = Σ|chunk|`,
    UPER needs `(bits + 7) / 8 = Σ|chunk|` and "0 bits ⇒ nothing flushed" -/
theorem accurate_of_encoder (syn : Syntax) (ops : TypeOps) (e : Enc) (hsel : selected syn ops = some e) :
    ((syn = .ber ∨ syn = .der ∨ syn = .basicOer ∨ syn = .canonicalOer ∨ syn = .basicXer ∨ syn = .canonicalXer) →
      (∀ n, e.result = .ok n → n = total e.trace) → Accurate syn (some ops)) ∧
    ((syn = .basicUper ∨ syn = .canonicalUper) →
      (∀ bits, e.result = .ok bits → (bits = 0 ∧ total e.trace = 0) ∨ (0 < bits ∧ (bits + 7) / 8 = total e.trace)) →
      Accurate syn (some ops)) := by
  constructor
  · intro hs hacc
    obtain ⟨hd, hr⟩ := delivered_reported_bytewise syn ops e hs hsel
    unfold Accurate
    rw [hd, hr]
    cases hres : e.result with
    | ok n => intro _; simp [hacc n hres]
    | fail b => intro h; simp at h
  · intro hs hacc
    have hsel' : ops.uper = some e := by rcases hs with rfl | rfl <;> simpa [selected] using hsel
    obtain ⟨hd, hr⟩ := delivered_reported_uper syn ops e hs hsel'
    unfold Accurate
    rw [hd, hr]
    cases hres : e.result with
    | ok bits =>
      intro _
      rcases hacc bits hres with ⟨hb, ht⟩ | ⟨hb, ht⟩
      · subst hb; simp [total_append, ht, total_cons, total_nil]
      · have hne : bits ≠ 0 := by omega
        simp [hne, ht]
    | fail b => intro h; simp at h

/-! ## 6. a value the encoder refuses ⇒ -1 with errno, from every wrapper, never an abort -/

/-- **clean failure**: when the selected encoder returns -1 (violated constraint, missing mandatory member, unselected
    CHOICE …) all three wrappers return -1 with errno set (EBADF, or ENOENT when the blamed type has no encoder);
    no `assert` fires; the buffer variant does so for every buffer size; the new-buffer variant returns no buffer. -/
theorem unencodable_clean (syn : Syntax) (hs : Standard syn) (ops : TypeOps) (e : Enc) (b : Blame)
    (hsel : selected syn ops = some e) (hfail : e.result = .fail b) :
    reported syn (some ops) = ⟨-1, some (errnoOfBlame b)⟩ ∧
    (∃ st, asnEncode syn (some ops) (some (failAtCb none)) {} = .done (st, ⟨-1, some (errnoOfBlame b)⟩)) ∧
    (∀ buf tail, (asnEncodeToBuffer syn (some ops) (some (buf ++ tail)) buf.length).map Prod.snd = .done ⟨-1, some (errnoOfBlame b)⟩) ∧
    (∀ mallocOk allocOk junk, ∃ nb, asnEncodeToNewBuffer syn (some ops) mallocOk allocOk junk = .done nb ∧
        nb.result = ⟨-1, some (errnoOfBlame b)⟩ ∧ nb.buffer = none) := by
  have hrep : reported syn (some ops) = ⟨-1, some (errnoOfBlame b)⟩ := by
    cases syn <;> simp only [Standard] at hs
    case basicUper => have := (delivered_reported_uper .basicUper ops e (by simp) (by simpa [selected] using hsel)).2; rw [this, hfail]
    case canonicalUper => have := (delivered_reported_uper .canonicalUper ops e (by simp) (by simpa [selected] using hsel)).2; rw [this, hfail]
    all_goals (have := (delivered_reported_bytewise _ ops e (by simp) hsel).2; rw [this, hfail])
  have hnb : ¬ BadAccounting syn (some ops) := by
    unfold BadAccounting; rw [hrep]; simp
  refine ⟨hrep, ?_, ?_, ?_⟩
  · exact ⟨_, by rw [(reported_eq_delivered syn (some ops)).1, hrep]⟩
  · intro buf tail
    rw [to_buffer_size_independent]
    unfold toBufferRet
    rw [if_neg hnb, hrep]
  · intro mallocOk allocOk junk
    rcases to_new_buffer_exact syn (some ops) mallocOk allocOk junk with ⟨_, hbad⟩ | ⟨nb, hres, hr, _, hiff, _⟩
    · exact absurd hbad hnb
    · exact ⟨nb, hres, by rw [hr, hrep], hiff.mpr (Or.inl (by rw [hrep]; show (-1 : Int) < 0; decide))⟩

/-! ## 7. encoder shapes that meet the obligation (the `ASN__CALLBACK` / "return er on -1" idioms) -/

/-- `if(cb(chunk) < 0) ASN__ENCODE_FAILED;` then continue -/
def step (c : Bytes) (k : Enc) : Enc := .emit c k (.ret (.fail .hasEnc))

/-- `er = sub(...); if(er.encoded == -1) return er; … continue with the count` -/
def andThen : Enc → (Nat → Enc) → Enc
  | .ret (.ok n), g => g n
  | .ret (.fail b), _ => .ret (.fail b)
  | .emit c k f, g => .emit c (andThen k g) (andThen f g)

theorem step_propagates (c : Bytes) (k : Enc) (h : Propagates k) : Propagates (step c k) := ⟨rfl, h⟩

theorem andThen_failsEventually (e : Enc) (g : Nat → Enc) (h : FailsEventually e) : FailsEventually (andThen e g) := by
  induction e with
  | ret o => cases o with
    | ok n => simp [FailsEventually] at h
    | fail b => simpa [andThen] using h
  | emit c k f ihk ihf => exact ⟨ihk h.1, ihf h.2⟩

/-- sequencing members (SEQUENCE, SEQUENCE OF, tags-then-contents) preserves the obligation -/
theorem andThen_propagates (e : Enc) (g : Nat → Enc) (he : Propagates e) (hg : ∀ n, Propagates (g n)) :
    Propagates (andThen e g) := by
  induction e with
  | ret o => cases o with
    | ok n => exact hg n
    | fail b => trivial
  | emit c k f ihk _ => exact ⟨andThen_failsEventually f g he.1, ihk he.2⟩

/-- an unchecked callback (`asn_put_aligned_flush(&preamble);` in SEQUENCE_encode_oer) breaks the obligation
    as soon as the rest of the encoder can still succeed -/
theorem unchecked_emit_not_propagates (c : Bytes) (k : Enc) (n : Nat) (h : k.result = .ok n) (hk : k.trace = []) :
    ¬ Propagates (.emit c k k) := by
  intro ⟨hf, _⟩
  cases k with
  | ret o => simp [Enc.result] at h; subst h; simp [FailsEventually] at hf
  | emit c' k' f' => simp [Enc.trace] at hk

/-! ## non-vacuity: the hypotheses used above have concrete instances -/

/-- a DER-style run (tag/length chunk, contents chunk) with exact accounting -/
example : Accurate .der (some (TypeOps.all (Enc.ofRun [[0x30, 0x03], [1, 1, 0xff]] (.ok 5)))) := by
  unfold Accurate; decide

/-- UPER: 10 bits flushed as 2 octets; and the 0-bit encoding completed by one zero octet -/
example : Accurate .canonicalUper (some (TypeOps.all (Enc.ofRun [[0xc1, 0x40]] (.ok 10)))) ∧
    delivered .canonicalUper (some (TypeOps.all (Enc.ofRun [] (.ok 0)))) = [[0]] ∧
    reported .canonicalUper (some (TypeOps.all (Enc.ofRun [] (.ok 0)))) = ⟨1, none⟩ := by
  refine ⟨by unfold Accurate; decide, by decide, by decide⟩

/-- `unencodable_clean` applies to e.g. an encoder that refuses after having emitted a prefix -/
example : ∃ e : Enc, e.result = .fail .hasEnc ∧ e.trace = [[0x30, 0x80]] ∧ Propagates e :=
  ⟨Enc.ofRun [[0x30, 0x80]] (.fail .hasEnc), by decide, by decide, ofRun_propagates _ _⟩

/-- a buffer of 4 octets, output of 5 octets in two chunks: only the first chunk is copied, the canary survives, 5 is returned -/
example :
    (asnEncodeToBuffer .der (some (TypeOps.all (Enc.ofRun [[0x30, 0x03], [1, 1, 0xff]] (.ok 5))))
      (some ([0xa5, 0xa5, 0xa5, 0xa5] ++ [0xc3, 0xc3])) 4).map (fun r => (r.1.mem, r.2.encoded))
      = .done ([0x30, 0x03, 0xa5, 0xa5, 0xc3, 0xc3], 5) := by
  decide

end Asn1c.Props.C07
