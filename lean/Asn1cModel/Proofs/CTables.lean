import Asn1cModel.Proofs.CRangeChain
import Asn1cModel.Impl.CTables
/- C09 helper lemmas, third part: the bit-count loops of `emit_single_member_PER_constraint`. -/
import Mathlib.Tactic.NormNum
import Mathlib.Tactic.Ring
namespace Asn1c.Impl.CTables
open Asn1c.Impl.CRange Asn1c.Spec.Constraint

/-- the "compute real constraint" loop finds the least `k` with `r ≤ 2^k` -/
theorem rbitsLoop_spec (r : Int) (hr : r ≤ 2 ^ 126) : ∀ (k rbits : Nat) (cover : Int), cover = 2 ^ rbits →
    (∀ j, j < rbits → (2:Int) ^ j < r) → rbits ≤ 126 → 126 ≤ rbits + k →
    ∃ n : Nat, rbitsLoop r k rbits cover = n ∧ IsRangeBits r n := by
  intro k
  induction k with
  | zero =>
    intro rbits cover _ hlow h1 h2
    have : rbits = 126 := by omega
    subst this
    exact ⟨126, rfl, hr, hlow⟩
  | succ k ih =>
    intro rbits cover hcov hlow hb1 hb2
    simp only [rbitsLoop]
    by_cases h1 : r ≤ cover
    · simp only [h1, if_true]
      exact ⟨rbits, rfl, by rw [← hcov]; exact h1, hlow⟩
    · simp only [h1, if_false]
      have hrb : rbits < 126 := by
        by_contra hge
        have : rbits = 126 := by omega
        subst this; rw [hcov] at h1; exact h1 hr
      have hc2 : cover * 2 = 2 ^ (rbits + 1) := by rw [hcov, pow_succ]
      have hlt : ¬ (cover * 2 ≥ 2 ^ 127) := by
        rw [hc2]
        have h3 : (2:Int) ^ (rbits + 1) ≤ 2 ^ 126 := pow_le_pow_right₀ (by norm_num) (by omega)
        have h4 : (2:Int) ^ 126 < 2 ^ 127 := by norm_num
        omega
      simp only [hlt, if_false]
      apply ih (rbits + 1) (cover * 2) hc2
      · intro j hj
        by_cases hj' : j < rbits
        · exact hlow j hj'
        · have : j = rbits := by omega
          subst this; rw [← hcov]; omega
      · omega
      · omega

theorem rangeBits_spec {r : Int} (h : r ≤ 2 ^ 126) : ∃ n : Nat, rangeBits r = n ∧ IsRangeBits r n := by
  unfold rangeBits
  exact rbitsLoop_spec r h 128 0 1 (by norm_num) (by intro j hj; omega) (by omega) (by omega)

/-- `IsRangeBits` determines the number -/
theorem isRangeBits_unique {r : Int} {a b : Nat} (ha : IsRangeBits r a) (hb : IsRangeBits r b) : a = b := by
  by_contra hne
  rcases Nat.lt_or_gt_of_ne hne with h | h
  · have := hb.2 a h; have := ha.1; omega
  · have := ha.2 b h; have := hb.1; omega

theorem ebitsLoop_spec (r : Int) : ∀ (k e : Nat), e + k = 17 → (∀ j, j < e → (2:Int) ^ j < r) →
    (∃ n : Nat, n ≤ 16 ∧ ebitsLoop r k e = n ∧ IsRangeBits r n) ∨ (ebitsLoop r k e = 17 ∧ (2:Int) ^ 16 < r) := by
  intro k
  induction k with
  | zero =>
    intro e he hlow
    have : e = 17 := by omega
    subst this
    exact Or.inr ⟨rfl, hlow 16 (by omega)⟩
  | succ k ih =>
    intro e he hlow
    simp only [ebitsLoop]
    by_cases h1 : r ≤ 2 ^ e
    · simp only [h1, if_true]
      exact Or.inl ⟨e, by omega, rfl, h1, hlow⟩
    · simp only [h1, if_false]
      apply ih (e + 1) (by omega)
      intro j hj
      by_cases hj' : j < e
      · exact hlow j hj'
      · have : j = e := by omega
        subst this; omega

/-- X.691 10.9.4.1 for sizes: with `0 ≤ lb`, `effective_bits` is the range bit count when
    `ub < 64K` and −1 otherwise -/
theorem effBits_spec {l u : Int} (hl : 0 ≤ l) (_hlu : l ≤ u) (hu : u ≤ 2 ^ 64) :
    effBits (1 + u - l) u = if u < 65536 then rangeBits (1 + u - l) else -1 := by
  unfold effBits
  obtain ⟨n, hn1, hn2⟩ := rangeBits_spec (r := 1 + u - l) (by
    have : (2:Int) ^ 64 ≤ 2 ^ 126 := by norm_num
    omega)
  by_cases h : u < 65536
  · simp only [h, if_true]
    rcases ebitsLoop_spec (1 + u - l) 17 0 (by omega) (by intro j hj; omega) with ⟨m, hm1, hm2, hm3⟩ | ⟨_, hbig⟩
    · rw [hm2, hn1, isRangeBits_unique hm3 hn2]
      have : ¬ ((n : Int) == 17) = true := by
        have := isRangeBits_unique hm3 hn2; subst this; simp; omega
      simp only [this, Bool.false_or]
      have : ¬ (u ≥ 65536) := by omega
      simp [this]
    · exfalso
      have : (2:Int) ^ 16 = 65536 := by norm_num
      omega
  · have : u ≥ 65536 := by omega
    simp [h, this]

end Asn1c.Impl.CTables
