import Asn1cModel.Impl.Oid
import Asn1cModel.Spec.Oid
/- Helper lemmas for C17 (OBJECT IDENTIFIER / RELATIVE-OID arcs).  Property theorems: Props/C17Oid.lean. -/
namespace Asn1c.Proofs.Oid
open Asn1c Asn1c.Impl.Oid Asn1c.Spec.Oid

/-! ### base-128 encoder -/

theorem base128hi_zero : base128hi 0 = [] := by
  rw [base128hi]; simp

theorem base128hi_pos (n : Nat) (h : n ≠ 0) :
    base128hi n = base128hi (n / 128) ++ [128 + n % 128] := by
  rw [base128hi]; simp [h]

/-- every octet has bit 8 set -/
def AllHi (bs : Bytes) : Prop := ∀ b ∈ bs, 128 ≤ b ∧ b < 256

theorem allHi_nil : AllHi [] := by intro b hb; simp at hb

theorem allHi_cons {b : Nat} {bs : Bytes} : AllHi (b :: bs) ↔ (128 ≤ b ∧ b < 256) ∧ AllHi bs := by
  unfold AllHi; simp

theorem allHi_append {xs ys : Bytes} : AllHi (xs ++ ys) ↔ AllHi xs ∧ AllHi ys := by
  unfold AllHi; simp only [List.mem_append]
  constructor
  · intro h; exact ⟨fun b hb => h b (Or.inl hb), fun b hb => h b (Or.inr hb)⟩
  · rintro ⟨h1, h2⟩ b (hb | hb)
    · exact h1 b hb
    · exact h2 b hb

theorem base128hi_allHi (n : Nat) : AllHi (base128hi n) := by
  fun_induction base128hi n with
  | case1 => exact allHi_nil
  | case2 n h ih =>
    rw [allHi_append]; refine ⟨ih, ?_⟩
    rw [allHi_cons]; exact ⟨by omega, allHi_nil⟩

theorem isSubid_hi_append (hs : Bytes) (bs : Bytes) (h : AllHi hs) (hb : IsSubid bs) :
    IsSubid (hs ++ bs) := by
  induction hs with
  | nil => simpa using hb
  | cons x xs ih =>
    rw [allHi_cons] at h
    have := ih h.2
    cases hxs : xs ++ bs with
    | nil => rw [hxs] at this; simp [IsSubid] at this
    | cons y ys =>
      rw [hxs] at this
      simp only [List.cons_append, hxs, IsSubid]
      exact ⟨h.1.1, h.1.2, this⟩

theorem isSubid_single {l : Nat} (h : l < 128) : IsSubid [l] := by simpa [IsSubid] using h

/-- a complete sub-identifier is a run of octets with bit 8 set followed by one with bit 8 clear -/
theorem isSubid_split (bs : Bytes) (h : IsSubid bs) :
    ∃ hs l, bs = hs ++ [l] ∧ AllHi hs ∧ l < 128 := by
  induction bs with
  | nil => simp [IsSubid] at h
  | cons b bs ih =>
    cases bs with
    | nil => exact ⟨[], b, rfl, allHi_nil, by simpa [IsSubid] using h⟩
    | cons b' bs' =>
      simp only [IsSubid] at h
      obtain ⟨hs, l, e, hh, hl⟩ := ih h.2.2
      exact ⟨b :: hs, l, by rw [e]; rfl, allHi_cons.mpr ⟨⟨h.1, h.2.1⟩, hh⟩, hl⟩

theorem isSubid_ne_nil (bs : Bytes) (h : IsSubid bs) : bs ≠ [] := by
  intro e; subst e; simp [IsSubid] at h

theorem base128_isSubid (n : Nat) : IsSubid (base128 n) := by
  unfold base128
  exact isSubid_hi_append _ _ (base128hi_allHi _) (isSubid_single (by omega))

theorem subidVal_append (acc : Nat) (xs ys : Bytes) :
    subidVal acc (xs ++ ys) = subidVal (subidVal acc xs) ys := by
  induction xs generalizing acc with
  | nil => rfl
  | cons x xs ih => simp only [List.cons_append, subidVal]; exact ih _

theorem subidVal_base128hi (n : Nat) : subidVal 0 (base128hi n) = n := by
  fun_induction base128hi n with
  | case1 => rfl
  | case2 n h ih =>
    rw [subidVal_append, ih]; simp only [subidVal]; omega

theorem subidVal_base128 (n : Nat) : subidVal 0 (base128 n) = n := by
  unfold base128
  rw [subidVal_append, subidVal_base128hi]; simp only [subidVal]; omega

/-- the leading octet of `base128hi n` (n ≠ 0) carries a non-zero digit -/
theorem base128hi_head (n : Nat) (h : n ≠ 0) :
    ∃ d t, base128hi n = (128 + d) :: t ∧ 0 < d ∧ d < 128 := by
  fun_induction base128hi n with
  | case1 => exact absurd rfl h
  | case2 n hn ih =>
    by_cases h0 : n / 128 = 0
    · rw [h0, base128hi_zero]
      exact ⟨n % 128, [], rfl, by omega, by omega⟩
    · obtain ⟨d, t, e, hd⟩ := ih h0
      rw [e]
      exact ⟨d, t ++ [128 + n % 128], rfl, hd⟩

theorem minimalSubid_cons {b : Nat} {bs : Bytes} (h : b ≠ 128) : MinimalSubid (b :: bs) := by
  unfold MinimalSubid
  split
  · rename_i heq; simp at heq; exact absurd heq.1 h
  · trivial

theorem base128_minimal (n : Nat) : MinimalSubid (base128 n) := by
  unfold base128
  by_cases h0 : n / 128 = 0
  · rw [h0, base128hi_zero]
    exact minimalSubid_cons (by omega)
  · obtain ⟨d, t, e, hd⟩ := base128hi_head _ h0
    rw [e]
    exact minimalSubid_cons (by omega)

theorem base128hi_length_le (k n : Nat) (h : n < 128 ^ k) : (base128hi n).length ≤ k := by
  induction k generalizing n with
  | zero =>
    have : n = 0 := by simpa using h
    subst this; rw [base128hi_zero]; simp
  | succ k ih =>
    by_cases h0 : n = 0
    · subst h0; rw [base128hi_zero]; simp
    · rw [base128hi_pos n h0]
      have : n / 128 < 128 ^ k := by
        rw [Nat.pow_succ] at h
        exact Nat.div_lt_of_lt_mul (by rw [Nat.mul_comm]; exact h)
      have := ih _ this
      simp; omega

theorem base128_length_le5 (n : Nat) (h : n < 4294967296) : (base128 n).length ≤ 5 := by
  unfold base128
  have := base128hi_length_le 4 (n / 128) (by
    have : (128 : Nat) ^ 4 = 268435456 := by decide
    omega)
  simp; omega

theorem base128_length_pos (n : Nat) : 0 < (base128 n).length := by
  unfold base128; simp

theorem base128_wf (n : Nat) : Bytes.wf (base128 n) := by
  unfold base128
  intro b hb
  rw [List.mem_append] at hb
  rcases hb with hb | hb
  · exact (base128hi_allHi _ b hb).2
  · simp at hb; omega

end Asn1c.Proofs.Oid

namespace Asn1c.Proofs.Oid
open Asn1c Asn1c.Impl.Oid Asn1c.Spec.Oid

/-! ### set_single_arc / set_arcs -/

theorem setSingleLoop_eq (v mask : Nat) (acc : Bytes) :
    setSingleLoop v mask acc = base128hi (v / 128) ++ (mask + v % 128) :: acc := by
  fun_induction setSingleLoop v mask acc with
  | case1 v mask acc h => rw [h, base128hi_zero]; rfl
  | case2 v mask acc h ih =>
    rw [ih, base128hi_pos (v / 128) h, List.append_assoc]; rfl

theorem setSingleLoop_base128 (v : Nat) : setSingleLoop v 0 [] = base128 v := by
  rw [setSingleLoop_eq]; unfold base128; simp

theorem setSingleArc_eq (buflen v : Nat) :
    setSingleArc buflen v = if (base128 v).length ≤ buflen then some (base128 v) else none := by
  unfold setSingleArc
  rw [setSingleLoop_base128]
  by_cases h : (base128 v).length ≤ buflen
  · rw [if_pos h, if_neg (by omega)]
  · rw [if_neg h, if_pos (by omega)]

theorem setSingleArc_fits (buflen v : Nat) (hv : v < 4294967296) (hb : 5 ≤ buflen) :
    setSingleArc buflen v = some (base128 v) := by
  rw [setSingleArc_eq, if_pos]
  have := base128_length_le5 v hv; omega

theorem arcs32_tail {a : Nat} {arcs : List Nat} (h : Arcs32 (a :: arcs)) : Arcs32 arcs :=
  fun x hx => h x (List.mem_cons_of_mem _ hx)

theorem arcs32_head {a : Nat} {arcs : List Nat} (h : Arcs32 (a :: arcs)) : a < 4294967296 := by
  have := h a (by simp)
  have e : (2 : Nat) ^ 32 = 4294967296 := by decide
  omega

/-- invariant of the `set_arcs` loop: with room for five octets per remaining arc the size test of
    `set_single_arc` never fires -/
theorem setArcsLoop_eq (size : Nat) (out : Bytes) (arcs : List Nat) (h32 : Arcs32 arcs)
    (hsz : 5 * arcs.length ≤ size) :
    setArcsLoop size out arcs = .ok (out ++ arcs.flatMap base128) := by
  induction arcs generalizing size out with
  | nil => simp [setArcsLoop]
  | cons a rest ih =>
    have ha := arcs32_head h32
    have hl := base128_length_le5 a ha
    simp only [List.length_cons] at hsz
    unfold setArcsLoop
    rw [setSingleArc_fits size a ha (by omega)]
    simp only
    rw [ih _ _ (arcs32_tail h32) (by omega)]
    simp [List.flatMap_cons]

/-! ### get_single_arc -/

theorem arcMax_eq : arcMax = 4294967295 := rfl

/-- reading further octets never lowers the value -/
theorem subidVal_ge (acc : Nat) (bs : Bytes) : acc ≤ subidVal acc bs := by
  induction bs generalizing acc with
  | nil => simp [subidVal]
  | cons b bs ih =>
    simp only [subidVal]
    have := ih (acc * 128 + b % 128)
    omega

/-- the loop on a complete sub-identifier: the value if it fits 32 bits, ERANGE otherwise — whatever
    the accumulator holds on entry, whatever follows the sub-identifier -/
theorem getSingleLoop_subid (accum pos : Nat) (bs rest : Bytes) (h : IsSubid bs) :
    getSingleLoop accum pos (bs ++ rest) =
      if subidVal accum bs < 4294967296 then .ok (subidVal accum bs) (pos + bs.length) else .erange := by
  induction bs generalizing accum pos with
  | nil => simp [IsSubid] at h
  | cons b bs ih =>
    have hm := arcMax_eq
    cases bs with
    | nil =>
      have hb : b < 128 := by simpa [IsSubid] using h
      have hsv : subidVal accum [b] = accum * 128 + b % 128 := rfl
      rw [List.cons_append, List.nil_append, getSingleLoop]
      by_cases hov : accum > arcMax / 128
      · rw [if_pos hov, if_neg (by omega)]
      · rw [if_neg hov, if_pos (by omega), if_pos (by omega), hsv]
        simp only [List.length_cons, List.length_nil]
        congr 1
        omega
    | cons b' bs' =>
      simp only [IsSubid] at h
      have hsv : subidVal accum (b :: b' :: bs') = subidVal (accum * 128 + b % 128) (b' :: bs') := rfl
      have hge := subidVal_ge (accum * 128 + b % 128) (b' :: bs')
      rw [List.cons_append, getSingleLoop]
      by_cases hov : accum > arcMax / 128
      · rw [if_pos hov, if_neg (by omega)]
      · rw [if_neg hov, if_neg (by omega)]
        rw [ih (accum * 128 % 4294967296 + b % 128) (pos + 1) h.2.2]
        have e : accum * 128 % 4294967296 + b % 128 = accum * 128 + b % 128 := by omega
        rw [e, hsv]
        simp only [List.length_cons]
        have e2 : pos + 1 + (bs'.length + 1) = pos + (bs'.length + 1 + 1) := by omega
        rw [e2]

/-- the loop on octets that all have bit 8 set (the buffer ends inside a sub-identifier): EINVAL,
    unless the part read so far already exceeds 32 bits -/
theorem getSingleLoop_allHi (accum pos : Nat) (bs : Bytes) (h : AllHi bs) :
    getSingleLoop accum pos bs = .einval ∨ getSingleLoop accum pos bs = .erange := by
  induction bs generalizing accum pos with
  | nil => left; rfl
  | cons b bs ih =>
    rw [allHi_cons] at h
    simp only [getSingleLoop]
    split
    · right; rfl
    · rw [if_neg (by omega)]
      exact ih _ _ h.2

theorem getSingleLoop_allHi_small (accum pos : Nat) (bs : Bytes) (h : AllHi bs)
    (hv : subidVal accum bs < 4294967296) : getSingleLoop accum pos bs = .einval := by
  induction bs generalizing accum pos with
  | nil => rfl
  | cons b bs ih =>
    rw [allHi_cons] at h
    simp only [getSingleLoop]
    rw [subidVal] at hv
    have hm := arcMax_eq
    have := subidVal_ge (accum * 128 + b % 128) bs
    rw [if_neg (by omega), if_neg (by omega)]
    have e : accum * 128 % 4294967296 + b % 128 = accum * 128 + b % 128 := by omega
    rw [e]
    exact ih _ _ h.2 hv

theorem getSingleArc_subid (bs rest : Bytes) (h : IsSubid bs) :
    getSingleArc (bs ++ rest) =
      if subidVal 0 bs < 4294967296 then .ok (subidVal 0 bs) bs.length else .erange := by
  unfold getSingleArc
  have hne : bs ++ rest ≠ [] := by
    have := isSubid_ne_nil bs h
    simp [this]
  rw [if_neg hne, getSingleLoop_subid 0 0 bs rest h]
  simp

theorem getSingleArc_base128 (n : Nat) (rest : Bytes) (h : n < 4294967296) :
    getSingleArc (base128 n ++ rest) = .ok n (base128 n).length := by
  rw [getSingleArc_subid _ _ (base128_isSubid n), subidVal_base128, if_pos h]

/-- an octet string either starts with a complete sub-identifier or has bit 8 set everywhere -/
theorem subid_prefix_or_allHi (bs : Bytes) (hwf : Bytes.wf bs) :
    (∃ sub rest, bs = sub ++ rest ∧ IsSubid sub) ∨ AllHi bs := by
  induction bs with
  | nil => right; exact allHi_nil
  | cons b bs ih =>
    have hb : b < 256 := hwf b (by simp)
    have hwf' : Bytes.wf bs := fun x hx => hwf x (List.mem_cons_of_mem _ hx)
    by_cases hlt : b < 128
    · left; exact ⟨[b], bs, rfl, isSubid_single hlt⟩
    · rcases ih hwf' with ⟨sub, rest, e, hs⟩ | hall
      · left
        refine ⟨b :: sub, rest, by rw [e]; rfl, ?_⟩
        have := isSubid_hi_append [b] sub (allHi_cons.mpr ⟨⟨by omega, hb⟩, allHi_nil⟩) hs
        simpa using this
      · right; exact allHi_cons.mpr ⟨⟨by omega, hb⟩, hall⟩

theorem allHi_replicate (k : Nat) : AllHi (List.replicate k 128) := by
  intro b hb
  have := List.eq_of_mem_replicate hb
  omega

theorem subidVal_replicate (k : Nat) : subidVal 0 (List.replicate k 128) = 0 := by
  induction k with
  | zero => rfl
  | succ k ih => simp only [List.replicate_succ, subidVal]; exact ih

/-! ### get_arcs -/

theorem splitFirst_pair (a0 a1 : Nat) (h0 : a0 ≤ 2) (h1 : a0 ≤ 1 → a1 ≤ 39) :
    splitFirst (40 * a0 + a1) = (a0, a1) := by
  unfold splitFirst
  have : a0 = 0 ∨ a0 = 1 ∨ a0 = 2 := by omega
  rcases this with e | e | e <;> subst e
  · have := h1 (by omega)
    rw [if_neg (by omega), if_neg (by omega)]; simp
  · have := h1 (by omega)
    rw [if_neg (by omega), if_pos (by omega)]; simp
  · rw [if_pos (by omega)]; simp

theorem length_le_flatMap_base128 (arcs : List Nat) :
    arcs.length ≤ (arcs.flatMap base128).length := by
  induction arcs with
  | nil => simp
  | cons a rest ih =>
    have := base128_length_pos a
    simp only [List.flatMap_cons, List.length_append, List.length_cons]; omega

theorem getArcsLoop_flatMap (fuel : Nat) (arcs : List Nat) (h32 : Arcs32 arcs)
    (hf : arcs.length + 1 ≤ fuel) :
    getArcsLoop fuel (arcs.flatMap base128) = .ok arcs := by
  induction arcs generalizing fuel with
  | nil =>
    cases fuel with
    | zero => omega
    | succ f => simp [getArcsLoop, getSingleArc]
  | cons a rest ih =>
    cases fuel with
    | zero => omega
    | succ f =>
      simp only [List.length_cons] at hf
      simp only [List.flatMap_cons, getArcsLoop]
      rw [getSingleArc_base128 a _ (arcs32_head h32)]
      simp only [List.drop_left]
      rw [ih f (arcs32_tail h32) (by omega)]

/-- every sub-identifier of the list denotes a 32-bit value -/
def allFit (subs : List Bytes) : Bool := subs.all (fun s => decide (subidVal 0 s < 4294967296))

theorem allFit_cons (s : Bytes) (subs : List Bytes) :
    allFit (s :: subs) = (decide (subidVal 0 s < 4294967296) && allFit subs) := by
  simp [allFit]

theorem length_le_flatten_subids (subs : List Bytes) (h : ∀ s ∈ subs, IsSubid s) :
    subs.length ≤ subs.flatten.length := by
  induction subs with
  | nil => simp
  | cons s rest ih =>
    have hs := isSubid_ne_nil s (h s (by simp))
    have : 0 < s.length := List.length_pos_iff.mpr hs
    have := ih (fun x hx => h x (List.mem_cons_of_mem _ hx))
    simp only [List.flatten_cons, List.length_append, List.length_cons]; omega

/-- the arc loop of `*_get_arcs` on any series of complete sub-identifiers (minimal or not): all the
    values if every one fits 32 bits, ERANGE otherwise -/
theorem getArcsLoop_subids (fuel : Nat) (subs : List Bytes) (h : ∀ s ∈ subs, IsSubid s)
    (hf : subs.length + 1 ≤ fuel) :
    getArcsLoop fuel subs.flatten =
      if allFit subs = true then .ok (subs.map (subidVal 0)) else .erange := by
  induction subs generalizing fuel with
  | nil =>
    cases fuel with
    | zero => omega
    | succ f => simp [getArcsLoop, getSingleArc, allFit]
  | cons s rest ih =>
    cases fuel with
    | zero => omega
    | succ f =>
      simp only [List.length_cons] at hf
      have hs := h s (by simp)
      have hrest : ∀ x ∈ rest, IsSubid x := fun x hx => h x (List.mem_cons_of_mem _ hx)
      simp only [List.flatten_cons, getArcsLoop]
      rw [getSingleArc_subid s _ hs, allFit_cons]
      by_cases hv : subidVal 0 s < 4294967296
      · rw [if_pos hv]
        simp only [List.drop_left]
        rw [ih f hrest (by omega)]
        by_cases ha : allFit rest = true
        · simp [hv, ha]
        · simp [ha]
      · rw [if_neg hv]
        simp [hv]

end Asn1c.Proofs.Oid

namespace Asn1c.Proofs.Oid
open Asn1c Asn1c.Impl.Oid Asn1c.Spec.Oid Asn1c.Impl.Integer

/-! ### decimal numerals and `asn_strtoul_lim` -/

theorem decimal_lt (n : Nat) (h : n < 10) : decimal n = [48 + n] := by
  rw [decimal]; simp [h]

theorem decimal_ge (n : Nat) (h : ¬ n < 10) : decimal n = decimal (n / 10) ++ [48 + n % 10] := by
  rw [decimal]; simp [h]

theorem decimal_head (n : Nat) : ∃ c t, decimal n = c :: t ∧ 48 ≤ c ∧ c ≤ 57 := by
  fun_induction decimal n with
  | case1 n h => exact ⟨48 + n, [], rfl, by omega, by omega⟩
  | case2 n h ih =>
    obtain ⟨c, t, e, hc⟩ := ih
    exact ⟨c, t ++ [48 + n % 10], by rw [e]; rfl, hc⟩

theorem decimal_length_pos (n : Nat) : 0 < (decimal n).length := by
  obtain ⟨c, t, e, _⟩ := decimal_head n
  rw [e]; simp

theorem strtoumaxLoop_digit (ub ldm value pos d : Nat) (rest : List Nat) (hd : d < 10)
    (hv : value < ub) :
    strtoumaxLoop ub ldm value pos ((48 + d) :: rest) =
      strtoumaxLoop ub ldm (value * 10 + d) (pos + 1) rest := by
  have hdig : isDigit (48 + d) = true := by simp [isDigit]; omega
  rw [strtoumaxLoop]
  simp only [hdig, if_true, hv]
  congr 2
  omega

/-- the digit loop of `asn_strtoumax_lim` walks through a decimal numeral as long as the accumulated
    value stays below the `ub` guard -/
theorem strtoumaxLoop_decimal (ub ldm n : Nat) :
    ∀ (acc pos : Nat) (rest : List Nat), acc * 10 ^ (decimal n).length + n < ub →
      strtoumaxLoop ub ldm acc pos (decimal n ++ rest) =
        strtoumaxLoop ub ldm (acc * 10 ^ (decimal n).length + n) (pos + (decimal n).length) rest := by
  fun_induction decimal n with
  | case1 n h =>
    intro acc pos rest hlt
    simp only [List.length_singleton, Nat.pow_one] at hlt ⊢
    rw [List.singleton_append, strtoumaxLoop_digit ub ldm acc pos n rest h (by omega)]
  | case2 n h ih =>
    intro acc pos rest hlt
    simp only [List.length_append, List.length_singleton, Nat.pow_succ] at hlt ⊢
    rw [← Nat.mul_assoc] at hlt ⊢
    generalize hX : acc * 10 ^ (decimal (n / 10)).length = X at *
    rw [List.append_assoc, ih acc pos _ (by rw [hX]; omega), hX, List.singleton_append,
      strtoumaxLoop_digit ub ldm _ _ (n % 10) rest (by omega) (by omega)]
    congr 1 <;> omega

theorem umaxMax_div : umaxMax / 10 = 1844674407370955161 := by decide
theorem umaxMax_mod : umaxMax % 10 = 5 := by decide

theorem strtoumax_decimal (n : Nat) (rest : List Nat) (hn : n < 4294967296) :
    strtoumax (decimal n ++ rest) =
      strtoumaxLoop 1844674407370955161 5 n (decimal n).length rest := by
  have hl := strtoumaxLoop_decimal 1844674407370955161 5 n 0 0 rest (by omega)
  simp only [Nat.zero_mul, Nat.zero_add] at hl
  obtain ⟨c, t, e, hc⟩ := decimal_head n
  rw [← hl, e]
  simp only [List.cons_append]
  unfold strtoumax
  simp only [umaxMax_div, umaxMax_mod]
  rw [if_neg (by omega), if_neg (by omega)]

theorem strtoul_decimal_nil (n : Nat) (hn : n < 4294967296) :
    strtoul (decimal n) = ⟨.ok, (decimal n).length, some (n : Int)⟩ := by
  have := strtoumax_decimal n [] hn
  rw [List.append_nil] at this
  unfold strtoul
  rw [this, strtoumaxLoop]
  simp only
  rw [if_pos (by omega)]

theorem strtoul_decimal_extra (n c : Nat) (rest : List Nat) (hn : n < 4294967296)
    (hc : isDigit c = false) :
    strtoul (decimal n ++ c :: rest) = ⟨.extra, (decimal n).length, some (n : Int)⟩ := by
  unfold strtoul
  rw [strtoumax_decimal n _ hn, strtoumaxLoop]
  simp only [hc, Bool.false_eq_true, if_false]
  rw [if_pos (by omega)]

end Asn1c.Proofs.Oid

namespace Asn1c.Proofs.Oid
open Asn1c Asn1c.Impl.Oid Asn1c.Spec.Oid Asn1c.Impl.Integer

/-! ### parse_arcs -/

theorem strtoul_decimal_sep (n : Nat) (rest : List Nat) (hn : n < 4294967296)
    (hrest : rest = [] ∨ ∃ t, rest = 0x2e :: t) :
    ∃ r, (r = Strtox.ok ∨ r = Strtox.extra) ∧
      strtoul (decimal n ++ rest) = ⟨r, (decimal n).length, some (n : Int)⟩ := by
  rcases hrest with rfl | ⟨t, rfl⟩
  · exact ⟨.ok, Or.inl rfl, by rw [List.append_nil]; exact strtoul_decimal_nil n hn⟩
  · exact ⟨.extra, Or.inr rfl, strtoul_decimal_extra n 0x2e t hn (by decide)⟩

/-- `_OID_CAPTURE_ARC` on a decimal numeral that is followed by '.' or the end of the text -/
theorem parseLoop_number (fuel : Nat) (st : PState) (pos : Nat) (acc : List Nat) (n : Nat)
    (rest : List Nat) (hst : st = .leadspace ∨ st = .waitdigits) (hn : n < 4294967296)
    (hrest : rest = [] ∨ ∃ t, rest = 0x2e :: t) :
    parseLoop (fuel + 1) st pos acc (decimal n ++ rest) =
      parseLoop fuel .aftervalue (pos + (decimal n).length) (acc ++ [n]) rest := by
  obtain ⟨r, hr, hstr⟩ := strtoul_decimal_sep n rest hn hrest
  obtain ⟨c, t, e, hc1, hc2⟩ := decimal_head n
  have htxt : decimal n ++ rest = c :: (t ++ rest) := by rw [e]; rfl
  have hdrop : (c :: (t ++ rest)).drop (decimal n).length = rest := by
    rw [← htxt]; exact List.drop_left
  rw [htxt] at hstr ⊢
  have hsp : isSpace c = false := by simp [isSpace]; omega
  have hdg : isDigitC c = true := by simp [isDigitC]; omega
  have hle : ((n : Nat) : Int) ≤ (arcMax : Int) := by rw [arcMax_eq]; omega
  rcases hst with rfl | rfl <;> rw [parseLoop] <;>
    simp only [hsp, hdg, Bool.false_eq_true, if_false, if_true, hstr, hdrop] <;>
    rw [if_neg (by omega)] <;>
    rcases hr with rfl | rfl <;> simp only [hle, if_true, Int.toNat_natCast]

end Asn1c.Proofs.Oid

namespace Asn1c.Proofs.Oid
open Asn1c Asn1c.Impl.Oid Asn1c.Spec.Oid Asn1c.Impl.Integer

theorem parseLoop_dot (fuel pos : Nat) (acc rest : List Nat) :
    parseLoop (fuel + 1) .aftervalue pos acc (0x2e :: rest) =
      parseLoop fuel .waitdigits (pos + 1) acc rest := by
  rw [parseLoop]
  have : isSpace 0x2e = false := by decide
  simp only [this, Bool.false_eq_true, if_false, if_true]

/-- the character loop of `parse_arcs` on a dotted numeral list, started where a number is expected -/
theorem parseLoop_dotted (arcs : List Nat) (hne : arcs ≠ []) (h32 : Arcs32 arcs) :
    ∀ (fuel : Nat) (st : PState) (pos : Nat) (acc : List Nat),
      (st = .leadspace ∨ st = .waitdigits) → (dotted arcs).length ≤ fuel →
      parseLoop fuel st pos acc (dotted arcs) = .ok (acc ++ arcs) (pos + (dotted arcs).length) := by
  fun_induction dotted arcs with
  | case1 => exact absurd rfl hne
  | case2 a =>
    intro fuel st pos acc hst hf
    have hl := decimal_length_pos a
    obtain ⟨f, rfl⟩ : ∃ f, fuel = f + 1 := ⟨fuel - 1, by omega⟩
    have := parseLoop_number f st pos acc a [] hst (arcs32_head h32) (Or.inl rfl)
    rw [List.append_nil] at this
    rw [this, parseLoop]
    rfl
  | case3 a b rest ih =>
    intro fuel st pos acc hst hf
    have hl := decimal_length_pos a
    simp only [List.length_append, List.length_cons] at hf
    obtain ⟨g, rfl⟩ : ∃ g, fuel = g + 1 + 1 := ⟨fuel - 2, by omega⟩
    rw [parseLoop_number (g + 1) st pos acc a _ hst (arcs32_head h32) (Or.inr ⟨_, rfl⟩),
      parseLoop_dot,
      ih (by simp) (arcs32_tail h32) g .waitdigits _ _ (Or.inr rfl) (by omega)]
    simp only [List.length_append, List.length_cons, List.append_assoc, List.singleton_append]
    congr 1
    omega

theorem parseArcs_dotted_eq (arcs : List Nat) (hne : arcs ≠ []) (h32 : Arcs32 arcs) :
    parseArcs (dotted arcs) = .ok arcs (dotted arcs).length := by
  unfold parseArcs
  rw [parseLoop_dotted arcs hne h32 _ .leadspace 0 [] (Or.inl rfl) (by omega)]
  simp

end Asn1c.Proofs.Oid
