/-
  Helper lemmas for Props/C14.lean (ownership model of Impl/Lifecycle.lean).
-/
import Asn1cModel.Impl.Lifecycle

set_option linter.unusedSimpArgs false

namespace Asn1c.Proofs.Lifecycle
open Asn1c.Impl.Lifecycle Asn1c.Impl.Lifecycle.Tree
open List

/-! ## heap -/

theorem alloc_eq_some {h h' : Heap} {i sz : Nat} (e : h.alloc i sz = some h') :
    i ∉ h.live ∧ h'.live = i :: h.live := by
  unfold Heap.alloc at e
  split at e
  · cases e
  · cases e; exact ⟨by assumption, rfl⟩

theorem free_eq_some {h h' : Heap} {i : Nat} (e : h.free i = some h') :
    i ∈ h.live ∧ h'.live = h.live.erase i := by
  unfold Heap.free at e
  split at e
  · cases e; exact ⟨by assumption, rfl⟩
  · cases e

theorem free_ok {h : Heap} {i : Nat} (hi : i ∈ h.live) : ∃ h', h.free i = some h' := by
  unfold Heap.free; simp [hi]

theorem alloc_ok {h : Heap} {i sz : Nat} (hi : i ∉ h.live) : ∃ h', h.alloc i sz = some h' := by
  unfold Heap.alloc; simp [hi]

/-- a successful run of `free`s: the ids were distinct and live, exactly they are gone afterwards -/
theorem freeAll_spec : ∀ (ids : List Id) {h h' : Heap}, h.live.Nodup → h.freeAll ids = some h' →
    ids.Nodup ∧ (∀ i ∈ ids, i ∈ h.live) ∧ h'.live.Nodup ∧ (∀ i, i ∈ h'.live ↔ i ∈ h.live ∧ i ∉ ids)
  | [], h, h', nd, e => by
    simp [Heap.freeAll] at e; subst e; simp [nd]
  | a :: r, h, h', nd, e => by
    simp only [Heap.freeAll] at e
    cases hf : h.free a with
    | none => simp [hf] at e
    | some h1 =>
      simp [hf] at e
      obtain ⟨ha, hl⟩ := free_eq_some hf
      have nd1 : h1.live.Nodup := by rw [hl]; exact nd.erase a
      obtain ⟨r1, r2, r3, r4⟩ := freeAll_spec r nd1 e
      have mem1 : ∀ i, i ∈ h1.live ↔ i ≠ a ∧ i ∈ h.live := by
        intro i; rw [hl]; exact nd.mem_erase_iff
      refine ⟨?_, ?_, r3, ?_⟩
      · refine List.nodup_cons.mpr ⟨?_, r1⟩
        intro har
        have := (mem1 a).mp (r2 a har)
        exact this.1 rfl
      · intro i hi
        rcases List.mem_cons.mp hi with rfl | hi
        · exact ha
        · exact ((mem1 i).mp (r2 i hi)).2
      · intro i
        rw [r4 i, mem1 i]
        simp only [List.mem_cons, not_or]
        constructor
        · rintro ⟨⟨h1, h2⟩, h3⟩; exact ⟨h2, h1, h3⟩
        · rintro ⟨h2, h1, h3⟩; exact ⟨⟨h1, h2⟩, h3⟩

/-- distinct live ids can always be released -/
theorem freeAll_ok : ∀ (ids : List Id) {h : Heap}, h.live.Nodup → ids.Nodup → (∀ i ∈ ids, i ∈ h.live) →
    ∃ h', h.freeAll ids = some h'
  | [], h, _, _, _ => ⟨h, rfl⟩
  | a :: r, h, nd, ndi, sub => by
    obtain ⟨h1, hf⟩ := free_ok (sub a (List.mem_cons_self ..))
    obtain ⟨_, hl⟩ := free_eq_some hf
    have nd1 : h1.live.Nodup := by rw [hl]; exact nd.erase a
    have ndc := List.nodup_cons.mp ndi
    have sub1 : ∀ i ∈ r, i ∈ h1.live := by
      intro i hi
      rw [hl, nd.mem_erase_iff]
      refine ⟨?_, sub i (List.mem_cons_of_mem _ hi)⟩
      rintro rfl; exact ndc.1 hi
    obtain ⟨h2, e2⟩ := freeAll_ok r nd1 ndc.2 sub1
    exact ⟨h2, by simp [Heap.freeAll, hf, e2]⟩

/-- a successful run of allocations: the ids were fresh and distinct, exactly they were added -/
theorem allocAll_spec : ∀ (as : List (Id × Nat)) {h h' : Heap}, h.live.Nodup → h.allocAll as = some h' →
    (∀ i ∈ as.map Prod.fst, i ∉ h.live) ∧ (as.map Prod.fst).Nodup ∧ h'.live.Nodup ∧
    (∀ i, i ∈ h'.live ↔ i ∈ as.map Prod.fst ∨ i ∈ h.live)
  | [], h, h', nd, e => by
    simp [Heap.allocAll] at e; subst e; simp [nd]
  | (a, sz) :: r, h, h', nd, e => by
    simp only [Heap.allocAll] at e
    cases hf : h.alloc a sz with
    | none => simp [hf] at e
    | some h1 =>
      simp [hf] at e
      obtain ⟨ha, hl⟩ := alloc_eq_some hf
      have nd1 : h1.live.Nodup := by rw [hl]; exact List.nodup_cons.mpr ⟨ha, nd⟩
      obtain ⟨r1, r2, r3, r4⟩ := allocAll_spec r nd1 e
      refine ⟨?_, ?_, r3, ?_⟩
      · intro i hi
        simp only [List.map_cons, List.mem_cons] at hi
        rcases hi with rfl | hi
        · exact ha
        · have := r1 i hi
          rw [hl] at this
          exact fun hh => this (List.mem_cons_of_mem _ hh)
      · simp only [List.map_cons]
        refine List.nodup_cons.mpr ⟨?_, r2⟩
        intro har
        have := r1 a har
        rw [hl] at this
        exact this (List.mem_cons_self ..)
      · intro i
        rw [r4 i, hl]
        simp only [List.map_cons, List.mem_cons]
        constructor
        · rintro (h1 | h1 | h1)
          · exact Or.inl (Or.inr h1)
          · exact Or.inl (Or.inl h1)
          · exact Or.inr h1
        · rintro ((h1 | h1) | h1)
          · exact Or.inr (Or.inl h1)
          · exact Or.inl h1
          · exact Or.inr (Or.inr h1)

/-! ## trees: `frees` visits exactly the owned blocks -/

theorem isEmpty_eq_true_iff {α} (l : List α) : l.isEmpty = true ↔ l = [] := by
  cases l <;> simp

mutual
theorem frees_perm_owned : ∀ t : Tree, wf t = true → (frees t).Perm (owned t)
  | .native, _ => by simp [frees, owned]
  | .null, _ => by simp [frees, owned]
  | .prim b, _ => by simp [frees, owned]
  | .ostr b s els, w => by
    cases s with
    | none =>
      simp [wf] at w
      simp [frees, owned, w]
    | some sid =>
      simp only [frees, owned, Option.toList, List.append_assoc]
      refine List.Perm.append_left _ ?_
      exact List.perm_append_comm
  | .seq c ms, w => by
    simp only [wf] at w
    simp only [frees, owned]
    exact List.Perm.append_right _ (freesL_perm_ownedL ms w)
  | .set ms, w => by
    simp only [wf] at w
    simp only [frees, owned]
    exact freesL_perm_ownedL ms w
  | .choice n p m, w => by
    simp only [wf, Bool.and_eq_true, Bool.or_eq_true, decide_eq_true_eq, isEmpty_eq_true_iff] at w
    simp only [frees, owned]
    rcases w with ⟨wm, hp | he⟩
    · rw [if_pos hp]; exact frees_perm_owned m wm
    · split
      · exact frees_perm_owned m wm
      · rw [he]
  | .setof a cx es, w => by
    simp only [wf, Bool.and_eq_true] at w
    simp only [frees, owned]
    exact List.Perm.append (List.Perm.append_right _ (freesL_perm_ownedL es w.2)) (frees_perm_owned cx w.1)
  | .boxed b t, w => by
    simp only [wf] at w
    simp only [frees, owned]
    exact List.Perm.append_right _ (frees_perm_owned t w)
theorem freesL_perm_ownedL : ∀ ts : List Tree, wfL ts = true → (freesL ts).Perm (ownedL ts)
  | [], _ => by simp [freesL, ownedL]
  | t :: ts, w => by
    simp only [wfL, Bool.and_eq_true] at w
    simp only [freesL, ownedL]
    exact List.Perm.append (frees_perm_owned t w.1) (freesL_perm_ownedL ts w.2)
end

mutual
theorem owned_zero : ∀ t : Tree, owned (zero t) = []
  | .native => by simp [zero, owned]
  | .null => by simp [zero, owned]
  | .prim _ => by simp [zero, owned]
  | .ostr _ _ _ => by simp [zero, owned]
  | .seq _ ms => by simp [zero, owned, ownedL_zeroL ms]
  | .set ms => by simp [zero, owned, ownedL_zeroL ms]
  | .choice _ _ _ => by simp [zero, owned]
  | .setof _ _ _ => by simp [zero, owned, ownedL]
  | .boxed _ _ => by simp [zero, owned]
theorem ownedL_zeroL : ∀ ts : List Tree, ownedL (zeroL ts) = []
  | [] => by simp [zeroL, ownedL]
  | t :: ts => by simp [zeroL, ownedL, owned_zero t, ownedL_zeroL ts]
end

mutual
theorem isZero_zero : ∀ t : Tree, isZero (zero t) = true
  | .native => by simp [zero, isZero]
  | .null => by simp [zero, isZero]
  | .prim _ => by simp [zero, isZero]
  | .ostr _ _ _ => by simp [zero, isZero]
  | .seq _ ms => by simp [zero, isZero, isZeroL_zeroL ms]
  | .set ms => by simp [zero, isZero, isZeroL_zeroL ms]
  | .choice _ _ _ => by simp [zero, isZero]
  | .setof _ _ _ => by simp [zero, isZero]
  | .boxed _ _ => by simp [zero, isZero]
theorem isZeroL_zeroL : ∀ ts : List Tree, isZeroL (zeroL ts) = true
  | [] => by simp [zeroL, isZeroL]
  | t :: ts => by simp [zeroL, isZeroL, isZero_zero t, isZeroL_zeroL ts]
end

mutual
theorem wf_zero : ∀ t : Tree, wf (zero t) = true
  | .native => by simp [zero, wf]
  | .null => by simp [zero, wf]
  | .prim _ => by simp [zero, wf]
  | .ostr _ _ _ => by simp [zero, wf]
  | .seq _ ms => by simp [zero, wf, wfL_zeroL ms]
  | .set ms => by simp [zero, wf, wfL_zeroL ms]
  | .choice _ _ _ => by simp [zero, wf, owned]
  | .setof _ _ _ => by simp [zero, wf, wfL]
  | .boxed _ _ => by simp [zero, wf]
theorem wfL_zeroL : ∀ ts : List Tree, wfL (zeroL ts) = true
  | [] => by simp [zeroL, wfL]
  | t :: ts => by simp [zeroL, wfL, wf_zero t, wfL_zeroL ts]
end

mutual
/-- an all-zero structure is a fixed point of the memset -/
theorem zero_of_isZero : ∀ t : Tree, isZero t = true → zero t = t
  | .native, _ => rfl
  | .null, _ => rfl
  | .prim b, h => by cases b <;> simp_all [isZero, zero]
  | .ostr b s els, h => by
    cases b <;> cases s <;> cases els <;> simp_all [isZero, zero]
  | .seq c ms, h => by
    cases c <;> simp_all [isZero, zero]
    exact zeroL_of_isZeroL ms h
  | .set ms, h => by
    simp only [isZero] at h
    simp [zero, zeroL_of_isZeroL ms h]
  | .choice n p m, h => by
    cases m <;> simp_all [isZero, zero]
  | .setof a cx es, h => by
    cases a <;> cases cx <;> cases es <;> simp_all [isZero, zero]
  | .boxed _ _, h => by simp [isZero] at h
theorem zeroL_of_isZeroL : ∀ ts : List Tree, isZeroL ts = true → zeroL ts = ts
  | [], _ => rfl
  | t :: ts, h => by
    simp only [isZeroL, Bool.and_eq_true] at h
    simp [zeroL, zero_of_isZero t h.1, zeroL_of_isZeroL ts h.2]
end

theorem zero_idem (t : Tree) : zero (zero t) = zero t := zero_of_isZero _ (isZero_zero t)


/-! ## frame lemmas: replacing one child / one subtree -/

/-- closes goals `l ~ l'` that hold by associativity/commutativity of `++`, given `Perm` facts
  turned into `count` equations in the context -/
macro "perm_ac" : tactic =>
  `(tactic| (rw [List.perm_iff_count]; intro a;
             simp only [List.count_append, List.count_cons, List.count_nil, List.count_singleton] ; omega))

theorem ownedL_set : ∀ (ms : List Tree) (i : Nat) (c : Tree), ms[i]? = some c →
    ∃ rest, (ownedL ms).Perm (owned c ++ rest) ∧ ∀ c', (ownedL (ms.set i c')).Perm (owned c' ++ rest)
  | [], i, c, h => by simp at h
  | t :: ts, 0, c, h => by
    simp at h; subst h
    exact ⟨ownedL ts, by simp [ownedL], fun c' => by simp [ownedL]⟩
  | t :: ts, i + 1, c, h => by
    simp at h
    obtain ⟨rest, h1, h2⟩ := ownedL_set ts i c h
    refine ⟨owned t ++ rest, ?_, ?_⟩
    · simp only [ownedL]
      have := fun a => h1.count_eq a
      rw [List.perm_iff_count]; intro a
      have := this a
      simp only [List.count_append] at this ⊢; omega
    · intro c'
      simp only [List.set_cons_succ, ownedL]
      have := fun a => (h2 c').count_eq a
      rw [List.perm_iff_count]; intro a
      have := this a
      simp only [List.count_append] at this ⊢; omega

theorem owned_setChild (t : Tree) (i : Nat) (c : Tree) (h : child? t i = some c) :
    ∃ rest, (owned t).Perm (owned c ++ rest) ∧ ∀ c', (owned (setChild t i c')).Perm (owned c' ++ rest) := by
  cases t with
  | native => simp [child?] at h
  | null => simp [child?] at h
  | prim b => simp [child?] at h
  | ostr b s els => simp [child?] at h
  | seq cx ms =>
    simp only [child?] at h
    obtain ⟨rest, h1, h2⟩ := ownedL_set ms i c h
    refine ⟨rest ++ cx.toList, ?_, fun c' => ?_⟩
    · simp only [owned, ← List.append_assoc]; exact h1.append_right _
    · simp only [setChild, owned, ← List.append_assoc]; exact (h2 c').append_right _
  | set ms =>
    simp only [child?] at h
    obtain ⟨rest, h1, h2⟩ := ownedL_set ms i c h
    exact ⟨rest, by simpa only [owned] using h1, fun c' => by simpa only [setChild, owned] using h2 c'⟩
  | choice n p m =>
    simp only [child?, Option.some.injEq] at h; subst h
    exact ⟨[], by simp [owned], fun c' => by simp [setChild, owned]⟩
  | boxed b x =>
    simp only [child?, Option.some.injEq] at h; subst h
    exact ⟨[b], by simp [owned], fun c' => by simp [setChild, owned]⟩
  | setof a cx es =>
    cases i with
    | zero =>
      simp only [child?, Option.some.injEq] at h; subst h
      refine ⟨ownedL es ++ a.toList, ?_, fun c' => ?_⟩
      · simp only [owned]; exact List.perm_append_comm
      · simp only [setChild, owned]; exact List.perm_append_comm
    | succ j =>
      simp only [child?] at h
      obtain ⟨rest, h1, h2⟩ := ownedL_set es j c h
      refine ⟨rest ++ a.toList ++ owned cx, ?_, fun c' => ?_⟩
      · simp only [owned, ← List.append_assoc]; exact (h1.append_right _).append_right _
      · simp only [setChild, owned, ← List.append_assoc]; exact ((h2 c').append_right _).append_right _

/-- replacing the subtree at a path changes the owned blocks exactly by the change at that subtree -/
theorem owned_replaceAt : ∀ (p : List Nat) (t s : Tree), subtreeAt p t = some s →
    ∃ rest, (owned t).Perm (owned s ++ rest) ∧ ∀ s', (owned (replaceAt p s' t)).Perm (owned s' ++ rest)
  | [], t, s, h => by
    simp only [subtreeAt, Option.some.injEq] at h; subst h
    exact ⟨[], by simp, fun s' => by simp [replaceAt]⟩
  | i :: p, t, s, h => by
    simp only [subtreeAt] at h
    cases hc : child? t i with
    | none => simp [hc] at h
    | some c =>
      simp [hc] at h
      obtain ⟨r1, a1, a2⟩ := owned_replaceAt p c s h
      obtain ⟨r2, b1, b2⟩ := owned_setChild t i c hc
      refine ⟨r1 ++ r2, ?_, fun s' => ?_⟩
      · have := fun a => a1.count_eq a
        have := fun a => b1.count_eq a
        rw [List.perm_iff_count]; intro a
        have e1 := a1.count_eq a
        have e2 := b1.count_eq a
        simp only [List.count_append] at e1 e2 ⊢; omega
      · simp only [replaceAt, hc]
        rw [List.perm_iff_count]; intro a
        have e1 := (a2 s').count_eq a
        have e2 := (b2 (replaceAt p s' c)).count_eq a
        simp only [List.count_append] at e1 e2 ⊢; omega

/-! ### consistency conditions along a path -/

theorem wfL_getElem : ∀ (ms : List Tree) (i : Nat) (c : Tree), wfL ms = true → ms[i]? = some c → wf c = true
  | [], i, c, _, h => by simp at h
  | t :: ts, 0, c, w, h => by
    simp at h; subst h; simp only [wfL, Bool.and_eq_true] at w; exact w.1
  | t :: ts, i + 1, c, w, h => by
    simp at h; simp only [wfL, Bool.and_eq_true] at w; exact wfL_getElem ts i c w.2 h

theorem wfL_set : ∀ (ms : List Tree) (i : Nat) (c' : Tree), wfL ms = true → wf c' = true → wfL (ms.set i c') = true
  | [], i, c', _, _ => by simp [wfL]
  | t :: ts, 0, c', w, w' => by
    simp only [wfL, Bool.and_eq_true] at w; simp [wfL, w', w.2]
  | t :: ts, i + 1, c', w, w' => by
    simp only [wfL, Bool.and_eq_true] at w; simp [wfL, w.1, wfL_set ts i c' w.2 w']

theorem wf_child (t : Tree) (i : Nat) (c : Tree) (w : wf t = true) (h : child? t i = some c) : wf c = true := by
  cases t with
  | native => simp [child?] at h
  | null => simp [child?] at h
  | prim b => simp [child?] at h
  | ostr b s els => simp [child?] at h
  | seq cx ms => simp only [child?] at h; simp only [wf] at w; exact wfL_getElem ms i c w h
  | set ms => simp only [child?] at h; simp only [wf] at w; exact wfL_getElem ms i c w h
  | choice n p m =>
    simp only [child?, Option.some.injEq] at h; subst h
    simp only [wf, Bool.and_eq_true] at w; exact w.1
  | boxed b x => simp only [child?, Option.some.injEq] at h; subst h; simpa only [wf] using w
  | setof a cx es =>
    simp only [wf, Bool.and_eq_true] at w
    cases i with
    | zero => simp only [child?, Option.some.injEq] at h; subst h; exact w.1
    | succ j => simp only [child?] at h; exact wfL_getElem es j c w.2 h

theorem wf_setChild (t : Tree) (i : Nat) (c' : Tree) (w : wf t = true) (w' : wf c' = true)
    (hp : choiceLive t = true) :
    wf (setChild t i c') = true := by
  cases t with
  | native => simpa [setChild] using w
  | null => simpa [setChild] using w
  | prim b => simpa [setChild] using w
  | ostr b s els => simpa [setChild] using w
  | seq cx ms => simp only [wf] at w; simp only [setChild, wf]; exact wfL_set ms i c' w w'
  | set ms => simp only [wf] at w; simp only [setChild, wf]; exact wfL_set ms i c' w w'
  | choice n p m =>
    simp [choiceLive] at hp
    simp [setChild, wf, w']
    exact Or.inl hp
  | boxed b x => simpa only [setChild, wf] using w'
  | setof a cx es =>
    simp only [wf, Bool.and_eq_true] at w
    cases i with
    | zero => simp [setChild, wf, w', w.2]
    | succ j => simp [setChild, wf, w.1, wfL_set es j c' w.2 w']

theorem wf_subtreeAt : ∀ (p : List Nat) (t s : Tree), wf t = true → subtreeAt p t = some s → wf s = true
  | [], t, s, w, h => by simp only [subtreeAt, Option.some.injEq] at h; subst h; exact w
  | i :: p, t, s, w, h => by
    simp only [subtreeAt] at h
    cases hc : child? t i with
    | none => simp [hc] at h
    | some c =>
      simp [hc] at h
      exact wf_subtreeAt p c s (wf_child t i c w hc) h

theorem wf_replaceAt : ∀ (p : List Nat) (t s' : Tree), wf t = true → wf s' = true → livePath p t = true →
    wf (replaceAt p s' t) = true
  | [], t, s', _, w', _ => by simpa [replaceAt] using w'
  | i :: p, t, s', w, w', lp => by
    simp only [replaceAt]
    simp only [livePath, Bool.and_eq_true] at lp
    cases hc : child? t i with
    | none => simpa using w
    | some c =>
      simp only [hc] at lp ⊢
      exact wf_setChild t i _ w (wf_replaceAt p c s' (wf_child t i c w hc) w' lp.2) lp.1

/-! ## edits -/

theorem ownedL_append : ∀ (a b : List Tree), ownedL (a ++ b) = ownedL a ++ ownedL b
  | [], b => by simp [ownedL]
  | t :: a, b => by simp [ownedL, ownedL_append a b]

theorem wfL_append : ∀ (a b : List Tree), wfL (a ++ b) = (wfL a && wfL b)
  | [], b => by simp [wfL]
  | t :: a, b => by simp [wfL, wfL_append a b, Bool.and_assoc]

theorem applyEdit_owned (e : Edit) (s : Tree) (o : EditOut) (h : applyEdit e s = some o) (w : wf s = true) :
    (owned o.node ++ o.rel).Perm (o.allocs.map Prod.fst ++ owned s) := by
  cases e <;> cases s <;> simp [applyEdit] at h
  case box.null id sz fresh =>
    obtain ⟨⟨h1, _⟩, rfl⟩ := h
    simp [owned, h1]
  case setBuf.prim id sz b => obtain ⟨rfl, rfl⟩ := h; simp [owned]
  case setBuf.ostr id sz b st els => obtain ⟨rfl, rfl⟩ := h; simp [owned]
  case reallocBuf.prim new sz b =>
    obtain ⟨_, rfl⟩ := h
    cases b <;> simp [owned]
  case reallocBuf.ostr new sz b st els =>
    obtain ⟨_, rfl⟩ := h
    simp only [owned, List.map_cons, List.map_nil]
    rw [List.perm_iff_count]; intro a
    simp only [List.count_append, List.count_cons, List.count_nil, Option.toList]; omega
  case freeBuf.prim b => subst h; simp [owned]
  case freeBuf.ostr b st els =>
    subst h
    simp only [owned, List.map_nil]
    rw [List.perm_iff_count]; intro a
    simp only [List.count_append, List.count_cons, List.count_nil, Option.toList]; omega
  case newStack.ostr id sz b st els =>
    obtain ⟨⟨rfl, rfl⟩, rfl⟩ := h
    simp only [owned, List.map_cons, List.map_nil]
    rw [List.perm_iff_count]; intro a
    simp only [List.count_append, List.count_cons, List.count_nil, Option.toList]; omega
  case pushEl.ostr id sz b st els =>
    obtain ⟨_, rfl⟩ := h
    simp only [owned, List.map_cons, List.map_nil]
    rw [List.perm_iff_count]; intro a
    simp only [List.count_append, List.count_cons, List.count_nil]; omega
  case setCtx.seq id sz c ms =>
    obtain ⟨rfl, rfl⟩ := h
    simp only [owned, List.map_cons, List.map_nil]
    rw [List.perm_iff_count]; intro a
    simp only [List.count_append, List.count_cons, List.count_nil, Option.toList]; omega
  case swapCtx.seq new sz c ms =>
    obtain ⟨_, rfl⟩ := h
    simp only [owned, List.map_cons, List.map_nil]
    rw [List.perm_iff_count]; intro a
    simp only [List.count_append, List.count_cons, List.count_nil, Option.toList]; omega
  case setPresent.choice k n p m => subst h; simp [owned]
  case growArray.setof new sz a cx es =>
    subst h
    simp only [owned, List.map_cons, List.map_nil]
    rw [List.perm_iff_count]; intro a
    simp only [List.count_append, List.count_cons, List.count_nil, Option.toList]; omega
  case addElem.setof a cx es =>
    split at h
    · split at h
      · cases h
        simp only [owned, ownedL_append, ownedL, List.map_nil, List.append_nil, List.nil_append]
        rw [List.perm_iff_count]; intro a
        simp only [List.count_append, List.count_nil, Option.toList]; omega
      · cases h
    · cases h
  case freeSlot.null => subst h; simp [owned]
  case freeSlot.boxed b t =>
    subst h
    simp only [wf] at w
    simp only [owned, List.map_nil, List.nil_append]
    exact (frees_perm_owned t w).append_right _
  all_goals (subst h; simp only [owned_zero, List.map_nil, List.nil_append]; exact frees_perm_owned _ w)

theorem applyEdit_wf (e : Edit) (s : Tree) (o : EditOut) (h : applyEdit e s = some o) (w : wf s = true)
    (lk : localOK e s = true) : wf o.node = true := by
  cases e <;> cases s <;> simp [applyEdit] at h
  case box.null id sz fresh => obtain ⟨⟨_, h2⟩, rfl⟩ := h; simpa [wf] using h2
  case setBuf.prim id sz b => obtain ⟨rfl, rfl⟩ := h; simp [wf]
  case setBuf.ostr id sz b st els => obtain ⟨rfl, rfl⟩ := h; simpa [wf] using w
  case reallocBuf.prim new sz b => obtain ⟨_, rfl⟩ := h; simp [wf]
  case reallocBuf.ostr new sz b st els => obtain ⟨_, rfl⟩ := h; simpa [wf] using w
  case freeBuf.prim b => subst h; simp [wf]
  case freeBuf.ostr b st els => subst h; simpa [wf] using w
  case newStack.ostr id sz b st els => obtain ⟨⟨rfl, rfl⟩, rfl⟩ := h; simp [wf]
  case pushEl.ostr id sz b st els => obtain ⟨h1, rfl⟩ := h; simp [wf, h1]
  case setCtx.seq id sz c ms => obtain ⟨rfl, rfl⟩ := h; simpa [wf] using w
  case swapCtx.seq new sz c ms => obtain ⟨_, rfl⟩ := h; simpa [wf] using w
  case setPresent.choice k n p m =>
    subst h
    simp only [wf, Bool.and_eq_true] at w
    simp only [localOK] at lk
    simp only [wf, Bool.and_eq_true]
    exact ⟨w.1, lk⟩
  case growArray.setof new sz a cx es => subst h; simpa [wf] using w
  case addElem.setof a cx es =>
    split at h
    · split at h
      · cases h
        simp only [wf, Bool.and_eq_true] at w
        simp [wf, wfL_append, wfL, w.2]
        simpa [wf] using w.1
      · cases h
    · cases h
  case freeSlot.null => subst h; simp [wf]
  case freeSlot.boxed b t => subst h; simp [wf]
  all_goals (subst h; exact wf_zero _)

/-! ## steps preserve the invariant -/

theorem step_cases {p : List Nat} {e : Edit} {st st' : State} (hs : step p e st = some st') :
    ∃ s o h1, subtreeAt p st.root = some s ∧ applyEdit e s = some o ∧ st.heap.allocAll o.allocs = some h1 ∧
      h1.freeAll o.rel = some st'.heap ∧ st'.root = replaceAt p o.node st.root := by
  unfold step at hs
  split at hs
  · cases hs
  · rename_i s hsub
    split at hs
    · cases hs
    · rename_i o ho
      split at hs
      · cases hs
      · rename_i h1 ha
        split at hs
        · cases hs
        · rename_i h2 hf
          cases hs
          exact ⟨s, o, h1, hsub, ho, ha, hf, rfl⟩

/-- the bookkeeping identity of a step: blocks referenced afterwards + blocks released = blocks allocated + blocks referenced before -/
theorem step_owned {p : List Nat} {e : Edit} {st : State} {s : Tree} {o : EditOut}
    (w : wf st.root = true) (hsub : subtreeAt p st.root = some s) (ho : applyEdit e s = some o) :
    (owned (replaceAt p o.node st.root) ++ o.rel).Perm (o.allocs.map Prod.fst ++ owned st.root) := by
  obtain ⟨rest, p1, p2⟩ := owned_replaceAt p st.root s hsub
  have p3 := applyEdit_owned e s o ho (wf_subtreeAt p st.root s w hsub)
  rw [List.perm_iff_count]; intro a
  have e1 := p1.count_eq a
  have e2 := (p2 o.node).count_eq a
  have e3 := p3.count_eq a
  simp only [List.count_append] at e1 e2 e3 ⊢; omega

theorem step_inv {p : List Nat} {e : Edit} {st st' : State} (I : Owned st)
    (lp : livePath p st.root = true) (lk : ∀ s, subtreeAt p st.root = some s → localOK e s = true)
    (hs : step p e st = some st') : Owned st' ∧ ((∀ i ∈ st.heap.live, i ∈ owned st.root) → ∀ i ∈ st'.heap.live, i ∈ owned st'.root) := by
  obtain ⟨s, o, h1, hsub, ho, ha, hf, hr⟩ := step_cases hs
  obtain ⟨ndl, ndo, sub, w⟩ := I
  obtain ⟨a1, a2, a3, a4⟩ := allocAll_spec o.allocs ndl ha
  obtain ⟨f1, f2, f3, f4⟩ := freeAll_spec o.rel a3 hf
  have pe := step_owned w hsub ho
  have ws : wf s = true := wf_subtreeAt p st.root s w hsub
  have nd1 : (o.allocs.map Prod.fst ++ owned st.root).Nodup := by
    refine List.nodup_append.mpr ⟨a2, ndo, ?_⟩
    intro x hx y hy hxy
    subst hxy
    exact a1 x hx (sub x hy)
  have nd2 : (owned (replaceAt p o.node st.root) ++ o.rel).Nodup := (pe.nodup_iff).mpr nd1
  obtain ⟨n1, _, n3⟩ := List.nodup_append.mp nd2
  refine ⟨⟨f3, by rw [hr]; exact n1, ?_, ?_⟩, ?_⟩
  · intro i hi
    rw [hr] at hi
    rw [f4 i, a4 i]
    refine ⟨?_, fun hir => n3 i hi i hir rfl⟩
    have : i ∈ o.allocs.map Prod.fst ++ owned st.root := pe.mem_iff.mp (List.mem_append_left _ hi)
    rcases List.mem_append.mp this with h | h
    · exact Or.inl h
    · exact Or.inr (sub i h)
  · rw [hr]
    exact wf_replaceAt p st.root o.node w (applyEdit_wf e s o ho ws (lk s hsub)) lp
  · intro ex i hi
    rw [hr]
    obtain ⟨h1', h2'⟩ := (f4 i).mp hi
    have : i ∈ o.allocs.map Prod.fst ++ owned st.root := by
      rcases (a4 i).mp h1' with h | h
      · exact List.mem_append_left _ h
      · exact List.mem_append_right _ (ex i h)
    rcases List.mem_append.mp (pe.mem_iff.mpr this) with h | h
    · exact h
    · exact absurd h h2'

/-! ## releasing what a structure owns -/

/-- releasing a permutation of (part of) what the structure references: succeeds, nothing is released twice,
  exactly those blocks disappear -/
theorem freeAll_of_perm {h : Heap} {ids ow : List Id} (ndl : h.live.Nodup) (pm : ids.Perm ow) (ndo : ow.Nodup)
    (sub : ∀ i ∈ ow, i ∈ h.live) :
    ids.Nodup ∧ ∃ h', h.freeAll ids = some h' ∧ h'.live.Nodup ∧ ∀ i, i ∈ h'.live ↔ i ∈ h.live ∧ i ∉ ow := by
  have ndi : ids.Nodup := (pm.nodup_iff).mpr ndo
  obtain ⟨h', e⟩ := freeAll_ok ids ndl ndi (fun i hi => sub i (pm.mem_iff.mp hi))
  obtain ⟨_, _, f3, f4⟩ := freeAll_spec ids ndl e
  refine ⟨ndi, h', e, f3, fun i => ?_⟩
  rw [f4 i]
  constructor
  · rintro ⟨a, b⟩; exact ⟨a, fun hh => b (pm.mem_iff.mpr hh)⟩
  · rintro ⟨a, b⟩; exact ⟨a, fun hh => b (pm.mem_iff.mp hh)⟩

/-- a released id cannot be released again -/
theorem free_twice {h h1 : Heap} {i : Id} (nd : h.live.Nodup) (e : h.free i = some h1) : h1.free i = none := by
  obtain ⟨_, hl⟩ := free_eq_some e
  unfold Heap.free
  have : i ∉ h1.live := by rw [hl, nd.mem_erase_iff]; simp
  simp [this]

/-! ## ledger conservation -/

theorem apply_conservation {h h' : Heap} {e : Ev} (a : h.apply e = some h') :
    (h'.live ++ e.freed).Perm (e.allocd ++ h.live) := by
  cases e with
  | alloc i s =>
    obtain ⟨_, hl⟩ := alloc_eq_some a
    simp [Ev.freed, Ev.allocd, hl]
  | free i =>
    obtain ⟨hm, hl⟩ := free_eq_some a
    simp only [Ev.freed, Ev.allocd, hl, List.nil_append]
    exact (List.perm_append_singleton _ _).trans (List.perm_cons_erase hm).symm
  | realloc o n s =>
    simp only [Heap.apply] at a
    cases hf : h.free o with
    | none => simp [hf] at a
    | some h1 =>
      simp [hf] at a
      obtain ⟨hm, hl⟩ := free_eq_some hf
      obtain ⟨_, hl2⟩ := alloc_eq_some a
      simp only [Ev.freed, Ev.allocd, hl2, hl]
      have := (List.perm_cons_erase hm)
      rw [List.perm_iff_count]; intro x
      have e1 := this.count_eq x
      simp only [List.count_append, List.count_cons, List.count_nil] at e1 ⊢; omega

theorem run_conservation : ∀ (evs : List Ev) {h h' : Heap}, h.run evs = some h' →
    (h'.live ++ evs.flatMap Ev.freed).Perm (evs.flatMap Ev.allocd ++ h.live)
  | [], h, h', e => by simp [Heap.run] at e; subst e; simp
  | ev :: r, h, h', e => by
    simp only [Heap.run] at e
    cases ha : h.apply ev with
    | none => simp [ha] at e
    | some h1 =>
      simp [ha] at e
      have p1 := apply_conservation ha
      have p2 := run_conservation r e
      simp only [List.flatMap_cons]
      rw [List.perm_iff_count]; intro x
      have e1 := p1.count_eq x
      have e2 := p2.count_eq x
      simp only [List.count_append] at e1 e2 ⊢; omega

theorem apply_nodup {h h' : Heap} {e : Ev} (nd : h.live.Nodup) (a : h.apply e = some h') : h'.live.Nodup := by
  cases e with
  | alloc i s => obtain ⟨hn, hl⟩ := alloc_eq_some a; rw [hl]; exact List.nodup_cons.mpr ⟨hn, nd⟩
  | free i => obtain ⟨_, hl⟩ := free_eq_some a; rw [hl]; exact nd.erase i
  | realloc o n s =>
    simp only [Heap.apply] at a
    cases hf : h.free o with
    | none => simp [hf] at a
    | some h1 =>
      simp [hf] at a
      obtain ⟨_, hl⟩ := free_eq_some hf
      obtain ⟨hn, hl2⟩ := alloc_eq_some a
      rw [hl2]; exact List.nodup_cons.mpr ⟨hn, by rw [hl]; exact nd.erase o⟩

/-! ## operations (lists of steps) -/

theorem okProg_take : ∀ (prog : List (List Nat × Edit)) (k : Nat) (st : State), okProg prog st → okProg (prog.take k) st
  | [], k, st, _ => by simp [okProg]
  | _ :: _, 0, st, _ => by simp [okProg]
  | (p, e) :: r, k + 1, st, h => by
    simp only [List.take_succ_cons, okProg] at h ⊢
    exact ⟨h.1, h.2.1, fun st' hs => okProg_take r k st' (h.2.2 st' hs)⟩

theorem eq_singleton_of_nodup {l : List Id} {b : Id} (nd : l.Nodup) (m : ∀ i, i ∈ l ↔ i = b) : l = [b] := by
  have : l.Perm [b] := (List.perm_ext_iff_of_nodup nd (by simp)).mpr (by simpa using m)
  exact this.eq_singleton

theorem step_isPtr {p : List Nat} {e : Edit} {st st' : State} (hp : isPtr st.root = true)
    (hs : step p e st = some st') : isPtr st'.root = true := by
  obtain ⟨s, o, h1, hsub, ho, _, _, hr⟩ := step_cases hs
  rw [hr]
  cases p with
  | nil =>
    simp only [subtreeAt, Option.some.injEq] at hsub; subst hsub
    simp only [replaceAt]
    cases hroot : st.root <;> simp [hroot, isPtr] at hp
    · cases e <;> simp [hroot, applyEdit] at ho
      · obtain ⟨_, rfl⟩ := ho; simp [isPtr]
      · subst ho; simp [isPtr]
      · subst ho; simp [isPtr, zero]
    · cases e <;> simp [hroot, applyEdit] at ho
      · subst ho; simp [isPtr]
  | cons i q =>
    simp only [replaceAt]
    cases hroot : st.root <;> simp [hroot, isPtr] at hp
    · simp [child?, isPtr]
    · simp [child?, setChild, isPtr]

theorem run_isPtr : ∀ (prog : List (List Nat × Edit)) {st st' : State}, isPtr st.root = true →
    run prog st = some st' → isPtr st'.root = true
  | [], st, st', hp, hr => by simp [run] at hr; subst hr; exact hp
  | (p, e) :: r, st, st', hp, hr => by
    simp only [run] at hr
    cases hs : step p e st with
    | none => simp [hs] at hr
    | some st1 =>
      simp [hs] at hr
      exact run_isPtr r (step_isPtr hp hs) hr


end Asn1c.Proofs.Lifecycle
